/-
  C06 deepening (round 4): C08's `remove ⊨ project` CARRIED TO THE PERSISTENCE MODEL.

  C08 (MW.Lemmas.RemoveInv / RemoveMain) proves on the ledger model that a multi-step wallet removal keeps the
  in-progress invariant `Mid` and ends in C01's invariant for the keystore view without the wallet.  Here the same
  is said of the OPERATIONS of the persistence model: RemoveWallet's flag (`opRemoveMark`), one iteration of the
  worker (`opRemoveStep`) and the worker loop (`removeLoop`), in the notation of Deepen3Sys (`lenv st ks`,
  `envAt st chain`, `readyB`).
    `ownOf_erase` …            the keystore view of the table without a wallet
    `remHyp_of`, `chainOK_erase`   C08's standing hypotheses from `ChainOK` and the keystore table
    `removeMark_mid`           the flag turns C01's invariant into `Mid`
    `removeStep_mid`           one iteration: failure changes nothing / `Mid` again / `RemDone`
    `removeLoop_done`          the worker loop ends in `RemDone`
-/
import MW.Lemmas.Deepen4World
import MW.Lemmas.RemoveMain
namespace MW.Lemmas.Deepen4
open MW MW.Model.Ledger MW.Model.Persist MW.Spec.Persist MW.Spec.Chain MW.Spec.Books MW.Lemmas.Ledger
  MW.Lemmas.PersistOp MW.Lemmas.PersistFault MW.Lemmas.PersistCrash MW.Lemmas.Deepen3 MW.Lemmas.ImportJoin
  MW.Lemmas.RemoveProj

-- ------------------------------------------------------------------ 1. the keystore table without a wallet

theorem erase_cons_rm (e : Wid × KsRec) (ks : AMap.T Wid KsRec) (w : Wid) :
    AMap.erase (e :: ks) w = if e.1 = w then AMap.erase ks w else e :: AMap.erase ks w := by
  unfold AMap.erase
  by_cases h : e.1 = w <;> simp [List.filter, h]

/-- every entry a keystore record contributes to the view carries the record's wallet id -/
theorem addrEntries_filter (w' : Wid) (r : KsRec) (w : Wid) :
    (addrEntries w' r).filter (fun e => e.2.1 != w) = if w' = w then [] else addrEntries w' r := by
  unfold addrEntries
  by_cases h : w' = w
  · rw [if_pos h, List.filter_eq_nil_iff]
    intro a ha
    obtain ⟨x, _, rfl⟩ := List.mem_map.1 ha
    simp [h]
  · rw [if_neg h, List.filter_eq_self]
    intro a ha
    obtain ⟨x, _, rfl⟩ := List.mem_map.1 ha
    simp [h]

/-- the keystore view of the table without `w` = the view without the entries of `w` (same order) -/
theorem ownOf_erase (ks : AMap.T Wid KsRec) (w : Wid) :
    ownOf (AMap.erase ks w) = (ownOf ks).filter (fun e => e.2.1 != w) := by
  induction ks with
  | nil => rfl
  | cons e ks ih =>
    rw [erase_cons_rm, ownOf_cons, List.filter_append, addrEntries_filter]
    by_cases h : e.1 = w
    · rw [if_pos h, if_pos h, ih]; rfl
    · rw [if_neg h, if_neg h, ownOf_cons, ih]

theorem ownMinus_erase {ks : AMap.T Wid KsRec} (hn : KeysNodup (ownOf ks)) (w : Wid) :
    OwnMinus (ownOf ks) (ownOf (AMap.erase ks w)) w := by
  rw [ownOf_erase]; exact ownMinus_filter hn w

theorem keysNodup_ownOf_erase {ks : AMap.T Wid KsRec} (hn : KeysNodup (ownOf ks)) (w : Wid) :
    KeysNodup (ownOf (AMap.erase ks w)) := by
  rw [ownOf_erase]
  unfold KeysNodup at *
  exact List.Nodup.sublist (List.Sublist.map _ List.filter_sublist) hn

theorem walletsOf_erase_nodup {ks : AMap.T Wid KsRec} (hn : (walletsOf ks).Nodup) (w : Wid) :
    (walletsOf (AMap.erase ks w)).Nodup := (erase_keys_sublist ks w).nodup hn

theorem mem_walletsOf_erase {ks : AMap.T Wid KsRec} {w x : Wid} :
    x ∈ walletsOf (AMap.erase ks w) ↔ x ∈ walletsOf ks ∧ x ≠ w := by
  unfold walletsOf AMap.erase
  simp only [List.mem_map, List.mem_filter, Bool.not_eq_true', decide_eq_false_iff_not]
  constructor
  · rintro ⟨e, ⟨he, hne⟩, rfl⟩; exact ⟨⟨e, he, rfl⟩, hne⟩
  · rintro ⟨⟨e, he, rfl⟩, hne⟩; exact ⟨e, ⟨he, hne⟩, rfl⟩

theorem walletsOf_erase_sub {ks : AMap.T Wid KsRec} {w : Wid} :
    ∀ x ∈ walletsOf (AMap.erase ks w), x ∈ walletsOf ks ∧ x ≠ w := fun _ hx => mem_walletsOf_erase.1 hx

-- ------------------------------------------------------------------ 2. C08's standing hypotheses

theorem addrsOf_of_get {ks : AMap.T Wid KsRec} {w : Wid} {r : KsRec} (hr : AMap.get ks w = some r) :
    addrsOf ks w = r.addrs.map (·.2) := by
  unfold addrsOf; rw [hr]

/-- the script hashes asyncRemove reads from the key cache are exactly the addresses the keystore view gives to `w` -/
theorem addrsOf_managed {ks : AMap.T Wid KsRec} (hKN : KeysNodup (ownOf ks)) (hnw : (walletsOf ks).Nodup)
    {w : Wid} {r : KsRec} (hr : AMap.get ks w = some r) (a : Addr) :
    (addrsOf ks w).contains a = isW (ownOf ks) w a := by
  rw [addrsOf_of_get hr]
  cases hc : (r.addrs.map (·.2)).contains a with
  | true =>
    obtain ⟨x, hx, hxa⟩ := List.mem_map.1 (List.contains_iff_mem.1 hc)
    have hm := own_mem_of_rec hr hx
    rw [hxa] at hm
    have hg : AMap.get (ownOf ks) a = some (w, false) := amap_get_of_mem hKN hm
    unfold isW; rw [hg]; simp
  | false =>
    cases hi : isW (ownOf ks) w a with
    | false => rfl
    | true =>
      exfalso
      unfold isW at hi
      cases hg : AMap.get (ownOf ks) a with
      | none => rw [hg] at hi; cases hi
      | some x =>
        rw [hg] at hi
        have hxw : x.1 = w := by simpa using hi
        have hm := amap_mem_of_get hg
        unfold ownOf at hm
        obtain ⟨e, he, hm'⟩ := List.mem_flatMap.1 hm
        obtain ⟨y, hy, hye⟩ := List.mem_map.1 hm'
        simp only [Prod.mk.injEq] at hye
        have hew : e.1 = w := by rw [← hxw, ← hye.2]
        have hge : AMap.get ks e.1 = some e.2 := amap_get_of_mem hnw (by exact he)
        rw [hew, hr] at hge
        have : a ∈ r.addrs.map (·.2) := by
          rw [Option.some.inj hge]
          exact List.mem_map.2 ⟨y, hy, hye.1⟩
        rw [List.contains_iff_mem.2 this] at hc
        cases hc

/-- C08's standing hypotheses for the removal of a stored wallet that manages at least one address, for ANY
    well-formed valid chain `X` of known blocks (the chain the store follows) and any position `chain` of the node -/
theorem remHyp_of {st : Static} {G : Block} {ks : AMap.T Wid KsRec} {chain X : List Block} {w : Wid} {r : KsRec}
    (hX : ChainOK (lenv st ks) G X) (hKN : KeysNodup (ownOf ks)) (hnw : (walletsOf ks).Nodup)
    (hr : AMap.get ks w = some r) (hne : r.addrs ≠ []) :
    MW.Lemmas.RemoveInv.RemHyp ((lenv st ks).ctx chain) w (addrsOf ks w) (ownOf (AMap.erase ks w)) X := by
  refine ⟨ownMinus_erase hKN w, fun a => addrsOf_managed hKN hnw hr a, ?_, hX.valid, hX.good.heights, hX.known⟩
  rw [addrsOf_of_get hr]
  intro h
  exact hne (List.map_eq_nil_iff.1 h)

/-- a chain that is fine for the keystore table is fine for the table without `w` -/
theorem chainOK_erase {st : Static} {G : Block} {ks : AMap.T Wid KsRec} {X : List Block}
    (hKN : KeysNodup (ownOf ks)) (w : Wid) (h : ChainOK (lenv st ks) G X) :
    ChainOK (lenv st (AMap.erase ks w)) G X :=
  ⟨h.good, chainValid_minus (ownMinus_erase hKN w) h.valid, h.genesis, h.known⟩

-- ------------------------------------------------------------------ 3. RemoveWallet's flag

/-- the ledger store after OnRemoveWallet's Update -/
def markedLed (s : Store) (w : Wid) (stt : WStatus) : Store :=
  { s with status := AMap.put s.status w { stt with removed := true } }

/-- fault-free RemoveWallet flag in closed form -/
theorem removeMark_closed (n : Nat) (w : Wid) (P : PStore) (V : PVol) :
    (opRemoveMark n w).run none P V =
      match AMap.get P.led.status w with
      | none => ⟨false, P, V, 0, 1 + n⟩
      | some stt =>
        if stt.synced.isSome then ⟨false, P, V, 0, 1 + n⟩
        else ⟨true, { P with led := markedLed P.led w stt }, { V with tasks := V.tasks ++ [.rem w] }, 1, 1 + n + 1⟩ := by
  rw [run_single_none n _ (opRemoveMark n w) rfl P V]
  simp only [opRemoveMark, markedLed]
  cases hst : AMap.get P.led.status w with
  | none => rfl
  | some stt => by_cases hs : stt.synced.isSome = true <;> simp [hs]

/-- the flag makes `w` unready … -/
theorem readyB_marked_self (s : Store) (w : Wid) (stt : WStatus) : readyB (markedLed s w stt) w = false := by
  unfold readyB markedLed
  simp [AMap.get_put]

/-- … and changes nobody else's readiness -/
theorem readyB_marked_other (s : Store) (w : Wid) (stt : WStatus) {w' : Wid} (h : w' ≠ w) :
    readyB (markedLed s w stt) w' = readyB s w' := by
  unfold readyB markedLed
  simp only [AMap.get_put]
  rw [if_neg (fun e => h e.symm)]

/-- C01's invariant survives the flag: its `bal` field speaks of ready wallets only -/
theorem inv_marked {c : Ctx} {s : Store} {X : List Block} (hI : MW.Lemmas.Ledger.Inv c s X) (w : Wid) (stt : WStatus) :
    MW.Lemmas.Ledger.Inv c (markedLed s w stt) X := by
  refine ⟨⟨hI.agree.unspent, hI.agree.credits, hI.agree.debits, hI.agree.game, hI.agree.txrecs, hI.agree.blocks⟩,
    ?_, hI.sync, hI.syncedTo⟩
  intro w' hw'
  obtain ⟨hm, hrb⟩ := mem_readyWallets.1 hw'
  have hne : w' ≠ w := by
    intro e
    rw [e, readyB_marked_self] at hrb
    cases hrb
  rw [readyB_marked_other s w stt hne] at hrb
  exact hI.bal w' (mem_readyWallets.2 ⟨hm, hrb⟩)

/-- RemoveWallet's flag turns C01's invariant into the invariant of a removal in progress -/
theorem removeMark_mid {c : Ctx} {w : Wid} {addrs : List Addr} {own' : Own} {X : List Block}
    (H : MW.Lemmas.RemoveInv.RemHyp c w addrs own' X) {s : Store} {stt : WStatus} (hI : MW.Lemmas.Ledger.Inv c s X)
    (hn : KeysNodup s.credits) (hp : ∀ e ∈ s.pendCred, e.1.1 ∉ idsOf (occs X)) (_hst : AMap.get s.status w = some stt) :
    MW.Lemmas.RemoveInv.Mid c w addrs own' { s with status := AMap.put s.status w { stt with removed := true } } X :=
  MW.Lemmas.RemoveInv.inv_to_mid H (inv_marked hI w stt) hn hp

/-- the flag as an operation of the persistence model: on success the store is `markedLed`, keystore and key cache
    are untouched, the removal task is queued, nobody else's readiness changes and `Mid` holds -/
theorem removeMark_run_mid {c : Ctx} {w : Wid} {addrs : List Addr} {own' : Own} {X : List Block}
    (H : MW.Lemmas.RemoveInv.RemHyp c w addrs own' X) (n : Nat) {P : PStore} (V : PVol)
    (hI : MW.Lemmas.Ledger.Inv c P.led X) (hn : KeysNodup P.led.credits)
    (hp : ∀ e ∈ P.led.pendCred, e.1.1 ∉ idsOf (occs X))
    (hok : ((opRemoveMark n w).run none P V).ok = true) :
    ∃ stt, AMap.get P.led.status w = some stt ∧ stt.synced = none ∧
      ((opRemoveMark n w).run none P V).P = { P with led := markedLed P.led w stt } ∧
      ((opRemoveMark n w).run none P V).V = { V with tasks := V.tasks ++ [.rem w] } ∧
      MW.Lemmas.RemoveInv.Mid c w addrs own' ((opRemoveMark n w).run none P V).P.led X ∧
      (∀ w', w' ≠ w → readyB ((opRemoveMark n w).run none P V).P.led w' = readyB P.led w') ∧
      readyB ((opRemoveMark n w).run none P V).P.led w = false := by
  rw [removeMark_closed] at hok ⊢
  cases hst : AMap.get P.led.status w with
  | none => rw [hst] at hok; cases hok
  | some stt =>
    rw [hst] at hok
    simp only at hok ⊢
    by_cases hs : stt.synced.isSome = true
    · rw [if_pos hs] at hok; cases hok
    · rw [if_neg hs]
      refine ⟨stt, rfl, by simpa using hs, rfl, rfl, removeMark_mid H hI hn hp hst,
        fun w' hw' => readyB_marked_other _ _ _ hw', readyB_marked_self _ _ _⟩

/-- a failed flag (wallet unknown or still importing) changes nothing -/
theorem removeMark_fail (n : Nat) (w : Wid) (P : PStore) (V : PVol)
    (hok : ((opRemoveMark n w).run none P V).ok = false) :
    ((opRemoveMark n w).run none P V).P = P ∧ ((opRemoveMark n w).run none P V).V = V := by
  rw [removeMark_closed] at hok ⊢
  cases hst : AMap.get P.led.status w with
  | none => exact ⟨rfl, rfl⟩
  | some stt =>
    rw [hst] at hok
    simp only at hok ⊢
    by_cases hs : stt.synced.isSome = true
    · rw [if_pos hs]; exact ⟨rfl, rfl⟩
    · rw [if_neg hs] at hok; cases hok

-- ------------------------------------------------------------------ 4. one iteration through the persistence model

/-- what a removal step does to the status table: nothing, unless it finishes — then the entry of `w` goes -/
theorem removeStep_model_status {limit : Nat} {c : Ctx} {w : Wid} {addrs : List Addr} {s : Store}
    {o : Model.Remove.StepOut} (hne : addrs ≠ []) (h : Model.Remove.removeStep limit c w addrs s = some o) :
    (o.finish = false → o.s.status = s.status) ∧ (o.finish = true → o.s.status = AMap.erase s.status w) := by
  have key : ∀ o1, Model.Remove.removeRelevantTx limit c s addrs = some o1 → o1.s.status = s.status := by
    intro o1 hr
    have := (MW.Lemmas.RemoveStep.removeRelevantTx_spec limit c s addrs o1 hne hr).ids
    simp only [MW.Lemmas.RemoveStep.core, Prod.mk.injEq] at this
    exact this.2.2.2.2.2.1
  constructor
  · intro hf
    exact key o (MW.Lemmas.RemoveMain.removeStep_parked h hf)
  · intro hf
    obtain ⟨o1, hr, _, hos⟩ := MW.Lemmas.RemoveMain.removeStep_finish h hf
    have e8 : o.s.status = AMap.erase o1.s.status w := by rw [hos]; rfl
    rw [e8, key o1 hr]

/-- THE REMOVAL HAS FINISHED: keystore bucket and cache entry of `w` are gone, so is its status; the ledger store
    satisfies C01's invariant for the keystore table without `w`, every owner of an address of that table is ready,
    and nobody else's readiness changed since `P0` -/
structure RemDone (st : Static) (ks : AMap.T Wid KsRec) (w : Wid) (chain X : List Block) (P0 P' : PStore) (V' : PVol) :
    Prop where
  pks : P'.ks = AMap.erase ks w
  vkeys : V'.keys = AMap.erase ks w
  gone : AMap.get P'.led.status w = none
  inv : MW.Lemmas.Ledger.Inv ((lenv st (AMap.erase ks w)).ctx chain) P'.led X
  allReady : AllReady (ownOf (AMap.erase ks w)) (readyWallets P'.led (walletsOf (AMap.erase ks w)))
  others : ∀ w', w' ≠ w → readyB P'.led w' = readyB P0.led w'

/-- `RemDone` only looks at the status table of the store it started from -/
theorem RemDone.from_status {st : Static} {ks : AMap.T Wid KsRec} {w : Wid} {chain X : List Block} {P0 P1 P' : PStore}
    {V' : PVol} (h : RemDone st ks w chain X P1 P' V') (hs : P1.led.status = P0.led.status) :
    RemDone st ks w chain X P0 P' V' :=
  ⟨h.pks, h.vkeys, h.gone, h.inv, h.allReady, fun w' hw' => by
    rw [h.others w' hw']; unfold readyB; rw [hs]⟩

/-- ONE ITERATION of the worker's removal, from a state in which the wallet is stored and cached, the removal is in
    progress (`Mid`), the wallet's status entry is still there and every OTHER owner of an address is ready:
    (a) a failed iteration changes neither the store nor the volatile state;
    (b) one that succeeds without finishing keeps keystore, key cache, task queue, tip copy and the status table,
        and `Mid` holds again;
    (c) the finishing one reaches `RemDone`. -/
theorem removeStep_mid {st : Static} {ks : AMap.T Wid KsRec} {w : Wid} {r : KsRec} {chain X : List Block}
    (limit nR : Nat) {P : PStore} {V : PVol} {stt : WStatus}
    (hks : P.ks = ks) (hkeys : V.keys = ks) (hr : AMap.get ks w = some r)
    (H : MW.Lemmas.RemoveInv.RemHyp ((lenv st ks).ctx chain) w (addrsOf ks w) (ownOf (AMap.erase ks w)) X)
    (hM : MW.Lemmas.RemoveInv.Mid ((lenv st ks).ctx chain) w (addrsOf ks w) (ownOf (AMap.erase ks w)) P.led X)
    (hst : AMap.get P.led.status w = some stt)
    (hOth : ∀ a w' ch, AMap.get (ownOf ks) a = some (w', ch) → w' ≠ w → readyB P.led w' = true)
    (res : Res) (hres : res = (opRemoveStep limit nR (envAt st chain) w (addrsOf V.keys w)).run none P V) :
    (res.ok = false → res.P = P ∧ res.V = V) ∧
    (res.ok = true → removeDone res.P w = false →
      res.P.ks = ks ∧ res.V.keys = ks ∧ res.V.tasks = V.tasks ∧ res.V.led.best = V.led.best ∧
      MW.Lemmas.RemoveInv.Mid ((lenv st ks).ctx chain) w (addrsOf ks w) (ownOf (AMap.erase ks w)) res.P.led X ∧
      res.P.led.status = P.led.status) ∧
    (res.ok = true → removeDone res.P w = true →
      RemDone st ks w chain X P res.P res.V ∧ res.V.tasks = V.tasks ∧ res.V.led.best = V.led.best) := by
  have hrP : AMap.get P.ks w = some r := by rw [hks]; exact hr
  have hrV : AMap.get V.keys w = some r := by rw [hkeys]; exact hr
  have hcl := removeStep_none limit nR (envAt st chain) w (addrsOf ks w) P V r r hrP hrV
  rw [ctx_eq, hkeys] at hcl
  rw [hkeys] at hres
  rw [← hres] at hcl
  clear hres
  cases hs : Model.Remove.removeStep limit ((lenv st ks).ctx chain) w (addrsOf ks w) P.led with
  | none =>
    rw [hs] at hcl
    simp only at hcl
    rw [hcl]
    exact ⟨fun _ => ⟨rfl, rfl⟩, fun h => (by cases h), fun h => (by cases h)⟩
  | some o =>
    rw [hs] at hcl
    simp only at hcl
    obtain ⟨hnf, hf⟩ := removeStep_model_status H.ne hs
    by_cases hfin : o.finish = true
    · rw [if_pos hfin] at hcl
      rw [hcl]
      have hstat := hf hfin
      have hgone : AMap.get o.s.status w = none := by rw [hstat, AMap.get_erase]; simp
      refine ⟨fun h => (by cases h), fun _ hd => ?_, fun _ _ => ⟨⟨?_, ?_, hgone, ?_, ?_, ?_⟩, rfl, rfl⟩⟩
      · exfalso
        have : removeDone ({ led := o.s, ks := AMap.erase P.ks w } : PStore) w = true := by
          unfold removeDone; rw [hgone]; rfl
        rw [this] at hd; cases hd
      · show AMap.erase P.ks w = _; rw [hks]
      · show AMap.erase V.keys w = _; rw [hkeys]
      · exact MW.Lemmas.RemoveMain.finish_projects limit H hM (walletsOf (AMap.erase ks w))
          (fun x hx => (mem_walletsOf_erase.1 hx).1) hs hfin
      · refine MW.Lemmas.RemoveMain.finish_allReady limit H (walletsOf (AMap.erase ks w)) ?_ hs hfin
        intro a w' ch hg hne
        exact mem_readyWallets.2 ⟨mem_walletsOf_erase.2 ⟨(own_wallet_mem (amap_mem_of_get hg)).1, hne⟩,
          hOth a w' ch hg hne⟩
      · intro w' hw'
        show readyB o.s w' = readyB P.led w'
        unfold readyB
        rw [hstat, AMap.get_erase, if_neg (fun e => hw' e.symm)]
    · have hfin' : o.finish = false := by simpa using hfin
      rw [if_neg hfin] at hcl
      rw [hcl]
      have hstat := hnf hfin'
      refine ⟨fun h => (by cases h), fun _ _ => ⟨hks, rfl, rfl, rfl, ?_, hstat⟩, fun _ hd => ?_⟩
      · exact MW.Lemmas.RemoveMain.parked_step limit H hM hs hfin'
      · exfalso
        have : removeDone ({ led := o.s, ks := P.ks } : PStore) w = false := by
          unfold removeDone; rw [hstat, hst]; rfl
        rw [this] at hd; cases hd

-- ------------------------------------------------------------------ 5. the worker loop

theorem readyB_of_status {s s' : Store} (h : s'.status = s.status) (w : Wid) : readyB s' w = readyB s w := by
  unfold readyB; rw [h]

/-- THE WORKER LOOP of a removal, however many iterations it takes (while nothing else happens): if it comes to an
    end, it ends in `RemDone`; task queue and tip copy are what they were -/
theorem removeLoop_done {st : Static} {ks : AMap.T Wid KsRec} {w : Wid} {r : KsRec} {chain X : List Block}
    (limit nR : Nat) (hr : AMap.get ks w = some r)
    (H : MW.Lemmas.RemoveInv.RemHyp ((lenv st ks).ctx chain) w (addrsOf ks w) (ownOf (AMap.erase ks w)) X) :
    ∀ (fuel : Nat) {P : PStore} {V : PVol} {stt : WStatus} {P' : PStore} {V' : PVol},
    P.ks = ks → V.keys = ks →
    MW.Lemmas.RemoveInv.Mid ((lenv st ks).ctx chain) w (addrsOf ks w) (ownOf (AMap.erase ks w)) P.led X →
    AMap.get P.led.status w = some stt →
    (∀ a w' ch, AMap.get (ownOf ks) a = some (w', ch) → w' ≠ w → readyB P.led w' = true) →
    removeLoop limit nR (envAt st chain) w (addrsOf ks w) fuel P V = some (P', V') →
    RemDone st ks w chain X P P' V' ∧ V'.tasks = V.tasks ∧ V'.led.best = V.led.best := by
  intro fuel
  induction fuel with
  | zero => intro P V stt P' V' _ _ _ _ _ h; cases h
  | succ f ih =>
    intro P V stt P' V' hks hkeys hM hst hOth h
    rw [removeLoop_succ] at h
    obtain ⟨_, hb, hc⟩ := removeStep_mid limit nR hks hkeys hr H hM hst hOth
      ((opRemoveStep limit nR (envAt st chain) w (addrsOf ks w)).run none P V) (by rw [hkeys])
    generalize (opRemoveStep limit nR (envAt st chain) w (addrsOf ks w)).run none P V = res at h hb hc
    by_cases hok : res.ok = true
    · simp only [hok, Bool.not_true, Bool.false_eq_true, if_false] at h
      by_cases hd : removeDone res.P w = true
      · simp only [hd, if_true, Option.some.injEq, Prod.mk.injEq] at h
        rw [← h.1, ← h.2]
        exact hc hok hd
      · have hd' : removeDone res.P w = false := by simpa using hd
        simp only [hd', Bool.false_eq_true, if_false] at h
        obtain ⟨k1, k2, k3, k4, k5, k6⟩ := hb hok hd'
        obtain ⟨d, t, b⟩ := ih (stt := stt) k1 k2 k5 (by rw [k6]; exact hst)
          (fun a w' ch hg hne => by rw [readyB_of_status k6]; exact hOth a w' ch hg hne) h
        exact ⟨d.from_status k6, t.trans k3, b.trans k4⟩
    · have hok' : res.ok = false := by simpa using hok
      simp [hok'] at h

/-- the same from C01's invariant and RemoveWallet's flag: the flag, then the worker loop -/
theorem removeMark_loop_done {st : Static} {G : Block} {ks : AMap.T Wid KsRec} {w : Wid} {r : KsRec} {chain X : List Block}
    (limit nR n : Nat) {P : PStore} {V : PVol} {P' : PStore} {V' : PVol} (fuel : Nat)
    (hX : ChainOK (lenv st ks) G X) (hKN : KeysNodup (ownOf ks)) (hnw : (walletsOf ks).Nodup)
    (hr : AMap.get ks w = some r) (hne : r.addrs ≠ [])
    (hks : P.ks = ks) (hkeys : V.keys = ks)
    (hI : MW.Lemmas.Ledger.Inv ((lenv st ks).ctx chain) P.led X) (hn : KeysNodup P.led.credits)
    (hp : ∀ e ∈ P.led.pendCred, e.1.1 ∉ idsOf (occs X))
    (hOth : ∀ a w' ch, AMap.get (ownOf ks) a = some (w', ch) → w' ≠ w → readyB P.led w' = true)
    (hok : ((opRemoveMark n w).run none P V).ok = true)
    (h : removeLoop limit nR (envAt st chain) w (addrsOf ks w) fuel ((opRemoveMark n w).run none P V).P
      ((opRemoveMark n w).run none P V).V = some (P', V')) :
    RemDone st ks w chain X P P' V' ∧ V'.tasks = V.tasks ++ [.rem w] ∧ V'.led.best = V.led.best ∧
      ChainOK (lenv st (AMap.erase ks w)) G X := by
  have H := remHyp_of (chain := chain) hX hKN hnw hr hne
  obtain ⟨stt, hst, _, eP, eV, hM, hoth, _⟩ := removeMark_run_mid H n V hI hn hp hok
  rw [eP, eV] at h
  rw [eP] at hM hoth
  obtain ⟨d, t, b⟩ := removeLoop_done limit nR hr H fuel (P := { P with led := markedLed P.led w stt })
    (V := { V with tasks := V.tasks ++ [.rem w] }) (stt := { stt with removed := true }) hks hkeys hM
    (by show AMap.get (AMap.put P.led.status w _) w = _; rw [AMap.get_put, if_pos rfl])
    (fun a w' ch hg hne' => by rw [hoth w' hne']; exact hOth a w' ch hg hne') h
  refine ⟨⟨d.pks, d.vkeys, d.gone, d.inv, d.allReady, fun w' hw' => ?_⟩, t, b, chainOK_erase hKN w hX⟩
  rw [d.others w' hw']
  exact hoth w' hw'

end MW.Lemmas.Deepen4
