/-
  C06 deepening (round 4): C08's `remove ⊨ project` CARRIED TO THE PERSISTENCE MODEL.

  C08 (MW.Lemmas.RemoveInv / RemoveMain) proves on the ledger model that a multi-step wallet removal keeps the
  in-progress invariant `Mid` and ends in C01's invariant for the keystore view without the wallet.  Here the same
  is said of the OPERATIONS of the persistence model: RemoveWallet's flag (`opRemoveMark`), one iteration of the
  worker (`opRemoveStep`) and the worker loop (`removeLoop`), in the notation of Deepen3Sys (`lenv st ks`,
  `envAt st chain`, `readyB`).
    `ownOf_erase` …            the keystore view of the table without a wallet
    `remHyp_of`, `chainOK_erase`   C08's standing hypotheses from `ChainOK` and the keystore table
    `removeMark_mid`           the flag turns C01's invariant into `Mid`
    `removeStep_mid`           one iteration: failure changes nothing / `Mid` again / `RemDone`
    `removeLoop_done`          the worker loop ends in `RemDone`
-/
import MW.Lemmas.Deepen4World
import MW.Lemmas.RemoveMain
namespace MW.Lemmas.Deepen4
open MW MW.Model.Ledger MW.Model.Persist MW.Spec.Persist MW.Spec.Chain MW.Spec.Books MW.Lemmas.Ledger
  MW.Lemmas.PersistOp MW.Lemmas.PersistFault MW.Lemmas.PersistCrash MW.Lemmas.Deepen3 MW.Lemmas.ImportJoin
  MW.Lemmas.RemoveProj

-- ------------------------------------------------------------------ 1. the keystore table without a wallet

theorem erase_cons_rm (e : Wid × KsRec) (ks : AMap.T Wid KsRec) (w : Wid) :
    AMap.erase (e :: ks) w = if e.1 = w then AMap.erase ks w else e :: AMap.erase ks w := by
  unfold AMap.erase
  by_cases h : e.1 = w <;> simp [List.filter, h]

/-- every entry a keystore record contributes to the view carries the record's wallet id -/
theorem addrEntries_filter (w' : Wid) (r : KsRec) (w : Wid) :
    (addrEntries w' r).filter (fun e => e.2.1 != w) = if w' = w then [] else addrEntries w' r := by
  unfold addrEntries
  by_cases h : w' = w
  · rw [if_pos h, List.filter_eq_nil_iff]
    intro a ha
    obtain ⟨x, _, rfl⟩ := List.mem_map.1 ha
    simp [h]
  · rw [if_neg h, List.filter_eq_self]
    intro a ha
    obtain ⟨x, _, rfl⟩ := List.mem_map.1 ha
    simp [h]

/-- the keystore view of the table without `w` = the view without the entries of `w` (same order) -/
theorem ownOf_erase (ks : AMap.T Wid KsRec) (w : Wid) :
    ownOf (AMap.erase ks w) = (ownOf ks).filter (fun e => e.2.1 != w) := by
  induction ks with
  | nil => rfl
  | cons e ks ih =>
    rw [erase_cons_rm, ownOf_cons, List.filter_append, addrEntries_filter]
    by_cases h : e.1 = w
    · rw [if_pos h, if_pos h, ih]; rfl
    · rw [if_neg h, if_neg h, ownOf_cons, ih]

theorem ownMinus_erase {ks : AMap.T Wid KsRec} (hn : KeysNodup (ownOf ks)) (w : Wid) :
    OwnMinus (ownOf ks) (ownOf (AMap.erase ks w)) w := by
  rw [ownOf_erase]; exact ownMinus_filter hn w

theorem keysNodup_ownOf_erase {ks : AMap.T Wid KsRec} (hn : KeysNodup (ownOf ks)) (w : Wid) :
    KeysNodup (ownOf (AMap.erase ks w)) := by
  rw [ownOf_erase]
  unfold KeysNodup at *
  exact List.Nodup.sublist (List.Sublist.map _ List.filter_sublist) hn

theorem walletsOf_erase_nodup {ks : AMap.T Wid KsRec} (hn : (walletsOf ks).Nodup) (w : Wid) :
    (walletsOf (AMap.erase ks w)).Nodup := (erase_keys_sublist ks w).nodup hn

theorem mem_walletsOf_erase {ks : AMap.T Wid KsRec} {w x : Wid} :
    x ∈ walletsOf (AMap.erase ks w) ↔ x ∈ walletsOf ks ∧ x ≠ w := by
  unfold walletsOf AMap.erase
  simp only [List.mem_map, List.mem_filter, Bool.not_eq_true', decide_eq_false_iff_not]
  constructor
  · rintro ⟨e, ⟨he, hne⟩, rfl⟩; exact ⟨⟨e, he, rfl⟩, hne⟩
  · rintro ⟨⟨e, he, rfl⟩, hne⟩; exact ⟨e, ⟨he, hne⟩, rfl⟩

theorem walletsOf_erase_sub {ks : AMap.T Wid KsRec} {w : Wid} :
    ∀ x ∈ walletsOf (AMap.erase ks w), x ∈ walletsOf ks ∧ x ≠ w := fun _ hx => mem_walletsOf_erase.1 hx

-- ------------------------------------------------------------------ 2. C08's standing hypotheses

theorem addrsOf_of_get {ks : AMap.T Wid KsRec} {w : Wid} {r : KsRec} (hr : AMap.get ks w = some r) :
    addrsOf ks w = r.addrs.map (·.2) := by
  unfold addrsOf; rw [hr]

/-- the script hashes asyncRemove reads from the key cache are exactly the addresses the keystore view gives to `w` -/
theorem addrsOf_managed {ks : AMap.T Wid KsRec} (hKN : KeysNodup (ownOf ks)) (hnw : (walletsOf ks).Nodup)
    {w : Wid} {r : KsRec} (hr : AMap.get ks w = some r) (a : Addr) :
    (addrsOf ks w).contains a = isW (ownOf ks) w a := by
  rw [addrsOf_of_get hr]
  cases hc : (r.addrs.map (·.2)).contains a with
  | true =>
    obtain ⟨x, hx, hxa⟩ := List.mem_map.1 (List.contains_iff_mem.1 hc)
    have hm := own_mem_of_rec hr hx
    rw [hxa] at hm
    have hg : AMap.get (ownOf ks) a = some (w, false) := amap_get_of_mem hKN hm
    unfold isW; rw [hg]; simp
  | false =>
    cases hi : isW (ownOf ks) w a with
    | false => rfl
    | true =>
      exfalso
      unfold isW at hi
      cases hg : AMap.get (ownOf ks) a with
      | none => rw [hg] at hi; cases hi
      | some x =>
        rw [hg] at hi
        have hxw : x.1 = w := by simpa using hi
        have hm := amap_mem_of_get hg
        unfold ownOf at hm
        obtain ⟨e, he, hm'⟩ := List.mem_flatMap.1 hm
        obtain ⟨y, hy, hye⟩ := List.mem_map.1 hm'
        simp only [Prod.mk.injEq] at hye
        have hew : e.1 = w := by rw [← hxw, ← hye.2]
        have hge : AMap.get ks e.1 = some e.2 := amap_get_of_mem hnw (by exact he)
        rw [hew, hr] at hge
        have : a ∈ r.addrs.map (·.2) := by
          rw [Option.some.inj hge]
          exact List.mem_map.2 ⟨y, hy, hye.1⟩
        rw [List.contains_iff_mem.2 this] at hc
        cases hc

/-- C08's standing hypotheses for the removal of a stored wallet that manages at least one address, for ANY
    well-formed valid chain `X` of known blocks (the chain the store follows) and any position `chain` of the node -/
theorem remHyp_of {st : Static} {G : Block} {ks : AMap.T Wid KsRec} {chain X : List Block} {w : Wid} {r : KsRec}
    (hX : ChainOK (lenv st ks) G X) (hKN : KeysNodup (ownOf ks)) (hnw : (walletsOf ks).Nodup)
    (hr : AMap.get ks w = some r) (hne : r.addrs ≠ []) :
    MW.Lemmas.RemoveInv.RemHyp ((lenv st ks).ctx chain) w (addrsOf ks w) (ownOf (AMap.erase ks w)) X := by
  refine ⟨ownMinus_erase hKN w, fun a => addrsOf_managed hKN hnw hr a, ?_, hX.valid, hX.good.heights, hX.known⟩
  rw [addrsOf_of_get hr]
  intro h
  exact hne (List.map_eq_nil_iff.1 h)

/-- a chain that is fine for the keystore table is fine for the table without `w` -/
theorem chainOK_erase {st : Static} {G : Block} {ks : AMap.T Wid KsRec} {X : List Block}
    (hKN : KeysNodup (ownOf ks)) (w : Wid) (h : ChainOK (lenv st ks) G X) :
    ChainOK (lenv st (AMap.erase ks w)) G X :=
  ⟨h.good, chainValid_minus (ownMinus_erase hKN w) h.valid, h.genesis, h.known⟩

-- ------------------------------------------------------------------ 3. RemoveWallet's flag

/-- the ledger store after OnRemoveWallet's Update -/
def markedLed (s : Store) (w : Wid) (stt : WStatus) : Store :=
  { s with status := AMap.put s.status w { stt with removed := true } }

/-- fault-free RemoveWallet flag in closed form -/
theorem removeMark_closed (n : Nat) (w : Wid) (P : PStore) (V : PVol) :
    (opRemoveMark n w).run none P V =
      match AMap.get P.led.status w with
      | none => ⟨false, P, V, 0, 1 + n⟩
      | some stt =>
        if stt.synced.isSome then ⟨false, P, V, 0, 1 + n⟩
        else ⟨true, { P with led := markedLed P.led w stt }, { V with tasks := V.tasks ++ [.rem w] }, 1, 1 + n + 1⟩ := by
  rw [run_single_none n _ (opRemoveMark n w) rfl P V]
  simp only [opRemoveMark, markedLed]
  cases hst : AMap.get P.led.status w with
  | none => rfl
  | some stt => by_cases hs : stt.synced.isSome = true <;> simp [hs]

/-- the flag makes `w` unready … -/
theorem readyB_marked_self (s : Store) (w : Wid) (stt : WStatus) : readyB (markedLed s w stt) w = false := by
  unfold readyB markedLed
  simp [AMap.get_put]

/-- … and changes nobody else's readiness -/
theorem readyB_marked_other (s : Store) (w : Wid) (stt : WStatus) {w' : Wid} (h : w' ≠ w) :
    readyB (markedLed s w stt) w' = readyB s w' := by
  unfold readyB markedLed
  simp only [AMap.get_put]
  rw [if_neg (fun e => h e.symm)]

/-- C01's invariant survives the flag: its `bal` field speaks of ready wallets only -/
theorem inv_marked {c : Ctx} {s : Store} {X : List Block} (hI : MW.Lemmas.Ledger.Inv c s X) (w : Wid) (stt : WStatus) :
    MW.Lemmas.Ledger.Inv c (markedLed s w stt) X := by
  refine ⟨⟨hI.agree.unspent, hI.agree.credits, hI.agree.debits, hI.agree.game, hI.agree.txrecs, hI.agree.blocks⟩,
    ?_, hI.sync, hI.syncedTo⟩
  intro w' hw'
  obtain ⟨hm, hrb⟩ := mem_readyWallets.1 hw'
  have hne : w' ≠ w := by
    intro e
    rw [e, readyB_marked_self] at hrb
    cases hrb
  rw [readyB_marked_other s w stt hne] at hrb
  exact hI.bal w' (mem_readyWallets.2 ⟨hm, hrb⟩)

/-- RemoveWallet's flag turns C01's invariant into the invariant of a removal in progress -/
theorem removeMark_mid {c : Ctx} {w : Wid} {addrs : List Addr} {own' : Own} {X : List Block}
    (H : MW.Lemmas.RemoveInv.RemHyp c w addrs own' X) {s : Store} {stt : WStatus} (hI : MW.Lemmas.Ledger.Inv c s X)
    (hn : KeysNodup s.credits) (hp : ∀ e ∈ s.pendCred, e.1.1 ∉ idsOf (occs X)) (_hst : AMap.get s.status w = some stt) :
    MW.Lemmas.RemoveInv.Mid c w addrs own' { s with status := AMap.put s.status w { stt with removed := true } } X :=
  MW.Lemmas.RemoveInv.inv_to_mid H (inv_marked hI w stt) hn hp

/-- the flag as an operation of the persistence model: on success the store is `markedLed`, keystore and key cache
    are untouched, the removal task is queued, nobody else's readiness changes and `Mid` holds -/
theorem removeMark_run_mid {c : Ctx} {w : Wid} {addrs : List Addr} {own' : Own} {X : List Block}
    (H : MW.Lemmas.RemoveInv.RemHyp c w addrs own' X) (n : Nat) {P : PStore} (V : PVol)
    (hI : MW.Lemmas.Ledger.Inv c P.led X) (hn : KeysNodup P.led.credits)
    (hp : ∀ e ∈ P.led.pendCred, e.1.1 ∉ idsOf (occs X))
    (hok : ((opRemoveMark n w).run none P V).ok = true) :
    ∃ stt, AMap.get P.led.status w = some stt ∧ stt.synced = none ∧
      ((opRemoveMark n w).run none P V).P = { P with led := markedLed P.led w stt } ∧
      ((opRemoveMark n w).run none P V).V = { V with tasks := V.tasks ++ [.rem w] } ∧
      MW.Lemmas.RemoveInv.Mid c w addrs own' ((opRemoveMark n w).run none P V).P.led X ∧
      (∀ w', w' ≠ w → readyB ((opRemoveMark n w).run none P V).P.led w' = readyB P.led w') ∧
      readyB ((opRemoveMark n w).run none P V).P.led w = false := by
  rw [removeMark_closed] at hok ⊢
  cases hst : AMap.get P.led.status w with
  | none => rw [hst] at hok; cases hok
  | some stt =>
    rw [hst] at hok
    simp only at hok ⊢
    by_cases hs : stt.synced.isSome = true
    · rw [if_pos hs] at hok; cases hok
    · rw [if_neg hs]
      refine ⟨stt, rfl, by simpa using hs, rfl, rfl, removeMark_mid H hI hn hp hst,
        fun w' hw' => readyB_marked_other _ _ _ hw', readyB_marked_self _ _ _⟩

/-- a failed flag (wallet unknown or still importing) changes nothing -/
theorem removeMark_fail (n : Nat) (w : Wid) (P : PStore) (V : PVol)
    (hok : ((opRemoveMark n w).run none P V).ok = false) :
    ((opRemoveMark n w).run none P V).P = P ∧ ((opRemoveMark n w).run none P V).V = V := by
  rw [removeMark_closed] at hok ⊢
  cases hst : AMap.get P.led.status w with
  | none => exact ⟨rfl, rfl⟩
  | some stt =>
    rw [hst] at hok
    simp only at hok ⊢
    by_cases hs : stt.synced.isSome = true
    · rw [if_pos hs]; exact ⟨rfl, rfl⟩
    · rw [if_neg hs] at hok; cases hok

end MW.Lemmas.Deepen4
