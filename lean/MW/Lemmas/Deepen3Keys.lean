/-
  C06 deepening (round 3), part 3: the keystore side of the bridge — what CreateWallet and NewAddress do to
  C01's keystore view (`ownOf` of the key cache) and why C01's step invariant survives them.
-/
import MW.Lemmas.Deepen3Sys
namespace MW.Lemmas.Deepen3
open MW MW.Model.Ledger MW.Model.Persist MW.Spec.Persist MW.Spec.Chain MW.Spec.Books MW.Lemmas.Ledger
  MW.Lemmas.PersistOp MW.Lemmas.PersistFault MW.Lemmas.PersistCrash

-- ------------------------------------------------------------------ association maps

section AMapLemmas
variable {K V : Type} [DecidableEq K]

theorem amap_mem_of_get {m : AMap.T K V} {k : K} {v : V} (h : AMap.get m k = some v) : (k, v) ∈ m := by
  induction m with
  | nil => simp [AMap.get] at h
  | cons a m ih =>
    rw [AMap.get_cons] at h
    by_cases ha : a.1 = k
    · simp only [ha, if_true, Option.some.injEq] at h
      have : a = (k, v) := by cases a; simp_all
      rw [this]; exact List.mem_cons_self
    · simp only [ha, if_false] at h
      exact List.mem_cons_of_mem _ (ih h)

theorem amap_get_none_iff {m : AMap.T K V} {k : K} : AMap.get m k = none ↔ k ∉ m.map (·.1) := by
  induction m with
  | nil => simp [AMap.get]
  | cons a m ih =>
    rw [AMap.get_cons]
    by_cases ha : a.1 = k
    · simp [ha]
    · simp only [ha, if_false, List.map_cons, List.mem_cons, not_or]
      rw [ih]
      exact ⟨fun h => ⟨fun e => ha e.symm, h⟩, fun h => h.2⟩

theorem amap_get_of_mem {m : AMap.T K V} (hn : (m.map (·.1)).Nodup) {k : K} {v : V} (h : (k, v) ∈ m) :
    AMap.get m k = some v := by
  induction m with
  | nil => cases h
  | cons a m ih =>
    rw [AMap.get_cons]
    simp only [List.map_cons, List.nodup_cons] at hn
    rcases List.mem_cons.1 h with h | h
    · subst h; simp
    · have : a.1 ≠ k := by
        intro e
        apply hn.1
        rw [e]
        exact List.mem_map.2 ⟨(k, v), h, rfl⟩
      simp only [this, if_false]
      exact ih hn.2 h

theorem erase_erase (m : AMap.T K V) (k : K) : AMap.erase (AMap.erase m k) k = AMap.erase m k := by
  unfold AMap.erase; rw [List.filter_filter]; simp

theorem put_put (m : AMap.T K V) (k : K) (v v' : V) : AMap.put (AMap.put m k v) k v' = AMap.put m k v' := by
  unfold AMap.put
  have : AMap.erase ((k, v) :: AMap.erase m k) k = AMap.erase (AMap.erase m k) k := by
    unfold AMap.erase; simp [List.filter]
  rw [this, erase_erase]

theorem erase_keys_sublist (m : AMap.T K V) (k : K) : ((AMap.erase m k).map (·.1)).Sublist (m.map (·.1)) := by
  unfold AMap.erase
  exact (List.filter_sublist).map _

theorem erase_not_mem (m : AMap.T K V) (k : K) : k ∉ (AMap.erase m k).map (·.1) := by
  rw [← amap_get_none_iff, AMap.get_erase]; simp

theorem put_keys_nodup (m : AMap.T K V) (k : K) (v : V) (h : (m.map (·.1)).Nodup) :
    ((AMap.put m k v).map (·.1)).Nodup := by
  unfold AMap.put
  simp only [List.map_cons, List.nodup_cons]
  exact ⟨erase_not_mem m k, (erase_keys_sublist m k).nodup h⟩

/-- a map with distinct keys splits at a key it contains; erasing the key removes exactly that entry -/
theorem amap_split {m : AMap.T K V} (hn : (m.map (·.1)).Nodup) {k : K} {v : V} (h : AMap.get m k = some v) :
    ∃ l₁ l₂, m = l₁ ++ (k, v) :: l₂ ∧ AMap.erase m k = l₁ ++ l₂ := by
  obtain ⟨l₁, l₂, he⟩ := List.append_of_mem (amap_mem_of_get h)
  refine ⟨l₁, l₂, he, ?_⟩
  subst he
  simp only [List.map_append, List.map_cons] at hn
  have hn' := List.nodup_append.1 hn
  have h1 : k ∉ l₁.map (·.1) := fun hm => hn'.2.2 k hm k List.mem_cons_self rfl
  have h2 : k ∉ l₂.map (·.1) := (List.nodup_cons.1 hn'.2.1).1
  have e1 : AMap.erase l₁ k = l₁ := erase_of_get_none l₁ k (amap_get_none_iff.2 h1)
  have e2 : AMap.erase l₂ k = l₂ := erase_of_get_none l₂ k (amap_get_none_iff.2 h2)
  unfold AMap.erase at e1 e2 ⊢
  rw [List.filter_append, e1]
  simp [List.filter, e2]

/-- with distinct keys on both sides, a map that is a permutation of another one plus one new entry reads like
    the other one everywhere else -/
theorem amap_get_perm_cons {m m' : AMap.T K V} {a : K} {v0 : V} (hp : m'.Perm ((a, v0) :: m))
    (hn : (m'.map (·.1)).Nodup) {k : K} (hk : k ≠ a) : AMap.get m' k = AMap.get m k := by
  have hkeys : (m'.map (·.1)).Perm (a :: m.map (·.1)) := by simpa using hp.map (·.1)
  have hnm : (m.map (·.1)).Nodup := (List.nodup_cons.1 (hkeys.nodup_iff.1 hn)).2
  cases hg : AMap.get m k with
  | none =>
    rw [amap_get_none_iff] at hg ⊢
    intro hm
    rcases List.mem_cons.1 (hkeys.mem_iff.1 hm) with h | h
    · exact hk h
    · exact hg h
  | some v =>
    apply amap_get_of_mem hn
    exact hp.mem_iff.2 (List.mem_cons_of_mem _ (amap_mem_of_get hg))

end AMapLemmas


-- ------------------------------------------------------------------ the keystore view

/-- the entries one keystore record contributes to the keystore view -/
def addrEntries (w : Wid) (r : KsRec) : Own := r.addrs.map (fun a => (a.2, (w, false)))

theorem ownOf_cons (e : Wid × KsRec) (ks : AMap.T Wid KsRec) : ownOf (e :: ks) = addrEntries e.1 e.2 ++ ownOf ks := by
  simp [ownOf, addrEntries]

theorem ownOf_append (l₁ l₂ : AMap.T Wid KsRec) : ownOf (l₁ ++ l₂) = ownOf l₁ ++ ownOf l₂ := by
  simp [ownOf]

theorem own_wallet_mem {ks : AMap.T Wid KsRec} {a : Addr} {w : Wid} {ch : Bool}
    (h : (a, (w, ch)) ∈ ownOf ks) : w ∈ walletsOf ks ∧ ch = false := by
  unfold ownOf at h
  obtain ⟨e, he, hm⟩ := List.mem_flatMap.1 h
  obtain ⟨x, _, hx⟩ := List.mem_map.1 hm
  simp only [Prod.mk.injEq] at hx
  exact ⟨List.mem_map.2 ⟨e, he, hx.2.1⟩, hx.2.2.symm⟩

theorem own_mem_of_rec {ks : AMap.T Wid KsRec} {w : Wid} {r : KsRec} (h : AMap.get ks w = some r) {x : Nat × Addr}
    (hx : x ∈ r.addrs) : (x.2, (w, false)) ∈ ownOf ks := by
  unfold ownOf
  exact List.mem_flatMap.2 ⟨(w, r), amap_mem_of_get h, List.mem_map.2 ⟨x, hx, rfl⟩⟩

theorem walletsOf_put_new (ks : AMap.T Wid KsRec) (w : Wid) (r : KsRec) (h : AMap.get ks w = none) :
    walletsOf (AMap.put ks w r) = w :: walletsOf ks := by
  unfold AMap.put walletsOf
  rw [erase_of_get_none ks w h]; rfl

theorem ownOf_put_new (ks : AMap.T Wid KsRec) (w : Wid) (h : AMap.get ks w = none) :
    ownOf (AMap.put ks w {}) = ownOf ks := by
  unfold AMap.put
  rw [erase_of_get_none ks w h, ownOf_cons]
  rfl

/-- NewAddress adds exactly one entry to the keystore view (as a multiset) -/
theorem ownOf_put_issue (st : Static) {ks : AMap.T Wid KsRec} (hn : (walletsOf ks).Nodup) {w : Wid} {r : KsRec}
    (h : AMap.get ks w = some r) :
    (ownOf (AMap.put ks w (issueRec st w r))).Perm ((st.derive w r.next, (w, false)) :: ownOf ks) ∧
    (walletsOf (AMap.put ks w (issueRec st w r))).Perm (walletsOf ks) := by
  obtain ⟨l₁, l₂, he, her⟩ := amap_split hn h
  have hA : addrEntries w (issueRec st w r) = addrEntries w r ++ [(st.derive w r.next, (w, false))] := by
    simp [addrEntries, issueRec]
  constructor
  · unfold AMap.put
    rw [her, ownOf_cons, ownOf_append, hA]
    conv => rhs; rw [he, ownOf_append, ownOf_cons]
    simp only [List.append_assoc, List.singleton_append]
    refine (List.perm_middle).trans (List.Perm.cons _ ?_)
    exact List.perm_append_comm_assoc _ _ _
  · unfold AMap.put walletsOf
    rw [her]
    conv => rhs; rw [he]
    simp only [List.map_cons, List.map_append]
    exact (List.perm_middle).symm

/-- issuing an address the transactions `ocs` do not pay changes the owner of none of their outputs -/
theorem ownAgree_issue (st : Static) {ks : AMap.T Wid KsRec} (hn : (walletsOf ks).Nodup)
    (hna : ((ownOf ks).map (·.1)).Nodup) {w : Wid} {r : KsRec} (h : AMap.get ks w = some r)
    (hfresh : AMap.get (ownOf ks) (st.derive w r.next) = none) {ocs : List Occ}
    (hp : PaysNot ocs (st.derive w r.next)) :
    OwnAgree (ownOf (AMap.put ks w (issueRec st w r))) (ownOf ks) ocs := by
  obtain ⟨hperm, _⟩ := ownOf_put_issue st hn h
  have hn' : ((ownOf (AMap.put ks w (issueRec st w r))).map (·.1)).Nodup := by
    have hk : ((ownOf (AMap.put ks w (issueRec st w r))).map (·.1)).Perm
        (st.derive w r.next :: (ownOf ks).map (·.1)) := by simpa using hperm.map (·.1)
    rw [hk.nodup_iff, List.nodup_cons]
    exact ⟨amap_get_none_iff.1 hfresh, hna⟩
  intro oc hoc o ho
  unfold ownerOf
  by_cases hr : o.cls = .raw
  · simp [hr]
  · simp only [hr, if_false]
    have hne : o.addr ≠ st.derive w r.next := fun e => hr (hp oc hoc o ho e)
    exact amap_get_perm_cons hperm hn' hne


-- ------------------------------------------------------------------ CreateWallet

theorem readyB_created (P : PStore) (w w' : Wid) :
    readyB (createdStore P w).led w' = if w = w' then true else readyB P.led w' := by
  unfold readyB createdStore
  simp only [AMap.get_put]
  by_cases h : w = w' <;> simp [h]

theorem totalU_zero {L : List UCoin} {w : Wid} (h : ∀ u ∈ L, u.wallet ≠ w) : totalU L w = 0 := by
  unfold totalU
  have : L.filter (fun u => decide (u.wallet = w)) = [] := by
    rw [List.filter_eq_nil_iff]
    intro u hu
    simpa using h u hu
  rw [this]; rfl

/-- no ledger entry of a valid chain belongs to a wallet the keystore does not know -/
theorem ledger_wallet_known {p : Params} {ks : AMap.T Wid KsRec} {S : List Block} (hv : ChainValid (ownOf ks) S)
    {u : UCoin} (hu : u ∈ (bookOf p (ownOf ks) S).L) : u.wallet ∈ walletsOf ks := by
  have := (loc_bookOf (p := p) hv).1.own u hu
  unfold ownerOf at this
  by_cases hr : u.out.cls = .raw
  · simp [hr] at this
  · simp only [hr, if_false] at this
    exact (own_wallet_mem (amap_mem_of_get this)).1

theorem chainOK_congr {e e' : Ledger.Env} {G : Block} {c : List Block} (ho : e'.own = e.own) (hk : e'.known = e.known)
    (h : ChainOK e G c) : ChainOK e' G c :=
  ⟨h.good, by rw [ho]; exact h.valid, h.genesis, by rw [hk]; exact h.known⟩

theorem mem_readyWallets {s : Store} {ws : List Wid} {w : Wid} :
    (readyWallets s ws).contains w = true ↔ w ∈ ws ∧ readyB s w = true := by
  rw [readyWallets_filter, List.contains_iff_mem, List.mem_filter]

/-- CREATEWALLET keeps the invariant: the new wallet is ready, owns no address and has balance 0 = what the
    stored chain pays it; a duplicate name changes nothing -/
theorem JQ_create {st : Static} {G : Block} (n : Nat) (cr : Bool) {x : SysQ} {k : Skel} (w : Wid)
    (hJ : JQ st G x k) : JQ st G (stepQ st n cr x (.create w)) (skStep st k (.create w)) := by
  obtain ⟨hc, hks, hkeys, ⟨S, hJS, c, hcm, hSc⟩, hN, hcur, hK⟩ := hJ
  by_cases hs : (AMap.get k.ks w).isSome = true
  · have h1 : stepQ st n cr x (.create w) = x := by
      simp only [stepQ]
      rw [create_none]
      rw [hks, if_pos hs]
    have h2 : skStep st k (.create w) = k := by simp only [skStep]; rw [if_pos hs]
    rw [h1, h2]
    exact ⟨hc, hks, hkeys, ⟨S, hJS, c, hcm, hSc⟩, hN, hcur, hK⟩
  · have hnone : AMap.get k.ks w = none := by simpa using hs
    have h1 : stepQ st n cr x (.create w) =
        { x with P := createdStore x.P w, V := { x.V with keys := AMap.put x.V.keys w {} } } := by
      simp only [stepQ]
      rw [create_none]
      rw [hks, if_neg hs]
    have h2 : skStep st k (.create w) = { k with ks := AMap.put k.ks w {} } := by
      simp only [skStep]; rw [if_neg hs]
    have hwnot : w ∉ walletsOf k.ks := amap_get_none_iff.1 hnone
    have he' : lenv st (AMap.put k.ks w {}) = { lenv st k.ks with wallets := w :: walletsOf k.ks } := by
      unfold lenv
      rw [ownOf_put_new k.ks w hnone, walletsOf_put_new k.ks w {} hnone]
    obtain ⟨hI, hv, hS, hAR, hne, hq, hq0, hq1⟩ := hJS
    have hI : Ledger.Inv ((lenv st k.ks).ctx x.chain) x.P.led S := hI
    have hAR : AllReady (ownOf k.ks) (readyWallets x.P.led (walletsOf k.ks)) := hAR
    rw [h1, h2]
    -- readiness in the new store
    have hrb : ∀ w', w' ≠ w → readyB (createdStore x.P w).led w' = readyB x.P.led w' := by
      intro w' hw'
      rw [readyB_created, if_neg (fun e => hw' e.symm)]
    have hrw : readyB (createdStore x.P w).led w = true := by rw [readyB_created, if_pos rfl]
    have hold : ∀ w', (readyWallets x.P.led (walletsOf k.ks)).contains w' = true →
        (readyWallets (createdStore x.P w).led (w :: walletsOf k.ks)).contains w' = true := by
      intro w' h
      rw [mem_readyWallets] at h ⊢
      have hne' : w' ≠ w := fun e => hwnot (e ▸ h.1)
      exact ⟨List.mem_cons_of_mem _ h.1, by rw [hrb w' hne']; exact h.2⟩
    refine ⟨hc, by show (createdStore x.P w).ks = _; unfold createdStore; rw [hks],
      by show AMap.put x.V.keys w {} = _; rw [hkeys], ⟨S, ?_, c, hcm, hSc⟩, ?_, hcur, ?_⟩
    · rw [he']
      refine ⟨⟨⟨hI.agree.unspent, hI.agree.credits, hI.agree.debits, hI.agree.game, hI.agree.txrecs,
          hI.agree.blocks⟩, ?_, hI.sync, hI.syncedTo⟩, hv, chainOK_congr (e := lenv st k.ks) rfl rfl hS, ?_, ?_, hq, hq0, hq1⟩
      · intro w' hw'
        have hw'' : w' ∈ w :: walletsOf k.ks ∧ readyB (createdStore x.P w).led w' = true := mem_readyWallets.1 hw'
        by_cases hww : w' = w
        · subst hww
          show AMap.get (AMap.put x.P.led.balance w' 0) w' = _
          rw [AMap.get_put, if_pos rfl]
          have : totalU (bookOf st.p (ownOf k.ks) S).L w' = 0 :=
            totalU_zero (fun u hu e => hwnot (e ▸ ledger_wallet_known hS.valid hu))
          exact congrArg some this.symm
        · show AMap.get (AMap.put x.P.led.balance w 0) w' = _
          rw [AMap.get_put, if_neg (fun e => hww e.symm)]
          apply hI.bal w'
          rw [mem_readyWallets]
          rcases List.mem_cons.1 hw''.1 with h | h
          · exact absurd h hww
          · exact ⟨h, by rw [← hrb w' hww]; exact hw''.2⟩
      · intro a w'' ch hg
        exact hold w'' (hAR a w'' ch hg)
      · have : (readyWallets (createdStore x.P w).led (w :: walletsOf k.ks)).contains w = true :=
          mem_readyWallets.2 ⟨List.mem_cons_self, hrw⟩
        show (readyWallets (createdStore x.P w).led (w :: walletsOf k.ks)).isEmpty = false
        cases hl : readyWallets (createdStore x.P w).led (w :: walletsOf k.ks) with
        | nil => rw [hl] at this; simp at this
        | cons a t => rfl
    · rw [he']; exact chainOK_congr (e := lenv st k.ks) rfl rfl hN
    · refine ⟨?_, ?_, ?_⟩
      · show (walletsOf (AMap.put k.ks w {})).Nodup
        rw [walletsOf_put_new k.ks w {} hnone]
        exact List.nodup_cons.2 ⟨hwnot, hK.nodupW⟩
      · show ((ownOf (AMap.put k.ks w {})).map (·.1)).Nodup
        rw [ownOf_put_new k.ks w hnone]; exact hK.nodupA
      · intro w' hw'
        rw [walletsOf_put_new k.ks w {} hnone] at hw'
        rcases List.mem_cons.1 hw' with h | h
        · rw [h]; exact hrw
        · have hne' : w' ≠ w := fun e => hwnot (e ▸ h)
          show readyB (createdStore x.P w).led w' = true
          rw [hrb w' hne']; exact hK.ready w' h


-- ------------------------------------------------------------------ NewAddress

theorem useWallet_ready {P : PStore} {V : PVol} {w : Wid} {r : KsRec} (hk : AMap.get V.keys w = some r)
    (hr : readyB P.led w = true) : useWallet P V w = some { V with cur := some w } := by
  unfold useWallet
  unfold readyB at hr
  cases hs : AMap.get P.led.status w with
  | none => rw [hs] at hr; cases hr
  | some stt =>
    rw [hs] at hr
    simp only [hk]
    rw [if_pos hr]

theorem useWallet_uncached {P : PStore} {V : PVol} {w : Wid} (hk : AMap.get V.keys w = none) :
    useWallet P V w = none := by
  unfold useWallet
  cases AMap.get P.led.status w <;> simp [hk]

/-- fault-free NewAddress with an exact key cache, in closed form -/
theorem newAddr_closed (env : Model.Persist.Env) (n : Nat) (stk : Bool) (P : PStore) (V : PVol) (w : Wid) (r : KsRec)
    (hcur : V.cur = some w) (hr : AMap.get P.ks w = some r) (hk : V.keys = P.ks)
    (hf : r.addrs.contains (r.next, env.derive w r.next) = false) :
    ((opNewAddr env n n n stk).run none P V).P =
      { led := { P.led with addrs := AMap.put P.led.addrs (w, stk, env.derive w r.next) 0 },
        ks := AMap.put P.ks w { next := r.next + 1, addrs := r.addrs ++ [(r.next, env.derive w r.next)] } } ∧
    ((opNewAddr env n n n stk).run none P V).V =
      { V with keys := AMap.put P.ks w { next := r.next + 1, addrs := r.addrs ++ [(r.next, env.derive w r.next)] } } := by
  unfold Op.run
  simp only [opNewAddr, runPhases]
  simp [hcur, hr, AMap.get_put, put_put, insertAddr_fresh _ _ hf, hk]

theorem ownOf_issue_nodup (st : Static) {ks : AMap.T Wid KsRec} (hn : (walletsOf ks).Nodup)
    (hna : ((ownOf ks).map (·.1)).Nodup) {w : Wid} {r : KsRec} (h : AMap.get ks w = some r)
    (hfresh : AMap.get (ownOf ks) (st.derive w r.next) = none) :
    ((ownOf (AMap.put ks w (issueRec st w r))).map (·.1)).Nodup := by
  have hk : ((ownOf (AMap.put ks w (issueRec st w r))).map (·.1)).Perm
      (st.derive w r.next :: (ownOf ks).map (·.1)) := by simpa using (ownOf_put_issue st hn h).1.map (·.1)
  rw [hk.nodup_iff, List.nodup_cons]
  exact ⟨amap_get_none_iff.1 hfresh, hna⟩

theorem ready_transfer {s s' : Store} {ws ws' : List Wid} (hp : ws'.Perm ws) (hst : ∀ w, readyB s' w = readyB s w)
    (w : Wid) : (readyWallets s' ws').contains w = true ↔ (readyWallets s ws).contains w = true := by
  rw [mem_readyWallets, mem_readyWallets, hp.mem_iff, hst]

/-- NEWADDRESS keeps the invariant: the address is issued for a ready cached wallet, the key cache stays exact,
    and — no chain the node has had pays the new address — the books of the stored chain, the validity of the
    chains and the readiness of all address owners are what they were, for the LARGER keystore view -/
theorem JQ_newAddr {st : Static} {G : Block} (n : Nat) (cr : Bool) {x : SysQ} {k : Skel} (w : Wid) (stk : Bool)
    (hJ : JQ st G x k) (hok : StepOK st G k (.newAddr w stk)) :
    JQ st G (stepQ st n cr x (.newAddr w stk)) (skStep st k (.newAddr w stk)) := by
  obtain ⟨hc, hks, hkeys, ⟨S, hJS, c, hcm, hSc⟩, hN, hcur, hK⟩ := hJ
  cases hg : AMap.get k.ks w with
  | none =>
    have h1 : stepQ st n cr x (.newAddr w stk) = x := by
      simp only [stepQ]
      rw [useWallet_uncached (by rw [hkeys]; exact hg)]
    have h2 : skStep st k (.newAddr w stk) = k := by simp only [skStep, hg]
    rw [h1, h2]
    exact ⟨hc, hks, hkeys, ⟨S, hJS, c, hcm, hSc⟩, hN, hcur, hK⟩
  | some r =>
    have hwm : w ∈ walletsOf k.ks := List.mem_map.2 ⟨(w, r), amap_mem_of_get hg, rfl⟩
    obtain ⟨hpaid, hfresh⟩ := hok r hg
    have hcont : r.addrs.contains (r.next, st.derive w r.next) = false := by
      cases hcc : r.addrs.contains (r.next, st.derive w r.next) with
      | false => rfl
      | true =>
        have hm := own_mem_of_rec hg (List.contains_iff_mem.1 hcc)
        have := amap_get_none_iff.1 hfresh
        exact absurd (List.mem_map.2 ⟨_, hm, rfl⟩) this
    have huse := useWallet_ready (P := x.P) (V := x.V) (by rw [hkeys]; exact hg) (hK.ready w hwm)
    obtain ⟨cP, cV⟩ := newAddr_closed (envAt st x.chain) n stk x.P { x.V with cur := some w } w r rfl
      (by rw [hks]; exact hg) (hkeys.trans hks.symm) hcont
    have h1 : stepQ st n cr x (.newAddr w stk) =
        { x with P := { led := { x.P.led with addrs := AMap.put x.P.led.addrs (w, stk, st.derive w r.next) 0 },
                        ks := AMap.put k.ks w (issueRec st w r) },
                 V := { x.V with cur := some w, keys := AMap.put k.ks w (issueRec st w r) } } := by
      simp only [stepQ, huse]
      rw [cP, cV, hks]
      rfl
    have h2 : skStep st k (.newAddr w stk) = { k with ks := AMap.put k.ks w (issueRec st w r) } := by
      simp only [skStep, hg]
    obtain ⟨hpermO, hpermW⟩ := ownOf_put_issue st hK.nodupW hg
    have hn' := ownOf_issue_nodup st hK.nodupW hK.nodupA hg hfresh
    have hagree : ∀ ocs, PaysNot ocs (st.derive w r.next) →
        OwnAgree (ownOf (AMap.put k.ks w (issueRec st w r))) (ownOf k.ks) ocs :=
      fun ocs hp => ownAgree_issue st hK.nodupW hK.nodupA hg hfresh hp
    have hSp : PaysNot (occs S) (st.derive w r.next) := paysNot_of_addrUsed (addrUsed_prefix hSc (hpaid c hcm))
    have hNp : PaysNot (occs k.chain) (st.derive w r.next) := paysNot_of_addrUsed (hpaid _ hcur)
    obtain ⟨hI, hv, hS, hAR, hne, hq, hq0, hq1⟩ := hJS
    have hI : Ledger.Inv ((lenv st k.ks).ctx x.chain) x.P.led S := hI
    have hAR : AllReady (ownOf k.ks) (readyWallets x.P.led (walletsOf k.ks)) := hAR
    have hne : (readyWallets x.P.led (walletsOf k.ks)).isEmpty = false := hne
    have hb : bookOf st.p (ownOf (AMap.put k.ks w (issueRec st w r))) S = bookOf st.p (ownOf k.ks) S :=
      bookOf_own_congr st.p (hagree _ hSp)
    have htr : ∀ w', (readyWallets ({ x.P.led with addrs := AMap.put x.P.led.addrs (w, stk, st.derive w r.next) 0 } : Store)
        (walletsOf (AMap.put k.ks w (issueRec st w r)))).contains w' = true ↔
        (readyWallets x.P.led (walletsOf k.ks)).contains w' = true :=
      fun w' => ready_transfer hpermW (fun _ => rfl) w'
    rw [h1, h2]
    refine ⟨hc, rfl, rfl, ⟨S, ?_, c, hcm, hSc⟩, ?_, hcur, ?_⟩
    · refine ⟨⟨?_, ?_, hI.sync, hI.syncedTo⟩, hv,
        ⟨hS.good, (chainValid_own_congr (hagree _ hSp)).2 hS.valid, hS.genesis, hS.known⟩, ?_, ?_, hq, hq0, hq1⟩
      · show AgreeM _ (bookOf st.p (ownOf (AMap.put k.ks w (issueRec st w r))) S)
        rw [hb]
        exact ⟨hI.agree.unspent, hI.agree.credits, hI.agree.debits, hI.agree.game, hI.agree.txrecs, hI.agree.blocks⟩
      · intro w' hw'
        show AMap.get x.P.led.balance w' = some (totalU (bookOf st.p (ownOf (AMap.put k.ks w (issueRec st w r))) S).L w')
        rw [hb]
        exact hI.bal w' ((htr w').1 hw')
      · intro a' w'' ch hg'
        have hg' : AMap.get (ownOf (AMap.put k.ks w (issueRec st w r))) a' = some (w'', ch) := hg'
        apply (htr w'').2
        by_cases ha : a' = st.derive w r.next
        · subst ha
          have hm := hpermO.mem_iff.1 (amap_mem_of_get hg')
          rcases List.mem_cons.1 hm with h | h
          · simp only [Prod.mk.injEq] at h
            rw [h.2.1]
            exact mem_readyWallets.2 ⟨hwm, hK.ready w hwm⟩
          · exact absurd (List.mem_map.2 ⟨_, h, rfl⟩) (amap_get_none_iff.1 hfresh)
        · rw [amap_get_perm_cons hpermO hn' ha] at hg'
          exact hAR a' w'' ch hg'
      · show (readyWallets ({ x.P.led with addrs := AMap.put x.P.led.addrs (w, stk, st.derive w r.next) 0 } : Store)
            (walletsOf (AMap.put k.ks w (issueRec st w r)))).isEmpty = false
        cases hl : readyWallets x.P.led (walletsOf k.ks) with
        | nil => rw [hl] at hne; cases hne
        | cons a t =>
          have h0 : (readyWallets x.P.led (walletsOf k.ks)).contains a = true := by rw [hl]; simp
          have := (htr a).2 h0
          cases hl' : readyWallets ({ x.P.led with addrs := AMap.put x.P.led.addrs (w, stk, st.derive w r.next) 0 } : Store)
              (walletsOf (AMap.put k.ks w (issueRec st w r))) with
          | nil => rw [hl'] at this; simp at this
          | cons a' t' => rfl
    · exact ⟨hN.good, (chainValid_own_congr (hagree _ hNp)).2 hN.valid, hN.genesis, hN.known⟩
    · refine ⟨put_keys_nodup k.ks w _ hK.nodupW, hn', fun w' hw' => ?_⟩
      exact hK.ready w' (hpermW.mem_iff.1 hw')

end MW.Lemmas.Deepen3
