/-
  Helper lemmas for `render` (strconv.Itoa / Uint128.String on n ≥ 0) and fixed-width digit blocks.
-/
import MW.Lemmas.DecBasic
import Mathlib.Data.List.Induction
namespace MW.Dec

theorem render_lt {n : Nat} (h : n < 10) : render n = [dchr n] := by
  rw [render]; simp [h]

theorem render_ge {n : Nat} (h : 10 ≤ n) : render n = render (n / 10) ++ [dchr (n % 10)] := by
  rw [render]; simp [Nat.not_lt.mpr h]

theorem render_zero : render 0 = [c0] := render_lt (by omega)

theorem render_ne_nil (n : Nat) : render n ≠ [] := by
  by_cases h : n < 10
  · rw [render_lt h]; simp
  · rw [render_ge (by omega)]; simp

theorem render_isEmpty (n : Nat) : (render n).isEmpty = false := by
  cases h : render n with
  | nil => exact absurd h (render_ne_nil n)
  | cons _ _ => rfl

theorem render_all_isDigit (n : Nat) : (render n).all isDigit = true := by
  induction n using Nat.strongRecOn with
  | _ n ih =>
    by_cases h : n < 10
    · rw [render_lt h]; simp [isDigit_dchr h]
    · rw [render_ge (by omega), List.all_append, ih (n / 10) (by omega)]
      simp [isDigit_dchr (Nat.mod_lt n (by omega : 10 > 0))]

theorem ofDigits_render (n : Nat) : ofDigits (render n) = n := by
  induction n using Nat.strongRecOn with
  | _ n ih =>
    by_cases h : n < 10
    · rw [render_lt h, ofDigits_singleton, dval_dchr h]
    · rw [render_ge (by omega), ofDigits_concat, ih (n / 10) (by omega),
        dval_dchr (Nat.mod_lt n (by omega : 10 > 0))]
      omega

/-- the first digit of a positive number is not `'0'` -/
theorem render_head_pos {n : Nat} (hn : 1 ≤ n) :
    ∃ d rest, render n = dchr d :: rest ∧ 1 ≤ d ∧ d < 10 := by
  induction n using Nat.strongRecOn with
  | _ n ih =>
    by_cases h : n < 10
    · exact ⟨n, [], render_lt h, hn, h⟩
    · obtain ⟨d, rest, e, h1, h2⟩ := ih (n / 10) (by omega) (by omega)
      exact ⟨d, rest ++ [dchr (n % 10)], by rw [render_ge (by omega), e]; rfl, h1, h2⟩

/-- no leading zero: a rendering that starts with `'0'` is exactly `"0"` -/
theorem render_head_c0 {n : Nat} {rest : Bytes} (h : render n = c0 :: rest) : n = 0 ∧ rest = [] := by
  by_cases hn : n = 0
  · subst hn; rw [render_zero] at h; injection h with _ h2; exact ⟨rfl, h2.symm⟩
  · obtain ⟨d, r, e, h1, h2⟩ := render_head_pos (Nat.pos_of_ne_zero hn)
    rw [e] at h; injection h with h3 _
    rw [dchr_eq_c0_iff h2] at h3; omega

/-- length of the rendering is bounded by the number of digits available -/
theorem render_length_le {n k : Nat} (hk : 1 ≤ k) (h : n < 10 ^ k) : (render n).length ≤ k := by
  induction k generalizing n with
  | zero => omega
  | succ k ih =>
    by_cases h10 : n < 10
    · rw [render_lt h10]; simp
    · rw [render_ge (by omega), List.length_append]
      have hk1 : 1 ≤ k := by
        rcases k with _ | k
        · simp at h; omega
        · omega
      have : n / 10 < 10 ^ k := by
        rw [Nat.pow_succ] at h; omega
      have := ih hk1 this
      simp; omega

theorem render_ofDigits_length_le {x : Bytes} (hne : x ≠ []) (h : x.all isDigit = true) :
    (render (ofDigits x)).length ≤ x.length := by
  apply render_length_le
  · cases x with
    | nil => exact absurd rfl hne
    | cons b x => simp
  · exact ofDigits_lt h

/-! ### fixed-width blocks: the low `k` decimal digits of `r`, most significant first -/

def digitsN : Nat → Nat → Bytes
  | 0, _ => []
  | k + 1, r => digitsN k (r / 10) ++ [dchr (r % 10)]

theorem digitsN_length (k r : Nat) : (digitsN k r).length = k := by
  induction k generalizing r with
  | zero => rfl
  | succ k ih => simp [digitsN, ih]

theorem digitsN_all_isDigit (k r : Nat) : (digitsN k r).all isDigit = true := by
  induction k generalizing r with
  | zero => rfl
  | succ k ih =>
    simp only [digitsN, List.all_append, ih, Bool.true_and]
    simp [isDigit_dchr (Nat.mod_lt r (by omega : 10 > 0))]

theorem digitsN_zero_right (k : Nat) : digitsN k 0 = zeros k := by
  induction k with
  | zero => rfl
  | succ k ih => simp only [digitsN, Nat.zero_div, Nat.zero_mod, ih, zeros_succ', dchr_zero]

theorem ofDigits_digitsN (k r : Nat) : ofDigits (digitsN k r) = r % 10 ^ k := by
  induction k generalizing r with
  | zero => simp [digitsN, ofDigits_nil, Nat.mod_one]
  | succ k ih =>
    simp only [digitsN]
    rw [ofDigits_concat, ih, dval_dchr (Nat.mod_lt r (by omega : 10 > 0)), Nat.pow_succ]
    have h1 : r % (10 ^ k * 10) = r % 10 + 10 * (r / 10 % 10 ^ k) := by
      rw [Nat.mul_comm, Nat.mod_mul]
    omega

/-- `Uint128.String` of `q·10^k + r` (q ≥ 1, r < 10^k) is the rendering of q followed by the k-digit block of r -/
theorem render_mul_pow_add {q : Nat} (hq : 1 ≤ q) (k r : Nat) (hr : r < 10 ^ k) :
    render (q * 10 ^ k + r) = render q ++ digitsN k r := by
  induction k generalizing r with
  | zero => simp at hr; subst hr; simp [digitsN]
  | succ k ih =>
    have hpos : 1 ≤ 10 ^ k := Nat.one_le_pow _ _ (by omega)
    have hge : 10 ≤ q * 10 ^ (k + 1) + r := by
      rw [Nat.pow_succ]
      have : 1 * (10 ^ k * 10) ≤ q * (10 ^ k * 10) := Nat.mul_le_mul_right _ hq
      omega
    rw [render_ge hge]
    have e1 : (q * 10 ^ (k + 1) + r) / 10 = q * 10 ^ k + r / 10 := by
      rw [Nat.pow_succ, ← Nat.mul_assoc]; omega
    have e2 : (q * 10 ^ (k + 1) + r) % 10 = r % 10 := by
      rw [Nat.pow_succ, ← Nat.mul_assoc]; omega
    have hr' : r / 10 < 10 ^ k := by rw [Nat.pow_succ] at hr; omega
    rw [e1, e2, ih (r / 10) hr']
    simp [digitsN]

/-- left-padding the rendering of r < 10^k with zeros to width k gives the k-digit block of r -/
theorem zeros_append_render {k r : Nat} (hk : 1 ≤ k) (hr : r < 10 ^ k) :
    zeros (k - (render r).length) ++ render r = digitsN k r := by
  induction k generalizing r with
  | zero => omega
  | succ k ih =>
    by_cases h10 : r < 10
    · rw [render_lt h10]
      have e1 : r / 10 = 0 := by omega
      have e2 : r % 10 = r := by omega
      simp [digitsN, e1, e2, digitsN_zero_right]
    · have hk1 : 1 ≤ k := by
        rcases k with _ | k
        · simp at hr; omega
        · omega
      have hr' : r / 10 < 10 ^ k := by rw [Nat.pow_succ] at hr; omega
      rw [render_ge (by omega)]
      simp only [digitsN, List.length_append, List.length_cons, List.length_nil]
      rw [← ih hk1 hr', ← List.append_assoc]
      have e : k + 1 - ((render (r / 10)).length + (0 + 1)) = k - (render (r / 10)).length := by omega
      rw [e]

/-- a k-digit block of a multiple of 10^j ends in j zeros -/
theorem digitsN_mul_pow (l j n : Nat) : digitsN (l + j) (n * 10 ^ j) = digitsN l n ++ zeros j := by
  induction j with
  | zero => simp [zeros]
  | succ j ih =>
    have e1 : n * 10 ^ (j + 1) / 10 = n * 10 ^ j := by
      rw [Nat.pow_succ, ← Nat.mul_assoc]; omega
    have e2 : n * 10 ^ (j + 1) % 10 = 0 := by
      rw [Nat.pow_succ, ← Nat.mul_assoc]; omega
    rw [← Nat.add_assoc]
    simp only [digitsN, e1, e2, ih, zeros_succ', dchr_zero, List.append_assoc]

/-- the block of the value of a digit string of the same width is the string itself -/
theorem digitsN_ofDigits {x : Bytes} (h : x.all isDigit = true) : digitsN x.length (ofDigits x) = x := by
  induction x using List.reverseRecOn with
  | nil => rfl
  | append_singleton x b ih =>
    rw [List.all_append, Bool.and_eq_true] at h
    have hb : isDigit b = true := by simpa using h.2
    have hlt := dval_lt_ten hb
    rw [ofDigits_concat, List.length_append]
    simp only [List.length_cons, List.length_nil, digitsN]
    have e1 : (ofDigits x * 10 + dval b) / 10 = ofDigits x := by omega
    have e2 : (ofDigits x * 10 + dval b) % 10 = dval b := by omega
    rw [e1, e2, ih h.1, dchr_dval hb]


/-- a digit string without leading zero is the rendering of its value -/
theorem render_ofDigits_of_head_ne {b : UInt8} {r : Bytes} (hb : b ≠ c0)
    (h : (b :: r).all isDigit = true) : render (ofDigits (b :: r)) = b :: r := by
  simp only [List.all_cons, Bool.and_eq_true] at h
  have h1 : 1 ≤ dval b := by
    have := (dval_eq_zero_iff h.1).not.mpr hb; omega
  rw [ofDigits_cons, render_mul_pow_add h1 _ _ (ofDigits_lt h.2), render_lt (dval_lt_ten h.1),
    dchr_dval h.1, digitsN_ofDigits h.2]
  rfl

/-- if rendering the value of a non-empty digit string does not shorten it, it is that string -/
theorem render_ofDigits_eq_of_length {x : Bytes} (h : x.all isDigit = true)
    (hl : (render (ofDigits x)).length = x.length) : render (ofDigits x) = x := by
  have hd := trimLeft0_decomp x
  have hv := ofDigits_trimLeft0 x
  cases ht : trimLeft0 x with
  | nil =>
    rw [ht, ofDigits_nil] at hv
    rw [← hv, render_zero] at hl ⊢
    rw [ht] at hd
    simp only [List.length_nil, Nat.sub_zero, List.append_nil] at hd
    rw [hd, ← hl]; rfl
  | cons b r =>
    have hb := trimLeft0_head x b r ht
    have hall : (b :: r).all isDigit = true := by rw [← ht]; exact trimLeft0_all h
    have hr := render_ofDigits_of_head_ne hb hall
    rw [ht] at hv hd
    rw [← hv, hr] at hl ⊢
    have : x.length - (b :: r).length = 0 := by omega
    rw [this] at hd
    rw [hd]; rfl

end MW.Dec
