/-
  WELL-FORMEDNESS OF THE CREDIT BUCKET (part 2): rollback / disconnect / reorg, the two entry points
  (`processBlock`, `recvTx`) and whole C01 histories (`credNodup_stepW`, `credNodup_runW`).
-/
import MW.Lemmas.LedgerWFCred
namespace MW.Lemmas.LedgerWFCred
open MW MW.Model.Ledger MW.Spec.Chain MW.Spec.Books MW.Lemmas.Ledger

-- ------------------------------------------------------------------ Rollback

theorem rollbackAddr_credits (s : Store) (w : Wid) (o : Out) (h : Nat) :
    (rollbackAddr s w o h).credits = s.credits := by
  unfold rollbackAddr
  dsimp only
  repeat' split
  all_goals rfl

theorem cn_rollbackOwnedOut {id : TxId} {blk : BlockMeta} {sb sb' : Store × Bals} {i : Nat} {o : Out} {w : Wid}
    (hq : KeysNodup sb.1.credits) (h : rollbackOwnedOut id blk sb i o w = .ok sb') :
    KeysNodup sb'.1.credits := by
  unfold rollbackOwnedOut at h
  repeat' split at h
  all_goals cases h
  · show KeysNodup (rollbackAddr _ w o blk.height).credits
    rw [rollbackAddr_credits]
    exact hq
  · show KeysNodup (rollbackAddr _ w o blk.height).credits
    rw [rollbackAddr_credits]
    exact hq

theorem cn_rollbackCbOut {c : Ctx} {id : TxId} {blk : BlockMeta} {acc acc' : (Store × Bals) × List (TxId × Nat)}
    {i : Nat} {o : Out} (hq : KeysNodup acc.1.1.credits) (h : rollbackCbOut c id blk acc i o = .ok acc') :
    KeysNodup acc'.1.1.credits := by
  unfold rollbackCbOut at h
  dsimp only at h
  split at h
  · cases h; exact hq
  · split at h
    · cases h
    · split at h
      · cases h; exact keysNodup_erase hq _
      · obtain ⟨sb1, h1, h2⟩ := M_bind_ok h
        have hq1 : KeysNodup sb1.1.credits := by
          refine cn_rollbackOwnedOut ?_ h1
          exact keysNodup_erase hq _
        split at h2 <;> cases h2 <;> exact hq1

theorem cn_rollbackIn {c : Ctx} {id : TxId} {blk : BlockMeta} {sb sb' : Store × Bals} {cur : Nat} {i : Inp}
    (hq : KeysNodup sb.1.credits) (h : rollbackIn c id blk sb cur i = .ok sb') : KeysNodup sb'.1.credits := by
  unfold rollbackIn at h
  dsimp only at h
  repeat' split at h
  all_goals cases h
  all_goals first
    | exact hq
    | exact keysNodup_put hq _ _

theorem cn_rollbackOut {c : Ctx} {id : TxId} {blk : BlockMeta} {sb sb' : Store × Bals} {i : Nat} {o : Out}
    (hq : KeysNodup sb.1.credits) (h : rollbackOut c id blk sb i o = .ok sb') : KeysNodup sb'.1.credits := by
  unfold rollbackOut at h
  dsimp only at h
  split at h
  · cases h; exact hq
  · split at h
    · cases h
    · split at h
      · cases h; exact keysNodup_erase hq _
      · obtain ⟨sb1, h1, h2⟩ := M_bind_ok h
        have hq1 : KeysNodup sb1.1.credits := by
          refine cn_rollbackOwnedOut ?_ h1
          exact keysNodup_erase hq _
        split at h2 <;> cases h2 <;> exact hq1

theorem cn_rollbackTx {c : Ctx} {s : Store} {bals : Bals} {blk : BlockMeta} {id : TxId}
    {r : Store × Bals × List (TxId × Nat)} (hq : KeysNodup s.credits) (h : rollbackTx c s bals blk id = .ok r) :
    KeysNodup r.1.credits := by
  unfold rollbackTx at h
  split at h
  · cases h; exact hq
  · split at h
    · cases h
    · dsimp only at h
      split at h
      · obtain ⟨r1, h1, h2⟩ := M_bind_ok h
        cases h2
        exact foldIdxM_preserves_store (·.1.1) (fun s => KeysNodup s.credits) _ _
          (fun _ _ _ _ _ hb hf => cn_rollbackCbOut hb hf) (b := (({ s with txrecs := _ }, bals), [])) hq h1
      · obtain ⟨sb1, h1, h2⟩ := M_bind_ok h
        obtain ⟨sb2, h3, h4⟩ := M_bind_ok h2
        cases h4
        have hq1 : KeysNodup sb1.1.credits :=
          foldIdxM_preserves_store (·.1) (fun s => KeysNodup s.credits) _ _
            (fun _ _ _ _ _ hb hf => cn_rollbackIn hb hf)
            (b := ({ s with txrecs := _, pending := _ }, bals)) hq h1
        exact foldIdxM_preserves_store (·.1) (fun s => KeysNodup s.credits) _ _
          (fun _ _ _ _ _ hb hf => cn_rollbackOut hb hf) hq1 h3

theorem cn_rollbackBlockAt {c : Ctx} {acc acc' : RbAcc} {cur : Nat}
    (hq : KeysNodup acc.s.credits) (h : rollbackBlockAt c acc cur = .ok acc') : KeysNodup acc'.s.credits := by
  unfold rollbackBlockAt at h
  split at h
  · cases h; exact hq
  · refine foldlM_preserves_store (·.s) (fun s => KeysNodup s.credits) _ _ ?_
      (b := { acc with heights := acc.heights ++ [cur] }) hq h
    intro a id a' _ ha hf
    obtain ⟨r, h1, h2⟩ := M_bind_ok hf
    cases h2
    exact cn_rollbackTx ha h1

theorem cn_rollback {c : Ctx} {s s' : Store} {height : Nat}
    (hq : KeysNodup s.credits) (h : rollback c s height = .ok s') : KeysNodup s'.credits := by
  unfold rollback at h
  obtain ⟨acc, h1, h2⟩ := M_bind_ok h
  cases h2
  have hq1 : KeysNodup acc.s.credits :=
    foldlM_preserves_store (·.s) (fun s => KeysNodup s.credits) _ _
      (fun _ _ _ _ hb hf => cn_rollbackBlockAt hb hf) (b := { s := s, bals := s.balance }) hq h1
  have e1 : ∀ (l : List Nat) (s : Store),
      (l.foldl (fun s h => { s with blocks := AMap.erase s.blocks h }) s).credits = s.credits :=
    fun l s => foldl_credits_eq _ l s (fun _ _ _ => rfl)
  show KeysNodup (List.foldl (purgeSpenders c.own) _ acc.cb).credits
  rw [(minedEq_foldl _ _ _ (fun s op _ => minedEq_purgeSpenders c.own s op)).credits, e1]
  exact hq1

theorem resetSyncedTo_credits (s : Store) (height : Nat) : (resetSyncedTo s height).credits = s.credits := rfl

theorem cn_resetSyncedTo {s : Store} {height : Nat} (hq : KeysNodup s.credits) :
    KeysNodup (resetSyncedTo s height).credits := hq

theorem cn_disconnectBlock {c : Ctx} {s s' : Store} {height : Nat}
    (hq : KeysNodup s.credits) (h : disconnectBlock c s height = .ok s') : KeysNodup s'.credits := by
  unfold disconnectBlock at h
  split at h
  · cases h
  · split at h
    · cases h; exact hq
    · obtain ⟨s1, h1, h2⟩ := M_bind_ok h
      cases h2
      show KeysNodup s1.credits
      exact cn_rollback hq h1

-- ------------------------------------------------------------------ reorg

/-- `alignNew` reads the node only: there is no store to preserve -/
theorem cn_alignNew {c : Ctx} {curH fuel : Nat} {nb : Block} {tc : List Block} {r : Block × List Block}
    (_ : alignNew c curH fuel nb tc = .ok r) : True := trivial

theorem cn_disconnectDown {c : Ctx} {nbH : Nat} : ∀ (fuel : Nat) (s : Store) (curH : Nat) (rolled : List Nat)
    (r : Store × Nat × List Nat), KeysNodup s.credits → disconnectDown c nbH fuel s curH rolled = .ok r →
    KeysNodup r.1.credits := by
  intro fuel
  induction fuel with
  | zero =>
    intro s curH rolled r hq h
    unfold disconnectDown at h
    cases h; exact hq
  | succ fuel ih =>
    intro s curH rolled r hq h
    unfold disconnectDown at h
    split at h
    · obtain ⟨s1, h1, h2⟩ := M_bind_ok h
      exact ih _ _ _ _ (cn_disconnectBlock hq h1) h2
    · cases h; exact hq

theorem cn_walkBack {c : Ctx} : ∀ (fuel : Nat) (w : Walk) (r : Walk × Bool),
    KeysNodup w.s.credits → walkBack c fuel w = .ok r → KeysNodup r.1.s.credits := by
  intro fuel
  induction fuel with
  | zero =>
    intro w r hq h
    unfold walkBack at h
    cases h; exact hq
  | succ fuel ih =>
    intro w r hq h
    unfold walkBack at h
    split at h
    · obtain ⟨s1, h1, h2⟩ := M_bind_ok h
      have hq1 := cn_disconnectBlock hq h1
      split at h2
      · cases h2
      · split at h2
        · cases h2
        · split at h2
          · cases h2
          · exact ih _ _ hq1 h2
    · cases h; exact hq

theorem cn_reorgDisconnect {c : Ctx} {s : Store} {best : BlockMeta} {nb : Block} {tc : List Block}
    {r : Store × List Nat × List Block} (hq : KeysNodup s.credits)
    (h : reorgDisconnect c s best nb tc = .ok r) : KeysNodup r.1.credits := by
  unfold reorgDisconnect at h
  split at h
  · cases h; exact hq
  · obtain ⟨r1, h1, h2⟩ := M_bind_ok h
    have hq1 := cn_disconnectDown _ _ _ _ _ hq h1
    obtain ⟨s1, curH, rolled⟩ := r1
    dsimp only at h2 hq1
    split at h2
    · cases h2
    · split at h2
      · cases h2; exact hq1
      · split at h2
        · cases h2
        · split at h2
          · cases h2
          · obtain ⟨wd, h3, h4⟩ := M_bind_ok h2
            have hq2 := cn_walkBack _ _ _ hq1 h3
            split at h4
            · cases h4
            · obtain ⟨s3, h5, h6⟩ := M_bind_ok h4
              cases h6
              exact cn_disconnectBlock hq2 h5

theorem cn_reorg {c : Ctx} {s : Store} {best : BlockMeta} {newBest : Block}
    {r : Store × List Nat × List (Nat × List TxId)} (hq : KeysNodup s.credits)
    (h : reorg c s best newBest = .ok r) : KeysNodup r.1.credits := by
  unfold reorg at h
  obtain ⟨r1, _, h2⟩ := M_bind_ok h
  obtain ⟨r2, h3, h4⟩ := M_bind_ok h2
  obtain ⟨r3, h5, h6⟩ := M_bind_ok h4
  cases h6
  exact cn_connectAll _ _ _ _ (cn_reorgDisconnect hq h3) h5

-- ------------------------------------------------------------------ the two entry points

/-- `processBlock` keeps the credit bucket well formed (on error the store is returned unchanged) -/
theorem credNodup_processBlock {c : Ctx} {s : Store} {v : Vol} {b : Block} (h : KeysNodup s.credits) :
    KeysNodup (processBlock c s v b).1.credits := by
  unfold processBlock
  dsimp only
  split
  · exact h
  · rename_i s' rolled added hr
    show KeysNodup s'.credits
    split at hr
    · obtain ⟨r1, h1, h2⟩ := M_bind_ok hr
      cases h2
      exact cn_filterBlock h h1
    · exact cn_reorg h hr

theorem addUnminedCredit_credits {tr : TxRec} {s s' : Store} {rel : Rel}
    (h : addUnminedCredit tr s rel = .ok s') : s'.credits = s.credits := by
  unfold addUnminedCredit at h
  repeat' split at h
  all_goals cases h
  rfl

theorem addUnminedCredits_credits {s s' : Store} {tr : TxRec}
    (h : addUnminedCredits s tr = .ok s') : s'.credits = s.credits := by
  unfold addUnminedCredits at h
  obtain ⟨s1, h1, h2⟩ := M_bind_ok h
  cases h2
  have e1 : ∀ (l : List Rel) (s : Store), (l.foldl (fun s rel =>
      { s with pendGame := AMap.put s.pendGame (rel.wallet, rel.out.cls.isBinding, tr.tx.id, rel.index) () })
      s).credits = s.credits :=
    fun l s => foldl_credits_eq _ l s (fun _ _ _ => rfl)
  rw [e1]
  exact foldlM_preserves (fun x => x.credits = s.credits) _ _
    (fun _ _ _ _ hb hf => (addUnminedCredit_credits hf).trans hb) rfl h1

theorem addRelevantUnmined_credits {s s' : Store} {tr : TxRec}
    (h : addRelevantUnmined s tr = .ok s') : s'.credits = s.credits := by
  unfold addRelevantUnmined at h
  split at h
  · cases h
  · split at h
    · split at h
      · cases h; rfl
      · exact addUnminedCredits_credits h
    · dsimp only at h
      split at h
      · cases h
        exact (minedEq_insertUnminedInputs _ tr).credits
      · rw [addUnminedCredits_credits h]
        exact (minedEq_insertUnminedInputs _ tr).credits

/-- the unconfirmed path never writes the credit bucket -/
theorem recvTx_credits {c : Ctx} {s : Store} {v : Vol} {tx : Tx} : (recvTx c s v tx).1.credits = s.credits := by
  unfold recvTx
  split
  · rfl
  · dsimp only
    split
    · rfl
    · rfl
    · split
      · rfl
      · rename_i h
        exact addRelevantUnmined_credits h

-- ------------------------------------------------------------------ histories

theorem credNodup_stepW (e : Env) (w : World) (ev : Ev) (h : KeysNodup w.s.credits) :
    KeysNodup (stepW e w ev).s.credits := by
  cases ev with
  | extend b => exact h
  | reorgTo k bs => exact h
  | handle =>
    cases hq : w.queue with
    | nil => simp only [stepW, hq]; exact h
    | cons b q => simp only [stepW, hq]; exact credNodup_processBlock h

/-- the credit bucket stays well formed along EVERY history of node events and handler steps -/
theorem credNodup_runW (e : Env) (w0 : World) (evs : List Ev) (h : KeysNodup w0.s.credits) :
    KeysNodup (runW e w0 evs).s.credits := by
  induction evs generalizing w0 with
  | nil => exact h
  | cons ev evs ih =>
    rw [runW_cons]
    exact ih _ (credNodup_stepW e w0 ev h)

end MW.Lemmas.LedgerWFCred
