/-
  Reorg (C01 goal 3), part 3: notifications for ARBITRARY blocks (stale notifications, blocks that are no
  longer on the node's best chain): `processBlock` either fails and changes nothing, or ends at a prefix of
  the node's chain / of the stored chain that ends with the notified block.
-/
import MW.Lemmas.LedgerReorg2
namespace MW.Lemmas.Ledger
open MW MW.Model.Ledger MW.Spec.Chain MW.Spec.Books

/-- the first check of filterBlock: the node's block at that height has the id of the block -/
theorem filterBlock_ok_blockAt {c : Ctx} {s : Store} {ready : List Wid} {b : Block} {r : Store × List TxId}
    (h : filterBlock c s ready b = .ok r) : ∃ x, c.node.blockAt b.height = some x ∧ x.id = b.id := by
  unfold filterBlock at h
  cases hb : c.node.blockAt b.height with
  | none => rw [hb] at h; cases h
  | some x =>
    rw [hb] at h
    simp only at h
    by_cases hid : x.id = b.id
    · exact ⟨x, rfl, hid⟩
    · simp only [ne_eq, hid, not_false_eq_true, if_true] at h
      cases h

/-- … hence, ids determining blocks, the block IS on the node's best chain -/
theorem filterBlock_ok_onChain {c : Ctx} {s : Store} {ready : List Wid} {b : Block} {r : Store × List TxId}
    {S : List Block} (hinj : IdInj (b :: (S ++ c.node.chain))) (h : filterBlock c s ready b = .ok r) :
    c.node.chain[b.height]? = some b := by
  obtain ⟨x, hx, hid⟩ := filterBlock_ok_blockAt h
  unfold Node.blockAt at hx
  have : x = b := hinj x (List.mem_cons_of_mem _ (List.mem_append_right _ (mem_of_get hx))) b
    List.mem_cons_self hid
  rw [hx, this]

/-- every block that connectAll connects passes that check -/
theorem connectAll_ok_mem {c : Ctx} {ready : List Wid} (tc : List Block) :
    ∀ (s : Store) (added : List (Nat × List TxId)) (r : Store × List (Nat × List TxId)),
      connectAll c ready tc s added = .ok r →
      ∀ x ∈ tc, ∃ s0 r0, filterBlock c s0 ready x = .ok r0 := by
  induction tc with
  | nil => intro s added r _ x hx; cases hx
  | cons b rest ih =>
    intro s added r h x hx
    unfold connectAll at h
    cases hf : filterBlock c s ready b with
    | error e => rw [hf] at h; cases h
    | ok r1 =>
      rw [hf] at h
      simp only [M_ok_bind] at h
      rcases List.mem_cons.1 hx with rfl | hx'
      · exact ⟨s, r1, hf⟩
      · exact ih _ _ _ h x hx'

/-- alignNew keeps the last block of `nb :: tc`; an empty result list means it returned at once -/
theorem alignNew_last {c : Ctx} (curH : Nat) :
    ∀ (fuel : Nat) (nb : Block) (tc : List Block) (nb' : Block) (tc' : List Block),
      alignNew c curH fuel nb tc = .ok (nb', tc') →
      (nb' :: tc').getLast? = (nb :: tc).getLast? ∧
        (tc' = [] → tc = [] ∧ nb' = nb ∧ (fuel = 0 ∨ ¬ curH < nb.height)) := by
  intro fuel
  induction fuel with
  | zero =>
    intro nb tc nb' tc' h
    simp only [alignNew, M_pure_eq, Except.ok.injEq, Prod.mk.injEq] at h
    obtain ⟨rfl, rfl⟩ := h
    exact ⟨rfl, fun h => ⟨h, rfl, Or.inl rfl⟩⟩
  | succ fuel ih =>
    intro nb tc nb' tc' h
    unfold alignNew at h
    by_cases hlt : curH < nb.height
    · simp only [hlt, if_true] at h
      cases hf : c.node.fetchBlock nb.prev with
      | none => rw [hf] at h; cases h
      | some pb =>
        rw [hf] at h
        simp only at h
        obtain ⟨h1, h2⟩ := ih pb (nb :: tc) nb' tc' h
        refine ⟨by rw [h1, List.getLast?_cons_cons], fun h0 => ?_⟩
        have := (h2 h0).1
        cases this
    · simp only [hlt, if_false, M_pure_eq, Except.ok.injEq, Prod.mk.injEq] at h
      obtain ⟨rfl, rfl⟩ := h
      exact ⟨rfl, fun h => ⟨h, rfl, Or.inr hlt⟩⟩

/-- walkBack keeps the last block of `tail :: tc` -/
theorem walkBack_last {c : Ctx} :
    ∀ (fuel : Nat) (w w' : Walk) (d : Bool), walkBack c fuel w = .ok (w', d) →
      (w'.tail :: w'.tc).getLast? = (w.tail :: w.tc).getLast? := by
  intro fuel
  induction fuel with
  | zero =>
    intro w w' d h
    simp only [walkBack, M_pure_eq, Except.ok.injEq, Prod.mk.injEq] at h
    rw [← h.1]
  | succ fuel ih =>
    intro w w' d h
    unfold walkBack at h
    by_cases hne : w.tail.prev = w.prevHash
    · simp only [hne, ne_eq, not_true_eq_false, if_false, M_pure_eq, Except.ok.injEq, Prod.mk.injEq] at h
      rw [← h.1]
    · simp only [hne, ne_eq, not_false_eq_true, if_true] at h
      cases hd : disconnectBlock c w.s (w.prevH + 1) with
      | error e => rw [hd] at h; cases h
      | ok s1 =>
        rw [hd] at h
        simp only [M_ok_bind] at h
        by_cases h0 : w.prevH = 0
        · simp only [h0, if_true] at h; cases h
        · simp only [h0, if_false] at h
          cases hs : AMap.get s1.sync (w.prevH - 1) with
          | none => rw [hs] at h; cases h
          | some ph =>
            rw [hs] at h
            simp only at h
            cases hf : c.node.fetchBlock w.tail.prev with
            | none => rw [hf] at h; cases h
            | some pb =>
              rw [hf] at h
              simp only at h
              rw [ih _ _ _ h, List.getLast?_cons_cons]

/-- the list `reorgDisconnect` returns is `tc` or a non-empty list with the last block of `nb :: tc` -/
theorem reorgDisconnect_last {c : Ctx} {s : Store} {best : BlockMeta} {nb : Block} {tc : List Block}
    {s' : Store} {rolled : List Nat} {tc' : List Block}
    (h : reorgDisconnect c s best nb tc = .ok (s', rolled, tc')) :
    tc' = tc ∨ (tc' ≠ [] ∧ tc'.getLast? = (nb :: tc).getLast?) := by
  unfold reorgDisconnect at h
  by_cases hb : best.hash = nb.id
  · simp only [hb, if_true, M_pure_eq, Except.ok.injEq, Prod.mk.injEq] at h
    exact Or.inl h.2.2.symm
  · simp only [hb, if_false] at h
    cases hd : disconnectDown c nb.height (best.height + 1) s best.height [] with
    | error e => rw [hd] at h; cases h
    | ok r =>
      obtain ⟨s1, curH, rolled1⟩ := r
      rw [hd] at h
      simp only [M_ok_bind] at h
      cases hs : AMap.get s1.sync curH with
      | none => rw [hs] at h; cases h
      | some bh =>
        rw [hs] at h
        simp only at h
        by_cases hbh : bh = nb.id
        · simp only [hbh, if_true, M_pure_eq, Except.ok.injEq, Prod.mk.injEq] at h
          exact Or.inl h.2.2.symm
        · simp only [hbh, if_false] at h
          by_cases h0 : curH = 0
          · simp only [h0, if_true] at h; cases h
          · simp only [h0, if_false] at h
            cases hs2 : AMap.get s1.sync (curH - 1) with
            | none => rw [hs2] at h; cases h
            | some ph =>
              rw [hs2] at h
              simp only at h
              cases hw : walkBack c (best.height + 2)
                  { s := s1, prevH := curH - 1, prevHash := ph, tail := nb, tc := tc, rolled := rolled1 } with
              | error e => rw [hw] at h; cases h
              | ok r =>
                obtain ⟨w, d⟩ := r
                rw [hw] at h
                simp only [M_ok_bind] at h
                cases d with
                | false => simp at h
                | true =>
                  simp only [Bool.not_true, Bool.false_eq_true, if_false] at h
                  cases hd2 : disconnectBlock c w.s (w.prevH + 1) with
                  | error e => rw [hd2] at h; cases h
                  | ok s2 =>
                    rw [hd2] at h
                    simp only [M_ok_bind, M_pure_eq, Except.ok.injEq, Prod.mk.injEq] at h
                    right
                    rw [← h.2.2]
                    exact ⟨by simp, walkBack_last _ _ _ _ hw⟩

/-- `reorgDisconnect` towards a block `b` that is not above the wallet's tip, when it returns nothing to
    connect: `b` is a block of the STORED chain and the wallet has been rolled back to it -/
theorem reorgDisconnect_stale {c : Ctx} {S : List Block} (H : ReorgHyp c S) {s : Store} {b : Block}
    {s2 : Store} {rolled : List Nat} (hinj : IdInj (b :: (S ++ c.node.chain))) (hI : Inv c s S)
    (hle : b.height < S.length) (hAR : AllReady c.own (readyWallets s c.wallets))
    (h : reorgDisconnect c s (tipMeta S) b [] = .ok (s2, rolled, [])) :
    S[b.height]? = some b ∧ Inv c s2 (S.take (b.height + 1)) ∧
      ∀ ws, readyWallets s2 ws = readyWallets s ws := by
  obtain ⟨xH, hxH, htip⟩ := tipMeta_good H.goodS
  have hSlen : S.length - 1 + 1 = S.length := by omega
  have hItop : Inv c s (S.take (S.length - 1 + 1)) := by rw [hSlen, List.take_length]; exact hI
  have hS : ∀ {i : Nat} {x : Block}, S[i]? = some x → x.id = b.id → x = b := fun hx hid =>
    hinj _ (List.mem_cons_of_mem _ (List.mem_append_left _ (mem_of_get hx))) b List.mem_cons_self hid
  unfold reorgDisconnect at h
  rw [htip] at h
  simp only at h
  by_cases hid : xH.id = b.id
  · simp only [hid, if_true, M_pure_eq, Except.ok.injEq, Prod.mk.injEq] at h
    have hxb := hS hxH hid
    have hpos : b.height = S.length - 1 := by rw [← hxb]; exact H.goodS.height_at hxH
    rw [hpos, ← h.1]
    exact ⟨by rw [hxH, hxb], hItop, fun _ => rfl⟩
  · simp only [hid, if_false] at h
    obtain ⟨s1, h1, hI1, hr1⟩ := disconnectDown_loop H b.height (S.length - 1 + 1) s (S.length - 1) [] hItop
      (by omega) (by omega) (by omega) hAR
    rw [h1] at h
    simp only [M_ok_bind, List.nil_append] at h
    have hxh : S[b.height]? = some S[b.height] := List.getElem?_eq_getElem hle
    rw [sync_of_inv hI1 (Nat.lt_succ_self _) hxh] at h
    simp only at h
    by_cases hid2 : S[b.height].id = b.id
    · simp only [hid2, if_true, M_pure_eq, Except.ok.injEq, Prod.mk.injEq] at h
      rw [← h.1]
      exact ⟨by rw [hxh, hS hxh hid2], hI1, hr1⟩
    · exfalso
      simp only [hid2, if_false] at h
      by_cases h0 : b.height = 0
      · simp only [h0, if_true] at h; cases h
      · simp only [h0, if_false] at h
        have hx' : S[b.height - 1]? = some S[b.height - 1] := List.getElem?_eq_getElem (by omega)
        rw [sync_of_inv hI1 (by omega) hx'] at h
        simp only at h
        cases hw : walkBack c (S.length - 1 + 2)
            { s := s1, prevH := b.height - 1, prevHash := S[b.height - 1].id, tail := b, tc := [],
              rolled := descList (S.length - 1) b.height } with
        | error e => rw [hw] at h; cases h
        | ok r =>
          obtain ⟨w, d⟩ := r
          rw [hw] at h
          simp only [M_ok_bind] at h
          cases d with
          | false => simp at h
          | true =>
            simp only [Bool.not_true, Bool.false_eq_true, if_false] at h
            cases hd2 : disconnectBlock c w.s (w.prevH + 1) with
            | error e => rw [hd2] at h; cases h
            | ok s3 =>
              rw [hd2] at h
              simp only [M_ok_bind, M_pure_eq, Except.ok.injEq, Prod.mk.injEq] at h
              exact absurd h.2.2 (by simp)

/-- a successful database transaction for a block that is NOT on the node's best chain: the block is on the
    stored chain and the wallet has been rolled back to it (nothing was connected) -/
theorem processM_stale {c : Ctx} {S : List Block} (H : ReorgHyp c S) {s : Store} {v : Vol} {b : Block}
    {s' : Store} {rolled : List Nat} {added : List (Nat × List TxId)}
    (hinj : IdInj (b :: (S ++ c.node.chain))) (hI : Inv c s S) (hv : v.best = tipMeta S)
    (hAR : AllReady c.own (readyWallets s c.wallets))
    (hoff : c.node.chain[b.height]? ≠ some b)
    (h : processM c s v b = .ok (s', rolled, added)) :
    S[b.height]? = some b ∧ Inv c s' (S.take (b.height + 1)) ∧ added = [] ∧
      ∀ ws, readyWallets s' ws = readyWallets s ws := by
  obtain ⟨xH, hxH, htip⟩ := tipMeta_good H.goodS
  unfold processM at h
  rw [hv] at h
  by_cases hp : b.prev = (tipMeta S).hash
  · simp only [hp, if_true] at h
    cases hf : filterBlock c s (readyWallets s c.wallets) b with
    | error e => rw [hf] at h; cases h
    | ok r => exact absurd (filterBlock_ok_onChain hinj hf) hoff
  · simp only [hp, if_false] at h
    unfold reorg at h
    cases ha : alignNew c (tipMeta S).height (b.height + 1) b [] with
    | error e => rw [ha] at h; cases h
    | ok r =>
      obtain ⟨nb, tc⟩ := r
      rw [ha] at h
      simp only [M_ok_bind] at h
      cases hr : reorgDisconnect c s (tipMeta S) nb tc with
      | error e => rw [hr] at h; cases h
      | ok r =>
        obtain ⟨s2, rolled2, tc2⟩ := r
        rw [hr] at h
        simp only [M_ok_bind] at h
        cases hc : connectAll c (readyWallets s2 c.wallets) tc2 s2 [] with
        | error e => rw [hc] at h; cases h
        | ok r =>
          obtain ⟨s3, added3⟩ := r
          rw [hc] at h
          simp only [M_ok_bind, M_pure_eq, Except.ok.injEq, Prod.mk.injEq] at h
          obtain ⟨rfl, rfl, rfl⟩ := h
          obtain ⟨hl1, hl2⟩ := alignNew_last _ _ _ _ _ _ ha
          simp only [List.getLast?_singleton] at hl1
          -- no block of the list to connect is `b`
          have hnotin : b ∉ tc2 := by
            intro hm
            obtain ⟨s0, r0, hf⟩ := connectAll_ok_mem _ _ _ _ hc b hm
            exact hoff (filterBlock_ok_onChain hinj hf)
          have hlast : ∀ l : List Block, l.getLast? = some b → l ≠ [] → b ∈ l := by
            intro l hl _
            exact List.mem_of_getLast? hl
          have htc2 : tc2 = tc := by
            rcases reorgDisconnect_last hr with e | ⟨hne, hl⟩
            · exact e
            · exact absurd (hlast _ (hl.trans hl1) hne) hnotin
          subst htc2
          have htc : tc2 = [] := by
            cases tc2 with
            | nil => rfl
            | cons a t =>
              rw [List.getLast?_cons_cons] at hl1
              exact absurd (hlast _ hl1 (by simp)) hnotin
          subst htc
          obtain ⟨_, hnb, hfu⟩ := hl2 rfl
          rw [hnb] at hr
          have hle : b.height < S.length := by
            rw [htip] at hfu
            simp only at hfu
            have := H.goodS.length_pos
            omega
          simp only [connectAll, M_pure_eq, Except.ok.injEq, Prod.mk.injEq] at hc
          obtain ⟨rfl, rfl⟩ := hc
          obtain ⟨g1, g2, g3⟩ := reorgDisconnect_stale H hinj hI hle hAR hr
          exact ⟨g1, g2, rfl, g3⟩

-- ------------------------------------------------------------------ 7. arbitrary notifications

/-- item 7, TOTALITY: for an ARBITRARY notified block `b` (not necessarily on the node's best chain; ids
    determine blocks among `b`, the stored chain and the node's chain), `processBlock` either fails and leaves
    store and follower state untouched, or succeeds with the follower's tip at `b` and the store holding
    exactly the prefix ending with `b` of the node's chain or of the stored chain. -/
theorem processBlock_total {c : Ctx} {S : List Block} (H : ReorgHyp c S) {s : Store} {v : Vol} {b : Block}
    (hinj : IdInj (b :: (S ++ c.node.chain))) (hI : Inv c s S) (hv : v.best = tipMeta S)
    (hgen : b.height = 0 → b.prev ≠ (tipMeta S).hash)
    (hAR : AllReady c.own (readyWallets s c.wallets)) (hne : (readyWallets s c.wallets).isEmpty = false) :
    ∃ s' v' ok, processBlock c s v b = (s', v', ok) ∧
      ((ok = false ∧ s' = s ∧ v' = v) ∨
       (ok = true ∧ v'.best = ⟨b.height, b.id⟩ ∧ (∀ ws, readyWallets s' ws = readyWallets s ws) ∧
        ((c.node.chain[b.height]? = some b ∧ Inv c s' (c.node.chain.take (b.height + 1))) ∨
         (S[b.height]? = some b ∧ Inv c s' (S.take (b.height + 1)))))) := by
  by_cases hb : c.node.chain[b.height]? = some b
  · obtain ⟨s', v', h1, h2, h3, _, h5⟩ := processBlock_reaches H hI hb hv hgen hAR hne
    exact ⟨s', v', true, h1, Or.inr ⟨rfl, h3, h5, Or.inl ⟨hb, h2⟩⟩⟩
  · cases hr : processM c s v b with
    | error e => exact ⟨s, v, false, processBlock_of_error hr, Or.inl ⟨rfl, rfl, rfl⟩⟩
    | ok r =>
      obtain ⟨s', rolled, added⟩ := r
      obtain ⟨v', h1, h2⟩ := processBlock_of_ok hr
      obtain ⟨g1, g2, _, g4⟩ := processM_stale H hinj hI hv hAR hb hr
      exact ⟨s', v', true, h1, Or.inr ⟨rfl, h2, g4, Or.inr ⟨g1, g2⟩⟩⟩

end MW.Lemmas.Ledger
