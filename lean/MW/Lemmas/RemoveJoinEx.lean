/-
  C08, non-vacuity of `MW.Lemmas.RemoveJoin`: on the two-wallet chain of `MW.Lemmas.RemoveEx`
  (G – B1[C1 → A1] – B2[T4 cb → A2, T3: C1:0 → A2, X1]; A1 is W1's, A2 is W2's)
    * W2 flagged at height 1 (its books up to B1 are empty: the join is the other wallet's books),
    * W1 flagged at height 1 (its coin C1:0 is still UNSPENT in its half: the join is NOT the books of the chain),
    * W2 flagged at the tip on the store the follower built (`removeWallet` on `RemoveEx.st`): `scanJS_to_midU`.
-/
import MW.Lemmas.RemoveJoin
import MW.Lemmas.RemoveEx
namespace MW.Lemmas.RemoveJoinEx
open MW MW.Model.Ledger MW.Model.Remove MW.Spec.Chain MW.Spec.Books MW.Lemmas.Ledger MW.Lemmas.RemoveProj
  MW.Lemmas.RemoveInv MW.Lemmas.RemoveUpper MW.Lemmas.RemoveJoin MW.Lemmas.RemoveEx MW.Lemmas.ImportJoin

theorem ownNodup : KeysNodup ctx.own := by unfold KeysNodup; decide

/-- W2 flagged at height 1 -/
example : UpperOK ctx "W2" own' chain (joinBookK ctx "W2" own' chain 1) :=
  upperOK_join remHyp ownNodup (by decide)

-- ------------------------------------------------------------------ W1 flagged at height 1

def own1' : Own := own.filter (fun e => e.2.1 != "W1")

theorem managed1 : ∀ a, (["A1"] : List Addr).contains a = isW own "W1" a := by
  intro a
  unfold isW
  simp only [own, AMap.get_cons, AMap.get_nil]
  by_cases h1 : "A1" = a
  · subst h1; decide
  · by_cases h2 : "A2" = a
    · subst h2; decide
    · have : ¬ a = "A1" := fun h => h1 h.symm
      simp [h1, h2, this]

theorem remHyp1 : RemHyp ctx "W1" ["A1"] own1' chain where
  minus := ownMinus_filter (by unfold KeysNodup; decide) "W1"
  managed := managed1
  ne := by decide
  valid := valid
  heights := good.heights
  known := remHyp.known

theorem upper1 : UpperOK ctx "W1" own1' chain (joinBookK ctx "W1" own1' chain 1) :=
  upperOK_join remHyp1 ownNodup (by decide)

/-- here the upper book is NOT the books of the chain: W1's coin C1:0, spent by T3 in B2, is still in the ledger list
    of the join (after W2's two coins), and its credit is still unspent -/
example : (joinBookK ctx "W1" own1' chain 1).L.map (fun u => (u.wallet, u.tx, u.idx)) =
      [("W2", "T4", 0), ("W2", "T3", 0), ("W1", "C1", 0)] ∧
    (bookOf ctx.p own chain).L.map (fun u => (u.wallet, u.tx, u.idx)) = [("W2", "T4", 0), ("W2", "T3", 0)] ∧
    ((joinBookK ctx "W1" own1' chain 1).credits ⟨"C1", ⟨1, "B1"⟩, 0⟩).map (·.spent) = some false ∧
    ((bookOf ctx.p own chain).credits ⟨"C1", ⟨1, "B1"⟩, 0⟩).map (·.spent) = some true := by decide

-- ------------------------------------------------------------------ W2 flagged at the tip, on the follower's store

/-- the store after `RemoveWallet W2` (gate passed: the flag is set) -/
def stF : Store := (removeWallet 0 ["W1", "W2"] true st "W2").2

theorem stF_ok : (removeWallet 0 ["W1", "W2"] true st "W2").1 = .ok := by decide

theorem stF_notReady : (readyWallets stF ctx.wallets).contains "W2" = false := by decide

theorem stF_eq : stF = { st with status := AMap.put st.status "W2" ⟨none, true⟩ } := by
  unfold stF removeWallet
  have h : AMap.get st.status "W2" = some ⟨none, false⟩ := by decide
  simp [h, Gen.Handler.maxWaitingTaskNum]

/-- setting the flag only shrinks the set of ready wallets: C01's invariant survives -/
theorem inv_status {c : Ctx} {s : Store} {chain : List Block} (hI : Inv c s chain) (st' : AMap.T Wid WStatus)
    (hr : ∀ w, (readyWallets { s with status := st' } c.wallets).contains w = true →
      (readyWallets s c.wallets).contains w = true) : Inv c { s with status := st' } chain :=
  ⟨⟨hI.agree.unspent, hI.agree.credits, hI.agree.debits, hI.agree.game, hI.agree.txrecs, hI.agree.blocks⟩,
    fun w hw => hI.bal w (hr w hw), hI.sync, hI.syncedTo⟩

theorem invF : Inv ctx stF chain := by
  rw [stF_eq]
  apply inv_status inv
  intro w hw
  have hr : readyWallets { st with status := AMap.put st.status "W2" ⟨none, true⟩ } ctx.wallets = ["W1"] := by decide
  rw [hr] at hw
  have : w = "W1" := by simpa using hw
  subst this
  decide

theorem scanF : ScanJS ctx "W2" stF chain 2 :=
  inv_to_scanJS ownNodup valid good.heights invF (inv.bal "W2" (by decide)) rfl

/-- every hypothesis of `scanJS_to_midU` holds of the flagged store -/
example : MidU ctx "W2" ["A2"] own' stF chain (joinBookK ctx "W2" own' chain 2) :=
  scanJS_to_midU remHyp ownNodup (by decide) scanF stF_notReady st_nodup
    (fun e he _ => st_pend e he)

end MW.Lemmas.RemoveJoinEx
