/-
  WELL-FORMEDNESS OF THE CREDIT BUCKET (part 1): the keys of the list `s.credits` stay pairwise distinct under
  everything the follower does on the connect side.  RemoveRelevantTx (C08) folds over that LIST and erases by key,
  so `remove_projects` / `inv_to_mid` need this structural fact; here it is shown to be an invariant of the
  model (every writer of `credits` is `AMap.put` / `AMap.erase`), so that it only has to be assumed of the
  initial store.  Same plan as `LedgerWF` / `LedgerWF2` (which do it for `s.unspent`); the generic loop rules
  are taken from there.
-/
import MW.Lemmas.LedgerWF2
namespace MW.Lemmas.LedgerWFCred
open MW MW.Model.Ledger MW.Spec.Chain MW.Spec.Books MW.Lemmas.Ledger

/-- a pure loop that never writes the credit bucket -/
theorem foldl_credits_eq {α : Type} (f : Store → α → Store) (l : List α) (s : Store)
    (h : ∀ s a, a ∈ l → (f s a).credits = s.credits) : (l.foldl f s).credits = s.credits := by
  induction l generalizing s with
  | nil => rfl
  | cons a l ih =>
    rw [List.foldl_cons, ih _ (fun s a' ha' => h s a' (List.mem_cons_of_mem _ ha'))]
    exact h s a (List.mem_cons_self ..)

-- ------------------------------------------------------------------ the mined side

theorem cn_spendOne {tr : TxRec} {blk : BlockMeta} {sb sb' : Store × Bals} {rel : Rel}
    (hq : KeysNodup sb.1.credits) (h : spendOne tr blk sb rel = .ok sb') : KeysNodup sb'.1.credits := by
  unfold spendOne at h
  repeat' split at h
  all_goals cases h
  exact keysNodup_put hq _ _

theorem cn_updateMinedBalance {s : Store} {bals : Bals} {tr : TxRec} {blk : BlockMeta} {sb' : Store × Bals}
    (hq : KeysNodup s.credits) (h : updateMinedBalance s bals tr blk = .ok sb') : KeysNodup sb'.1.credits :=
  foldlM_preserves_store (·.1) (fun s => KeysNodup s.credits) _ _
    (fun _ _ _ _ hb hf => cn_spendOne hb hf) (b := (s, bals)) hq h

theorem cn_creditOne {p : Params} {tr : TxRec} {blk : BlockMeta} {sb sb' : Store × Bals} {rel : Rel}
    (hq : KeysNodup sb.1.credits) (h : creditOne p tr blk sb rel = .ok sb') : KeysNodup sb'.1.credits := by
  unfold creditOne at h
  split at h
  · cases h
  · have := Except.ok.inj h; subst this; exact keysNodup_put hq _ _

theorem gameOne_credits (tr : TxRec) (blk : BlockMeta) (s : Store) (rel : Rel) :
    (gameOne tr blk s rel).credits = s.credits := rfl

theorem cn_addCredits {p : Params} {s : Store} {bals : Bals} {tr : TxRec} {blk : BlockMeta}
    {sb' : Store × Bals} (hq : KeysNodup s.credits) (h : addCredits p s bals tr blk = .ok sb') :
    KeysNodup sb'.1.credits := by
  unfold addCredits at h
  split at h
  · have := Except.ok.inj h; subst this; exact hq
  · obtain ⟨sb1, h1, h2⟩ := M_bind_ok h
    have hq1 : KeysNodup sb1.1.credits :=
      foldlM_preserves_store (·.1) (fun s => KeysNodup s.credits) _ _
        (fun _ _ _ _ hb hf => cn_creditOne hb hf) (b := (s, bals)) hq h1
    have := Except.ok.inj h2; subst this
    show KeysNodup (List.foldl (gameOne tr blk) sb1.1 (gameOuts tr)).credits
    rw [foldl_credits_eq _ _ _ (fun s a _ => gameOne_credits tr blk s a)]
    exact hq1

theorem recordMinedTx_credits (s : Store) (tr : TxRec) (blk : BlockMeta) :
    (recordMinedTx s tr blk).credits = s.credits := rfl

theorem cn_insertMinedTx {own : Own} {s : Store} {bals : Bals} {tr : TxRec} {blk : BlockMeta}
    {r : Store × Bals × Bool} (hq : KeysNodup s.credits) (h : insertMinedTx own s bals tr blk = .ok r) :
    KeysNodup r.1.credits := by
  unfold insertMinedTx at h
  split at h
  · have := Except.ok.inj h; subst this; exact hq
  · obtain ⟨sb1, h1, h2⟩ := M_bind_ok h
    have hq1 : KeysNodup sb1.1.credits :=
      cn_updateMinedBalance (s := recordMinedTx s tr blk) hq h1
    have := Except.ok.inj h2; subst this
    show KeysNodup (removeDoubleSpends own (unpendMined sb1.1 tr.tx) tr).credits
    rw [(minedEq_removeDoubleSpends own _ tr).credits, (minedEq_unpendMined _ tr.tx).credits]
    exact hq1

theorem cn_addRelevantMined {p : Params} {own : Own} {s : Store} {bals : Bals} {tr : TxRec} {blk : BlockMeta}
    {sb' : Store × Bals} (hq : KeysNodup s.credits) (h : addRelevantMined p own s bals tr blk = .ok sb') :
    KeysNodup sb'.1.credits := by
  unfold addRelevantMined at h
  obtain ⟨r, h1, h2⟩ := M_bind_ok h
  exact cn_addCredits (cn_insertMinedTx hq h1) h2

theorem cn_applyRelevant {c : Ctx} {s s' : Store} {ready : List Wid} {bm : BlockMeta} {relevant : List TxRec}
    (hq : KeysNodup s.credits) (h : applyRelevant c s ready bm relevant = .ok s') : KeysNodup s'.credits := by
  unfold applyRelevant at h
  split at h
  · have := Except.ok.inj h; subst this; exact hq
  · obtain ⟨sb1, h1, h2⟩ := M_bind_ok h
    have hq1 : KeysNodup sb1.1.credits :=
      foldlM_preserves_store (·.1) (fun s => KeysNodup s.credits) _ _
        (fun _ _ _ _ hb hf => cn_addRelevantMined hb hf)
        (b := (s, List.filter (fun e => ready.contains e.1) s.balance)) hq h1
    have := Except.ok.inj h2; subst this
    exact hq1

theorem cn_putSyncedTo {s s' : Store} {blk : BlockMeta}
    (hq : KeysNodup s.credits) (h : putSyncedTo s blk = .ok s') : KeysNodup s'.credits := by
  unfold putSyncedTo at h
  repeat' split at h
  all_goals cases h
  exact hq

theorem cn_filterBlock {c : Ctx} {s : Store} {ready : List Wid} {b : Block} {r : Store × List TxId}
    (hq : KeysNodup s.credits) (h : filterBlock c s ready b = .ok r) : KeysNodup r.1.credits := by
  unfold filterBlock at h
  split at h
  · cases h
  · split at h
    · cases h
    · dsimp only at h
      split at h
      all_goals
        obtain ⟨relevant, _, h⟩ := M_bind_ok h
        obtain ⟨s1, h1, h⟩ := M_bind_ok h
        obtain ⟨s2, h2, h⟩ := M_bind_ok h
        have := Except.ok.inj h; subst this
        refine cn_putSyncedTo ?_ h2
        rw [(minedEq_purgeUnrelated c.own s1 _).credits]
        exact cn_applyRelevant hq h1

theorem cn_connectAll {c : Ctx} {ready : List Wid} : ∀ (bs : List Block) (s : Store)
    (added : List (Nat × List TxId)) (r : Store × List (Nat × List TxId)),
    KeysNodup s.credits → connectAll c ready bs s added = .ok r → KeysNodup r.1.credits := by
  intro bs
  induction bs with
  | nil =>
    intro s added r hq h
    unfold connectAll at h
    have := Except.ok.inj h; subst this; exact hq
  | cons b rest ih =>
    intro s added r hq h
    unfold connectAll at h
    obtain ⟨r1, h1, h2⟩ := M_bind_ok h
    exact ih _ _ _ (cn_filterBlock hq h1) h2


end MW.Lemmas.LedgerWFCred
