/-
  The record-level keystore model of C04 / C12 (MW.Model.Keystore: `Rec` with abstract key derivation) as an abstraction
  of the byte level: the child counters of a `Rec` are the 4-byte little-endian values under "exChildNum" / "inChildNum",
  its public-key map is the `pub` sub-bucket keyed by branch‖index.  nextAddresses (updateChildNum + putEncryptedPubKey,
  through the codecs of MW.Model.KsCodec) keeps the representation: the next start reads exactly the model's next index.
-/
import MW.Model.Keystore
import MW.Lemmas.KsRefineAcct
namespace MW.KsRefineMgr
open MW MW.Model.Keystore MW.Model.KsCodec MW.KsCodecL MW.KsRefine
open MW.Gen.KsCodec (externalChildNumName internalChildNumName)

variable {Priv Pub Addr : Type}

/-- account bucket and `pub` sub-bucket REPRESENT the counters and the public-key map of a record; `pkEnc` is the stored
    (sealed) form of a public key -/
structure RecRep (pkEnc : Pub → Bytes) (r : Rec Priv Pub) (acct pk : Bucket) : Prop where
  exLt : r.exNum < 4294967296
  inLt : r.inNum < 4294967296
  ex : bget acct (key externalChildNumName) = some (u32Bytes r.exNum)
  inn : bget acct (key internalChildNumName) = some (u32Bytes r.inNum)
  pubs : ∀ b i, b < 4294967296 → i < 4294967296 → bget pk (pubKeyKey b i) = (AMap.get r.pubs (b, i)).map pkEnc

/-- the database part of AddrManager.nextAddresses: updateChildNum(internal, next + num), then one putEncryptedPubKey per
    new address, in index order -/
def nextAddressesB (acct pk : Bucket) (internal : Bool) (next num : Nat) (enc : Nat → Bytes) :
    Except MW.Model.KsCodec.Err (Bucket × Bucket) :=
  match updateChildNum acct internal (next + num) with
  | .error e => .error e
  | .ok acct' =>
    match MW.Model.KsBytes.putPubKeys (if internal then internalBranch else externalBranch) enc (List.range' next num) pk with
    | .error e => .error e
    | .ok pk' => .ok (acct', pk')

variable [DecidableEq Addr] (sch : Scheme Priv Pub Addr)

/-- what a granted request does to the record -/
theorem nextAddresses_inv (r : Rec Priv Pub) (m : Mgr Pub Addr) (used : Addr → Bool) (internal : Bool) (num gap : Nat)
    (r' : Rec Priv Pub) (mas : List (MAddr Pub Addr)) (h : nextAddresses sch r m used internal num gap = .ok (r', mas)) :
    num + r.next internal ≤ maxAddrs ∧
    mas = (List.range' (r.next internal) num).map (fun i =>
      mkAddr sch (issuePub sch r m.hasPriv (if internal then internalBranch else externalBranch) i)
        (if internal then internalBranch else externalBranch) i) ∧
    r' = { r.setNext internal (r.next internal + num) with
            pubs := mas.foldl (fun p a => AMap.put p ((if internal then internalBranch else externalBranch), a.index) a.pub)
              (r.setNext internal (r.next internal + num)).pubs } := by
  unfold nextAddresses at h
  simp only at h
  split at h
  · cases h
  · rename_i h1
    split at h
    · cases h
    · split at h
      · cases h
      · cases h
      · simp only [Except.ok.injEq, Prod.mk.injEq] at h
        obtain ⟨rfl, rfl⟩ := h
        simp only [Bool.or_eq_true, decide_eq_true_eq, not_or, not_lt] at h1
        exact ⟨h1.2, rfl, rfl⟩

theorem get_foldl_pubs (b : Nat) (f : Nat → Pub) : ∀ (is : List Nat) (p : AMap.T (Nat × Nat) Pub) (b' i' : Nat),
    AMap.get (is.foldl (fun p i => AMap.put p (b, i) (f i)) p) (b', i') =
      if b' = b ∧ i' ∈ is then some (f i') else AMap.get p (b', i') := by
  intro is
  induction is with
  | nil => intro p b' i'; simp
  | cons j js ih =>
    intro p b' i'
    simp only [List.foldl_cons]
    rw [ih, AMap.get_put]
    by_cases hb : b' = b
    · by_cases hj : i' ∈ js
      · simp [hb, hj]
      · by_cases hij : i' = j
        · simp [hb, hj, hij]
        · have hji : ¬ j = i' := fun e => hij e.symm
          simp [hb, hj, hij, hji]
    · have : ¬ ((b, j) = (b', i')) := fun e => hb (Prod.mk.inj e).1.symm
      simp [hb, this]

theorem bget_insAll_pk (br : Nat) (enc : Nat → Bytes) (hbr : br < 4294967296) : ∀ (is : List Nat) (pk : Bucket),
    (∀ i ∈ is, i < 4294967296) → ∀ b' i', b' < 4294967296 → i' < 4294967296 →
    bget (insAll pk (is.map (fun j => (pubKeyKey br j, enc j)))) (pubKeyKey b' i') =
      if b' = br ∧ i' ∈ is then some (enc i') else bget pk (pubKeyKey b' i') := by
  intro is
  induction is with
  | nil => intro pk _ b' i' _ _; simp [insAll]
  | cons j js ih =>
    intro pk hlt b' i' hb' hi'
    have hk : pubKeyKey br j ≠ [] := by
      intro e; have := pubKeyKey_length br j; rw [e] at this; simp at this
    simp only [List.map_cons, insAll, List.foldl_cons]
    have := ih (KV.SMap.insert pk (pubKeyKey br j) (enc j)) (fun i hi => hlt i (List.mem_cons_of_mem _ hi)) b' i' hb' hi'
    simp only [insAll] at this
    rw [this, bget_insert _ _ _ _ hk]
    have hjlt := hlt j List.mem_cons_self
    by_cases hb : b' = br
    · subst hb
      by_cases hj : i' ∈ js
      · simp [hj]
      · by_cases hij : i' = j
        · simp [hj, hij]
        · have : ¬ (pubKeyKey b' i' = pubKeyKey b' j) := fun e => hij (pubKeyKey_inj hb' hi' hbr hjlt e).2
          simp [hj, hij, this]
    · have : ¬ (pubKeyKey b' i' = pubKeyKey br j) := fun e => hb (pubKeyKey_inj hb' hi' hbr hjlt e).1
      simp [hb, this]

/-- CHILD_COUNTER_PERSIST for the record model: a granted nextAddresses of KsMgr, executed on the bytes through
    updateChildNum / putEncryptedPubKey, succeeds; the buckets represent the new record; `fetchChildNum` / `getChildNum`
    (what the next start and updateManagedAddress read) return exactly the model's next indexes; every issued key is stored
    under its (branch, index) -/
theorem nextAddresses_refines (pkEnc : Pub → Bytes) (hne : ∀ p, pkEnc p ≠ [])
    (r : Rec Priv Pub) (m : Mgr Pub Addr) (used : Addr → Bool) (internal : Bool) (num gap : Nat)
    (r' : Rec Priv Pub) (mas : List (MAddr Pub Addr)) (acct pk : Bucket)
    (hrep : RecRep pkEnc r acct pk) (h : nextAddresses sch r m used internal num gap = .ok (r', mas)) :
    ∃ acct' pk',
      nextAddressesB acct pk internal (r.next internal) num
        (fun i => pkEnc (issuePub sch r m.hasPriv (if internal then internalBranch else externalBranch) i)) = .ok (acct', pk') ∧
      RecRep pkEnc r' acct' pk' ∧
      fetchChildNum acct' = .ok (r'.inNum, r'.exNum) ∧
      getChildNum acct' internal = .ok (r'.next internal) ∧
      (∀ ma ∈ mas, bget pk' (pubKeyKey ma.branch ma.index) = some (pkEnc ma.pub)) := by
  obtain ⟨hmax, hmas, hr'⟩ := nextAddresses_inv sch r m used internal num gap r' mas h
  have hmax' : r.next internal + num < 4294967296 := by unfold maxAddrs at hmax; omega
  set br := (if internal then internalBranch else externalBranch) with hbr
  have hbrlt : br < 4294967296 := by rw [hbr]; cases internal <;> decide
  set enc := fun i => pkEnc (issuePub sch r m.hasPriv br i) with henc
  have hup : updateChildNum acct internal (r.next internal + num) =
      .ok (KV.SMap.insert acct (key (childNumName internal)) (u32Bytes (r.next internal + num))) := by
    simp [updateChildNum, putU32, bput_ok acct (childNumName_ne_nil internal) (u32Bytes_ne_nil _)]
  have hpk := MW.KsRefine.putPubKeys_isPuts br enc (fun j => hne _) (List.range' (r.next internal) num) pk
  refine ⟨KV.SMap.insert acct (key (childNumName internal)) (u32Bytes (r.next internal + num)),
    insAll pk ((List.range' (r.next internal) num).map (fun j => (pubKeyKey br j, enc j))),
    by simp only [nextAddressesB, hup, ← hbr, hpk], ?_⟩
  -- the new record
  have hpubs' : ∀ b i, AMap.get r'.pubs (b, i) =
      if b = br ∧ i ∈ List.range' (r.next internal) num then some (issuePub sch r m.hasPriv br i) else AMap.get r.pubs (b, i) := by
    intro b i
    rw [hr', hmas]
    simp only [List.foldl_map, mkAddr]
    have := get_foldl_pubs br (fun i => issuePub sch r m.hasPriv br i) (List.range' (r.next internal) num)
      (r.setNext internal (r.next internal + num)).pubs b i
    rw [this]
    cases internal <;> simp [Rec.setNext]
  have hrange : ∀ i ∈ List.range' (r.next internal) num, i < 4294967296 := by
    intro i hi; simp only [List.mem_range'_1] at hi; omega
  have hex' : r'.exNum = if internal then r.exNum else r.next internal + num := by
    rw [hr']; cases internal <;> simp [Rec.setNext]
  have hin' : r'.inNum = if internal then r.next internal + num else r.inNum := by
    rw [hr']; cases internal <;> simp [Rec.setNext]
  have hrep' : RecRep pkEnc r' (KV.SMap.insert acct (key (childNumName internal)) (u32Bytes (r.next internal + num)))
      (insAll pk ((List.range' (r.next internal) num).map (fun j => (pubKeyKey br j, enc j)))) := by
    refine ⟨?_, ?_, ?_, ?_, ?_⟩
    · rw [hex']; cases internal <;> simp [hrep.exLt, hmax']
    · rw [hin']; cases internal <;> simp [hrep.inLt, hmax']
    · rw [bget_insert _ _ _ _ (childNumName_ne_nil internal), hex']
      cases internal
      · simp [childNumName]
      · have : key externalChildNumName ≠ key (childNumName true) := by decide
        simp [this, hrep.ex]
    · rw [bget_insert _ _ _ _ (childNumName_ne_nil internal), hin']
      cases internal
      · have : key internalChildNumName ≠ key (childNumName false) := by decide
        simp [this, hrep.inn]
      · simp [childNumName]
    · intro b i hb hi
      rw [bget_insAll_pk br enc hbrlt _ pk hrange b i hb hi, hpubs' b i, hrep.pubs b i hb hi]
      by_cases hc : b = br ∧ i ∈ List.range' (r.next internal) num
      · rw [if_pos hc, if_pos hc]; rfl
      · rw [if_neg hc, if_neg hc]
  refine ⟨hrep', ?_, ?_, ?_⟩
  · simp [fetchChildNum, hrep'.ex, hrep'.inn, u32Of_u32Bytes_of_lt hrep'.exLt, u32Of_u32Bytes_of_lt hrep'.inLt, bind, Except.bind,
      pure, Except.pure]
  · have hn : r'.next internal = r.next internal + num := by
      rw [hr']; cases internal <;> simp [Rec.setNext, Rec.next]
    rw [hn]
    simp [getChildNum, bget_insert _ _ _ _ (childNumName_ne_nil internal), u32Of_u32Bytes_of_lt hmax']
  · intro ma hma
    rw [hmas] at hma
    simp only [List.mem_map] at hma
    obtain ⟨i, hi, rfl⟩ := hma
    simp only [mkAddr]
    rw [bget_insAll_pk br enc hbrlt _ pk hrange br i hbrlt (hrange i hi)]
    simp [hi, henc]

/-- the counters of a represented record as `fetchChildNum` reads them -/
theorem fetchChildNum_of_rep (pkEnc : Pub → Bytes) (r : Rec Priv Pub) (acct pk : Bucket) (hrep : RecRep pkEnc r acct pk) :
    fetchChildNum acct = .ok (r.inNum, r.exNum) := by
  simp [fetchChildNum, hrep.ex, hrep.inn, u32Of_u32Bytes_of_lt hrep.exLt, u32Of_u32Bytes_of_lt hrep.inLt, bind, Except.bind,
    pure, Except.pure]

/-- EXPORT carries the model's counters: whenever the byte-level `export` of a represented account bucket succeeds, the
    hdPath counters of the file are the record's next indexes – the `ex` / `inn` fields of the keystore file of
    `MW.Model.Keystore.exportKeystore` (what C04's restore theorems assume of a file) -/
theorem export_counters (pkEnc : Pub → Bytes) (r : Rec Priv Pub) (acct pk : Bucket) (hrep : RecRep pkEnc r acct pk)
    (purpose coin : Nat) (k : KeystoreJ) (h : exportKs acct purpose coin = .ok k) :
    k.externalChildNum = r.exNum ∧ k.internalChildNum = r.inNum := by
  have hc := fetchChildNum_of_rep pkEnc r acct pk hrep
  unfold exportKs at h
  simp only [hc, bind, Except.bind, pure, Except.pure] at h
  split at h
  · cases h
  · split at h
    · cases h
    · split at h
      · cases h
      · simp only [Except.ok.injEq] at h
        subst h
        exact ⟨rfl, rfl⟩

end MW.KsRefineMgr
