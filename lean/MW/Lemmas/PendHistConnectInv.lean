/-
  C09 history-level refinement: THE CONNECT STEP UNDER THE INVARIANT — glue of C01 (`connect_sound`), the bridge
  (`inv_norec`, `inv_cover`) and the pending-side step (`connect_step`): one theorem whose hypotheses are the
  mined-side invariant, the pending relation and the domain of the step.
-/
import MW.Lemmas.PendHistRunDefs
namespace MW.Lemmas.PendHist
open MW MW.Model.Ledger MW.Spec.Pending MW.Lemmas.LedgerPending MW.Lemmas.Ledger

theorem ownerOf_of_ownedOut (e : MW.Spec.Pending.Env) (o : Out) (h : ownedOut e o = true) :
    (MW.Spec.Books.ownerOf e.own o).isSome = true := by
  unfold ownedOut at h
  simp only [Bool.and_eq_true, decide_eq_true_eq] at h
  unfold MW.Spec.Books.ownerOf
  rw [if_neg h.1]; exact h.2

theorem readyWallets_congr (s s' : Store) (h : s'.status = s.status) (ws : List Wid) :
    readyWallets s' ws = readyWallets s ws := by
  unfold readyWallets; rw [h]

/-- a relevant transaction whose inputs all refer to transactions of `c` (each the one its id denotes) is
    relevant among the transactions of `c` -/
theorem relAmong_of_relevant (E : HEnv) (c : List Block) (u : Tx) (hr : relevant E.env u = true)
    (hpar : ∀ i ∈ u.ins, onChain c i.tx = true) (hsrc : SrcChain E c) :
    RelAmong E.own (chainTxs c) u := by
  unfold relevant at hr
  rcases Bool.or_eq_true_iff.1 hr with h1 | h2
  · obtain ⟨o, ho, hoo⟩ := List.any_eq_true.1 h1
    exact Or.inl ⟨o, ho, ownerOf_of_ownedOut E.env o hoo⟩
  · obtain ⟨hcb, h3⟩ := Bool.and_eq_true_iff.1 h2
    obtain ⟨i, hi, hio⟩ := List.any_eq_true.1 h3
    refine Or.inr ⟨by simpa using hcb, i, hi, ?_⟩
    obtain ⟨x, hx, p, hp, hid⟩ := (onChain_iff _ _).1 (hpar i hi)
    have hs : E.src i.tx = some p := by rw [← hid]; exact hsrc x hx p hp
    have hpo : prevOut E.env i = p.outs[i.idx]? := by
      unfold prevOut; show (E.src i.tx).bind _ = _; rw [hs]; rfl
    rw [hpo] at hio
    refine ⟨p, ?_, hid, ?_⟩
    · unfold chainTxs; exact List.mem_flatMap.2 ⟨x, hx, hp⟩
    · cases ho : p.outs[i.idx]? with
      | none => rw [ho] at hio; cases hio
      | some o => rw [ho] at hio; exact ⟨o, rfl, ownerOf_of_ownedOut E.env o hio⟩

theorem connect_step_inv (rank : TxId → Nat) (E : HEnv) (n : Node) (s s' : Store) (c rest : List Block) (b : Block)
    (P : List Tx) (conf : List TxId)
    (hI : Inv (E.ctx n) s c)
    (hAR : AllReady E.own (readyWallets s E.wallets)) (hne : (readyWallets s E.wallets).isEmpty = false)
    (hnode : n.chain = c ++ b :: rest) (hvalid : ChainValid E.own n.chain) (hheight : b.height = c.length)
    (hrel : PendRel rank s P) (hcons : Consistent c P) (hsidx : SrcIdx E P)
    (hnocb : ∀ t ∈ P, t.cb = false) (hrelv : ∀ t ∈ P, relevant E.env t = true)
    (hsrcP : ∀ t ∈ P, E.src t.id = some t)
    (hok : ConnOK c b P) (hsrcB : SrcChain E (c ++ [b]))
    (h : filterBlock (E.ctx n) s (readyWallets s E.wallets) b = .ok (s', conf)) :
    Inv (E.ctx n) s' (c ++ [b]) ∧ (∀ ws, readyWallets s' ws = readyWallets s ws) ∧
    PendRel rank s' (onChainMoved E.env c (c ++ [b]) P) ∧
    Consistent (c ++ [b]) (onChainMoved E.env c (c ++ [b]) P) ∧
    (onChainMoved E.env c (c ++ [b]) P).Sublist P := by
  have hnode' : (E.ctx n).node.chain = c ++ b :: rest := hnode
  have hvalid' : ChainValid (E.ctx n).own (E.ctx n).node.chain := hvalid
  have hAR' : AllReady (E.ctx n).own (readyWallets s (E.ctx n).wallets) := hAR
  have hne' : (readyWallets s (E.ctx n).wallets).isEmpty = false := hne
  obtain ⟨s2, conf2, hf2, hI2, hst2⟩ := connect_sound hI hnode' hvalid' hheight hAR' hne'
  have hf2' : filterBlock (E.ctx n) s (readyWallets s E.wallets) b = .ok (s2, conf2) := hf2
  rw [h] at hf2'
  have hpair : (s', conf) = (s2, conf2) := by injection hf2'
  have hs : s2 = s' := (congrArg Prod.fst hpair).symm
  subst hs
  have hvb : ChainValid E.own (c ++ [b]) := by
    have : ChainValid E.own ((c ++ [b]) ++ rest) := by
      rw [List.append_assoc, List.singleton_append, ← hnode]; exact hvalid
    exact chainValid_prefix this
  have hidx : IdxOK P := by
    intro t ht i hi p hp hid
    exact hsidx t ht i hi p (by rw [← hid]; exact hsrcP p hp)
  have hnorec := inv_norec (b := b) hI (show ChainValid (E.ctx n).own (c ++ [b]) from hvb)
  have hcover : ∀ recs, filterTxs (E.ctx n) s (readyWallets s E.wallets) b.id b.txs [] 0 [] = .ok recs →
      ∀ u ∈ b.txs, hasId P u.id = true → ∃ tr ∈ recs, tr.tx = u := by
    intro recs hf u hu hh
    obtain ⟨t, ht, hid⟩ := (hasId_iff _ _).1 hh
    have hut : u = t := hok.ident u hu t ht hid.symm
    have hr : relevant E.env u = true := by rw [hut]; exact hrelv t ht
    have hRA : RelAmong E.own (chainTxs (c ++ [b])) u :=
      relAmong_of_relevant E (c ++ [b]) u hr (hok.parents u hu) hsrcB
    exact inv_cover hI hnode' hvalid' hAR hf u hu hRA
  have hstep := connect_step rank E.env (E.ctx n) s s2 c b P (readyWallets s E.wallets) conf h hne hnorec hcover
    hrel hcons hidx hnocb hok
  refine ⟨hI2, fun ws => readyWallets_congr s s2 hst2 ws, hstep, ?_, ?_⟩
  · rw [onChainMoved_connect]; exact settle_consistent _ _ _ hrel.nodup
  · rw [onChainMoved_connect]; exact settle_sublist _ _ _

end MW.Lemmas.PendHist
