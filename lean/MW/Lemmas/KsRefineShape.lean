/-
  The symbolic keystore model as an abstraction of the byte level, part 6: the SHAPE invariant of the symbolic store –
  in every reachable state every stored term (and every exported parameter term) is either pair-free, a parameter
  pair `pair salt (hash key)`, or an account row `pair (enc ..) (enc ..)`, with pair-free components.  These are the three
  value layouts of keystore/db.go; the invariant is what makes `bytesOf` a flat record of primitive outputs.
  (Same induction over operations as MW.Lemmas.SecretsInv.)
-/
import MW.Lemmas.SecretsInv
import MW.Lemmas.KsRefineOps
namespace MW.KsRefine
open MW MW.Model.Secrets MW.Model.KsBytes MW.Lemmas.SecretsInv

def noPair : Term → Bool
  | .secret _ => true
  | .pub _ => true
  | .rnd _ => true
  | .enc k t => noPair k && noPair t
  | .kdf s p => noPair s && noPair p
  | .hash t => noPair t
  | .pair _ _ => false

/-- the three layouts of a stored value -/
def Stored : Term → Bool
  | .pair (.rnd _) (.hash x) => noPair x
  | .pair (.enc k t) (.enc k' t') => noPair k && noPair t && noPair k' && noPair t'
  | .pair _ _ => false
  | t => noPair t

theorem stored_of_noPair {t : Term} (h : noPair t = true) : Stored t = true := by
  cases t <;> simp_all [Stored, noPair]

def DbSt (db : DB) : Prop := ∀ e ∈ db, Stored e.2 = true
def ExSt (ex : AMap.T String Export) : Prop := ∀ e ∈ ex, ∀ t ∈ e.2.terms, Stored t = true
def ShapeOk (st : St) : Prop := DbSt st.db ∧ ExSt st.exports

theorem dbSt_put {db : DB} {k : Key} {v : Term} (h : DbSt db) (hv : Stored v = true) : DbSt (AMap.put db k v) := by
  intro e he
  rcases mem_put he with rfl | he
  · exact hv
  · exact h e he

theorem dbSt_putAll {es : List (Key × Term)} : ∀ {db : DB}, DbSt db → (∀ e ∈ es, Stored e.2 = true) → DbSt (putAll db es) := by
  induction es with
  | nil => intro db h _; exact h
  | cons x xs ih =>
    intro db h hes
    unfold putAll
    simp only [List.foldl_cons]
    apply ih (dbSt_put h (hes x (List.mem_cons_self)))
    intro e he
    exact hes e (List.mem_cons_of_mem _ he)

theorem dbGet_st {db : DB} (h : DbSt db) (w : String) (k : KeyName) : Stored (dbGet db w k) = true := by
  unfold dbGet
  cases hg : AMap.get db (w, k) with
  | none => rfl
  | some v => exact h _ (get_mem hg)

theorem dbSt_eraseWallet {db : DB} (h : DbSt db) (w : String) : DbSt (eraseWallet db w) := by
  intro e he
  unfold eraseWallet at he
  exact h e (List.mem_filter.mp he).1

theorem paramsT_st (n : Nat) (p : Pass) : Stored (paramsT n p) = true := by
  simp [paramsT, masterKey, passT, Stored, noPair]

theorem masterKey_noPair (n : Nat) (p : Pass) : noPair (masterKey n p) = true := by
  simp [masterKey, passT, noPair]

/-- DeriveKey on a stored parameter pair yields a pair-free key -/
theorem deriveKey_noPair {params : Term} {p : Pass} {k : Term} (hs : Stored params = true) (h : deriveKey params p = some k) :
    noPair k = true := by
  unfold deriveKey at h
  split at h
  · simp at h
  · split at h
    · rename_i salt digest
      dsimp only at h
      split at h
      · rename_i hd
        simp at h; subst h
        subst hd
        cases salt <;> simp_all [Stored, noPair, passT]
      · simp at h
    · simp at h

theorem exbKey_noPair {t : Term} (h : Stored t = true) : noPair (exbKey t) = true := by
  unfold exbKey
  split
  · simp only [Stored, noPair, Bool.and_eq_true] at h; exact h.1
  · rfl

theorem dec_noPair {k c t : Term} (hs : Stored c = true) (h : dec k c = some t) : noPair t = true := by
  unfold dec at h
  split at h
  · split at h
    · simp at h; subst h
      simp only [Stored, noPair, Bool.and_eq_true] at hs; exact hs.2
    · simp at h
  · simp at h

theorem acctEntries_st (w e : String) (p : Pass) (nExt nInt : Nat) (privParams mkPriv mkPubParams mkPub : Term)
    (kPub kPriv kEnt : Nat) (h1 : Stored privParams = true) (h2 : noPair mkPriv = true)
    (h3 : Stored mkPubParams = true) (h4 : noPair mkPub = true) :
    ∀ x ∈ acctEntries w e p nExt nInt privParams mkPriv mkPubParams mkPub kPub kPriv kEnt, Stored x.2 = true := by
  intro x hx
  simp only [acctEntries, scopeEntries, List.mem_append, List.mem_cons, List.mem_map, List.mem_range, List.not_mem_nil,
    or_false] at hx
  rcases hx with (((h | h | h | h | h | h | h | h) | ⟨i, _, h⟩) | ⟨i, _, h⟩) | (h | h | h | h | h | h | h) <;> subst h <;>
    first | exact h1 | exact h3 | simp [Stored, noPair, h2, h4]

theorem shape_parts {st st' : St} (h : ShapeOk st) (hdb : DbSt st'.db) (hex : st'.exports = st.exports) : ShapeOk st' :=
  ⟨hdb, hex ▸ h.2⟩

theorem fail_st {st : St} (h : ShapeOk st) (c : String) : ShapeOk (fail st c).1 := h

theorem create_st {st : St} (h : ShapeOk st) (w : String) (p : Pass) (b : Nat) : ShapeOk (create st w p b).1 := by
  unfold create
  split
  · exact h
  · split; · exact fail_st h _
    split; · exact fail_st h _
    split; · exact fail_st h _
    split; · exact fail_st h _
    split; · exact fail_st h _
    refine shape_parts h ?_ rfl
    exact dbSt_putAll h.1 (acctEntries_st _ _ _ _ _ _ _ _ _ _ _ _ (paramsT_st _ _) (masterKey_noPair _ _)
      (paramsT_st _ _) (masterKey_noPair _ _))

theorem newAddr_st {st : St} (h : ShapeOk st) (w : String) : ShapeOk (newAddr st w).1 := by
  rcases newAddr_db st w with hno | ⟨r, a, _, hdb, _⟩
  · -- refused: the state is unchanged
    unfold newAddr at hno ⊢
    split
    · exact h
    · split
      · exact h
      · rename_i hw hg; simp [hw, hg] at hno
  · refine ⟨?_, ?_⟩
    · rw [hdb]
      apply dbSt_putAll h.1
      intro e he
      simp only [List.mem_cons, List.not_mem_nil, or_false] at he
      rcases he with rfl | rfl
      · rfl
      · simp [Stored, noPair, exbKey_noPair (dbGet_st h.1 w .exb)]
    · have : (newAddr st w).1.exports = st.exports := by
        unfold newAddr; split; · rfl
        split <;> rfl
      rw [this]; exact h.2

theorem exSt_put {ex : AMap.T String Export} {k : String} {x : Export} (h : ExSt ex)
    (hx : ∀ t ∈ x.terms, Stored t = true) : ExSt (AMap.put ex k x) := by
  intro e he
  rcases mem_put he with rfl | he
  · exact hx
  · exact h e he

theorem setAM_st {st : St} (h : ShapeOk st) (w : String) (r : WRec) (a : AM) : ShapeOk (setAM st w r a) := h

theorem exportKS_st {st : St} (h : ShapeOk st) (w : String) (p : Pass) (k : String) : ShapeOk (exportKS st w p k).1 := by
  unfold exportKS
  split
  · exact fail_st h _
  · split
    · exact fail_st h _
    · refine ⟨h.1, ?_⟩
      apply exSt_put h.2
      intro t ht
      simp only [exportOf, Export.terms, List.mem_cons, List.not_mem_nil, or_false] at ht
      rcases ht with rfl | rfl | rfl | rfl
      · rfl
      all_goals exact dbGet_st h.1 _ _

theorem mnemonic_st {st : St} (h : ShapeOk st) (w : String) (p : Pass) : ShapeOk (mnemonic st w p).1 := by
  unfold mnemonic
  split
  · exact fail_st h _
  · split
    · exact fail_st h _
    · dsimp only
      split
      · exact setAM_st h _ _ _
      · exact fail_st (setAM_st h _ _ _) _

theorem remove_st {st : St} (h : ShapeOk st) (w : String) (p : Pass) : ShapeOk (remove st w p).1 := by
  unfold remove
  split
  · exact fail_st h _
  · split
    · exact fail_st h _
    · exact shape_parts h (dbSt_eraseWallet h.1 w) rfl

theorem importKS_st {st : St} (h : ShapeOk st) (k : String) (p : Pass) : ShapeOk (importKS st k p).1 := by
  unfold importKS
  split
  · exact h
  · rename_i x hx
    split
    · exact fail_st h _
    · rename_i mkPriv hmk
      split
      · split; · exact fail_st h _
        split; · exact fail_st h _
        refine shape_parts h ?_ rfl
        have hpp : Stored x.privParams = true := by
          have := h.2 (k, x) (get_mem hx) x.privParams
          apply this
          simp [Export.terms]
        exact dbSt_putAll h.1 (acctEntries_st _ _ _ _ _ _ _ _ _ _ _ _ hpp (deriveKey_noPair hpp hmk)
          (paramsT_st _ _) (masterKey_noPair _ _))
      · exact fail_st h _

theorem importMn_st {st : St} (h : ShapeOk st) (w : String) (p : Pass) (src : String) (e i : Nat) :
    ShapeOk (importMn st w p src e i).1 := by
  unfold importMn
  split
  · exact h
  · dsimp only
    generalize identName st _ p w = name
    split; · exact h
    split; · exact fail_st h _
    split; · exact fail_st h _
    refine shape_parts h ?_ rfl
    exact dbSt_putAll h.1 (acctEntries_st _ _ _ _ _ _ _ _ _ _ _ _ (paramsT_st _ _) (masterKey_noPair _ _)
      (paramsT_st _ _) (masterKey_noPair _ _))

theorem chpub_fold_st (db0 : DB) (h0 : DbSt db0) (old new : Pass) (ws : List (String × WRec × AM)) :
    ∀ (acc : DB × Nat), DbSt acc.1 →
    DbSt (ws.foldl (fun (acc : DB × Nat) e =>
      let w := e.1
      let ck := match deriveKey (dbGet db0 w .mpub) old with
        | some mkOld => (dec mkOld (dbGet db0 w .cpub)).getD (.pub "missing")
        | none => .pub "missing"
      (AMap.put (AMap.put acc.1 (w, .mpub) (paramsT acc.2 new)) (w, .cpub) (.enc (masterKey acc.2 new) ck), acc.2 + 1)) acc).1 := by
  induction ws with
  | nil => intro acc h; exact h
  | cons x xs ih =>
    intro acc h
    simp only [List.foldl_cons]
    apply ih
    apply dbSt_put (dbSt_put h (paramsT_st _ _))
    have hck : noPair (match deriveKey (dbGet db0 x.1 .mpub) old with
        | some mkOld => (dec mkOld (dbGet db0 x.1 .cpub)).getD (.pub "missing")
        | none => .pub "missing") = true := by
      split
      · rename_i mkOld _
        cases hd : dec mkOld (dbGet db0 x.1 .cpub) with
        | none => rfl
        | some t => exact dec_noPair (dbGet_st h0 _ _) hd
      · rfl
    simp [Stored, noPair, masterKey, passT, hck]

theorem chpub_st {st : St} (h : ShapeOk st) (o n : Pass) : ShapeOk (chpub st o n).1 := by
  unfold chpub
  split; · exact fail_st h _
  split; · exact fail_st h _
  split
  · exact fail_st h _
  · exact shape_parts h (chpub_fold_st st.db h.1 o n st.wal (st.db, st.nonce) h.1) rfl

theorem chpriv_st {st : St} (h : ShapeOk st) (w : String) (o n : Pass) : ShapeOk (chpriv st w o n).1 := by
  unfold chpriv
  split
  · exact h
  · split; · exact fail_st h _
    split; · exact fail_st h _
    split; · exact fail_st h _
    split; · exact fail_st h _
    exact fail_st h _

theorem signHash_st {st : St} (h : ShapeOk st) (w : String) (b i : Nat) (p : Pass) : ShapeOk (signHash st w b i p).1 := by
  unfold signHash
  split
  · exact h
  · dsimp only
    split
    · exact fail_st (st := { st with wal := clearAll st.wal }) h _
    · exact h

theorem ksSign_st {st : St} (h : ShapeOk st) (w : String) (b i : Nat) (p : Pass) : ShapeOk (ksSign st w b i p).1 := by
  unfold ksSign
  split
  · exact h
  · split
    · split
      · exact fail_st (setAM_st h _ _ _) _
      · exact fail_st h _
    · exact setAM_st h _ _ _

theorem restart_st {st : St} (h : ShapeOk st) (p : Pass) : ShapeOk (restart st p).1 := by
  unfold restart
  dsimp only
  split
  · exact fail_st (st := { st with wal := clearAll st.wal }) h _
  · split
    · exact h
    · exact fail_st (st := { st with wal := clearAll st.wal }) h _

theorem step_st {st : St} (h : ShapeOk st) (op : Op) : ShapeOk (step st op).1 := by
  cases op with
  | create w p b => exact create_st h w p b
  | newAddr w => exact newAddr_st h w
  | exportKS w p k => exact exportKS_st h w p k
  | importKS k p => exact importKS_st h k p
  | importMn w p s e i => exact importMn_st h w p s e i
  | mnemonic w p => exact mnemonic_st h w p
  | remove w p => exact remove_st h w p
  | chpub o n => exact chpub_st h o n
  | chpriv w o n => exact chpriv_st h w o n
  | signHash w b i p => exact signHash_st h w b i p
  | ksSign w b i p => exact ksSign_st h w b i p
  | ksClear => exact h
  | restart p => exact restart_st h p

theorem run_st (ops : List Op) : ∀ {st : St}, ShapeOk st → ShapeOk (run st ops) := by
  induction ops with
  | nil => intro st h; exact h
  | cons o os ih =>
    intro st h
    unfold run
    simp only [List.foldl_cons]
    exact ih (step_st h o)

theorem init_st : ShapeOk ({} : St) := ⟨fun e he => by simp at he, fun e he => by simp at he⟩

end MW.KsRefine
