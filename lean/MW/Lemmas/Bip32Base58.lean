/-
  Lemmas about the base58 model (MW.Model.Base58) and spec (MW.Spec.Bip32.Base58) for C14:
  the model computes the spec, and decoding inverts encoding for every byte string.
-/
import MW.Model.Bip32Base58
import MW.Spec.Bip32
import MW.Lemmas.Bip32Num
namespace MW.Base58L
open MW MW.Model.Base58 MW.Spec.Bip32.Base58

/-! ### the generated tables are the alphabet of the spec (finite checks, complete) -/

theorem alph_eq_digitChar : ∀ d, d < 58 → alph d = digitChar d := by decide
theorem idx_alph : ∀ d, d < 58 → idx (alph d) = d := by decide
theorem alph_ne_one : ∀ d, d < 58 → d ≠ 0 → alph d ≠ c1 := by decide
theorem charDigit_alph : ∀ d, d < 58 → charDigit? (alph d) = some d := by decide
set_option maxRecDepth 16384 in
theorem idx_table : ∀ n, n < 256 → idx (UInt8.ofNat n) = (charDigit? (UInt8.ofNat n)).getD 255 := by decide
set_option maxRecDepth 16384 in
theorem charDigit_table : ∀ n, n < 256 →
    (charDigit? (UInt8.ofNat n) = none ∨
      alph ((charDigit? (UInt8.ofNat n)).getD 0) = UInt8.ofNat n) := by decide

theorem idx_eq (c : UInt8) : idx c = (charDigit? c).getD 255 := by
  have := idx_table c.toNat (BE.u8_lt c); simpa using this
theorem charDigit_some {c : UInt8} {d : Nat} (h : charDigit? c = some d) : d < 58 ∧ alph d = c := by
  have := charDigit_table c.toNat (BE.u8_lt c)
  simp only [BE.ofNat_toNat] at this
  rw [h] at this
  refine ⟨?_, by simpa using this⟩
  unfold charDigit? at h
  simp only at h
  split at h
  · cases h; assumption
  · cases h
theorem idx_of_some {c : UInt8} {d : Nat} (h : charDigit? c = some d) : idx c = d := by
  rw [idx_eq, h]; rfl
theorem idx_of_none {c : UInt8} (h : charDigit? c = none) : idx c = 255 := by
  rw [idx_eq, h]; rfl
theorem idx_ne_255_of_some {c : UInt8} {d : Nat} (h : charDigit? c = some d) : idx c ≠ 255 := by
  rw [idx_of_some h]; have := (charDigit_some h).1; omega
theorem charDigit_c1 : charDigit? c1 = some 0 := by decide

/-! ### digits -/

/-- base-58 digits (as alphabet characters), most significant first; proof-side definition -/
def msd (x : Nat) : Bytes := if h : x = 0 then [] else msd (x / 58) ++ [alph (x % 58)]
decreasing_by omega

theorem msd_zero : msd 0 = [] := by rw [msd]; simp
theorem msd_pos {x : Nat} (h : x ≠ 0) : msd x = msd (x / 58) ++ [alph (x % 58)] := by rw [msd]; simp [h]

theorem encLoop_eq (f x : Nat) (acc : Bytes) (h : x ≤ f) : encLoop f x acc = acc ++ (msd x).reverse := by
  induction f generalizing x acc with
  | zero => have : x = 0 := by omega
            subst this; simp [encLoop, msd_zero]
  | succ f ih =>
    unfold encLoop
    by_cases hx : x = 0
    · subst hx; simp [msd_zero]
    · simp only [hx, if_false]
      rw [ih _ _ (by omega), msd_pos hx]; simp

theorem digitsAux_eq (f x : Nat) (h : x ≤ f) : digitsAux f x = msd x := by
  induction f generalizing x with
  | zero => have : x = 0 := by omega
            subst this; simp [digitsAux, msd_zero]
  | succ f ih =>
    unfold digitsAux
    by_cases hx : x = 0
    · subst hx; simp [msd_zero]
    · simp only [hx, if_false]
      rw [ih _ (by omega), msd_pos hx, alph_eq_digitChar _ (Nat.mod_lt _ (by norm_num))]

theorem digits_eq (x : Nat) : digits x = msd x := digitsAux_eq x x (Nat.le_refl x)

/-- the model's `Encode` computes the spec's encoding -/
theorem encode_spec (b : Bytes) : Model.Base58.encode b = Spec.Bip32.Base58.encode b := by
  simp only [Model.Base58.encode, Spec.Bip32.Base58.encode, leadingZeros]
  rw [encLoop_eq _ _ _ (Nat.le_refl _), digits_eq]
  simp [c1]

theorem msd_head (x : Nat) : (msd x).head? ≠ some c1 := by
  induction x using Nat.strongRecOn with
  | _ x ih =>
    by_cases hx : x = 0
    · subst hx; simp [msd_zero]
    · rw [msd_pos hx]
      by_cases hq : x / 58 = 0
      · rw [hq, msd_zero]
        have hm : x % 58 = x := by omega
        have hlt : x < 58 := by omega
        simp only [List.nil_append, List.head?_cons, ne_eq, Option.some.injEq]
        rw [hm]; exact alph_ne_one x hlt hx
      · have := ih (x / 58) (by omega)
        rw [msd_pos hq] at this ⊢
        simpa [List.head?_append] using this

/-! ### value -/

theorem value_snoc (s : Bytes) (c : UInt8) : value? (s ++ [c]) = step (value? s) c := by
  simp [value?, List.foldl_append]

/-- least-significant-first evaluation, as the model's loop does it -/
def valLSB? : Bytes → Option Nat
  | [] => some 0
  | c :: cs => if idx c = 255 then none else (valLSB? cs).map (fun v => idx c + 58 * v)

theorem decLoop_eq (l : Bytes) (a j : Nat) : decLoop l a j = (valLSB? l).map (fun v => a + j * v) := by
  induction l generalizing a j with
  | nil => simp [decLoop, valLSB?]
  | cons c cs ih =>
    unfold decLoop valLSB?
    by_cases h : idx c = 255
    · simp [h]
    · simp only [h, if_false]
      rw [ih]
      cases valLSB? cs with
      | none => rfl
      | some v => simp [Nat.mul_add, Nat.mul_assoc, Nat.add_assoc]

theorem valLSB_reverse (s : Bytes) : valLSB? s.reverse = value? s := by
  induction s using List.reverseRecOn with
  | nil => rfl
  | append_singleton s c ih =>
    rw [List.reverse_append, List.reverse_singleton, List.singleton_append, value_snoc, valLSB?, ih]
    cases hc : charDigit? c with
    | none => simp [idx_of_none hc, step, hc]
    | some d =>
      have h255 := idx_ne_255_of_some hc
      rw [idx_of_some hc] at h255
      simp only [idx_of_some hc, h255, if_false, step, hc]
      cases value? s with
      | none => rfl
      | some a => simp; ring

theorem copyAt_zeros (a : Nat) (l : Bytes) :
    GoSlice.copyAt (GoSlice.zeros (a + l.length)) a l = List.replicate a 0 ++ l := by
  simp [GoSlice.copyAt, GoSlice.zeros, List.take_replicate, List.drop_replicate]

/-- the model's `Decode` computes the spec's decoding (`[]` where the spec has no value) -/
theorem decode_spec (s : Bytes) : Model.Base58.decode s = (Spec.Bip32.Base58.decode? s).getD [] := by
  simp only [Model.Base58.decode, Spec.Bip32.Base58.decode?]
  rw [decLoop_eq, valLSB_reverse]
  cases value? s with
  | none => rfl
  | some v =>
    simp only [Option.map_some, Nat.zero_add, Nat.one_mul, copyAt_zeros, Option.getD_some]
    rfl

/-! ### decode ∘ encode = id -/

theorem value_ones (z : Nat) : value? (List.replicate z c1) = some 0 := by
  induction z with
  | zero => rfl
  | succ z ih => rw [List.replicate_succ', value_snoc, ih]; simp [step, charDigit_c1]

theorem value_ones_msd (z x : Nat) : value? (List.replicate z c1 ++ msd x) = some x := by
  induction x using Nat.strongRecOn with
  | _ x ih =>
    by_cases hx : x = 0
    · subst hx; simp [msd_zero, value_ones]
    · rw [msd_pos hx, ← List.append_assoc, value_snoc, ih (x / 58) (by omega)]
      simp only [step, charDigit_alph _ (Nat.mod_lt x (by norm_num : 0 < 58))]
      congr 1; omega

theorem takeWhile_replicate_append {α} (p : α → Bool) (a : α) (z : Nat) (l : List α) (ha : p a = true)
    (hl : ∀ x, l.head? = some x → p x = false) :
    (List.replicate z a ++ l).takeWhile p = List.replicate z a := by
  induction z with
  | zero =>
    cases l with
    | nil => rfl
    | cons x l => simp [hl x rfl]
  | succ z ih => simp [List.replicate_succ, ha, ih]

theorem mem_takeWhile {α} {p : α → Bool} {l : List α} {x : α} (hx : x ∈ l.takeWhile p) : p x = true := by
  induction l with
  | nil => simp at hx
  | cons a l ih =>
    rw [List.takeWhile_cons] at hx
    by_cases ha : p a = true
    · simp only [ha, if_true, List.mem_cons] at hx
      rcases hx with rfl | hx
      · exact ha
      · exact ih hx
    · simp [ha] at hx

theorem takeWhile_eq_replicate (b : Bytes) :
    b.takeWhile (· = 0) = List.replicate (b.takeWhile (· = 0)).length 0 := by
  apply List.eq_replicate_iff.mpr
  refine ⟨rfl, ?_⟩
  intro x hx
  have := mem_takeWhile hx
  simpa using this

/-- spec level: decoding inverts encoding, for every byte string (leading zeros included) -/
theorem decode_encode_spec (b : Bytes) :
    Spec.Bip32.Base58.decode? (Spec.Bip32.Base58.encode b) = some b := by
  simp only [Spec.Bip32.Base58.decode?, Spec.Bip32.Base58.encode, digits_eq]
  have hc : (49 : UInt8) = c1 := rfl
  rw [hc, value_ones_msd]
  have htw : (List.replicate (b.takeWhile (· = 0)).length c1 ++ msd (BE.ofBytes b)).takeWhile (· = c1)
      = List.replicate (b.takeWhile (· = 0)).length c1 := by
    apply takeWhile_replicate_append
    · simp
    · intro x hx
      have := msd_head (BE.ofBytes b)
      rw [hx] at this
      simpa using this
  simp only [htw, List.length_replicate, BE.toBytes_ofBytes]
  congr 1
  conv => rhs; rw [← List.takeWhile_append_dropWhile (p := (· = 0)) (l := b)]
  rw [← takeWhile_eq_replicate]

/-- model level: `Decode(Encode(b)) = b` for every byte string -/
theorem decode_encode (b : Bytes) : Model.Base58.decode (Model.Base58.encode b) = b := by
  rw [encode_spec, decode_spec, decode_encode_spec]; rfl


/-! ### encode ∘ decode = id on every string that decodes (so decoding is injective) -/

theorem alph_zero : alph 0 = c1 := by decide

theorem value_append (a l : Bytes) : value? (a ++ l) = l.foldl step (value? a) := by
  simp [value?, List.foldl_append]

theorem value_ones_append (z : Nat) (l : Bytes) : value? (List.replicate z c1 ++ l) = value? l := by
  rw [value_append, value_ones]; rfl

theorem msd_eq_nil {v : Nat} (h : msd v = []) : v = 0 := by
  by_cases hv : v = 0
  · exact hv
  · rw [msd_pos hv] at h; simp at h

/-- a string without a leading '1' is the digit string of its value -/
theorem msd_value (l : Bytes) : ∀ v, l.head? ≠ some c1 → value? l = some v → msd v = l := by
  induction l using List.reverseRecOn with
  | nil => intro v _ hv; cases hv; exact msd_zero
  | append_singleton l' c ih =>
    intro v hh hv
    rw [value_snoc] at hv
    cases ha : value? l' with
    | none => rw [ha] at hv; simp [step] at hv
    | some a =>
      cases hc : charDigit? c with
      | none => rw [ha] at hv; simp [step, hc] at hv
      | some dg =>
        rw [ha] at hv
        simp only [step, hc, Option.some.injEq] at hv
        obtain ⟨hdlt, hdc⟩ := charDigit_some hc
        cases l' with
        | nil =>
          have ha0 : a = 0 := by cases ha; rfl
          have hdg : dg ≠ 0 := by
            intro h0; subst h0
            apply hh; rw [← hdc, alph_zero]; rfl
          subst ha0
          have hv' : v = dg := by omega
          subst hv'
          rw [msd_pos hdg]
          have : v / 58 = 0 := by omega
          rw [this, msd_zero, Nat.mod_eq_of_lt hdlt, hdc]
        | cons x xs =>
          have hh' : (x :: xs).head? ≠ some c1 := by simpa using hh
          have hm := ih a hh' ha
          have ha0 : a ≠ 0 := by
            intro h0; subst h0; rw [msd_zero] at hm; cases hm
          have hv0 : v ≠ 0 := by omega
          rw [msd_pos hv0]
          have h1 : v / 58 = a := by omega
          have h2 : v % 58 = dg := by omega
          rw [h1, h2, hm, hdc]

theorem takeWhile_c1_eq_replicate (s : Bytes) :
    s.takeWhile (· = c1) = List.replicate (s.takeWhile (· = c1)).length c1 := by
  apply List.eq_replicate_iff.mpr
  refine ⟨rfl, ?_⟩
  intro x hx
  have := mem_takeWhile hx
  simpa using this

theorem dropWhile_head {α} (p : α → Bool) (l : List α) : ∀ x, (l.dropWhile p).head? = some x → p x = false := by
  induction l with
  | nil => intro x h; simp at h
  | cons a l ih =>
    intro x h
    rw [List.dropWhile_cons] at h
    by_cases ha : p a = true
    · simp only [ha, if_true] at h; exact ih x h
    · simp only [ha] at h
      simp at h; subst h; simpa using ha

/-- spec level: a string that decodes is the encoding of what it decodes to -/
theorem encode_decode_spec (s d : Bytes) (h : Spec.Bip32.Base58.decode? s = some d) :
    Spec.Bip32.Base58.encode d = s := by
  unfold Spec.Bip32.Base58.decode? at h
  cases hv : value? s with
  | none => rw [hv] at h; cases h
  | some v =>
    rw [hv] at h
    simp only [Option.some.injEq] at h
    have hc : (49 : UInt8) = c1 := rfl
    rw [hc] at h
    subst h
    -- s = ones ++ rest
    have hs : s = List.replicate (s.takeWhile (· = c1)).length c1 ++ s.dropWhile (· = c1) := by
      conv => lhs; rw [← List.takeWhile_append_dropWhile (p := (· = c1)) (l := s)]
      rw [← takeWhile_c1_eq_replicate]
    have hrest : (s.dropWhile (· = c1)).head? ≠ some c1 := by
      intro hh
      have := dropWhile_head (· = c1) s c1 hh
      simp at this
    have hvr : value? (s.dropWhile (· = c1)) = some v := by
      rw [hs, value_ones_append] at hv; exact hv
    have hmsd := msd_value _ v hrest hvr
    -- leading zeros and value of the decoded bytes
    have htw : (List.replicate (s.takeWhile (· = c1)).length (0 : UInt8) ++ BE.toBytes v).takeWhile (· = 0)
        = List.replicate (s.takeWhile (· = c1)).length 0 := by
      apply takeWhile_replicate_append
      · simp
      · intro x hx
        have := BE.toBytes_head_ne_zero v
        rw [hx] at this
        simpa using this
    unfold Spec.Bip32.Base58.encode
    rw [htw, BE.ofBytes_zeros_append, BE.ofBytes_toBytes, digits_eq, hmsd, List.length_replicate, hc]
    exact hs.symm

/-- decoding is injective on the strings it accepts -/
theorem decode_injective (s s' d : Bytes) (h : Spec.Bip32.Base58.decode? s = some d)
    (h' : Spec.Bip32.Base58.decode? s' = some d) : s = s' := by
  rw [← encode_decode_spec s d h, ← encode_decode_spec s' d h']

end MW.Base58L
