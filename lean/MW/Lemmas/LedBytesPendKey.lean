/-
  LedBytes, Round 7 (iv) — the key of a pending record.  Go keys bucket `m` by the hash under which the record was stored
  and, reading a spender back (`removeConflict`: `spender.Hash = spenderHash`), trusts that key; the ledger model (and so
  `removeConflictB`) uses the id of the DESERIALIZED transaction.  They agree exactly when every record of bucket `m` sits
  under the hash of the transaction it deserializes to: `PendKeyedB`.  On a canonical store this byte-level statement IS
  the ledger model's `KeyId` (C09's `MW.Lemmas.LedgerPending.KeyId`, a clause of `PendWF`, kept by every step of C09's
  histories: `keyId_of_rel`), read through the abstraction.
-/
import MW.Lemmas.LedBytesPend
import MW.Lemmas.LedgerPendingOnly
namespace MW.LedBytes
open MW MW.Gen.Codec MW.Model.TxmgrCodec MW.TxmgrCodec MW.Model.Ledger

/-- every record of bucket `m` is keyed by the hash of the transaction mass-core deserializes from its value -/
def PendKeyedB {E : Env} {own : Own} (P : PendEnv E own) (m : AMap.T Bytes Bytes) : Prop :=
  ∀ k, k.length = 32 → ∀ t, pendTxB P m k = some t → t.hash = k

/-- a key of the abstraction of bucket `m` names a 32-byte key of the bucket -/
theorem pending_key_inv (E : Env) {m : AMap.T Bytes Bytes} {id : TxId} {t : Tx}
    (h : AMap.get (absBucket (cdM E.N E.deser) m) id = some t) : ∃ k : Bytes, k.length = 32 ∧ id = E.N.tx k := by
  unfold AMap.get at h
  cases hf : (absBucket (cdM E.N E.deser) m).find? (fun a => a.1 = id) with
  | none => rw [hf] at h; cases h
  | some a =>
    have hmem := List.mem_of_find?_eq_some hf
    have hid : a.1 = id := by simpa using List.find?_some hf
    unfold absBucket at hmem
    obtain ⟨e, _, he⟩ := List.mem_filterMap.1 hmem
    unfold absEntry at he
    cases hk : (cdM E.N E.deser).decK e.1 with
    | none => rw [hk] at he; cases he
    | some k =>
      rw [hk] at he
      cases hv : (cdM E.N E.deser).decV e.2 with
      | none => rw [hv] at he; cases he
      | some v =>
        rw [hv] at he
        have ha : a = ((cdM E.N E.deser).nmK k, (cdM E.N E.deser).nmV v) := (Option.some.inj he).symm
        have hk' : (if e.1.length = 32 then some e.1 else none) = some k := hk
        by_cases hl : e.1.length = 32
        · rw [if_pos hl] at hk'
          have : e.1 = k := Option.some.inj hk'
          refine ⟨k, by rw [← this]; exact hl, ?_⟩
          rw [← hid, ha]; rfl
        · rw [if_neg hl] at hk'; cases hk'

/-- **the pending-key invariant on bytes is the ledger model's `KeyId`** -/
theorem pend_keyed_on_bytes {E : Env} {own : Own} (P : PendEnv E own) {bs : BStore} (hC : CanonS E bs) :
    PendKeyedB P bs.m ↔ MW.Lemmas.LedgerPending.KeyId (absStore E bs) := by
  constructor
  · intro h id t hg
    have hg' : AMap.get (absBucket (cdM E.N E.deser) bs.m) id = some t := hg
    obtain ⟨k, hk, rfl⟩ := pending_key_inv E hg'
    have hp := pendTx_on_bytes P hC hk
    rw [hg] at hp
    cases hpt : pendTxB P bs.m k with
    | none => rw [hpt] at hp; cases hp
    | some tB =>
      rw [hpt] at hp
      have : t = tB.nm E.N := Option.some.inj hp
      rw [this, ← h k hk tB hpt]; rfl
  · intro h k hk tB hpt
    have hp := pendTx_on_bytes P hC hk
    rw [hpt] at hp
    have := h _ _ hp
    exact E.N.tx_inj _ _ this

/-- … so a spender read back under its stored key carries that key as its hash: the model's `removeConflict` (by id) and
    Go's (by stored key) address the same records -/
theorem pend_spender_hash {E : Env} {own : Own} (P : PendEnv E own) {bs : BStore} (hC : CanonS E bs)
    (hK : MW.Lemmas.LedgerPending.KeyId (absStore E bs)) {k : Bytes} (hk : k.length = 32) {t : TxB}
    (h : pendTxB P bs.m k = some t) : t.hash = k := (pend_keyed_on_bytes P hC).2 hK k hk t h

/-- the empty bucket satisfies it -/
theorem pendKeyedB_empty {E : Env} {own : Own} (P : PendEnv E own) : PendKeyedB P [] := by
  intro k _ t h; cases h

end MW.LedBytes
