/-
  C08, interleaved removal — glue.  `MidU` without its pending-side clause (`pendOff`): the clause is the only one that
  reads a pending bucket, so "`MidU` of the store with an empty pending-credit bucket" is `MidU` minus `pendOff`.
-/
import MW.Lemmas.RemoveUpper
namespace MW.Lemmas.RemoveGlue
open MW MW.Model.Ledger MW.Model.Remove MW.Spec.Chain MW.Spec.Books MW.Lemmas.Ledger MW.Lemmas.RemoveProj
  MW.Lemmas.RemoveInv MW.Lemmas.RemoveUpper MW.Lemmas.RemoveBooks

/-- the pending-side clause of `MidU`, on its own: no unmined credit of ANOTHER script hash belongs to a transaction of
    the chain -/
def PendOK (addrs : List Addr) (s : Store) (chain : List Block) : Prop :=
  ∀ e ∈ s.pendCred, addrs.contains e.2.sh = false → e.1.1 ∉ idsOf (occs chain)

/-- `MidU` minus `pendOff` -/
def MidC (c : Ctx) (w : Wid) (addrs : List Addr) (own' : Own) (s : Store) (chain : List Block) (U : Book) : Prop :=
  MidU c w addrs own' { s with pendCred := [] } chain U

section
variable {c : Ctx} {w : Wid} {addrs : List Addr} {own' : Own} {s : Store} {chain : List Block} {U : Book}

theorem midC_of_midU (h : MidU c w addrs own' s chain U) : MidC c w addrs own' s chain U :=
  ⟨h.nodup, h.credits, h.debits, h.debitsW, h.unspent, h.game, h.txrecs, h.txrecsW, h.blocks, h.bal, h.sync, h.syncedTo,
    fun _ he => by cases he⟩

theorem midU_of_midC (h : MidC c w addrs own' s chain U) (hp : PendOK addrs s chain) : MidU c w addrs own' s chain U :=
  ⟨h.nodup, h.credits, h.debits, h.debitsW, h.unspent, h.game, h.txrecs, h.txrecsW, h.blocks, h.bal, h.sync, h.syncedTo, hp⟩

/-- `MidC` only reads the mined buckets, the balances, the sync table and the status -/
theorem midC_congr {s' : Store} (h : MidC c w addrs own' s chain U)
    (e1 : s'.credits = s.credits) (e2 : s'.debits = s.debits) (e3 : s'.unspent = s.unspent) (e4 : s'.game = s.game)
    (e5 : s'.txrecs = s.txrecs) (e6 : s'.blocks = s.blocks) (e7 : s'.balance = s.balance) (e8 : s'.sync = s.sync)
    (e9 : s'.syncedTo = s.syncedTo) (e10 : s'.status = s.status) : MidC c w addrs own' s' chain U := by
  have hr : ∀ ws, readyWallets { s' with pendCred := [] } ws = readyWallets { s with pendCred := [] } ws := by
    intro ws; unfold readyWallets; simp only [e10]
  refine ⟨?_, ?_, ?_, ?_, ?_, ?_, ?_, ?_, ?_, ?_, ?_, ?_, fun _ he => by cases he⟩
  · show KeysNodup s'.credits; rw [e1]; exact h.nodup
  · intro k; show AMap.get s'.credits k = _ ∨ (AMap.get s'.credits k = none ∧ _); rw [e1]; exact h.credits k
  · intro k; show AMap.get s'.debits k = _ ∨ (AMap.get s'.debits k = none ∧ _); rw [e2]; exact h.debits k
  · intro dk d cr; show AMap.get s'.debits dk = some d → _ → _ → AMap.get s'.credits d.2 = some cr
    rw [e1, e2]; exact h.debitsW dk d cr
  · intro a b d; show AMap.get s'.unspent _ = _; rw [e3]; exact h.unspent a b d
  · intro k; show AMap.get s'.game k = _; rw [e4]; exact h.game k
  · intro k; show AMap.get s'.txrecs k = _ ∨ (AMap.get s'.txrecs k = none ∧ _); rw [e5]; exact h.txrecs k
  · intro k loc; show AMap.get s'.txrecs k = some loc → _ → ∃ ck cr, AMap.get s'.credits ck = some cr ∧ _
    rw [e1, e5]; exact h.txrecsW k loc
  · intro hh; show AMap.get s'.blocks hh = blockRecOf (fun k => (AMap.get s'.txrecs k).isSome) chain hh
    rw [e5, e6]; exact h.blocks hh
  · intro w' hw' hr'
    show AMap.get s'.balance w' = _
    rw [e7]
    rw [hr c.wallets] at hr'
    exact h.bal w' hw' hr'
  · intro hh; show AMap.get s'.sync hh = _; rw [e8]; exact h.sync hh
  · show s'.syncedTo + 1 = _; rw [e9]; exact h.syncedTo

end
end MW.Lemmas.RemoveGlue
