/-
  C08, `remove ⊨ project`, part 6 — the results.
    `finish_projects`   from the in-progress invariant `Mid`, the removal step that reports `finish` yields C01's
                        invariant `Inv` for the context WITHOUT the removed keystore
    `remove_projects`   … in particular from `Inv` itself (a wallet removed in one transaction)
    `parked_mid`        any number of non-finishing steps keep `Mid` (so `run_projects`: the worker loop, however
                        many transactions it takes, ends in `Inv` for the context without the keystore)
    `mid_survivors`     in every intermediate state the unspent index, the credits and the balance of every other
                        wallet are those of the books of the chain for the view without `w`
-/
import MW.Lemmas.RemoveInv
namespace MW.Lemmas.RemoveMain
open MW MW.Model.Ledger MW.Model.Remove MW.Spec.Chain MW.Spec.Books MW.Lemmas.Ledger MW.Lemmas.RemoveProj
  MW.Lemmas.RemoveChar MW.Lemmas.RemoveBooks MW.Lemmas.RemoveInv

/-- the worker loop of asyncRemove, restarted or not: every step starts from the persistent store alone
    (`removeStep` has no volatile argument — a restart between two steps changes nothing it reads) -/
inductive RunRes
  | done (s : Store)
  | failed
  | outOfFuel

def run (limit : Nat) (c : Ctx) (w : Wid) (addrs : List Addr) : Nat → Store → RunRes
  | 0, _ => .outOfFuel
  | n + 1, s =>
    match removeStep limit c w addrs s with
    | none => .failed
    | some o => if o.finish then .done o.s else run limit c w addrs n o.s

section
variable {c : Ctx} {w : Wid} {addrs : List Addr} {own' : Own} {chain : List Block}

theorem ready_iff (s : Store) (ws : List Wid) (x : Wid) :
    (readyWallets s ws).contains x = true ↔ x ∈ ws ∧
      (match AMap.get s.status x with
        | some st => st.synced.isNone && !st.removed
        | none => false) = true := by
  unfold readyWallets
  rw [List.contains_iff_mem, List.mem_filter]
  exact ⟨fun h => h, fun h => h⟩

theorem filter_keep_wallet (X : Option UCoin) (w w' : Wid) :
    ((X.filter (keepU w)).filter (fun u => decide (u.wallet = w'))).map (·.blk) =
      if w' = w then none else (X.filter (fun u => decide (u.wallet = w'))).map (·.blk) := by
  cases X with
  | none => simp
  | some u =>
    by_cases h2 : w' = w
    · subst h2
      rw [if_pos rfl]
      by_cases h1 : u.wallet = w' <;> simp [Option.filter, keepU, h1]
    · rw [if_neg h2]
      by_cases h1 : u.wallet = w'
      · subst h1
        have h2' : ¬ w = u.wallet := fun h => h2 h.symm
        simp [Option.filter, keepU, h2, h2']
      · by_cases h3 : u.wallet = w
        · subst h3; simp [Option.filter, keepU, h1]
        · simp [Option.filter, keepU, h1, h3]

/-- a step that does not finish is RemoveRelevantTx alone -/
theorem removeStep_parked {limit : Nat} {s : Store} {o : StepOut}
    (h : removeStep limit c w addrs s = some o) (hf : o.finish = false) : removeRelevantTx limit c s addrs = some o := by
  unfold removeStep at h
  cases hr : removeRelevantTx limit c s addrs with
  | none => rw [hr] at h; cases h
  | some o1 =>
    rw [hr] at h
    simp only at h
    by_cases hfin : o1.finish = true
    · rw [if_pos hfin] at h
      injection h with h
      rw [← h] at hf
      simp only at hf
      rw [hfin] at hf; cases hf
    · rw [if_neg hfin] at h; exact h

theorem removeStep_finish {limit : Nat} {s : Store} {o : StepOut}
    (h : removeStep limit c w addrs s = some o) (hf : o.finish = true) :
    ∃ o1, removeRelevantTx limit c s addrs = some o1 ∧ o1.finish = true ∧
      o.s = { removeWalletIndexes o1.s w with status := AMap.erase (removeWalletIndexes o1.s w).status w } := by
  unfold removeStep at h
  cases hr : removeRelevantTx limit c s addrs with
  | none => rw [hr] at h; cases h
  | some o1 =>
    rw [hr] at h
    simp only at h
    by_cases hfin : o1.finish = true
    · rw [if_pos hfin] at h
      injection h with h
      exact ⟨o1, rfl, hfin, by rw [← h]⟩
    · rw [if_neg hfin] at h
      injection h with h
      rw [← h] at hf
      exact absurd hf hfin

/-- every non-finishing step keeps the in-progress invariant -/
theorem parked_step (limit : Nat) (H : RemHyp c w addrs own' chain) {s : Store} (hM : Mid c w addrs own' s chain)
    {o : StepOut} (h : removeStep limit c w addrs s = some o) (hf : o.finish = false) :
    Mid c w addrs own' o.s chain := (mid_step limit H hM (removeStep_parked h hf)).1

/-- THE FINISHING STEP: from the in-progress invariant to C01's invariant for the context without the keystore -/
theorem finish_projects (limit : Nat) (H : RemHyp c w addrs own' chain) {s : Store} (hM : Mid c w addrs own' s chain)
    (ws' : List Wid) (hws : ∀ x ∈ ws', x ∈ c.wallets)
    {o : StepOut} (h : removeStep limit c w addrs s = some o) (hf : o.finish = true) :
    Inv { c with own := own', wallets := ws' } o.s chain := by
  obtain ⟨o1, hr, hfin, hos⟩ := removeStep_finish h hf
  obtain ⟨hM1, hDone⟩ := mid_step limit H hM hr
  have hDone := hDone hfin
  have hBM := bookOf_minus H.minus c.p H.valid
  have hV' : ChainValid own' chain := chainValid_minus H.minus H.valid
  have hkeys := char_keysOK (glob_bookOf (p := c.p) H.valid)
  have hcred : ∀ k, AMap.get o1.s.credits k = (bookOf c.p own' chain).credits k := by
    intro k
    rcases hM1.credits k with h1 | ⟨h1, cr, h2, h3⟩
    · cases hb : (bookOf c.p c.own chain).credits k with
      | none =>
        rw [h1, hb]
        cases hb' : (bookOf c.p own' chain).credits k with
        | none => rfl
        | some cr' => rw [((hBM.credits k cr').1 hb').1] at hb; cases hb
      | some cr =>
        rw [h1, hb]
        exact ((hBM.credits k cr).2 ⟨hb, hDone k cr (by rw [h1]; exact hb)⟩).symm
    · rw [h1]
      cases hb' : (bookOf c.p own' chain).credits k with
      | none => rfl
      | some cr' =>
        obtain ⟨h4, h5⟩ := (hBM.credits k cr').1 hb'
        rw [h2] at h4
        rw [← Option.some.inj h4, h3] at h5; cases h5
  have hdeb : ∀ dk, AMap.get o1.s.debits dk = (bookOf c.p own' chain).debits dk := by
    intro dk
    rcases hM1.debits dk with h1 | ⟨h1, d, cr, h2, h3, h4⟩
    · cases hb : (bookOf c.p c.own chain).debits dk with
      | none =>
        rw [h1, hb]
        cases hb' : (bookOf c.p own' chain).debits dk with
        | none => rfl
        | some d' => rw [((hBM.debits dk d').1 hb').1] at hb; cases hb
      | some d =>
        rw [h1, hb]
        obtain ⟨cr, hcr, _⟩ := debit_credit H.valid hb
        have hw : isW c.own w cr.sh = false := by
          cases hw : isW c.own w cr.sh with
          | false => rfl
          | true =>
            have := hM1.debitsW dk d cr (by rw [h1]; exact hb) hcr hw
            rw [hDone d.2 cr this] at hw; cases hw
        exact ((hBM.debits dk d).2 ⟨hb, cr, hcr, hw⟩).symm
    · rw [h1]
      cases hb' : (bookOf c.p own' chain).debits dk with
      | none => rfl
      | some d' =>
        obtain ⟨h5, cr', h6, h7⟩ := (hBM.debits dk d').1 hb'
        rw [h2] at h5
        rw [← Option.some.inj h5, h3] at h6
        rw [← Option.some.inj h6, h4] at h7; cases h7
  have htx : ∀ k, AMap.get o1.s.txrecs k = (bookOf c.p own' chain).txrecs k := by
    intro k
    rcases hM1.txrecs k with h1 | ⟨h1, h2⟩
    · cases hb : (bookOf c.p c.own chain).txrecs k with
      | none =>
        rw [h1, hb]
        cases hb' : (bookOf c.p own' chain).txrecs k with
        | none => rfl
        | some l' => rw [((hBM.txrecs k l').1 hb').1] at hb; cases hb
      | some loc =>
        rw [h1, hb]
        cases hb' : (bookOf c.p own' chain).txrecs k with
        | some l' => rw [((hBM.txrecs k l').1 hb').1] at hb; exact hb.symm
        | none =>
          exfalso
          obtain ⟨ck, cr, hgc, hw, _⟩ := hM1.txrecsW k loc (by rw [h1]; exact hb) hb'
          rw [hDone ck cr hgc] at hw; cases hw
    · rw [h1, h2]
  have e1 : o.s.credits = o1.s.credits := by rw [hos]; rfl
  have e2 : o.s.debits = o1.s.debits := by rw [hos]; rfl
  have e3 : o.s.txrecs = o1.s.txrecs := by rw [hos]; rfl
  have e4 : o.s.blocks = o1.s.blocks := by rw [hos]; rfl
  have e5 : o.s.unspent = o1.s.unspent.filter (fun e => (fun k : Wid × TxId × Nat => k.1 != w) e.1) := by rw [hos]; rfl
  have e6 : o.s.game = o1.s.game.filter (fun e => (fun k : GameKey => k.wallet != w) e.1) := by rw [hos]; rfl
  have e7 : o.s.balance = AMap.erase o1.s.balance w := by rw [hos]; rfl
  have e8 : o.s.status = AMap.erase o1.s.status w := by rw [hos]; rfl
  have e9 : o.s.sync = o1.s.sync := by rw [hos]; rfl
  have e10 : o.s.syncedTo = o1.s.syncedTo := by rw [hos]; rfl
  refine ⟨⟨?_, ?_, ?_, ?_, ?_, ?_⟩, ?_, ?_, ?_⟩
  · -- unspent
    intro w' tx idx
    show AMap.get o.s.unspent (w', tx, idx) =
      ((lookupU (bookOf c.p own' chain).L tx idx).filter (fun u => decide (u.wallet = w'))).map (·.blk)
    rw [e5, get_filter_key o1.s.unspent (fun k : Wid × TxId × Nat => k.1 != w), hBM.L, lookupU_minus hkeys,
      hM1.unspent, filter_keep_wallet]
    by_cases hw' : w' = w
    · simp [hw']
    · simp [hw']
  · intro k; show AMap.get o.s.credits k = _; rw [e1]; exact hcred k
  · intro k; show AMap.get o.s.debits k = _; rw [e2]; exact hdeb k
  · -- game
    intro k
    show AMap.get o.s.game k = (bookOf c.p own' chain).game k
    rw [e6, get_filter_key o1.s.game (fun k : GameKey => k.wallet != w), hM1.game]
    have := hBM.game k
    by_cases hkw : k.wallet = w
    · have h1 : (k.wallet != w) = false := by simp [hkw]
      rw [h1]
      simp only [Bool.false_eq_true, if_false]
      cases hb' : (bookOf c.p own' chain).game k with
      | none => rfl
      | some u => exact absurd hkw (this.1 hb').2
    · have h1 : (k.wallet != w) = true := by simp [hkw]
      rw [h1]
      simp only [if_true]
      cases hb : (bookOf c.p c.own chain).game k with
      | none =>
        cases hb' : (bookOf c.p own' chain).game k with
        | none => rfl
        | some u => rw [(this.1 hb').1] at hb; cases hb
      | some u => exact (this.2 ⟨hb, hkw⟩).symm
  · intro k; show AMap.get o.s.txrecs k = _; rw [e3]; exact htx k
  · -- blocks
    intro h'
    show AMap.get o.s.blocks h' = (bookOf c.p own' chain).blocks h'
    rw [e4, hM1.blocks h', blocks_eq_blockRecOf c.p own' chain hV' H.heights h']
    exact blockRecOf_congr chain h' (fun k => by rw [htx])
  · -- balances
    intro w' hw'
    show AMap.get o.s.balance w' = some (totalU (bookOf c.p own' chain).L w')
    obtain ⟨hmem, hst⟩ := (ready_iff o.s ws' w').1 hw'
    rw [e8, AMap.get_erase] at hst
    have hne : w' ≠ w := by
      intro he
      rw [he] at hst
      simp at hst
    have hne' : ¬ w = w' := fun he => hne he.symm
    rw [if_neg hne'] at hst
    rw [e7, AMap.get_erase, if_neg hne', hBM.L, totalU_minus _ hne]
    exact hM1.bal w' ((ready_iff o1.s c.wallets w').2 ⟨hws w' hmem, hst⟩)
  · intro h'; rw [e9]; exact hM1.sync h'
  · rw [e10]; exact hM1.syncedTo

/-- after the finishing step nobody owning an address is left unready, if that was so for the OTHER wallets -/
theorem finish_allReady (limit : Nat) (H : RemHyp c w addrs own' chain) {s : Store}
    (ws' : List Wid)
    (hAR : ∀ a w' ch, AMap.get c.own a = some (w', ch) → w' ≠ w → (readyWallets s ws').contains w' = true)
    {o : StepOut} (h : removeStep limit c w addrs s = some o) (hf : o.finish = true) :
    AllReady own' (readyWallets o.s ws') := by
  obtain ⟨o1, hr, _, hos⟩ := removeStep_finish h hf
  have hst1 : o1.s.status = s.status := by
    have := (MW.Lemmas.RemoveStep.removeRelevantTx_spec limit c s addrs o1 H.ne hr).ids
    simp only [MW.Lemmas.RemoveStep.core, Prod.mk.injEq] at this
    exact this.2.2.2.2.2.1
  intro a w' ch hg
  rw [H.minus a] at hg
  cases hga : AMap.get c.own a with
  | none => rw [hga] at hg; cases hg
  | some x =>
    rw [hga] at hg
    by_cases hx : x.1 = w
    · simp [Option.filter, hx] at hg
    · simp only [Option.filter, hx, ne_eq, not_false_eq_true, decide_true, if_true, Option.some.injEq] at hg
      subst hg
      obtain ⟨hm, hs⟩ := (ready_iff s ws' _).1 (hAR a _ _ hga hx)
      refine (ready_iff o.s ws' _).2 ⟨hm, ?_⟩
      have e8 : o.s.status = AMap.erase o1.s.status w := by rw [hos]; rfl
      rw [e8, AMap.get_erase, if_neg (fun he => hx he.symm), hst1]
      exact hs

/-- **remove ⊨ project** for a wallet removed in one transaction: C01's invariant for the full context, one
    finishing removal step, C01's invariant for the context without the removed keystore -/
theorem remove_projects (limit : Nat) (H : RemHyp c w addrs own' chain) {s : Store} (hI : Inv c s chain)
    (hn : KeysNodup s.credits) (hp : ∀ e ∈ s.pendCred, e.1.1 ∉ idsOf (occs chain))
    (ws' : List Wid) (hws : ∀ x ∈ ws', x ∈ c.wallets)
    {o : StepOut} (h : removeStep limit c w addrs s = some o) (hf : o.finish = true) :
    Inv { c with own := own', wallets := ws' } o.s chain :=
  finish_projects limit H (inv_to_mid H hI hn hp) ws' hws h hf

/-- the worker loop, however many transactions it takes: every intermediate store satisfies `Mid`, and completion
    gives C01's invariant for the context without the removed keystore -/
theorem run_projects (limit : Nat) (H : RemHyp c w addrs own' chain) (ws' : List Wid) (hws : ∀ x ∈ ws', x ∈ c.wallets)
    (n : Nat) {s s' : Store} (hM : Mid c w addrs own' s chain) (h : run limit c w addrs n s = .done s') :
    Inv { c with own := own', wallets := ws' } s' chain := by
  induction n generalizing s with
  | zero => simp [run] at h
  | succ n ih =>
    unfold run at h
    cases hstep : removeStep limit c w addrs s with
    | none => simp [hstep] at h
    | some o =>
      simp only [hstep] at h
      by_cases hfin : o.finish = true
      · simp only [hfin, if_true, RunRes.done.injEq] at h
        subst h
        exact finish_projects limit H hM ws' hws hstep hfin
      · simp only [hfin, Bool.false_eq_true, if_false] at h
        exact ih (parked_step limit H hM hstep (by simpa using hfin)) h

/-- in EVERY state of a removal in progress, what the queries read for another wallet `w'` — its unspent index,
    the credits of its coins, its balance — is what the books of the chain imply for the keystore view without `w` -/
theorem mid_survivors (H : RemHyp c w addrs own' chain) {s : Store} (hM : Mid c w addrs own' s chain)
    {w' : Wid} (hw' : w' ≠ w) :
    (∀ tx idx, AMap.get s.unspent (w', tx, idx) =
      ((lookupU (bookOf c.p own' chain).L tx idx).filter (fun u => decide (u.wallet = w'))).map (·.blk)) ∧
    (∀ k cr, (bookOf c.p own' chain).credits k = some cr → AMap.get s.credits k = some cr) ∧
    ((readyWallets s c.wallets).contains w' = true →
      AMap.get s.balance w' = some (totalU (bookOf c.p own' chain).L w')) := by
  have hBM := bookOf_minus H.minus c.p H.valid
  have hkeys := char_keysOK (glob_bookOf (p := c.p) H.valid)
  refine ⟨?_, ?_, ?_⟩
  · intro tx idx
    rw [hM.unspent, hBM.L, lookupU_minus hkeys, filter_keep_wallet, if_neg hw']
  · intro k cr hk
    obtain ⟨h1, h2⟩ := (hBM.credits k cr).1 hk
    rcases hM.credits k with h3 | ⟨_, cr', h4, h5⟩
    · rw [h3]; exact h1
    · rw [h1] at h4
      rw [← Option.some.inj h4, h2] at h5; cases h5
  · intro hr
    rw [hBM.L, totalU_minus _ hw']
    exact hM.bal w' hr

end
end MW.Lemmas.RemoveMain
