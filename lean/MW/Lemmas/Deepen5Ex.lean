/-
  C06 deepening (round 5): NON-VACUITY of `crash_equiv_tasks_removal_window` — a concrete history whose removal window
  contains a handler step that REORGANISES the partly deleted wallet and a crash at a NON-quiet point:
    node:     G ── b1 ── c2     (b1 pays "a1", c2 pays "a2": both of w1)
                    └─── e2     (pays "a2" of w1 and "a3", nobody's)
    history:  extend b1 · handle · extend c2 · handle · CreateWallet w2 · RemoveWallet w1 · one iteration (step size 1: one
              of w1's two credits goes) · reorgTo 1 [e2] · HANDLE (c2 disconnected, e2 connected, on the partly deleted
              wallet) · reorgTo 1 [c2] · CRASH (c2 still queued in the run that never stops; the crashing run's Start
              reorganises back onto c2 and queues the removal again) · handle · removeDrain (the worker's loop: the finishing
              iteration)
-/
import MW.Lemmas.Deepen5Main
import MW.Lemmas.Deepen4Ex
namespace MW.Lemmas.Deepen5
open MW MW.Model.Ledger MW.Model.Persist MW.Spec.Persist MW.Spec.Chain MW.Spec.Books MW.Lemmas.Ledger
  MW.Lemmas.PersistOp MW.Lemmas.Deepen3 MW.Lemmas.Deepen4

def exKsW : AMap.T Wid KsRec := ("w2", {}) :: exKs0

def exEvsR : List EvT :=
  [.q (.extend hxB1), .q .handle, .q (.extend hxC2), .q .handle, .q (.create "w2"),
   .removeMark "w1", .removeStep "w1", .q (.reorgTo 1 [exE2]), .q .handle, .q (.reorgTo 1 [hxC2]), .q .crash,
   .q .handle, .removeDrain "w1"]

theorem exValidWc : ChainValid (ownOf exKsW) [hxG, hxB1, hxC2] := by decide
theorem exValidWe : ChainValid (ownOf exKsW) [hxG, hxB1, exE2] := by decide

theorem exJTW0 : JTW exCfg hxG exX0 exK0T := JTW_of_JT exJT0 (fun w h => by cases h)

theorem exSkelR : skRunT exCfg exK0T exEvsR =
    { base := { chain := [hxG, hxB1, hxC2], ks := AMap.erase exKsW "w1",
                hist := [[hxG], [hxG, hxB1], [hxG, hxB1, hxC2], [hxG, hxB1, exE2], [hxG, hxB1, hxC2]] },
      queue := [], busy := none } := by rfl

/-- the hypotheses on the skeleton -/
theorem exRunOKW : RunOKW exCfg hxG exK0T exEvsR := by
  refine ⟨⟨(ex4OK exKs0 hxC2 (Or.inr rfl) exValid0c).take 1, (by show _ + _ < _; decide), trivial⟩,
    ⟨trivial, trivial, trivial⟩,
    ⟨ex4OK exKs0 hxC2 (Or.inr rfl) exValid0c, (by show _ + _ < _; decide), trivial⟩, ⟨trivial, trivial, trivial⟩,
    ⟨trivial, trivial, trivial⟩,
    ⟨rfl, ⟨_, rfl, by decide⟩, "w2", by decide, by decide⟩,
    rfl,
    ⟨⟨by simp, ex4OK exKsW exE2 (Or.inl rfl) exValidWe⟩, (by show _ + _ < _; decide), trivial⟩,
    ⟨trivial, trivial, trivial⟩,
    ⟨⟨by simp, ex4OK exKsW hxC2 (Or.inr rfl) exValidWc⟩, (by show _ + _ < _; decide), trivial⟩,
    ⟨trivial, trivial, trivial⟩, ⟨trivial, trivial, trivial⟩, rfl, trivial⟩

theorem pendGuard_nil {P : PStore} (addrs : List Addr) (h : P.led.pendCred = []) : PendGuard P addrs := by
  intro X _ e he
  rw [h] at he; cases he

/-- no unmined credit ⇒ the pending-side clause -/
theorem exPend (cr : Bool) (n : Nat) (h : (runT exCfg cr exX0 (exEvsR.take n)).P.led.pendCred = []) (addrs : List Addr) :
    PendGuard (runT exCfg cr exX0 (exEvsR.take n)).P addrs := pendGuard_nil addrs h

theorem exQ8 (cr : Bool) : (runT exCfg cr exX0 (exEvsR.take 8)).queue = [exE2] := by cases cr <;> rfl
theorem exQ11t : (runT exCfg true exX0 (exEvsR.take 11)).queue = [] := by rfl
theorem exQ11f : (runT exCfg false exX0 (exEvsR.take 11)).queue = [hxC2] := by rfl
theorem exOn8 : (skRunT exCfg exK0T (exEvsR.take 8)).base.chain[exE2.height]? = some exE2 := by rfl
theorem exOn11 : (skRunT exCfg exK0T (exEvsR.take 11)).base.chain[hxC2.height]? = some hxC2 := by rfl
/-- the database transaction of the handler step inside the window (a reorganisation on the partly deleted wallet) succeeds -/
theorem exOk8 (cr : Bool) : ((opBlock (envAt exCfg.st (skRunT exCfg exK0T (exEvsR.take 8)).base.chain) exCfg.n exE2).run none
    (runT exCfg cr exX0 (exEvsR.take 8)).P (runT exCfg cr exX0 (exEvsR.take 8)).V).ok = true := by cases cr <;> decide
theorem exOk11 : ((opBlock (envAt exCfg.st (skRunT exCfg exK0T (exEvsR.take 11)).base.chain) exCfg.n hxC2).run none
    (runT exCfg false exX0 (exEvsR.take 11)).P (runT exCfg false exX0 (exEvsR.take 11)).V).ok = true := by decide
/-- Start succeeds at the NON-quiet crash (a reorganisation back onto c2) -/
theorem exOk10 (cr : Bool) : (Model.Persist.crash (envAt exCfg.st (skRunT exCfg exK0T (exEvsR.take 10)).base.chain) exCfg.n
    (runT exCfg cr exX0 (exEvsR.take 10)).P).ok = true := by cases cr <;> decide
/-- the worker's loop completes at the drain -/
theorem exLoop12 (cr : Bool) : (removeLoop exCfg.limit exCfg.n (envAt exCfg.st (skRunT exCfg exK0T (exEvsR.take 12)).base.chain) "w1"
    (addrsOf (skRunT exCfg exK0T (exEvsR.take 12)).base.ks "w1") ((runT exCfg cr exX0 (exEvsR.take 12)).P.led.credits.length + 1)
    (runT exCfg cr exX0 (exEvsR.take 12)).P (runT exCfg cr exX0 (exEvsR.take 12)).V).isSome = true := by cases cr <;> decide

/-- the hypotheses on the states, in both runs: no unmined credit at RemoveWallet / at the iterations; the handled
    blocks are on the node's chain and their transactions succeed; Start succeeds at the crash; the worker's loop
    completes at the drain -/
theorem exGuardW (cr : Bool) : GuardW exCfg cr exX0 exK0T exEvsR := by
  apply guardW_of_prefix
  intro i ev hev
  match i, hev with
  | 0, h => cases h; exact True.intro
  | 1, h => cases h; exact True.intro
  | 2, h => cases h; exact True.intro
  | 3, h => cases h; exact True.intro
  | 4, h => cases h; exact True.intro
  | 5, h =>
    cases h
    intro X _ e he
    have hp : (runT exCfg cr exX0 (exEvsR.take 5)).P.led.pendCred = [] := by cases cr <;> decide
    rw [hp] at he
    cases he
  | 6, h => cases h; exact exPend cr 6 (by cases cr <;> decide) _
  | 7, h => cases h; exact True.intro
  | 8, h =>
    cases h
    refine ⟨fun b hb => ?_, fun b hb => ?_⟩
    · rw [exQ8 cr] at hb; cases hb; exact exOn8
    · rw [exQ8 cr] at hb; cases hb; exact exOk8 cr
  | 9, h => cases h; exact True.intro
  | 10, h => cases h; exact fun _ => exOk10 cr
  | 11, h =>
    cases h
    cases cr with
    | true =>
      refine ⟨fun b hb => ?_, fun b hb => ?_⟩
      · rw [exQ11t] at hb; cases hb
      · rw [exQ11t] at hb; cases hb
    | false =>
      refine ⟨fun b hb => ?_, fun b hb => ?_⟩
      · rw [exQ11f] at hb; cases hb; exact exOn11
      · rw [exQ11f] at hb; cases hb; exact exOk11
  | 12, h => cases h; exact ⟨exPend cr 12 (by cases cr <;> decide) _, fun _ => exLoop12 cr⟩
  | n + 13, h => cases h

theorem exQuietR : (runT exCfg false exX0 exEvsR).queue = [] := by decide

/-- `crash_equiv_tasks_removal_window` applies -/
theorem exEquivR : (runT exCfg true exX0 exEvsR).queue = [] ∧
    (runT exCfg true exX0 exEvsR).P.ks = (runT exCfg false exX0 exEvsR).P.ks ∧
    AMap.Equiv (runT exCfg true exX0 exEvsR).P.led.credits (runT exCfg false exX0 exEvsR).P.led.credits ∧
    (runT exCfg true exX0 exEvsR).V.led.best = (runT exCfg false exX0 exEvsR).V.led.best := by
  have h := crash_equiv_tasks_removal_window ex4StaticOK rfl (by decide) (by decide) exEvsR exX0 exK0T exJTW0 exRunOKW
    (exGuardW true) (exGuardW false) (by rw [exSkelR]) exQuietR
  exact ⟨h.1, h.2.2.1, h.2.2.2.2.1, h.2.2.2.2.2.2.2.2.2.2.2.2.1⟩

/-- what happened: the handler step at event 9 reorganised the partly deleted wallet onto e2 (one of w1's credits
    already gone); the crash at event 11 was taken while the run that never stops had c2 queued and sat on e2 — the
    crashing run's Start went back to c2 and queued the removal again -/
example : (runT exCfg true exX0 (exEvsR.take 7)).P.led.credits.length = 1 ∧
    (runT exCfg true exX0 (exEvsR.take 9)).V.led.best = ⟨2, "e2"⟩ ∧
    (runT exCfg false exX0 (exEvsR.take 11)).queue.map (·.id) = ["c2"] ∧
    (runT exCfg false exX0 (exEvsR.take 11)).V.led.best = ⟨2, "e2"⟩ ∧
    (runT exCfg true exX0 (exEvsR.take 11)).queue = [] ∧
    (runT exCfg true exX0 (exEvsR.take 11)).V.led.best = ⟨2, "c2"⟩ ∧
    (runT exCfg true exX0 (exEvsR.take 11)).V.tasks = [.rem "w1"] ∧
    removeDone (runT exCfg true exX0 (exEvsR.take 11)).P "w1" = false ∧
    (runT exCfg true exX0 exEvsR).P.ks.map (·.1) = ["w2"] := by decide

end MW.Lemmas.Deepen5
