/-
  C06 deepening (round 3): NON-VACUITY of `crash_equiv` — a concrete history of the persistence model with an
  address issued while a notification is pending, a wallet created in mid-history, a reorganisation, and two
  crashes at NON-quiet commit boundaries:
    node:     G ── b1 ── d2          (d2's coinbase pays "a3", issued in mid-history)
                    └─── c2          (sibling of d2, pays "a2")
    history:  extend b1 · newAddr w1 ("a3") · CRASH (b1 queued, wallet at G) · create w2 · extend d2 · handle ·
              handle · recvTx u1 (unconfirmed, spends the wallet's coinbase of b1) · reorgTo 1 [c2] · CRASH (c2 queued, wallet on the stale d2 at the SAME height: finding F2) ·
              handle
-/
import MW.Lemmas.Deepen3Crash
import MW.Lemmas.LedgerIssueEx
namespace MW.Lemmas.Deepen3
open MW MW.Model.Ledger MW.Model.Persist MW.Spec.Persist MW.Spec.Chain MW.Spec.Books MW.Lemmas.Ledger

def exSt : Static :=
  { p := { cbMaturity := 1 },
    derive := fun _ n => match n with | 0 => "a1" | 1 => "a2" | 2 => "a3" | _ => "a9",
    known := [("G", hxG), ("b1", hxB1), ("d2", ixD2), ("c2", hxC2)] }

def exKs0 : AMap.T Wid KsRec := [("w1", { next := 2, addrs := [(0, "a1"), (1, "a2")] })]
def exKs1 : AMap.T Wid KsRec := [("w1", { next := 3, addrs := [(0, "a1"), (1, "a2"), (2, "a3")] })]
def exKs2 : AMap.T Wid KsRec := ("w2", {}) :: exKs1

def exX0 : SysQ :=
  { chain := [hxG], P := { led := obS0, ks := exKs0 }, V := { led := { best := ⟨0, "G"⟩ }, keys := exKs0 } }

def exK0 : Skel := { chain := [hxG], ks := exKs0, hist := [[hxG]] }

/-- an unconfirmed transaction spending the wallet's coinbase of b1, paying the wallet -/
def exU1 : Tx := ⟨"u1", false, [⟨"c1", 0, 0⟩], [⟨"a2", 50, .std⟩]⟩

def exEvs : List EvQ :=
  [.extend hxB1, .newAddr "w1" false, .crash, .create "w2", .extend ixD2, .handle, .handle, .recvTx exU1,
   .reorgTo 1 [hxC2], .crash, .handle]

theorem exKnown_cases {id : BlkId} {x : Block} (h : AMap.get exSt.known id = some x) :
    x = hxG ∨ x = hxB1 ∨ x = ixD2 ∨ x = hxC2 := by
  simp only [exSt, AMap.get_cons, AMap.get_nil] at h
  repeat' split at h
  all_goals first | (cases h; simp; done) | cases h

theorem exStaticOK : StaticOK exSt hxG where
  genesisOnly := by
    intro id x h h0
    rcases exKnown_cases h with rfl | rfl | rfl | rfl
    · rfl
    all_goals cases h0
  genesisPrev := by
    intro id x h
    rcases exKnown_cases h with rfl | rfl | rfl | rfl <;> decide

theorem exOK (ks : AMap.T Wid KsRec) (x : Block) (hx : x = ixD2 ∨ x = hxC2)
    (hv : ChainValid (ownOf ks) [hxG, hxB1, x]) : ChainOK (lenv exSt ks) hxG [hxG, hxB1, x] := by
  rcases hx with rfl | rfl
  · exact ⟨hxGood3 rfl rfl rfl rfl rfl, hv, rfl, by
      intro y hy
      simp only [List.mem_cons, List.not_mem_nil, or_false] at hy
      rcases hy with rfl | rfl | rfl <;> rfl⟩
  · exact ⟨hxGood3 rfl rfl rfl rfl rfl, hv, rfl, by
      intro y hy
      simp only [List.mem_cons, List.not_mem_nil, or_false] at hy
      rcases hy with rfl | rfl | rfl <;> rfl⟩

theorem exValid0 : ChainValid (ownOf exKs0) [hxG, hxB1, ixD2] := by decide
theorem exValid2d : ChainValid (ownOf exKs2) [hxG, hxB1, ixD2] := by decide
theorem exValid2c : ChainValid (ownOf exKs2) [hxG, hxB1, hxC2] := by decide

theorem exInv0 : Ledger.Inv ((lenv exSt exKs0).ctx [hxG]) obS0 [hxG] := by
  have hB : bookOf exSt.p (ownOf exKs0) [hxG] = {} := rfl
  refine ⟨?_, ?_, ?_, rfl⟩
  · show AgreeM obS0 (bookOf exSt.p (ownOf exKs0) [hxG])
    rw [hB]
    exact ⟨fun _ _ _ => rfl, fun _ => rfl, fun _ => rfl, fun _ => rfl, fun _ => rfl, fun _ => rfl⟩
  · intro w hw
    have hr : readyWallets obS0 ((lenv exSt exKs0).ctx [hxG]).wallets = ["w1"] := by decide
    rw [hr] at hw
    have : w = "w1" := by simpa using hw
    subst this
    show AMap.get obS0.balance "w1" = some (totalU (bookOf exSt.p (ownOf exKs0) [hxG]).L "w1")
    rw [hB]; rfl
  · intro h
    match h with
    | 0 => rfl
    | n + 1 => rfl

theorem exAllReady0 : AllReady (ownOf exKs0) (readyWallets obS0 (walletsOf exKs0)) := by
  intro a w ch h
  have hm := (own_wallet_mem (amap_mem_of_get h)).1
  have : w = "w1" := by simpa [walletsOf, exKs0] using hm
  subst this
  decide

/-- the initial state satisfies the invariant -/
theorem exJQ0 : JQ exSt hxG exX0 exK0 where
  chain := rfl
  ks := rfl
  keys := rfl
  js := ⟨[hxG], ⟨exInv0, rfl, (exOK exKs0 ixD2 (Or.inl rfl) exValid0).take 0, exAllReady0, by decide,
    fun b hb => (by cases hb), fun _ => rfl, fun h => absurd rfl h⟩, [hxG], List.mem_singleton.2 rfl, List.prefix_refl _⟩
  chainOK := (exOK exKs0 ixD2 (Or.inl rfl) exValid0).take 0
  cur := List.mem_singleton.2 rfl
  keysOK := ⟨by decide, by decide, by decide⟩

theorem exSkel1 : skRun exSt exK0 [.extend hxB1, .newAddr "w1" false, .crash, .create "w2"] =
    { chain := [hxG, hxB1], ks := exKs2, hist := [[hxG], [hxG, hxB1]] } := by rfl

/-- THE HYPOTHESES OF `crash_equiv` HOLD for this history -/
theorem exRunOK : RunOK exSt hxG exK0 exEvs := by
  refine ⟨(exOK exKs0 ixD2 (Or.inl rfl) exValid0).take 1, ?_, trivial, trivial, ?_⟩
  · intro r hr
    have : r = { next := 2, addrs := [(0, "a1"), (1, "a2")] } := by
      have h' : AMap.get exKs0 "w1" = some r := hr
      simp [exKs0, AMap.get_cons] at h'
      exact h'.symm
    subst this
    refine ⟨?_, by decide⟩
    intro c hc
    have : c = [hxG] ∨ c = [hxG, hxB1] := by
      have h' : c ∈ [[hxG], [hxG, hxB1]] := hc
      simpa using h'
    rcases this with rfl | rfl <;> decide
  · have hk : skStep exSt (skStep exSt (skStep exSt (skStep exSt exK0 (.extend hxB1)) (.newAddr "w1" false)) .crash)
        (.create "w2") = { chain := [hxG, hxB1], ks := exKs2, hist := [[hxG], [hxG, hxB1]] } := exSkel1
    rw [hk]
    exact ⟨exOK exKs2 ixD2 (Or.inl rfl) exValid2d, trivial, trivial, trivial,
      ⟨by simp, exOK exKs2 hxC2 (Or.inr rfl) exValid2c⟩, trivial, trivial, trivial⟩


/-- the run that never stops ends with nothing queued … -/
theorem exQuietT : (runQ exSt 1 false exX0 exEvs).queue = [] := by decide

/-- … so `crash_equiv` applies: the run with both crashes executed ends on the same chain with the same
    keystore, the same tip and extensionally equal confirmed buckets -/
theorem exEquiv : (runQ exSt 1 true exX0 exEvs).queue = [] ∧
    (runQ exSt 1 true exX0 exEvs).P.ks = (runQ exSt 1 false exX0 exEvs).P.ks ∧
    AMap.Equiv (runQ exSt 1 true exX0 exEvs).P.led.credits (runQ exSt 1 false exX0 exEvs).P.led.credits ∧
    AMap.Equiv (runQ exSt 1 true exX0 exEvs).P.led.unspent (runQ exSt 1 false exX0 exEvs).P.led.unspent := by
  have h := crash_equiv exStaticOK 1 exEvs exX0 exK0 exJQ0 exRunOK exQuietT
  exact ⟨h.1, h.2.2.1, h.2.2.2.2.1, h.2.2.2.2.2.1⟩

/-- and the computed states show that the crashes were really taken at non-quiet points and that the history is
    not trivial: the crashing run committed its blocks inside Start (the run that never stops had two
    notifications queued at that point), both end at c2 with three addresses and two wallets; balance of w1 =
    50 ("a1" in b1) + 50 ("a2" in c2), the payment to "a3" in d2 having been reorganised away -/
example : (runQ exSt 1 false exX0 (exEvs.take 5)).queue = [hxB1, ixD2] ∧ (runQ exSt 1 true exX0 (exEvs.take 5)).queue = [ixD2] ∧
    (runQ exSt 1 false exX0 (exEvs.take 5)).P.led.syncedTo = 0 ∧ (runQ exSt 1 true exX0 (exEvs.take 5)).P.led.syncedTo = 1 :=
  ⟨rfl, rfl, rfl, rfl⟩

example : (runQ exSt 1 true exX0 exEvs).V.led.best = ⟨2, "c2"⟩ ∧ (runQ exSt 1 true exX0 exEvs).P.ks = exKs2 ∧
    AMap.get (runQ exSt 1 true exX0 exEvs).P.led.balance "w1" = some 100 ∧
    AMap.get (runQ exSt 1 false exX0 exEvs).P.led.balance "w1" = some 100 ∧
    AMap.get (runQ exSt 1 true exX0 exEvs).P.led.balance "w2" = some 0 ∧
    (runQ exSt 1 true exX0 exEvs).P.led.pending.map (·.1) = ["u1"] := by
  decide

end MW.Lemmas.Deepen3
