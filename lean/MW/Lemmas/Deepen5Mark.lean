/-
  C06 deepening (round 5): RemoveWallet opens the removal window in the RELAXED state JRmidW (C08 round 7's P2W).
-/
import MW.Lemmas.Deepen5Defs
namespace MW.Lemmas.Deepen5
open MW MW.Model.Ledger MW.Model.Persist MW.Spec.Persist MW.Spec.Chain MW.Spec.Books MW.Lemmas.Ledger
  MW.Lemmas.PersistOp MW.Lemmas.PersistFault MW.Lemmas.PersistCrash MW.Lemmas.Deepen3 MW.Lemmas.Deepen4
open MW.Lemmas.ImportJoin MW.Lemmas.RemoveJoin MW.Lemmas.RemoveSimW MW.Lemmas.RemoveUpper MW.Lemmas.RemoveInterleave
  MW.Lemmas.RemoveFlagged

/-- RemoveWallet opens the window in the RELAXED state -/
theorem JQ_removeMarkW {cfg : Cfg} {G : Block} (cr : Bool) {x : SysQ} {k : Skel} (w : Wid) (hJ : JQ cfg.st G x k)
    (hw : (AMap.get k.ks w).isSome = true) (hne : ∀ r, AMap.get k.ks w = some r → r.addrs ≠ [])
    (hoth : ∃ w', w' ≠ w ∧ w' ∈ walletsOf k.ks) (hn : KeysNodup x.P.led.credits) (hg : RemGuard x.P) :
    JRmidW cfg G (stepT cfg cr x (.removeMark w)) k w := by
  obtain ⟨hc, hks, hkeys, ⟨S, hJS, c, hcm, hSc⟩, hN, hcur, hK⟩ := hJ
  obtain ⟨hI, hv, hS, hAR, hnr, hq, hq0, hq1⟩ := hJS
  obtain ⟨r, hr⟩ := Option.isSome_iff_exists.1 hw
  have hwm : w ∈ walletsOf k.ks := by
    have := amap_mem_of_get hr
    exact List.mem_map.2 ⟨(w, r), this, rfl⟩
  have hrdy := hK.ready w hwm
  have hok : ((opRemoveMark cfg.n w).run none x.P x.V).ok = true := by
    rw [removeMark_closed]
    unfold readyB at hrdy
    cases hst : AMap.get x.P.led.status w with
    | none => rw [hst] at hrdy; cases hrdy
    | some stt =>
      rw [hst] at hrdy
      simp only [Bool.and_eq_true, Option.isNone_iff_eq_none] at hrdy
      simp [hrdy.1]
  have H := remHyp_of (chain := k.chain) hS hK.nodupA hK.nodupW hr (hne r hr)
  have hI' : Ledger.Inv ((lenv cfg.st k.ks).ctx k.chain) x.P.led S := by
    have : Ledger.Inv ((lenv cfg.st k.ks).ctx x.chain) x.P.led S := hI
    rw [hc] at this; exact this
  obtain ⟨stt, hst, hsy, e1, e2, _, hO, _⟩ := removeMark_run_mid H cfg.n x.V hI' hn (hg S hI.sync) hok
  have h1 : stepT cfg cr x (.removeMark w) =
      { x with P := ((opRemoveMark cfg.n w).run none x.P x.V).P, V := ((opRemoveMark cfg.n w).run none x.P x.V).V } := rfl
  rw [h1]
  -- the marked store
  have hKN : KeysNodup ((lenv cfg.st k.ks).ctx k.chain).own := hK.nodupA
  have hIm := inv_marked hI' w stt
  have hflag : AMap.get (markedLed x.P.led w stt).status w = some ⟨none, true⟩ := by
    show AMap.get (AMap.put x.P.led.status w { stt with removed := true }) w = _
    rw [AMap.get_put, if_pos rfl]
    cases stt with
    | mk sy rm => simp only at hsy; rw [hsy]
  have hrw : (readyWallets x.P.led ((lenv cfg.st k.ks).ctx k.chain).wallets).contains w = true :=
    mem_readyWallets.2 ⟨hwm, hrdy⟩
  have hbalw : AMap.get (markedLed x.P.led w stt).balance w =
      some (totalU (bookOf ((lenv cfg.st k.ks).ctx k.chain).p ((lenv cfg.st k.ks).ctx k.chain).own S).L w) :=
    hI'.bal w hrw
  have hARm : AllReady (ownR ((lenv cfg.st k.ks).ctx k.chain).own w)
      (readyWallets (markedLed x.P.led w stt) ((lenv cfg.st k.ks).ctx k.chain).wallets) := by
    intro a w' ch ha
    have hsub := ownR_sub hKN w a
    rw [ha] at hsub
    cases hga : AMap.get ((lenv cfg.st k.ks).ctx k.chain).own a with
    | none => rw [hga] at hsub; cases hsub
    | some e =>
      rw [hga] at hsub
      by_cases hx : e.1 ≠ w
      · have hd : decide (e.1 ≠ w) = true := decide_eq_true hx
        simp only [Option.filter, hd, if_true] at hsub
        have hx' : e = (w', ch) := (Option.some.inj hsub).symm
        subst hx'
        have h0 := hAR a w' ch hga
        obtain ⟨hm, hrb⟩ := mem_readyWallets.1 h0
        refine mem_readyWallets.2 ⟨hm, ?_⟩
        rw [readyB_marked_other _ _ _ hx]; exact hrb
      · simp [Option.filter, hx] at hsub
  have hrne : (readyWallets (markedLed x.P.led w stt) ((lenv cfg.st k.ks).ctx k.chain).wallets).isEmpty = false := by
    obtain ⟨w', hw', hm'⟩ := hoth
    have hc' : (readyWallets (markedLed x.P.led w stt) ((lenv cfg.st k.ks).ctx k.chain).wallets).contains w' = true :=
      mem_readyWallets.2 ⟨hm', by rw [readyB_marked_other _ _ _ hw']; exact hK.ready w' hm'⟩
    cases hl : readyWallets (markedLed x.P.led w stt) ((lenv cfg.st k.ks).ctx k.chain).wallets with
    | nil => rw [hl] at hc'; cases hc'
    | cons _ _ => rfl
  obtain ⟨kk, hkk, hSc', hfl, hAR', hne'⟩ :=
    inv_to_fj hKN hIm H.valid H.heights hS.good.nonempty hflag hbalw hARm hrne
  have hnm : KeysNodup (markedLed x.P.led w stt).credits := hn
  have hnrW : (readyWallets (markedLed x.P.led w stt) ((lenv cfg.st k.ks).ctx k.chain).wallets).contains w = false :=
    notReady_of_removed hfl rfl
  have hMU := scanJS_to_midU H hKN hkk
    (scanJS_congr hSc' (s' := { markedLed x.P.led w stt with pendCred := [] })
      ⟨rfl, rfl, rfl, rfl, rfl, rfl, rfl, rfl, rfl, rfl, rfl⟩)
    hnrW hnm (fun _ he => by cases he)
  have hP : MW.Lemmas.RemoveInterleave.P2W ((lenv cfg.st k.ks).ctx k.chain) w (addrsOf k.ks w)
      (ownOf (AMap.erase k.ks w)) (markedLed x.P.led w stt) (markedLed x.P.led w stt) S kk :=
    ⟨hkk, ⟨hSc', hfl, hAR', hne', hnm⟩, SubW.refl _ _ _, reach_of_scanJS H hKN hkk hSc', midUW_of_midU hMU⟩
  refine ⟨hc, by rw [e1]; exact hks, by rw [e2]; exact hkeys, hK.nodupW, hK.nodupA, ⟨r, hr, hne r hr⟩, ?_,
    ⟨S, markedLed x.P.led w stt, kk, hS, by rw [e1]; exact hP, by rw [e2]; exact hv, ⟨c, hcm, hSc⟩,
      fun h => (hq0 h).trans hc⟩, hq, (fun h => by rw [← hc]; exact hq1 h), hN, hcur, ?_, hoth⟩
  · rw [e2]
    show (x.V.tasks ++ [Task.rem w]).contains (.rem w) = true
    simp
  · intro w' hw' hne'
    rw [hO w' hne']; exact hK.ready w' hw'

end MW.Lemmas.Deepen5
