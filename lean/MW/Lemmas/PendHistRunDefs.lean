/-
  C09 history-level refinement: the TYPED HISTORIES (events of the follower at block granularity), the world the
  model and the specification run in side by side, and the DOMAIN of each step as explicit hypotheses.
-/
import MW.Lemmas.PendHistDisc
import MW.Lemmas.PendHistConnectStep
import MW.Lemmas.PendHistBridge
namespace MW.Lemmas.PendHist
open MW MW.Model.Ledger MW.Spec.Pending MW.Lemmas.LedgerPending

/-- static environment of a history: parameters, keystore view, wallets, and the transaction behind each id
    (ids are hashes) -/
structure HEnv where
  p : Params
  own : Own
  wallets : List Wid
  src : TxId → Option Tx

def HEnv.ctx (E : HEnv) (n : Node) : Ctx := { p := E.p, own := E.own, wallets := E.wallets, node := n }
def HEnv.env (E : HEnv) : Env := { own := E.own, src := E.src }

/-- inputs of these transactions spend existing outputs (of the transaction their id denotes) -/
def SrcIdx (E : HEnv) (l : List Tx) : Prop :=
  ∀ t ∈ l, ∀ i ∈ t.ins, ∀ p, E.src i.tx = some p → i.idx < p.outs.length

/-- every transaction of these blocks is the one its id denotes -/
def SrcChain (E : HEnv) (c : List Block) : Prop := ∀ x ∈ c, ∀ t ∈ x.txs, E.src t.id = some t

/-- DOMAIN of disconnecting the tip block `b` from the wallet chain `c0 ++ [b]` (statements about the chain, the
    block and the pending list only) -/
structure DiscDom (rank : TxId → Nat) (E : HEnv) (c0 : List Block) (b : Block) (P : List Tx) : Prop where
  blk : ∀ x ∈ c0, x.id ≠ b.id
  bnd : (b.txs.map (·.id)).Nodup
  /-- a transaction of the block is not on the chain below and does not conflict with it (chain validity) -/
  back : ∀ t ∈ b.txs, onChain c0 t.id = false ∧ conflictedBy c0 t = false
  /-- the inputs of a block transaction refer to transactions of the chain -/
  parents : ∀ t ∈ b.txs, ∀ i ∈ t.ins, onChain (c0 ++ [b]) i.tx = true
  rk : ∀ t ∈ b.txs, ∀ i ∈ t.ins, rank i.tx < rank t.id
  src : SrcChain E (c0 ++ [b])
  sidx : SrcIdx E b.txs
  /-- FOREIGN-COINBASE restriction (known finding C09-4): a pending or un-confirmed transaction spends a coinbase
      output of the disconnected block only if that output pays the wallet -/
  cbown : ∀ t, (t ∈ P ∨ (t ∈ b.txs ∧ t.cb = false ∧ relevant E.env t = true)) → ∀ i ∈ t.ins, ∀ u ∈ b.txs,
    u.cb = true → i.tx = u.id → ∃ o, u.outs[i.idx]? = some o ∧ ownedOut E.env o = true

end MW.Lemmas.PendHist
