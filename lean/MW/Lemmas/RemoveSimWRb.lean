/-
  C08, reorganisations BELOW the floor between two removal steps — ONE disconnected block under the relaxed relation
  `SubW` (no `NewEq`: the real store may lack credits / debits / tx records of the removed wallet `w` under the block,
  its block record may be trimmed or gone).

  Shape of the result (`disconnectBlock_rel`): if `disconnectBlock` succeeds on the ghost store AND on the real store
  (in `irun … = some x` every notification succeeded on the real store; the ghost succeeds by its own invariant), the
  results are again related by `SubW`.  Rollback skips on the real store what a removal step deleted; what the ghost
  does alone touches only entries keyed by `w` (the owner of every credit the real store lacks), which `SubW` leaves free.
  Whether Rollback can FAIL on the real store on stale entries of `w` ("balance underflow", "unwithdraw game not found")
  is not decided here.
-/
import MW.Lemmas.RemoveSimWDefs
namespace MW.Lemmas.RemoveSimW
open MW MW.Model.Ledger MW.Model.Remove MW.Lemmas.Ledger MW.Lemmas.LedgerWFCred MW.Lemmas.RemoveSim

-- ------------------------------------------------------------------ one bucket, equal off a set of keys

section tab
variable {K V : Type} [DecidableEq K]

/-- the two maps agree on the keys satisfying `nw` -/
def EqOff (nw : K → Prop) (a b : AMap.T K V) : Prop := ∀ k, nw k → AMap.get a k = AMap.get b k

variable {nw : K → Prop} {a b : AMap.T K V}

theorem EqOff.erase_both (h : EqOff nw a b) (k0 : K) : EqOff nw (AMap.erase a k0) (AMap.erase b k0) := by
  intro k hk; rw [AMap.get_erase, AMap.get_erase, h k hk]

theorem EqOff.put_both (h : EqOff nw a b) (k0 : K) (v : V) : EqOff nw (AMap.put a k0 v) (AMap.put b k0 v) := by
  intro k hk; rw [AMap.get_put, AMap.get_put, h k hk]

theorem EqOff.erase_l (h : EqOff nw a b) {k0 : K} (hk0 : ¬ nw k0) : EqOff nw (AMap.erase a k0) b := by
  intro k hk; rw [AMap.get_erase, if_neg (fun (e : k0 = k) => hk0 (by rw [e]; exact hk))]; exact h k hk

theorem EqOff.erase_r (h : EqOff nw a b) {k0 : K} (hk0 : ¬ nw k0) : EqOff nw a (AMap.erase b k0) := by
  intro k hk; rw [AMap.get_erase, if_neg (fun (e : k0 = k) => hk0 (by rw [e]; exact hk))]; exact h k hk

theorem EqOff.put_l (h : EqOff nw a b) {k0 : K} (hk0 : ¬ nw k0) (v : V) : EqOff nw (AMap.put a k0 v) b := by
  intro k hk; rw [AMap.get_put, if_neg (fun (e : k0 = k) => hk0 (by rw [e]; exact hk))]; exact h k hk

theorem EqOff.put_r (h : EqOff nw a b) {k0 : K} (hk0 : ¬ nw k0) (v : V) : EqOff nw a (AMap.put b k0 v) := by
  intro k hk; rw [AMap.get_put, if_neg (fun (e : k0 = k) => hk0 (by rw [e]; exact hk))]; exact h k hk

theorem EqOff.put_any (h : EqOff nw a b) (k0 : K) {v v' : V} (hv : nw k0 → v = v') :
    EqOff nw (AMap.put a k0 v) (AMap.put b k0 v') := by
  intro k hk
  rw [AMap.get_put, AMap.get_put]
  by_cases e : k0 = k
  · rw [if_pos e, if_pos e, hv (by rw [e]; exact hk)]
  · rw [if_neg e, if_neg e]; exact h k hk

theorem get_erase_none {m : AMap.T K V} {k' : K} (h : AMap.get m k' = none) (k : K) :
    AMap.get (AMap.erase m k) k' = none := by
  rw [AMap.get_erase]; split
  · rfl
  · exact h

theorem get_put_none {m : AMap.T K V} {k k' : K} {c : V} (hk : AMap.get m k = some c) (h : AMap.get m k' = none) (v : V) :
    AMap.get (AMap.put m k v) k' = none := by
  rw [AMap.get_put]
  by_cases e : k = k'
  · rw [e, h] at hk; cases hk
  · rw [if_neg e]; exact h

end tab

-- ------------------------------------------------------------------ the working relation

/-- credits / debits / tx records of ghost (`g…`) and real store (`s…`) while a block is rolled back.  Static parameters:
    `P k sh` "the ghost's credit under `k` pays `sh`" (at the start), `T k loc` "the ghost's tx record" (at the start),
    `N k` "the real store had no tx record `k`" (at the start) -/
structure MNt (addrs : List Addr) (P : CredKey → Addr → Prop) (T : TxId × BlockMeta → BlkId × Nat → Prop)
    (N : TxId × BlockMeta → Prop)
    (gc sc : AMap.T CredKey Credit) (gd sd : AMap.T CredKey (Nat × CredKey))
    (gt st : AMap.T (TxId × BlockMeta) (BlkId × Nat)) : Prop where
  cred : ∀ k, AMap.get sc k = AMap.get gc k ∨
    (AMap.get sc k = none ∧ ∃ cr, AMap.get gc k = some cr ∧ addrs.contains cr.sh = true)
  shOK : ∀ k cr, AMap.get gc k = some cr → P k cr.sh
  deb : SubT gd sd
  debGone : ∀ dk d, AMap.get gd dk = some d → AMap.get sd dk = none → AMap.get sc d.2 = none
  txS : SubT gt st
  locOK : ∀ k loc, AMap.get gt k = some loc → T k loc
  txN : ∀ k, AMap.get st k = none → AMap.get gt k = none ∨ N k
  nTx : ∀ k, N k → AMap.get st k = none
  noRec : ∀ ck : CredKey, N (ck.tx, ck.blk) → AMap.get sc ck = none ∧ AMap.get sd ck = none

section mnt
variable {addrs : List Addr} {P : CredKey → Addr → Prop} {T : TxId × BlockMeta → BlkId × Nat → Prop}
  {N : TxId × BlockMeta → Prop}
  {gc sc : AMap.T CredKey Credit} {gd sd : AMap.T CredKey (Nat × CredKey)}
  {gt st : AMap.T (TxId × BlockMeta) (BlkId × Nat)}

theorem MNt.eraseCred_both (h : MNt addrs P T N gc sc gd sd gt st) (k : CredKey) :
    MNt addrs P T N (AMap.erase gc k) (AMap.erase sc k) gd sd gt st := by
  refine ⟨?_, ?_, h.deb, ?_, h.txS, h.locOK, h.txN, h.nTx, ?_⟩
  · intro k'
    rw [AMap.get_erase, AMap.get_erase]
    by_cases e : k = k'
    · rw [if_pos e, if_pos e]; exact Or.inl rfl
    · rw [if_neg e, if_neg e]; exact h.cred k'
  · intro k' cr hc
    rw [AMap.get_erase] at hc
    by_cases e : k = k'
    · rw [if_pos e] at hc; cases hc
    · rw [if_neg e] at hc; exact h.shOK k' cr hc
  · intro dk d h1 h2
    exact get_erase_none (h.debGone dk d h1 h2) k
  · intro ck hN
    exact ⟨get_erase_none (h.noRec ck hN).1 k, (h.noRec ck hN).2⟩

theorem MNt.eraseCred_g (h : MNt addrs P T N gc sc gd sd gt st) {k : CredKey} (hs : AMap.get sc k = none) :
    MNt addrs P T N (AMap.erase gc k) sc gd sd gt st := by
  refine ⟨?_, ?_, h.deb, h.debGone, h.txS, h.locOK, h.txN, h.nTx, h.noRec⟩
  · intro k'
    rw [AMap.get_erase]
    by_cases e : k = k'
    · rw [if_pos e, ← e, hs]; exact Or.inl rfl
    · rw [if_neg e]; exact h.cred k'
  · intro k' cr hc
    rw [AMap.get_erase] at hc
    by_cases e : k = k'
    · rw [if_pos e] at hc; cases hc
    · rw [if_neg e] at hc; exact h.shOK k' cr hc

theorem MNt.putCred_both (h : MNt addrs P T N gc sc gd sd gt st) {k : CredKey} {v c : Credit}
    (hg : AMap.get gc k = some c) (hs : AMap.get sc k = some c) (hsh : v.sh = c.sh) :
    MNt addrs P T N (AMap.put gc k v) (AMap.put sc k v) gd sd gt st := by
  refine ⟨?_, ?_, h.deb, ?_, h.txS, h.locOK, h.txN, h.nTx, ?_⟩
  · intro k'
    rw [AMap.get_put, AMap.get_put]
    by_cases e : k = k'
    · rw [if_pos e, if_pos e]; exact Or.inl rfl
    · rw [if_neg e, if_neg e]; exact h.cred k'
  · intro k' cr hc
    rw [AMap.get_put] at hc
    by_cases e : k = k'
    · rw [if_pos e] at hc; cases hc; rw [← e, hsh]; exact h.shOK k c hg
    · rw [if_neg e] at hc; exact h.shOK k' cr hc
  · intro dk d h1 h2
    exact get_put_none hs (h.debGone dk d h1 h2) v
  · intro ck hN
    exact ⟨get_put_none hs (h.noRec ck hN).1 v, (h.noRec ck hN).2⟩

theorem MNt.putCred_g (h : MNt addrs P T N gc sc gd sd gt st) {k : CredKey} {v c : Credit}
    (hg : AMap.get gc k = some c) (hs : AMap.get sc k = none) (hsh : v.sh = c.sh)
    (hc : addrs.contains c.sh = true) :
    MNt addrs P T N (AMap.put gc k v) sc gd sd gt st := by
  refine ⟨?_, ?_, h.deb, h.debGone, h.txS, h.locOK, h.txN, h.nTx, h.noRec⟩
  · intro k'
    rw [AMap.get_put]
    by_cases e : k = k'
    · rw [if_pos e, ← e]; exact Or.inr ⟨hs, v, rfl, by rw [hsh]; exact hc⟩
    · rw [if_neg e]; exact h.cred k'
  · intro k' cr hc'
    rw [AMap.get_put] at hc'
    by_cases e : k = k'
    · rw [if_pos e] at hc'; cases hc'; rw [← e, hsh]; exact h.shOK k c hg
    · rw [if_neg e] at hc'; exact h.shOK k' cr hc'

theorem MNt.eraseDeb_both (h : MNt addrs P T N gc sc gd sd gt st) (dk : CredKey) :
    MNt addrs P T N gc sc (AMap.erase gd dk) (AMap.erase sd dk) gt st := by
  refine ⟨h.cred, h.shOK, h.deb.erase dk, ?_, h.txS, h.locOK, h.txN, h.nTx, ?_⟩
  · intro dk' d h1 h2
    rw [AMap.get_erase] at h1 h2
    by_cases e : dk = dk'
    · rw [if_pos e] at h1; cases h1
    · rw [if_neg e] at h1 h2; exact h.debGone dk' d h1 h2
  · intro ck hN
    exact ⟨(h.noRec ck hN).1, get_erase_none (h.noRec ck hN).2 dk⟩

theorem MNt.eraseDeb_g (h : MNt addrs P T N gc sc gd sd gt st) {dk : CredKey} (hs : AMap.get sd dk = none) :
    MNt addrs P T N gc sc (AMap.erase gd dk) sd gt st := by
  refine ⟨h.cred, h.shOK, ?_, ?_, h.txS, h.locOK, h.txN, h.nTx, h.noRec⟩
  · intro k'
    rw [AMap.get_erase]
    by_cases e : dk = k'
    · rw [← e]; exact Or.inr hs
    · rw [if_neg e]; exact h.deb k'
  · intro dk' d h1 h2
    rw [AMap.get_erase] at h1
    by_cases e : dk = dk'
    · rw [if_pos e] at h1; cases h1
    · rw [if_neg e] at h1; exact h.debGone dk' d h1 h2

theorem MNt.eraseTx_both (h : MNt addrs P T N gc sc gd sd gt st) (k : TxId × BlockMeta) :
    MNt addrs P T N gc sc gd sd (AMap.erase gt k) (AMap.erase st k) := by
  refine ⟨h.cred, h.shOK, h.deb, h.debGone, h.txS.erase k, ?_, ?_, ?_, h.noRec⟩
  · intro k' loc hl
    rw [AMap.get_erase] at hl
    by_cases e : k = k'
    · rw [if_pos e] at hl; cases hl
    · rw [if_neg e] at hl; exact h.locOK k' loc hl
  · intro k' hn
    rw [AMap.get_erase] at hn ⊢
    by_cases e : k = k'
    · rw [if_pos e]; exact Or.inl rfl
    · rw [if_neg e] at hn ⊢; exact h.txN k' hn
  · intro k' hN
    exact get_erase_none (h.nTx k' hN) k

theorem MNt.eraseTx_g (h : MNt addrs P T N gc sc gd sd gt st) {k : TxId × BlockMeta} (hs : AMap.get st k = none) :
    MNt addrs P T N gc sc gd sd (AMap.erase gt k) st := by
  refine ⟨h.cred, h.shOK, h.deb, h.debGone, ?_, ?_, ?_, h.nTx, h.noRec⟩
  · intro k'
    rw [AMap.get_erase]
    by_cases e : k = k'
    · rw [← e]; exact Or.inr hs
    · rw [if_neg e]; exact h.txS k'
  · intro k' loc hl
    rw [AMap.get_erase] at hl
    by_cases e : k = k'
    · rw [if_pos e] at hl; cases hl
    · rw [if_neg e] at hl; exact h.locOK k' loc hl
  · intro k' hn
    rw [AMap.get_erase]
    by_cases e : k = k'
    · rw [if_pos e]; exact Or.inl rfl
    · rw [if_neg e]; exact h.txN k' hn

end mnt

-- ------------------------------------------------------------------ the relation on stores

/-- the buckets keyed by wallet id agree off `w` -/
structure WKt (w : Wid) (gu su : AMap.T (Wid × TxId × Nat) BlockMeta) (gg sg : AMap.T GameKey Unit)
    (ga sa : AMap.T (Wid × Bool × Addr) Nat) : Prop where
  unspent : EqOff (fun k : Wid × TxId × Nat => k.1 ≠ w) su gu
  game : EqOff (fun k : GameKey => k.wallet ≠ w) sg gg
  adr : EqOff (fun k : Wid × Bool × Addr => k.1 ≠ w) sa ga

def WK (w : Wid) (gi si : Store) : Prop := WKt w gi.unspent si.unspent gi.game si.game gi.addrs si.addrs

def MN (addrs : List Addr) (P : CredKey → Addr → Prop) (T : TxId × BlockMeta → BlkId × Nat → Prop)
    (N : TxId × BlockMeta → Prop) (gi si : Store) : Prop :=
  MNt addrs P T N gi.credits si.credits gi.debits si.debits gi.txrecs si.txrecs

/-- what the inner loops of Rollback never touch: `G`, `S` = the block buckets when the rollback starts -/
def RS (w : Wid) (G S : AMap.T Nat (BlkId × List TxId)) (gi si : Store) : Prop :=
  si.sync = gi.sync ∧ si.syncedTo = gi.syncedTo ∧ si.status = gi.status ∧
  EqOff (fun w' : Wid => w' ≠ w) si.balance gi.balance ∧ gi.blocks = G ∧ si.blocks = S

structure WR (w : Wid) (addrs : List Addr) (P : CredKey → Addr → Prop) (T : TxId × BlockMeta → BlkId × Nat → Prop)
    (N : TxId × BlockMeta → Prop) (G S : AMap.T Nat (BlkId × List TxId)) (gi si : Store) : Prop where
  wk : WK w gi si
  mn : MN addrs P T N gi si
  rs : RS w G S gi si

/-- the working balances agree off `w` -/
def BalR (w : Wid) (gb sb : Bals) : Prop := EqOff (fun w' : Wid => w' ≠ w) sb gb

section wr
variable {w : Wid} {addrs : List Addr} {P : CredKey → Addr → Prop} {T : TxId × BlockMeta → BlkId × Nat → Prop}
  {N : TxId × BlockMeta → Prop} {G S : AMap.T Nat (BlkId × List TxId)} {gi si : Store}

local macro "mined_rfl" : term => `(⟨rfl, rfl, rfl, rfl, rfl, rfl, rfl, rfl, rfl, rfl, rfl⟩)

theorem WR.minedEq {gi' si' : Store} (h : WR w addrs P T N G S gi si) (hg : MinedEq gi gi') (hs : MinedEq si si') :
    WR w addrs P T N G S gi' si' := by
  obtain ⟨h1, h2, h3⟩ := h
  refine ⟨?_, ?_, ?_⟩
  · unfold WK at *
    rw [hg.unspent, hs.unspent, hg.game, hs.game, hg.addrs, hs.addrs]; exact h1
  · unfold MN at *
    rw [hg.credits, hs.credits, hg.debits, hs.debits, hg.txrecs, hs.txrecs]; exact h2
  · unfold RS at *
    rw [hg.sync, hs.sync, hg.syncedTo, hs.syncedTo, hg.status, hs.status, hg.balance, hs.balance,
      hg.blocks, hs.blocks]; exact h3

theorem WR.minedEq_l {gi' : Store} (h : WR w addrs P T N G S gi si) (hg : MinedEq gi gi') :
    WR w addrs P T N G S gi' si := h.minedEq hg (MinedEq.refl si)

theorem WR.setUnspent (h : WR w addrs P T N G S gi si) {U U' : AMap.T (Wid × TxId × Nat) BlockMeta}
    (hu : EqOff (fun k : Wid × TxId × Nat => k.1 ≠ w) U' U) :
    WR w addrs P T N G S { gi with unspent := U } { si with unspent := U' } :=
  ⟨⟨hu, h.wk.game, h.wk.adr⟩, h.mn, h.rs⟩

theorem WR.setGame (h : WR w addrs P T N G S gi si) {U U' : AMap.T GameKey Unit}
    (hu : EqOff (fun k : GameKey => k.wallet ≠ w) U' U) :
    WR w addrs P T N G S { gi with game := U } { si with game := U' } :=
  ⟨⟨h.wk.unspent, hu, h.wk.adr⟩, h.mn, h.rs⟩

theorem WR.setAddrs (h : WR w addrs P T N G S gi si) {U U' : AMap.T (Wid × Bool × Addr) Nat}
    (hu : EqOff (fun k : Wid × Bool × Addr => k.1 ≠ w) U' U) :
    WR w addrs P T N G S { gi with addrs := U } { si with addrs := U' } :=
  ⟨⟨h.wk.unspent, h.wk.game, hu⟩, h.mn, h.rs⟩

theorem WR.setMined (h : WR w addrs P T N G S gi si) {gc sc : AMap.T CredKey Credit}
    {gd sd : AMap.T CredKey (Nat × CredKey)} {gt st : AMap.T (TxId × BlockMeta) (BlkId × Nat)}
    (hm : MNt addrs P T N gc sc gd sd gt st) :
    WR w addrs P T N G S { gi with credits := gc, debits := gd, txrecs := gt }
      { si with credits := sc, debits := sd, txrecs := st } :=
  ⟨h.wk, hm, h.rs⟩

-- ------------------------------------------------------------------ rollbackAddr

theorem rollbackAddr_shape (s : Store) (w1 : Wid) (o : Out) (ch : Nat) :
    rollbackAddr s w1 o ch = s ∨
    rollbackAddr s w1 o ch = { s with addrs := AMap.put s.addrs (w1, o.cls.isStaking, o.addr) 0 } := by
  unfold rollbackAddr
  dsimp only
  split
  · split
    · exact Or.inr rfl
    · exact Or.inl rfl
  · exact Or.inl rfl

theorem wr_addr_l (h : WR w addrs P T N G S gi si) (o : Out) (ch : Nat) :
    WR w addrs P T N G S (rollbackAddr gi w o ch) si := by
  rcases rollbackAddr_shape gi w o ch with e | e
  · rw [e]; exact h
  · rw [e]; exact ⟨⟨h.wk.unspent, h.wk.game, h.wk.adr.put_r (fun hk => hk rfl) 0⟩, h.mn, h.rs⟩

theorem wr_addr_r (h : WR w addrs P T N G S gi si) (o : Out) (ch : Nat) :
    WR w addrs P T N G S gi (rollbackAddr si w o ch) := by
  rcases rollbackAddr_shape si w o ch with e | e
  · rw [e]; exact h
  · rw [e]; exact ⟨⟨h.wk.unspent, h.wk.game, h.wk.adr.put_l (fun hk => hk rfl) 0⟩, h.mn, h.rs⟩

theorem wr_addr_both (h : WR w addrs P T N G S gi si) {w1 : Wid} (hw : w1 ≠ w) (o : Out) (ch : Nat) :
    WR w addrs P T N G S (rollbackAddr gi w1 o ch) (rollbackAddr si w1 o ch) := by
  unfold rollbackAddr
  dsimp only
  rw [h.wk.adr (w1, o.cls.isStaking, o.addr) hw]
  split
  · split
    · exact h.setAddrs (h.wk.adr.put_both _ _)
    · exact h
  · exact h

-- ------------------------------------------------------------------ rollbackOwnedOut

theorem ownedOut_l (h : WR w addrs P T N G S gi si) {gb sb : Bals} (hb : BalR w gb sb) {id : TxId} {blk : BlockMeta}
    {i : Nat} {o : Out} {r : Store × Bals} (hg : rollbackOwnedOut id blk (gi, gb) i o w = .ok r) :
    WR w addrs P T N G S r.1 si ∧ BalR w r.2 sb := by
  unfold rollbackOwnedOut at hg
  dsimp only at hg
  split at hg
  · split at hg
    · cases hg
    · cases hg
      exact ⟨wr_addr_l (h.setUnspent (U' := si.unspent) (h.wk.unspent.erase_r (fun hk => hk rfl))) o _,
        EqOff.put_r hb (fun hk => hk rfl) _⟩
  · cases hg
    exact ⟨wr_addr_l h o _, hb⟩

theorem ownedOut_r (h : WR w addrs P T N G S gi si) {gb sb : Bals} (hb : BalR w gb sb) {id : TxId} {blk : BlockMeta}
    {i : Nat} {o : Out} {r : Store × Bals} (hs : rollbackOwnedOut id blk (si, sb) i o w = .ok r) :
    WR w addrs P T N G S gi r.1 ∧ BalR w gb r.2 := by
  unfold rollbackOwnedOut at hs
  dsimp only at hs
  split at hs
  · split at hs
    · cases hs
    · cases hs
      exact ⟨wr_addr_r (h.setUnspent (U := gi.unspent) (h.wk.unspent.erase_l (fun hk => hk rfl))) o _,
        EqOff.put_l hb (fun hk => hk rfl) _⟩
  · cases hs
    exact ⟨wr_addr_r h o _, hb⟩

theorem ownedOut_both (h : WR w addrs P T N G S gi si) {gb sb : Bals} (hb : BalR w gb sb) {id : TxId} {blk : BlockMeta}
    {i : Nat} {o : Out} {w1 : Wid} {r r' : Store × Bals}
    (hg : rollbackOwnedOut id blk (gi, gb) i o w1 = .ok r) (hs : rollbackOwnedOut id blk (si, sb) i o w1 = .ok r') :
    WR w addrs P T N G S r.1 r'.1 ∧ BalR w r.2 r'.2 := by
  by_cases hw : w1 = w
  · subst hw
    obtain ⟨h1, hb1⟩ := ownedOut_l h hb hg
    exact ownedOut_r h1 hb1 hs
  · unfold rollbackOwnedOut at hg hs
    dsimp only at hg hs
    rw [h.wk.unspent (w1, id, i) hw] at hs
    have eb : getBal sb w1 = getBal gb w1 := by unfold getBal; rw [hb w1 hw]
    rw [eb] at hs
    split at hg
    · rename_i hx
      rw [if_pos hx] at hs
      split at hg
      · cases hg
      · rename_i hy
        rw [if_neg hy] at hs
        cases hg; cases hs
        exact ⟨wr_addr_both (h.setUnspent (h.wk.unspent.erase_both _)) hw o _, EqOff.put_both hb _ _⟩
    · rename_i hx
      rw [if_neg hx] at hs
      cases hg; cases hs
      exact ⟨wr_addr_both h hw o _, hb⟩

end wr

-- ------------------------------------------------------------------ Rollback, function by function

section ops
variable {w : Wid} {addrs : List Addr} {P : CredKey → Addr → Prop} {T : TxId × BlockMeta → BlkId × Nat → Prop}
  {N : TxId × BlockMeta → Prop} {G S : AMap.T Nat (BlkId × List TxId)} {gi si : Store} {c : Ctx}

/-- the removed wallet's script hashes are `w`'s in the keystore view -/
def OwnW (c : Ctx) (w : Wid) (addrs : List Addr) : Prop :=
  ∀ a, addrs.contains a = true → ∃ ch, AMap.get c.own a = some (w, ch)

/-- coinbase output, the ghost alone: the real store has no credit under the key -/
theorem cbOut_g (hOwn : OwnW c w addrs) (h : WR w addrs P T N G S gi si) {gb sb : Bals} (hb : BalR w gb sb)
    {id : TxId} {blk : BlockMeta} {i : Nat} {o : Out} {gl : List (TxId × Nat)}
    {ga' : (Store × Bals) × List (TxId × Nat)}
    (hP : ∀ sh, P ⟨id, blk, i⟩ sh → sh = o.addr) (hn : AMap.get si.credits ⟨id, blk, i⟩ = none)
    (hg : rollbackCbOut c id blk ((gi, gb), gl) i o = .ok ga') :
    WR w addrs P T N G S ga'.1.1 si ∧ BalR w ga'.1.2 sb := by
  unfold rollbackCbOut at hg
  dsimp only at hg
  cases hc : AMap.get gi.credits ⟨id, blk, i⟩ with
  | none => rw [hc] at hg; cases hg; exact ⟨h, hb⟩
  | some cr =>
    rw [hc] at hg
    dsimp only at hg
    split at hg
    · cases hg
    have hcon : addrs.contains cr.sh = true := by
      rcases h.mn.cred ⟨id, blk, i⟩ with e | ⟨_, cr', e1, e2⟩
      · rw [hn, hc] at e; cases e
      · rw [hc] at e1; cases e1; exact e2
    have hsh : cr.sh = o.addr := hP _ (h.mn.shOK _ _ hc)
    obtain ⟨ch, hown⟩ := hOwn _ hcon
    rw [hsh] at hown
    rw [hown] at hg
    dsimp only at hg
    obtain ⟨r1, h2, h3⟩ := M_bind_ok hg
    have h1 : WR w addrs P T N G S { gi with credits := AMap.erase gi.credits ⟨id, blk, i⟩ } si :=
      ⟨h.wk, h.mn.eraseCred_g hn, h.rs⟩
    obtain ⟨hr, hbr⟩ := ownedOut_l h1 hb h2
    split at h3
    · cases h3
      exact ⟨⟨⟨hr.wk.unspent, hr.wk.game.erase_r (fun hk => hk rfl), hr.wk.adr⟩, hr.mn, hr.rs⟩, hbr⟩
    · cases h3; exact ⟨hr, hbr⟩

theorem cbOut_both (hOwn : OwnW c w addrs) (h : WR w addrs P T N G S gi si) {gb sb : Bals} (hb : BalR w gb sb)
    {id : TxId} {blk : BlockMeta} {i : Nat} {o : Out} {gl sl : List (TxId × Nat)}
    {ga' sa' : (Store × Bals) × List (TxId × Nat)}
    (hP : ∀ sh, P ⟨id, blk, i⟩ sh → sh = o.addr)
    (hg : rollbackCbOut c id blk ((gi, gb), gl) i o = .ok ga')
    (hs : rollbackCbOut c id blk ((si, sb), sl) i o = .ok sa') :
    WR w addrs P T N G S ga'.1.1 sa'.1.1 ∧ BalR w ga'.1.2 sa'.1.2 := by
  cases hsc : AMap.get si.credits ⟨id, blk, i⟩ with
  | none =>
    have e : sa' = ((si, sb), sl) := by
      unfold rollbackCbOut at hs; dsimp only at hs; rw [hsc] at hs; cases hs; rfl
    rw [e]
    exact cbOut_g hOwn h hb hP hsc hg
  | some cr =>
    have hgc : AMap.get gi.credits ⟨id, blk, i⟩ = some cr := by
      rcases h.mn.cred ⟨id, blk, i⟩ with e | ⟨e, _⟩
      · rw [← e]; exact hsc
      · rw [hsc] at e; cases e
    unfold rollbackCbOut at hg hs
    dsimp only at hg hs
    rw [hgc] at hg; rw [hsc] at hs
    dsimp only at hg hs
    split at hg
    · cases hg
    rename_i hraw
    rw [if_neg hraw] at hs
    have h1 : WR w addrs P T N G S { gi with credits := AMap.erase gi.credits ⟨id, blk, i⟩ }
        { si with credits := AMap.erase si.credits ⟨id, blk, i⟩ } := ⟨h.wk, h.mn.eraseCred_both _, h.rs⟩
    cases ho : AMap.get c.own o.addr with
    | none => rw [ho] at hg hs; cases hg; cases hs; exact ⟨h1, hb⟩
    | some wc =>
      obtain ⟨w1, ch⟩ := wc
      rw [ho] at hg hs
      dsimp only at hg hs
      obtain ⟨r1, g2, g3⟩ := M_bind_ok hg
      obtain ⟨r2, s2, s3⟩ := M_bind_ok hs
      obtain ⟨hr, hbr⟩ := ownedOut_both h1 hb g2 s2
      split at g3
      · rename_i hgm
        rw [if_pos hgm] at s3
        cases g3; cases s3
        exact ⟨hr.setGame (hr.wk.game.erase_both _), hbr⟩
      · rename_i hgm
        rw [if_neg hgm] at s3
        cases g3; cases s3; exact ⟨hr, hbr⟩

/-- ordinary output, the ghost alone -/
theorem out_g (hOwn : OwnW c w addrs) (h : WR w addrs P T N G S gi si) {gb sb : Bals} (hb : BalR w gb sb)
    {id : TxId} {blk : BlockMeta} {i : Nat} {o : Out} {r : Store × Bals}
    (hP : ∀ sh, P ⟨id, blk, i⟩ sh → sh = o.addr) (hn : AMap.get si.credits ⟨id, blk, i⟩ = none)
    (hg : rollbackOut c id blk (gi, gb) i o = .ok r) :
    WR w addrs P T N G S r.1 si ∧ BalR w r.2 sb := by
  unfold rollbackOut at hg
  dsimp only at hg
  cases hc : AMap.get gi.credits ⟨id, blk, i⟩ with
  | none => rw [hc] at hg; cases hg; exact ⟨h, hb⟩
  | some cr =>
    rw [hc] at hg
    dsimp only at hg
    split at hg
    · cases hg
    have hcon : addrs.contains cr.sh = true := by
      rcases h.mn.cred ⟨id, blk, i⟩ with e | ⟨_, cr', e1, e2⟩
      · rw [hn, hc] at e; cases e
      · rw [hc] at e1; cases e1; exact e2
    have hsh : cr.sh = o.addr := hP _ (h.mn.shOK _ _ hc)
    obtain ⟨ch, hown⟩ := hOwn _ hcon
    rw [hsh] at hown
    rw [hown] at hg
    dsimp only at hg
    obtain ⟨r1, h2, h3⟩ := M_bind_ok hg
    have h1 : WR w addrs P T N G S
        { gi with credits := AMap.erase gi.credits ⟨id, blk, i⟩,
                  pendCred := AMap.put gi.pendCred (id, i) { cr with spentBy := none } } si :=
      ⟨h.wk, h.mn.eraseCred_g hn, h.rs⟩
    obtain ⟨hr, hbr⟩ := ownedOut_l h1 hb h2
    split at h3
    · cases h3
      exact ⟨⟨⟨hr.wk.unspent, hr.wk.game.erase_r (fun hk => hk rfl), hr.wk.adr⟩, hr.mn, hr.rs⟩, hbr⟩
    · cases h3; exact ⟨hr, hbr⟩

theorem out_both (hOwn : OwnW c w addrs) (h : WR w addrs P T N G S gi si) {gb sb : Bals} (hb : BalR w gb sb)
    {id : TxId} {blk : BlockMeta} {i : Nat} {o : Out} {r r' : Store × Bals}
    (hP : ∀ sh, P ⟨id, blk, i⟩ sh → sh = o.addr)
    (hg : rollbackOut c id blk (gi, gb) i o = .ok r) (hs : rollbackOut c id blk (si, sb) i o = .ok r') :
    WR w addrs P T N G S r.1 r'.1 ∧ BalR w r.2 r'.2 := by
  cases hsc : AMap.get si.credits ⟨id, blk, i⟩ with
  | none =>
    have e : r' = (si, sb) := by
      unfold rollbackOut at hs; dsimp only at hs; rw [hsc] at hs; cases hs; rfl
    rw [e]
    exact out_g hOwn h hb hP hsc hg
  | some cr =>
    have hgc : AMap.get gi.credits ⟨id, blk, i⟩ = some cr := by
      rcases h.mn.cred ⟨id, blk, i⟩ with e | ⟨e, _⟩
      · rw [← e]; exact hsc
      · rw [hsc] at e; cases e
    unfold rollbackOut at hg hs
    dsimp only at hg hs
    rw [hgc] at hg; rw [hsc] at hs
    dsimp only at hg hs
    split at hg
    · cases hg
    rename_i hraw
    rw [if_neg hraw] at hs
    have h1 : WR w addrs P T N G S
        { gi with credits := AMap.erase gi.credits ⟨id, blk, i⟩,
                  pendCred := AMap.put gi.pendCred (id, i) { cr with spentBy := none } }
        { si with credits := AMap.erase si.credits ⟨id, blk, i⟩,
                  pendCred := AMap.put si.pendCred (id, i) { cr with spentBy := none } } :=
      ⟨h.wk, h.mn.eraseCred_both _, h.rs⟩
    cases ho : AMap.get c.own o.addr with
    | none => rw [ho] at hg hs; cases hg; cases hs; exact ⟨h1, hb⟩
    | some wc =>
      obtain ⟨w1, ch⟩ := wc
      rw [ho] at hg hs
      dsimp only at hg hs
      obtain ⟨r1, g2, g3⟩ := M_bind_ok hg
      obtain ⟨r2, s2, s3⟩ := M_bind_ok hs
      obtain ⟨hr, hbr⟩ := ownedOut_both h1 hb g2 s2
      split at g3
      · rename_i hgm
        rw [if_pos hgm] at s3
        cases g3; cases s3
        exact ⟨⟨⟨hr.wk.unspent, hr.wk.game.erase_both _, hr.wk.adr⟩, hr.mn, hr.rs⟩, hbr⟩
      · rename_i hgm
        rw [if_neg hgm] at s3
        cases g3; cases s3; exact ⟨hr, hbr⟩

/-- input, the ghost alone: the real store has no debit under the key (then it has not the credit either) -/
theorem in_g (hOwn : OwnW c w addrs) (h : WR w addrs P T N G S gi si) {gb sb : Bals} (hb : BalR w gb sb)
    {id : TxId} {blk : BlockMeta} {cur : Nat} {i : Inp} {r : Store × Bals}
    (hn : AMap.get si.debits ⟨id, blk, cur⟩ = none)
    (hg : rollbackIn c id blk (gi, gb) cur i = .ok r) :
    WR w addrs P T N G S r.1 si ∧ BalR w r.2 sb := by
  unfold rollbackIn at hg
  dsimp only at hg
  cases hd : AMap.get gi.debits ⟨id, blk, cur⟩ with
  | none => rw [hd] at hg; cases hg; exact ⟨⟨h.wk, h.mn, h.rs⟩, hb⟩
  | some d =>
    obtain ⟨amt, ck⟩ := d
    rw [hd] at hg
    dsimp only at hg
    have hsc : AMap.get si.credits ck = none := h.mn.debGone _ _ hd hn
    cases hcr : AMap.get gi.credits ck with
    | none => rw [hcr] at hg; cases hg
    | some cr =>
      rw [hcr] at hg
      dsimp only at hg
      have hcon : addrs.contains cr.sh = true := by
        rcases h.mn.cred ck with e | ⟨_, cr', e1, e2⟩
        · rw [hsc, hcr] at e; cases e
        · rw [hcr] at e1; cases e1; exact e2
      obtain ⟨ch, hown⟩ := hOwn _ hcon
      rw [hown] at hg
      dsimp only at hg
      have hm : MNt addrs P T N (AMap.put gi.credits ck { cr with spent := false, spentBy := none }) si.credits
          (AMap.erase gi.debits ⟨id, blk, cur⟩) si.debits gi.txrecs si.txrecs :=
        (h.mn.eraseDeb_g hn).putCred_g hcr hsc rfl hcon
      have hu := h.wk.unspent.put_r (k0 := (w, i.tx, i.idx)) (fun hk => hk rfl) ck.blk
      split at hg
      · split at hg
        · cases hg
        · cases hg
          exact ⟨⟨⟨hu, (h.wk.game.erase_r (fun hk => hk rfl)).put_r (fun hk => hk rfl) _, h.wk.adr⟩, hm, h.rs⟩,
            EqOff.put_r hb (fun hk => hk rfl) _⟩
      · cases hg
        exact ⟨⟨⟨hu, h.wk.game, h.wk.adr⟩, hm, h.rs⟩, EqOff.put_r hb (fun hk => hk rfl) _⟩

theorem in_both (hOwn : OwnW c w addrs) (h : WR w addrs P T N G S gi si) {gb sb : Bals} (hb : BalR w gb sb)
    {id : TxId} {blk : BlockMeta} {cur : Nat} {i : Inp} {r r' : Store × Bals}
    (hg : rollbackIn c id blk (gi, gb) cur i = .ok r) (hs : rollbackIn c id blk (si, sb) cur i = .ok r') :
    WR w addrs P T N G S r.1 r'.1 ∧ BalR w r.2 r'.2 := by
  cases hsd : AMap.get si.debits ⟨id, blk, cur⟩ with
  | none =>
    have e : r' = ({ si with pendIns := putPendIn si.pendIns (i.tx, i.idx) id }, sb) := by
      unfold rollbackIn at hs; dsimp only at hs; rw [hsd] at hs; cases hs; rfl
    rw [e]
    obtain ⟨h1, h2⟩ := in_g hOwn h hb hsd hg
    exact ⟨⟨h1.wk, h1.mn, h1.rs⟩, h2⟩
  | some d =>
    obtain ⟨amt, ck⟩ := d
    have hgd : AMap.get gi.debits ⟨id, blk, cur⟩ = some (amt, ck) := by
      rcases h.mn.deb ⟨id, blk, cur⟩ with e | e
      · rw [← e]; exact hsd
      · rw [hsd] at e; cases e
    unfold rollbackIn at hg hs
    dsimp only at hg hs
    rw [hgd] at hg; rw [hsd] at hs
    dsimp only at hg hs
    cases hcr : AMap.get gi.credits ck with
    | none => rw [hcr] at hg; cases hg
    | some cr =>
      cases hscr : AMap.get si.credits ck with
      | none => rw [hscr] at hs; cases hs
      | some cr2 =>
        have e2 : cr2 = cr := by
          rcases h.mn.cred ck with e | ⟨e, _⟩
          · rw [hscr, hcr] at e; cases e; rfl
          · rw [hscr] at e; cases e
        subst e2
        rw [hcr] at hg; rw [hscr] at hs
        dsimp only at hg hs
        have hm : MNt addrs P T N (AMap.put gi.credits ck { cr2 with spent := false, spentBy := none })
            (AMap.put si.credits ck { cr2 with spent := false, spentBy := none })
            (AMap.erase gi.debits ⟨id, blk, cur⟩) (AMap.erase si.debits ⟨id, blk, cur⟩) gi.txrecs si.txrecs :=
          (h.mn.eraseDeb_both _).putCred_both hcr hscr rfl
        cases ho : AMap.get c.own cr2.sh with
        | none => rw [ho] at hg hs; cases hg; cases hs; exact ⟨⟨h.wk, hm, h.rs⟩, hb⟩
        | some wc =>
          obtain ⟨w1, ch⟩ := wc
          rw [ho] at hg hs
          dsimp only at hg hs
          have hu := h.wk.unspent.put_both (w1, i.tx, i.idx) ck.blk
          have hbb : BalR w (AMap.put gb w1 (getBal gb w1 + cr2.amt)) (AMap.put sb w1 (getBal sb w1 + cr2.amt)) :=
            EqOff.put_any hb w1 (fun hw => by unfold getBal; rw [hb w1 hw])
          split at hg
          · rename_i hcl
            rw [if_pos hcl] at hs
            split at hg
            · cases hg
            · split at hs
              · cases hs
              · cases hg; cases hs
                exact ⟨⟨⟨hu, (h.wk.game.erase_both _).put_both _ _, h.wk.adr⟩, hm, h.rs⟩, hbb⟩
          · rename_i hcl
            rw [if_neg hcl] at hs
            cases hg; cases hs
            exact ⟨⟨⟨hu, h.wk.game, h.wk.adr⟩, hm, h.rs⟩, hbb⟩

end ops

-- ------------------------------------------------------------------ loops: two successful runs side by side

theorem foldIdxM_rel {α β : Type} (R : β → β → Prop) (f f' : β → Nat → α → M β) :
    ∀ (l : List α) (i0 : Nat) (b c b' c' : β),
    (∀ b c j a b' c', l[j]? = some a → R b c → f b (i0 + j) a = .ok b' → f' c (i0 + j) a = .ok c' → R b' c') →
    R b c → foldIdxM f l i0 b = .ok b' → foldIdxM f' l i0 c = .ok c' → R b' c'
  | [], _, b, c, b', c', _, hR, h, h' => by cases h; cases h'; exact hR
  | a :: l, i0, b, c, b', c', hstep, hR, h, h' => by
    rw [foldIdxM_cons] at h h'
    obtain ⟨b1, h1, h2⟩ := M_bind_ok h
    obtain ⟨c1, k1, k2⟩ := M_bind_ok h'
    have hR1 := hstep b c 0 a b1 c1 rfl hR h1 k1
    refine foldIdxM_rel R f f' l (i0 + 1) b1 c1 b' c' ?_ hR1 h2 k2
    intro b c j a' b' c' hj
    have := hstep b c (j + 1) a' b' c' (by rw [List.getElem?_cons_succ]; exact hj)
    rwa [show i0 + (j + 1) = i0 + 1 + j by omega] at this

theorem foldIdxM_pres {α β : Type} (Q : β → Prop) (f : β → Nat → α → M β) :
    ∀ (l : List α) (i0 : Nat) (b b' : β),
    (∀ b j a b', l[j]? = some a → Q b → f b (i0 + j) a = .ok b' → Q b') →
    Q b → foldIdxM f l i0 b = .ok b' → Q b'
  | [], _, b, b', _, hQ, h => by cases h; exact hQ
  | a :: l, i0, b, b', hstep, hQ, h => by
    rw [foldIdxM_cons] at h
    obtain ⟨b1, h1, h2⟩ := M_bind_ok h
    have hQ1 := hstep b 0 a b1 rfl hQ h1
    refine foldIdxM_pres Q f l (i0 + 1) b1 b' ?_ hQ1 h2
    intro b j a' b' hj
    have := hstep b (j + 1) a' b' (by rw [List.getElem?_cons_succ]; exact hj)
    rwa [show i0 + (j + 1) = i0 + 1 + j by omega] at this

/-- the second run skips the elements failing `p`; on those the first run keeps the relation alone -/
theorem foldlM_rel_filter {α β : Type} (R : β → β → Prop) (f f' : β → α → M β) (p : α → Bool) :
    ∀ (l : List α) (b c b' c' : β),
    (∀ b c a b' c', a ∈ l → p a = true → R b c → f b a = .ok b' → f' c a = .ok c' → R b' c') →
    (∀ b c a b', a ∈ l → p a = false → R b c → f b a = .ok b' → R b' c) →
    R b c → l.foldlM f b = .ok b' → (l.filter p).foldlM f' c = .ok c' → R b' c'
  | [], b, c, b', c', _, _, hR, h, h' => by
    have e1 : b = b' := by simpa using h
    have e2 : c = c' := by simpa using h'
    subst e1; subst e2; exact hR
  | a :: l, b, c, b', c', hb, hl, hR, h, h' => by
    rw [List.foldlM_cons] at h
    obtain ⟨b1, h1, h2⟩ := M_bind_ok h
    cases hp : p a with
    | true =>
      rw [List.filter_cons_of_pos (by rw [hp]), List.foldlM_cons] at h'
      obtain ⟨c1, k1, k2⟩ := M_bind_ok h'
      exact foldlM_rel_filter R f f' p l b1 c1 b' c'
        (fun b c a' b' c' ha' => hb b c a' b' c' (List.mem_cons_of_mem _ ha'))
        (fun b c a' b' ha' => hl b c a' b' (List.mem_cons_of_mem _ ha'))
        (hb b c a b1 c1 (List.mem_cons_self ..) hp hR h1 k1) h2 k2
    | false =>
      rw [List.filter_cons_of_neg (by rw [hp]; exact Bool.false_ne_true)] at h'
      exact foldlM_rel_filter R f f' p l b1 c b' c'
        (fun b c a' b' c' ha' => hb b c a' b' c' (List.mem_cons_of_mem _ ha'))
        (fun b c a' b' ha' => hl b c a' b' (List.mem_cons_of_mem _ ha'))
        (hl b c a b1 (List.mem_cons_self ..) hp hR h1) h2 h'

-- ------------------------------------------------------------------ one transaction record

section tx
variable {w : Wid} {addrs : List Addr} {P : CredKey → Addr → Prop} {T : TxId × BlockMeta → BlkId × Nat → Prop}
  {N : TxId × BlockMeta → Prop} {G S : AMap.T Nat (BlkId × List TxId)} {gi si : Store} {c : Ctx}

/-- the ghost's credits under a recorded transaction pay the address of the transaction's output -/
def CredVal (c : Ctx) (P : CredKey → Addr → Prop) (T : TxId × BlockMeta → BlkId × Nat → Prop) (blk : BlockMeta) : Prop :=
  ∀ id loc tx, T (id, blk) loc → c.node.txByFileLoc loc = some tx →
    ∀ i sh o, P ⟨id, blk, i⟩ sh → tx.outs[i]? = some o → sh = o.addr

/-- a tx record the real store lacks (from the start): the ghost rolls the transaction back alone -/
theorem tx_g (hOwn : OwnW c w addrs) {blk : BlockMeta} (hCV : CredVal c P T blk)
    (h : WR w addrs P T N G S gi si) {gb sb : Bals} (hb : BalR w gb sb) {id : TxId}
    {r : Store × Bals × List (TxId × Nat)} (hN : N (id, blk)) (hg : rollbackTx c gi gb blk id = .ok r) :
    WR w addrs P T N G S r.1 si ∧ BalR w r.2.1 sb := by
  unfold rollbackTx at hg
  cases ht : AMap.get gi.txrecs (id, blk) with
  | none => rw [ht] at hg; cases hg; exact ⟨h, hb⟩
  | some loc =>
    rw [ht] at hg
    dsimp only at hg
    cases hl : c.node.txByFileLoc loc with
    | none => rw [hl] at hg; cases hg
    | some tx =>
      rw [hl] at hg
      dsimp only at hg
      have hP : ∀ j o, tx.outs[j]? = some o → ∀ sh, P ⟨id, blk, 0 + j⟩ sh → sh = o.addr := by
        intro j o hj sh hsh
        rw [Nat.zero_add] at hsh
        exact hCV id loc tx (h.mn.locOK _ _ ht) hl j sh o hsh hj
      have hm := h.mn.eraseTx_g (h.mn.nTx _ hN)
      by_cases hcb : tx.cb = true
      · rw [if_pos hcb] at hg
        obtain ⟨ga, h2, h3⟩ := M_bind_ok hg
        cases h3
        exact foldIdxM_pres (fun (ga : (Store × Bals) × List (TxId × Nat)) =>
            WR w addrs P T N G S ga.1.1 si ∧ BalR w ga.1.2 sb) (rollbackCbOut c id blk) tx.outs 0
          (({ gi with txrecs := AMap.erase gi.txrecs (id, blk) }, gb), []) _
          (fun b j a b' hj hQ hf => cbOut_g hOwn hQ.1 hQ.2 (hP j a hj) (hQ.1.mn.noRec ⟨id, blk, 0 + j⟩ hN).1 hf)
          ⟨⟨h.wk, hm, h.rs⟩, hb⟩ h2
      · rw [if_neg hcb] at hg
        obtain ⟨gb1, h2, h3⟩ := M_bind_ok hg
        obtain ⟨gb2, h4, h5⟩ := M_bind_ok h3
        cases h5
        have q1 := foldIdxM_pres (fun (ga : Store × Bals) => WR w addrs P T N G S ga.1 si ∧ BalR w ga.2 sb)
          (rollbackIn c id blk) tx.ins 0
          ({ gi with txrecs := AMap.erase gi.txrecs (id, blk), pending := AMap.put gi.pending id tx }, gb) _
          (fun b j a b' _ hQ hf => in_g hOwn hQ.1 hQ.2 (hQ.1.mn.noRec ⟨id, blk, 0 + j⟩ hN).2 hf)
          ⟨⟨h.wk, hm, h.rs⟩, hb⟩ h2
        exact foldIdxM_pres (fun (ga : Store × Bals) => WR w addrs P T N G S ga.1 si ∧ BalR w ga.2 sb)
          (rollbackOut c id blk) tx.outs 0 gb1 _
          (fun b j a b' hj hQ hf => out_g hOwn hQ.1 hQ.2 (hP j a hj) (hQ.1.mn.noRec ⟨id, blk, 0 + j⟩ hN).1 hf)
          q1 h4

theorem tx_both (hOwn : OwnW c w addrs) {blk : BlockMeta} (hCV : CredVal c P T blk)
    (h : WR w addrs P T N G S gi si) {gb sb : Bals} (hb : BalR w gb sb) {id : TxId}
    {r r' : Store × Bals × List (TxId × Nat)}
    (hg : rollbackTx c gi gb blk id = .ok r) (hs : rollbackTx c si sb blk id = .ok r') :
    WR w addrs P T N G S r.1 r'.1 ∧ BalR w r.2.1 r'.2.1 := by
  cases hst : AMap.get si.txrecs (id, blk) with
  | none =>
    have e : r' = (si, sb, []) := by unfold rollbackTx at hs; rw [hst] at hs; cases hs; rfl
    rw [e]
    rcases h.mn.txN _ hst with hgn | hN
    · have e' : r = (gi, gb, []) := by unfold rollbackTx at hg; rw [hgn] at hg; cases hg; rfl
      rw [e']; exact ⟨h, hb⟩
    · exact tx_g hOwn hCV h hb hN hg
  | some loc =>
    have ht : AMap.get gi.txrecs (id, blk) = some loc := by
      rcases h.mn.txS (id, blk) with e | e
      · rw [← e]; exact hst
      · rw [hst] at e; cases e
    unfold rollbackTx at hg hs
    rw [ht] at hg; rw [hst] at hs
    dsimp only at hg hs
    cases hl : c.node.txByFileLoc loc with
    | none => rw [hl] at hg; cases hg
    | some tx =>
      rw [hl] at hg hs
      dsimp only at hg hs
      have hP : ∀ j o, tx.outs[j]? = some o → ∀ sh, P ⟨id, blk, 0 + j⟩ sh → sh = o.addr := by
        intro j o hj sh hsh
        rw [Nat.zero_add] at hsh
        exact hCV id loc tx (h.mn.locOK _ _ ht) hl j sh o hsh hj
      have hm := h.mn.eraseTx_both (id, blk)
      by_cases hcb : tx.cb = true
      · rw [if_pos hcb] at hg hs
        obtain ⟨ga, h2, h3⟩ := M_bind_ok hg
        obtain ⟨sa, k2, k3⟩ := M_bind_ok hs
        cases h3; cases k3
        exact foldIdxM_rel (fun (ga sa : (Store × Bals) × List (TxId × Nat)) =>
            WR w addrs P T N G S ga.1.1 sa.1.1 ∧ BalR w ga.1.2 sa.1.2)
          (rollbackCbOut c id blk) (rollbackCbOut c id blk) tx.outs 0
          (({ gi with txrecs := AMap.erase gi.txrecs (id, blk) }, gb), [])
          (({ si with txrecs := AMap.erase si.txrecs (id, blk) }, sb), []) _ _
          (fun b c' j a b' c'' hj hQ hf hf' => cbOut_both hOwn hQ.1 hQ.2 (hP j a hj) hf hf')
          ⟨⟨h.wk, hm, h.rs⟩, hb⟩ h2 k2
      · rw [if_neg hcb] at hg hs
        obtain ⟨gb1, h2, h3⟩ := M_bind_ok hg
        obtain ⟨gb2, h4, h5⟩ := M_bind_ok h3
        obtain ⟨sb1, k2, k3⟩ := M_bind_ok hs
        obtain ⟨sb2, k4, k5⟩ := M_bind_ok k3
        cases h5; cases k5
        have q1 := foldIdxM_rel (fun (ga sa : Store × Bals) => WR w addrs P T N G S ga.1 sa.1 ∧ BalR w ga.2 sa.2)
          (rollbackIn c id blk) (rollbackIn c id blk) tx.ins 0
          ({ gi with txrecs := AMap.erase gi.txrecs (id, blk), pending := AMap.put gi.pending id tx }, gb)
          ({ si with txrecs := AMap.erase si.txrecs (id, blk), pending := AMap.put si.pending id tx }, sb) _ _
          (fun b c' j a b' c'' _ hQ hf hf' => in_both hOwn hQ.1 hQ.2 hf hf')
          ⟨⟨h.wk, hm, h.rs⟩, hb⟩ h2 k2
        exact foldIdxM_rel (fun (ga sa : Store × Bals) => WR w addrs P T N G S ga.1 sa.1 ∧ BalR w ga.2 sa.2)
          (rollbackOut c id blk) (rollbackOut c id blk) tx.outs 0 gb1 sb1 _ _
          (fun b c' j a b' c'' hj hQ hf hf' => out_both hOwn hQ.1 hQ.2 (hP j a hj) hf hf')
          q1 h4 k4

end tx

-- ------------------------------------------------------------------ one block record

section blk
variable {w : Wid} {addrs : List Addr} {P : CredKey → Addr → Prop} {T : TxId × BlockMeta → BlkId × Nat → Prop}
  {N : TxId × BlockMeta → Prop} {G S : AMap.T Nat (BlkId × List TxId)} {c : Ctx}

/-- the ghost's block record lists `txs`; the real store's lists `txs.filter p` or is gone (then `p` fails on all):
    a transaction failing `p` has no tx record in the real store -/
theorem blockAt_rel (hOwn : OwnW c w addrs) {cur : Nat} {bh : BlkId} {txs : List TxId}
    (hCV : CredVal c P T ⟨cur, bh⟩) {ga sa ga' sa' : RbAcc}
    (h : WR w addrs P T N G S ga.s sa.s) (hb : BalR w ga.bals sa.bals)
    (hG : AMap.get G cur = some (bh, txs)) (p : TxId → Bool) (hp : ∀ id, p id = false → N (id, ⟨cur, bh⟩))
    (hS : AMap.get S cur = some (bh, txs.filter p) ∨ (AMap.get S cur = none ∧ ∀ id ∈ txs, p id = false))
    (hg : rollbackBlockAt c ga cur = .ok ga') (hs : rollbackBlockAt c sa cur = .ok sa') :
    WR w addrs P T N G S ga'.s sa'.s ∧ BalR w ga'.bals sa'.bals := by
  unfold rollbackBlockAt at hg hs
  rw [h.rs.2.2.2.2.1, hG] at hg
  rw [h.rs.2.2.2.2.2] at hs
  dsimp only at hg
  rcases hS with hS | ⟨hS, hall⟩
  · rw [hS] at hs
    dsimp only at hs
    rw [← List.filter_reverse] at hs
    exact foldlM_rel_filter (fun (a a' : RbAcc) => WR w addrs P T N G S a.s a'.s ∧ BalR w a.bals a'.bals)
      (fun (a : RbAcc) id => do
        let (s', bals', rem) ← rollbackTx c a.s a.bals ⟨cur, bh⟩ id
        pure { a with s := s', bals := bals', cb := a.cb ++ rem })
      (fun (a : RbAcc) id => do
        let (s', bals', rem) ← rollbackTx c a.s a.bals ⟨cur, bh⟩ id
        pure { a with s := s', bals := bals', cb := a.cb ++ rem }) p
      txs.reverse { ga with heights := ga.heights ++ [cur] } { sa with heights := sa.heights ++ [cur] } ga' sa'
      (by
        intro a a' id b' c' _ _ hR hf hf'
        obtain ⟨r, q1, q2⟩ := M_bind_ok hf
        obtain ⟨r', k1, k2⟩ := M_bind_ok hf'
        cases q2; cases k2
        exact tx_both hOwn hCV hR.1 hR.2 q1 k1)
      (by
        intro a a' id b' _ hpid hR hf
        obtain ⟨r, q1, q2⟩ := M_bind_ok hf
        cases q2
        exact tx_g hOwn hCV hR.1 hR.2 (hp id hpid) q1)
      ⟨h, hb⟩ hg hs
  · rw [hS] at hs
    dsimp only at hs
    cases hs
    exact foldlM_preserves (fun (a : RbAcc) => WR w addrs P T N G S a.s sa.s ∧ BalR w a.bals sa.bals)
      (fun (a : RbAcc) id => do
        let (s', bals', rem) ← rollbackTx c a.s a.bals ⟨cur, bh⟩ id
        pure { a with s := s', bals := bals', cb := a.cb ++ rem }) txs.reverse
      (by
        intro a id a' hid hR hf
        obtain ⟨r, q1, q2⟩ := M_bind_ok hf
        cases q2
        exact tx_g hOwn hCV hR.1 hR.2 (hp id (hall id (List.mem_reverse.1 hid))) q1)
      (b := { ga with heights := ga.heights ++ [cur] }) ⟨h, hb⟩ hg

/-- the heights Rollback collects: the block records it met -/
theorem blockAt_heights {a a' : RbAcc} {cur : Nat} (h : rollbackBlockAt c a cur = .ok a') :
    a'.heights = a.heights ++ (if (AMap.get a.s.blocks cur).isSome then [cur] else []) := by
  unfold rollbackBlockAt at h
  cases hb : AMap.get a.s.blocks cur with
  | none => rw [hb] at h; cases h; simp
  | some r =>
    obtain ⟨bh, txs⟩ := r
    rw [hb] at h
    dsimp only at h
    have := foldlM_preserves (fun (x : RbAcc) => x.heights = a.heights ++ [cur])
      (fun (a : RbAcc) id => do
        let (s', bals', rem) ← rollbackTx c a.s a.bals ⟨cur, bh⟩ id
        pure { a with s := s', bals := bals', cb := a.cb ++ rem }) txs.reverse
      (by
        intro x id x' _ hx hf
        obtain ⟨r, _, q2⟩ := M_bind_ok hf
        cases q2
        exact hx) (b := { a with heights := a.heights ++ [cur] }) rfl h
    rw [this]; simp

end blk

-- ------------------------------------------------------------------ Rollback of the tip, disconnectBlock

/-- `BlkRel` with the static predicate `N` for "no tx record in the real store" -/
def BlkRelN (N : TxId × BlockMeta → Prop) (h : Nat) : Option (BlkId × List TxId) → Option (BlkId × List TxId) → Prop
  | none, r => r = none
  | some (bh, txs), r => ∃ p : TxId → Bool,
      (∀ id, p id = false → N (id, ⟨h, bh⟩)) ∧ (r = some (bh, txs.filter p) ∨ (r = none ∧ ∀ id ∈ txs, p id = false))

theorem blkRelN_of_blkRel {s : Store} {h : Nat} {rg r : Option (BlkId × List TxId)} (hb : BlkRel s h rg r) :
    BlkRelN (fun k => AMap.get s.txrecs k = none) h rg r := by
  cases rg with
  | none => exact hb
  | some x => obtain ⟨bh, txs⟩ := x; exact hb

theorem eraseHs_eq (hs : List Nat) (s : Store) :
    hs.foldl (fun s h => { s with blocks := AMap.erase s.blocks h }) s =
      { s with blocks := hs.foldl (fun b h => AMap.erase b h) s.blocks } := by
  induction hs generalizing s with
  | nil => rfl
  | cons a l ih => simp only [List.foldl_cons]; rw [ih]

theorem tipBlocks (B : AMap.T Nat (BlkId × List TxId)) (h h' : Nat) :
    AMap.get ((([] : List Nat) ++ (if (AMap.get B h).isSome then [h] else [])).foldl (fun b x => AMap.erase b x) B) h' =
      if h' = h then none else AMap.get B h' := by
  cases e : AMap.get B h with
  | none =>
    simp only [Option.isSome_none, Bool.false_eq_true, if_false, List.append_nil, List.foldl_nil]
    by_cases hh : h' = h
    · rw [if_pos hh, hh, e]
    · rw [if_neg hh]
  | some r =>
    simp only [Option.isSome_some, if_true, List.nil_append, List.foldl_cons, List.foldl_nil]
    rw [AMap.get_erase]
    by_cases hh : h' = h
    · rw [if_pos hh, if_pos hh.symm]
    · rw [if_neg hh, if_neg (fun e => hh e.symm)]

section rb
variable {w : Wid} {addrs : List Addr} {P : CredKey → Addr → Prop} {T : TxId × BlockMeta → BlkId × Nat → Prop}
  {N : TxId × BlockMeta → Prop} {c : Ctx}

theorem blockAt_rel2 (hOwn : OwnW c w addrs) (hCV : ∀ blk, CredVal c P T blk) {G S : AMap.T Nat (BlkId × List TxId)}
    {cur : Nat} {ga sa ga' sa' : RbAcc}
    (h : WR w addrs P T N G S ga.s sa.s) (hb : BalR w ga.bals sa.bals)
    (hblk : BlkRelN N cur (AMap.get G cur) (AMap.get S cur))
    (hg : rollbackBlockAt c ga cur = .ok ga') (hs : rollbackBlockAt c sa cur = .ok sa') :
    WR w addrs P T N G S ga'.s sa'.s ∧ BalR w ga'.bals sa'.bals := by
  cases hG : AMap.get G cur with
  | none =>
    rw [hG] at hblk
    have hS : AMap.get S cur = none := hblk
    unfold rollbackBlockAt at hg hs
    rw [h.rs.2.2.2.2.1, hG] at hg
    rw [h.rs.2.2.2.2.2, hS] at hs
    cases hg; cases hs
    exact ⟨h, hb⟩
  | some r =>
    obtain ⟨bh, txs⟩ := r
    rw [hG] at hblk
    obtain ⟨p, hp, hS⟩ := hblk
    exact blockAt_rel hOwn (hCV _) h hb hG p hp hS hg hs

/-- Rollback of the tip block on both stores -/
theorem rollback_rel (hOwn : OwnW c w addrs) (hCV : ∀ blk, CredVal c P T blk) {g s g1 s1 : Store} {h : Nat}
    (h0 : WR w addrs P T N g.blocks s.blocks g s) (hh : g.syncedTo = h)
    (hblk : BlkRelN N h (AMap.get g.blocks h) (AMap.get s.blocks h))
    (hg : rollback c g h = .ok g1) (hs : rollback c s h = .ok s1) :
    WK w g1 s1 ∧ MN addrs P T N g1 s1 ∧ s1.sync = g1.sync ∧ s1.syncedTo = g1.syncedTo ∧ s1.status = g1.status ∧
      EqOff (fun w' : Wid => w' ≠ w) s1.balance g1.balance ∧
      (∀ h', AMap.get g1.blocks h' = if h' = h then none else AMap.get g.blocks h') ∧
      (∀ h', AMap.get s1.blocks h' = if h' = h then none else AMap.get s.blocks h') := by
  unfold rollback at hg hs
  rw [hh, tip_heights] at hg
  rw [h0.rs.2.1, hh, tip_heights] at hs
  obtain ⟨ga, h1, h2⟩ := M_bind_ok hg
  obtain ⟨sa, k1, k2⟩ := M_bind_ok hs
  rw [List.foldlM_cons] at h1 k1
  obtain ⟨ga', h1a, h1b⟩ := M_bind_ok h1
  obtain ⟨sa', k1a, k1b⟩ := M_bind_ok k1
  cases h1b; cases k1b
  obtain ⟨hR, hB⟩ := blockAt_rel2 hOwn hCV (ga := { s := g, bals := g.balance }) (sa := { s := s, bals := s.balance })
    h0 h0.rs.2.2.2.1 hblk h1a k1a
  have hhg := blockAt_heights h1a
  have hhs := blockAt_heights k1a
  have ebg : ga.s.blocks = g.blocks := hR.rs.2.2.2.2.1
  have ebs : sa.s.blocks = s.blocks := hR.rs.2.2.2.2.2
  cases h2; cases k2
  simp only [eraseHs_eq]
  have hmg := minedEq_foldl (purgeSpenders c.own) ga.cb
    { ga.s with blocks := ga.heights.foldl (fun b h => AMap.erase b h) ga.s.blocks }
    (fun s op _ => minedEq_purgeSpenders c.own s op)
  have hms := minedEq_foldl (purgeSpenders c.own) sa.cb
    { sa.s with blocks := sa.heights.foldl (fun b h => AMap.erase b h) sa.s.blocks }
    (fun s op _ => minedEq_purgeSpenders c.own s op)
  refine ⟨?_, ?_, ?_, ?_, ?_, ?_, ?_, ?_⟩
  · unfold WK
    dsimp only
    rw [hmg.unspent, hms.unspent, hmg.game, hms.game, hmg.addrs, hms.addrs]
    exact hR.wk
  · unfold MN
    dsimp only
    rw [hmg.credits, hms.credits, hmg.debits, hms.debits, hmg.txrecs, hms.txrecs]
    exact hR.mn
  · rw [hmg.sync, hms.sync]; exact hR.rs.1
  · rw [hmg.syncedTo, hms.syncedTo]; exact hR.rs.2.1
  · rw [hmg.status, hms.status]; exact hR.rs.2.2.1
  · intro w' hw
    rw [get_mergeBalances, get_mergeBalances, hB w' hw, hmg.balance, hms.balance]
    dsimp only
    rw [hR.rs.2.2.2.1 w' hw]
  · intro h'
    rw [hmg.blocks]
    dsimp only
    rw [hhg, ebg]
    exact tipBlocks g.blocks h h'
  · intro h'
    rw [hms.blocks]
    dsimp only
    rw [hhs, ebs]
    exact tipBlocks s.blocks h h'

end rb

-- ------------------------------------------------------------------ disconnectBlock: SubW in, SubW out

open MW.Lemmas.RemoveKeep in
/-- ghost-side facts a rollback below the floor uses: a credit pays the address of the output it records -/
def GhostCV (c : Ctx) (g : Store) : Prop :=
  ∀ id blk i cr loc tx o, AMap.get g.credits ⟨id, blk, i⟩ = some cr → AMap.get g.txrecs (id, blk) = some loc →
    c.node.txByFileLoc loc = some tx → tx.outs[i]? = some o → cr.sh = o.addr

open MW.Lemmas.RemoveKeep in
/-- **ONE DISCONNECTED BLOCK, relaxed relation, no `NewEq`.**  `g` follows the chain up to height `h` (its tip), `s` is
    `g` minus records of `w` (`SubW`), every credit / debit left in `s` has its tx record (`Reach`: the D45 repair keeps
    it, `MW.Lemmas.RemoveKeep.removeStep_reach`).  If `disconnectBlock` succeeds on both stores, the results are related
    again; and `Reach` of the new real store follows from `Reach` of the new ghost. -/
theorem disconnectBlock_rel {c : Ctx} {w : Wid} {addrs : List Addr} {g s g' s' : Store} {h : Nat}
    (hOwn : OwnW c w addrs) (hSub : SubW w addrs g s) (hR : Reach s) (hCV : GhostCV c g) (hh : g.syncedTo = h)
    (hg : disconnectBlock c g h = .ok g') (hs : disconnectBlock c s h = .ok s') :
    SubW w addrs g' s' ∧ (Reach g' → Reach s') := by
  unfold disconnectBlock at hg hs
  by_cases h0 : h = 0
  · rw [if_pos h0] at hg; cases hg
  rw [if_neg h0] at hg hs
  have hlt : ¬ h > g.syncedTo := by rw [hh]; exact Nat.lt_irrefl h
  rw [if_neg hlt] at hg
  rw [hSub.syncedTo, if_neg hlt] at hs
  obtain ⟨g1, h1, h2⟩ := M_bind_ok hg
  obtain ⟨s1, k1, k2⟩ := M_bind_ok hs
  cases h2; cases k2
  have hreal : ∀ ck : CredKey, AMap.get s.txrecs (ck.tx, ck.blk) = none →
      AMap.get s.credits ck = none ∧ AMap.get s.debits ck = none := by
    intro ck hn
    constructor
    · cases e : AMap.get s.credits ck with
      | none => rfl
      | some cr => have := hR.credits ck cr e; rw [hn] at this; cases this
    · cases e : AMap.get s.debits ck with
      | none => rfl
      | some d => have := hR.debits ck d e; rw [hn] at this; cases this
  have h0' : WR w addrs (fun k sh => ∃ cr, AMap.get g.credits k = some cr ∧ cr.sh = sh)
      (fun k loc => AMap.get g.txrecs k = some loc) (fun k => AMap.get s.txrecs k = none) g.blocks s.blocks g s :=
    ⟨⟨hSub.unspent, hSub.game, hSub.adr⟩,
      ⟨hSub.credits, fun k cr hc => ⟨cr, hc, rfl⟩, hSub.debits, hSub.debGone, hSub.txrecs, fun _ _ hl => hl,
        fun _ hn => Or.inr hn, fun _ hN => hN, hreal⟩,
      ⟨hSub.sync, hSub.syncedTo, hSub.status, hSub.balance, rfl, rfl⟩⟩
  have hCV' : ∀ blk, CredVal c (fun k sh => ∃ cr, AMap.get g.credits k = some cr ∧ cr.sh = sh)
      (fun k loc => AMap.get g.txrecs k = some loc) blk := by
    intro blk id loc tx hT hl i sh o hP ho
    obtain ⟨cr, hc, hsh⟩ := hP
    rw [← hsh]
    exact hCV id blk i cr loc tx o hc hT hl ho
  obtain ⟨q1, q2, q3, q4, q5, q6, q7, q8⟩ := rollback_rel hOwn hCV' h0' hh (blkRelN_of_blkRel (hSub.blocks h)) h1 k1
  have hsub' : SubW w addrs
      { resetSyncedTo g1 (h - 1) with status := (resetSyncedTo g1 (h - 1)).status.map (fun e =>
          match e.2.synced with
          | some h' => if h' > h - 1 then (e.1, { e.2 with synced := some (h - 1) }) else e
          | none => e) }
      { resetSyncedTo s1 (h - 1) with status := (resetSyncedTo s1 (h - 1)).status.map (fun e =>
          match e.2.synced with
          | some h' => if h' > h - 1 then (e.1, { e.2 with synced := some (h - 1) }) else e
          | none => e) } := by
    refine ⟨q1.unspent, q1.game, q1.adr, q6, ?_, ?_, ?_, q2.cred, q2.deb, q2.debGone, q2.txS, ?_⟩
    · show (resetSyncedTo s1 (h - 1)).sync = (resetSyncedTo g1 (h - 1)).sync
      unfold resetSyncedTo; dsimp only; rw [q3, q4]
    · show (resetSyncedTo s1 (h - 1)).syncedTo = (resetSyncedTo g1 (h - 1)).syncedTo
      unfold resetSyncedTo; dsimp only; rw [q4]
    · show List.map _ s1.status = List.map _ g1.status
      rw [q5]
    · intro h'
      show BlkRel _ h' (AMap.get g1.blocks h') (AMap.get s1.blocks h')
      rw [q7, q8]
      by_cases e : h' = h
      · rw [if_pos e, if_pos e]; rfl
      · rw [if_neg e, if_neg e]
        have hb := hSub.blocks h'
        cases hgb : AMap.get g.blocks h' with
        | none => rw [hgb] at hb; exact hb
        | some r =>
          obtain ⟨bh, txs⟩ := r
          rw [hgb] at hb
          obtain ⟨p, hp, hv⟩ := hb
          exact ⟨p, fun id hid => q2.nTx _ (hp id hid), hv⟩
  refine ⟨hsub', ?_⟩
  intro hRg
  have key : ∀ k : TxId × BlockMeta, AMap.get s1.txrecs k = none → AMap.get g1.txrecs k = none ∨
      AMap.get s.txrecs k = none := q2.txN
  constructor
  · intro ck cr hc
    show (AMap.get s1.txrecs (ck.tx, ck.blk)).isSome = true
    cases e : AMap.get s1.txrecs (ck.tx, ck.blk) with
    | some _ => rfl
    | none =>
      exfalso
      have hc' : AMap.get s1.credits ck = some cr := hc
      rcases key _ e with e1 | e1
      · have hgc : AMap.get g1.credits ck = some cr := by
          rcases q2.cred ck with e2 | ⟨e2, _⟩
          · rw [← e2]; exact hc'
          · rw [hc'] at e2; cases e2
        have this : (AMap.get g1.txrecs (ck.tx, ck.blk)).isSome = true := hRg.credits ck cr hgc
        rw [e1] at this
        cases this
      · rw [(q2.noRec ck e1).1] at hc'; cases hc'
  · intro dk d hd
    show (AMap.get s1.txrecs (dk.tx, dk.blk)).isSome = true
    cases e : AMap.get s1.txrecs (dk.tx, dk.blk) with
    | some _ => rfl
    | none =>
      exfalso
      have hd' : AMap.get s1.debits dk = some d := hd
      rcases key _ e with e1 | e1
      · have hgd : AMap.get g1.debits dk = some d := by
          rcases q2.deb dk with e2 | e2
          · rw [← e2]; exact hd'
          · rw [hd'] at e2; cases e2
        have this : (AMap.get g1.txrecs (dk.tx, dk.blk)).isSome = true := hRg.debits dk d hgd
        rw [e1] at this
        cases this
      · rw [(q2.noRec dk e1).2] at hd'; cases hd'

end MW.Lemmas.RemoveSimW
