/-
  C08, reorganisations BELOW the floor between two removal steps — ONE disconnected block under the relaxed relation
  `SubW` (no `NewEq`: the real store may lack credits / debits / tx records of the removed wallet `w` under the block,
  its block record may be trimmed or gone).

  Shape of the result (`disconnectBlock_rel`): if `disconnectBlock` succeeds on the ghost store AND on the real store
  (in `irun … = some x` every notification succeeded on the real store; the ghost succeeds by its own invariant), the
  results are again related by `SubW`.  Rollback skips on the real store what a removal step deleted; what the ghost
  does alone touches only entries keyed by `w` (the owner of every credit the real store lacks), which `SubW` leaves free.
  Whether Rollback can FAIL on the real store on stale entries of `w` ("balance underflow", "unwithdraw game not found")
  is not decided here.
-/
import MW.Lemmas.RemoveSimWDefs
namespace MW.Lemmas.RemoveSimW
open MW MW.Model.Ledger MW.Model.Remove MW.Lemmas.Ledger MW.Lemmas.LedgerWFCred MW.Lemmas.RemoveSim

-- ------------------------------------------------------------------ one bucket, equal off a set of keys

section tab
variable {K V : Type} [DecidableEq K]

/-- the two maps agree on the keys satisfying `nw` -/
def EqOff (nw : K → Prop) (a b : AMap.T K V) : Prop := ∀ k, nw k → AMap.get a k = AMap.get b k

variable {nw : K → Prop} {a b : AMap.T K V}

theorem EqOff.erase_both (h : EqOff nw a b) (k0 : K) : EqOff nw (AMap.erase a k0) (AMap.erase b k0) := by
  intro k hk; rw [AMap.get_erase, AMap.get_erase, h k hk]

theorem EqOff.put_both (h : EqOff nw a b) (k0 : K) (v : V) : EqOff nw (AMap.put a k0 v) (AMap.put b k0 v) := by
  intro k hk; rw [AMap.get_put, AMap.get_put, h k hk]

theorem EqOff.erase_l (h : EqOff nw a b) {k0 : K} (hk0 : ¬ nw k0) : EqOff nw (AMap.erase a k0) b := by
  intro k hk; rw [AMap.get_erase, if_neg (fun (e : k0 = k) => hk0 (by rw [e]; exact hk))]; exact h k hk

theorem EqOff.erase_r (h : EqOff nw a b) {k0 : K} (hk0 : ¬ nw k0) : EqOff nw a (AMap.erase b k0) := by
  intro k hk; rw [AMap.get_erase, if_neg (fun (e : k0 = k) => hk0 (by rw [e]; exact hk))]; exact h k hk

theorem EqOff.put_l (h : EqOff nw a b) {k0 : K} (hk0 : ¬ nw k0) (v : V) : EqOff nw (AMap.put a k0 v) b := by
  intro k hk; rw [AMap.get_put, if_neg (fun (e : k0 = k) => hk0 (by rw [e]; exact hk))]; exact h k hk

theorem EqOff.put_r (h : EqOff nw a b) {k0 : K} (hk0 : ¬ nw k0) (v : V) : EqOff nw a (AMap.put b k0 v) := by
  intro k hk; rw [AMap.get_put, if_neg (fun (e : k0 = k) => hk0 (by rw [e]; exact hk))]; exact h k hk

theorem get_erase_none {m : AMap.T K V} {k' : K} (h : AMap.get m k' = none) (k : K) :
    AMap.get (AMap.erase m k) k' = none := by
  rw [AMap.get_erase]; split
  · rfl
  · exact h

theorem get_put_none {m : AMap.T K V} {k k' : K} {c : V} (hk : AMap.get m k = some c) (h : AMap.get m k' = none) (v : V) :
    AMap.get (AMap.put m k v) k' = none := by
  rw [AMap.get_put]
  by_cases e : k = k'
  · rw [e, h] at hk; cases hk
  · rw [if_neg e]; exact h

end tab

-- ------------------------------------------------------------------ the working relation

/-- credits / debits / tx records of ghost (`g…`) and real store (`s…`) while a block is rolled back.  Static parameters:
    `P k sh` "the ghost's credit under `k` pays `sh`" (at the start), `T k loc` "the ghost's tx record" (at the start),
    `N k` "the real store had no tx record `k`" (at the start) -/
structure MNt (addrs : List Addr) (P : CredKey → Addr → Prop) (T : TxId × BlockMeta → BlkId × Nat → Prop)
    (N : TxId × BlockMeta → Prop)
    (gc sc : AMap.T CredKey Credit) (gd sd : AMap.T CredKey (Nat × CredKey))
    (gt st : AMap.T (TxId × BlockMeta) (BlkId × Nat)) : Prop where
  cred : ∀ k, AMap.get sc k = AMap.get gc k ∨
    (AMap.get sc k = none ∧ ∃ cr, AMap.get gc k = some cr ∧ addrs.contains cr.sh = true)
  shOK : ∀ k cr, AMap.get gc k = some cr → P k cr.sh
  deb : SubT gd sd
  debGone : ∀ dk d, AMap.get gd dk = some d → AMap.get sd dk = none → AMap.get sc d.2 = none
  txS : SubT gt st
  locOK : ∀ k loc, AMap.get gt k = some loc → T k loc
  txN : ∀ k, AMap.get st k = none → AMap.get gt k = none ∨ N k
  nTx : ∀ k, N k → AMap.get st k = none
  noRec : ∀ ck : CredKey, N (ck.tx, ck.blk) → AMap.get sc ck = none ∧ AMap.get sd ck = none

section mnt
variable {addrs : List Addr} {P : CredKey → Addr → Prop} {T : TxId × BlockMeta → BlkId × Nat → Prop}
  {N : TxId × BlockMeta → Prop}
  {gc sc : AMap.T CredKey Credit} {gd sd : AMap.T CredKey (Nat × CredKey)}
  {gt st : AMap.T (TxId × BlockMeta) (BlkId × Nat)}

theorem MNt.eraseCred_both (h : MNt addrs P T N gc sc gd sd gt st) (k : CredKey) :
    MNt addrs P T N (AMap.erase gc k) (AMap.erase sc k) gd sd gt st := by
  refine ⟨?_, ?_, h.deb, ?_, h.txS, h.locOK, h.txN, h.nTx, ?_⟩
  · intro k'
    rw [AMap.get_erase, AMap.get_erase]
    by_cases e : k = k'
    · rw [if_pos e, if_pos e]; exact Or.inl rfl
    · rw [if_neg e, if_neg e]; exact h.cred k'
  · intro k' cr hc
    rw [AMap.get_erase] at hc
    by_cases e : k = k'
    · rw [if_pos e] at hc; cases hc
    · rw [if_neg e] at hc; exact h.shOK k' cr hc
  · intro dk d h1 h2
    exact get_erase_none (h.debGone dk d h1 h2) k
  · intro ck hN
    exact ⟨get_erase_none (h.noRec ck hN).1 k, (h.noRec ck hN).2⟩

theorem MNt.eraseCred_g (h : MNt addrs P T N gc sc gd sd gt st) {k : CredKey} (hs : AMap.get sc k = none) :
    MNt addrs P T N (AMap.erase gc k) sc gd sd gt st := by
  refine ⟨?_, ?_, h.deb, h.debGone, h.txS, h.locOK, h.txN, h.nTx, h.noRec⟩
  · intro k'
    rw [AMap.get_erase]
    by_cases e : k = k'
    · rw [if_pos e, ← e, hs]; exact Or.inl rfl
    · rw [if_neg e]; exact h.cred k'
  · intro k' cr hc
    rw [AMap.get_erase] at hc
    by_cases e : k = k'
    · rw [if_pos e] at hc; cases hc
    · rw [if_neg e] at hc; exact h.shOK k' cr hc

theorem MNt.putCred_both (h : MNt addrs P T N gc sc gd sd gt st) {k : CredKey} {v c : Credit}
    (hg : AMap.get gc k = some c) (hs : AMap.get sc k = some c) (hsh : v.sh = c.sh) :
    MNt addrs P T N (AMap.put gc k v) (AMap.put sc k v) gd sd gt st := by
  refine ⟨?_, ?_, h.deb, ?_, h.txS, h.locOK, h.txN, h.nTx, ?_⟩
  · intro k'
    rw [AMap.get_put, AMap.get_put]
    by_cases e : k = k'
    · rw [if_pos e, if_pos e]; exact Or.inl rfl
    · rw [if_neg e, if_neg e]; exact h.cred k'
  · intro k' cr hc
    rw [AMap.get_put] at hc
    by_cases e : k = k'
    · rw [if_pos e] at hc; cases hc; rw [← e, hsh]; exact h.shOK k c hg
    · rw [if_neg e] at hc; exact h.shOK k' cr hc
  · intro dk d h1 h2
    exact get_put_none hs (h.debGone dk d h1 h2) v
  · intro ck hN
    exact ⟨get_put_none hs (h.noRec ck hN).1 v, (h.noRec ck hN).2⟩

theorem MNt.putCred_g (h : MNt addrs P T N gc sc gd sd gt st) {k : CredKey} {v c : Credit}
    (hg : AMap.get gc k = some c) (hs : AMap.get sc k = none) (hsh : v.sh = c.sh)
    (hc : addrs.contains c.sh = true) :
    MNt addrs P T N (AMap.put gc k v) sc gd sd gt st := by
  refine ⟨?_, ?_, h.deb, h.debGone, h.txS, h.locOK, h.txN, h.nTx, h.noRec⟩
  · intro k'
    rw [AMap.get_put]
    by_cases e : k = k'
    · rw [if_pos e, ← e]; exact Or.inr ⟨hs, v, rfl, by rw [hsh]; exact hc⟩
    · rw [if_neg e]; exact h.cred k'
  · intro k' cr hc'
    rw [AMap.get_put] at hc'
    by_cases e : k = k'
    · rw [if_pos e] at hc'; cases hc'; rw [← e, hsh]; exact h.shOK k c hg
    · rw [if_neg e] at hc'; exact h.shOK k' cr hc'

theorem MNt.eraseDeb_both (h : MNt addrs P T N gc sc gd sd gt st) (dk : CredKey) :
    MNt addrs P T N gc sc (AMap.erase gd dk) (AMap.erase sd dk) gt st := by
  refine ⟨h.cred, h.shOK, h.deb.erase dk, ?_, h.txS, h.locOK, h.txN, h.nTx, ?_⟩
  · intro dk' d h1 h2
    rw [AMap.get_erase] at h1 h2
    by_cases e : dk = dk'
    · rw [if_pos e] at h1; cases h1
    · rw [if_neg e] at h1 h2; exact h.debGone dk' d h1 h2
  · intro ck hN
    exact ⟨(h.noRec ck hN).1, get_erase_none (h.noRec ck hN).2 dk⟩

theorem MNt.eraseDeb_g (h : MNt addrs P T N gc sc gd sd gt st) {dk : CredKey} (hs : AMap.get sd dk = none) :
    MNt addrs P T N gc sc (AMap.erase gd dk) sd gt st := by
  refine ⟨h.cred, h.shOK, ?_, ?_, h.txS, h.locOK, h.txN, h.nTx, h.noRec⟩
  · intro k'
    rw [AMap.get_erase]
    by_cases e : dk = k'
    · rw [← e]; exact Or.inr hs
    · rw [if_neg e]; exact h.deb k'
  · intro dk' d h1 h2
    rw [AMap.get_erase] at h1
    by_cases e : dk = dk'
    · rw [if_pos e] at h1; cases h1
    · rw [if_neg e] at h1; exact h.debGone dk' d h1 h2

theorem MNt.eraseTx_both (h : MNt addrs P T N gc sc gd sd gt st) (k : TxId × BlockMeta) :
    MNt addrs P T N gc sc gd sd (AMap.erase gt k) (AMap.erase st k) := by
  refine ⟨h.cred, h.shOK, h.deb, h.debGone, h.txS.erase k, ?_, ?_, ?_, h.noRec⟩
  · intro k' loc hl
    rw [AMap.get_erase] at hl
    by_cases e : k = k'
    · rw [if_pos e] at hl; cases hl
    · rw [if_neg e] at hl; exact h.locOK k' loc hl
  · intro k' hn
    rw [AMap.get_erase] at hn ⊢
    by_cases e : k = k'
    · rw [if_pos e]; exact Or.inl rfl
    · rw [if_neg e] at hn ⊢; exact h.txN k' hn
  · intro k' hN
    exact get_erase_none (h.nTx k' hN) k

theorem MNt.eraseTx_g (h : MNt addrs P T N gc sc gd sd gt st) {k : TxId × BlockMeta} (hs : AMap.get st k = none) :
    MNt addrs P T N gc sc gd sd (AMap.erase gt k) st := by
  refine ⟨h.cred, h.shOK, h.deb, h.debGone, ?_, ?_, ?_, h.nTx, h.noRec⟩
  · intro k'
    rw [AMap.get_erase]
    by_cases e : k = k'
    · rw [← e]; exact Or.inr hs
    · rw [if_neg e]; exact h.txS k'
  · intro k' loc hl
    rw [AMap.get_erase] at hl
    by_cases e : k = k'
    · rw [if_pos e] at hl; cases hl
    · rw [if_neg e] at hl; exact h.locOK k' loc hl
  · intro k' hn
    rw [AMap.get_erase]
    by_cases e : k = k'
    · rw [if_pos e]; exact Or.inl rfl
    · rw [if_neg e]; exact h.txN k' hn

end mnt

end MW.Lemmas.RemoveSimW
