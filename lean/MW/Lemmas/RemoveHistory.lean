/-
  C08, `remove ⊨ project`, part 7 — removal followed by ANY history: C01's history theorems, applied to the
  environment without the removed keystore and the store the finishing step leaves.
-/
import MW.Lemmas.RemoveMain
import MW.Lemmas.LedgerWF2
namespace MW.Lemmas.RemoveHistory
open MW MW.Model.Ledger MW.Model.Remove MW.Spec.Chain MW.Spec.Books MW.Lemmas.Ledger MW.Lemmas.RemoveProj
  MW.Lemmas.RemoveInv MW.Lemmas.RemoveMain

/-- the environment without the removed keystore (same parameters, wallet list, block files) -/
def envMinus (e : Env) (own' : Own) : Env := { e with own := own' }

/-- the spec ledger for the keystore view without `w` is the spec ledger without `w`'s coins -/
theorem ledgerOf_minus {own own' : Own} {w : Wid} (hO : OwnMinus own own' w) (chain : List Block) :
    ledgerOf own' chain = (ledgerOf own chain).filter (fun x => decide (x.wallet ≠ w)) := by
  have p : Params := default
  rw [← bookOf_L p own' chain, ← bookOf_L p own chain]
  have : (bookOf p own' chain).L = (bookOf p own chain).L.filter (keepU w) := fold_L_minus hO p _ {} {} rfl
  rw [this, List.filter_map]
  rfl

/-- the unspent index keeps pairwise distinct keys through a finishing removal step -/
theorem finish_unspent_nodup {limit : Nat} {c : Ctx} {w : Wid} {addrs : List Addr} {s : Store} {o : StepOut}
    (hne : addrs ≠ []) (h : removeStep limit c w addrs s = some o) (hf : o.finish = true)
    (hn : KeysNodup s.unspent) : KeysNodup o.s.unspent := by
  obtain ⟨o1, hr, _, hos⟩ := removeStep_finish h hf
  have hu : o1.s.unspent = s.unspent := by
    have := (MW.Lemmas.RemoveStep.removeRelevantTx_spec limit c s addrs o1 hne hr).ids
    simp only [MW.Lemmas.RemoveStep.core, Prod.mk.injEq] at this
    exact this.1
  have e5 : o.s.unspent = o1.s.unspent.filter (fun e => e.1.1 != w) := by rw [hos]; rfl
  rw [e5, hu]
  unfold KeysNodup at *
  exact List.Nodup.sublist (List.Sublist.map _ List.filter_sublist) hn

section
variable {e : Env} {G : Block} {chain : List Block} {w : Wid} {addrs : List Addr} {own' : Own}

/-- **remove_then_history_correct.** The wallet holds the books of `chain`; wallet `w` is removed (finishing step);
    then ANY history of node events (extend, reorganise to any branch) and handler steps runs, in the environment
    without `w`'s keystore. Whenever no notification is pending, the wallet holds exactly the books of the node's
    best chain for the remaining keystores, and the follower's tip is the node's tip. -/
theorem remove_then_history_correct (limit : Nat) (H : RemHyp (e.ctx chain) w addrs own' chain)
    {s : Store} (hI : Inv (e.ctx chain) s chain) (hn : KeysNodup s.credits)
    (hp : ∀ x ∈ s.pendCred, x.1.1 ∉ idsOf (occs chain))
    {o : StepOut} (h : removeStep limit (e.ctx chain) w addrs s = some o) (hf : o.finish = true)
    (v : Vol) (hv : v.best = tipMeta chain) (evs : List Ev)
    (HR : RunHyp (envMinus e own') G { chain := chain, queue := [], s := o.s, v := v } evs) :
    (runW (envMinus e own') { chain := chain, queue := [], s := o.s, v := v } evs).queue = [] →
      Inv ((envMinus e own').ctx (runW (envMinus e own') { chain := chain, queue := [], s := o.s, v := v } evs).chain)
          (runW (envMinus e own') { chain := chain, queue := [], s := o.s, v := v } evs).s
          (runW (envMinus e own') { chain := chain, queue := [], s := o.s, v := v } evs).chain ∧
        (runW (envMinus e own') { chain := chain, queue := [], s := o.s, v := v } evs).v.best =
          tipMeta (runW (envMinus e own') { chain := chain, queue := [], s := o.s, v := v } evs).chain :=
  ledger_correct (envMinus e own') G _ evs HR
    (remove_projects limit H hI hn hp e.wallets (fun _ hx => hx) h hf) hv rfl

/-- … and what the survivors observe: for every remaining ready wallet `w'`, the reported unspent outputs are — as a
    multiset — the outputs the node's best chain pays to `w'` and has not spent (the spec ledger `ledgerOf` for the
    ORIGINAL keystore view, minus the removed wallet's coins), and WalletBalance is the spec's -/
theorem remove_then_history_observed (limit : Nat) (H : RemHyp (e.ctx chain) w addrs own' chain)
    {s : Store} (hI : Inv (e.ctx chain) s chain) (hn : KeysNodup s.credits) (hnu : KeysNodup s.unspent)
    (hp : ∀ x ∈ s.pendCred, x.1.1 ∉ idsOf (occs chain))
    {o : StepOut} (h : removeStep limit (e.ctx chain) w addrs s = some o) (hf : o.finish = true)
    (v : Vol) (hv : v.best = tipMeta chain) (evs : List Ev)
    (HR : RunHyp (envMinus e own') G { chain := chain, queue := [], s := o.s, v := v } evs)
    (hq : (runW (envMinus e own') { chain := chain, queue := [], s := o.s, v := v } evs).queue = [])
    (hlen : (runW (envMinus e own') { chain := chain, queue := [], s := o.s, v := v } evs).chain.length < 2^32)
    (hcb : e.p.cbMaturity < 2^32)
    (hstk : ∀ x ∈ ledgerOf own' (runW (envMinus e own') { chain := chain, queue := [], s := o.s, v := v } evs).chain,
      ∀ f, x.cls = .stk f → f + 1 < 2^32)
    (w' : Wid) (hw' : (readyWallets o.s e.wallets).contains w' = true) (mc : Nat) :
    ((coinsOf (runW (envMinus e own') { chain := chain, queue := [], s := o.s, v := v } evs).s w').map
        (obsM (runW (envMinus e own') { chain := chain, queue := [], s := o.s, v := v } evs).s.syncedTo)).Perm
      ((utxosOf own' (runW (envMinus e own') { chain := chain, queue := [], s := o.s, v := v } evs).chain w').map
        (obsS e.p ((runW (envMinus e own') { chain := chain, queue := [], s := o.s, v := v } evs).chain.length - 1))) ∧
    walletBalance (runW (envMinus e own') { chain := chain, queue := [], s := o.s, v := v } evs).s w' mc =
      some (Spec.Chain.balance e.p own' (runW (envMinus e own') { chain := chain, queue := [], s := o.s, v := v } evs).chain w' mc) ∧
    ledgerOf own' (runW (envMinus e own') { chain := chain, queue := [], s := o.s, v := v } evs).chain =
      (ledgerOf e.own (runW (envMinus e own') { chain := chain, queue := [], s := o.s, v := v } evs).chain).filter
        (fun x => decide (x.wallet ≠ w)) := by
  have := ledger_observed_wf (envMinus e own') G _ evs HR
    (remove_projects limit H hI hn hp e.wallets (fun _ hx => hx) h hf) hv rfl hq
    (finish_unspent_nodup H.ne h hf hnu) hlen hcb hstk w' hw' mc
  exact ⟨this.1, this.2, ledgerOf_minus H.minus _⟩

end
end MW.Lemmas.RemoveHistory
