/-
  C08, interleaved removal — non-vacuity of `remove_after_follower_projects` on the wallets of
  `MW.Lemmas.RemoveMidCex` (W1 survives, W2 is removed with step size 1; store `stF` follows chain A = G – B1 – B2 with W2
  flagged).
    1. the history of `RemoveMidCex` REORDERED so that it is inside the domain `DomA`: the reorganisation to chain B
       first, then the removal.  (The rollback down to G has already erased every credit of W2: the FIRST removal step
       is the finishing one — `[.notify nodeB b2', .rem, .rem]` does not run, `evsB_no_third`.)
    2. a reorganisation that forks at height 1 (chain C = G – B1 – B2c, B2c pays A2 and A1; the spend X3 of B2 is rolled
       back, both coins of W2 in B1 are unspent again), then: removal step · unconfirmed transaction · restart ·
       finishing removal step.
  Every hypothesis holds, hence C01's invariant for W1 alone on the new chain.
-/
import MW.Lemmas.RemoveInterleave2
import MW.Lemmas.RemoveMidCex
namespace MW.Lemmas.RemoveInterleave2Ex
open MW MW.Model.Ledger MW.Model.Remove MW.Spec.Chain MW.Spec.Books MW.Lemmas.Ledger MW.Lemmas.RemoveProj
  MW.Lemmas.RemoveInv MW.Lemmas.RemoveMain MW.Lemmas.RemoveInterleave MW.Lemmas.RemoveMidCex MW.Lemmas.RemoveGlue

theorem static : Static ctx "W2" ["A2"] own' :=
  ⟨remHyp.minus, managed, by decide, own_nodup⟩

theorem phase1_x0 : Phase1 ctx "W2" g x0 :=
  phase1_of_inv own_nodup remHyp goodA rfl rfl rfl rfl inv_stF stF_nodup stF_flagged others_ready (by decide)
    (by show (readyWallets stF ["W1", "W2"]).isEmpty = false; rw [readyF]; rfl)

theorem knownA : ∀ x ∈ chainA, AMap.get known x.id = some x := remHyp.known

theorem only_w1 : ∀ y ∈ (["W1"] : List Wid), y ∈ ctx.wallets := by
  intro y hy; simp at hy; subst hy; decide

-- ------------------------------------------------------------------ 1. reorganisation to chain B, then the removal

/-- reorganisation to chain B · removal step -/
def evsB : List IEv := [.notify nodeB b2', .rem]

theorem injAB : IdInj (chainA ++ chainB) :=
  idInj_of_known (known := known) (fun x hx => by
    rcases List.mem_append.1 hx with h | h
    · exact knownA x h
    · exact nodeB_ok.known x h)

theorem runB : (irun 1 ctx "W2" ["A2"] x0 evsB).map (fun x => (x.fin, x.v.best.hash, x.s.syncedTo)) =
    some (true, "B2'", 2) := by decide

/-- after the reorganisation nothing of W2 is left: the first step finishes, there is no second one -/
theorem evsB_no_third : irun 1 ctx "W2" ["A2"] x0 (evsB ++ [.rem]) = none := by decide

theorem pendB : (irun 1 ctx "W2" ["A2"] x0 [.notify nodeB b2']).map (fun x => pendOKb ["A2"] x.s x.node.chain) =
    some true := by decide

theorem domB : DomA 1 ctx "W2" ["A2"] g false x0 evsB := by
  refine ⟨⟨rfl, nodeB_ok, injAB, fun h => by cases h⟩, ?_⟩
  intro x1 h1
  have hp1 := pendB
  simp only [irun, h1, Option.map_some, Option.some.injEq] at hp1
  exact ⟨pendOK_of_check hp1, fun _ _ => trivial⟩

/-- **the reordered history ends in C01's invariant for W1 alone on chain B** -/
example (x : ISt) (h : irun 1 ctx "W2" ["A2"] x0 evsB = some x) :
    x.node = nodeB ∧ Inv { ctx with own := own', wallets := ["W1"], node := x.node } x.s x.node.chain := by
  have hr := runB
  rw [h] at hr
  simp only [Option.map_some, Option.some.injEq, Prod.mk.injEq] at hr
  exact ⟨irun_node evsB x0 x h, remove_after_follower_projects phase1_x0 static domB h hr.1 only_w1⟩

-- ------------------------------------------------------------------ 2. fork at height 1, two steps, recv and restart between

def c2c : Tx := ⟨"C2c", true, [], [⟨"A2", 7, .std⟩, ⟨"A1", 9, .std⟩]⟩
def b2c : Block := ⟨"B2c", "B1", 2, [c2c]⟩
def chainC : List Block := [g, b1, b2c]
def knownC : AMap.T BlkId Block := known ++ [("B2c", b2c)]
def nodeC : Node := { chain := chainC, known := knownC }
/-- an unconfirmed payment of W1 to itself -/
def u1 : Tx := ⟨"U1", false, [⟨"C1", 2, 0⟩], [⟨"A1", 40, .std⟩]⟩

/-- reorganisation to chain C · removal step · unconfirmed transaction · restart · finishing removal step -/
def evsC : List IEv :=
  [.notify nodeC b2c, .rem, .recv u1, .restart { best := ⟨2, "B2c"⟩, mempool := ["U1"] }, .rem]

theorem get_append_left {K V : Type} [DecidableEq K] {m m' : AMap.T K V} {k : K} {v : V}
    (h : AMap.get m k = some v) : AMap.get (m ++ m') k = some v := by
  unfold AMap.get at *
  rw [List.find?_append]
  cases hf : m.find? (fun a => decide (a.1 = k)) with
  | none => rw [hf] at h; cases h
  | some a => rw [hf] at h; exact h

theorem nodeC_ok : NodeOK own g known nodeC b2c where
  good := hxGood3 rfl rfl rfl rfl rfl
  valid := by show ChainValid own chainC; decide
  genesis := rfl
  known := by
    intro x hx
    change x ∈ chainC at hx
    simp only [chainC, List.mem_cons, List.not_mem_nil, or_false] at hx
    rcases hx with rfl | rfl | rfl <;> rfl
  grows := fun _ _ h => get_append_left h
  tip := rfl

theorem injAC : IdInj (chainA ++ chainC) :=
  idInj_of_known (known := knownC) (fun x hx => by
    rcases List.mem_append.1 hx with h | h
    · exact get_append_left (knownA x h)
    · exact nodeC_ok.known x h)

theorem runC : (irun 1 ctx "W2" ["A2"] x0 evsC).map
    (fun x => (x.fin, x.v.best.hash, x.s.syncedTo, x.s.credits.map (·.1.tx), x.s.pendCred.length)) =
    some (true, "B2c", 2, ["C2c", "C1"], 1) := by decide

/-- the first step does NOT finish: two database transactions are needed -/
theorem runC_first : (irun 1 ctx "W2" ["A2"] x0 (evsC.take 2)).map (fun x => (x.fin, x.s.credits.map (·.1.tx))) =
    some (false, ["C2c", "C1", "C1"]) := by decide

/-- what `DomA` asks along the history, by evaluation: the pending-side clause before both steps, the best block before
    the restart -/
theorem factsC :
    (irun 1 ctx "W2" ["A2"] x0 (evsC.take 1)).map (fun x => pendOKb ["A2"] x.s x.node.chain) = some true ∧
    (irun 1 ctx "W2" ["A2"] x0 (evsC.take 3)).map (fun x => x.v.best) = some ⟨2, "B2c"⟩ ∧
    (irun 1 ctx "W2" ["A2"] x0 (evsC.take 4)).map (fun x => pendOKb ["A2"] x.s x.node.chain) = some true := by
  decide

theorem domC : DomA 1 ctx "W2" ["A2"] g false x0 evsC := by
  obtain ⟨f1, f3, f4⟩ := factsC
  refine ⟨⟨rfl, nodeC_ok, injAC, fun h => by cases h⟩, ?_⟩
  intro x1 h1
  simp only [evsC, List.take, irun, h1, Option.map_some, Option.some.injEq] at f1 f3 f4
  refine ⟨pendOK_of_check f1, ?_⟩
  intro x2 h2
  simp only [h2] at f3 f4
  refine ⟨trivial, ?_⟩
  intro x3 h3
  simp only [h3, Option.map_some, Option.some.injEq] at f3 f4
  refine ⟨by rw [f3], ?_⟩
  intro x4 h4
  simp only [h4, Option.map_some, Option.some.injEq] at f4
  exact ⟨pendOK_of_check f4, fun _ _ => trivial⟩

/-- **reorganisation, then a removal in two steps with an unconfirmed transaction and a restart in between: C01's
    invariant for W1 alone on chain C** -/
example (x : ISt) (h : irun 1 ctx "W2" ["A2"] x0 evsC = some x) :
    x.node = nodeC ∧ Inv { ctx with own := own', wallets := ["W1"], node := x.node } x.s x.node.chain := by
  have hr := runC
  rw [h] at hr
  simp only [Option.map_some, Option.some.injEq, Prod.mk.injEq] at hr
  exact ⟨irun_node evsC x0 x h, remove_after_follower_projects phase1_x0 static domC h hr.1 only_w1⟩

/-- the histories do run -/
theorem runs : (irun 1 ctx "W2" ["A2"] x0 evsB).isSome = true ∧ (irun 1 ctx "W2" ["A2"] x0 evsC).isSome = true := by
  decide

end MW.Lemmas.RemoveInterleave2Ex
