/- C19: kernel evaluations of the static checker (reflective proofs): closed functions are accepted from
   no assumptions, entry points are accepted with their non-closed callees checked in place -/
import MW.Model.Api
namespace MW.Lemmas.ApiSafe
open MW.Model.Api

set_option maxHeartbeats 100000000 in
theorem closed_AmountToString : ∃ body m, prog Fn.AmountToString_util = some body ∧ (check prog exports imports closed m [] body).isSome = true :=
  ⟨f_AmountToString, checkFuel, rfl, by decide +kernel⟩

set_option maxHeartbeats 100000000 in
theorem closed_CurrentWallet : ∃ body m, prog Fn.CurrentWallet = some body ∧ (check prog exports imports closed m [] body).isSome = true :=
  ⟨f_CurrentWallet, checkFuel, rfl, by decide +kernel⟩

set_option maxHeartbeats 100000000 in
theorem closed_ExportWallet : ∃ body m, prog Fn.ExportWallet_wallet = some body ∧ (check prog exports imports closed m [] body).isSome = true :=
  ⟨f_ExportWallet, checkFuel, rfl, by decide +kernel⟩

set_option maxHeartbeats 100000000 in
theorem closed_GetTxHistory : ∃ body m, prog Fn.GetTxHistory = some body ∧ (check prog exports imports closed m [] body).isSome = true :=
  ⟨f_GetTxHistory, checkFuel, rfl, by decide +kernel⟩

set_option maxHeartbeats 100000000 in
theorem closed_asyncImport : ∃ body m, prog Fn.asyncImport = some body ∧ (check prog exports imports closed m [] body).isSome = true :=
  ⟨f_asyncImport, checkFuel, rfl, by decide +kernel⟩

set_option maxHeartbeats 100000000 in
theorem closed_buildDecodeRawTxResponse : ∃ body m, prog Fn.buildDecodeRawTxResponse = some body ∧ (check prog exports imports closed m [] body).isSome = true :=
  ⟨f_buildDecodeRawTxResponse, checkFuel, rfl, by decide +kernel⟩

set_option maxHeartbeats 100000000 in
theorem closed_checkLocktime : ∃ body m, prog Fn.checkLocktime = some body ∧ (check prog exports imports closed m [] body).isSome = true :=
  ⟨f_checkLocktime, checkFuel, rfl, by decide +kernel⟩

set_option maxHeartbeats 100000000 in
theorem closed_checkPassLen : ∃ body m, prog Fn.checkPassLen = some body ∧ (check prog exports imports closed m [] body).isSome = true :=
  ⟨f_checkPassLen, checkFuel, rfl, by decide +kernel⟩

set_option maxHeartbeats 100000000 in
theorem closed_createVoutList : ∃ body m, prog Fn.createVoutList = some body ∧ (check prog exports imports closed m [] body).isSome = true :=
  ⟨f_createVoutList, checkFuel, rfl, by decide +kernel⟩

set_option maxHeartbeats 100000000 in
theorem closed_filterTxForImporting : ∃ body m, prog Fn.filterTxForImporting = some body ∧ (check prog exports imports closed m [] body).isSome = true :=
  ⟨f_filterTxForImporting, checkFuel, rfl, by decide +kernel⟩

set_option maxHeartbeats 100000000 in
theorem closed_getReadyWallets : ∃ body m, prog Fn.getReadyWallets = some body ∧ (check prog exports imports closed m [] body).isSome = true :=
  ⟨f_getReadyWallets, checkFuel, rfl, by decide +kernel⟩

set_option maxHeartbeats 100000000 in
theorem closed_reorg : ∃ body m, prog Fn.reorg = some body ∧ (check prog exports imports closed m [] body).isSome = true :=
  ⟨f_reorg, checkFuel, rfl, by decide +kernel⟩

set_option maxHeartbeats 100000000 in
theorem safe_CheckPoolPkCoinbase : safe prog exports imports closed checkFuel (.invoke Fn.CheckPoolPkCoinbase) = true := by decide +kernel

set_option maxHeartbeats 100000000 in
theorem safe_CreateAddress : safe prog exports imports closed checkFuel (.invoke Fn.CreateAddress) = true := by decide +kernel

set_option maxHeartbeats 100000000 in
theorem safe_GetAddresses_api : safe prog exports imports closed checkFuel (.invoke Fn.GetAddresses_wallet_service) = true := by decide +kernel

set_option maxHeartbeats 100000000 in
theorem safe_GetUtxo_api : safe prog exports imports closed checkFuel (.invoke Fn.GetUtxo_wallet_service) = true := by decide +kernel

set_option maxHeartbeats 100000000 in
theorem safe_SendRawTransaction : safe prog exports imports closed checkFuel (.invoke Fn.SendRawTransaction) = true := by decide +kernel

set_option maxHeartbeats 100000000 in
theorem safe_SignRawTransaction : safe prog exports imports closed checkFuel (.invoke Fn.SignRawTransaction) = true := by decide +kernel

set_option maxHeartbeats 100000000 in
theorem safe_handle : safe prog exports imports closed checkFuel (.invoke Fn.handle) = true := by decide +kernel

set_option maxHeartbeats 100000000 in
theorem safe_proccessReceivedTx : safe prog exports imports closed checkFuel (.invoke Fn.proccessReceivedTx) = true := by decide +kernel

end MW.Lemmas.ApiSafe
