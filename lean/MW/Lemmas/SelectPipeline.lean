/-
  Helper lemmas for C02 (greedy_sound, select_complete): optOutputs as a whole, and the pipeline
  selector ∘ optOutputs: "k largest plus guard" loses nothing a ≤k-subset could reach.
-/
import MW.Lemmas.SelectTopK
import MW.Lemmas.SelectGreedy
namespace MW.Lemmas.SelectPipeline
open MW MW.Model.Select MW.Lemmas.SelectHeap MW.Lemmas.SelectTopK MW.Lemmas.SelectGreedy

theorem insertDesc_perm (x : Coin) (l : List Coin) : (insertDesc x l).Perm (x :: l) := by
  induction l with
  | nil => exact List.Perm.refl _
  | cons y t ih =>
    unfold insertDesc
    split
    · exact List.Perm.refl _
    · exact (List.Perm.cons y ih).trans (List.Perm.swap x y t)

theorem sortDesc_perm (l : List Coin) : (sortDesc l).Perm l := by
  unfold sortDesc
  induction l with
  | nil => exact List.Perm.refl _
  | cons x t ih =>
    simp only [List.foldr_cons]
    exact (insertDesc_perm x _).trans (List.Perm.cons x ih)

/-- the result of the sort is in descending order of amount -/
theorem insertDesc_sorted (x : Coin) (l : List Coin) (h : l.Pairwise (fun a b => a.amt ≥ b.amt)) :
    (insertDesc x l).Pairwise (fun a b => a.amt ≥ b.amt) := by
  induction l with
  | nil => simp [insertDesc]
  | cons y t ih =>
    unfold insertDesc
    obtain ⟨hy, ht⟩ := List.pairwise_cons.mp h
    split
    · rename_i hgt
      refine List.pairwise_cons.mpr ⟨?_, h⟩
      intro b hb
      rcases List.mem_cons.mp hb with hb | hb
      · subst hb; omega
      · have := hy b hb; omega
    · rename_i hle
      refine List.pairwise_cons.mpr ⟨?_, ih ht⟩
      intro b hb
      have hb' := (insertDesc_perm x t).mem_iff.mp hb
      rcases List.mem_cons.mp hb' with hb' | hb'
      · subst hb'; omega
      · exact hy b hb'

theorem sortDesc_sorted (l : List Coin) : (sortDesc l).Pairwise (fun a b => a.amt ≥ b.amt) := by
  unfold sortDesc
  induction l with
  | nil => simp
  | cons x t ih => simp only [List.foldr_cons]; exact insertDesc_sorted x _ ih

theorem SubMultiset.refl {α : Type} (l : List α) : SubMultiset l l := ⟨[], by simp⟩

theorem SubMultiset.trans {α : Type} {a b c : List α} (h1 : SubMultiset a b) (h2 : SubMultiset b c) : SubMultiset a c := by
  obtain ⟨r1, p1⟩ := h1
  obtain ⟨r2, p2⟩ := h2
  refine ⟨r1 ++ r2, ?_⟩
  rw [← List.append_assoc]
  exact (p1.append_right r2).trans p2

theorem SubMultiset.nil {α : Type} (l : List α) : SubMultiset [] l := ⟨l, by simp⟩

theorem SubMultiset.singleton {α : Type} {a : α} {l : List α} (h : a ∈ l) : SubMultiset [a] l :=
  SubMultiset.of_sublist_perm (List.singleton_sublist.mpr h) (List.Perm.refl _)

/-- greedy_sound for optOutputs -/
theorem optOutputs_sound (amount : Nat) (utxos : List Coin) (r : OptRes) (h : optOutputs amount utxos = .ok r) :
    SubMultiset r.sel utxos ∧ r.sum = sumAmt r.sel ∧ (sumAmt utxos ≥ amount → r.sum ≥ amount) := by
  unfold optOutputs at h
  by_cases h0 : amount = 0
  · simp only [h0, if_true] at h
    injection h with h
    subst h
    exact ⟨SubMultiset.nil _, by simp [sumAmt], by intro _; omega⟩
  · simp only [h0, if_false] at h
    cases hs : sortDesc utxos with
    | nil =>
      rw [hs] at h
      simp only [greedyLoop] at h
      have hp := sortDesc_perm utxos
      rw [hs] at hp
      have hu : utxos = [] := List.Perm.eq_nil hp.symm
      subst hu
      simp [sumAmt] at h
      subst h
      exact ⟨SubMultiset.nil _, rfl, by intro hh; simp [sumAmt] at hh; omega⟩
    | cons u rest =>
      rw [hs] at h
      cases hg : greedyLoop amount (u :: rest) 0 {} with
      | error e => rw [hg] at h; simp at h
      | ok st =>
        rw [hg] at h
        simp only [] at h
        by_cases hm : sumAmt (List.map (·.2) st.sel) > maxAmount
        · simp [hm] at h
        · simp only [hm, if_false] at h
          injection h with h
          subst h
          have hpost := greedyLoop_post amount rest u 0 {} st [] (ginv_init amount) hg
          simp only [List.nil_append] at hpost
          have hp := sortDesc_perm utxos
          rw [hs] at hp
          refine ⟨hpost.1.trans_perm hp, rfl, ?_⟩
          intro hall
          simp only []
          apply hpost.2
          rw [perm_sumAmt hp]
          exact hall

/-- the loop never fails when the coins do not add up to more than the amount ceiling -/
theorem greedyLoop_ok (amount : Nat) : ∀ (l : List Coin) (idx : Nat) (st : GState),
    st.res + sumAmt l ≤ maxAmount → ∃ st', greedyLoop amount l idx st = .ok st' := by
  intro l
  induction l with
  | nil => intro idx st _; exact ⟨st, rfl⟩
  | cons u rest ih =>
    intro idx st h
    rw [sumAmt_cons] at h
    unfold greedyLoop
    have hov : ¬ st.res + u.amt > maxAmount := by omega
    simp only [hov, if_false]
    by_cases he : rest.isEmpty
    · simp only [he, if_true]; exact ⟨_, rfl⟩
    · simp only [he]
      by_cases hgt : st.opt + u.amt > amount
      · simp only [hgt, if_true]
        apply ih
        simp only []; omega
      · simp only [hgt, if_false]
        by_cases heq : st.opt + u.amt = amount
        · simp only [heq, if_true]; exact ⟨_, rfl⟩
        · simp only [heq, if_false]
          apply ih
          simp only []; omega

theorem optOutputs_ok (amount : Nat) (utxos : List Coin) (h : sumAmt utxos ≤ maxAmount) :
    ∃ r, optOutputs amount utxos = .ok r := by
  unfold optOutputs
  by_cases h0 : amount = 0
  · simp [h0]
  · simp only [h0, if_false]
    have hp := sortDesc_perm utxos
    obtain ⟨st, hst⟩ := greedyLoop_ok amount (sortDesc utxos) 0 {} (by
      show 0 + sumAmt (sortDesc utxos) ≤ maxAmount
      rw [perm_sumAmt hp]; omega)
    rw [hst]
    simp only []
    -- the selection is a sub-multiset, so its sum is bounded too
    have hsub : sumAmt (List.map (·.2) st.sel) ≤ sumAmt utxos := by
      cases hs : sortDesc utxos with
      | nil =>
        rw [hs] at hst
        simp only [greedyLoop] at hst
        injection hst with hst
        subst hst
        simp [sumAmt]
      | cons u rest =>
        rw [hs] at hst
        have hpost := greedyLoop_post amount rest u 0 {} st [] (ginv_init amount) hst
        simp only [List.nil_append] at hpost
        rw [hs] at hp
        exact (hpost.1.trans_perm hp).sum_le
    have : ¬ sumAmt (List.map (·.2) st.sel) > maxAmount := by omega
    simp [this]

-- ------------------------------------------------------------------ k largest are enough

theorem perm_sum_nat {l₁ l₂ : List Nat} (h : l₁.Perm l₂) : l₁.sum = l₂.sum := by
  induction h with
  | nil => rfl
  | cons x _ ih => simp [ih]
  | swap x y l => simp; omega
  | trans _ _ ih1 ih2 => exact ih1.trans ih2

/-- excess of a coin over the threshold m -/
def exc (m : Nat) (c : Coin) : Nat := c.amt - m

theorem sum_le_len_exc (m : Nat) (S : List Coin) : sumAmt S ≤ m * S.length + (S.map (exc m)).sum := by
  induction S with
  | nil => simp [sumAmt]
  | cons c t ih =>
    rw [sumAmt_cons]
    simp only [List.length_cons, List.map_cons, List.sum_cons, exc]
    have : m * (t.length + 1) = m * t.length + m := by rw [Nat.mul_succ]
    omega

theorem exc_sum_zero (m : Nat) (rest : List Coin) (h : ∀ r ∈ rest, r.amt ≤ m) : (rest.map (exc m)).sum = 0 := by
  induction rest with
  | nil => rfl
  | cons c t ih =>
    have hc := h c (by simp)
    have := ih (fun r hr => h r (by simp [hr]))
    simp only [List.map_cons, List.sum_cons, exc]
    omega

theorem exc_sum_base (m : Nat) (base : List Coin) (h : ∀ b ∈ base, m ≤ b.amt) :
    (base.map (exc m)).sum + m * base.length = sumAmt base := by
  induction base with
  | nil => simp [sumAmt]
  | cons c t ih =>
    have hc := h c (by simp)
    have := ih (fun r hr => h r (by simp [hr]))
    rw [sumAmt_cons]
    simp only [List.map_cons, List.sum_cons, List.length_cons, exc]
    have : m * (t.length + 1) = m * t.length + m := by rw [Nat.mul_succ]
    omega

/-- exchange argument: no sub-multiset with at most |base| coins is worth more than the base -/
theorem exchange (base rest S : List Coin) (m : Nat) (hr : ∀ r ∈ rest, r.amt ≤ m) (hb : ∀ b ∈ base, m ≤ b.amt)
    (hS : SubMultiset S (base ++ rest)) (hlen : S.length ≤ base.length) : sumAmt S ≤ sumAmt base := by
  obtain ⟨T, hp⟩ := hS
  have h1 := sum_le_len_exc m S
  have h2 : (S.map (exc m)).sum ≤ ((base ++ rest).map (exc m)).sum := by
    rw [← perm_sum_nat (hp.map (exc m))]
    simp only [List.map_append, List.sum_append_nat]
    omega
  have h3 : ((base ++ rest).map (exc m)).sum = (base.map (exc m)).sum := by
    simp only [List.map_append, List.sum_append_nat]
    rw [exc_sum_zero m rest hr]; omega
  have h4 := exc_sum_base m base hb
  have h5 : m * S.length ≤ m * base.length := Nat.mul_le_mul_left m hlen
  omega

def maxAmt (l : List Coin) : Nat := (l.map (·.amt)).foldr max 0

theorem le_maxAmt (l : List Coin) : ∀ r ∈ l, r.amt ≤ maxAmt l := by
  induction l with
  | nil => intro r hr; cases hr
  | cons c t ih =>
    intro r hr
    simp only [maxAmt, List.map_cons, List.foldr_cons]
    rcases List.mem_cons.mp hr with h | h
    · subst h; exact Nat.le_max_left _ _
    · have := ih r h
      simp only [maxAmt] at this
      exact Nat.le_trans this (Nat.le_max_right _ _)

theorem maxAmt_le (l : List Coin) (b : Nat) (h : ∀ r ∈ l, r.amt ≤ b) : maxAmt l ≤ b := by
  induction l with
  | nil => simp [maxAmt]
  | cons c t ih =>
    simp only [maxAmt, List.map_cons, List.foldr_cons]
    have h1 := h c (by simp)
    have h2 := ih (fun r hr => h r (by simp [hr]))
    simp only [maxAmt] at h2
    exact Nat.max_le.mpr ⟨h1, h2⟩

/-- what the selector holds is worth at least as much as any ≤k-subset of the coins not above the target -/
theorem base_optimal (base rest S : List Coin) (hbound : ∀ r ∈ rest, ∀ b ∈ base, r.amt ≤ b.amt)
    (hS : SubMultiset S (base ++ rest)) (hlen : S.length ≤ base.length) : sumAmt S ≤ sumAmt base :=
  exchange base rest S (maxAmt rest) (le_maxAmt rest)
    (fun b hb => maxAmt_le rest b.amt (fun r hr => hbound r hr b hb)) hS hlen

theorem low_eq_self (req : Nat) (l : List Coin) (h : ∀ c ∈ l, c.amt ≤ req) : low req l = l := by
  unfold low
  rw [List.filter_eq_self]
  intro c hc
  simp [h c hc]

/-- the items of the selector form a sub-multiset of what was submitted -/
theorem items_sub (s : Sel) (coins : List Coin) (inv : Inv s coins) : SubMultiset s.items coins := by
  obtain ⟨_, _, ⟨rest, hperm, _, _⟩, hgn, hgs⟩ := inv
  have hpart : (low s.req coins ++ coins.filter (fun c => !decide (c.amt ≤ s.req))).Perm coins :=
    List.filter_append_perm _ _
  unfold Sel.items
  cases hg : s.guard with
  | none =>
    simp only [List.append_nil]
    have : SubMultiset s.base.toList (low s.req coins) := ⟨rest, hperm⟩
    exact SubMultiset.trans this ⟨_, hpart⟩
  | some g =>
    simp only []
    obtain ⟨hgm, hgr, _⟩ := hgs g hg
    have hgh : g ∈ coins.filter (fun c => !decide (c.amt ≤ s.req)) := by
      rw [List.mem_filter]
      refine ⟨hgm, ?_⟩
      have : ¬ g.amt ≤ s.req := by omega
      simp [this]
    have h1 : SubMultiset [g] (coins.filter (fun c => !decide (c.amt ≤ s.req))) := SubMultiset.singleton hgh
    obtain ⟨r2, p2⟩ := h1
    refine ⟨rest ++ r2, ?_⟩
    have : (s.base.toList ++ [g] ++ (rest ++ r2)).Perm ((s.base.toList ++ rest) ++ ([g] ++ r2)) := by
      simp only [List.append_assoc]
      apply List.Perm.append_left
      rw [← List.append_assoc, ← List.append_assoc]
      exact List.Perm.append_right _ List.perm_append_comm
    exact (this.trans (hperm.append p2)).trans hpart

/-- select_complete, the key inequality: whatever a ≤k-subset reaches, the selector's items reach -/
theorem items_reach (k amount : Nat) (coins S : List Coin) (hS : SubMultiset S coins) (hlen : S.length ≤ k)
    (hsum : sumAmt S ≥ amount) : sumAmt (submitAll (newSel k amount) coins).items ≥ amount := by
  have inv : Inv (submitAll (newSel k amount) coins) coins := by
    have := inv_submitAll (newSel k amount) [] coins (inv_init k amount)
    simpa using this
  have hk : (submitAll (newSel k amount) coins).k = k := by rw [submitAll_k]; rfl
  have hreq : (submitAll (newSel k amount) coins).req = amount := by rw [submitAll_req]; rfl
  generalize submitAll (newSel k amount) coins = s at *
  obtain ⟨hle, _, ⟨rest, hperm, hbound, hrest⟩, hgn, hgs⟩ := inv
  unfold Sel.items
  cases hg : s.guard with
  | some g =>
    obtain ⟨_, hgr, _⟩ := hgs g hg
    simp only []
    rw [sumAmt_append, sumAmt_cons]
    rw [hreq] at hgr
    omega
  | none =>
    simp only [List.append_nil]
    have hall := hgn hg
    rw [low_eq_self _ _ hall] at hperm
    by_cases hfull : s.base.size < s.k
    · have := hrest hfull
      subst this
      simp only [List.append_nil] at hperm
      have := hS.sum_le
      rw [perm_sumAmt hperm]; omega
    · have hlen' : S.length ≤ s.base.toList.length := by
        have : s.base.toList.length = s.base.size := by simp
        omega
      have := base_optimal s.base.toList rest S hbound (hS.trans_perm hperm.symm) hlen'
      omega

end MW.Lemmas.SelectPipeline
