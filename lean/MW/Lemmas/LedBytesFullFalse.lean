/-
  LedBytes — the Round-5 statement `ledger_on_bytes_full` (no width hypotheses) is FALSE: with the Latin-1 naming every
  credit key a byte bucket decodes to carries a tx id of exactly 32 characters, while `addRelevantMined` on a record whose
  tx id is "x" creates a credit under "x".  Hence the hypotheses of `ledger_on_bytes` (`TxRecB.Abs`: the ids of the
  record are names of byte strings of the right width) are necessary.
-/
import MW.Lemmas.LedBytesEx
namespace MW.LedBytes
open MW MW.Gen.Codec MW.Model.TxmgrCodec MW.TxmgrCodec MW.Model.Ledger

theorem stringOfAscii_length (h : Bytes) : (stringOfAscii h).length = h.length := by
  simp [stringOfAscii, String.length_ofList]

theorem readRawCreditKey_hash_length {b : Bytes} {k : CredKeyB} (h : readRawCreditKey b = some k) : k.hash.length = 32 := by
  unfold readRawCreditKey decodeBy at h
  cases hg : guardOk rRawCreditKey b with
  | false => rw [hg] at h; simp at h
  | true =>
    rw [hg] at h
    have hl : 76 ≤ b.length := by
      have : decide (76 ≤ b.length) = true := by
        have := hg
        simp only [guardOk, rRawCreditKey, Bool.false_eq_true, if_false] at this
        exact this
      exact of_decide_eq_true this
    simp only [if_true, rRawCreditKey, List.map_cons, List.map_nil, readVal, Option.some.injEq] at h
    rw [← h]
    show (readAt 0 32 b).length = 32
    simp [readAt]; omega

theorem abs_credit_key_length (m : AMap.T Bytes Bytes) : ∀ e ∈ absBucket (cdC asciiNames) m, e.1.tx.length = 32 := by
  intro e he
  unfold absBucket at he
  obtain ⟨x, _, hx⟩ := List.mem_filterMap.mp he
  unfold absEntry at hx
  cases hk : (cdC asciiNames).decK x.1 with
  | none => rw [hk] at hx; cases hx
  | some k =>
    cases hv : (cdC asciiNames).decV x.2 with
    | none => rw [hk, hv] at hx; cases hx
    | some v =>
      rw [hk, hv] at hx
      cases hx
      show (stringOfAscii k.hash).length = 32
      rw [stringOfAscii_length]
      exact readRawCreditKey_hash_length hk

def badTr : TxRec := { tx := ⟨"x", false, [], [⟨"a", 1, .std⟩]⟩, relOut := [⟨0, ⟨"a", 1, .std⟩, "w", false⟩] }

theorem bad_result : ∃ s b, addRelevantMined {} [] {} [] badTr ⟨0, ""⟩ = .ok (s, b) ∧ ∃ e ∈ s.credits, e.1.tx = "x" := by
  refine ⟨_, _, rfl, ?_⟩
  decide

/-- **the statement without width hypotheses is false** -/
theorem full_false :
    ¬ (∀ (E : Env) (p : Params) (own : Own),
        ∃ (stepB : SB → TxRec → BlockMetaB → M SB), ∀ (sb : SB) (tr : TxRec) (blk : BlockMetaB),
          CanonS E sb.1 → (stepB sb tr blk).map (absSB E) = addRelevantMined p own (absStore E sb.1) (absBals E.N sb.2) tr (nmBlk E.N blk)) := by
  intro h
  obtain ⟨stepB, hs⟩ := h ⟨asciiNames, fun _ => ("", 0), fun _ => default⟩ {} []
  have h1 := hs ({}, []) badTr ⟨0, []⟩ (canonS_empty _)
  obtain ⟨s, b, hr, e, he, hex⟩ := bad_result
  have hrhs : addRelevantMined {} [] (absStore ⟨asciiNames, fun _ => ("", 0), fun _ => default⟩ (({}, []) : SB).1)
      (absBals asciiNames (({}, []) : SB).2) badTr (nmBlk asciiNames ⟨0, []⟩) = .ok (s, b) := hr
  rw [hrhs] at h1
  cases hst : stepB ({}, []) badTr ⟨0, []⟩ with
  | error err => rw [hst] at h1; cases h1
  | ok sb' =>
    rw [hst] at h1
    have h2 : absSB ⟨asciiNames, fun _ => ("", 0), fun _ => default⟩ sb' = (s, b) := Except.ok.inj h1
    have h3 : absBucket (cdC asciiNames) sb'.1.c = s.credits := congrArg (fun x => x.1.credits) h2
    have h4 := abs_credit_key_length sb'.1.c e (by rw [h3]; exact he)
    rw [hex] at h4
    exact absurd h4 (by decide)

end MW.LedBytes
