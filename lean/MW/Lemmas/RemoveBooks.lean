/-
  C08, `remove ⊨ project`, part 4 — facts about the books of a valid chain used by the store-level proof:
  a credit / spender key / tx record names a transaction of the chain; a spent credit has its debit and a debit its
  spent credit; the block records as a function of ANY "has a tx record" predicate (`blockRecOf`), and how that
  function reacts to shrinking the predicate.
-/
import MW.Lemmas.RemoveProj2
import MW.Lemmas.RemoveChar
import MW.Lemmas.LedgerAbs
namespace MW.Lemmas.RemoveBooks
open MW MW.Model.Ledger MW.Spec.Chain MW.Spec.Books MW.Lemmas.Ledger MW.Lemmas.RemoveProj MW.Lemmas.RemoveChar

section
variable {p : Params} {own : Own} {chain : List Block}

/-- a credit of the books belongs to a transaction of the chain, in its block -/
theorem credit_occ (hV : ChainValid own chain) {ck : CredKey} {cr : Credit}
    (h : (bookOf p own chain).credits ck = some cr) : ∃ oc ∈ occs chain, oc.t.id = ck.tx ∧ oc.bm = ck.blk := by
  obtain ⟨u, ⟨oc, hoc, hid, _, _, hblk, _⟩, hck⟩ := (credInv_bookOf (p := p) hV).only ck cr h
  exact ⟨oc, hoc, by rw [hck]; exact hid, by rw [hck]; exact hblk.symm⟩

/-- a credit marked spent names its debit, and the spender is a transaction of the chain -/
theorem spKey_debit (hV : ChainValid own chain) {ck dk : CredKey} {cr : Credit}
    (h : (bookOf p own chain).credits ck = some cr) (hs : spKey cr = some dk) :
    (∃ amt, (bookOf p own chain).debits dk = some (amt, ck)) ∧ ∃ oc ∈ occs chain, oc.t.id = dk.tx ∧ oc.bm = dk.blk := by
  have hC := credInv_bookOf (p := p) hV
  obtain ⟨u, hu, hck⟩ := hC.only ck cr h
  by_cases hsp : (u.tx, u.idx) ∈ spentOps (occs chain)
  · obtain ⟨dk', hdk'⟩ := mem_spentOps_spentBy hsp
    have h1 := hC.spent u dk' hu hdk'
    rw [← hck, h] at h1
    injection h1 with h1
    have : dk' = dk := by
      rw [h1] at hs
      simp only [spKey, if_true, Option.some.injEq] at hs
      exact hs
    subst this
    refine ⟨⟨u.out.amt, (debitInv_bookOf (p := p) hV dk' u.out.amt ck).2 ⟨u, hu, hdk', rfl, hck⟩⟩, ?_⟩
    obtain ⟨oc, hoc, _, k, i, _, _, hd⟩ := hdk'
    exact ⟨oc, hoc, by rw [hd], by rw [hd]⟩
  · have h1 := hC.unspent u hu hsp
    rw [← hck, h] at h1
    injection h1 with h1
    rw [h1] at hs
    simp [spKey, creditOf] at hs

/-- a debit of the books has its credit, marked spent by exactly that debit key -/
theorem debit_credit (hV : ChainValid own chain) {dk : CredKey} {d : Nat × CredKey}
    (h : (bookOf p own chain).debits dk = some d) :
    ∃ cr, (bookOf p own chain).credits d.2 = some cr ∧ spKey cr = some dk := by
  obtain ⟨amt, ck⟩ := d
  obtain ⟨u, hu, hsp, _, hck⟩ := (debitInv_bookOf (p := p) hV dk amt ck).1 h
  refine ⟨_, by rw [hck]; exact (credInv_bookOf (p := p) hV).spent u dk hu hsp, ?_⟩
  simp [spKey]

/-- a tx record of the books belongs to a transaction of the chain; its value is the block-file location -/
theorem txrec_occ (hV : ChainValid own chain) {k : TxId × BlockMeta} {loc : BlkId × Nat}
    (h : (bookOf p own chain).txrecs k = some loc) :
    ∃ P₁ oc P₂, occs chain = P₁ ++ oc :: P₂ ∧ touches own (P₁.foldl (applyOcc p own) {}) oc.t = true ∧
      k = (oc.t.id, oc.bm) ∧ loc = (oc.bm.hash, oc.ti) := (bookOf_txrecs_iff hV k loc).1 h

theorem idsNodup (hV : ChainValid own chain) : (idsOf (occs chain)).Nodup := (glob_bookOf (p := default) hV).idsNodup

/-- among the tx records of the books, the transaction id determines the key -/
theorem txrec_key_unique (hV : ChainValid own chain) {k k' : TxId × BlockMeta}
    (h : ((bookOf p own chain).txrecs k).isSome = true) (h' : ((bookOf p own chain).txrecs k').isSome = true)
    (hid : k.1 = k'.1) : k = k' := by
  obtain ⟨loc, hl⟩ := Option.isSome_iff_exists.1 h
  obtain ⟨loc', hl'⟩ := Option.isSome_iff_exists.1 h'
  obtain ⟨P₁, oc, P₂, hs, _, hk, _⟩ := txrec_occ hV hl
  obtain ⟨Q₁, oc', Q₂, hs', _, hk', _⟩ := txrec_occ hV hl'
  have : oc = oc' := occ_eq_of_id (idsNodup hV) (by rw [hs]; simp) (by rw [hs']; simp) (by
    have h1 : k.1 = oc.t.id := by rw [hk]
    have h2 : k'.1 = oc'.t.id := by rw [hk']
    rw [← h1, ← h2]; exact hid)
  rw [hk, hk', this]

end

-- ------------------------------------------------------------------ block records from a "has a tx record" predicate

/-- ids of the transactions among `ocs` whose key satisfies `has`, in order -/
def recIdsP (has : TxId × BlockMeta → Bool) (ocs : List Occ) : List TxId :=
  ocs.filterMap (fun oc => if has (oc.t.id, oc.bm) then some oc.t.id else none)

theorem recIds_eq (B : Book) (ocs : List Occ) : recIds B ocs = recIdsP (fun k => (B.txrecs k).isSome) ocs := rfl

theorem recIdsP_congr {has has' : TxId × BlockMeta → Bool} (ocs : List Occ)
    (h : ∀ oc ∈ ocs, has (oc.t.id, oc.bm) = has' (oc.t.id, oc.bm)) : recIdsP has ocs = recIdsP has' ocs := by
  unfold recIdsP
  apply filterMap_congr_mem
  intro oc hoc
  rw [h oc hoc]

/-- shrinking the predicate filters the id list (all `ocs` in one block `bm`) -/
theorem recIdsP_filter (has q : TxId × BlockMeta → Bool) (bm : BlockMeta) (ocs : List Occ)
    (hbm : ∀ oc ∈ ocs, oc.bm = bm) :
    recIdsP (fun k => has k && q k) ocs = (recIdsP has ocs).filter (fun t => q (t, bm)) := by
  induction ocs with
  | nil => rfl
  | cons oc ocs ih =>
    have ih' := ih (fun x hx => hbm x (List.mem_cons_of_mem _ hx))
    have hb := hbm oc (List.mem_cons_self ..)
    unfold recIdsP at *
    rw [List.filterMap_cons, List.filterMap_cons]
    by_cases h1 : has (oc.t.id, oc.bm) = true
    · by_cases h2 : q (oc.t.id, oc.bm) = true
      · have h2' : q (oc.t.id, bm) = true := by rw [← hb]; exact h2
        simp only [h1, h2, Bool.and_self, if_true, List.filter_cons, h2']
        rw [ih']
      · have h2' : ¬ q (oc.t.id, bm) = true := by rw [← hb]; exact h2
        simp only [h1, h2, Bool.and_false, Bool.false_eq_true, if_false, if_true, List.filter_cons, h2']
        rw [ih']
    · simp only [h1, Bool.false_and, Bool.false_eq_true, if_false]
      exact ih'

/-- the block record at height `h` that a "has a tx record" predicate implies -/
def blockRecOf (has : TxId × BlockMeta → Bool) (chain : List Block) (h : Nat) : Option (BlkId × List TxId) :=
  match chain[h]? with
  | none => none
  | some b =>
    match recIdsP has (occsOfBlock b) with
    | [] => none
    | ids => some (b.id, ids)

/-- BLOCK RECORDS of the books of a valid chain, at every height: a function of the tx records -/
theorem blocks_eq_blockRecOf (p : Params) (own : Own) (chain : List Block) (hV : ChainValid own chain)
    (hH : HeightsOK chain) (h : Nat) :
    (bookOf p own chain).blocks h = blockRecOf (fun k => ((bookOf p own chain).txrecs k).isSome) chain h := by
  unfold blockRecOf
  cases hb : chain[h]? with
  | none =>
    exact bookOf_blocks_none p own chain hH h (by
      rcases Nat.lt_or_ge h chain.length with hl | hl
      · rw [List.getElem?_eq_getElem hl] at hb; cases hb
      · exact hl)
  | some b =>
    have hbh : b.height = h := hH h b hb
    have hlt : h < chain.length := by
      rcases Nat.lt_or_ge h chain.length with hl | hl
      · exact hl
      · rw [List.getElem?_eq_none hl] at hb; cases hb
    have hsplit : chain = chain.take h ++ b :: chain.drop (h + 1) := by
      have hb' : chain[h] = b := by
        rw [List.getElem?_eq_getElem hlt] at hb; exact Option.some.inj hb
      rw [← hb']
      exact (List.take_append_drop h chain).symm.trans (by rw [List.drop_eq_getElem_cons hlt])
    have := blocks_by_txrecs p own (chain.take h) (chain.drop (h + 1)) b (by rw [← hsplit]; exact hV)
      (by rw [← hsplit]; exact hH)
    rw [← hsplit, hbh] at this
    rw [this, recIds_eq]
    dsimp only
    generalize recIdsP _ _ = l
    cases l <;> rfl

theorem blockRecOf_congr {has has' : TxId × BlockMeta → Bool} (chain : List Block) (h : Nat)
    (hc : ∀ k, has k = has' k) : blockRecOf has chain h = blockRecOf has' chain h := by
  have : has = has' := funext hc
  rw [this]

end MW.Lemmas.RemoveBooks
