/-
  C09 history-level refinement: THE HISTORIES.  The follower's events at block granularity
    node n        the node's chain database changes (extend / reorganise): the wallet is not touched
    vol v         the follower's volatile state changes (restart; seen-set bookkeeping of processConnectedBlock)
    recv t        an unconfirmed transaction is delivered                     (model: recvTx)
    connect b     the follower connects `b` on top of the wallet's chain       (model: filterBlock)
    disconnect    the follower disconnects the wallet's tip block              (model: disconnectBlock)
  run the model and the specification `Spec.Pending.step` side by side (`stepH`).  A successful notification
  (`processBlock`) is a sequence of disconnect steps followed by connect steps (`processBlock_trace_dc`,
  PendHistTrace).  `HInv` = C01's mined-side invariant `Inv` + the abstraction relation `PendRel` + the
  spec-side invariants; `hinv_step`: every event inside the domain `HOK` preserves it.
-/
import MW.Lemmas.PendHistRunDefs
import MW.Lemmas.PendHistRecv
import MW.Lemmas.PendHistConnectInv
import MW.Lemmas.PendHistDiscInv
namespace MW.Lemmas.PendHist
open MW MW.Model.Ledger MW.Spec.Pending MW.Lemmas.LedgerPending MW.Lemmas.Ledger

structure HW where
  node : Node
  s : Store
  v : Vol
  sp : Spec.Pending.S

inductive HEv
  | node (n : Node)
  | vol (v : Vol)
  | recv (t : Tx)
  | connect (b : Block)
  | disconnect

/-- one event: the model functions the driver executes, and `Spec.Pending.step` on the spec state -/
def stepH (E : HEnv) (w : HW) : HEv → HW
  | .node n => { w with node := n }
  | .vol v => { w with v := v }
  | .recv t =>
    { w with s := (recvTx (E.ctx w.node) w.s w.v t).1, v := (recvTx (E.ctx w.node) w.s w.v t).2.1,
             sp := Spec.Pending.step w.sp (.recv E.env w.node.chain t) }
  | .connect b =>
    match filterBlock (E.ctx w.node) w.s (readyWallets w.s E.wallets) b with
    | .ok r => { w with s := r.1, sp := Spec.Pending.step w.sp (.moved E.env (w.sp.chain ++ [b])) }
    | .error _ => w
  | .disconnect =>
    match w.sp.chain.getLast? with
    | none => w
    | some b =>
      match disconnectBlock (E.ctx w.node) w.s b.height with
      | .ok s' => { w with s := s', sp := Spec.Pending.step w.sp (.moved E.env w.sp.chain.dropLast) }
      | .error _ => w

def runH (E : HEnv) (w : HW) (evs : List HEv) : HW := evs.foldl (stepH E) w

/-- the worlds before each event -/
def worldsH (E : HEnv) (w : HW) : List HEv → List (HW × HEv)
  | [] => []
  | ev :: evs => (w, ev) :: worldsH E (stepH E w ev) evs

/-- THE INVARIANT -/
structure HInv (rank : TxId → Nat) (E : HEnv) (w : HW) : Prop where
  inv : Inv (E.ctx w.node) w.s w.sp.chain
  ar : AllReady E.own (readyWallets w.s E.wallets)
  ne : (readyWallets w.s E.wallets).isEmpty = false
  rel : PendRel rank w.s w.sp.pend
  cons : Consistent w.sp.chain w.sp.pend
  sidx : SrcIdx E w.sp.pend
  nocb : ∀ t ∈ w.sp.pend, t.cb = false
  relv : ∀ t ∈ w.sp.pend, relevant E.env t = true
  srcP : ∀ t ∈ w.sp.pend, E.src t.id = some t

/-- DOMAIN of a receive step (statements about the transaction, the chains and the pending list; the last
    clause `residue` is about the pending-credit bucket: no record of a transaction that is neither pending nor
    confirmed — the relation "pending credits = owned outputs of pending transactions" is NOT part of `PendRel`
    yet, it is tied by the raw dump `pcred`) -/
structure RecvDom (rank : TxId → Nat) (E : HEnv) (w : HW) (t : Tx) : Prop where
  valid : ChainValid E.own w.sp.chain
  known : E.src t.id = some t
  srcN : ∀ i ∈ t.ins, ∀ p, w.node.fetchTx i.tx = some p → E.src i.tx = some p
  idx : ∀ i ∈ t.ins, ∀ p, E.src i.tx = some p → i.idx < p.outs.length
  rank : ∀ i ∈ t.ins, rank i.tx < rank t.id
  nobb : filterTxRel (E.ctx w.node) w.s t false [] (readyWallets w.s E.wallets) ≠ .error .bothBinding
  seen : w.v.mempool.contains t.id = true → hasId w.sp.pend t.id = true ∨ onChain w.sp.chain t.id = true
  fresh : w.v.mempool.contains t.id = false → hasId w.sp.pend t.id = false → onChain w.sp.chain t.id = false
  /-- the delivered transaction does not conflict with the wallet's chain (it is valid on the node's tip and
      the wallet does not lag behind a reorganisation that un-confirmed a conflicting transaction) -/
  noconf : conflictedBy w.sp.chain t = false
  residue : hasId w.sp.pend t.id = false → onChain w.sp.chain t.id = false →
    ∀ j, AMap.get w.s.pendCred (t.id, j) = none

/-- DOMAIN of an event -/
def HOK (rank : TxId → Nat) (E : HEnv) (w : HW) : HEv → Prop
  | .node _ => True
  | .vol _ => True
  | .recv t => RecvDom rank E w t
  | .connect b =>
    (∃ rest, w.node.chain = w.sp.chain ++ b :: rest) ∧ ChainValid E.own w.node.chain ∧
    b.height = w.sp.chain.length ∧ ConnOK w.sp.chain b w.sp.pend ∧ SrcChain E (w.sp.chain ++ [b])
  | .disconnect =>
    ∀ c0 b, w.sp.chain = c0 ++ [b] →
      c0 ≠ [] ∧ ChainValid E.own (c0 ++ [b]) ∧ HeightsOK (c0 ++ [b]) ∧ AMap.get w.node.known b.id = some b ∧
      DiscDom rank E c0 b w.sp.pend

-- ------------------------------------------------------------------ receive: the mined side is not touched

theorem inv_of_minedOf {c : Ctx} {s s' : Store} {chain : List Block} (hm : minedOf s' = minedOf s)
    (h : Inv c s chain) : Inv c s' chain := by
  simp only [minedOf, Prod.mk.injEq] at hm
  obtain ⟨m1, m2, m3, m4, m5, m6, m7, m8, m9, _, m11⟩ := hm
  have hr : ∀ ws, readyWallets s' ws = readyWallets s ws := by intro ws; unfold readyWallets; rw [m9]
  refine ⟨⟨?_, ?_, ?_, ?_, ?_, ?_⟩, ?_, ?_, ?_⟩
  · intro w tx idx; rw [m2]; exact h.agree.unspent w tx idx
  · intro k; rw [m1]; exact h.agree.credits k
  · intro k; rw [m3]; exact h.agree.debits k
  · intro k; rw [m11]; exact h.agree.game k
  · intro k; rw [m5]; exact h.agree.txrecs k
  · intro k; rw [m6]; exact h.agree.blocks k
  · intro w hw; rw [m4]; rw [hr] at hw; exact h.bal w hw
  · intro k; rw [m7]; exact h.sync k
  · rw [m8]; exact h.syncedTo

theorem addRelevantUnmined_mined (s s' : Store) (tr : TxRec) (h : addRelevantUnmined s tr = .ok s') :
    minedOf s' = minedOf s := by
  cases hp : AMap.get s.pending tr.tx.id with
  | none => exact (addRelevantUnmined_new s s' tr h hp).2.2.1
  | some x =>
    unfold addRelevantUnmined at h
    split at h
    · cases h
    · rw [hp] at h
      simp only [Option.isSome_some, if_true] at h
      split at h
      · cases h; rfl
      · obtain ⟨a1, _, _⟩ := addUnminedCredits_ok _ s' tr h
        simp only [exceptCredGame, Prod.mk.injEq] at a1
        exact a1.2.2

theorem recvTx_mined (c : Ctx) (s : Store) (v : Vol) (t : Tx) : minedOf (recvTx c s v t).1 = minedOf s := by
  unfold recvTx
  split
  · rfl
  · simp only []
    split
    · rfl
    · rfl
    · split
      · rfl
      · rename_i s' h; exact addRelevantUnmined_mined _ _ _ h

theorem onRecv_cases (e : Spec.Pending.Env) (node c : List Block) (P : List Tx) (t : Tx) :
    onRecv e node c P t = P ∨
    (onRecv e node c P t = P ++ [t] ∧ t.cb = false ∧ hasId P t.id = false ∧ onChain c t.id = false ∧
      relevant e t = true) := by
  unfold onRecv
  split
  · rename_i h
    simp only [Bool.and_eq_true, Bool.not_eq_true'] at h
    exact Or.inr ⟨rfl, h.1.1.1.1, h.1.1.1.2, h.1.1.2, h.1.2⟩
  · exact Or.inl rfl

-- ------------------------------------------------------------------ every event preserves the invariant

theorem hinv_recv {rank : TxId → Nat} {E : HEnv} {w : HW} (H : HInv rank E w) (t : Tx) (D : RecvDom rank E w t) :
    HInv rank E (stepH E w (.recv t)) := by
  have hm := recvTx_mined (E.ctx w.node) w.s w.v t
  have hr : ∀ ws, readyWallets (recvTx (E.ctx w.node) w.s w.v t).1 ws = readyWallets w.s ws := by
    intro ws; unfold readyWallets
    simp only [minedOf, Prod.mk.injEq] at hm
    rw [hm.2.2.2.2.2.2.2.2.1]
  have hok : RecvOK rank E.env (E.ctx w.node) w.s w.v w.sp.chain w.sp.pend t := by
    refine ⟨rfl, H.ar, ?_, D.idx, D.rank, D.nobb, D.seen, D.fresh, ?_⟩
    · intro i hi p hp
      rcases hp with hp | hp
      · exact D.srcN i hi p hp
      · obtain ⟨h1, h2⟩ := (H.rel.ids _ _).1 hp
        rw [← h2]; exact H.srcP p h1
    · intro h1 h2
      refine ⟨D.residue h1 h2, fun wl j => ?_⟩
      cases hg : AMap.get w.s.unspent (wl, t.id, j) with
      | none => rfl
      | some x =>
        have := inv_unspent_onChain H.inv D.valid wl t.id j (by rw [hg]; rfl)
        rw [h2] at this; cases this
  have hrel := recv_step rank E.env (E.ctx w.node) w.s w.v w.sp.chain w.sp.pend t H.rel hok
  have hsp : (stepH E w (.recv t)).sp = { w.sp with pend := onRecv E.env w.node.chain w.sp.chain w.sp.pend t } := rfl
  refine ⟨inv_of_minedOf hm H.inv, by show AllReady E.own (readyWallets (recvTx _ _ _ _).1 _); rw [hr]; exact H.ar,
    by show (readyWallets (recvTx _ _ _ _).1 _).isEmpty = false; rw [hr]; exact H.ne, hrel, ?_, ?_, ?_, ?_, ?_⟩
  all_goals rw [hsp]; simp only []
  all_goals rcases onRecv_cases E.env w.node.chain w.sp.chain w.sp.pend t with h | ⟨h, g1, g2, g3, g4⟩ <;> rw [h]
  · exact H.cons
  · intro x hx
    rcases List.mem_append.1 hx with hx | hx
    · exact H.cons x hx
    · rw [List.mem_singleton.1 hx]; exact ⟨g3, D.noconf⟩
  · exact H.sidx
  · intro x hx
    rcases List.mem_append.1 hx with hx | hx
    · exact H.sidx x hx
    · rw [List.mem_singleton.1 hx]; exact D.idx
  · exact H.nocb
  · intro x hx
    rcases List.mem_append.1 hx with hx | hx
    · exact H.nocb x hx
    · rw [List.mem_singleton.1 hx]; exact g1
  · exact H.relv
  · intro x hx
    rcases List.mem_append.1 hx with hx | hx
    · exact H.relv x hx
    · rw [List.mem_singleton.1 hx]; exact g4
  · exact H.srcP
  · intro x hx
    rcases List.mem_append.1 hx with hx | hx
    · exact H.srcP x hx
    · rw [List.mem_singleton.1 hx]; exact D.known

theorem split_last {α : Type} : ∀ (l : List α) (b : α), l.getLast? = some b → l = l.dropLast ++ [b]
  | [], _, h => by cases h
  | [a], b, h => by simp at h; simp [h]
  | a :: a' :: l, b, h => by
    have : (a' :: l).getLast? = some b := by simpa [List.getLast?_cons_cons] using h
    have ih := split_last (a' :: l) b this
    simp only [List.dropLast_cons_cons, List.cons_append]
    rw [← ih]

theorem SrcIdx.sublist {E : HEnv} {l l' : List Tx} (h : SrcIdx E l) (hs : ∀ t ∈ l', t ∈ l) : SrcIdx E l' :=
  fun t ht => h t (hs t ht)

theorem hinv_connect {rank : TxId → Nat} {E : HEnv} {w : HW} (H : HInv rank E w) (b : Block)
    (D : HOK rank E w (.connect b)) : HInv rank E (stepH E w (.connect b)) := by
  obtain ⟨⟨rest, hnode⟩, hvalid, hheight, hok, hsrcB⟩ := D
  cases hf : filterBlock (E.ctx w.node) w.s (readyWallets w.s E.wallets) b with
  | error e =>
    have : stepH E w (.connect b) = w := by simp only [stepH, hf]
    rw [this]; exact H
  | ok r =>
    obtain ⟨s', conf⟩ := r
    have hst : stepH E w (.connect b) =
        { w with s := s', sp := Spec.Pending.step w.sp (.moved E.env (w.sp.chain ++ [b])) } := by
      simp only [stepH, hf]
    obtain ⟨i1, i2, i3, i4, i5⟩ := connect_step_inv rank E w.node w.s s' w.sp.chain rest b w.sp.pend conf H.inv H.ar H.ne
      hnode hvalid hheight H.rel H.cons H.sidx H.nocb H.relv H.srcP hok hsrcB hf
    rw [hst]
    exact ⟨i1, by show AllReady E.own (readyWallets s' E.wallets); rw [i2]; exact H.ar,
      by show (readyWallets s' E.wallets).isEmpty = false; rw [i2]; exact H.ne, i3, i4,
      H.sidx.sublist (fun t ht => i5.subset ht), fun t ht => H.nocb t (i5.subset ht),
      fun t ht => H.relv t (i5.subset ht), fun t ht => H.srcP t (i5.subset ht)⟩

theorem hinv_disconnect {rank : TxId → Nat} {E : HEnv} {w : HW} (H : HInv rank E w)
    (D : HOK rank E w .disconnect) : HInv rank E (stepH E w .disconnect) := by
  cases hl : w.sp.chain.getLast? with
  | none =>
    have : stepH E w .disconnect = w := by simp only [stepH, hl]
    rw [this]; exact H
  | some b =>
    have hsplit : w.sp.chain = w.sp.chain.dropLast ++ [b] := by
      exact split_last _ b hl
    obtain ⟨hc0, hV, hHt, hk, dom⟩ := D _ b hsplit
    cases hd : disconnectBlock (E.ctx w.node) w.s b.height with
    | error e =>
      have : stepH E w .disconnect = w := by simp only [stepH, hl, hd]
      rw [this]; exact H
    | ok s' =>
      have hst : stepH E w .disconnect =
          { w with s := s', sp := Spec.Pending.step w.sp (.moved E.env w.sp.chain.dropLast) } := by
        simp only [stepH, hl, hd]
      have hI := H.inv
      have hcons := H.cons
      rw [hsplit] at hI hcons
      obtain ⟨i1, i2, i3, i4, i5⟩ := disconnect_step_inv rank E w.node w.s s' w.sp.chain.dropLast b w.sp.pend hI H.ar hc0
        hV hHt hk H.rel hcons H.sidx H.srcP dom hd
      have hsp : (Spec.Pending.step w.sp (.moved E.env w.sp.chain.dropLast)) =
          { chain := w.sp.chain.dropLast,
            pend := onChainMoved E.env (w.sp.chain.dropLast ++ [b]) w.sp.chain.dropLast w.sp.pend } := by
        show ({ chain := _, pend := onChainMoved E.env w.sp.chain _ w.sp.pend } : Spec.Pending.S) = _
        rw [← hsplit]
      rw [hst, hsp]
      have hb : b ∈ w.sp.chain.dropLast ++ [b] := List.mem_append_right _ List.mem_cons_self
      refine ⟨i1, by show AllReady E.own (readyWallets s' E.wallets); rw [i2]; exact H.ar,
        by show (readyWallets s' E.wallets).isEmpty = false; rw [i2]; exact H.ne, i3, i4, ?_, ?_, ?_, ?_⟩
      · intro t ht
        rcases i5 t ht with h | ⟨h, _, _⟩
        · exact H.sidx t h
        · exact dom.sidx t h
      · intro t ht
        rcases i5 t ht with h | ⟨_, h, _⟩
        · exact H.nocb t h
        · exact h
      · intro t ht
        rcases i5 t ht with h | ⟨_, _, h⟩
        · exact H.relv t h
        · exact h
      · intro t ht
        rcases i5 t ht with h | ⟨h, _, _⟩
        · exact H.srcP t h
        · exact dom.src b hb t h

/-- EVERY EVENT inside the domain preserves the invariant -/
theorem hinv_step {rank : TxId → Nat} {E : HEnv} {w : HW} (H : HInv rank E w) (ev : HEv) (D : HOK rank E w ev) :
    HInv rank E (stepH E w ev) := by
  cases ev with
  | node n =>
    have hi : Inv (E.ctx n) w.s w.sp.chain :=
      (inv_ctx_irrel (c := E.ctx w.node) (c' := E.ctx n) rfl rfl rfl).1 H.inv
    exact ⟨hi, H.ar, H.ne, H.rel, H.cons, H.sidx, H.nocb, H.relv, H.srcP⟩
  | vol v => exact ⟨H.inv, H.ar, H.ne, H.rel, H.cons, H.sidx, H.nocb, H.relv, H.srcP⟩
  | recv t => exact hinv_recv H t D
  | connect b => exact hinv_connect H b D
  | disconnect => exact hinv_disconnect H D

/-- THE HISTORY THEOREM: along every history whose events are inside the domain, the invariant holds -/
theorem hinv_run {rank : TxId → Nat} {E : HEnv} : ∀ (evs : List HEv) (w : HW), HInv rank E w →
    (∀ x ∈ worldsH E w evs, HOK rank E x.1 x.2) → HInv rank E (runH E w evs) := by
  intro evs
  induction evs with
  | nil => intro w H _; exact H
  | cons ev evs ih =>
    intro w H hD
    have h1 := hinv_step H ev (hD (w, ev) (by simp [worldsH]))
    exact ih _ h1 (fun x hx => hD x (by simp [worldsH, hx]))

/-- the specification side of a run IS the fold of `Spec.Pending.step` over the spec events of the history -/
def specEvent (E : HEnv) (w : HW) : HEv → Option Spec.Pending.Event
  | .recv t => some (.recv E.env w.node.chain t)
  | .connect b =>
    match filterBlock (E.ctx w.node) w.s (readyWallets w.s E.wallets) b with
    | .ok _ => some (.moved E.env (w.sp.chain ++ [b]))
    | .error _ => none
  | .disconnect =>
    match w.sp.chain.getLast? with
    | none => none
    | some b =>
      match disconnectBlock (E.ctx w.node) w.s b.height with
      | .ok _ => some (.moved E.env w.sp.chain.dropLast)
      | .error _ => none
  | _ => none

theorem stepH_spec (E : HEnv) (w : HW) (ev : HEv) :
    (stepH E w ev).sp = match specEvent E w ev with
      | some se => Spec.Pending.step w.sp se
      | none => w.sp := by
  cases ev with
  | node n => rfl
  | vol v => rfl
  | recv t => rfl
  | connect b =>
    cases h1 : filterBlock (E.ctx w.node) w.s (readyWallets w.s E.wallets) b <;> simp only [stepH, specEvent, h1]
  | disconnect =>
    cases h1 : w.sp.chain.getLast? with
    | none => simp only [stepH, specEvent, h1]
    | some b =>
      cases h2 : disconnectBlock (E.ctx w.node) w.s b.height <;> simp only [stepH, specEvent, h1, h2]

end MW.Lemmas.PendHist
