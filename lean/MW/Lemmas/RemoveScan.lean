/-
  Helper lemmas for C08: the credit scan of removeRelevantCredit (MW.Model.Remove.scanCredit / removeRelevantCredit)
  and the other folds of RemoveRelevantTx, as frame / erasure facts over arbitrary stores.
-/
import MW.Model.Remove
namespace MW.Lemmas.RemoveScan
open MW MW.Model.Ledger MW.Model.Remove

-- ------------------------------------------------------------------ association maps as lists

theorem mem_erase {K V : Type} [DecidableEq K] (m : AMap.T K V) (k : K) (e : K × V) :
    e ∈ AMap.erase m k ↔ e ∈ m ∧ e.1 ≠ k := by
  simp [AMap.erase, List.mem_filter]

theorem erase_subset {K V : Type} [DecidableEq K] (m : AMap.T K V) (k : K) (e : K × V)
    (h : e ∈ AMap.erase m k) : e ∈ m := ((mem_erase m k e).1 h).1

theorem get_eq_none_of_forall {K V : Type} [DecidableEq K] (m : AMap.T K V) (k : K)
    (h : ∀ e ∈ m, e.1 ≠ k) : AMap.get m k = none := by
  unfold AMap.get
  rw [Option.map_eq_none_iff, List.find?_eq_none]
  intro e he
  simpa using h e he

-- ------------------------------------------------------------------ one step of the scan

/-- the fields the credit scan never touches -/
def idPart (s : Store) :=
  (s.unspent, s.addrs, s.game, s.pendGame, s.balance, s.status, s.pendCred, s.pending, s.txrecs, s.blocks, s.sync, s.syncedTo)

theorem dropDebit_idPart (s : Store) (d : Option CredKey) : idPart (dropDebit s d) = idPart s := by
  cases d <;> rfl

theorem scanCredit_cases (limit : Nat) (addrs : List Addr) (sc : Scan) (e : CredKey × Credit) :
    scanCredit limit addrs sc e = sc ∨
    ((sc.count ≥ limit ∨ twoHeights sc.heightOf e.1 = true) ∧
      scanCredit limit addrs sc e = { sc with finish := false, stopped := true }) ∨
    scanCredit limit addrs sc e = { sc with failed := true } ∨
    (sc.stopped = false ∧ sc.failed = false ∧ addrs.contains e.2.sh = true ∧
      ∃ d, spender e.2 = .ok d ∧
        scanCredit limit addrs sc e = { sc with s := dropDebit (deleteCredit sc.s e.1) d, count := sc.count + 1,
                                                heightOf := AMap.put (noteSpender sc.heightOf d) e.1.tx e.1.blk.height,
                                                spenders := sc.spenders ++ (AMap.get sc.s.pendIns (e.1.tx, e.1.idx)).getD [] }) := by
  unfold scanCredit
  by_cases h1 : (sc.stopped || sc.failed) = true
  · rw [if_pos h1]; exact Or.inl rfl
  · rw [if_neg h1]
    by_cases h2 : (!addrs.contains e.2.sh) = true
    · rw [if_pos h2]; exact Or.inl rfl
    · rw [if_neg h2]
      by_cases h3 : (decide (sc.count ≥ limit) || twoHeights sc.heightOf e.1) = true
      · rw [if_pos h3]
        refine Or.inr (Or.inl ⟨?_, rfl⟩)
        simpa using h3
      · rw [if_neg h3]
        cases hs : spender e.2 with
        | error u => exact Or.inr (Or.inr (Or.inl rfl))
        | ok d =>
          right; right; right
          simp only [Bool.or_eq_true, not_or, Bool.not_eq_true] at h1
          simp only [Bool.not_eq_true', Bool.not_eq_false] at h2
          exact ⟨h1.1, h1.2, h2, d, rfl, rfl⟩

theorem scanCredit_idPart (limit : Nat) (addrs : List Addr) (sc : Scan) (e : CredKey × Credit) :
    idPart (scanCredit limit addrs sc e).s = idPart sc.s := by
  rcases scanCredit_cases limit addrs sc e with h | ⟨_, h⟩ | h | ⟨_, _, _, d, _, h⟩ <;> rw [h]
  exact dropDebit_idPart _ _

theorem dropDebit_credits (s : Store) (d : Option CredKey) : (dropDebit s d).credits = s.credits := by
  cases d <;> rfl

theorem scanCredit_credits_sub (limit : Nat) (addrs : List Addr) (sc : Scan) (e x : CredKey × Credit)
    (h : x ∈ (scanCredit limit addrs sc e).s.credits) : x ∈ sc.s.credits := by
  rcases scanCredit_cases limit addrs sc e with h' | ⟨_, h'⟩ | h' | ⟨_, _, _, d, _, h'⟩ <;> rw [h'] at h
  · exact h
  · exact h
  · exact h
  · rw [dropDebit_credits] at h
    exact erase_subset _ _ _ h

theorem scanCredit_debits_sub (limit : Nat) (addrs : List Addr) (sc : Scan) (e : CredKey × Credit)
    (x : CredKey × (Nat × CredKey)) (h : x ∈ (scanCredit limit addrs sc e).s.debits) : x ∈ sc.s.debits := by
  rcases scanCredit_cases limit addrs sc e with h' | ⟨_, h'⟩ | h' | ⟨_, _, _, d, _, h'⟩ <;> rw [h'] at h
  · exact h
  · exact h
  · exact h
  · cases d with
    | none => exact h
    | some dk => exact erase_subset _ _ _ h

/-- a stopped scan reports `finish = false` -/
def Sticky (sc : Scan) : Prop := sc.stopped = true → sc.finish = false

theorem scanCredit_sticky (limit : Nat) (addrs : List Addr) (sc : Scan) (e : CredKey × Credit)
    (h : Sticky sc) : Sticky (scanCredit limit addrs sc e) := by
  rcases scanCredit_cases limit addrs sc e with h' | ⟨_, h'⟩ | h' | ⟨hs, _, _, d, _, h'⟩ <;> rw [h']
  · exact h
  · intro _; rfl
  · exact h
  · intro hh; simp [hs] at hh

/-- a scan that is still live after a step was live before it -/
theorem scanCredit_live_of_live (limit : Nat) (addrs : List Addr) (sc : Scan) (e : CredKey × Credit)
    (h : (scanCredit limit addrs sc e).stopped = false ∧ (scanCredit limit addrs sc e).failed = false) :
    sc.stopped = false ∧ sc.failed = false := by
  rcases scanCredit_cases limit addrs sc e with h' | ⟨_, h'⟩ | h' | ⟨hs, hf, _, d, _, h'⟩ <;> rw [h'] at h
  · exact h
  · simp at h
  · simp at h
  · exact ⟨hs, hf⟩

/-- a live step over a matching credit erases its key -/
theorem scanCredit_erases (limit : Nat) (addrs : List Addr) (sc : Scan) (e : CredKey × Credit)
    (hl : (scanCredit limit addrs sc e).stopped = false ∧ (scanCredit limit addrs sc e).failed = false)
    (hm : addrs.contains e.2.sh = true) :
    ∀ x ∈ (scanCredit limit addrs sc e).s.credits, x.1 ≠ e.1 := by
  rcases scanCredit_cases limit addrs sc e with h' | ⟨_, h'⟩ | h' | ⟨hs, hf, _, d, _, h'⟩
  · -- unchanged although the credit matches: impossible for a live scan
    exfalso
    have hlive := scanCredit_live_of_live limit addrs sc e hl
    unfold scanCredit at h'
    have h1 : ¬ (sc.stopped || sc.failed) = true := by simp [hlive.1, hlive.2]
    have h2 : ¬ (!addrs.contains e.2.sh) = true := by rw [hm]; decide
    rw [if_neg h1, if_neg h2] at h'
    by_cases h3 : (decide (sc.count ≥ limit) || twoHeights sc.heightOf e.1) = true
    · rw [if_pos h3] at h'
      have := congrArg Scan.stopped h'
      simp [hlive.1] at this
    · rw [if_neg h3] at h'
      cases hsp : spender e.2 with
      | error u =>
        rw [hsp] at h'
        have := congrArg Scan.failed h'
        simp [hlive.2] at this
      | ok d =>
        rw [hsp] at h'
        have := congrArg Scan.count h'
        simp at this
  · rw [h'] at hl; simp at hl
  · rw [h'] at hl; simp at hl
  · rw [h']
    intro x hx
    simp only at hx
    rw [dropDebit_credits] at hx
    exact ((mem_erase _ _ _).1 hx).2


-- ------------------------------------------------------------------ the whole scan (a fold over the credits bucket)

theorem foldl_proj {α β γ : Type} (f : β → α → β) (p : β → γ) (h : ∀ b a, p (f b a) = p b) (l : List α) (b : β) :
    p (l.foldl f b) = p b := by
  induction l generalizing b with
  | nil => rfl
  | cons a l ih => simp only [List.foldl_cons]; rw [ih, h]

theorem foldlM_proj {α β γ : Type} (f : β → α → Option β) (p : β → γ)
    (h : ∀ b a b', f b a = some b' → p b' = p b) (l : List α) (b b' : β) (hb : l.foldlM f b = some b') :
    p b' = p b := by
  induction l generalizing b with
  | nil => simp [List.foldlM] at hb; rw [hb]
  | cons a l ih =>
    simp only [List.foldlM_cons, bind, Option.bind] at hb
    cases hfa : f b a with
    | none => simp [hfa] at hb
    | some b1 =>
      simp only [hfa] at hb
      rw [ih b1 hb, h b a b1 hfa]

theorem scan_idPart (limit : Nat) (addrs : List Addr) (l : List (CredKey × Credit)) (sc : Scan) :
    idPart (l.foldl (scanCredit limit addrs) sc).s = idPart sc.s :=
  foldl_proj (scanCredit limit addrs) (fun sc => idPart sc.s) (scanCredit_idPart limit addrs) l sc

theorem scan_credits_sub (limit : Nat) (addrs : List Addr) (l : List (CredKey × Credit)) (sc : Scan)
    (x : CredKey × Credit) (h : x ∈ (l.foldl (scanCredit limit addrs) sc).s.credits) : x ∈ sc.s.credits := by
  induction l generalizing sc with
  | nil => exact h
  | cons a l ih => exact scanCredit_credits_sub limit addrs sc a x (ih _ h)

theorem scan_debits_sub (limit : Nat) (addrs : List Addr) (l : List (CredKey × Credit)) (sc : Scan)
    (x : CredKey × (Nat × CredKey)) (h : x ∈ (l.foldl (scanCredit limit addrs) sc).s.debits) : x ∈ sc.s.debits := by
  induction l generalizing sc with
  | nil => exact h
  | cons a l ih => exact scanCredit_debits_sub limit addrs sc a x (ih _ h)

theorem scan_sticky (limit : Nat) (addrs : List Addr) (l : List (CredKey × Credit)) (sc : Scan) (h : Sticky sc) :
    Sticky (l.foldl (scanCredit limit addrs) sc) := by
  induction l generalizing sc with
  | nil => exact h
  | cons a l ih => exact ih _ (scanCredit_sticky limit addrs sc a h)

theorem scan_live_of_live (limit : Nat) (addrs : List Addr) (l : List (CredKey × Credit)) (sc : Scan)
    (h : (l.foldl (scanCredit limit addrs) sc).stopped = false ∧ (l.foldl (scanCredit limit addrs) sc).failed = false) :
    sc.stopped = false ∧ sc.failed = false := by
  induction l generalizing sc with
  | nil => exact h
  | cons a l ih => exact scanCredit_live_of_live limit addrs sc a (ih _ h)

/-- a scan that ends live has erased the key of every matching credit it went over -/
theorem scan_erases (limit : Nat) (addrs : List Addr) (l : List (CredKey × Credit)) (sc : Scan)
    (h : (l.foldl (scanCredit limit addrs) sc).stopped = false ∧ (l.foldl (scanCredit limit addrs) sc).failed = false)
    (e : CredKey × Credit) (he : e ∈ l) (hm : addrs.contains e.2.sh = true) :
    ∀ x ∈ (l.foldl (scanCredit limit addrs) sc).s.credits, x.1 ≠ e.1 := by
  induction l generalizing sc with
  | nil => cases he
  | cons a l ih =>
    simp only [List.foldl_cons] at h ⊢
    rcases List.mem_cons.1 he with rfl | he'
    · intro x hx
      exact scanCredit_erases limit addrs sc e (scan_live_of_live limit addrs l _ h) hm x
        (scan_credits_sub limit addrs l _ x hx)
    · exact ih _ h he'

/-- removeRelevantCredit reporting `finish` without failure leaves no credit of the removed wallet -/
theorem removeRelevantCredit_clean (limit : Nat) (s : Store) (addrs : List Addr)
    (hfin : (removeRelevantCredit limit s addrs).finish = true)
    (hok : (removeRelevantCredit limit s addrs).failed = false) :
    ∀ x ∈ (removeRelevantCredit limit s addrs).s.credits, addrs.contains x.2.sh = false := by
  intro x hx
  unfold removeRelevantCredit at *
  have hst : (s.credits.foldl (scanCredit limit addrs) { s := s }).stopped = false := by
    have := scan_sticky limit addrs s.credits { s := s } (by intro h; simp at h)
    cases hh : (s.credits.foldl (scanCredit limit addrs) { s := s }).stopped with
    | false => rfl
    | true => rw [this hh] at hfin; cases hfin
  have hmem : x ∈ s.credits := scan_credits_sub limit addrs s.credits { s := s } x hx
  cases hc : addrs.contains x.2.sh with
  | false => rfl
  | true => exact absurd rfl (scan_erases limit addrs s.credits { s := s } ⟨hst, hok⟩ x hmem hc x hx)

end MW.Lemmas.RemoveScan
