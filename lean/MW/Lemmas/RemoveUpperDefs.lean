/-
  C08, removal in progress relative to an ABSTRACT upper book — definitions.

  `MW.Lemmas.RemoveInv.Mid` sandwiches the mined buckets of a store between the books `B = bookOf c.p c.own chain` of the
  chain for the full keystore table and the books `B' = bookOf c.p own' chain` for the table without `w`.  When the
  follower has been running while `w` was flagged (not ready: its outputs / spends in the new blocks are NOT booked), the
  upper bound is no longer `B` but the JOIN of `B'` (whole chain) with `w`'s own books up to the height at which it was
  flagged.  `MidU` is `Mid` with the upper book `U` as a parameter; `UpperOK` collects everything the proofs use about it.
    instance `U = bookOf c.p c.own chain`                : `MW.Lemmas.RemoveUpper.upperOK_bookOf`  (then `MidU = Mid`)
    instance `U = B' ⊕ bookOf (ownW c.own w) (chain.take (k+1))` : `MW.Lemmas.RemoveJoin.upperOK_join`
-/
import MW.Lemmas.RemoveInv
namespace MW.Lemmas.RemoveUpper
open MW MW.Model.Ledger MW.Model.Remove MW.Spec.Chain MW.Spec.Books MW.Lemmas.Ledger MW.Lemmas.RemoveProj
  MW.Lemmas.RemoveChar MW.Lemmas.RemoveBooks MW.Lemmas.RemoveInv

/-- what the removal proofs use about the upper book `U` (all of it holds of the books of a valid chain: `credit_occ`,
    `spKey_debit`, `debit_credit`, `txrec_occ`, `bookOf_minus`, `char_keysOK`) -/
structure UpperOK (c : Ctx) (w : Wid) (own' : Own) (chain : List Block) (U : Book) : Prop where
  /-- the books for the table without `w` are `U` restricted to the other wallets -/
  minus : BookMinus c.own own' w (occs chain) U (bookOf c.p own' chain)
  /-- one ledger entry per outpoint -/
  keys : ∀ u ∈ U.L, ∀ u' ∈ U.L, u.tx = u'.tx → u.idx = u'.idx → u = u'
  creditOcc : ∀ ck cr, U.credits ck = some cr → ∃ oc ∈ occs chain, oc.t.id = ck.tx ∧ oc.bm = ck.blk
  spKeyDebit : ∀ ck dk cr, U.credits ck = some cr → spKey cr = some dk →
    (∃ amt, U.debits dk = some (amt, ck)) ∧ ∃ oc ∈ occs chain, oc.t.id = dk.tx ∧ oc.bm = dk.blk
  debitCredit : ∀ dk d, U.debits dk = some d → ∃ cr, U.credits d.2 = some cr ∧ spKey cr = some dk
  txrecOcc : ∀ k loc, U.txrecs k = some loc → ∃ oc ∈ occs chain, k = (oc.t.id, oc.bm) ∧ loc = (oc.bm.hash, oc.ti)

/-- `Mid` relative to the upper book `U`.  `pendOff` is asked only of unmined credits of OTHER script hashes (the ones of
    the removed wallet go with the next step and never make a transaction non-removable). -/
structure MidU (c : Ctx) (w : Wid) (addrs : List Addr) (own' : Own) (s : Store) (chain : List Block) (U : Book) : Prop where
  nodup : KeysNodup s.credits
  credits : ∀ k, AMap.get s.credits k = U.credits k ∨
    (AMap.get s.credits k = none ∧ ∃ cr, U.credits k = some cr ∧ isW c.own w cr.sh = true)
  debits : ∀ dk, AMap.get s.debits dk = U.debits dk ∨
    (AMap.get s.debits dk = none ∧ ∃ d cr, U.debits dk = some d ∧ U.credits d.2 = some cr ∧ isW c.own w cr.sh = true)
  debitsW : ∀ dk d cr, AMap.get s.debits dk = some d → U.credits d.2 = some cr →
    isW c.own w cr.sh = true → AMap.get s.credits d.2 = some cr
  unspent : ∀ w' tx idx, AMap.get s.unspent (w', tx, idx) =
    ((lookupU U.L tx idx).filter (fun u => decide (u.wallet = w'))).map (·.blk)
  game : ∀ k, AMap.get s.game k = U.game k
  txrecs : ∀ k, AMap.get s.txrecs k = U.txrecs k ∨
    (AMap.get s.txrecs k = none ∧ (bookOf c.p own' chain).txrecs k = none)
  txrecsW : ∀ k loc, AMap.get s.txrecs k = some loc → (bookOf c.p own' chain).txrecs k = none →
    ∃ ck cr, AMap.get s.credits ck = some cr ∧ isW c.own w cr.sh = true ∧
      ((ck.tx = k.1 ∧ ck.blk.height = k.2.height) ∨
        ∃ dk, spKey cr = some dk ∧ dk.tx = k.1 ∧ dk.blk.height = k.2.height)
  blocks : ∀ h, AMap.get s.blocks h = blockRecOf (fun k => (AMap.get s.txrecs k).isSome) chain h
  /-- balances of the OTHER ready wallets -/
  bal : ∀ w', w' ≠ w → (readyWallets s c.wallets).contains w' = true →
    AMap.get s.balance w' = some (totalU U.L w')
  sync : ∀ h, AMap.get s.sync h = syncOf chain h
  syncedTo : s.syncedTo + 1 = chain.length
  pendOff : ∀ e ∈ s.pendCred, addrs.contains e.2.sh = false → e.1.1 ∉ idsOf (occs chain)

end MW.Lemmas.RemoveUpper
