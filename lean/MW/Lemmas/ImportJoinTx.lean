/-
  C07 stage 1 with other wallets in the instance, part 3 — ONE TRANSACTION of the rescan against the joined book.
  `AgreeJ s Br Bw`: the mined buckets of the store are the join of `Br` (books of the ready wallets, whole chain)
  and `Bw` (books of the restored wallet, chain up to the cursor).  `addImp_join`: given the record step
  (`recordForImporting`, handled in ImportJoinRec), `addRelevantTxForImporting` on a transaction that touches
  `Bw` succeeds and leaves the store in agreement with the join of `Br` and `applyOcc … Bw`.
  The fold lemmas are the library's `spendFold_refines` / `createFold_refines` without `AllReady`: readiness is
  asked of the coins actually hit / the outputs actually owned by the restricted view only.
-/
import MW.Lemmas.ImportJoin
import MW.Lemmas.LedgerLoc
import MW.Lemmas.LedgerWF
namespace MW.Lemmas.ImportJoin
open MW MW.Model.Ledger MW.Model.Import MW.Spec.Chain MW.Spec.Books MW.Lemmas.Ledger

-- ------------------------------------------------------------------ fold lemmas without `AllReady`

theorem spendFold_refines' {p : Params} {own : Own} {ready : List Wid} {tr : TxRec} {blk : BlockMeta}
    (is : List Inp) :
    ∀ (k : Nat) (s : Store) (bals : Bals) (B : Book),
      Agree s B → AgreeBal ready bals B → Loc p own B → LocG B →
      (∀ m i, is[m]? = some i → tr.tx.ins[k + m]? = some i) →
      (is.map opOf).Nodup →
      (∀ i ∈ is, ∀ u, lookupU B.L i.tx i.idx = some u → ready.contains u.wallet = true) →
      ∃ sb', (hitsFrom B.L is k).foldlM (spendOne tr blk) (s, bals) = .ok sb' ∧
        Agree sb'.1 (foldIdx (spendB p tr.tx blk) is k B) ∧
        AgreeBal ready sb'.2 (foldIdx (spendB p tr.tx blk) is k B) ∧
        Loc p own (foldIdx (spendB p tr.tx blk) is k B) ∧ LocG (foldIdx (spendB p tr.tx blk) is k B) ∧
        SameSync s sb'.1 := by
  induction is with
  | nil =>
    intro k s bals B hR hB hL hG _ _ _
    exact ⟨(s, bals), rfl, hR, hB, hL, hG, SameSync.refl s⟩
  | cons i is ih =>
    intro k s bals B hR hB hL hG hidx hnd hrdy
    have hi : tr.tx.ins[k]? = some i := by simpa using hidx 0 i rfl
    have hidx' : ∀ m i', is[m]? = some i' → tr.tx.ins[k + 1 + m]? = some i' := by
      intro m i' hm
      have := hidx (m + 1) i' (by simpa using hm)
      rw [show k + 1 + m = k + (m + 1) by omega]; exact this
    simp only [List.map_cons, List.nodup_cons] at hnd
    have hne : ∀ i' ∈ is, ¬ (i.tx = i'.tx ∧ i.idx = i'.idx) := by
      intro i' hi' hk
      apply hnd.1
      have : opOf i = opOf i' := by unfold opOf; rw [hk.1, hk.2]
      rw [this]; exact List.mem_map.2 ⟨i', hi', rfl⟩
    rw [foldIdx_cons]
    cases hu : lookupU B.L i.tx i.idx with
    | none =>
      rw [spendB_miss hu]
      have : hitsFrom B.L (i :: is) k = hitsFrom B.L is (k + 1) := by
        conv => lhs; unfold hitsFrom
        rw [hu]; rfl
      rw [this]
      exact ih (k + 1) s bals B hR hB hL hG hidx' hnd.2 (fun i' hi' => hrdy i' (List.mem_cons_of_mem _ hi'))
    | some u =>
      have hready : ready.contains u.wallet = true := hrdy i (List.mem_cons_self ..) u hu
      obtain ⟨sb1, h1, hR1, hB1, hL1, hG1, hS1⟩ :=
        spendOne_refines (tr := tr) (blk := blk) (k := k) hR hB hL hG hi hu hready
      have hh : hitsFrom B.L (i :: is) k =
          { index := k, out := u.out, wallet := u.wallet, change := u.change } :: hitsFrom B.L is (k + 1) := by
        conv => lhs; unfold hitsFrom
        rw [hu]; rfl
      have hf : hitsFrom B.L is (k + 1) = hitsFrom (spendB p tr.tx blk B k i).L is (k + 1) := by
        rw [spendB_L_hit hu, hitsFrom_filter _ _ _ _ _ hne]
      rw [hh, List.foldlM_cons, h1, hf]
      have hrdy' : ∀ i' ∈ is, ∀ u', lookupU (spendB p tr.tx blk B k i).L i'.tx i'.idx = some u' →
          ready.contains u'.wallet = true := by
        intro i' hi' u' hu'
        rw [spendB_L_hit hu, lookupU_filter] at hu'
        split at hu'
        · cases hu'
        · exact hrdy i' (List.mem_cons_of_mem _ hi') u' hu'
      obtain ⟨sb2, h2, hR2, hB2, hL2, hG2, hS2⟩ :=
        ih (k + 1) sb1.1 sb1.2 (spendB p tr.tx blk B k i) hR1 hB1 hL1 hG1 hidx' hnd.2 hrdy'
      exact ⟨sb2, h2, hR2, hB2, hL2, hG2, hS1.trans hS2⟩

theorem createFold_refines' {p : Params} {own ow : Own} {ready : List Wid} {tr : TxRec} {blk : BlockMeta}
    (hsub : ∀ o x, ownerOf ow o = some x → ownerOf own o = some x ∧ ready.contains x.1 = true) (os : List Out) :
    ∀ (j : Nat) (s : Store) (bals : Bals) (B : Book),
      Agree s B → AgreeBal ready bals B → Loc p own B → LocGx tr.tx.id B →
      (∀ m o, os[m]? = some o → (ownerOf ow o).isSome = true →
        B.credits ⟨tr.tx.id, blk, j + m⟩ = none ∧ lookupU B.L tr.tx.id (j + m) = none) →
      ∃ sb', (ownedFrom ow os j).foldlM (creditOne p tr blk) (s, bals) = .ok sb' ∧
        Agree sb'.1 (foldIdx (createB p ow tr.tx blk) os j B) ∧
        AgreeBal ready sb'.2 (foldIdx (createB p ow tr.tx blk) os j B) ∧
        Loc p own (foldIdx (createB p ow tr.tx blk) os j B) ∧
        LocGx tr.tx.id (foldIdx (createB p ow tr.tx blk) os j B) ∧
        SameSync s sb'.1 := by
  induction os with
  | nil =>
    intro j s bals B hR hB hL hG _
    exact ⟨(s, bals), rfl, hR, hB, hL, hG, SameSync.refl s⟩
  | cons o os ih =>
    intro j s bals B hR hB hL hG hfresh
    rw [foldIdx_cons]
    cases ho : ownerOf ow o with
    | none =>
      rw [createB_none ho]
      have : ownedFrom ow (o :: os) j = ownedFrom ow os (j + 1) := by
        conv => lhs; unfold ownedFrom
        rw [ho]; rfl
      rw [this]
      apply ih (j + 1) s bals B hR hB hL hG
      intro m o' hm ho'
      have := hfresh (m + 1) o' (by simpa using hm) ho'
      rw [show j + 1 + m = j + (m + 1) by omega]; exact this
    | some wc =>
      obtain ⟨w, ch⟩ := wc
      obtain ⟨ho', hready⟩ := hsub o (w, ch) ho
      have hf0 := hfresh 0 o rfl (by rw [ho]; rfl)
      obtain ⟨sb1, h1, hR1, hB1, hL1, hG1, hS1⟩ :=
        creditOne_refines (tr := tr) (blk := blk) (j := j) hR hB hL hG ho' hready hf0.1 hf0.2
      have hcong : createB p own tr.tx blk B j o = createB p ow tr.tx blk B j o :=
        createB_own_congr B (by rw [ho, ho'])
      rw [hcong] at hR1 hB1 hL1 hG1
      have hh : ownedFrom ow (o :: os) j =
          { index := j, out := o, wallet := w, change := ch } :: ownedFrom ow os (j + 1) := by
        conv => lhs; unfold ownedFrom
        rw [ho]; rfl
      rw [hh, List.foldlM_cons, h1]
      have hfresh' : ∀ m o', os[m]? = some o' → (ownerOf ow o').isSome = true →
          (createB p ow tr.tx blk B j o).credits ⟨tr.tx.id, blk, j + 1 + m⟩ = none ∧
          lookupU (createB p ow tr.tx blk B j o).L tr.tx.id (j + 1 + m) = none := by
        intro m o' hm ho''
        obtain ⟨hLe, hCe⟩ := createB_owned (p := p) (t := tr.tx) (bm := blk) (B := B) (j := j) ho
        rw [hLe, hCe]
        have hf := hfresh (m + 1) o' (by simpa using hm) ho''
        rw [show j + (m + 1) = j + 1 + m by omega] at hf
        constructor
        · have : ¬ ((⟨tr.tx.id, blk, j⟩ : CredKey) = ⟨tr.tx.id, blk, j + 1 + m⟩) := by
            intro h; injection h with _ _ h3; omega
          simp only [upd_apply, this, if_false]; exact hf.1
        · rw [lookupU_append_single, hf.2]
          have : ¬ (j = j + 1 + m) := by omega
          simp [this]
      obtain ⟨sb2, h2, hR2, hB2, hL2, hG2, hS2⟩ :=
        ih (j + 1) sb1.1 sb1.2 (createB p ow tr.tx blk B j o) hR1 hB1 hL1 hG1 hfresh'
      exact ⟨sb2, h2, hR2, hB2, hL2, hG2, hS1.trans hS2⟩

-- ------------------------------------------------------------------ block records are untouched by the book operations

theorem spendFold_blocks (p : Params) (t : Tx) (bm : BlockMeta) (is : List Inp) (k : Nat) (B : Book) :
    (foldIdx (spendB p t bm) is k B).blocks = B.blocks := by
  induction is generalizing k B with
  | nil => rfl
  | cons i is ih =>
    rw [foldIdx_cons, ih]
    unfold spendB
    cases lookupU B.L i.tx i.idx <;> rfl

theorem createFold_blocks (p : Params) (own : Own) (t : Tx) (bm : BlockMeta) (os : List Out) (j : Nat) (B : Book) :
    (foldIdx (createB p own t bm) os j B).blocks = B.blocks := by
  induction os generalizing j B with
  | nil => rfl
  | cons o os ih =>
    rw [foldIdx_cons, ih]
    unfold createB
    cases ownerOf own o <;> rfl

-- ------------------------------------------------------------------ the store against a join

/-- the mined buckets of the store (but the block records) are the join of `Br` and `Bw` -/
structure AgreeJ (s : Store) (Br Bw : Book) : Prop where
  unspent : ∀ w tx idx, AMap.get s.unspent (w, tx, idx) =
    ((lookupU (Br.L ++ Bw.L) tx idx).filter (fun u => decide (u.wallet = w))).map (·.blk)
  credits : ∀ k, AMap.get s.credits k = orE (Br.credits k) (Bw.credits k)
  debits : ∀ k, AMap.get s.debits k = orE (Br.debits k) (Bw.debits k)
  game : ∀ k, AMap.get s.game k = orE (Br.game k) (Bw.game k)
  txrecs : ∀ k, AMap.get s.txrecs k = orE (Br.txrecs k) (Bw.txrecs k)

/-- the joined book, with the store's own block and address records -/
def joinS (s : Store) (Br Bw : Book) : Book :=
  { L := Br.L ++ Bw.L,
    credits := fun k => orE (Br.credits k) (Bw.credits k),
    debits := fun k => orE (Br.debits k) (Bw.debits k),
    game := fun k => orE (Br.game k) (Bw.game k),
    txrecs := fun k => orE (Br.txrecs k) (Bw.txrecs k),
    blocks := fun h => AMap.get s.blocks h,
    addrs := fun k => AMap.get s.addrs k }

theorem eqJ_joinS (s : Store) (Br Bw : Book) : EqJ (joinS s Br Bw) Br Bw :=
  ⟨rfl, fun _ => rfl, fun _ => rfl, fun _ => rfl, fun _ => rfl⟩

theorem AgreeJ.toAgree {s : Store} {Br Bw : Book} (h : AgreeJ s Br Bw) : Agree s (joinS s Br Bw) :=
  ⟨h.unspent, h.credits, h.debits, h.game, h.txrecs, fun _ => rfl, fun _ => rfl⟩

theorem AgreeJ.of {s : Store} {J Br Bw : Book} (h : Agree s J) (e : EqJ J Br Bw) : AgreeJ s Br Bw :=
  ⟨by intro w tx idx; rw [h.unspent, e.L], by intro k; rw [h.credits, e.credits],
   by intro k; rw [h.debits, e.debits], by intro k; rw [h.game, e.game], by intro k; rw [h.txrecs, e.txrecs]⟩

theorem totalU_append (A B : List UCoin) (w : Wid) : totalU (A ++ B) w = totalU A w + totalU B w := by
  unfold totalU
  rw [List.filter_append, List.map_append, List.sum_append]

theorem totalU_zero {A : List UCoin} {w : Wid} (h : ∀ u ∈ A, u.wallet ≠ w) : totalU A w = 0 := by
  unfold totalU
  have : A.filter (fun u => decide (u.wallet = w)) = [] := by
    rw [List.filter_eq_nil_iff]
    intro u hu; simpa using h u hu
  rw [this]; rfl

/-- what the record step (`recordForImporting`) may change: tx records and block records only -/
structure RecOnly (s s1 : Store) : Prop where
  unspent : s1.unspent = s.unspent
  credits : s1.credits = s.credits
  debits : s1.debits = s.debits
  game : s1.game = s.game
  addrs : s1.addrs = s.addrs
  sync : SameSync s s1

section
variable {p : Params} {own or ow : Own} {w : Wid}

/-- **one transaction of the rescan against the joined book** -/
theorem addImp_join (hOr : OwnSub own or (fun x => decide (x ≠ w))) (hOw : OwnSub own ow (fun x => decide (x = w)))
    {C P rest : List Occ} {oc : Occ} (hC : C = P ++ oc :: rest) {Br : Book} (hS : SepR own w C Br)
    (hLr : Loc p or Br) (hGr : LocG Br)
    {s s1 : Store} {bals : Bals} {Bw : Book} {tr : TxRec}
    (hGl : Glob ow P Bw) (hV : OccValid ow P oc) (hLw : Loc p ow Bw) (hGw : LocG Bw)
    (hA : AgreeJ s Br Bw) (hB : AgreeBal [w] bals Bw)
    (htx : tr.tx = oc.t)
    (hin : tr.relIn = if oc.t.cb then [] else hitsFrom Bw.L oc.t.ins 0)
    (hout : tr.relOut = ownedFrom ow oc.t.outs 0)
    (htouch : Spec.Books.touches ow Bw oc.t = true)
    (hrec : recordForImporting s tr oc.bm = .ok s1) (hRO : RecOnly s s1)
    (hrtx : ∀ key, AMap.get s1.txrecs key =
      if (oc.t.id, oc.bm) = key then orE (AMap.get s.txrecs key) (some (oc.bm.hash, oc.ti)) else AMap.get s.txrecs key) :
    ∃ sb', addRelevantTxForImporting p own s bals tr oc.bm = .ok sb' ∧
      AgreeJ sb'.1 Br (applyOcc p ow Bw oc) ∧ AgreeBal [w] sb'.2 (applyOcc p ow Bw oc) ∧ SameSync s sb'.1 ∧
      (∀ k, AMap.get sb'.1.txrecs k = AMap.get s1.txrecs k) ∧
      (∀ h, AMap.get sb'.1.blocks h = AMap.get s1.blocks h) := by
  have hocC : oc ∈ C := by rw [hC]; simp
  have hfresh := glob_fresh hGl hV
  -- coins of `w`
  have hWC : ∀ {u : UCoin}, CreatedIn ow (P ++ [oc]) u → WCoin own w C u := by
    intro u hu
    obtain ⟨h1, h2⟩ := (createdIn_sub hOw).1 hu
    refine ⟨?_, by simpa using h2⟩
    have := createdIn_mono (Q := rest) h1
    rw [hC]; simpa using this
  have hWL : ∀ u ∈ Bw.L, WCoin own w C u := fun u hu => hWC (createdIn_mono ((hGl.mem u).1 hu).1)
  have hBrNoW : ∀ u ∈ Br.L, u.wallet ≠ w := fun u hu => (hS.L u hu).2.1
  have htot : ∀ (X : Book), EqJ X Br (X) → True := fun _ _ => trivial
  -- the record step
  have hR1 : Agree s1 (joinS s1 Br (recordB Bw oc)) := by
    constructor
    · intro a b c; rw [hRO.unspent]; exact hA.unspent a b c
    · intro k; rw [hRO.credits]; exact hA.credits k
    · intro k; rw [hRO.debits]; exact hA.debits k
    · intro k; rw [hRO.game]; exact hA.game k
    · intro key
      show _ = orE (Br.txrecs key) (upd Bw.txrecs (oc.t.id, oc.bm) (some (oc.bm.hash, oc.ti)) key)
      rw [hrtx key, upd_apply]
      by_cases hk : (oc.t.id, oc.bm) = key
      · subst hk
        simp only [if_true]
        rw [hA.txrecs, (hfresh oc.bm 0).2.2]
        cases Br.txrecs (oc.t.id, oc.bm) <;> rfl
      · simp only [hk, if_false]; exact hA.txrecs key
    · intro _; rfl
    · intro _; rfl
  have hE1 : EqJ (joinS s1 Br (recordB Bw oc)) Br (recordB Bw oc) := eqJ_joinS ..
  have hLw1 : Loc p ow (recordB Bw oc) := hLw.congr rfl rfl
  have hL1 : Loc p own (joinS s1 Br (recordB Bw oc)) :=
    loc_join hOr hOw hE1 hLr hLw1 (fun u hu => ⟨sep_L hS (hWL u hu), sep_cred hS (hWL u hu)⟩)
  have hG1 : LocG (joinS s1 Br (recordB Bw oc)) :=
    locG_join hE1 hGr (show LocG (recordB Bw oc) from hGw)
      (fun u hu => sep_game hS _ (hWL u hu).2)
  have hB1 : AgreeBal [w] bals (joinS s1 Br (recordB Bw oc)) := by
    intro w' hw'
    have : w' = w := by simpa using hw'
    subst this
    rw [hB w' hw']
    show _ = some (totalU (Br.L ++ Bw.L) w')
    rw [totalU_append, totalU_zero hBrNoW, Nat.zero_add]
  -- spends
  have hspend : ∃ sb1 J2, updateMinedBalance s1 bals tr oc.bm = .ok sb1 ∧
      Agree sb1.1 J2 ∧ EqJ J2 Br (spendStep p (recordB Bw oc) oc) ∧ AgreeBal [w] sb1.2 J2 ∧
      Loc p own J2 ∧ LocG J2 ∧ SameSync s1 sb1.1 ∧
      J2.txrecs = (joinS s1 Br (recordB Bw oc)).txrecs ∧ J2.blocks = (joinS s1 Br (recordB Bw oc)).blocks := by
    unfold updateMinedBalance spendStep
    by_cases hcb : oc.t.cb = true
    · rw [hin]; simp only [hcb, if_true]
      exact ⟨(s1, bals), _, rfl, hR1, hE1, hB1, hL1, hG1, SameSync.refl _, rfl, rfl⟩
    · have hcb' : oc.t.cb = false := by simpa using hcb
      rw [hin]; simp only [hcb', Bool.false_eq_true, if_false]
      have hrBr : ∀ i ∈ oc.t.ins, lookupU Br.L i.tx i.idx = none := fun i hi => sep_ins hS hocC hcb' hi
      have hhits := hits_join hE1 oc.t.ins 0 hrBr
      have := spendFold_refines' (p := p) (own := own) (ready := [w]) (tr := tr) (blk := oc.bm) oc.t.ins 0 s1 bals
        (joinS s1 Br (recordB Bw oc)) hR1 hB1 hL1 hG1 (by intro m i hm; rw [htx]; simpa using hm) (hV.2.2.1 hcb')
        (by
          intro i hi u hu
          have hu' : lookupU (Br.L ++ Bw.L) i.tx i.idx = some u := hu
          rw [lookupU_append, hrBr i hi] at hu'
          have := (hWL u (lookupU_some hu').1).2
          simp [this])
      rw [hhits, htx] at this
      obtain ⟨sb1, h1, h2, h3, h4, h5, h6⟩ := this
      refine ⟨sb1, _, h1, h2, ?_, h3, h4, h5, h6, spendFold_txrecs .., spendFold_blocks ..⟩
      apply eqJ_spendFold oc.t.ins 0 _ _ hE1 hrBr
      · intro u hu
        exact ⟨sep_cred hS (hWL u hu), fun b => sep_game hS _ (hWL u hu).2⟩
      · intro m i u hm hu ht hi
        apply sep_debit hS (hWL u hu)
        exact ⟨oc, hocC, hcb', m, i, by simpa using hm, by unfold opOf; rw [ht, hi], by simp⟩
  obtain ⟨sb1, J2, hs1, hR2, hE2, hB2, hL2, hG2, hS2, hT2, hK2⟩ := hspend
  -- the w-side books after record + spends mention nothing of this transaction
  have hF2 : ∀ bm j, (spendStep p (recordB Bw oc) oc).credits ⟨oc.t.id, bm, j⟩ = none ∧
      lookupU (spendStep p (recordB Bw oc) oc).L oc.t.id j = none := by
    have hF1 : ∀ bm j, (recordB Bw oc).credits ⟨oc.t.id, bm, j⟩ = none ∧ lookupU (recordB Bw oc).L oc.t.id j = none :=
      fun bm j => ⟨(hfresh bm j).1, (hfresh bm j).2.1⟩
    unfold spendStep
    by_cases hcb : oc.t.cb = true
    · simp only [hcb, if_true]; exact hF1
    · simp only [hcb]; exact spendFold_freshCL oc.t.ins 0 _ hF1
  -- an output of this transaction that `w` owns is a coin of `w`
  have hnew : ∀ m o, oc.t.outs[m]? = some o → (ownerOf ow o).isSome = true →
      WCoin own w C ⟨w, oc.t.id, m, oc.bm, oc.t.cb, o, ((ownerOf ow o).map (·.2)).getD false⟩ := by
    intro m o hm ho
    obtain ⟨x, hx⟩ := Option.isSome_iff_exists.1 ho
    obtain ⟨w', ch⟩ := x
    obtain ⟨h1, h2⟩ := (ownerOf_sub_some hOw).1 hx
    have hw' : w' = w := by simpa using h2
    subst hw'
    refine ⟨⟨oc, hocC, rfl, hm, ?_, rfl, rfl⟩, rfl⟩
    rw [hx]; exact h1
  -- the pending side does not touch the mined buckets
  have hM : MinedEq sb1.1 (removeDoubleSpends own (unpendMined sb1.1 tr.tx) tr) :=
    (minedEq_unpendMined sb1.1 tr.tx).trans (minedEq_removeDoubleSpends own _ tr)
  have hR3 := hM.agree hR2
  -- credits
  have hcreate := createFold_refines' (p := p) (own := own) (ow := ow) (ready := [w]) (tr := tr) (blk := oc.bm)
    (by
      intro o x hx
      obtain ⟨h1, h2⟩ := (ownerOf_sub_some hOw).1 hx
      have : x.1 = w := by simpa using h2
      exact ⟨h1, by simp [this]⟩)
    oc.t.outs 0 (removeDoubleSpends own (unpendMined sb1.1 tr.tx) tr) sb1.2 J2 hR3 hB2 hL2
    (by rw [htx]; exact hG2.toLocGx _)
    (by
      intro m o hm ho
      rw [htx, Nat.zero_add]
      have hwc := hnew m o hm ho
      constructor
      · rw [hE2.credits, (hF2 oc.bm m).1]
        have := sep_cred hS hwc
        unfold UCoin.credKey at this
        simp only at this
        rw [this]; rfl
      · rw [hE2.L, lookupU_append, (hF2 oc.bm m).2]
        have := sep_L hS hwc
        simp only at this
        rw [this]; rfl)
  rw [htx] at hcreate
  obtain ⟨sb2, hs2, hR4, hB4, hL4, hG4, hS4⟩ := hcreate
  have hE4 : EqJ (foldIdx (createB p ow oc.t oc.bm) oc.t.outs 0 J2) Br
      (foldIdx (createB p ow oc.t oc.bm) oc.t.outs 0 (spendStep p (recordB Bw oc) oc)) := by
    apply eqJ_createFold oc.t.outs 0 _ _ hE2
    intro m o hm ho
    have := sep_cred hS (hnew m o hm ho)
    unfold UCoin.credKey at this
    simp only at this
    rw [Nat.zero_add]; exact this
  -- deposit records
  obtain ⟨hR5, hS5⟩ := depositFold_refines (own := ow) (tr := tr) (blk := oc.bm) oc.t.outs 0 sb2.1 _ hR4
  rw [htx] at hR5
  have hE5 : EqJ (foldIdx (depositB ow oc.t oc.bm) oc.t.outs 0 (foldIdx (createB p ow oc.t oc.bm) oc.t.outs 0 J2)) Br
      (foldIdx (depositB ow oc.t oc.bm) oc.t.outs 0
        (foldIdx (createB p ow oc.t oc.bm) oc.t.outs 0 (spendStep p (recordB Bw oc) oc))) := by
    apply eqJ_depositFold oc.t.outs 0 _ _ hE4
    intro gk ⟨o, _, ch, ho⟩
    obtain ⟨_, h2⟩ := (ownerOf_sub_some hOw).1 ho
    exact sep_game hS gk (by simpa using h2)
  have hBfin : applyOcc p ow Bw oc =
      foldIdx (depositB ow oc.t oc.bm) oc.t.outs 0
        (foldIdx (createB p ow oc.t oc.bm) oc.t.outs 0 (spendStep p (recordB Bw oc) oc)) := by
    rw [applyOcc_eq]; unfold recStep; rw [htouch]; rfl
  have hdl := depositFold_L ow oc.t oc.bm oc.t.outs 0 (foldIdx (createB p ow oc.t oc.bm) oc.t.outs 0 J2)
  have hdlw := depositFold_L ow oc.t oc.bm oc.t.outs 0
    (foldIdx (createB p ow oc.t oc.bm) oc.t.outs 0 (spendStep p (recordB Bw oc) oc))
  refine ⟨((gameOuts tr).foldl (gameOne tr oc.bm) sb2.1, sb2.2), ?_, ?_, ?_, ?_, ?_, ?_⟩
  · unfold addRelevantTxForImporting insertMinedTxForImporting
    rw [hrec]
    simp only [hs1, bind, Except.bind]
    rw [addCredits_eq, hout, htx]
    simp only [bind, Except.bind]
    rw [hs2]
    rfl
  · rw [hBfin]
    unfold gameOuts; rw [hout]
    exact AgreeJ.of hR5 hE5
  · rw [hBfin]
    intro w' hw'
    rw [hB4 w' hw']
    have : w' = w := by simpa using hw'
    subst this
    rw [hE4.L, totalU_append, totalU_zero hBrNoW, Nat.zero_add, hdlw.1]
  · have hM' : MinedEq sb1.1 (removeDoubleSpends own (unpendMined sb1.1 oc.t) tr) := by rw [← htx]; exact hM
    refine hRO.sync.trans (hS2.trans (SameSync.trans hM'.sameSync (hS4.trans ?_)))
    unfold gameOuts; rw [hout]; exact hS5
  · intro k
    unfold gameOuts; rw [hout]
    rw [hR5.txrecs, hdl.2.2.2.1, createFold_txrecs, hT2]
    exact (hR1.txrecs k).symm
  · intro h
    unfold gameOuts; rw [hout]
    rw [hR5.blocks, hdl.2.2.2.2.1, createFold_blocks, hK2]
    rfl

end
end MW.Lemmas.ImportJoin
