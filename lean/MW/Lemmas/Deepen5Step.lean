/-
  C06 deepening (round 5), part 2: ONE ITERATION of the removal in the relaxed state `JRW` (C08 round 7's `P2W` in place
  of `Mid`): `removeStep_midW` (the bridge from the `Op` level to the model step), `remDone_JQW`, `JRW_removeStep`.
-/
import MW.Lemmas.Deepen5Defs
namespace MW.Lemmas.Deepen5
open MW MW.Model.Ledger MW.Model.Persist MW.Spec.Persist MW.Spec.Chain MW.Spec.Books MW.Lemmas.Ledger
  MW.Lemmas.PersistOp MW.Lemmas.PersistFault MW.Lemmas.PersistCrash MW.Lemmas.Deepen3 MW.Lemmas.Deepen4

/-- C08's pending-side clause at a removal step (`DomW` asks it there), stated for every chain the height table describes -/
def PendGuard (P : PStore) (addrs : List Addr) : Prop :=
  ∀ X, (∀ h, AMap.get P.led.sync h = syncOf X h) → MW.Lemmas.RemoveGlue.PendOK addrs P.led X

/-- one run of the removal step on a store in the relaxed in-progress state `P2W` (cf. `removeStep_mid`) -/
theorem removeStep_midW {st : Deepen3.Static} {ks : AMap.T Wid KsRec} {w : Wid} {r : KsRec} {chain X : List Block}
    (limit nR : Nat) {P : PStore} {V : PVol} {stt : WStatus} {g : Store} {kk : Nat}
    (hks : P.ks = ks) (hkeys : V.keys = ks) (hr : AMap.get ks w = some r)
    (H : MW.Lemmas.RemoveInv.RemHyp ((lenv st ks).ctx chain) w (addrsOf ks w) (ownOf (AMap.erase ks w)) X)
    (hS : MW.Lemmas.RemoveInterleave.Static ((lenv st ks).ctx chain) w (addrsOf ks w) (ownOf (AMap.erase ks w)))
    (hM : MW.Lemmas.RemoveInterleave.P2W ((lenv st ks).ctx chain) w (addrsOf ks w) (ownOf (AMap.erase ks w)) g P.led X kk)
    (hp : MW.Lemmas.RemoveGlue.PendOK (addrsOf ks w) P.led X)
    (hst : AMap.get P.led.status w = some stt)
    (hOth : ∀ a w' ch, AMap.get (ownOf ks) a = some (w', ch) → w' ≠ w → readyB P.led w' = true)
    (res : Res) (hres : res = (opRemoveStep limit nR (envAt st chain) w (addrsOf V.keys w)).run none P V) :
    (res.ok = false → res.P = P ∧ res.V = V) ∧
    (res.ok = true → removeDone res.P w = false →
      res.P.ks = ks ∧ res.V.keys = ks ∧ res.V.tasks = V.tasks ∧ res.V.led.best = V.led.best ∧
      MW.Lemmas.RemoveInterleave.P2W ((lenv st ks).ctx chain) w (addrsOf ks w) (ownOf (AMap.erase ks w)) g res.P.led X kk ∧
      res.P.led.status = P.led.status) ∧
    (res.ok = true → removeDone res.P w = true →
      RemDone st ks w chain X P res.P res.V ∧ res.V.tasks = V.tasks ∧ res.V.led.best = V.led.best) := by
  have hrP : AMap.get P.ks w = some r := by rw [hks]; exact hr
  have hrV : AMap.get V.keys w = some r := by rw [hkeys]; exact hr
  have hcl := removeStep_none limit nR (envAt st chain) w (addrsOf ks w) P V r r hrP hrV
  rw [ctx_eq, hkeys] at hcl
  rw [hkeys] at hres
  rw [← hres] at hcl
  clear hres
  have HU := MW.Lemmas.RemoveJoin.upperOK_join H hS.keys hM.len
  have hMU := MW.Lemmas.RemoveUpper.midUW_of_midCW hM.mid hp
  cases hs : Model.Remove.removeStep limit ((lenv st ks).ctx chain) w (addrsOf ks w) P.led with
  | none =>
    rw [hs] at hcl
    simp only at hcl
    rw [hcl]
    exact ⟨fun _ => ⟨rfl, rfl⟩, fun h => (by cases h), fun h => (by cases h)⟩
  | some o =>
    rw [hs] at hcl
    simp only at hcl
    obtain ⟨hnf, hf⟩ := removeStep_model_status H.ne hs
    by_cases hfin : o.finish = true
    · rw [if_pos hfin] at hcl
      rw [hcl]
      have hstat := hf hfin
      have hgone : AMap.get o.s.status w = none := by rw [hstat, AMap.get_erase]; simp
      refine ⟨fun h => (by cases h), fun _ hd => ?_, fun _ _ => ⟨⟨?_, ?_, hgone, ?_, ?_, ?_⟩, rfl, rfl⟩⟩
      · exfalso
        have : removeDone ({ led := o.s, ks := AMap.erase P.ks w } : PStore) w = true := by
          unfold removeDone; rw [hgone]; rfl
        rw [this] at hd; cases hd
      · show AMap.erase P.ks w = _; rw [hks]
      · show AMap.erase V.keys w = _; rw [hkeys]
      · exact MW.Lemmas.RemoveUpper.finish_projects_UW limit H HU hMU (walletsOf (AMap.erase ks w))
          (fun x hx => (mem_walletsOf_erase.1 hx).1) hs hfin
      · refine MW.Lemmas.RemoveMain.finish_allReady limit H (walletsOf (AMap.erase ks w)) ?_ hs hfin
        intro a w' ch hg hne
        exact mem_readyWallets.2 ⟨mem_walletsOf_erase.2 ⟨(own_wallet_mem (amap_mem_of_get hg)).1, hne⟩,
          hOth a w' ch hg hne⟩
      · intro w' hw'
        show readyB o.s w' = readyB P.led w'
        unfold readyB
        rw [hstat, AMap.get_erase, if_neg (fun e => hw' e.symm)]
    · have hfin' : o.finish = false := by simpa using hfin
      rw [if_neg hfin] at hcl
      rw [hcl]
      have hstat := hnf hfin'
      refine ⟨fun h => (by cases h), fun _ _ => ⟨hks, rfl, rfl, rfl, ?_, hstat⟩, fun _ hd => ?_⟩
      · have hM' := MW.Lemmas.RemoveUpper.parked_step_UW limit H HU hMU hs hfin'
        have hSub' := MW.Lemmas.RemoveSimW.subW_removeStep_parked hS.ne hM.sub hMU.nodup
          (MW.Lemmas.RemoveSimW.ghostDeb_of_scanJS H hS.keys hM.len hM.ghost.scan)
          (MW.Lemmas.RemoveSimW.ghostBlk_of_scanJS H hS.keys hM.len hM.ghost.scan) hs hfin'
        have hR' := MW.Lemmas.RemoveKeep.removeStep_reach limit _ w (addrsOf ks w) P.led o hS.ne hs hM.reach
        exact ⟨hM.len, hM.ghost, hSub', hR', MW.Lemmas.RemoveUpper.midCW_of_midUW hM'⟩
      · exfalso
        have : removeDone ({ led := o.s, ks := P.ks } : PStore) w = false := by
          unfold removeDone; rw [hstat, hst]; rfl
        rw [this] at hd; cases hd

/-- the end of a removal reached from the relaxed state: round 3's invariant for the table without `w` -/
theorem remDone_JQW {cfg : Cfg} {G : Block} {x : SysQ} {k : Skel} {w : Wid} (hM : JRmidW cfg G x k w) {X : List Block}
    (hX : ChainOK (lenv cfg.st k.ks) G X) (hv : x.V.led.best = tipMeta X) (hpre : ∃ c ∈ k.hist, X <+: c)
    (hq0 : x.queue = [] → X = k.chain) {P' : PStore} {V' : PVol}
    (hD : RemDone cfg.st k.ks w k.chain X x.P P' V') (hbest : V'.led.best = x.V.led.best) :
    JRdone cfg G { x with P := P', V := V' } k w := by
  obtain ⟨hc, hks, hkeys, hnW, hnA, hrec, htask, _, hqk, hql, hN, hcur, hoth, ⟨w0, hw0, hw0m⟩⟩ := hM
  have hr0 : readyB P'.led w0 = true := by rw [hD.others w0 hw0]; exact hoth w0 hw0m hw0
  have hw0e : w0 ∈ walletsOf (AMap.erase k.ks w) := mem_walletsOf_erase.2 ⟨hw0m, hw0⟩
  refine ⟨⟨hc, hD.pks, hD.vkeys, ⟨X, ⟨?_, hbest.trans hv, chainOK_erase hnA w hX, hD.allReady, ?_, hqk, ?_, (fun h => by show x.queue.getLast? = x.chain.getLast?; rw [hc]; exact hql h)⟩, hpre⟩,
    chainOK_erase hnA w hN, hcur, walletsOf_erase_nodup hnW w, keysNodup_ownOf_erase hnA w, ?_⟩, hD.gone, hnA⟩
  · show Ledger.Inv ((lenv cfg.st (AMap.erase k.ks w)).ctx x.chain) P'.led X
    rw [hc]; exact hD.inv
  · show (readyWallets P'.led (walletsOf (AMap.erase k.ks w))).isEmpty = false
    have : (readyWallets P'.led (walletsOf (AMap.erase k.ks w))).contains w0 = true := mem_readyWallets.2 ⟨hw0e, hr0⟩
    cases hr : readyWallets P'.led (walletsOf (AMap.erase k.ks w)) with
    | nil => rw [hr] at this; cases this
    | cons _ _ => rfl
  · intro h
    exact (hq0 h).trans hc.symm
  · intro w' hw'
    obtain ⟨hm, hne⟩ := mem_walletsOf_erase.1 hw'
    show readyB P'.led w' = true
    rw [hD.others w' hne]; exact hoth w' hm hne

/-- ONE ITERATION of the removal in the relaxed state -/
theorem JRW_removeStep {cfg : Cfg} {G : Block} (cr : Bool) {x : SysQ} {k : Skel} {w : Wid} (hJ : JRW cfg G x k w)
    (hp : PendGuard x.P (addrsOf k.ks w)) :
    JRW cfg G (stepT cfg cr x (.removeStep w)) k w := by
  rcases hJ with hM | ⟨hQ, hgone, hnA⟩
  · have hM0 := hM
    have hst := hM.flagged
    obtain ⟨hc, hks, hkeys, hnW, hnA, ⟨r, hr, hrne⟩, htask, ⟨X, g, kk, hX, hP2, hv, hpre, hq0⟩, hqk, hql, hN, hcur, hoth, hother⟩ := hM
    have hnd : removeDone x.P w = false := by unfold removeDone; rw [hst]; rfl
    have H := remHyp_of (chain := k.chain) hX hnA hnW hr hrne
    have hS := static_of hX hnA hnW hr hrne k.chain
    have hpX := hp X hP2.mid.sync
    obtain ⟨sA, sB, sC⟩ := removeStep_midW (r := r) cfg.limit cfg.n hks hkeys hr H hS hP2 hpX hst (others_owner hoth) _ rfl
    have h1 : stepT cfg cr x (.removeStep w) =
        { x with P := ((opRemoveStep cfg.limit cfg.n (envAt cfg.st k.chain) w (addrsOf x.V.keys w)).run none x.P x.V).P,
                 V := if ((opRemoveStep cfg.limit cfg.n (envAt cfg.st k.chain) w (addrsOf x.V.keys w)).run none x.P x.V).ok &&
                        removeDone ((opRemoveStep cfg.limit cfg.n (envAt cfg.st k.chain) w (addrsOf x.V.keys w)).run none x.P x.V).P w
                      then dropTask ((opRemoveStep cfg.limit cfg.n (envAt cfg.st k.chain) w (addrsOf x.V.keys w)).run none x.P x.V).V (.rem w)
                      else ((opRemoveStep cfg.limit cfg.n (envAt cfg.st k.chain) w (addrsOf x.V.keys w)).run none x.P x.V).V } := by
      simp only [stepT, htask, hnd, Bool.not_false, Bool.and_self, if_true, hc]
    rw [h1]
    cases hok : ((opRemoveStep cfg.limit cfg.n (envAt cfg.st k.chain) w (addrsOf x.V.keys w)).run none x.P x.V).ok with
    | false =>
      obtain ⟨p1, p2⟩ := sA hok
      simp only [Bool.false_and, Bool.false_eq_true, if_false]
      rw [p1, p2]
      exact Or.inl hM0
    | true =>
      cases hdn : removeDone ((opRemoveStep cfg.limit cfg.n (envAt cfg.st k.chain) w (addrsOf x.V.keys w)).run none x.P x.V).P w with
      | false =>
        obtain ⟨q1, q2, q3, q4, q5, q6⟩ := sB hok hdn
        simp only [Bool.and_false, Bool.false_eq_true, if_false]
        refine Or.inl ⟨hc, q1, q2, hnW, hnA, ⟨r, hr, hrne⟩, by rw [q3]; exact htask,
          ⟨X, g, kk, hX, q5, q4.trans hv, hpre, hq0⟩, hqk, hql, hN, hcur, ?_, hother⟩
        intro w' hw' hne
        show readyB ((opRemoveStep cfg.limit cfg.n (envAt cfg.st k.chain) w (addrsOf x.V.keys w)).run none x.P x.V).P.led w' = true
        rw [readyB_status (s := x.P.led) (by rw [q6])]; exact hoth w' hw' hne
      | true =>
        obtain ⟨d1, _, d3⟩ := sC hok hdn
        simp only [Bool.and_self, if_true]
        exact Or.inr (remDone_JQW hM0 hX hv hpre hq0
          (V' := dropTask ((opRemoveStep cfg.limit cfg.n (envAt cfg.st k.chain) w (addrsOf x.V.keys w)).run none x.P x.V).V (.rem w))
          ⟨d1.pks, d1.vkeys, d1.gone, d1.inv, d1.allReady, d1.others⟩ d3)
  · have hnd : removeDone x.P w = true := by unfold removeDone; rw [hgone]; rfl
    have h1 : stepT cfg cr x (.removeStep w) = x := by
      simp only [stepT, hnd, Bool.not_true, Bool.and_false, Bool.false_eq_true, if_false]
    rw [h1]
    exact Or.inr ⟨hQ, hgone, hnA⟩

end MW.Lemmas.Deepen5
