/-
  Helper lemmas for C06 / C18: the generic transaction combinator `Op.run` of MW.Model.Persist.
-/
import MW.Model.Persist
namespace MW.Lemmas.PersistOp
open MW MW.Model.Ledger MW.Model.Persist

/-- a failed Update leaves the committed store untouched (the key/value layer's contract, C11) -/
theorem run_fail_store (o : Op) (f : Option Nat) (P : PStore) (V : PVol)
    (h : (o.run f P V).ok = false) : (o.run f P V).P = P := by
  unfold Op.run at h ⊢
  by_cases h0 : f = some 0
  · simp [h0]
  · rw [if_neg h0] at h ⊢
    rcases hr : runPhases f 1 0 o.phases P V with ⟨e, V', cnt, done⟩
    cases e with
    | error er => rfl
    | ok Pw =>
      by_cases hc : f = some cnt
      · simp [hc]
      · rw [hr] at h
        simp [hc] at h

/-- one operation = at most one batch write; exactly one iff it succeeded -/
theorem run_commits (o : Op) (f : Option Nat) (P : PStore) (V : PVol) :
    (o.run f P V).commits = if (o.run f P V).ok then 1 else 0 := by
  unfold Op.run
  by_cases h0 : f = some 0
  · simp [h0]
  · rw [if_neg h0]
    rcases hr : runPhases f 1 0 o.phases P V with ⟨e, V', cnt, done⟩
    cases e with
    | error er => simp
    | ok Pw =>
      by_cases hc : f = some cnt
      · simp [hc]
      · simp [hc]

theorem run_commits_le (o : Op) (f : Option Nat) (P : PStore) (V : PVol) : (o.run f P V).commits ≤ 1 := by
  rw [run_commits]; split <;> simp

/-- a fault at BeginTx: nothing ran -/
theorem run_fault_begin (o : Op) (P : PStore) (V : PVol) :
    o.run (some 0) P V = ⟨false, P, o.repair 0 P V, 0, 1⟩ := by
  unfold Op.run; simp

/-- fault-free run of a single-phase operation -/
theorem run_single_none (n : Nat) (act : PStore → PVol → Except PErr (PStore × PVol)) (o : Op)
    (ho : o.phases = [⟨n, act⟩]) (P : PStore) (V : PVol) :
    o.run none P V = match act P V with
      | .error _ => ⟨false, P, o.repair 0 P V, 0, 1 + n⟩
      | .ok (P', V') => ⟨true, P', o.post P V P' V', 1, 1 + n + 1⟩ := by
  unfold Op.run
  cases hact : act P V with
  | error e => simp [ho, runPhases, hact]
  | ok pv => simp [ho, runPhases, hact]

/-- a single-phase operation under ANY fault index: it either fails leaving the store and (up to
    the operation's own repair) the volatile state alone, or it is the fault-free run -/
theorem run_single_fault (n : Nat) (act : PStore → PVol → Except PErr (PStore × PVol)) (o : Op)
    (ho : o.phases = [⟨n, act⟩]) (j : Nat) (P : PStore) (V : PVol) :
    (o.run (some j) P V = o.run none P V ∧ 1 + n < j) ∨
    ((o.run (some j) P V).ok = false ∧ (o.run (some j) P V).P = P ∧
      ((o.run (some j) P V).V = o.repair 0 P V ∨ ∃ P' V', act P V = .ok (P', V') ∧ (o.run (some j) P V).V = o.repair 1 P V')) := by
  unfold Op.run
  by_cases h0 : j = 0
  · subst h0; right; simp
  · have h0' : ¬ (some j = some 0) := by simpa using h0
    rw [if_neg h0']
    simp only [ho, runPhases]
    by_cases hin : 1 ≤ j ∧ j < 1 + n
    · right; simp [hin]
    · rw [if_neg hin]
      cases hact : act P V with
      | error e => right; simp
      | ok pv =>
        obtain ⟨P', V'⟩ := pv
        simp only [runPhases]
        by_cases hc : j = 1 + n
        · right; subst hc; simp
          exact Or.inr ⟨P', V', ⟨rfl, rfl⟩, rfl⟩
        · left
          have hc' : ¬ (some j = some (1 + n)) := by simpa using hc
          simp [hc', hc]
          omega

/-- a single-stretch operation without volatile effects in its body and without repair: ANY failure
    (fault at any call index, or an ordinary error) leaves store and volatile state exactly as they were -/
theorem run_single_fail_exact (n : Nat) (act : PStore → PVol → Except PErr (PStore × PVol)) (o : Op)
    (ho : o.phases = [⟨n, act⟩]) (hrep : ∀ d P V, o.repair d P V = V)
    (hact : ∀ P V P' V', act P V = .ok (P', V') → V' = V)
    (f : Option Nat) (P : PStore) (V : PVol) (h : (o.run f P V).ok = false) :
    (o.run f P V).P = P ∧ (o.run f P V).V = V := by
  refine ⟨run_fail_store o f P V h, ?_⟩
  have hnone : (o.run none P V).ok = false → (o.run none P V).V = V := by
    intro h0
    rw [run_single_none n act o ho P V] at h0 ⊢
    cases ha : act P V with
    | error e => simp [hrep]
    | ok pv => simp [ha] at h0
  cases f with
  | none => exact hnone h
  | some j =>
    rcases run_single_fault n act o ho j P V with he | ⟨_, _, h3⟩
    · rw [he.1] at h ⊢; exact hnone h
    · rcases h3 with h3 | ⟨P', V', ha, h3⟩
      · rw [h3, hrep]
      · rw [h3, hrep]; exact hact P V P' V' ha

end MW.Lemmas.PersistOp
