/-
  Helper lemmas for C09, part 6: a pending transaction confirms (insertMinedTx), a transaction is received
  (addRelevantUnmined), a transaction is rolled back into the pending set (rollbackTx).
-/
import MW.Lemmas.LedgerPendingOps
namespace MW.Lemmas.LedgerPending
open MW MW.Model.Ledger

/-- the pending-side buckets -/
def pendSide (s : Store) := (s.pending, s.pendIns, s.pendCred, s.pendGame)

-- ------------------------------------------------------------------ monadic folds

theorem foldlM_ok_inv {α β : Type} (P : β → Prop) (f : β → α → M β) :
    ∀ (l : List α) (b r : β), P b → (∀ a x b', P a → f a x = .ok b' → P b') → l.foldlM f b = .ok r → P r := by
  intro l
  induction l with
  | nil => intro b r hb _ h; simp [List.foldlM, pure, Except.pure] at h; rw [← h]; exact hb
  | cons x l ih =>
    intro b r hb hstep h
    simp only [List.foldlM, bind, Except.bind] at h
    cases hf : f b x with
    | error e => rw [hf] at h; cases h
    | ok b' => rw [hf] at h; exact ih b' r (hstep b x b' hb hf) hstep h

theorem foldIdxM_ok_inv {α β : Type} (P : Nat → β → Prop) (f : β → Nat → α → M β) :
    ∀ (l : List α) (n : Nat) (b r : β), P n b → (∀ a i x b', P i a → f a i x = .ok b' → P (i + 1) b') →
      foldIdxM f l n b = .ok r → P (n + l.length) r := by
  intro l
  induction l with
  | nil => intro n b r hb _ h; simp [foldIdxM, pure, Except.pure] at h; rw [← h]; exact hb
  | cons x l ih =>
    intro n b r hb hstep h
    simp only [foldIdxM, bind, Except.bind] at h
    cases hf : f b n x with
    | error e => rw [hf] at h; cases h
    | ok b' =>
      rw [hf] at h
      have := ih (n + 1) b' r (hstep b n x b' hb hf) hstep h
      simpa [Nat.add_assoc, Nat.add_comm 1] using this

-- ------------------------------------------------------------------ unpendMined / deleteUnminedCredits

theorem deleteUnminedCredits_frame (s : Store) (tx : Tx) :
    (deleteUnminedCredits s tx).pending = s.pending ∧ (deleteUnminedCredits s tx).pendIns = s.pendIns ∧
    (deleteUnminedCredits s tx).pendGame = s.pendGame ∧ minedOf (deleteUnminedCredits s tx) = minedOf s := by
  unfold deleteUnminedCredits
  exact foldl_inv (fun (a : Store) => a.pending = s.pending ∧ a.pendIns = s.pendIns ∧ a.pendGame = s.pendGame ∧
    minedOf a = minedOf s) _ _ _ ⟨rfl, rfl, rfl, rfl⟩ (fun a i _ ha => ha)

theorem deleteUnminedCredits_cred (s : Store) (tx : Tx) (k : TxId × Nat) :
    AMap.get (deleteUnminedCredits s tx).pendCred k =
      if k.1 = tx.id ∧ k.2 < tx.outs.length then none else AMap.get s.pendCred k := by
  unfold deleteUnminedCredits
  generalize tx.outs.length = n
  induction n with
  | zero => simp
  | succ n ih =>
    rw [List.range_succ, List.foldl_append]
    simp only [List.foldl]
    show AMap.get (AMap.erase _ (tx.id, n)) k = _
    rw [AMap.get_erase, ih]
    by_cases h1 : (tx.id, n) = k
    · subst h1; simp
    · by_cases h2 : k.1 = tx.id
      · have : k.2 ≠ n := fun h => h1 (by cases k; simp_all)
        by_cases h3 : k.2 < n
        · have : k.2 < n + 1 := by omega
          simp [h1, h2, h3, this]
        · have : ¬ k.2 < n + 1 := by omega
          simp [h1, h2, h3, this]
      · simp [h1, h2]

theorem sub_deleteUnminedCredits (s : Store) (tx : Tx) : Sub (deleteUnminedCredits s tx) s := by
  obtain ⟨h1, h2, h3, h4⟩ := deleteUnminedCredits_frame s tx
  refine ⟨⟨fun _ => true, by rw [h1, scan_true]⟩, fun op id h => by unfold Listed at *; rw [h2] at h; exact h,
    fun k h => ?_, fun k h => by rw [h3]; exact h, h4⟩
  rw [deleteUnminedCredits_cred]; split
  · rfl
  · exact h

theorem sub_unpendMined (s : Store) (tx : Tx) : Sub (unpendMined s tx) s := by
  unfold unpendMined
  split
  · exact (sub_erasePending _ _).trans (sub_deleteUnminedCredits s tx)
  · exact Sub.refl s

theorem unpendMined_pending (s : Store) (tx : Tx) : AMap.get (unpendMined s tx).pending tx.id = none := by
  unfold unpendMined
  split
  · show AMap.get (AMap.erase _ tx.id) tx.id = none
    rw [AMap.get_erase]; simp
  · rename_i h
    cases hg : AMap.get s.pending tx.id with
    | none => rfl
    | some t => rw [hg] at h; simp at h

theorem unpendMined_cred (s : Store) (tx : Tx) (hp : (AMap.get s.pending tx.id).isSome) (j : Nat)
    (hj : j < tx.outs.length) : AMap.get (unpendMined s tx).pendCred (tx.id, j) = none := by
  unfold unpendMined
  rw [if_pos hp]
  show AMap.get (deleteUnminedCredits s tx).pendCred (tx.id, j) = none
  rw [deleteUnminedCredits_cred]; simp [hj]

theorem unpendMined_pendIns (s : Store) (tx : Tx) : (unpendMined s tx).pendIns = s.pendIns := by
  unfold unpendMined
  split
  · exact (deleteUnminedCredits_frame s tx).2.1
  · rfl

theorem unpendMined_noEmpty (s : Store) (tx : Tx) (h : NoEmpty s) : NoEmpty (unpendMined s tx) := by
  intro op; rw [unpendMined_pendIns]; exact h op

-- ------------------------------------------------------------------ the pending part of insertMinedTx

/-- what insertMinedTx does to the pending stores (after recordMinedTx / updateMinedBalance, which do not
    touch them): the transaction leaves the pending set, then the double spends are purged -/
def confirmPending (own : Own) (s : Store) (tr : TxRec) : Store := removeDoubleSpends own (unpendMined s tr.tx) tr

section confirm
variable (rank : TxId → Nat) (own : Own)

/-- CONFIRM ONCE: exact lookups after a pending transaction confirmed -/
theorem confirmPending_spec (s : Store) (tr : TxRec) (hw : WFw rank s) (hne : NoEmpty s) :
    Sub (confirmPending own s tr) s ∧
    AMap.get (confirmPending own s tr).pending tr.tx.id = none ∧
    ((AMap.get s.pending tr.tx.id).isSome → ∀ j, j < tr.tx.outs.length →
      AMap.get (confirmPending own s tr).pendCred (tr.tx.id, j) = none) ∧
    (∀ i ∈ tr.tx.ins, AMap.get (confirmPending own s tr).pendIns (i.tx, i.idx) = none) ∧
    (∀ i ∈ tr.tx.ins, ∀ d, d.id ≠ tr.tx.id → Listed s (i.tx, i.idx) d.id → AMap.get s.pending d.id = some d →
      ∀ e, Desc (unpendMined s tr.tx) d e → Gone (confirmPending own s tr) e) := by
  unfold confirmPending
  have hsu := sub_unpendMined s tr.tx
  obtain ⟨h1, h2, h3⟩ := removeDoubleSpends_spec rank own (unpendMined s tr.tx) tr (hw.mono hsu)
    (unpendMined_noEmpty s tr.tx hne)
  refine ⟨h1.trans hsu, h1.pending_none (unpendMined_pending s tr.tx), ?_, h2, ?_⟩
  · intro hp j hj
    exact h1.cred _ (unpendMined_cred s tr.tx hp j hj)
  · intro i hi d hne' hl hd e hde
    have hl' : Listed (unpendMined s tr.tx) (i.tx, i.idx) d.id := by
      unfold Listed at *; rw [unpendMined_pendIns]; exact hl
    have hd' : AMap.get (unpendMined s tr.tx).pending d.id = some d := by
      unfold unpendMined
      split
      · show AMap.get (AMap.erase (deleteUnminedCredits s tr.tx).pending tr.tx.id) d.id = some d
        rw [AMap.get_erase, (deleteUnminedCredits_frame s tr.tx).1]
        simp [Ne.symm hne', hd]
      · exact hd
    exact (h3 i hi d hl' hd' e hde).1

end confirm

-- ------------------------------------------------------------------ insertMinedTx = mined part ; confirmPending

theorem spendOne_pendSide (tr : TxRec) (blk : BlockMeta) (sb sb' : Store × Bals) (rel : Rel)
    (h : spendOne tr blk sb rel = .ok sb') : pendSide sb'.1 = pendSide sb.1 := by
  unfold spendOne at h
  repeat' (first | cases h | split at h | simp only [] at h)
  all_goals rfl

theorem updateMinedBalance_pendSide (s : Store) (bals : Bals) (tr : TxRec) (blk : BlockMeta) (r : Store × Bals)
    (h : updateMinedBalance s bals tr blk = .ok r) : pendSide r.1 = pendSide s := by
  unfold updateMinedBalance at h
  exact foldlM_ok_inv (fun (a : Store × Bals) => pendSide a.1 = pendSide s) _ _ _ _ rfl
    (fun a x b' ha hf => (spendOne_pendSide tr blk a b' x hf).trans ha) h

/-- insertMinedTx on a transaction that has no record yet = the mined bookkeeping (which leaves the pending
    stores alone) followed by `confirmPending` -/
theorem insertMinedTx_pending (own : Own) (s : Store) (bals : Bals) (tr : TxRec) (blk : BlockMeta)
    (s' : Store) (bals' : Bals) (h : insertMinedTx own s bals tr blk = .ok (s', bals', false)) :
    ∃ s1, pendSide s1 = pendSide s ∧ s' = confirmPending own s1 tr := by
  unfold insertMinedTx at h
  split at h
  · simp [pure, Except.pure] at h
  · simp only [bind, Except.bind] at h
    cases hu : updateMinedBalance (recordMinedTx s tr blk) bals tr blk with
    | error e => rw [hu] at h; cases h
    | ok r =>
      rw [hu] at h
      simp only [pure, Except.pure, Except.ok.injEq, Prod.mk.injEq] at h
      refine ⟨r.1, ?_, h.1.symm⟩
      rw [updateMinedBalance_pendSide _ _ _ _ _ hu]
      unfold recordMinedTx; rfl

end MW.Lemmas.LedgerPending
