/-
  C08, the connect path under the relaxed relation `SubW` (wallet-keyed buckets agree only OFF the removed wallet `w`):
  port of `MW.Lemmas.RemoveSim.filterBlock_sim`, under `ready.contains w = false` (the connect path neither reads nor
  writes an entry keyed by a wallet outside `ready`, except the address record / working balance of a relevant output,
  which are written alike or under `w`).
-/
import MW.Lemmas.RemoveSimWRb
namespace MW.Lemmas.RemoveSimW
open MW MW.Model.Ledger MW.Model.Remove MW.Lemmas.Ledger MW.Lemmas.LedgerWFCred MW.Lemmas.RemoveSim

-- ------------------------------------------------------------------ small helpers

theorem connNe {ready : List Wid} {w w' : Wid} (h : ready.contains w' = true) (hnr : ready.contains w = false) :
    w' ≠ w := by
  intro e; rw [e, hnr] at h; cases h

theorem EqOff.iteW {K V : Type} [DecidableEq K] {nw : K → Prop} {a b a' b' : AMap.T K V} {c : Prop} [Decidable c]
    (h1 : EqOff nw a b) (h2 : EqOff nw a' b') : EqOff nw (if c then a else a') (if c then b else b') := by
  split
  · exact h1
  · exact h2

theorem connEquivPut {K V : Type} [DecidableEq K] {a b : AMap.T K V} (h : AMap.Equiv a b) (k : K) (v : V) :
    AMap.Equiv (AMap.put a k v) (AMap.put b k v) := by
  intro k'; rw [AMap.get_put, AMap.get_put, h k']

theorem connGetBal {a b : Bals} (h : AMap.Equiv a b) (k : Wid) : getBal a k = getBal b k := by
  unfold getBal; rw [h k]

/-- the address record of a relevant output, as `creditApply` writes it -/
def connAddrUpd (m : AMap.T (Wid × Bool × Addr) Nat) (ak : Wid × Bool × Addr) (ht : Nat) : AMap.T (Wid × Bool × Addr) Nat :=
  match AMap.get m ak with
  | some h => if h = 0 then AMap.put m ak ht else m
  | none => AMap.put m ak ht

theorem connAddrUpd_cases (m : AMap.T (Wid × Bool × Addr) Nat) (ak : Wid × Bool × Addr) (ht : Nat) :
    connAddrUpd m ak ht = m ∨ connAddrUpd m ak ht = AMap.put m ak ht := by
  unfold connAddrUpd
  split
  · split
    · exact Or.inr rfl
    · exact Or.inl rfl
  · exact Or.inr rfl

theorem connAddrUpd_eqOff {nw : Wid × Bool × Addr → Prop} {a b : AMap.T (Wid × Bool × Addr) Nat} (h : EqOff nw a b)
    (ak : Wid × Bool × Addr) (ht : Nat) : EqOff nw (connAddrUpd a ak ht) (connAddrUpd b ak ht) := by
  by_cases hk : nw ak
  · unfold connAddrUpd
    rw [h ak hk]
    split
    · split
      · exact h.put_both _ _
      · exact h
    · exact h.put_both _ _
  · rcases connAddrUpd_cases a ak ht with e1 | e1 <;> rcases connAddrUpd_cases b ak ht with e2 | e2 <;> rw [e1, e2]
    · exact h
    · exact h.put_r hk _
    · exact h.put_l hk _
    · exact h.put_both _ _

theorem blkRel_refl' (s : Store) (h : Nat) (r : Option (BlkId × List TxId)) : BlkRel s h r r := by
  cases r with
  | none => rfl
  | some r =>
    obtain ⟨bh, txs⟩ := r
    exact ⟨fun _ => true, (fun _ h => by cases h), Or.inl (by rw [List.filter_eq_self.2 (fun _ _ => rfl)])⟩

-- ------------------------------------------------------------------ the loop invariant of the apply phase

/-- `SimInv` with the wallet-keyed buckets equal OFF `w` -/
structure SimInvW (w : Wid) (addrs : List Addr) (ready : List Wid) (bm : BlockMeta) (g s gi si : Store) : Prop where
  unspent : EqOff (fun k : Wid × TxId × Nat => k.1 ≠ w) si.unspent gi.unspent
  game : EqOff (fun k : GameKey => k.wallet ≠ w) si.game gi.game
  balance : EqOff (fun w' : Wid => w' ≠ w) si.balance gi.balance
  sync : si.sync = gi.sync
  syncedTo : si.syncedTo = gi.syncedTo
  status : si.status = gi.status
  adr : EqOff (fun k : Wid × Bool × Addr => k.1 ≠ w) si.addrs gi.addrs
  cred : CredP addrs bm g.credits s.credits gi.credits si.credits
  coins : CoinsP addrs ready gi.unspent gi.credits
  debS : SubT gi.debits si.debits
  deb : TabP (fun k : CredKey => k.blk = bm) g.debits s.debits gi.debits si.debits
  txS : SubT gi.txrecs si.txrecs
  tx : TabP (fun k : TxId × BlockMeta => k.2 = bm) g.txrecs s.txrecs gi.txrecs si.txrecs
  blk : TabP (fun h : Nat => h = bm.height) g.blocks s.blocks gi.blocks si.blocks

section conn
variable {w : Wid} {addrs : List Addr} {ready : List Wid} {bm : BlockMeta} {g s gi si : Store}

theorem simInvW_init (hSub : SubW w addrs g s) (hF : Fresh bm g) (hFs : AMap.get s.blocks bm.height = none)
    (hC : CoinsOK addrs ready g) : SimInvW w addrs ready bm g s g s := by
  refine ⟨hSub.unspent, hSub.game, hSub.balance, hSub.sync, hSub.syncedTo, hSub.status, hSub.adr,
    ⟨hSub.credits, ?_, fun _ _ => Or.inl ⟨rfl, rfl⟩, ?_⟩, hC, hSub.debits, ⟨?_, fun _ _ => rfl, fun _ _ => rfl⟩,
    hSub.txrecs, ⟨?_, fun _ _ => rfl, fun _ _ => rfl⟩, ⟨?_, fun _ _ => rfl, fun _ _ => rfl⟩⟩
  · intro k hk
    have hg : AMap.get g.credits k = none := by cases k; cases hk; exact hF.credits _ _
    rcases hSub.credits k with e | ⟨e, _⟩
    · exact e
    · rw [e, hg]
  · intro k cr hk hcr
    have hg : AMap.get g.credits k = none := by cases k; cases hk; exact hF.credits _ _
    rw [hg] at hcr; cases hcr
  · intro k hk
    have hg : AMap.get g.debits k = none := by cases k; cases hk; exact hF.debits _ _
    rcases hSub.debits k with e | e
    · exact e
    · rw [e, hg]
  · intro k hk
    have hg : AMap.get g.txrecs k = none := by cases k; cases hk; exact hF.txrecs _
    rcases hSub.txrecs k with e | e
    · exact e
    · rw [e, hg]
  · intro k hk
    cases hk
    rw [hFs, hF.blocks]

theorem simInvW_minedEq {gi' si' : Store} (h : SimInvW w addrs ready bm g s gi si) (hg : MinedEq gi gi')
    (hs : MinedEq si si') : SimInvW w addrs ready bm g s gi' si' := by
  constructor
  · rw [hs.unspent, hg.unspent]; exact h.unspent
  · rw [hs.game, hg.game]; exact h.game
  · rw [hs.balance, hg.balance]; exact h.balance
  · rw [hs.sync, hg.sync]; exact h.sync
  · rw [hs.syncedTo, hg.syncedTo]; exact h.syncedTo
  · rw [hs.status, hg.status]; exact h.status
  · rw [hs.addrs, hg.addrs]; exact h.adr
  · rw [hs.credits, hg.credits]; exact h.cred
  · rw [hg.unspent, hg.credits]; exact h.coins
  · rw [hs.debits, hg.debits]; exact h.debS
  · rw [hs.debits, hg.debits]; exact h.deb
  · rw [hs.txrecs, hg.txrecs]; exact h.txS
  · rw [hs.txrecs, hg.txrecs]; exact h.tx
  · rw [hs.blocks, hg.blocks]; exact h.blk

theorem simInvW_recordMinedTx (h : SimInvW w addrs ready bm g s gi si) (tr : TxRec) :
    SimInvW w addrs ready bm g s (recordMinedTx gi tr bm) (recordMinedTx si tr bm) := by
  refine ⟨h.unspent, h.game, h.balance, h.sync, h.syncedTo, h.status, h.adr, h.cred, h.coins, h.debS, h.deb,
    h.txS.put _ _, h.tx.put rfl _, ?_⟩
  have e := h.blk.new bm.height rfl
  unfold recordMinedTx
  dsimp only
  cases hb : AMap.get gi.blocks bm.height with
  | none =>
    rw [hb] at e; rw [e]
    exact h.blk.put rfl _
  | some v =>
    obtain ⟨bh, txs⟩ := v
    rw [hb] at e; rw [e]
    exact h.blk.put rfl _

theorem simInvW_spendApply (h : SimInvW w addrs ready bm g s gi si) (bals bals' : Bals) (tr : TxRec) (rel : Rel)
    {i : Inp} {cblk : BlockMeta} {c : Credit}
    (hgc : AMap.get gi.credits ⟨i.tx, cblk, i.idx⟩ = some c) (hsc : AMap.get si.credits ⟨i.tx, cblk, i.idx⟩ = some c)
    (hsh : addrs.contains c.sh = false) :
    SimInvW w addrs ready bm g s (spendApply tr bm (gi, bals) rel i cblk c).1 (spendApply tr bm (si, bals') rel i cblk c).1 := by
  refine ⟨?_, ?_, h.balance, h.sync, h.syncedTo, h.status, h.adr, ?_, ?_, ?_, ?_, h.txS, h.tx, h.blk⟩
  · exact h.unspent.erase_both _
  · exact EqOff.iteW ((h.game.erase_both _).put_both _ _) h.game
  · exact h.cred.put (v := { c with spent := true, spentBy := some ⟨tr.tx.id, bm, rel.index⟩ }) hsh
      (fun _ => ⟨c, hgc, hsc, rfl⟩)
  · exact (h.coins.put_credit _ (v := { c with spent := true, spentBy := some ⟨tr.tx.id, bm, rel.index⟩ }) hsh).erase_unspent _
  · exact h.debS.put _ _
  · exact h.deb.put (k := ⟨tr.tx.id, bm, rel.index⟩) rfl _

theorem simInvW_creditApply (h : SimInvW w addrs ready bm g s gi si) (p : Params) (bals bals' : Bals) (tr : TxRec) {rel : Rel}
    (ha : addrs.contains rel.out.addr = false) :
    SimInvW w addrs ready bm g s (creditApply p tr bm (gi, bals) rel).1 (creditApply p tr bm (si, bals') rel).1 := by
  refine ⟨?_, h.game, h.balance, h.sync, h.syncedTo, h.status, ?_, ?_, ?_, h.debS, h.deb, h.txS, h.tx, h.blk⟩
  · exact h.unspent.put_both _ _
  · exact connAddrUpd_eqOff h.adr (rel.wallet, rel.out.cls.isStaking, rel.out.addr) bm.height
  · exact h.cred.put (k := ⟨tr.tx.id, bm, rel.index⟩) (v := minedCreditOf p tr.tx.cb rel) ha (fun hne => absurd rfl hne)
  · refine (h.coins.put_credit ⟨tr.tx.id, bm, rel.index⟩ (v := minedCreditOf p tr.tx.cb rel) ha).put_unspent
      rel.wallet tr.tx.id rel.index bm ?_
    intro c hc
    rw [AMap.get_put, if_pos rfl] at hc
    cases hc; exact ha

theorem simInvW_gameOne (h : SimInvW w addrs ready bm g s gi si) (tr : TxRec) (rel : Rel) :
    SimInvW w addrs ready bm g s (gameOne tr bm gi rel) (gameOne tr bm si rel) := by
  refine ⟨h.unspent, ?_, h.balance, h.sync, h.syncedTo, h.status, h.adr, h.cred, h.coins, h.debS, h.deb,
    h.txS, h.tx, h.blk⟩
  exact h.game.put_both _ _

-- ------------------------------------------------------------------ the apply phase, function by function

/-- the pair of working states: working balances extensionally equal, stores related -/
def SimRW (w : Wid) (addrs : List Addr) (ready : List Wid) (bm : BlockMeta) (g s : Store) (gb sb : Store × Bals) : Prop :=
  AMap.Equiv sb.2 gb.2 ∧ SimInvW w addrs ready bm g s gb.1 sb.1

theorem spendOne_simW {tr : TxRec} {rel : Rel} {gb sb gb' : Store × Bals} (hnr : ready.contains w = false)
    (h : SimRW w addrs ready bm g s gb sb)
    (hw : ready.contains rel.wallet = true) (hg : spendOne tr bm gb rel = .ok gb') :
    ∃ sb', spendOne tr bm sb rel = .ok sb' ∧ SimRW w addrs ready bm g s gb' sb' := by
  obtain ⟨gi, bals⟩ := gb
  obtain ⟨si, bals'⟩ := sb
  obtain ⟨hb, h⟩ := h
  dsimp only at hb h
  have hne : rel.wallet ≠ w := connNe hw hnr
  unfold spendOne at hg
  split at hg
  · cases hg
  rename_i i hi
  split at hg
  · cases hg
  rename_i cblk hu
  split at hg
  · cases hg
  rename_i c hc
  split at hg
  · cases hg
  rename_i hsp
  split at hg
  · cases hg
  rename_i hgm
  split at hg
  · cases hg
  rename_i hbal
  cases hg
  dsimp only at hu hc hgm hbal
  have hsh := h.coins _ _ _ _ _ hw hu hc
  have hsc : AMap.get si.credits ⟨i.tx, cblk, i.idx⟩ = some c := by
    rcases h.cred.sub ⟨i.tx, cblk, i.idx⟩ with e | ⟨_, cr, e1, e2⟩
    · rw [e]; exact hc
    · rw [hc] at e1; cases e1; rw [hsh] at e2; cases e2
  have hsu : AMap.get si.unspent (rel.wallet, i.tx, i.idx) = some cblk := by
    rw [h.unspent (rel.wallet, i.tx, i.idx) hne]; exact hu
  have hsg : AMap.get si.game ⟨rel.wallet, rel.out.cls.isBinding, false, i.tx, cblk.height, i.idx⟩ =
      AMap.get gi.game ⟨rel.wallet, rel.out.cls.isBinding, false, i.tx, cblk.height, i.idx⟩ := h.game _ hne
  have hgb : getBal bals' rel.wallet = getBal bals rel.wallet := connGetBal hb _
  refine ⟨spendApply tr bm (si, bals') rel i cblk c, ?_, ?_, simInvW_spendApply h bals bals' tr rel hc hsc hsh⟩
  · unfold spendOne
    simp only [hi, hsu, hsc, hsg, hgb, hsp, hgm, hbal, if_false]
    rfl
  · show AMap.Equiv (AMap.put bals' rel.wallet (getBal bals' rel.wallet - c.amt))
      (AMap.put bals rel.wallet (getBal bals rel.wallet - c.amt))
    rw [hgb]; exact connEquivPut hb _ _

theorem updateMinedBalance_simW {tr : TxRec} {bals bals' : Bals} {gb' : Store × Bals} (hnr : ready.contains w = false)
    (hb : AMap.Equiv bals' bals)
    (h : SimInvW w addrs ready bm g s gi si) (hw : ∀ rel ∈ tr.relIn, ready.contains rel.wallet = true)
    (hg : updateMinedBalance gi bals tr bm = .ok gb') :
    ∃ sb', updateMinedBalance si bals' tr bm = .ok sb' ∧ SimRW w addrs ready bm g s gb' sb' :=
  foldlM_sim (SimRW w addrs ready bm g s) _ _ tr.relIn
    (fun _ _ rel _ hrel hR hf => spendOne_simW hnr hR (hw rel hrel) hf) (b := (gi, bals)) (c := (si, bals')) ⟨hb, h⟩ hg

theorem insertMinedTx_simW {own : Own} {tr : TxRec} {bals bals' : Bals} {r : Store × Bals × Bool}
    (hnr : ready.contains w = false) (hb : AMap.Equiv bals' bals)
    (h : SimInvW w addrs ready bm g s gi si) (hw : ∀ rel ∈ tr.relIn, ready.contains rel.wallet = true)
    (hg : insertMinedTx own gi bals tr bm = .ok r) :
    ∃ r', insertMinedTx own si bals' tr bm = .ok r' ∧ AMap.Equiv r'.2.1 r.2.1 ∧ SimInvW w addrs ready bm g s r.1 r'.1 := by
  unfold insertMinedTx at hg ⊢
  rw [h.tx.new (tr.tx.id, bm) rfl]
  split at hg
  · rename_i hx
    cases hg
    rw [if_pos hx]
    exact ⟨_, rfl, hb, h⟩
  · rename_i hx
    rw [if_neg hx]
    obtain ⟨gb1, h1, h2⟩ := M_bind_ok hg
    obtain ⟨sb1, hs1, hb1, hI⟩ := updateMinedBalance_simW hnr hb (simInvW_recordMinedTx h tr) hw h1
    cases h2
    rw [hs1]
    refine ⟨_, rfl, hb1, ?_⟩
    exact simInvW_minedEq hI
      ((minedEq_unpendMined _ _).trans (minedEq_removeDoubleSpends own _ tr))
      ((minedEq_unpendMined _ _).trans (minedEq_removeDoubleSpends own _ tr))

theorem creditOne_simW {p : Params} {tr : TxRec} {rel : Rel} {gb sb gb' : Store × Bals}
    (h : SimRW w addrs ready bm g s gb sb) (ha : addrs.contains rel.out.addr = false)
    (hg : creditOne p tr bm gb rel = .ok gb') :
    ∃ sb', creditOne p tr bm sb rel = .ok sb' ∧ SimRW w addrs ready bm g s gb' sb' := by
  obtain ⟨gi, bals⟩ := gb
  obtain ⟨si, bals'⟩ := sb
  obtain ⟨hb, h⟩ := h
  dsimp only at hb h
  unfold creditOne at hg ⊢
  dsimp only at hg ⊢
  rw [h.cred.new ⟨tr.tx.id, bm, rel.index⟩ rfl]
  split at hg
  · cases hg
  · rename_i hx
    cases hg
    rw [if_neg hx]
    refine ⟨_, rfl, ?_, simInvW_creditApply h p bals bals' tr ha⟩
    show AMap.Equiv (AMap.put bals' rel.wallet (getBal bals' rel.wallet + rel.out.amt))
      (AMap.put bals rel.wallet (getBal bals rel.wallet + rel.out.amt))
    rw [connGetBal hb]; exact connEquivPut hb _ _

theorem foldl_simInvW {α : Type} (f : Store → α → Store) (l : List α)
    (hf : ∀ gi si a, SimInvW w addrs ready bm g s gi si → SimInvW w addrs ready bm g s (f gi a) (f si a))
    (h : SimInvW w addrs ready bm g s gi si) : SimInvW w addrs ready bm g s (l.foldl f gi) (l.foldl f si) := by
  induction l generalizing gi si with
  | nil => exact h
  | cons a l ih => exact ih (hf _ _ a h)

theorem addCredits_simW {p : Params} {tr : TxRec} {bals bals' : Bals} {gb' : Store × Bals} (hb : AMap.Equiv bals' bals)
    (h : SimInvW w addrs ready bm g s gi si) (ha : ∀ rel ∈ tr.relOut, addrs.contains rel.out.addr = false)
    (hg : addCredits p gi bals tr bm = .ok gb') :
    ∃ sb', addCredits p si bals' tr bm = .ok sb' ∧ SimRW w addrs ready bm g s gb' sb' := by
  unfold addCredits at hg ⊢
  split at hg
  · rename_i hx
    cases hg
    rw [if_pos hx]
    exact ⟨_, rfl, hb, h⟩
  · rename_i hx
    rw [if_neg hx]
    obtain ⟨gb1, h1, h2⟩ := M_bind_ok hg
    obtain ⟨sb1, hs1, hb1, hI⟩ := foldlM_sim (SimRW w addrs ready bm g s) _ _ tr.relOut
      (fun _ _ rel _ hrel hR hf => creditOne_simW hR (ha rel hrel) hf) (b := (gi, bals)) (c := (si, bals')) ⟨hb, h⟩ h1
    cases h2
    rw [hs1]
    exact ⟨_, rfl, hb1, foldl_simInvW _ _ (fun _ _ rel hh => simInvW_gameOne hh tr rel) hI⟩

theorem addRelevantMined_simW {p : Params} {own : Own} {tr : TxRec} {gb sb gb' : Store × Bals}
    (hnr : ready.contains w = false)
    (h : SimRW w addrs ready bm g s gb sb) (hw : ∀ rel ∈ tr.relIn, ready.contains rel.wallet = true)
    (ha : ∀ rel ∈ tr.relOut, addrs.contains rel.out.addr = false)
    (hg : addRelevantMined p own gb.1 gb.2 tr bm = .ok gb') :
    ∃ sb', addRelevantMined p own sb.1 sb.2 tr bm = .ok sb' ∧ SimRW w addrs ready bm g s gb' sb' := by
  obtain ⟨hb, h⟩ := h
  unfold addRelevantMined at hg ⊢
  obtain ⟨r, h1, h2⟩ := M_bind_ok hg
  obtain ⟨r', hs1, hb1, hI⟩ := insertMinedTx_simW hnr hb h hw h1
  rw [hs1]
  obtain ⟨gi1, bals1, fl⟩ := r
  obtain ⟨si1, bals1', fl'⟩ := r'
  dsimp only at hb1 hI h2 ⊢
  exact addCredits_simW hb1 hI ha h2

theorem applyRelevant_simW {c : Ctx} {recs : List TxRec} {g1 : Store} (hnr : ready.contains w = false)
    (h : SimInvW w addrs ready bm g s gi si)
    (hrecs : ∀ tr ∈ recs, RecOK addrs ready tr) (hg : applyRelevant c gi ready bm recs = .ok g1) :
    ∃ s1, applyRelevant c si ready bm recs = .ok s1 ∧ SimInvW w addrs ready bm g s g1 s1 := by
  unfold applyRelevant at hg ⊢
  split at hg
  · rename_i hx
    cases hg
    rw [if_pos hx]
    exact ⟨_, rfl, h⟩
  · rename_i hx
    rw [if_neg hx]
    obtain ⟨gb1, h1, h2⟩ := M_bind_ok hg
    have hb0 : AMap.Equiv (si.balance.filter (fun e => ready.contains e.1)) (gi.balance.filter (fun e => ready.contains e.1)) := by
      intro k
      have e1 : AMap.get (si.balance.filter (fun e => ready.contains e.1)) k =
          if ready.contains k then AMap.get si.balance k else none := get_filter_key si.balance (fun k => ready.contains k) k
      have e2 : AMap.get (gi.balance.filter (fun e => ready.contains e.1)) k =
          if ready.contains k then AMap.get gi.balance k else none := get_filter_key gi.balance (fun k => ready.contains k) k
      rw [e1, e2]
      by_cases hk : ready.contains k = true
      · rw [if_pos hk, if_pos hk]; exact h.balance k (connNe hk hnr)
      · rw [if_neg hk, if_neg hk]
    obtain ⟨sb1, hs1, hb, hI⟩ := foldlM_sim (SimRW w addrs ready bm g s)
      (fun sb tr => addRelevantMined c.p c.own sb.1 sb.2 tr bm) (fun sb tr => addRelevantMined c.p c.own sb.1 sb.2 tr bm) recs
      (fun _ _ tr _ htr hR hf => addRelevantMined_simW hnr hR (hrecs tr htr).1 (hrecs tr htr).2 hf)
      (b := (gi, gi.balance.filter (fun e => ready.contains e.1)))
      (c := (si, si.balance.filter (fun e => ready.contains e.1))) ⟨hb0, h⟩ h1
    cases h2
    dsimp only
    rw [hs1]
    refine ⟨_, rfl, ?_⟩
    refine ⟨hI.unspent, hI.game, ?_, hI.sync, hI.syncedTo, hI.status, hI.adr, hI.cred, hI.coins, hI.debS, hI.deb,
      hI.txS, hI.tx, hI.blk⟩
    intro k hk
    show AMap.get (mergeBalances sb1.2 sb1.1.balance) k = AMap.get (mergeBalances gb1.2 gb1.1.balance) k
    rw [get_mergeBalances, get_mergeBalances, hb k, hI.balance k hk]

theorem putSyncedTo_simW {blk : BlockMeta} {g2 : Store} (h : SimInvW w addrs ready bm g s gi si)
    (hg : putSyncedTo gi blk = .ok g2) : ∃ s2, putSyncedTo si blk = .ok s2 ∧ SimInvW w addrs ready bm g s g2 s2 := by
  unfold putSyncedTo at hg ⊢
  rw [h.sync]
  split at hg
  · cases hg
  rename_i h1
  split at hg
  · cases hg
  rename_i h2
  cases hg
  rw [if_neg h1, if_neg h2]
  exact ⟨_, rfl, h.unspent, h.game, h.balance, rfl, rfl, h.status, h.adr, h.cred, h.coins, h.debS, h.deb,
    h.txS, h.tx, h.blk⟩

-- ------------------------------------------------------------------ the filter phase (reads the credit bucket only)

theorem existCredit_monoW (hSub : SubW w addrs g s) (hng : KeysNodup g.credits) (hns : KeysNodup s.credits) {id : TxId}
    (h : existCreditFromTx s id = true) : existCreditFromTx g id = true := by
  unfold existCreditFromTx at h ⊢
  rw [List.any_eq_true] at h ⊢
  obtain ⟨e, he, hid⟩ := h
  obtain ⟨k, v⟩ := e
  have hs := (mem_iff_get_of_nodup hns k v).1 he
  refine ⟨(k, v), (mem_iff_get_of_nodup hng k v).2 ?_, hid⟩
  rcases hSub.credits k with e | ⟨e, _⟩
  · rw [← e]; exact hs
  · rw [hs] at e; cases e

theorem prevOf_simW {c : Ctx} (hSub : SubW w addrs g s) (hng : KeysNodup g.credits) (hns : KeysNodup s.credits)
    (hfind : ∀ id, existCreditFromTx g id = true → (c.node.fetchTx id).isSome = true) (inBlk : List Tx) (id : TxId) :
    prevOf c s true inBlk id = prevOf c g true inBlk id ∨
    (existCreditFromTx g id = true ∧ existCreditFromTx s id = false ∧ prevOf c s true inBlk id = .skip ∧
      ∃ pt, c.node.fetchTx id = some pt ∧ prevOf c g true inBlk id = .found pt) := by
  unfold prevOf
  simp only [if_true, Bool.true_and]
  cases inBlk.find? (fun t => t.id = id) with
  | some t => left; rfl
  | none =>
    dsimp only
    cases hs : existCreditFromTx s id with
    | true =>
      have hgt := existCredit_monoW hSub hng hns hs
      have hf := hfind id hgt
      rw [hgt]
      cases hn : c.node.fetchTx id with
      | none => rw [hn] at hf; cases hf
      | some t => left; rfl
    | false =>
      cases hgt : existCreditFromTx g id with
      | false => left; rfl
      | true =>
        have hf := hfind id hgt
        cases hn : c.node.fetchTx id with
        | none => rw [hn] at hf; cases hf
        | some t => right; exact ⟨rfl, rfl, rfl, t, rfl, rfl⟩

section filter
variable {c : Ctx}
  (hSub : SubW w addrs g s) (hng : KeysNodup g.credits) (hns : KeysNodup s.credits)
  (hfind : ∀ id, existCreditFromTx g id = true → (c.node.fetchTx id).isSome = true)
  (hown : ∀ (id : TxId) (pt : Tx) (idx : Nat) (o : Out) (w' : Wid) (ch : Bool), existCreditFromTx g id = true →
    existCreditFromTx s id = false → c.node.fetchTx id = some pt → pt.outs[idx]? = some o → o.cls ≠ .raw →
    AMap.get c.own o.addr = some (w', ch) → ready.contains w' = false)
include hSub hng hns hfind hown

theorem filterIn_simW {inBlk : List Tx} {tr tr' : TxRec} {cur : Nat} {i : Inp}
    (hg : filterIn c g true inBlk ready tr cur i = .ok tr') : filterIn c s true inBlk ready tr cur i = .ok tr' := by
  rcases prevOf_simW hSub hng hns hfind inBlk i.tx with e | ⟨hgt, hsf, hsk, pt, hpt, hfd⟩
  · unfold filterIn at hg ⊢
    rw [e]; exact hg
  · unfold filterIn at hg ⊢
    rw [hsk]
    rw [hfd] at hg
    dsimp only at hg ⊢
    split at hg
    · cases hg
    rename_i o ho
    split at hg
    · exact hg
    rename_i hraw
    split at hg
    · rename_i w1 ch hw
      rw [hown i.tx pt i.idx o w1 ch hgt hsf hpt ho hraw hw] at hg
      exact hg
    · exact hg

theorem filterTxRel_simW {tx : Tx} {inBlk : List Tx} {r : Option TxRec}
    (hg : filterTxRel c g tx true inBlk ready = .ok r) : filterTxRel c s tx true inBlk ready = .ok r := by
  rw [filterTxRel_eq] at hg ⊢
  obtain ⟨tr, h1, h2⟩ := M_bind_ok hg
  have e : (if tx.cb = true then (pure { tx := tx } : M TxRec)
      else foldIdxM (filterIn c s true inBlk ready) tx.ins 0 { tx := tx }) = .ok tr := by
    split at h1
    · rename_i hcb; rw [if_pos hcb]; exact h1
    · rename_i hcb; rw [if_neg hcb]
      exact foldIdxM_congr_ok _ _ _ (fun _ _ _ _ _ hf => filterIn_simW hSub hng hns hfind hown hf) h1
  rw [e]
  exact h2

theorem filterTxs_simW {bid : BlkId} (txs : List Tx) : ∀ (seen : List Tx) (ti : Nat) (acc recs : List TxRec),
    filterTxs c g ready bid txs seen ti acc = .ok recs → filterTxs c s ready bid txs seen ti acc = .ok recs := by
  induction txs with
  | nil => intro seen ti acc recs h; exact h
  | cons tx rest ih =>
    intro seen ti acc recs h
    unfold filterTxs at h ⊢
    obtain ⟨r, h1, h2⟩ := M_bind_ok h
    rw [filterTxRel_simW hSub hng hns hfind hown h1]
    cases r with
    | none => exact ih _ _ _ _ h2
    | some tr => exact ih _ _ _ _ h2

end filter

-- ------------------------------------------------------------------ filterBlock

/-- the simulation, with the whole loop invariant as conclusion -/
theorem filterBlock_simInvW {c : Ctx} {g' : Store} {b : Block} {conf : List TxId}
    (hSub : SubW w addrs g s) (hnr : ready.contains w = false)
    (hng : KeysNodup g.credits) (hns : KeysNodup s.credits)
    (hF : Fresh ⟨b.height, b.id⟩ g) (hFs : AMap.get s.blocks b.height = none) (hC : CoinsOK addrs ready g)
    (hfind : ∀ id, existCreditFromTx g id = true → (c.node.fetchTx id).isSome = true)
    (hown : ∀ (id : TxId) (pt : Tx) (idx : Nat) (o : Out) (w' : Wid) (ch : Bool), existCreditFromTx g id = true →
      existCreditFromTx s id = false → c.node.fetchTx id = some pt → pt.outs[idx]? = some o → o.cls ≠ .raw →
      AMap.get c.own o.addr = some (w', ch) → ready.contains w' = false)
    (hrel : ∀ a w' ch, AMap.get c.own a = some (w', ch) → ready.contains w' = true → addrs.contains a = false)
    (hg : filterBlock c g ready b = .ok (g', conf)) :
    ∃ s', filterBlock c s ready b = .ok (s', conf) ∧ SimInvW w addrs ready ⟨b.height, b.id⟩ g s g' s' := by
  have tail : ∀ (recs : List TxRec), (∀ tr ∈ recs, RecOK addrs ready tr) → ∀ (g' : Store) (conf : List TxId),
      (applyRelevant c g ready ⟨b.height, b.id⟩ recs >>= fun s1 =>
        putSyncedTo (purgeUnrelated c.own s1 (if ready.isEmpty = true then [] else unrelatedTxs b.txs recs))
          ⟨b.height, b.id⟩ >>= fun s2 => (pure (s2, recs.map (·.tx.id)) : M (Store × List TxId))) = .ok (g', conf) →
      ∃ s', (applyRelevant c s ready ⟨b.height, b.id⟩ recs >>= fun s1 =>
        putSyncedTo (purgeUnrelated c.own s1 (if ready.isEmpty = true then [] else unrelatedTxs b.txs recs))
          ⟨b.height, b.id⟩ >>= fun s2 => (pure (s2, recs.map (·.tx.id)) : M (Store × List TxId))) = .ok (s', conf) ∧
        SimInvW w addrs ready ⟨b.height, b.id⟩ g s g' s' := by
    intro recs hrecs g' conf hg
    obtain ⟨g1, h1, hg⟩ := M_bind_ok hg
    obtain ⟨g2, h2, hg⟩ := M_bind_ok hg
    cases hg
    obtain ⟨s1, hs1, hI1⟩ := applyRelevant_simW (c := c) hnr (simInvW_init hSub hF hFs hC) hrecs h1
    obtain ⟨s2, hs2, hI2⟩ := putSyncedTo_simW
      (simInvW_minedEq hI1 (minedEq_purgeUnrelated c.own g1 _) (minedEq_purgeUnrelated c.own s1 _)) h2
    refine ⟨s2, ?_, hI2⟩
    rw [hs1]
    simp only [M_ok_bind]
    rw [hs2]
    rfl
  unfold filterBlock at hg ⊢
  split at hg
  · cases hg
  rename_i onChain hbl
  dsimp only at hg ⊢
  split at hg
  · cases hg
  rename_i hid
  rw [if_neg hid]
  by_cases hre : ready.isEmpty = true
  · rw [if_pos hre] at hg ⊢
    exact tail [] (fun _ hm => by cases hm) _ _ hg
  · rw [if_neg hre] at hg ⊢
    obtain ⟨recs, h0, hg⟩ := M_bind_ok hg
    rw [filterTxs_simW hSub hng hns hfind hown _ _ _ _ _ h0]
    exact tail recs (filterTxs_recOK hrel _ _ _ _ _ (fun _ hm => by cases hm) h0) _ _ hg

end conn

/-- SIMULATION under the relaxed relation: if the follower's `filterBlock` succeeds on the ghost store, it succeeds on the
    real store with the same confirmed ids, and the results are related by `SubW` again.
    `hdeb` (added, ghost only): no debit of the ghost points at a credit under the block being connected (true when every
    debit's credit exists, by `Fresh.credits`); needed for `debGone`. -/
theorem filterBlock_simW {w : Wid} {addrs : List Addr} {ready : List Wid} {c : Ctx} {g s g' : Store} {b : Block} {conf : List TxId}
    (hSub : SubW w addrs g s) (hnr : ready.contains w = false)
    (hng : KeysNodup g.credits) (hns : KeysNodup s.credits)
    (hF : Fresh ⟨b.height, b.id⟩ g) (hFs : AMap.get s.blocks b.height = none) (hC : CoinsOK addrs ready g)
    (hfind : ∀ id, existCreditFromTx g id = true → (c.node.fetchTx id).isSome = true)
    (hown : ∀ (id : TxId) (pt : Tx) (idx : Nat) (o : Out) (w' : Wid) (ch : Bool), existCreditFromTx g id = true →
      existCreditFromTx s id = false → c.node.fetchTx id = some pt → pt.outs[idx]? = some o → o.cls ≠ .raw →
      AMap.get c.own o.addr = some (w', ch) → ready.contains w' = false)
    (hrel : ∀ a w' ch, AMap.get c.own a = some (w', ch) → ready.contains w' = true → addrs.contains a = false)
    (hdeb : ∀ dk d, AMap.get g.debits dk = some d → d.2.blk ≠ ⟨b.height, b.id⟩)
    (hg : filterBlock c g ready b = .ok (g', conf)) :
    ∃ s', filterBlock c s ready b = .ok (s', conf) ∧ SubW w addrs g' s' ∧
      KeysNodup s'.credits ∧ KeysNodup g'.credits ∧ CoinsOK addrs ready g' := by
  obtain ⟨s', hs, hI⟩ := filterBlock_simInvW hSub hnr hng hns hF hFs hC hfind hown hrel hg
  refine ⟨s', hs,
    ⟨hI.unspent, hI.game, hI.adr, hI.balance, hI.sync, hI.syncedTo, hI.status, hI.cred.sub, hI.debS, ?_, hI.txS, ?_⟩,
    cn_filterBlock hns hs, cn_filterBlock hng hg, hI.coins⟩
  · intro dk d h1 h2
    by_cases hk : dk.blk = ⟨b.height, b.id⟩
    · rw [hI.deb.new dk hk, h1] at h2; cases h2
    · rw [hI.deb.gframe dk hk] at h1
      rw [hI.deb.frame dk hk] at h2
      have h3 := hSub.debGone dk d h1 h2
      rcases hI.cred.old d.2 (hdeb dk d h1) with ⟨_, e⟩ | ⟨c0, _, a1, _⟩
      · rw [e]; exact h3
      · rw [h3] at a1; cases a1
  · intro h
    by_cases hh : h = b.height
    · subst hh
      have e : AMap.get s'.blocks b.height = AMap.get g'.blocks b.height := hI.blk.new b.height rfl
      rw [e]
      exact blkRel_refl' s' b.height _
    · have e1 : AMap.get g'.blocks h = AMap.get g.blocks h := hI.blk.gframe h hh
      have e2 : AMap.get s'.blocks h = AMap.get s.blocks h := hI.blk.frame h hh
      rw [e1, e2]
      have h0 := hSub.blocks h
      cases hb : AMap.get g.blocks h with
      | none => rw [hb] at h0; exact h0
      | some r =>
        obtain ⟨bh, txs⟩ := r
        rw [hb] at h0
        obtain ⟨p, hp, hr⟩ := h0
        refine ⟨p, ?_, hr⟩
        intro id hid
        have hne : ((id, (⟨h, bh⟩ : BlockMeta)) : TxId × BlockMeta).2 ≠ ⟨b.height, b.id⟩ := by
          intro e; exact hh (congrArg BlockMeta.height e)
        rw [hI.tx.frame (id, ⟨h, bh⟩) hne]
        exact hp id hid

end MW.Lemmas.RemoveSimW
