/-
  WHAT THE TABLES OF THE BOOKS CONTAIN, in terms of the chain — part 2: credits, debits, deposit records.

  For `P` = the transactions processed so far and `B` the books after them:
    CredInv   the credit table = every owned output of `P`, unspent ones with `creditOf`, spent ones marked
              spent with the debit key of THE input that spends them; nothing else
    DebitInv  the debit table = one debit per owned spent input (amount and credit key of the coin); nothing else
    GameInv   the deposit-record table = one record per owned staking / binding output, in the withdrawn
              partition iff a transaction of `P` spends it
  each with `_nil`, `_step` (under `Glob own P B` and `OccValid own P oc`), `_fold`, `_bookOf`
  (under `ChainValid own chain`), and `spentBy_unique`: on a valid chain an outpoint is spent at most once.
-/
import MW.Lemmas.LedgerChar
namespace MW.Lemmas.Ledger
open MW MW.Model.Ledger MW.Spec.Chain MW.Spec.Books

-- ------------------------------------------------------------------ definitions

/-- CREDITS: what the credit table holds after the transactions `P` -/
structure CredInv (p : Params) (own : Own) (P : List Occ) (B : Book) : Prop where
  /-- an owned output no transaction spends has its unspent credit -/
  unspent : ∀ u, CreatedIn own P u → (u.tx, u.idx) ∉ spentOps P → B.credits u.credKey = some (creditOf p u)
  /-- an owned output spent by input `dk` has its credit marked spent by `dk` -/
  spent : ∀ u dk, CreatedIn own P u → SpentBy P (u.tx, u.idx) dk →
    B.credits u.credKey = some { creditOf p u with spent := true, spentBy := some dk }
  /-- there is no other credit -/
  only : ∀ ck cr, B.credits ck = some cr → ∃ u, CreatedIn own P u ∧ ck = u.credKey

/-- DEBITS: one debit per owned spent input, none else -/
def DebitInv (own : Own) (P : List Occ) (B : Book) : Prop :=
  ∀ dk amt ck, B.debits dk = some (amt, ck) ↔
    ∃ u, CreatedIn own P u ∧ SpentBy P (u.tx, u.idx) dk ∧ amt = u.out.amt ∧ ck = u.credKey

/-- DEPOSIT RECORDS: one record per owned staking / binding output; withdrawn iff spent -/
def GameInv (own : Own) (P : List Occ) (B : Book) : Prop :=
  ∀ gk, B.game gk = some () ↔
    ∃ u, CreatedIn own P u ∧ isDeposit u.out.cls = true ∧ gk = u.gameKey (decide ((u.tx, u.idx) ∈ spentOps P))

/-- an outpoint is spent by at most one input -/
def SpendUniq (P : List Occ) : Prop := ∀ op dk dk', SpentBy P op dk → SpentBy P op dk' → dk = dk'

-- ------------------------------------------------------------------ hits and coins of the chain

/-- a ledger entry found at an outpoint is an owned, unspent output of an earlier transaction -/
theorem char_hit_created {own : Own} {P : List Occ} {B : Book} (hG : Glob own P B) {tx : TxId} {idx : Nat}
    {u : UCoin} (hu : lookupU B.L tx idx = some u) :
    CreatedIn own P u ∧ (u.tx, u.idx) ∉ spentOps P ∧ u.tx = tx ∧ u.idx = idx ∧ u.tx ∈ idsOf P := by
  obtain ⟨hm, ht, hi⟩ := lookupU_some hu
  obtain ⟨hc, hns⟩ := (hG.mem u).1 hm
  exact ⟨hc, hns, ht, hi, createdIn_ids hc⟩

/-- an input of a valid transaction that refers to an owned output finds it in the ledger -/
theorem char_hit_of_created {own : Own} {P : List Occ} {B : Book} {oc : Occ} (hG : Glob own P B)
    (hV : OccValid own P oc) {u : UCoin} (hc : CreatedIn own P u) (hcb : oc.t.cb = false) {k : Nat} {i : Inp}
    (hk : oc.t.ins[k]? = some i) (hop : opOf i = (u.tx, u.idx)) : lookupU B.L i.tx i.idx = some u := by
  have hns : (u.tx, u.idx) ∉ spentOps P := by
    rw [← hop]; exact hV.2.2.2.1 hcb i (List.mem_of_getElem? hk)
  have hm : u ∈ B.L := (hG.mem u).2 ⟨hc, hns⟩
  unfold opOf at hop
  injection hop with h1 h2
  rw [h1, h2]
  exact char_lookup_of_mem hG hm

/-- the outpoint of a hit is spent once the transaction is processed -/
theorem char_hit_spent {P : List Occ} {oc : Occ} {m : Nat} {i : Inp} {u : UCoin} (hcb : oc.t.cb = false)
    (hm : oc.t.ins[m]? = some i) (ht : u.tx = i.tx) (hi : u.idx = i.idx) :
    (u.tx, u.idx) ∈ spentOps (P ++ [oc]) := by
  rw [mem_spentOps_snoc]
  right
  refine ⟨hcb, List.mem_map.2 ⟨i, List.mem_of_getElem? hm, ?_⟩⟩
  unfold opOf; rw [ht, hi]

/-- an output of the new transaction is not spent yet -/
theorem char_new_unspent {own : Own} {P : List Occ} {B : Book} {oc : Occ} (hG : Glob own P B)
    (hV : OccValid own P oc) (idx : Nat) : (oc.t.id, idx) ∉ spentOps (P ++ [oc]) := by
  intro h
  rcases mem_spentOps_snoc.1 h with h1 | ⟨hcb, h1⟩
  · exact hV.1 (hG.spentIds _ h1)
  · exact hV.1 (occValid_ins_ids hV hcb h1)

theorem char_spentOps_mono {P : List Occ} {oc : Occ} {op : TxId × Nat} (h : op ∈ spentOps P) :
    op ∈ spentOps (P ++ [oc]) := mem_spentOps_snoc.2 (Or.inl h)

theorem char_credKey_inj {u u' : UCoin} (h : u.credKey = u'.credKey) : u.tx = u'.tx ∧ u.idx = u'.idx :=
  ⟨congrArg CredKey.tx h, congrArg CredKey.idx h⟩

/-- the coin the new transaction creates at output `u.idx`, spelled out -/
theorem char_new_coin {oc : Occ} {u : UCoin} (hid : oc.t.id = u.tx) (hblk : u.blk = oc.bm) (hcb : u.cb = oc.t.cb) :
    u = ⟨u.wallet, oc.t.id, u.idx, oc.bm, oc.t.cb, u.out, u.change⟩ := by
  obtain ⟨w, tx, idx, blk, cb, out, ch⟩ := u
  simp only at hid hblk hcb
  subst hid hblk hcb
  rfl

-- ------------------------------------------------------------------ spent at most once

theorem spendUniq_nil : SpendUniq [] := by
  intro op dk dk' h
  obtain ⟨oc, hoc, _⟩ := h
  cases hoc

theorem spendUniq_step {own : Own} {P : List Occ} {oc : Occ} (hU : SpendUniq P) (hV : OccValid own P oc) :
    SpendUniq (P ++ [oc]) := by
  intro op dk dk' h h'
  rcases spentBy_snoc.1 h with h1 | ⟨hcb, k, i, hk, hop, hdk⟩
  · rcases spentBy_snoc.1 h' with h2 | ⟨hcb', k', i', hk', hop', _⟩
    · exact hU op dk dk' h1 h2
    · exfalso
      apply hV.2.2.2.1 hcb' i' (List.mem_of_getElem? hk')
      rw [hop']; exact spentBy_mem_spentOps h1
  · rcases spentBy_snoc.1 h' with h2 | ⟨_, k', i', hk', hop', hdk'⟩
    · exfalso
      apply hV.2.2.2.1 hcb i (List.mem_of_getElem? hk)
      rw [hop]; exact spentBy_mem_spentOps h2
    · have hnd := hV.2.2.1 hcb
      have hlt : k < (oc.t.ins.map opOf).length := by
        rw [List.length_map]
        exact (List.getElem?_eq_some_iff.1 hk).1
      have e1 : (oc.t.ins.map opOf)[k]? = some op := by rw [List.getElem?_map, hk]; simp [hop]
      have e2 : (oc.t.ins.map opOf)[k']? = some op := by rw [List.getElem?_map, hk']; simp [hop']
      have : k = k' := (List.getElem?_inj hlt hnd).1 (e1.trans e2.symm)
      rw [hdk, hdk', this]

theorem spendUniq_fold {own : Own} {P rest : List Occ} :
    SpendUniq P → ValidFrom own P rest → SpendUniq (P ++ rest) := by
  induction rest generalizing P with
  | nil => intro h _; simpa using h
  | cons oc rest ih =>
    intro h hV
    have := ih (spendUniq_step h hV.1) hV.2
    simpa [List.append_assoc] using this

/-- on a valid chain an outpoint is spent by at most one input -/
theorem spentBy_unique {own : Own} {chain : List Block} (hV : ChainValid own chain) {op : TxId × Nat}
    {dk dk' : CredKey} (h : SpentBy (occs chain) op dk) (h' : SpentBy (occs chain) op dk') : dk = dk' := by
  have := spendUniq_fold (P := []) spendUniq_nil hV
  rw [List.nil_append] at this
  exact this op dk dk' h h'

-- ------------------------------------------------------------------ CREDITS

theorem credInv_nil (p : Params) (own : Own) : CredInv p own [] {} where
  unspent := by rintro u ⟨oc, hoc, _⟩; cases hoc
  spent := by rintro u dk ⟨oc, hoc, _⟩; cases hoc
  only := by intro ck cr h; cases h

theorem credInv_step {p : Params} {own : Own} {P : List Occ} {B : Book} {oc : Occ}
    (hI : CredInv p own P B) (hG : Glob own P B) (hV : OccValid own P oc) :
    CredInv p own (P ++ [oc]) (applyOcc p own B oc) := by
  obtain ⟨cN, cH, cF⟩ := char_applyOcc_credits p own B oc hV.2.2.1
  -- an old coin's credit key is no key of an output of the new transaction
  have hnoNew : ∀ u, CreatedIn own P u → ∀ (m : Nat) (o : Out), oc.t.outs[m]? = some o →
      (ownerOf own o).isSome = true → (⟨oc.t.id, oc.bm, m⟩ : CredKey) ≠ u.credKey := by
    intro u hc m o _ _ h
    apply hV.1
    have : oc.t.id = u.tx := congrArg CredKey.tx h
    rw [this]; exact createdIn_ids hc
  constructor
  · -- unspent
    intro u hc hns
    rcases createdIn_snoc.1 hc with hc | ⟨hid, hget, hown, hblk, hcb⟩
    · rw [cF u.credKey ?_ (hnoNew u hc)]
      · exact hI.unspent u hc (fun h => hns (char_spentOps_mono h))
      · intro m i u' hcb hm hu' he
        obtain ⟨_, _, ht, hi, _⟩ := char_hit_created hG hu'
        obtain ⟨e1, e2⟩ := char_credKey_inj he
        apply hns
        rw [← e1, ← e2]
        exact char_hit_spent hcb hm ht hi
    · have := cN u.idx u.out u.wallet u.change hget hown
      rw [← char_new_coin hid hblk hcb] at this
      rw [← this]
      unfold UCoin.credKey
      rw [← hid, hblk]
  · -- spent
    intro u dk hc hs
    rcases createdIn_snoc.1 hc with hc | ⟨hid, _, _, _, _⟩
    · rcases spentBy_snoc.1 hs with hs | ⟨hcb, k, i, hk, hop, hdk⟩
      · rw [cF u.credKey ?_ (hnoNew u hc)]
        · exact hI.spent u dk hc hs
        · intro m i u' _ _ hu' he
          obtain ⟨_, hns', _, _, _⟩ := char_hit_created hG hu'
          obtain ⟨e1, e2⟩ := char_credKey_inj he
          apply hns'
          rw [e1, e2]
          exact spentBy_mem_spentOps hs
      · have hu := char_hit_of_created hG hV hc hcb hk hop
        have hne : u.tx ≠ oc.t.id := fun e => hV.1 (e ▸ createdIn_ids hc)
        rw [hdk]
        exact cH k i u hcb hk hu hne
    · exfalso
      have := spentBy_mem_spentOps hs
      rw [← hid] at this
      exact char_new_unspent hG hV u.idx this
  · -- only
    intro ck cr h
    by_cases hnew : ∃ (m : Nat) (o : Out), oc.t.outs[m]? = some o ∧ (ownerOf own o).isSome = true ∧
        (⟨oc.t.id, oc.bm, m⟩ : CredKey) = ck
    · obtain ⟨m, o, hm, ho, hk⟩ := hnew
      obtain ⟨⟨w, ch⟩, ho'⟩ := Option.isSome_iff_exists.1 ho
      exact ⟨⟨w, oc.t.id, m, oc.bm, oc.t.cb, o, ch⟩,
        createdIn_snoc.2 (Or.inr ⟨rfl, hm, ho', rfl, rfl⟩), hk.symm⟩
    · by_cases hhit : ∃ (m : Nat) (i : Inp) (u : UCoin), oc.t.cb = false ∧ oc.t.ins[m]? = some i ∧
          lookupU B.L i.tx i.idx = some u ∧ u.credKey = ck
      · obtain ⟨m, i, u, _, _, hu, hk⟩ := hhit
        exact ⟨u, createdIn_mono (char_hit_created hG hu).1, hk.symm⟩
      · rw [cF ck (fun m i u hcb hm hu he => hhit ⟨m, i, u, hcb, hm, hu, he⟩)
          (fun m o hm ho he => hnew ⟨m, o, hm, ho, he⟩)] at h
        obtain ⟨u, hc, hk⟩ := hI.only ck cr h
        exact ⟨u, createdIn_mono hc, hk⟩

theorem credInv_fold {p : Params} {own : Own} {P : List Occ} {B : Book} {rest : List Occ} :
    CredInv p own P B → Glob own P B → ValidFrom own P rest →
      CredInv p own (P ++ rest) (rest.foldl (applyOcc p own) B) := by
  induction rest generalizing P B with
  | nil => intro hI _ _; simpa using hI
  | cons oc rest ih =>
    intro hI hG hV
    have := ih (credInv_step hI hG hV.1) (glob_step (p := p) hG hV.1) hV.2
    simpa [List.append_assoc] using this

/-- the credit table of the books of a valid chain -/
theorem credInv_bookOf {p : Params} {own : Own} {chain : List Block} :
    ChainValid own chain → CredInv p own (occs chain) (bookOf p own chain) := by
  intro h
  have := credInv_fold (credInv_nil p own) (glob_nil own) h
  unfold bookOf
  simpa using this

-- ------------------------------------------------------------------ DEBITS

theorem debitInv_nil (own : Own) : DebitInv own [] {} := by
  intro dk amt ck
  constructor
  · intro h; cases h
  · rintro ⟨u, ⟨oc, hoc, _⟩, _⟩; cases hoc

theorem debitInv_step {p : Params} {own : Own} {P : List Occ} {B : Book} {oc : Occ}
    (hI : DebitInv own P B) (hG : Glob own P B) (hV : OccValid own P oc) :
    DebitInv own (P ++ [oc]) (applyOcc p own B oc) := by
  obtain ⟨dH, dF⟩ := char_applyOcc_debits p own B oc hV.2.2.1
  intro dk amt ck
  constructor
  · intro h
    by_cases hhit : ∃ (m : Nat) (i : Inp) (u : UCoin), oc.t.cb = false ∧ oc.t.ins[m]? = some i ∧
        lookupU B.L i.tx i.idx = some u ∧ (⟨oc.t.id, oc.bm, m⟩ : CredKey) = dk
    · obtain ⟨m, i, u, hcb, hm, hu, hk⟩ := hhit
      have := dH m i u hcb hm hu
      rw [hk, h] at this
      injection this with this
      injection this with ha hc
      obtain ⟨hcr, _, ht, hi, _⟩ := char_hit_created hG hu
      refine ⟨u, createdIn_mono hcr, spentBy_snoc.2 (Or.inr ⟨hcb, m, i, hm, ?_, hk.symm⟩), ha, hc⟩
      unfold opOf; rw [ht, hi]
    · rw [dF dk (fun m i u hcb hm hu he => hhit ⟨m, i, u, hcb, hm, hu, he⟩)] at h
      obtain ⟨u, hc, hs, ha, hk⟩ := (hI dk amt ck).1 h
      exact ⟨u, createdIn_mono hc, spentBy_mono hs, ha, hk⟩
  · rintro ⟨u, hc, hs, rfl, rfl⟩
    rcases createdIn_snoc.1 hc with hc | ⟨hid, _, _, _, _⟩
    · rcases spentBy_snoc.1 hs with hs | ⟨hcb, k, i, hk, hop, hdk⟩
      · rw [dF dk ?_]
        · exact (hI dk _ _).2 ⟨u, hc, hs, rfl, rfl⟩
        · intro m i u' _ _ _ he
          apply hV.1
          have := spentBy_tx_mem hs
          rw [← he] at this
          exact this
      · rw [hdk]
        exact dH k i u hcb hk (char_hit_of_created hG hV hc hcb hk hop)
    · exfalso
      have := spentBy_mem_spentOps hs
      rw [← hid] at this
      exact char_new_unspent hG hV u.idx this

theorem debitInv_fold {p : Params} {own : Own} {P : List Occ} {B : Book} {rest : List Occ} :
    DebitInv own P B → Glob own P B → ValidFrom own P rest →
      DebitInv own (P ++ rest) (rest.foldl (applyOcc p own) B) := by
  induction rest generalizing P B with
  | nil => intro hI _ _; simpa using hI
  | cons oc rest ih =>
    intro hI hG hV
    have := ih (debitInv_step (p := p) hI hG hV.1) (glob_step (p := p) hG hV.1) hV.2
    simpa [List.append_assoc] using this

/-- the debit table of the books of a valid chain -/
theorem debitInv_bookOf {p : Params} {own : Own} {chain : List Block} :
    ChainValid own chain → DebitInv own (occs chain) (bookOf p own chain) := by
  intro h
  have := debitInv_fold (p := p) (debitInv_nil own) (glob_nil own) h
  unfold bookOf
  simpa using this

-- ------------------------------------------------------------------ DEPOSIT RECORDS

theorem gameInv_nil (own : Own) : GameInv own [] {} := by
  intro gk
  constructor
  · intro h; cases h
  · rintro ⟨u, ⟨oc, hoc, _⟩, _⟩; cases hoc

theorem gameInv_step {p : Params} {own : Own} {P : List Occ} {B : Book} {oc : Occ}
    (hI : GameInv own P B) (hG : Glob own P B) (hV : OccValid own P oc) :
    GameInv own (P ++ [oc]) (applyOcc p own B oc) := by
  have hnd := hV.2.2.1
  intro gk
  constructor
  · intro h
    rcases char_applyOcc_game_back p own B oc hnd gk h with
      ⟨m, o, w, ch, hm, ho, hd, hk⟩ | ⟨m, i, u, hcb, hm, hu, hd, hk⟩ | ⟨hold, hno⟩
    · refine ⟨⟨w, oc.t.id, m, oc.bm, oc.t.cb, o, ch⟩, createdIn_snoc.2 (Or.inr ⟨rfl, hm, ho, rfl, rfl⟩), hd, ?_⟩
      rw [decide_eq_false (char_new_unspent hG hV m), hk]
      rfl
    · obtain ⟨hcr, _, ht, hi, _⟩ := char_hit_created hG hu
      refine ⟨u, createdIn_mono hcr, hd, ?_⟩
      rw [decide_eq_true (char_hit_spent hcb hm ht hi), hk]
    · obtain ⟨u, hc, hd, hk⟩ := (hI gk).1 hold
      refine ⟨u, createdIn_mono hc, hd, ?_⟩
      by_cases hsp : (u.tx, u.idx) ∈ spentOps P
      · rw [decide_eq_true hsp] at hk
        rw [decide_eq_true (char_spentOps_mono hsp)]; exact hk
      · rw [decide_eq_false hsp] at hk
        have : (u.tx, u.idx) ∉ spentOps (P ++ [oc]) := by
          intro h'
          rcases mem_spentOps_snoc.1 h' with h1 | ⟨hcb, h1⟩
          · exact hsp h1
          · obtain ⟨i, hi, hop⟩ := List.mem_map.1 h1
            obtain ⟨k, hk'⟩ := List.getElem?_of_mem hi
            have hu := char_hit_of_created hG hV hc hcb hk' hop
            exact (hno k i u hcb hk' hu hd).2 hk.symm
        rw [decide_eq_false this]; exact hk
  · rintro ⟨u, hc, hd, rfl⟩
    rcases createdIn_snoc.1 hc with hc | ⟨hid, hget, hown, hblk, hcb⟩
    · by_cases hsp : (u.tx, u.idx) ∈ spentOps P
      · rw [decide_eq_true (char_spentOps_mono hsp)]
        apply char_applyOcc_game_keep p own B oc hnd
        · have := (hI (u.gameKey true)).2 ⟨u, hc, hd, by rw [decide_eq_true hsp]⟩
          exact this
        · intro m i u' _ _ hu' _
          obtain ⟨_, hns', _, _, _⟩ := char_hit_created hG hu'
          have hne : ¬ (u.tx = u'.tx ∧ u.idx = u'.idx) := by
            rintro ⟨e1, e2⟩; apply hns'; rw [← e1, ← e2]; exact hsp
          exact ⟨gameKey_ne_of_key_ne true true hne, gameKey_ne_of_key_ne false true hne⟩
      · by_cases hnow : oc.t.cb = false ∧ (u.tx, u.idx) ∈ oc.t.ins.map opOf
        · obtain ⟨hcb, h1⟩ := hnow
          obtain ⟨i, hi, hop⟩ := List.mem_map.1 h1
          obtain ⟨k, hk'⟩ := List.getElem?_of_mem hi
          have hu := char_hit_of_created hG hV hc hcb hk' hop
          rw [decide_eq_true (mem_spentOps_snoc.2 (Or.inr ⟨hcb, h1⟩))]
          exact char_applyOcc_game_hit p own B oc hnd hcb hk' hu hd
        · have hns : (u.tx, u.idx) ∉ spentOps (P ++ [oc]) := by
            intro h'
            rcases mem_spentOps_snoc.1 h' with h1 | h1
            · exact hsp h1
            · exact hnow h1
          rw [decide_eq_false hns]
          apply char_applyOcc_game_keep p own B oc hnd
          · exact (hI (u.gameKey false)).2 ⟨u, hc, hd, by rw [decide_eq_false hsp]⟩
          · intro m i u' hcb hm hu' _
            obtain ⟨_, _, ht, hi, _⟩ := char_hit_created hG hu'
            have hne : ¬ (u.tx = u'.tx ∧ u.idx = u'.idx) := by
              rintro ⟨e1, e2⟩; apply hns; rw [e1, e2]; exact char_hit_spent hcb hm ht hi
            exact ⟨gameKey_ne_of_key_ne true false hne, gameKey_ne_of_key_ne false false hne⟩
    · have hns : (u.tx, u.idx) ∉ spentOps (P ++ [oc]) := by
        rw [← hid]; exact char_new_unspent hG hV u.idx
      rw [decide_eq_false hns]
      have := char_applyOcc_game_new p own B oc hget hown hd
      unfold UCoin.gameKey
      rw [← hid, hblk]
      exact this

theorem gameInv_fold {p : Params} {own : Own} {P : List Occ} {B : Book} {rest : List Occ} :
    GameInv own P B → Glob own P B → ValidFrom own P rest →
      GameInv own (P ++ rest) (rest.foldl (applyOcc p own) B) := by
  induction rest generalizing P B with
  | nil => intro hI _ _; simpa using hI
  | cons oc rest ih =>
    intro hI hG hV
    have := ih (gameInv_step (p := p) hI hG hV.1) (glob_step (p := p) hG hV.1) hV.2
    simpa [List.append_assoc] using this

/-- the deposit-record table of the books of a valid chain -/
theorem gameInv_bookOf {p : Params} {own : Own} {chain : List Block} :
    ChainValid own chain → GameInv own (occs chain) (bookOf p own chain) := by
  intro h
  have := gameInv_fold (p := p) (gameInv_nil own) (glob_nil own) h
  unfold bookOf
  simpa using this

end MW.Lemmas.Ledger
