/-
  C08, removal interleaved with a REORGANISATION: the concrete history that REFUTED "any interleaving of removal
  steps with follower steps ends, after the finishing step, in C01's invariant for the table without the wallet"
  for the model of the code before the D45 repair — and what the repaired model does on it.

  Wallets W1 (survivor), W2 (removed; address A2).  Chain G – B1[C1: cb → A2:100, A2:100, A1:50] – B2[C2, X3: C1:0, C1:1 → X1].
  Removal of W2 with step size 1.

  UNREPAIRED model (`Unrepaired.minedStep` … `Unrepaired.irun`: a tx record is erased as soon as nobody else needs it):
    step 1   deletes the credit C1:1 and its debit (X3, B2, 1); X3 is examined through that debit: nobody else needs
             it, its tx record and B2's block record go (`Unrepaired.first_step_drops_record`).  C1's record stays (it
             pays W1).  Left of W2: credit C1:0 (spent by X3) and the debit (X3, B2, 0).
    reorg    the node switches to G – B1' – B2'.  Rollback finds no block record at height 2 (X3 is NOT rolled back)
             and rolls back C1 at height 1: the credit C1:0 is erased.  The debit (X3, B2, 0) now points at nothing.
    step 2   finishes (no credit of W2 is left): the debit stays for ever (`Unrepaired.unrepaired_leaves_debit`).
  The final store is NOT the books of the chain for W1's keystore: `Unrepaired.interleaved_not_inv`.
  (Replayed on the unrepaired code with 20 003 credits: corpus-candidates/C08-reorg-between-steps-dangling-debit.ops.)

  REPAIRED model (`MW.Model.Remove.minedStep`: the record stays while a credit / debit under its key is left):
    step 1   X3's tx record and B2's block record stay (`first_step_keeps_record`);
    reorg    rolls X3 back like any other keystore's transaction: debit and credit go;
    step 2   finishes on empty buckets.
  The final store has the ten fields `Inv` reads in common with the store the follower builds for chain B from
  scratch with W1's keystore only (`stB`, `run_eq_stB_*`): the history ends in C01's invariant for the table
  without W2 on chain B — `interleaved_inv`.
-/
import MW.Lemmas.RemoveInterleave
import MW.Lemmas.LedgerHistoryEx
import MW.Lemmas.LedgerInit
namespace MW.Lemmas.RemoveMidCex
open MW MW.Model.Ledger MW.Model.Remove MW.Spec.Chain MW.Spec.Books MW.Lemmas.Ledger MW.Lemmas.RemoveProj
  MW.Lemmas.RemoveInv MW.Lemmas.RemoveMain MW.Lemmas.RemoveInterleave

def c1 : Tx := ⟨"C1", true, [], [⟨"A2", 100, .std⟩, ⟨"A2", 100, .std⟩, ⟨"A1", 50, .std⟩]⟩
def c2 : Tx := ⟨"C2", true, [], [⟨"X9", 5, .std⟩]⟩
def x3 : Tx := ⟨"X3", false, [⟨"C1", 0, 0⟩, ⟨"C1", 1, 0⟩], [⟨"X1", 199, .std⟩]⟩
def g : Block := ⟨"G", "", 0, []⟩
def b1 : Block := ⟨"B1", "G", 1, [c1]⟩
def b2 : Block := ⟨"B2", "B1", 2, [c2, x3]⟩
def c1' : Tx := ⟨"C1'", true, [], [⟨"X9", 5, .std⟩]⟩
def c2' : Tx := ⟨"C2'", true, [], [⟨"X9", 5, .std⟩]⟩
def b1' : Block := ⟨"B1'", "G", 1, [c1']⟩
def b2' : Block := ⟨"B2'", "B1'", 2, [c2']⟩
def chainA : List Block := [g, b1, b2]
def chainB : List Block := [g, b1', b2']
def own : Own := [("A1", ("W1", false)), ("A2", ("W2", false))]
def own' : Own := own.filter (fun e => e.2.1 != "W2")
def known : AMap.T BlkId Block := [("G", g), ("B1", b1), ("B2", b2), ("B1'", b1'), ("B2'", b2')]
def nodeA : Node := { chain := chainA, known := known }
def nodeB : Node := { chain := chainB, known := known }
def ctx : Ctx := ⟨{ cbMaturity := 1 }, own, ["W1", "W2"], nodeA⟩

def s0 : Store :=
  { balance := [("W1", 0), ("W2", 0)], sync := [(0, "G")], syncedTo := 0,
    status := [("W1", ⟨none, false⟩), ("W2", ⟨none, false⟩)] }

/-- the store the follower builds for chain A -/
def st : Store :=
  match connectAll ctx (readyWallets s0 ctx.wallets) [b1, b2] s0 [] with
  | .ok (s, _) => s
  | .error _ => s0

/-- RemoveWallet accepted: W2 is flagged -/
def stF : Store := (removeWallet 0 ["W1", "W2"] true st "W2").2

def x0 : ISt := { s := stF, v := { best := ⟨2, "B2"⟩ }, node := nodeA }

/-- step · reorganisation to chain B · step -/
def evs : List IEv := [.rem, .notify nodeB b2', .rem]

theorem ready0 : readyWallets s0 ["W1", "W2"] = ["W1", "W2"] := by decide

theorem allReady : AllReady own ["W1", "W2"] := by
  intro a w ch h
  simp only [own, AMap.get_cons, AMap.get_nil] at h
  split at h
  · simp only [Option.some.injEq, Prod.mk.injEq] at h; rw [← h.1]; rfl
  · split at h
    · simp only [Option.some.injEq, Prod.mk.injEq] at h; rw [← h.1]; rfl
    · cases h

theorem fresh : FreshStore ctx s0 g where
  credits := rfl
  unspent := rfl
  debits := rfl
  game := rfl
  txrecs := rfl
  blocks := rfl
  sync := rfl
  syncedTo := rfl
  balance := by
    intro w hw
    change (readyWallets s0 ["W1", "W2"]).contains w = true at hw
    rw [ready0] at hw
    have : w = "W1" ∨ w = "W2" := by simpa using hw
    rcases this with rfl | rfl <;> rfl
  genesis := rfl

theorem validA : ChainValid own chainA := by decide
theorem validB : ChainValid own chainB := by decide
theorem goodA : GoodChain chainA := hxGood3 rfl rfl rfl rfl rfl
theorem goodB : GoodChain chainB := hxGood3 rfl rfl rfl rfl rfl

theorem inv_st : Inv ctx st chainA := by
  obtain ⟨s', added, h, hI, _, _⟩ := connectAll_sound (c := ctx) [b1, b2] s0 [g] [] []
    (inv_fresh fresh) rfl validA goodA.heights
    (by show AllReady own (readyWallets s0 ["W1", "W2"]); rw [ready0]; exact allReady)
    (by show (readyWallets s0 ["W1", "W2"]).isEmpty = false; rw [ready0]; rfl)
  have hs : st = s' := by unfold st; rw [h]
  rw [hs]; exact hI

theorem readyF : readyWallets stF ["W1", "W2"] = ["W1"] := by decide
theorem ready_st : readyWallets st ["W1", "W2"] = ["W1", "W2"] := by decide

/-- C01's invariant holds of the flagged store as well (the flag only shrinks the set of ready wallets) -/
theorem inv_stF : Inv ctx stF chainA := by
  have hI := inv_st
  refine ⟨⟨hI.agree.unspent, hI.agree.credits, hI.agree.debits, hI.agree.game, hI.agree.txrecs, hI.agree.blocks⟩,
    ?_, hI.sync, hI.syncedTo⟩
  intro w hw
  change (readyWallets stF ["W1", "W2"]).contains w = true at hw
  rw [readyF] at hw
  have hw1 : w = "W1" := by simpa using hw
  subst hw1
  exact hI.bal "W1" (by change (readyWallets st ["W1", "W2"]).contains "W1" = true; rw [ready_st]; rfl)

theorem managed : ∀ a, (["A2"] : List Addr).contains a = isW own "W2" a := by
  intro a
  unfold isW
  simp only [own, AMap.get_cons, AMap.get_nil]
  by_cases h1 : "A1" = a
  · subst h1; decide
  · by_cases h2 : "A2" = a
    · subst h2; decide
    · have : ¬ a = "A2" := fun h => h2 h.symm
      simp [h1, h2, this]

theorem remHyp : RemHyp ctx "W2" ["A2"] own' chainA where
  minus := ownMinus_filter (by unfold KeysNodup; decide) "W2"
  managed := managed
  ne := by decide
  valid := validA
  heights := goodA.heights
  known := by
    intro x hx
    simp only [chainA, List.mem_cons, List.not_mem_nil, or_false] at hx
    rcases hx with rfl | rfl | rfl <;> rfl

theorem stF_nodup : KeysNodup stF.credits := by unfold KeysNodup; decide
theorem stF_unspent_nodup : KeysNodup stF.unspent := by unfold KeysNodup; decide

theorem stF_pend : ∀ e ∈ stF.pendCred, e.1.1 ∉ idsOf (occs chainA) := by
  have : stF.pendCred = [] := by decide
  intro e he; rw [this] at he; cases he

theorem stF_flagged : AMap.get stF.status "W2" = some ⟨none, true⟩ := by decide

theorem others_ready : ∀ a w' ch, AMap.get own a = some (w', ch) → w' ≠ "W2" →
    (readyWallets stF ["W1", "W2"]).contains w' = true := by
  intro a w' ch h hne
  rw [readyF]
  simp only [own, AMap.get_cons, AMap.get_nil] at h
  split at h
  · simp only [Option.some.injEq, Prod.mk.injEq] at h; rw [← h.1]; rfl
  · split at h
    · simp only [Option.some.injEq, Prod.mk.injEq] at h; exact absurd h.1.symm hne
    · cases h

theorem nodeB_ok : NodeOK own g known nodeB b2' where
  good := goodB
  valid := validB
  genesis := rfl
  known := by
    intro x hx
    change x ∈ chainB at hx
    simp only [chainB, List.mem_cons, List.not_mem_nil, or_false] at hx
    rcases hx with rfl | rfl | rfl <;> rfl
  grows := fun _ _ h => h
  tip := rfl

theorem evs_ok : ∀ ev ∈ evs, EvOK own g known ev := by
  intro ev hev
  simp only [evs, List.mem_cons, List.not_mem_nil, or_false] at hev
  rcases hev with rfl | rfl | rfl
  · trivial
  · exact nodeB_ok
  · trivial

/-- the history runs (every database transaction succeeds), its last step is the finishing one, the follower is on
    the node's new chain — and the debit (X3, B2, 0) of the removed wallet's coin is still in the store -/
theorem run_result :
    (irun 1 ctx "W2" ["A2"] x0 evs).map (fun x => (x.fin, x.v.best.hash, x.s.syncedTo, (AMap.get x.s.status "W2").isSome)) =
    some (true, "B2'", 2, false) := by decide

theorem run_buckets :
    (irun 1 ctx "W2" ["A2"] x0 evs).map (fun x => (x.s.credits.map (·.1.tx),
       x.s.debits.map (fun e => (e.1.tx, e.1.blk.hash, e.1.idx)), x.s.txrecs.map (·.1.1))) =
    some ([], [], []) := by decide

theorem run_pending :
    (irun 1 ctx "W2" ["A2"] x0 evs).map (fun x => (x.s.pending.map (·.1), x.s.pendCred.map (·.1), x.s.blocks.map (·.1))) =
    some ([], [], []) := by decide

/-- after the first step (step size 1) X3's tx record and B2's block record are STILL there (D45 repair: the debit
    (X3, B2, 0) is left), so the reorganisation rolls X3 back like any other keystore's transaction -/
theorem first_step_keeps_record :
    (irun 1 ctx "W2" ["A2"] x0 [.rem]).map (fun x => (x.fin, x.s.credits.map (fun e => (e.1.tx, e.1.idx)))) =
      some (false, [("C1", 0), ("C1", 2)]) ∧
    (irun 1 ctx "W2" ["A2"] x0 [.rem]).map (fun x => x.s.debits.map (fun e => (e.1.tx, e.1.blk.hash, e.1.idx))) =
      some [("X3", "B2", 0)] ∧
    (irun 1 ctx "W2" ["A2"] x0 [.rem]).map (fun x => (x.s.txrecs.map (·.1.1), x.s.blocks.map (·.1))) =
      some (["X3", "C1"], [2, 1]) := ⟨by decide, by decide, by decide⟩

/-- the books of chain B for W1's keystore have no debit at all under that key -/
theorem books_no_debit : (bookOf ctx.p own' chainB).debits ⟨"X3", ⟨2, "B2"⟩, 0⟩ = none := by decide

theorem run_some : (irun 1 ctx "W2" ["A2"] x0 evs).isSome = true := by decide

theorem own_nodup : KeysNodup own := by unfold KeysNodup; decide

/-- `Inv` reads the store only through these ten fields (not the address records, not the unmined buckets) -/
theorem inv_of_fields {c : Ctx} {s s' : Store} {chain : List Block} (hI : Inv c s chain)
    (h1 : s'.unspent = s.unspent) (h2 : s'.credits = s.credits) (h3 : s'.debits = s.debits) (h4 : s'.game = s.game)
    (h5 : s'.txrecs = s.txrecs) (h6 : s'.blocks = s.blocks) (h7 : s'.balance = s.balance) (h8 : s'.status = s.status)
    (h9 : s'.sync = s.sync) (h10 : s'.syncedTo = s.syncedTo) : Inv c s' chain := by
  refine ⟨⟨?_, ?_, ?_, ?_, ?_, ?_⟩, ?_, ?_, ?_⟩
  · rw [h1]; exact hI.agree.unspent
  · rw [h2]; exact hI.agree.credits
  · rw [h3]; exact hI.agree.debits
  · rw [h4]; exact hI.agree.game
  · rw [h5]; exact hI.agree.txrecs
  · rw [h6]; exact hI.agree.blocks
  · intro w hw
    rw [readyWallets_congr h8] at hw
    rw [h7]; exact hI.bal w hw
  · rw [h9]; exact hI.sync
  · rw [h10]; exact hI.syncedTo

/-- the table without W2, the node on chain B -/
def ctxB : Ctx := ⟨ctx.p, own', ["W1"], nodeB⟩

def s0B : Store := { balance := [("W1", 0)], sync := [(0, "G")], syncedTo := 0, status := [("W1", ⟨none, false⟩)] }

/-- the store the follower builds for chain B from scratch, W1's keystore only -/
def stB : Store :=
  match connectAll ctxB (readyWallets s0B ctxB.wallets) [b1', b2'] s0B [] with
  | .ok (s, _) => s
  | .error _ => s0B

theorem ready0B : readyWallets s0B ["W1"] = ["W1"] := by decide

theorem allReadyB : AllReady own' ["W1"] := by
  intro a w ch h
  have ho : own' = [("A1", ("W1", false))] := by decide
  rw [ho] at h
  simp only [AMap.get_cons, AMap.get_nil] at h
  split at h
  · simp only [Option.some.injEq, Prod.mk.injEq] at h; rw [← h.1]; rfl
  · cases h

theorem freshB : FreshStore ctxB s0B g where
  credits := rfl
  unspent := rfl
  debits := rfl
  game := rfl
  txrecs := rfl
  blocks := rfl
  sync := rfl
  syncedTo := rfl
  balance := by
    intro w hw
    change (readyWallets s0B ["W1"]).contains w = true at hw
    rw [ready0B] at hw
    have : w = "W1" := by simpa using hw
    subst this; rfl
  genesis := rfl

theorem validB' : ChainValid own' chainB := by decide

theorem inv_stB : Inv ctxB stB chainB := by
  obtain ⟨s', added, h, hI, _, _⟩ := connectAll_sound (c := ctxB) [b1', b2'] s0B [g] [] []
    (inv_fresh freshB) rfl validB' goodB.heights
    (by show AllReady own' (readyWallets s0B ["W1"]); rw [ready0B]; exact allReadyB)
    (by show (readyWallets s0B ["W1"]).isEmpty = false; rw [ready0B]; rfl)
  have hs : stB = s' := by unfold stB; rw [h]
  rw [hs]; exact hI

theorem run_eq_stB_1 : (irun 1 ctx "W2" ["A2"] x0 evs).map (fun x =>
    decide (x.s.unspent = stB.unspent) && decide (x.s.credits = stB.credits) && decide (x.s.debits = stB.debits)) = some true := by
  decide
theorem run_eq_stB_2 : (irun 1 ctx "W2" ["A2"] x0 evs).map (fun x =>
    decide (x.s.game = stB.game) && decide (x.s.txrecs = stB.txrecs) && decide (x.s.blocks = stB.blocks)) = some true := by
  decide
theorem run_eq_stB_3 : (irun 1 ctx "W2" ["A2"] x0 evs).map (fun x =>
    decide (x.s.balance = stB.balance) && decide (x.s.status = stB.status) && decide (x.s.sync = stB.sync) &&
    decide (x.s.syncedTo = stB.syncedTo)) = some true := by
  decide

theorem interleaved_inv (x : ISt) (h : irun 1 ctx "W2" ["A2"] x0 evs = some x) :
    x.fin = true ∧ x.node = nodeB ∧ Inv { ctx with own := own', wallets := ["W1"], node := x.node } x.s x.node.chain := by
  have hr := run_result
  have e1 := run_eq_stB_1
  have e2 := run_eq_stB_2
  have e3 := run_eq_stB_3
  rw [h] at hr e1 e2 e3
  simp only [Option.map_some, Option.some.injEq, Prod.mk.injEq] at hr
  simp only [Option.map_some, Option.some.injEq, Bool.and_eq_true, decide_eq_true_eq] at e1 e2 e3
  have hnode : x.node = nodeB := irun_node evs x0 x h
  refine ⟨hr.1, hnode, ?_⟩
  rw [hnode]
  show Inv ctxB x.s chainB
  exact inv_of_fields inv_stB e1.1.1 e1.1.2 e1.2 e2.1.1 e2.1.2 e2.2 e3.1.1.1 e3.1.1.2 e3.1.2 e3.2

/-! ### the UNREPAIRED model (tx records erased although a credit / debit under their key is left) on the same history -/
namespace Unrepaired

/-- `MW.Model.Remove.minedStep` before the D45 repair: no `inUse` test -/
def minedStep (c : Ctx) (addrs : List Addr) (acc : Store × List (Nat × TxId)) (e : TxId × Nat) :
    Option (Store × List (Nat × TxId)) :=
  match txRecordAt acc.1 e.1 e.2 with
  | none => some acc
  | some rec =>
    match c.node.txByFileLoc rec.2 with
    | none => none
    | some tx =>
      if removable c.own acc.1 addrs tx then
        some ({ acc.1 with txrecs := AMap.erase acc.1.txrecs rec.1 }, acc.2 ++ [(rec.1.2.height, e.1)])
      else some acc

def removeMinedTxs (c : Ctx) (s : Store) (addrs : List Addr) (heightOf : AMap.T TxId Nat) :
    Option (Store × List (Nat × TxId)) :=
  heightOf.foldlM (minedStep c addrs) (s, [])

def removeRelevantTx (limit : Nat) (c : Ctx) (s : Store) (addrs : List Addr) : Option StepOut :=
  if addrs.isEmpty then some ⟨s, [], true⟩
  else
    let (s, uh) := removeRelevantUnminedCredit s addrs
    let (s, del1) := removeUnminedTxs c.own s addrs uh
    let sc := removeRelevantCredit limit s addrs
    if sc.failed then none
    else
      let (s, del3) := removeUnminedTxs c.own sc.s addrs sc.spenders
      match removeMinedTxs c s addrs sc.heightOf with
      | none => none
      | some (s, del2) => some ⟨checkBlockRecords s del2, del1 ++ del3 ++ del2.map (·.2), sc.finish⟩

def removeStep (limit : Nat) (c : Ctx) (w : Wid) (addrs : List Addr) (s : Store) : Option StepOut :=
  match removeRelevantTx limit c s addrs with
  | none => none
  | some o =>
    if o.finish then
      let s := removeWalletIndexes o.s w
      some { o with s := { s with status := AMap.erase s.status w } }
    else some o

/-- `istep` with the unrepaired removal step (the follower events are those of `istep`) -/
def istep (limit : Nat) (c : Ctx) (w : Wid) (addrs : List Addr) (x : ISt) : IEv → Option ISt
  | .rem =>
    if x.fin then none
    else match removeStep limit { c with node := x.node } w addrs x.s with
      | none => none
      | some o => some { x with s := o.s, v := removeMempool x.v o.removedTx, fin := o.finish }
  | ev => RemoveInterleave.istep limit c w addrs x ev

def irun (limit : Nat) (c : Ctx) (w : Wid) (addrs : List Addr) : ISt → List IEv → Option ISt
  | x, [] => some x
  | x, ev :: evs =>
    match istep limit c w addrs x ev with
    | none => none
    | some x' => irun limit c w addrs x' evs

/-- the unrepaired model: the history runs, its last step is the finishing one — and the debit (X3, B2, 0) of the
    removed wallet's coin is still in the store -/
theorem unrepaired_leaves_debit : (Unrepaired.irun 1 ctx "W2" ["A2"] x0 evs).map (fun x => (x.fin,
    x.s.credits.map (·.1.tx), x.s.debits.map (fun e => (e.1.tx, e.1.blk.hash, e.1.idx)))) = some (true, [], [("X3", "B2", 0)]) := by
  decide

/-- after the first unrepaired step X3's tx record and B2's block record are gone although the debit (X3, B2, 0) is left -/
theorem first_step_drops_record :
    (irun 1 ctx "W2" ["A2"] x0 [.rem]).map (fun x => (x.s.debits.map (fun e => (e.1.tx, e.1.blk.hash, e.1.idx)),
      x.s.txrecs.map (·.1.1), x.s.blocks.map (·.1))) = some ([("X3", "B2", 0)], ["C1"], [1]) := by decide

theorem istep_node {limit : Nat} {c : Ctx} {w : Wid} {addrs : List Addr} {x x' : ISt} {ev : IEv}
    (h : istep limit c w addrs x ev = some x') : x'.node = lastNode x.node [ev] := by
  cases ev with
  | rem =>
    simp only [istep] at h
    split at h
    · cases h
    · split at h
      · cases h
      · injection h with h; rw [← h]; rfl
  | notify n b => exact RemoveInterleave.istep_node (limit := limit) (c := c) (w := w) (addrs := addrs) (ev := .notify n b) h
  | recv t => exact RemoveInterleave.istep_node (limit := limit) (c := c) (w := w) (addrs := addrs) (ev := .recv t) h
  | restart v => exact RemoveInterleave.istep_node (limit := limit) (c := c) (w := w) (addrs := addrs) (ev := .restart v) h

theorem irun_node {limit : Nat} {c : Ctx} {w : Wid} {addrs : List Addr} :
    ∀ (evs : List IEv) (x x' : ISt), irun limit c w addrs x evs = some x' → x'.node = lastNode x.node evs := by
  intro evs
  induction evs with
  | nil => intro x x' h; simp only [irun] at h; injection h with h; rw [← h]; rfl
  | cons ev evs ih =>
    intro x x' h
    simp only [irun] at h
    cases hs : istep limit c w addrs x ev with
    | none => rw [hs] at h; cases h
    | some x1 =>
      rw [hs] at h
      have h1 := istep_node hs
      have h2 := ih x1 x' h
      rw [h2, h1]
      cases ev <;> rfl

/-- **on the unrepaired model the interleaved removal does NOT end in C01's invariant for the table without the wallet** -/
theorem interleaved_not_inv (x : ISt) (h : irun 1 ctx "W2" ["A2"] x0 evs = some x) :
    x.fin = true ∧ x.node = nodeB ∧ ¬ Inv { ctx with own := own', wallets := ["W1"], node := x.node } x.s x.node.chain := by
  have hr := unrepaired_leaves_debit
  rw [h] at hr
  simp only [Option.map_some, Option.some.injEq, Prod.mk.injEq] at hr
  have hnode : x.node = nodeB := irun_node evs x0 x h
  refine ⟨hr.1, hnode, ?_⟩
  intro hI
  have hd := hI.agree.debits ⟨"X3", ⟨2, "B2"⟩, 0⟩
  rw [hnode] at hd
  change AMap.get x.s.debits ⟨"X3", ⟨2, "B2"⟩, 0⟩ = (bookOf ctx.p own' chainB).debits ⟨"X3", ⟨2, "B2"⟩, 0⟩ at hd
  rw [books_no_debit] at hd
  have : (AMap.get x.s.debits ⟨"X3", ⟨2, "B2"⟩, 0⟩).isSome = true := by
    have : (irun 1 ctx "W2" ["A2"] x0 evs).map (fun x => (AMap.get x.s.debits ⟨"X3", ⟨2, "B2"⟩, 0⟩).isSome) = some true := by
      decide
    rw [h] at this
    simpa using this
  rw [hd] at this
  cases this

theorem run_some : (irun 1 ctx "W2" ["A2"] x0 evs).isSome = true := by decide

end Unrepaired

end MW.Lemmas.RemoveMidCex
