/-
  C08, removal interleaved with a REORGANISATION: the concrete history that refutes "any interleaving of removal
  steps with follower steps ends, after the finishing step, in C01's invariant for the table without the wallet".

  Wallets W1 (survivor), W2 (removed; address A2).  Chain G – B1[C1: cb → A2:100, A2:100, A1:50] – B2[C2, X3: C1:0, C1:1 → X1].
  Removal of W2 with step size 1:
    step 1   deletes the credit C1:1 and its debit (X3, B2, 1); X3 is examined through that debit: nobody else needs
             it, its tx record and B2's block record go.  C1's record stays (it pays W1).  Left of W2: credit C1:0
             (spent by X3) and the debit (X3, B2, 0).
    reorg    the node switches to G – B1' – B2'.  Rollback finds no block record at height 2 (X3 is NOT rolled back)
             and rolls back C1 at height 1: the credit C1:0 is erased.  The debit (X3, B2, 0) now points at nothing.
    step 2   finishes (no credit of W2 is left): the debit stays for ever.
  The final store is NOT the books of the chain for W1's keystore: `interleaved_not_inv`.
  (Replayed on the real code with 20 003 credits: corpus-candidates/C08-reorg-between-steps-dangling-debit.ops.)
-/
import MW.Lemmas.RemoveInterleave
import MW.Lemmas.LedgerHistoryEx
import MW.Lemmas.LedgerInit
namespace MW.Lemmas.RemoveMidCex
open MW MW.Model.Ledger MW.Model.Remove MW.Spec.Chain MW.Spec.Books MW.Lemmas.Ledger MW.Lemmas.RemoveProj
  MW.Lemmas.RemoveInv MW.Lemmas.RemoveMain MW.Lemmas.RemoveInterleave

def c1 : Tx := ⟨"C1", true, [], [⟨"A2", 100, .std⟩, ⟨"A2", 100, .std⟩, ⟨"A1", 50, .std⟩]⟩
def c2 : Tx := ⟨"C2", true, [], [⟨"X9", 5, .std⟩]⟩
def x3 : Tx := ⟨"X3", false, [⟨"C1", 0, 0⟩, ⟨"C1", 1, 0⟩], [⟨"X1", 199, .std⟩]⟩
def g : Block := ⟨"G", "", 0, []⟩
def b1 : Block := ⟨"B1", "G", 1, [c1]⟩
def b2 : Block := ⟨"B2", "B1", 2, [c2, x3]⟩
def c1' : Tx := ⟨"C1'", true, [], [⟨"X9", 5, .std⟩]⟩
def c2' : Tx := ⟨"C2'", true, [], [⟨"X9", 5, .std⟩]⟩
def b1' : Block := ⟨"B1'", "G", 1, [c1']⟩
def b2' : Block := ⟨"B2'", "B1'", 2, [c2']⟩
def chainA : List Block := [g, b1, b2]
def chainB : List Block := [g, b1', b2']
def own : Own := [("A1", ("W1", false)), ("A2", ("W2", false))]
def own' : Own := own.filter (fun e => e.2.1 != "W2")
def known : AMap.T BlkId Block := [("G", g), ("B1", b1), ("B2", b2), ("B1'", b1'), ("B2'", b2')]
def nodeA : Node := { chain := chainA, known := known }
def nodeB : Node := { chain := chainB, known := known }
def ctx : Ctx := ⟨{ cbMaturity := 1 }, own, ["W1", "W2"], nodeA⟩

def s0 : Store :=
  { balance := [("W1", 0), ("W2", 0)], sync := [(0, "G")], syncedTo := 0,
    status := [("W1", ⟨none, false⟩), ("W2", ⟨none, false⟩)] }

/-- the store the follower builds for chain A -/
def st : Store :=
  match connectAll ctx (readyWallets s0 ctx.wallets) [b1, b2] s0 [] with
  | .ok (s, _) => s
  | .error _ => s0

/-- RemoveWallet accepted: W2 is flagged -/
def stF : Store := (removeWallet 0 ["W1", "W2"] true st "W2").2

def x0 : ISt := { s := stF, v := { best := ⟨2, "B2"⟩ }, node := nodeA }

/-- step · reorganisation to chain B · step -/
def evs : List IEv := [.rem, .notify nodeB b2', .rem]

theorem ready0 : readyWallets s0 ["W1", "W2"] = ["W1", "W2"] := by decide

theorem allReady : AllReady own ["W1", "W2"] := by
  intro a w ch h
  simp only [own, AMap.get_cons, AMap.get_nil] at h
  split at h
  · simp only [Option.some.injEq, Prod.mk.injEq] at h; rw [← h.1]; rfl
  · split at h
    · simp only [Option.some.injEq, Prod.mk.injEq] at h; rw [← h.1]; rfl
    · cases h

theorem fresh : FreshStore ctx s0 g where
  credits := rfl
  unspent := rfl
  debits := rfl
  game := rfl
  txrecs := rfl
  blocks := rfl
  sync := rfl
  syncedTo := rfl
  balance := by
    intro w hw
    change (readyWallets s0 ["W1", "W2"]).contains w = true at hw
    rw [ready0] at hw
    have : w = "W1" ∨ w = "W2" := by simpa using hw
    rcases this with rfl | rfl <;> rfl
  genesis := rfl

theorem validA : ChainValid own chainA := by decide
theorem validB : ChainValid own chainB := by decide
theorem goodA : GoodChain chainA := hxGood3 rfl rfl rfl rfl rfl
theorem goodB : GoodChain chainB := hxGood3 rfl rfl rfl rfl rfl

theorem inv_st : Inv ctx st chainA := by
  obtain ⟨s', added, h, hI, _, _⟩ := connectAll_sound (c := ctx) [b1, b2] s0 [g] [] []
    (inv_fresh fresh) rfl validA goodA.heights
    (by show AllReady own (readyWallets s0 ["W1", "W2"]); rw [ready0]; exact allReady)
    (by show (readyWallets s0 ["W1", "W2"]).isEmpty = false; rw [ready0]; rfl)
  have hs : st = s' := by unfold st; rw [h]
  rw [hs]; exact hI

theorem readyF : readyWallets stF ["W1", "W2"] = ["W1"] := by decide
theorem ready_st : readyWallets st ["W1", "W2"] = ["W1", "W2"] := by decide

/-- C01's invariant holds of the flagged store as well (the flag only shrinks the set of ready wallets) -/
theorem inv_stF : Inv ctx stF chainA := by
  have hI := inv_st
  refine ⟨⟨hI.agree.unspent, hI.agree.credits, hI.agree.debits, hI.agree.game, hI.agree.txrecs, hI.agree.blocks⟩,
    ?_, hI.sync, hI.syncedTo⟩
  intro w hw
  change (readyWallets stF ["W1", "W2"]).contains w = true at hw
  rw [readyF] at hw
  have hw1 : w = "W1" := by simpa using hw
  subst hw1
  exact hI.bal "W1" (by change (readyWallets st ["W1", "W2"]).contains "W1" = true; rw [ready_st]; rfl)

theorem managed : ∀ a, (["A2"] : List Addr).contains a = isW own "W2" a := by
  intro a
  unfold isW
  simp only [own, AMap.get_cons, AMap.get_nil]
  by_cases h1 : "A1" = a
  · subst h1; decide
  · by_cases h2 : "A2" = a
    · subst h2; decide
    · have : ¬ a = "A2" := fun h => h2 h.symm
      simp [h1, h2, this]

theorem remHyp : RemHyp ctx "W2" ["A2"] own' chainA where
  minus := ownMinus_filter (by unfold KeysNodup; decide) "W2"
  managed := managed
  ne := by decide
  valid := validA
  heights := goodA.heights
  known := by
    intro x hx
    simp only [chainA, List.mem_cons, List.not_mem_nil, or_false] at hx
    rcases hx with rfl | rfl | rfl <;> rfl

theorem stF_nodup : KeysNodup stF.credits := by unfold KeysNodup; decide
theorem stF_unspent_nodup : KeysNodup stF.unspent := by unfold KeysNodup; decide

theorem stF_pend : ∀ e ∈ stF.pendCred, e.1.1 ∉ idsOf (occs chainA) := by
  have : stF.pendCred = [] := by decide
  intro e he; rw [this] at he; cases he

theorem stF_flagged : AMap.get stF.status "W2" = some ⟨none, true⟩ := by decide

theorem others_ready : ∀ a w' ch, AMap.get own a = some (w', ch) → w' ≠ "W2" →
    (readyWallets stF ["W1", "W2"]).contains w' = true := by
  intro a w' ch h hne
  rw [readyF]
  simp only [own, AMap.get_cons, AMap.get_nil] at h
  split at h
  · simp only [Option.some.injEq, Prod.mk.injEq] at h; rw [← h.1]; rfl
  · split at h
    · simp only [Option.some.injEq, Prod.mk.injEq] at h; exact absurd h.1.symm hne
    · cases h

theorem nodeB_ok : NodeOK own g known nodeB b2' where
  good := goodB
  valid := validB
  genesis := rfl
  known := by
    intro x hx
    change x ∈ chainB at hx
    simp only [chainB, List.mem_cons, List.not_mem_nil, or_false] at hx
    rcases hx with rfl | rfl | rfl <;> rfl
  grows := fun _ _ h => h
  tip := rfl

theorem evs_ok : ∀ ev ∈ evs, EvOK own g known ev := by
  intro ev hev
  simp only [evs, List.mem_cons, List.not_mem_nil, or_false] at hev
  rcases hev with rfl | rfl | rfl
  · trivial
  · exact nodeB_ok
  · trivial

/-- the history runs (every database transaction succeeds), its last step is the finishing one, the follower is on
    the node's new chain — and the debit (X3, B2, 0) of the removed wallet's coin is still in the store -/
theorem run_result :
    (irun 1 ctx "W2" ["A2"] x0 evs).map (fun x => (x.fin, x.v.best.hash, x.s.syncedTo, (AMap.get x.s.status "W2").isSome)) =
    some (true, "B2'", 2, false) := by decide

theorem run_buckets :
    (irun 1 ctx "W2" ["A2"] x0 evs).map (fun x => (x.s.credits.map (·.1.tx),
       x.s.debits.map (fun e => (e.1.tx, e.1.blk.hash, e.1.idx)), x.s.txrecs.map (·.1.1))) =
    some ([], [], []) := by decide

theorem run_pending :
    (irun 1 ctx "W2" ["A2"] x0 evs).map (fun x => (x.s.pending.map (·.1), x.s.pendCred.map (·.1), x.s.blocks.map (·.1))) =
    some ([], [], []) := by decide

/-- after the first step (step size 1) X3's tx record and B2's block record are STILL there (D45 repair: the debit
    (X3, B2, 0) is left), so the reorganisation rolls X3 back like any other keystore's transaction -/
theorem first_step_keeps_record :
    (irun 1 ctx "W2" ["A2"] x0 [.rem]).map (fun x => (x.fin, x.s.credits.map (fun e => (e.1.tx, e.1.idx)))) =
      some (false, [("C1", 0), ("C1", 2)]) ∧
    (irun 1 ctx "W2" ["A2"] x0 [.rem]).map (fun x => x.s.debits.map (fun e => (e.1.tx, e.1.blk.hash, e.1.idx))) =
      some [("X3", "B2", 0)] ∧
    (irun 1 ctx "W2" ["A2"] x0 [.rem]).map (fun x => (x.s.txrecs.map (·.1.1), x.s.blocks.map (·.1))) =
      some (["X3", "C1"], [2, 1]) := ⟨by decide, by decide, by decide⟩

/-- the books of chain B for W1's keystore have no debit at all under that key -/
theorem books_no_debit : (bookOf ctx.p own' chainB).debits ⟨"X3", ⟨2, "B2"⟩, 0⟩ = none := by decide

theorem run_some : (irun 1 ctx "W2" ["A2"] x0 evs).isSome = true := by decide

theorem own_nodup : KeysNodup own := by unfold KeysNodup; decide

end MW.Lemmas.RemoveMidCex
