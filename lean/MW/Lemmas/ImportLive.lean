/-
  C07: the importing insert path IS the live insert path (MW.Model.Ledger.addRelevantMined, the function
  `connect_sound` / `applyPhase_refines` of the ledger library are about) whenever the rescan meets a transaction
  the store has not recorded yet and the block record — if there is one — has the block's hash and only earlier
  transactions of the block.  This reduces what `import_exact_full` lacks to facts about the RECORDS the rescan
  feeds in and about the ledger invariant in the presence of a wallet that is not ready.
-/
import MW.Model.Import
namespace MW.Lemmas.ImportLive
open MW MW.Model.Ledger MW.Model.Import

/-- inserting at the block position is appending when every recorded transaction of the block comes earlier -/
theorem insertByPos_append (s : Store) (blk : BlockMeta) (id : TxId) (pos : Nat) (txs : List TxId)
    (h : ∀ t ∈ txs, ∀ loc, AMap.get s.txrecs (t, blk) = some loc → loc.2 ≤ pos) :
    insertByPos s blk id pos txs = txs ++ [id] := by
  induction txs with
  | nil => rfl
  | cons t rest ih =>
    have ih' := ih (fun t' ht' => h t' (List.mem_cons_of_mem _ ht'))
    unfold insertByPos
    cases hg : AMap.get s.txrecs (t, blk) with
    | none => simp only; rw [ih']; rfl
    | some loc =>
      have := h t (List.mem_cons_self ..) loc hg
      simp only
      rw [if_neg (by omega), ih']; rfl

/-- side conditions under which the rescan's insert coincides with the live one -/
structure FreshAt (s : Store) (tr : TxRec) (blk : BlockMeta) : Prop where
  /-- the store has no tx record for this transaction in this block -/
  noRec : AMap.get s.txrecs (tr.tx.id, blk) = none
  /-- a block record at that height, if any, is this block's and lists only earlier transactions of the block -/
  blockRec : ∀ h txs, AMap.get s.blocks blk.height = some (h, txs) →
    h = blk.hash ∧ ∀ t ∈ txs, ∀ loc, AMap.get s.txrecs (t, ⟨blk.height, h⟩) = some loc → loc.2 ≤ tr.loc.2

theorem record_eq_live (s : Store) (tr : TxRec) (blk : BlockMeta) (h : FreshAt s tr blk) :
    recordForImporting s tr blk = .ok (recordMinedTx s tr blk) := by
  unfold recordForImporting recordMinedTx
  simp only [h.noRec, Option.isSome_none, Bool.false_eq_true, if_false]
  cases hb : AMap.get s.blocks blk.height with
  | none => rfl
  | some v =>
    obtain ⟨hh, txs⟩ := v
    obtain ⟨he, hpos⟩ := h.blockRec hh txs hb
    subst he
    simp only [ne_eq, not_true_eq_false, if_false]
    rw [insertByPos_append s ⟨blk.height, blk.hash⟩ tr.tx.id tr.loc.2 txs hpos]

/-- **insertMinedTxForImporting = insertMinedTx** (up to the "record existed" flag) on a fresh transaction -/
theorem insert_eq_live (own : Own) (s : Store) (bals : Bals) (tr : TxRec) (blk : BlockMeta) (h : FreshAt s tr blk) :
    (insertMinedTxForImporting own s bals tr blk).toOption =
      ((insertMinedTx own s bals tr blk).toOption).map (fun r => (r.1, r.2.1)) := by
  unfold insertMinedTxForImporting insertMinedTx
  rw [record_eq_live s tr blk h]
  simp only [h.noRec, Option.isSome_none, Bool.false_eq_true, if_false, bind, Except.bind, pure, Except.pure]
  cases hu : updateMinedBalance (recordMinedTx s tr blk) bals tr blk with
  | error e => rfl
  | ok r => obtain ⟨s1, b1⟩ := r; rfl

/-- **addRelevantTxForImporting = addRelevantMined** on a fresh transaction: the per-transaction step of the rescan
    is literally the per-transaction step of the live follower, so every fact the ledger library proves about
    `addRelevantMined` (`spendOne_refines`, `creditOne_refines`, `applyPhase_refines`) is a fact about the rescan. -/
theorem add_eq_live (p : Params) (own : Own) (s : Store) (bals : Bals) (tr : TxRec) (blk : BlockMeta)
    (h : FreshAt s tr blk) :
    (addRelevantTxForImporting p own s bals tr blk).toOption = (addRelevantMined p own s bals tr blk).toOption := by
  have hi := insert_eq_live own s bals tr blk h
  unfold addRelevantTxForImporting addRelevantMined
  simp only [bind, Except.bind]
  cases h1 : insertMinedTxForImporting own s bals tr blk with
  | error e =>
    rw [h1] at hi
    cases h2 : insertMinedTx own s bals tr blk with
    | error e2 => rfl
    | ok r => rw [h2] at hi; simp [Except.toOption] at hi
  | ok r1 =>
    rw [h1] at hi
    cases h2 : insertMinedTx own s bals tr blk with
    | error e2 => rw [h2] at hi; simp [Except.toOption] at hi
    | ok r2 =>
      rw [h2] at hi
      simp only [Except.toOption, Option.map, Option.some.injEq] at hi
      obtain ⟨s1, b1⟩ := r1
      obtain ⟨s2, b2, ex⟩ := r2
      simp only [Prod.mk.injEq] at hi
      obtain ⟨rfl, rfl⟩ := hi
      simp only
      cases addCredits p s1 b1 tr blk <;> rfl

end MW.Lemmas.ImportLive
