/- generic proof rules for leads-to properties of fair executions (used by C20's liveness theorems) -/
import MW.Spec.Live
namespace MW.Lemmas.Fair
open MW.Spec.Live

universe u v
variable {X : Type u} {L : Type v} {step : L → X → Option X} {xs : Nat → X} {ls : Nat → Option L}

theorem LeadsTo.trans {P Q R : X → Prop} (h1 : LeadsTo xs P Q) (h2 : LeadsTo xs Q R) : LeadsTo xs P R := by
  intro i hp
  obtain ⟨j, hij, hq⟩ := h1 i hp
  obtain ⟨k, hjk, hr⟩ := h2 j hq
  exact ⟨k, Nat.le_trans hij hjk, hr⟩

theorem LeadsTo.refl' {P Q : X → Prop} (h : ∀ x, P x → Q x) : LeadsTo xs P Q :=
  fun i hp => ⟨i, Nat.le_refl i, h _ hp⟩

theorem LeadsTo.mono {P P' Q Q' : X → Prop} (h : LeadsTo xs P Q) (hp : ∀ x, P' x → P x) (hq : ∀ x, Q x → Q' x) :
    LeadsTo xs P' Q' := by
  intro i hi
  obtain ⟨j, hij, hj⟩ := h i (hp _ hi)
  exact ⟨j, hij, hq _ hj⟩

theorem LeadsTo.or {P1 P2 Q : X → Prop} (h1 : LeadsTo xs P1 Q) (h2 : LeadsTo xs P2 Q) :
    LeadsTo xs (fun x => P1 x ∨ P2 x) Q := by
  intro i hi
  rcases hi with h | h
  · exact h1 i h
  · exact h2 i h

/-- `P` holds until `Q` does: if `Q` never holds from `i` on, `P` holds for ever -/
theorem unless_forever {P Q : X → Prop} (hun : ∀ j, P (xs j) → P (xs (j + 1)) ∨ Q (xs (j + 1)))
    {i : Nat} (hp : P (xs i)) (hno : ∀ j, i ≤ j → ¬ Q (xs j)) : ∀ j, i ≤ j → P (xs j) := by
  intro j hj
  obtain ⟨d, rfl⟩ := Nat.exists_eq_add_of_le hj
  clear hj
  induction d with
  | zero => exact hp
  | succ d ih =>
    rcases hun (i + d) ih with h | h
    · exact h
    · exact absurd h (hno (i + d + 1) (by omega))

/-- WF rule: `P` is kept until `Q`, the helpful label `l` is enabled wherever `P` holds and leads from `P`
    into `Q`; under weak fairness of `l`, `P` leads to `Q`. -/
theorem wf1 {P Q : X → Prop} (l : L)
    (hen : ∀ j, P (xs j) → En step l (xs j))
    (hun : ∀ j, P (xs j) → P (xs (j + 1)) ∨ Q (xs (j + 1)))
    (hl : ∀ j, P (xs j) → ls j = some l → Q (xs (j + 1)))
    (hwf : WF step xs ls l) : LeadsTo xs P Q := by
  intro i hp
  refine Classical.byContradiction fun hcon => ?_
  have hno : ∀ j, i ≤ j → ¬ Q (xs j) := fun j hj hq => hcon ⟨j, hj, hq⟩
  have hall := unless_forever hun hp hno
  obtain ⟨j, hij, hlj⟩ := hwf i (fun j hj => hen j (hall j hj))
  exact hno (j + 1) (Nat.le_succ_of_le hij) (hl j (hall j hij) hlj)

/-- SF rule: as `wf1`, but the helpful label only has to become enabled again and again while `P` lasts -/
theorem sf1 {P Q : X → Prop} (l : L)
    (hen : ∀ j, P (xs j) → ∃ k, j ≤ k ∧ (Q (xs k) ∨ En step l (xs k)))
    (hun : ∀ j, P (xs j) → P (xs (j + 1)) ∨ Q (xs (j + 1)))
    (hl : ∀ j, P (xs j) → ls j = some l → Q (xs (j + 1)))
    (hsf : SF step xs ls l) : LeadsTo xs P Q := by
  intro i hp
  refine Classical.byContradiction fun hcon => ?_
  have hno : ∀ j, i ≤ j → ¬ Q (xs j) := fun j hj hq => hcon ⟨j, hj, hq⟩
  have hall := unless_forever hun hp hno
  have hio : ∀ j, i ≤ j → ∃ k, j ≤ k ∧ En step l (xs k) := by
    intro j hj
    obtain ⟨k, hjk, h | h⟩ := hen j (hall j hj)
    · exact absurd h (hno k (Nat.le_trans hj hjk))
    · exact ⟨k, hjk, h⟩
  obtain ⟨j, hij, hlj⟩ := hsf i hio
  exact hno (j + 1) (Nat.le_succ_of_le hij) (hl j (hall j hij) hlj)


/-- `P` holds until `Q` does, instant by instant -/
theorem unless_until {P Q : X → Prop} (hun : ∀ j, P (xs j) → P (xs (j + 1)) ∨ Q (xs (j + 1)))
    {i : Nat} (hp : P (xs i)) : ∀ k, i ≤ k → P (xs k) ∨ ∃ m, i ≤ m ∧ m ≤ k ∧ Q (xs m) := by
  intro k hk
  obtain ⟨d, rfl⟩ := Nat.exists_eq_add_of_le hk
  clear hk
  induction d with
  | zero => exact Or.inl hp
  | succ d ih =>
    rcases ih with h | ⟨m, h1, h2, h3⟩
    · rcases hun (i + d) h with h' | h'
      · exact Or.inl h'
      · exact Or.inr ⟨i + d + 1, by omega, by omega, h'⟩
    · exact Or.inr ⟨m, h1, by omega, h3⟩

/-- SF rule with a recurrence: `R` holds again and again, and the helpful label is enabled wherever `P` and
    `R` hold together -/
theorem sf1' {P Q R : X → Prop} (l : L)
    (hrec : LeadsTo xs (fun _ => True) R)
    (hen : ∀ j, P (xs j) → R (xs j) → En step l (xs j))
    (hun : ∀ j, P (xs j) → P (xs (j + 1)) ∨ Q (xs (j + 1)))
    (hl : ∀ j, P (xs j) → ls j = some l → Q (xs (j + 1)))
    (hsf : SF step xs ls l) : LeadsTo xs P Q := by
  refine sf1 l ?_ hun hl hsf
  intro j hp
  obtain ⟨k, hjk, hr⟩ := hrec j trivial
  rcases unless_until hun hp k hjk with h | ⟨m, h1, _, h3⟩
  · exact ⟨k, hjk, Or.inr (hen k h hr)⟩
  · exact ⟨m, h1, Or.inl h3⟩

/-- ranking rule: if from every rank `a` the execution gets to `Q` or to a smaller rank (still in `P`), then
    `P` leads to `Q` -/
theorem leadsTo_wf {α : Type} (r : α → α → Prop) (hwf : WellFounded r) (m : X → α) {P Q : X → Prop}
    (h : ∀ a, LeadsTo xs (fun x => P x ∧ m x = a) (fun x => Q x ∨ (P x ∧ r (m x) a))) : LeadsTo xs P Q := by
  intro i hp
  generalize ha : m (xs i) = a
  induction a using hwf.induction generalizing i with
  | _ a ih =>
    obtain ⟨j, hij, hq | ⟨hpj, hr⟩⟩ := h a i ⟨hp, ha⟩
    · exact ⟨j, hij, hq⟩
    · obtain ⟨k, hjk, hk⟩ := ih _ hr j hpj rfl
      exact ⟨k, Nat.le_trans hij hjk, hk⟩

theorem leadsTo_nat (m : X → Nat) {P Q : X → Prop}
    (h : ∀ a, LeadsTo xs (fun x => P x ∧ m x = a) (fun x => Q x ∨ (P x ∧ m x < a))) : LeadsTo xs P Q :=
  leadsTo_wf (· < ·) Nat.lt_wfRel.wf m h

def lexLt (p q : Nat × Nat) : Prop := p.1 < q.1 ∨ (p.1 = q.1 ∧ p.2 < q.2)

theorem lexLt_wf : WellFounded lexLt := by
  have h : WellFounded (Prod.Lex (· < ·) (· < ·) : Nat × Nat → Nat × Nat → Prop) :=
    (Prod.lex Nat.lt_wfRel Nat.lt_wfRel).wf
  refine Subrelation.wf ?_ h
  intro p q hpq
  obtain ⟨p1, p2⟩ := p
  obtain ⟨q1, q2⟩ := q
  rcases hpq with h1 | ⟨h1, h2⟩
  · exact Prod.Lex.left _ _ h1
  · dsimp only at h1 h2
    subst h1
    exact Prod.Lex.right _ h2

end MW.Lemmas.Fair
