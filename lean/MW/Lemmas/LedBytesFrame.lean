/-
  LedBytes, part 15 — frame / postcondition lemmas of Rollback on bytes: Rollback never writes bucket `sync` (so the
  cursor it started from is the cursor resetSyncedTo reads), the removed coinbase outpoints it collects fit their
  fields, the heights it records are the heights it visited.  They discharge three of the run hypotheses of
  `disconnect_block_on_bytes` (`RollbackOut` shrinks to the write-back condition `BalsWF`).
-/
import MW.Lemmas.LedBytesRbOuter
namespace MW.LedBytes
open MW MW.Gen.Codec MW.Model.TxmgrCodec MW.TxmgrCodec MW.Model.Ledger

theorem foldlM_post {α β : Type} (f : β → α → M β) (P : β → Prop) (Q : α → Prop)
    (hstep : ∀ b a b', P b → Q a → f b a = .ok b' → P b') :
    ∀ (l : List α) (b b' : β), P b → (∀ a ∈ l, Q a) → l.foldlM f b = .ok b' → P b' := by
  intro l
  induction l with
  | nil => intro b b' hb _ h; cases h; exact hb
  | cons a l ih =>
    intro b b' hb hq h
    simp only [List.foldlM_cons] at h
    cases hf : f b a with
    | error e => rw [hf] at h; cases h
    | ok b1 =>
      rw [hf] at h
      exact ih b1 b' (hstep b a b1 hb (hq a List.mem_cons_self) hf) (fun x hx => hq x (List.mem_cons_of_mem _ hx)) h

theorem foldIdxM_post {α β : Type} (f : β → Nat → α → M β) (P : β → Prop) (B : Nat)
    (hstep : ∀ b i a b', P b → i < B → f b i a = .ok b' → P b') :
    ∀ (l : List α) (n : Nat) (b b' : β), P b → n + l.length ≤ B → foldIdxM f l n b = .ok b' → P b' := by
  intro l
  induction l with
  | nil => intro n b b' hb _ h; cases h; exact hb
  | cons a l ih =>
    intro n b b' hb hn h
    simp only [foldIdxM] at h
    cases hf : f b n a with
    | error e => rw [hf] at h; cases h
    | ok b1 =>
      rw [hf] at h
      exact ih (n + 1) b1 b' (hstep b n a b1 hb (by simp at hn; omega) hf) (by simp at hn; omega) h

theorem foldl_post {α β : Type} (f : β → α → β) (P : β → Prop) (hstep : ∀ b a, P b → P (f b a)) :
    ∀ (l : List α) (b : β), P b → P (l.foldl f b) := by
  intro l
  induction l with
  | nil => intro b hb; exact hb
  | cons a l ih => intro b hb; exact ih _ (hstep b a hb)

theorem foldIdx_post {α β : Type} (f : β → Nat → α → β) (P : β → Prop) (hstep : ∀ b i a, P b → P (f b i a)) :
    ∀ (l : List α) (n : Nat) (b : β), P b → P (foldIdx f l n b) := by
  intro l
  induction l with
  | nil => intro n b hb; exact hb
  | cons a l ih => intro n b hb; exact ih _ _ (hstep b n a hb)

-- ------------------------------------------------------------------ rollbackTx never writes `sync`

theorem rollbackAddrB_sync (bs : BStore) (w : Bytes) (o : OutB) (cur : Nat) : (rollbackAddrB bs w o cur).sync = bs.sync := by
  unfold rollbackAddrB
  simp only []
  split
  · split <;> rfl
  · rfl

theorem rollbackOwnedOutB_sync {txh : Bytes} {blk : BlockMetaB} {sb sb' : SB} {i : Nat} {o : OutB} {w : Bytes}
    (h : rollbackOwnedOutB txh blk sb i o w = .ok sb') : sb'.1.sync = sb.1.sync := by
  unfold rollbackOwnedOutB at h
  split at h
  · split at h
    · cases h
    · cases h; exact rollbackAddrB_sync _ _ _ _
  · cases h; exact rollbackAddrB_sync _ _ _ _

variable {E : Env} {c : Ctx}

/-- the accumulator of the coinbase loop: bucket `sync` untouched, the collected outpoints fit -/
def PCb (S : AMap.T Bytes Bytes) (acc : CbAcc) : Prop := acc.1.1.sync = S ∧ ∀ o ∈ acc.2, o.WF = true

theorem rollbackCbOutB_post (R : RbEnv E c) {S : AMap.T Bytes Bytes} {txh : Bytes} (hh : txh.length = 32) {blk : BlockMetaB}
    {acc acc' : CbAcc} {i : Nat} (hi : i < 256 ^ 4) {o : OutB} (hP : PCb S acc)
    (h : rollbackCbOutB R txh blk acc i o = .ok acc') : PCb S acc' := by
  have hop : (⟨txh, i⟩ : OutPointB).WF = true := outPoint_wf_mk hh hi
  have hmem : ∀ x ∈ acc.2 ++ [(⟨txh, i⟩ : OutPointB)], x.WF = true := by
    intro x hx
    rcases List.mem_append.mp hx with h1 | h1
    · exact hP.2 x h1
    · simp at h1; rw [h1]; exact hop
  unfold rollbackCbOutB at h
  split at h
  · cases h; exact hP
  · simp only [] at h
    split at h
    · cases h
    · split at h
      · cases h; exact ⟨hP.1, hmem⟩
      · simp only [bind, Except.bind] at h
        split at h
        · cases h
        · rename_i sb hsb
          have hs := rollbackOwnedOutB_sync hsb
          split at h
          · cases h; exact ⟨hs.trans hP.1, hmem⟩
          · cases h; exact ⟨hs.trans hP.1, hmem⟩

theorem rollbackInB_sync (R : RbEnv E c) {txh : Bytes} {blk : BlockMetaB} {sb sb' : SB} {cur : Nat} {inp : InB}
    (h : rollbackInB R txh blk sb cur inp = .ok sb') : sb'.1.sync = sb.1.sync := by
  unfold rollbackInB at h
  simp only [] at h
  repeat' split at h
  all_goals first | (cases h; rfl) | cases h

theorem rollbackOutB_sync (R : RbEnv E c) {txh : Bytes} {blk : BlockMetaB} {sb sb' : SB} {i : Nat} {o : OutB}
    (h : rollbackOutB R txh blk sb i o = .ok sb') : sb'.1.sync = sb.1.sync := by
  unfold rollbackOutB at h
  split at h
  · cases h; rfl
  · split at h
    · cases h
    · simp only [] at h
      split at h
      · cases h
      · split at h
        · cases h; rfl
        · simp only [bind, Except.bind] at h
          split at h
          · cases h
          · rename_i sb1 hsb
            have hs := rollbackOwnedOutB_sync hsb
            split at h
            · cases h; exact hs
            · cases h; exact hs

/-- the result of rollbackTx: bucket `sync` untouched, the returned coinbase outpoints fit -/
theorem rollbackTxB_post (R : RbEnv E c) {txh : Bytes} (hh : txh.length = 32) {blk : BlockMetaB} {time : Nat} {sb : SB} {x : RbRes}
    (hfetch : ∀ l t, R.fetch l = some t → t.outs.length ≤ 256 ^ 4)
    (h : rollbackTxB R txh blk time sb = .ok x) : x.1.1.sync = sb.1.sync ∧ ∀ o ∈ x.2, o.WF = true := by
  unfold rollbackTxB at h
  split at h
  · cases h; exact ⟨rfl, fun o ho => by cases ho⟩
  · split at h
    · cases h; exact ⟨rfl, fun o ho => by cases ho⟩
    · split at h
      · cases h
      · rename_i tv loc tx hf
        simp only [] at h
        split at h
        · have := foldIdxM_post (rollbackCbOutB R txh blk) (PCb sb.1.sync) (256 ^ 4)
            (fun b i a b' hb hi hs => rollbackCbOutB_post R hh hi hb hs) tx.outs 0 _ x ⟨rfl, fun o ho => by cases ho⟩
            (by have := hfetch _ _ hf; omega) h
          exact this
        · simp only [bind, Except.bind] at h
          split at h
          · cases h
          · rename_i sb1 h1
            have s1 := foldIdxM_post (rollbackInB R txh blk) (fun (b : SB) => b.1.sync = sb.1.sync) (tx.ins.length)
              (fun b i a b' hb _ hs => (rollbackInB_sync R hs).trans hb) tx.ins 0 _ sb1 (by rfl) (by omega) h1
            split at h
            · cases h
            · rename_i sb2 h2
              have s2 := foldIdxM_post (rollbackOutB R txh blk) (fun (b : SB) => b.1.sync = sb.1.sync) (tx.outs.length)
                (fun b i a b' hb _ hs => (rollbackOutB_sync R hs).trans hb) tx.outs 0 _ sb2 s1 (by omega) h2
              cases h
              exact ⟨s2, fun o ho => by cases ho⟩

/-- the accumulator of Rollback's outer loop -/
def PAcc (S : AMap.T Bytes Bytes) (a : RbAccB) : Prop :=
  a.bs.sync = S ∧ (∀ o ∈ a.cb, o.WF = true) ∧ ∀ h ∈ a.heights, h < 256 ^ 8

theorem rollbackBlockAtB_post (R : RbEnv E c) (hfetch : ∀ l t, R.fetch l = some t → t.outs.length ≤ 256 ^ 4)
    (hcan : ∀ (a : RbAccB) cur v r, AMap.get a.bs.b (keyBlockRecord cur) = some v → readRawBlockRecordValue v = some r →
      ∀ t ∈ r.txs, t.length = 32)
    {S : AMap.T Bytes Bytes} {acc acc' : RbAccB} {cur : Nat} (hcur : cur < 256 ^ 8) (hP : PAcc S acc)
    (h : rollbackBlockAtB R acc cur = .ok acc') : PAcc S acc' := by
  unfold rollbackBlockAtB at h
  split at h
  · cases h; exact hP
  · rename_i v hg
    split at h
    · cases h
    · rename_i r hr
      have hP0 : PAcc S { acc with heights := acc.heights ++ [cur] } := by
        refine ⟨hP.1, hP.2.1, ?_⟩
        intro x hx
        rcases List.mem_append.mp hx with h1 | h1
        · exact hP.2.2 x h1
        · simp at h1; rw [h1]; exact hcur
      refine foldlM_post _ (PAcc S) (fun t => t.length = 32) ?_ r.txs.reverse _ acc' hP0
        (fun t ht => hcan acc cur v r hg hr t (List.mem_reverse.mp ht)) h
      intro a txh a' ha htx hs
      simp only [bind, Except.bind] at hs
      split at hs
      · cases hs
      · rename_i x hx
        obtain ⟨p1, p2⟩ := rollbackTxB_post R htx hfetch hx
        cases hs
        refine ⟨p1.trans ha.1, ?_, ha.2.2⟩
        intro o ho
        rcases List.mem_append.mp ho with h1 | h1
        · exact ha.2.1 o h1
        · exact p2 o h1

-- ------------------------------------------------------------------ the pending side never writes `sync`

theorem removeUnminedInputsOfB_sync (bs : BStore) (tx : TxB) : (removeUnminedInputsOfB bs tx).sync = bs.sync := by
  unfold removeUnminedInputsOfB
  refine foldl_post _ (fun b => b.sync = bs.sync) ?_ tx.ins bs rfl
  intro b i hb
  simp only []
  split
  · split <;> exact hb
  · exact hb

theorem removeUnminedGameHistoryB_sync {own : Own} (P : PendEnv E own) (bs : BStore) (tx : TxB) :
    (removeUnminedGameHistoryB P bs tx).sync = bs.sync := by
  unfold removeUnminedGameHistoryB
  refine foldIdx_post _ (fun b => b.sync = bs.sync) ?_ tx.outs 0 bs rfl
  intro b i o hb
  show (if o.cls.isStaking || o.cls.isBinding then _ else b : BStore).sync = bs.sync
  split
  · split <;> exact hb
  · exact hb

theorem rcSpenderB_sync {own : Own} (P : PendEnv E own) {rc : BStore → TxB → BStore} (hrc : ∀ b t, (rc b t).sync = b.sync)
    (bs : BStore) (sp : Bytes) : (rcSpenderB rc P bs sp).sync = bs.sync := by
  unfold rcSpenderB
  split
  · exact hrc _ _
  · rfl

theorem removeConflictB_sync {own : Own} (P : PendEnv E own) : ∀ (fuel : Nat) (bs : BStore) (tx : TxB),
    (removeConflictB P fuel bs tx).sync = bs.sync := by
  intro fuel
  induction fuel with
  | zero => intro bs tx; rfl
  | succ fuel ih =>
    intro bs tx
    unfold removeConflictB
    show (removeUnminedGameHistoryB P (removeUnminedInputsOfB _ tx) tx).sync = bs.sync
    rw [removeUnminedGameHistoryB_sync, removeUnminedInputsOfB_sync]
    refine foldl_post _ (fun b => b.sync = bs.sync) ?_ _ bs rfl
    intro b i hb
    unfold rcOutStepB
    simp only []
    exact (foldl_post _ (fun x => x.sync = b.sync) (fun x sp hx => (rcSpenderB_sync P ih x sp).trans hx) _ b rfl).trans hb

theorem purgeSpendersB_sync {own : Own} (P : PendEnv E own) (bs : BStore) (op : OutPointB) :
    (purgeSpendersB P bs op).sync = bs.sync := by
  unfold purgeSpendersB
  exact foldl_post _ (fun b => b.sync = bs.sync)
    (fun b sp hb => (rcSpenderB_sync P (removeConflictB_sync P _) b sp).trans hb) _ bs rfl

/-- **Rollback never writes bucket `sync`**, and what it collected fits -/
theorem rollbackB_post (R : RbEnv E c) (P : PendEnv E c.own) (hfetch : ∀ l t, R.fetch l = some t → t.outs.length ≤ 256 ^ 4)
    (hcan : ∀ (a : RbAccB) cur v r, AMap.get a.bs.b (keyBlockRecord cur) = some v → readRawBlockRecordValue v = some r →
      ∀ t ∈ r.txs, t.length = 32)
    {bs bs1 : BStore} {height : Nat} (htop : syncedToOf bs.sync < 256 ^ 8) (h : rollbackB R P bs height = .ok bs1) :
    bs1.sync = bs.sync := by
  unfold rollbackB at h
  simp only [bind, Except.bind] at h
  split at h
  · cases h
  · rename_i acc hacc
    have hA := foldlM_post (rollbackBlockAtB R) (PAcc bs.sync) (fun h => h < 256 ^ 8)
      (fun b a b' hb ha hs => rollbackBlockAtB_post R hfetch hcan ha hb hs) _ _ acc
      ⟨rfl, by intro o ho; simp at ho, by intro x hx; simp at hx⟩
      (by intro x hx; obtain ⟨k, _, rfl⟩ := List.mem_map.mp hx; omega) hacc
    cases h
    show (List.foldl (purgeSpendersB P) _ acc.cb).sync = bs.sync
    have h1 : (acc.heights.foldl (fun bs h => { bs with b := AMap.erase bs.b (keyBlockRecord h) }) acc.bs).sync = bs.sync :=
      foldl_post (fun (b : BStore) (h : Nat) => { b with b := AMap.erase b.b (keyBlockRecord h) })
        (fun b => b.sync = bs.sync) (fun b a hb => hb) acc.heights acc.bs hA.1
    exact foldl_post _ (fun b => b.sync = bs.sync) (fun b o hb => (purgeSpendersB_sync P b o).trans hb) acc.cb _ h1

theorem chunks_len (n : Nat) : ∀ (bs : Bytes), 32 * n ≤ bs.length → ∀ t ∈ chunks 32 n bs, t.length = 32 := by
  induction n with
  | zero => intro bs _ t ht; simp [chunks] at ht
  | succ n ih =>
    intro bs hl t ht
    simp only [chunks, List.mem_cons] at ht
    rcases ht with rfl | ht
    · simp; omega
    · exact ih (bs.drop 32) (by simp; omega) t ht

/-- readRawBlockRecord only ever returns 32-byte hashes (its length check) -/
theorem readRawBlockRecordValue_txs_len {v : Bytes} {r : BlockRecB} (h : readRawBlockRecordValue v = some r) :
    ∀ t ∈ r.txs, t.length = 32 := by
  unfold readRawBlockRecordValue at h
  split at h
  · rename_i hh t cnt tail hd
    split at h
    · cases h
    · rename_i hlen
      cases h
      have hs : blockRecordStride = 32 := rfl
      rw [hs] at hlen ⊢
      exact chunks_len cnt tail (by omega)
  · cases h

/-- what is left of `RollbackOut`: the working balances Rollback writes back fit their fields -/
def RollbackBals (R : RbEnv E c) (bs : BStore) (height : Nat) : Prop :=
  ∀ acc, ((List.range (syncedToOf bs.sync + 1 - height)).map (fun k => syncedToOf bs.sync - k)).foldlM
      (rollbackBlockAtB R) { bs := bs, bals := fetchAllBalB bs.bal } = .ok acc → BalsWF acc.bals

theorem rollbackOut_of_bals (R : RbEnv E c) {bs : BStore} {height : Nat} (htop : syncedToOf bs.sync < 256 ^ 8)
    (hb : RollbackBals R bs height) : RollbackOut R bs height := by
  intro acc hacc
  have hA := foldlM_post (rollbackBlockAtB R) (PAcc bs.sync) (fun h => h < 256 ^ 8)
    (fun b a b' hb ha hs => rollbackBlockAtB_post R (fun l t ht => (R.fetch_wf l t ht).1.nOuts)
      (fun _ _ _ _ _ hr => readRawBlockRecordValue_txs_len hr) ha hb hs) _ _ acc
    ⟨rfl, by intro o ho; simp at ho, by intro x hx; simp at hx⟩
    (by intro x hx; obtain ⟨k, _, rfl⟩ := List.mem_map.mp hx; omega) hacc
  exact ⟨hb acc hacc, hA.2.1, hA.2.2⟩

/-- **disconnectBlock on bytes**, with the frame facts discharged: beside canonicity only the cursor bound and the
    write-back condition remain -/
theorem disconnectBlock_on_bytes' (R : RbEnv E c) (P : PendEnv E c.own) {bs : BStore} (hC : CanonS E bs) {height : Nat}
    (hcur : syncedToOf bs.sync < collisionHeight) (hb : RollbackBals R bs height) :
    (disconnectBlockB R P bs height).map (absStore E) = disconnectBlock c (absStore E bs) height ∧
    ∀ bs', disconnectBlockB R P bs height = .ok bs' → CanonS E bs' :=
  disconnectBlock_on_bytes R P hC hcur (rollbackOut_of_bals R (keySynced_ne_of_lt hcur).1 hb)
    (fun _ h => congrArg syncedToOf (rollbackB_post R P (fun l t ht => (R.fetch_wf l t ht).1.nOuts)
      (fun _ _ _ _ _ hr => readRawBlockRecordValue_txs_len hr) (keySynced_ne_of_lt hcur).1 h))

end MW.LedBytes
