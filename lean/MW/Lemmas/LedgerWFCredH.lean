/-
  WELL-FORMEDNESS OF THE CREDIT BUCKET (part 3): the C09 histories (`HEv` / `stepH` / `runH`).  No domain
  hypothesis is needed: the keys of `s.credits` stay pairwise distinct along EVERY history of receive / connect /
  disconnect / node / volatile events (a failing step leaves the store alone).
-/
import MW.Lemmas.LedgerWFCred2
import MW.Lemmas.PendHistRun
namespace MW.Lemmas.LedgerWFCred
open MW MW.Model.Ledger MW.Lemmas.Ledger MW.Lemmas.PendHist

theorem credNodup_stepH (E : HEnv) (w : HW) (ev : HEv) (h : KeysNodup w.s.credits) :
    KeysNodup (stepH E w ev).s.credits := by
  cases ev with
  | node n => exact h
  | vol v => exact h
  | recv t =>
    show KeysNodup (recvTx (E.ctx w.node) w.s w.v t).1.credits
    rw [recvTx_credits]; exact h
  | connect b =>
    cases hf : filterBlock (E.ctx w.node) w.s (readyWallets w.s E.wallets) b with
    | error e => simp only [stepH, hf]; exact h
    | ok r => simp only [stepH, hf]; exact cn_filterBlock h hf
  | disconnect =>
    cases hl : w.sp.chain.getLast? with
    | none => simp only [stepH, hl]; exact h
    | some b =>
      cases hd : disconnectBlock (E.ctx w.node) w.s b.height with
      | error e => simp only [stepH, hl, hd]; exact h
      | ok s' => simp only [stepH, hl, hd]; exact cn_disconnectBlock h hd

/-- the credit bucket stays well formed along EVERY C09 history -/
theorem credNodup_runH (E : HEnv) (evs : List HEv) (w : HW) (h : KeysNodup w.s.credits) :
    KeysNodup (runH E w evs).s.credits := by
  induction evs generalizing w with
  | nil => exact h
  | cons ev evs ih => exact ih _ (credNodup_stepH E w ev h)

end MW.Lemmas.LedgerWFCred
