/- C19: kernel evaluations of the static checker (reflective proofs): closed functions are accepted from
   no assumptions, entry points are accepted with their non-closed callees checked in place -/
import MW.Model.Api
namespace MW.Lemmas.ApiSafe
open MW.Model.Api

set_option maxHeartbeats 100000000 in
theorem closed_ChainIndexerSyncedHeight : ∃ body m, prog Fn.ChainIndexerSyncedHeight = some body ∧ (check prog exports imports closed m [] body).isSome = true :=
  ⟨f_ChainIndexerSyncedHeight, checkFuel, rfl, by decide +kernel⟩

set_option maxHeartbeats 100000000 in
theorem closed_CreateStakingTransaction : ∃ body m, prog Fn.CreateStakingTransaction_wallet = some body ∧ (check prog exports imports closed m [] body).isSome = true :=
  ⟨f_CreateStakingTransaction, checkFuel, rfl, by decide +kernel⟩

set_option maxHeartbeats 100000000 in
theorem closed_GetUtxo : ∃ body m, prog Fn.GetUtxo_wallet = some body ∧ (check prog exports imports closed m [] body).isSome = true :=
  ⟨f_GetUtxo, checkFuel, rfl, by decide +kernel⟩

set_option maxHeartbeats 100000000 in
theorem closed_SignRawTx : ∃ body m, prog Fn.SignRawTx = some body ∧ (check prog exports imports closed m [] body).isSome = true :=
  ⟨f_SignRawTx, checkFuel, rfl, by decide +kernel⟩

set_option maxHeartbeats 100000000 in
theorem closed_WalletBalance : ∃ body m, prog Fn.WalletBalance = some body ∧ (check prog exports imports closed m [] body).isSome = true :=
  ⟨f_WalletBalance, checkFuel, rfl, by decide +kernel⟩

set_option maxHeartbeats 100000000 in
theorem closed_checkRemarksLen : ∃ body m, prog Fn.checkRemarksLen = some body ∧ (check prog exports imports closed m [] body).isSome = true :=
  ⟨f_checkRemarksLen, checkFuel, rfl, by decide +kernel⟩

set_option maxHeartbeats 100000000 in
theorem closed_constructTxOut : ∃ body m, prog Fn.constructTxOut = some body ∧ (check prog exports imports closed m [] body).isSome = true :=
  ⟨f_constructTxOut, checkFuel, rfl, by decide +kernel⟩

set_option maxHeartbeats 100000000 in
theorem closed_createVinList : ∃ body m, prog Fn.createVinList = some body ∧ (check prog exports imports closed m [] body).isSome = true :=
  ⟨f_createVinList, checkFuel, rfl, by decide +kernel⟩

set_option maxHeartbeats 100000000 in
theorem closed_decodeHexStr : ∃ body m, prog Fn.decodeHexStr = some body ∧ (check prog exports imports closed m [] body).isSome = true :=
  ⟨f_decodeHexStr, checkFuel, rfl, by decide +kernel⟩

set_option maxHeartbeats 100000000 in
theorem closed_estimateSignedSize : ∃ body m, prog Fn.estimateSignedSize = some body ∧ (check prog exports imports closed m [] body).isSome = true :=
  ⟨f_estimateSignedSize, checkFuel, rfl, by decide +kernel⟩

set_option maxHeartbeats 100000000 in
theorem closed_onRelevantBlockConnected : ∃ body m, prog Fn.onRelevantBlockConnected = some body ∧ (check prog exports imports closed m [] body).isSome = true :=
  ⟨f_onRelevantBlockConnected, checkFuel, rfl, by decide +kernel⟩

set_option maxHeartbeats 100000000 in
theorem safe_CreateStakingTransaction_api : safe prog exports imports closed checkFuel (.invoke Fn.CreateStakingTransaction_tx_service) = true := by decide +kernel

set_option maxHeartbeats 100000000 in
theorem safe_CreateWallet_api : safe prog exports imports closed checkFuel (.invoke Fn.CreateWallet_wallet_service) = true := by decide +kernel

set_option maxHeartbeats 100000000 in
theorem safe_ExportWallet_api : safe prog exports imports closed checkFuel (.invoke Fn.ExportWallet_wallet_service) = true := by decide +kernel

set_option maxHeartbeats 100000000 in
theorem safe_GetAddressBalance : safe prog exports imports closed checkFuel (.invoke Fn.GetAddressBalance) = true := by decide +kernel

set_option maxHeartbeats 100000000 in
theorem safe_GetNetworkBinding : safe prog exports imports closed checkFuel (.invoke Fn.GetNetworkBinding) = true := by decide +kernel

set_option maxHeartbeats 100000000 in
theorem safe_GetRawTransaction : safe prog exports imports closed checkFuel (.invoke Fn.GetRawTransaction) = true := by decide +kernel

set_option maxHeartbeats 100000000 in
theorem safe_ImportMnemonic : safe prog exports imports closed checkFuel (.invoke Fn.ImportMnemonic) = true := by decide +kernel

set_option maxHeartbeats 100000000 in
theorem safe_asyncImport : safe prog exports imports closed checkFuel (.invoke Fn.asyncImport) = true := by decide +kernel

set_option maxHeartbeats 100000000 in
theorem safe_worker : safe prog exports imports closed checkFuel (.invoke Fn.worker) = true := by decide +kernel

end MW.Lemmas.ApiSafe
