/-
  The store of the model refines the books of the spec, step by step (C01 goal 1, micro level):
  `Rel s B` – every mined bucket of store `s`, read through `AMap.get`, is the corresponding table of `B`;
  `spendOne` refines `spendB`, `creditOne` refines `createB`, `gameOne` refines `depositB`, and none of
  the error exits of the model fires as long as the books are locally consistent (`Loc`, `LocG`).
-/
import MW.Lemmas.LedgerBasic
namespace MW.Lemmas.Ledger
open MW MW.Model.Ledger MW.Spec.Chain MW.Spec.Books

/-- the mined buckets of the store are the tables of the books -/
structure Rel (s : Store) (B : Book) : Prop where
  unspent : ∀ w tx idx, AMap.get s.unspent (w, tx, idx) =
    ((lookupU B.L tx idx).filter (fun u => decide (u.wallet = w))).map (·.blk)
  credits : ∀ k, AMap.get s.credits k = B.credits k
  debits : ∀ k, AMap.get s.debits k = B.debits k
  game : ∀ k, AMap.get s.game k = B.game k
  txrecs : ∀ k, AMap.get s.txrecs k = B.txrecs k
  blocks : ∀ k, AMap.get s.blocks k = B.blocks k
  addrs : ∀ k, AMap.get s.addrs k = B.addrs k

/-- the working balances (ready wallets) are the totals of the ledger -/
def RelBal (ready : List Wid) (bals : Bals) (B : Book) : Prop :=
  ∀ w, ready.contains w = true → AMap.get bals w = some (totalU B.L w)

/-- local consistency of the books: one entry per outpoint, each with its unspent credit and its owner -/
structure Loc (p : Params) (own : Own) (B : Book) : Prop where
  keys : KeysOK B.L
  cred : ∀ u ∈ B.L, B.credits u.credKey = some (creditOf p u)
  own : ∀ u ∈ B.L, ownerOf own u.out = some (u.wallet, u.change)

/-- every deposit in the ledger has its (un-withdrawn) history record -/
def LocG (B : Book) : Prop := ∀ u ∈ B.L, isDeposit u.out.cls = true → B.game (u.gameKey false) = some ()

/-- buckets no mined-side step touches -/
structure SameSync (s s' : Store) : Prop where
  sync : s'.sync = s.sync
  syncedTo : s'.syncedTo = s.syncedTo
  status : s'.status = s.status
  balance : s'.balance = s.balance

theorem SameSync.refl (s : Store) : SameSync s s := ⟨rfl, rfl, rfl, rfl⟩
theorem SameSync.trans {a b c : Store} (h₁ : SameSync a b) (h₂ : SameSync b c) : SameSync a c :=
  ⟨h₂.sync.trans h₁.sync, h₂.syncedTo.trans h₁.syncedTo, h₂.status.trans h₁.status, h₂.balance.trans h₁.balance⟩

theorem credKey_ne_of_key_ne {u u' : UCoin} (h : ¬ (u'.tx = u.tx ∧ u'.idx = u.idx)) : u.credKey ≠ u'.credKey := by
  intro he
  unfold UCoin.credKey at he
  injection he with h1 h2 h3
  exact h ⟨h1.symm, h3.symm⟩

theorem gameKey_ne_of_key_ne {u u' : UCoin} (b b' : Bool) (h : ¬ (u'.tx = u.tx ∧ u'.idx = u.idx)) :
    u.gameKey b ≠ u'.gameKey b' := by
  intro he
  unfold UCoin.gameKey at he
  injection he with h1 h2 h3 h4 h5 h6
  exact h ⟨h4.symm, h6.symm⟩

-- ------------------------------------------------------------------ spendOne ⊑ spendB

theorem spendOne_refines {p : Params} {own : Own} {ready : List Wid} {s : Store} {bals : Bals} {B : Book}
    {tr : TxRec} {blk : BlockMeta} {k : Nat} {i : Inp} {u : UCoin}
    (hR : Rel s B) (hB : RelBal ready bals B) (hL : Loc p own B) (hG : LocG B)
    (hi : tr.tx.ins[k]? = some i) (hu : lookupU B.L i.tx i.idx = some u)
    (hready : ready.contains u.wallet = true) :
    ∃ sb', spendOne tr blk (s, bals) ⟨k, u.out, u.wallet, u.change⟩ = .ok sb' ∧
      Rel sb'.1 (spendB p tr.tx blk B k i) ∧ RelBal ready sb'.2 (spendB p tr.tx blk B k i) ∧
      Loc p own (spendB p tr.tx blk B k i) ∧ LocG (spendB p tr.tx blk B k i) ∧ SameSync s sb'.1 := by
  obtain ⟨hmem, htx, hidx⟩ := lookupU_some hu
  have h1 : AMap.get s.unspent (u.wallet, i.tx, i.idx) = some u.blk := by
    rw [hR.unspent, hu]; simp [Option.filter]
  have hck : (⟨i.tx, u.blk, i.idx⟩ : CredKey) = u.credKey := by
    unfold UCoin.credKey; rw [htx, hidx]
  have h2 : AMap.get s.credits ⟨i.tx, u.blk, i.idx⟩ = some (creditOf p u) := by
    rw [hR.credits, hck]; exact hL.cred u hmem
  have h3 : getBal bals u.wallet = totalU B.L u.wallet := by
    unfold getBal; rw [hB _ hready]; rfl
  have h4 : u.out.amt ≤ totalU B.L u.wallet := amt_le_totalU hmem
  have hgk : (⟨u.wallet, u.out.cls.isBinding, false, i.tx, u.blk.height, i.idx⟩ : GameKey) = u.gameKey false := by
    unfold UCoin.gameKey; rw [htx, hidx]
  have hgk' : (⟨u.wallet, u.out.cls.isBinding, true, i.tx, u.blk.height, i.idx⟩ : GameKey) = u.gameKey true := by
    unfold UCoin.gameKey; rw [htx, hidx]
  have h5 : ((u.out.cls.isBinding || u.out.cls.isStaking) &&
      (AMap.get s.game ⟨u.wallet, u.out.cls.isBinding, false, i.tx, u.blk.height, i.idx⟩).isNone) = false := by
    by_cases hd : isDeposit u.out.cls = true
    · rw [hR.game, hgk, hG u hmem hd]; simp
    · unfold isDeposit at hd
      simp only [Bool.not_eq_true] at hd
      rw [hd]; rfl
  have hspent : (creditOf p u).spent = false := rfl
  have hamt : (creditOf p u).amt = u.out.amt := rfl
  have h6 : ¬ (getBal bals u.wallet < (creditOf p u).amt) := by rw [h3, hamt]; omega
  have hB' : spendB p tr.tx blk B k i =
      { B with
        L := B.L.filter (fun u' => !UCoin.at i.tx i.idx u'),
        credits := upd B.credits u.credKey (some { creditOf p u with spent := true, spentBy := some ⟨tr.tx.id, blk, k⟩ }),
        debits := upd B.debits ⟨tr.tx.id, blk, k⟩ (some (u.out.amt, u.credKey)),
        game := if isDeposit u.out.cls then upd (upd B.game (u.gameKey false) none) (u.gameKey true) (some ())
                else B.game } := by
    unfold spendB; rw [hu]
  refine ⟨spendApply tr blk (s, bals) ⟨k, u.out, u.wallet, u.change⟩ i u.blk (creditOf p u), ?_, ?_, ?_, ?_, ?_, ?_⟩
  · unfold spendOne
    simp only [hi, h1, h2, hspent, h5, h6]
    simp
  · rw [hB']
    constructor
    · intro w tx idx
      simp only [spendApply]
      rw [AMap.get_erase, lookupU_filter, hR.unspent]
      by_cases hk : i.tx = tx ∧ i.idx = idx
      · obtain ⟨rfl, rfl⟩ := hk
        by_cases hw : u.wallet = w
        · simp [hw]
        · have : ¬ ((u.wallet, i.tx, i.idx) = (w, i.tx, i.idx)) := by
            intro h; injection h with h _; exact hw h
          simp only [this, if_false, true_and, if_true, hu]
          simp [hw]
      · have : ¬ ((u.wallet, i.tx, i.idx) = (w, tx, idx)) := by
          intro h; injection h with _ h; injection h with ha hb; exact hk ⟨ha, hb⟩
        simp [this, hk]
    · intro ck
      simp only [spendApply]
      rw [AMap.get_put, hck, hR.credits]; rfl
    · intro dk
      simp only [spendApply]
      rw [AMap.get_put, hck, hR.debits]; rfl
    · intro gk
      simp only [spendApply]
      by_cases hd : isDeposit u.out.cls = true
      · have hd' : (u.out.cls.isBinding || u.out.cls.isStaking) = true := hd
        simp only [hd', hd, if_true]
        rw [AMap.get_put, AMap.get_erase, hgk, hgk', hR.game]
        simp only [upd_apply]
      · have hd' : (u.out.cls.isBinding || u.out.cls.isStaking) = false := by
          unfold isDeposit at hd; simpa using hd
        simp only [Bool.not_eq_true] at hd
        simp only [hd', hd]
        exact hR.game gk
    · intro x; simp only [spendApply]; exact hR.txrecs x
    · intro x; simp only [spendApply]; exact hR.blocks x
    · intro x; simp only [spendApply]; exact hR.addrs x
  · rw [hB']
    intro w hw
    simp only [spendApply]
    rw [AMap.get_put]
    have := totalU_remove hL.keys hmem w
    rw [htx, hidx] at this
    rw [this]
    by_cases hw' : u.wallet = w
    · simp only [hw', if_true]
      rw [← hw', h3, hamt]
    · simp only [hw', if_false]
      rw [hB w hw]; simp
  · rw [hB']
    constructor
    · exact keysOK_filter hL.keys _
    · intro u' hu'
      have hm := List.mem_filter.1 hu'
      have hne : ¬ (u'.tx = u.tx ∧ u'.idx = u.idx) := by
        have := hm.2
        rw [htx, hidx]
        intro h
        have h' := (at_iff i.tx i.idx u').2 h
        simp [h'] at this
      simp only [upd_apply, credKey_ne_of_key_ne hne, if_false]
      exact hL.cred u' hm.1
    · intro u' hu'
      exact hL.own u' (List.mem_filter.1 hu').1
  · rw [hB']
    intro u' hu' hd'
    have hm := List.mem_filter.1 hu'
    have hne : ¬ (u'.tx = u.tx ∧ u'.idx = u.idx) := by
      have := hm.2
      rw [htx, hidx]
      intro h
      have h' := (at_iff i.tx i.idx u').2 h
      simp [h'] at this
    by_cases hd : isDeposit u.out.cls = true
    · simp only [hd, if_true, upd_apply, gameKey_ne_of_key_ne true false hne, gameKey_ne_of_key_ne false false hne, if_false]
      exact hG u' hm.1 hd'
    · simp only [hd]
      exact hG u' hm.1 hd'
  · exact ⟨rfl, rfl, rfl, rfl⟩

end MW.Lemmas.Ledger
