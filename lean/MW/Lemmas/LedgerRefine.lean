/-
  The store of the model refines the books of the spec, step by step (C01 goal 1, micro level):
  `Agree s B` – every mined bucket of store `s`, read through `AMap.get`, is the corresponding table of `B`;
  `spendOne` refines `spendB`, `creditOne` refines `createB`, `gameOne` refines `depositB`, and none of
  the error exits of the model fires as long as the books are locally consistent (`Loc`, `LocG`).
-/
import MW.Lemmas.LedgerBasic
namespace MW.Lemmas.Ledger
open MW MW.Model.Ledger MW.Spec.Chain MW.Spec.Books

/-- the mined buckets of the store are the tables of the books -/
structure Agree (s : Store) (B : Book) : Prop where
  unspent : ∀ w tx idx, AMap.get s.unspent (w, tx, idx) =
    ((lookupU B.L tx idx).filter (fun u => decide (u.wallet = w))).map (·.blk)
  credits : ∀ k, AMap.get s.credits k = B.credits k
  debits : ∀ k, AMap.get s.debits k = B.debits k
  game : ∀ k, AMap.get s.game k = B.game k
  txrecs : ∀ k, AMap.get s.txrecs k = B.txrecs k
  blocks : ∀ k, AMap.get s.blocks k = B.blocks k
  addrs : ∀ k, AMap.get s.addrs k = B.addrs k

/-- the working balances (ready wallets) are the totals of the ledger -/
def AgreeBal (ready : List Wid) (bals : Bals) (B : Book) : Prop :=
  ∀ w, ready.contains w = true → AMap.get bals w = some (totalU B.L w)

/-- local consistency of the books: one entry per outpoint, each with its unspent credit and its owner -/
structure Loc (p : Params) (own : Own) (B : Book) : Prop where
  keys : KeysOK B.L
  cred : ∀ u ∈ B.L, B.credits u.credKey = some (creditOf p u)
  own : ∀ u ∈ B.L, ownerOf own u.out = some (u.wallet, u.change)

/-- every deposit in the ledger has its (un-withdrawn) history record -/
def LocG (B : Book) : Prop := ∀ u ∈ B.L, isDeposit u.out.cls = true → B.game (u.gameKey false) = some ()

/-- buckets no mined-side step touches -/
structure SameSync (s s' : Store) : Prop where
  sync : s'.sync = s.sync
  syncedTo : s'.syncedTo = s.syncedTo
  status : s'.status = s.status
  balance : s'.balance = s.balance

theorem SameSync.refl (s : Store) : SameSync s s := ⟨rfl, rfl, rfl, rfl⟩
theorem SameSync.trans {a b c : Store} (h₁ : SameSync a b) (h₂ : SameSync b c) : SameSync a c :=
  ⟨h₂.sync.trans h₁.sync, h₂.syncedTo.trans h₁.syncedTo, h₂.status.trans h₁.status, h₂.balance.trans h₁.balance⟩

theorem credKey_ne_of_key_ne {u u' : UCoin} (h : ¬ (u'.tx = u.tx ∧ u'.idx = u.idx)) : u.credKey ≠ u'.credKey := by
  intro he
  unfold UCoin.credKey at he
  injection he with h1 h2 h3
  exact h ⟨h1.symm, h3.symm⟩

theorem gameKey_ne_of_key_ne {u u' : UCoin} (b b' : Bool) (h : ¬ (u'.tx = u.tx ∧ u'.idx = u.idx)) :
    u.gameKey b ≠ u'.gameKey b' := by
  intro he
  unfold UCoin.gameKey at he
  injection he with h1 h2 h3 h4 h5 h6
  exact h ⟨h4.symm, h6.symm⟩

-- ------------------------------------------------------------------ spendOne ⊑ spendB

theorem spendOne_refines {p : Params} {own : Own} {ready : List Wid} {s : Store} {bals : Bals} {B : Book}
    {tr : TxRec} {blk : BlockMeta} {k : Nat} {i : Inp} {u : UCoin}
    (hR : Agree s B) (hB : AgreeBal ready bals B) (hL : Loc p own B) (hG : LocG B)
    (hi : tr.tx.ins[k]? = some i) (hu : lookupU B.L i.tx i.idx = some u)
    (hready : ready.contains u.wallet = true) :
    ∃ sb', spendOne tr blk (s, bals) ⟨k, u.out, u.wallet, u.change⟩ = .ok sb' ∧
      Agree sb'.1 (spendB p tr.tx blk B k i) ∧ AgreeBal ready sb'.2 (spendB p tr.tx blk B k i) ∧
      Loc p own (spendB p tr.tx blk B k i) ∧ LocG (spendB p tr.tx blk B k i) ∧ SameSync s sb'.1 := by
  obtain ⟨hmem, htx, hidx⟩ := lookupU_some hu
  have h1 : AMap.get s.unspent (u.wallet, i.tx, i.idx) = some u.blk := by
    rw [hR.unspent, hu]; simp [Option.filter]
  have hck : (⟨i.tx, u.blk, i.idx⟩ : CredKey) = u.credKey := by
    unfold UCoin.credKey; rw [htx, hidx]
  have h2 : AMap.get s.credits ⟨i.tx, u.blk, i.idx⟩ = some (creditOf p u) := by
    rw [hR.credits, hck]; exact hL.cred u hmem
  have h3 : getBal bals u.wallet = totalU B.L u.wallet := by
    unfold getBal; rw [hB _ hready]; rfl
  have h4 : u.out.amt ≤ totalU B.L u.wallet := amt_le_totalU hmem
  have hgk : (⟨u.wallet, u.out.cls.isBinding, false, i.tx, u.blk.height, i.idx⟩ : GameKey) = u.gameKey false := by
    unfold UCoin.gameKey; rw [htx, hidx]
  have hgk' : (⟨u.wallet, u.out.cls.isBinding, true, i.tx, u.blk.height, i.idx⟩ : GameKey) = u.gameKey true := by
    unfold UCoin.gameKey; rw [htx, hidx]
  have h5 : ((u.out.cls.isBinding || u.out.cls.isStaking) &&
      (AMap.get s.game ⟨u.wallet, u.out.cls.isBinding, false, i.tx, u.blk.height, i.idx⟩).isNone) = false := by
    by_cases hd : isDeposit u.out.cls = true
    · rw [hR.game, hgk, hG u hmem hd]; simp
    · unfold isDeposit at hd
      simp only [Bool.not_eq_true] at hd
      rw [hd]; rfl
  have hspent : (creditOf p u).spent = false := rfl
  have hamt : (creditOf p u).amt = u.out.amt := rfl
  have h6 : ¬ (getBal bals u.wallet < (creditOf p u).amt) := by rw [h3, hamt]; omega
  have hB' : spendB p tr.tx blk B k i =
      { B with
        L := B.L.filter (fun u' => !UCoin.at i.tx i.idx u'),
        credits := upd B.credits u.credKey (some { creditOf p u with spent := true, spentBy := some ⟨tr.tx.id, blk, k⟩ }),
        debits := upd B.debits ⟨tr.tx.id, blk, k⟩ (some (u.out.amt, u.credKey)),
        game := if isDeposit u.out.cls then upd (upd B.game (u.gameKey false) none) (u.gameKey true) (some ())
                else B.game } := by
    unfold spendB; rw [hu]
  refine ⟨spendApply tr blk (s, bals) ⟨k, u.out, u.wallet, u.change⟩ i u.blk (creditOf p u), ?_, ?_, ?_, ?_, ?_, ?_⟩
  · unfold spendOne
    simp only [hi, h1, h2, hspent, h5, h6]
    simp
  · rw [hB']
    constructor
    · intro w tx idx
      simp only [spendApply]
      rw [AMap.get_erase, lookupU_filter, hR.unspent]
      by_cases hk : i.tx = tx ∧ i.idx = idx
      · obtain ⟨rfl, rfl⟩ := hk
        by_cases hw : u.wallet = w
        · simp [hw]
        · have : ¬ ((u.wallet, i.tx, i.idx) = (w, i.tx, i.idx)) := by
            intro h; injection h with h _; exact hw h
          simp only [this, if_false, true_and, if_true, hu]
          simp [hw]
      · have : ¬ ((u.wallet, i.tx, i.idx) = (w, tx, idx)) := by
          intro h; injection h with _ h; injection h with ha hb; exact hk ⟨ha, hb⟩
        simp [this, hk]
    · intro ck
      simp only [spendApply]
      rw [AMap.get_put, hck, hR.credits]; rfl
    · intro dk
      simp only [spendApply]
      rw [AMap.get_put, hck, hR.debits]; rfl
    · intro gk
      simp only [spendApply]
      by_cases hd : isDeposit u.out.cls = true
      · have hd' : (u.out.cls.isBinding || u.out.cls.isStaking) = true := hd
        simp only [hd', hd, if_true]
        rw [AMap.get_put, AMap.get_erase, hgk, hgk', hR.game]
        simp only [upd_apply]
      · have hd' : (u.out.cls.isBinding || u.out.cls.isStaking) = false := by
          unfold isDeposit at hd; simpa using hd
        simp only [Bool.not_eq_true] at hd
        simp only [hd', hd]
        exact hR.game gk
    · intro x; simp only [spendApply]; exact hR.txrecs x
    · intro x; simp only [spendApply]; exact hR.blocks x
    · intro x; simp only [spendApply]; exact hR.addrs x
  · rw [hB']
    intro w hw
    simp only [spendApply]
    rw [AMap.get_put]
    have := totalU_remove hL.keys hmem w
    rw [htx, hidx] at this
    rw [this]
    by_cases hw' : u.wallet = w
    · simp only [hw', if_true]
      rw [← hw', h3, hamt]
    · simp only [hw', if_false]
      rw [hB w hw]; simp
  · rw [hB']
    constructor
    · exact keysOK_filter hL.keys _
    · intro u' hu'
      have hm := List.mem_filter.1 hu'
      have hne : ¬ (u'.tx = u.tx ∧ u'.idx = u.idx) := by
        have := hm.2
        rw [htx, hidx]
        intro h
        have h' := (at_iff i.tx i.idx u').2 h
        simp [h'] at this
      simp only [upd_apply, credKey_ne_of_key_ne hne, if_false]
      exact hL.cred u' hm.1
    · intro u' hu'
      exact hL.own u' (List.mem_filter.1 hu').1
  · rw [hB']
    intro u' hu' hd'
    have hm := List.mem_filter.1 hu'
    have hne : ¬ (u'.tx = u.tx ∧ u'.idx = u.idx) := by
      have := hm.2
      rw [htx, hidx]
      intro h
      have h' := (at_iff i.tx i.idx u').2 h
      simp [h'] at this
    by_cases hd : isDeposit u.out.cls = true
    · simp only [hd, if_true, upd_apply, gameKey_ne_of_key_ne true false hne, gameKey_ne_of_key_ne false false hne, if_false]
      exact hG u' hm.1 hd'
    · simp only [hd]
      exact hG u' hm.1 hd'
  · exact ⟨rfl, rfl, rfl, rfl⟩

-- ------------------------------------------------------------------ creditOne ⊑ createB

/-- deposits of every transaction but `t` have their history record (the records of `t`'s own
    outputs are written after its credits) -/
def LocGx (t : TxId) (B : Book) : Prop :=
  ∀ u ∈ B.L, u.tx ≠ t → isDeposit u.out.cls = true → B.game (u.gameKey false) = some ()

theorem LocG.toLocGx {B : Book} (h : LocG B) (t : TxId) : LocGx t B := fun u hu _ hd => h u hu hd

theorem creditOne_refines {p : Params} {own : Own} {ready : List Wid} {s : Store} {bals : Bals} {B : Book}
    {tr : TxRec} {blk : BlockMeta} {j : Nat} {o : Out} {w : Wid} {ch : Bool}
    (hR : Agree s B) (hB : AgreeBal ready bals B) (hL : Loc p own B) (hG : LocGx tr.tx.id B)
    (ho : ownerOf own o = some (w, ch)) (hready : ready.contains w = true)
    (hfC : B.credits ⟨tr.tx.id, blk, j⟩ = none) (hfL : lookupU B.L tr.tx.id j = none) :
    ∃ sb', creditOne p tr blk (s, bals) ⟨j, o, w, ch⟩ = .ok sb' ∧
      Agree sb'.1 (createB p own tr.tx blk B j o) ∧ AgreeBal ready sb'.2 (createB p own tr.tx blk B j o) ∧
      Loc p own (createB p own tr.tx blk B j o) ∧ LocGx tr.tx.id (createB p own tr.tx blk B j o) ∧
      SameSync s sb'.1 := by
  let u : UCoin := ⟨w, tr.tx.id, j, blk, tr.tx.cb, o, ch⟩
  have hB' : createB p own tr.tx blk B j o =
      { B with
        L := B.L ++ [u],
        credits := upd B.credits u.credKey (some (creditOf p u)),
        addrs := match B.addrs (w, o.cls.isStaking, o.addr) with
          | some h => if h = 0 then upd B.addrs (w, o.cls.isStaking, o.addr) (some blk.height) else B.addrs
          | none => upd B.addrs (w, o.cls.isStaking, o.addr) (some blk.height) } := by
    unfold createB; rw [ho]; rfl
  have hck : u.credKey = ⟨tr.tx.id, blk, j⟩ := rfl
  have h1 : (AMap.get s.credits ⟨tr.tx.id, blk, j⟩).isSome = false := by rw [hR.credits, hfC]; rfl
  have hmc : minedCreditOf p tr.tx.cb ⟨j, o, w, ch⟩ = creditOf p u := rfl
  refine ⟨creditApply p tr blk (s, bals) ⟨j, o, w, ch⟩, ?_, ?_, ?_, ?_, ?_, ?_⟩
  · unfold creditOne
    simp only [h1]
    simp
  · rw [hB']
    constructor
    · intro w' tx idx
      simp only [creditApply]
      rw [AMap.get_put, lookupU_append_single, hR.unspent]
      by_cases hk : tr.tx.id = tx ∧ j = idx
      · obtain ⟨rfl, rfl⟩ := hk
        rw [hfL]
        by_cases hw : w = w'
        · simp [hw, u, Option.filter]
        · have : ¬ ((w, tr.tx.id, j) = (w', tr.tx.id, j)) := by
            intro h; injection h with h _; exact hw h
          simp [this, u, hw, Option.filter]
      · have : ¬ ((w, tr.tx.id, j) = (w', tx, idx)) := by
          intro h; injection h with _ h; injection h with ha hb; exact hk ⟨ha, hb⟩
        simp only [this, if_false]
        cases hl : lookupU B.L tx idx with
        | some x => rfl
        | none =>
          have : ¬ (u.tx = tx ∧ u.idx = idx) := hk
          simp [this]
    · intro ck
      simp only [creditApply]
      rw [AMap.get_put, hR.credits, hmc]; rfl
    · intro x; simp only [creditApply]; exact hR.debits x
    · intro x; simp only [creditApply]; exact hR.game x
    · intro x; simp only [creditApply]; exact hR.txrecs x
    · intro x; simp only [creditApply]; exact hR.blocks x
    · intro ak
      simp only [creditApply]
      rw [hR.addrs]
      cases ha : B.addrs (w, o.cls.isStaking, o.addr) with
      | none => simp only [AMap.get_put, hR.addrs, upd_apply]
      | some h =>
        by_cases h0 : h = 0
        · simp only [h0, if_true, AMap.get_put, hR.addrs, upd_apply]
        · simp only [h0, if_false]; exact hR.addrs ak
  · rw [hB']
    intro w' hw'
    simp only [creditApply]
    rw [AMap.get_put, totalU_append_single]
    by_cases hw : w = w'
    · subst hw
      have : getBal bals w = totalU B.L w := by unfold getBal; rw [hB _ hready]; rfl
      simp [this, u]
    · have : ¬ (u.wallet = w') := hw
      simp only [hw, if_false, this, Nat.add_zero]
      exact hB w' hw'
  · rw [hB']
    constructor
    · exact keysOK_append_single hL.keys u hfL
    · intro u' hu'
      rcases List.mem_append.1 hu' with h | h
      · have hne : u.credKey ≠ u'.credKey := by
          apply credKey_ne_of_key_ne
          intro hk
          exact lookupU_none hfL u' h hk
        simp only [upd_apply, hne, if_false]
        exact hL.cred u' h
      · simp only [List.mem_singleton] at h
        subst h
        simp [upd_apply]
    · intro u' hu'
      rcases List.mem_append.1 hu' with h | h
      · exact hL.own u' h
      · simp only [List.mem_singleton] at h
        subst h; exact ho
  · rw [hB']
    intro u' hu' hne hd
    rcases List.mem_append.1 hu' with h | h
    · exact hG u' h hne hd
    · simp only [List.mem_singleton] at h
      subst h; exact absurd rfl hne
  · exact ⟨rfl, rfl, rfl, rfl⟩

end MW.Lemmas.Ledger
