/- C19: kernel evaluations of the static checker (reflective proofs): closed functions are accepted from
   no assumptions, entry points are accepted with their non-closed callees checked in place -/
import MW.Model.Api
namespace MW.Lemmas.ApiSafe
open MW.Model.Api

set_option maxHeartbeats 100000000 in
theorem closed_EstimateManualTxFee : ∃ body m, prog Fn.EstimateManualTxFee = some body ∧ (check prog exports imports closed m [] body).isSome = true :=
  ⟨f_EstimateManualTxFee, checkFuel, rfl, by decide +kernel⟩

set_option maxHeartbeats 100000000 in
theorem closed_GetAddresses : ∃ body m, prog Fn.GetAddresses_wallet = some body ∧ (check prog exports imports closed m [] body).isSome = true :=
  ⟨f_GetAddresses, checkFuel, rfl, by decide +kernel⟩

set_option maxHeartbeats 100000000 in
theorem closed_GetBindingHistory : ∃ body m, prog Fn.GetBindingHistory_wallet = some body ∧ (check prog exports imports closed m [] body).isSome = true :=
  ⟨f_GetBindingHistory, checkFuel, rfl, by decide +kernel⟩

set_option maxHeartbeats 100000000 in
theorem closed_GetMnemonic : ∃ body m, prog Fn.GetMnemonic = some body ∧ (check prog exports imports closed m [] body).isSome = true :=
  ⟨f_GetMnemonic, checkFuel, rfl, by decide +kernel⟩

set_option maxHeartbeats 100000000 in
theorem closed_IsAddressInCurrent : ∃ body m, prog Fn.IsAddressInCurrent = some body ∧ (check prog exports imports closed m [] body).isSome = true :=
  ⟨f_IsAddressInCurrent, checkFuel, rfl, by decide +kernel⟩

set_option maxHeartbeats 100000000 in
theorem closed_Wallets : ∃ body m, prog Fn.Wallets_wallet = some body ∧ (check prog exports imports closed m [] body).isSome = true :=
  ⟨f_Wallets, checkFuel, rfl, by decide +kernel⟩

set_option maxHeartbeats 100000000 in
theorem closed_addTxIn : ∃ body m, prog Fn.addTxIn = some body ∧ (check prog exports imports closed m [] body).isSome = true :=
  ⟨f_addTxIn, checkFuel, rfl, by decide +kernel⟩

set_option maxHeartbeats 100000000 in
theorem closed_disconnectBlock : ∃ body m, prog Fn.disconnectBlock = some body ∧ (check prog exports imports closed m [] body).isSome = true :=
  ⟨f_disconnectBlock, checkFuel, rfl, by decide +kernel⟩

set_option maxHeartbeats 100000000 in
theorem closed_extractAddressInfos : ∃ body m, prog Fn.extractAddressInfos = some body ∧ (check prog exports imports closed m [] body).isSome = true :=
  ⟨f_extractAddressInfos, checkFuel, rfl, by decide +kernel⟩

set_option maxHeartbeats 100000000 in
theorem closed_filterBlock : ∃ body m, prog Fn.filterBlock = some body ∧ (check prog exports imports closed m [] body).isSome = true :=
  ⟨f_filterBlock, checkFuel, rfl, by decide +kernel⟩

set_option maxHeartbeats 100000000 in
theorem closed_getStatus : ∃ body m, prog Fn.getStatus = some body ∧ (check prog exports imports closed m [] body).isSome = true :=
  ⟨f_getStatus, checkFuel, rfl, by decide +kernel⟩

set_option maxHeartbeats 100000000 in
theorem closed_initTaskChan : ∃ body m, prog Fn.initTaskChan = some body ∧ (check prog exports imports closed m [] body).isSome = true :=
  ⟨f_initTaskChan, checkFuel, rfl, by decide +kernel⟩

set_option maxHeartbeats 100000000 in
theorem safe_CheckTargetBinding : safe prog exports imports closed checkFuel (.invoke Fn.CheckTargetBinding) = true := by decide +kernel

set_option maxHeartbeats 100000000 in
theorem safe_CreateBindingTransaction_api : safe prog exports imports closed checkFuel (.invoke Fn.CreateBindingTransaction_tx_service) = true := by decide +kernel

set_option maxHeartbeats 100000000 in
theorem safe_QuitClient : safe prog exports imports closed checkFuel (.invoke Fn.QuitClient) = true := by decide +kernel

set_option maxHeartbeats 100000000 in
theorem safe_RemoveWallet_api : safe prog exports imports closed checkFuel (.invoke Fn.RemoveWallet_wallet_service) = true := by decide +kernel

set_option maxHeartbeats 100000000 in
theorem safe_TxHistory : safe prog exports imports closed checkFuel (.invoke Fn.TxHistory) = true := by decide +kernel

set_option maxHeartbeats 100000000 in
theorem safe_UseWallet_api : safe prog exports imports closed checkFuel (.invoke Fn.UseWallet_wallet_service) = true := by decide +kernel

set_option maxHeartbeats 100000000 in
theorem safe_Wallets_api : safe prog exports imports closed checkFuel (.invoke Fn.Wallets_wallet_service) = true := by decide +kernel

set_option maxHeartbeats 100000000 in
theorem safe_asyncRemove : safe prog exports imports closed checkFuel (.invoke Fn.asyncRemove) = true := by decide +kernel

end MW.Lemmas.ApiSafe
