/-
  LedBytes, part 2c — the block-record VALUE (bucket `b`): hash ‖ unix time ‖ count ‖ tx hashes.
  The Go code never writes this value in one piece: `valueBlockRecord` writes the 76-byte record of the first
  transaction, `appendRawBlockRecord` appends one hash and patches the 4-byte counter in place.
    brFlat h t txs                        the closed form
    valueBlockRecord_eq                   the first record is `brFlat h t [x]`
    appendRawBlockRecord_brFlat           one append takes `brFlat h t txs` to `brFlat h t (txs ++ [x])`
    blockRecordValue_eq                   hence updateBlockRecord's loop builds `brFlat h t txs`
    readRawBlockRecordValue_brFlat        readRawBlockRecord reads hash, time and every hash back
  hence the laws of the codec `cdB` (`cdB_laws`), the 14th bucket.
-/
import MW.Lemmas.LedBytesCredit
namespace MW.LedBytes
open MW MW.Gen.Codec MW.Model.TxmgrCodec MW.TxmgrCodec MW.Model.Ledger

/-- hash ‖ time ‖ count ‖ hashes -/
def brFlat (h : Bytes) (t : Nat) (txs : List Bytes) : Bytes := h ++ (be 8 t ++ (be 4 txs.length ++ txs.flatten))

theorem valueBlockRecord_eq (h : Bytes) (t : Nat) (x : Bytes) (hh : h.length = 32) (ht : t < 256 ^ 8) (hx : x.length = 32) :
    valueBlockRecord h t x = brFlat h t [x] := by
  have hf : Fits wValueBlockRecord.spans [.b h, .n t, .n 1, .b x] = true := by
    simp [Fits, FitsV, wValueBlockRecord, Kind.isBytes, hh, hx]; exact ht
  rw [valueBlockRecord, encode_eq_flat _ _ (by decide) hf]
  have t1 : h.take 32 = h := List.take_of_length_le (by omega)
  have t2 : x.take 32 = x := List.take_of_length_le (by omega)
  simp [flat, wValueBlockRecord, spanBytes, brFlat, t1, t2]

/-- `copy(buf[off:], src)` over a middle block of the same width -/
theorem writeAt_block (A B C B' : Bytes) (n : Nat) (hn : n = A.length) (hb : B'.length = B.length) :
    writeAt (A ++ (B ++ C)) n B' = A ++ (B' ++ C) := by
  subst hn
  unfold writeAt
  have h1 : (A ++ (B ++ C)).take A.length = A := by simp
  have h2 : B'.take ((A ++ (B ++ C)).length - A.length) = B' := List.take_of_length_le (by simp; omega)
  have h3 : (A ++ (B ++ C)).drop (A.length + B'.length) = C := by
    rw [hb, ← List.append_assoc, ← List.length_append]; simp
  rw [h1, h2, h3, List.append_assoc]

theorem readAt_block (A B C : Bytes) (n len : Nat) (hn : n = A.length) (hl : len = B.length) (h0 : len ≠ 0) :
    readAt n len (A ++ (B ++ C)) = B := by
  subst hn; subst hl
  unfold readAt
  simp [h0]

/-- **one append**: the hash goes to the end, the counter is incremented in place (uint32 arithmetic: `be 4`
    truncates) -/
theorem appendRawBlockRecord_brFlat (h : Bytes) (t : Nat) (txs : List Bytes) (x : Bytes) (hh : h.length = 32)
    (hn : txs.length < 256 ^ 4) (hx : x.length = 32) :
    appendRawBlockRecord (brFlat h t txs) x = some (brFlat h t (txs ++ [x])) := by
  have hsp : wAppendBlockRecord.spans = [⟨"n", 40, 4, .uint⟩] := rfl
  have hl : (brFlat h t txs).length = 44 + txs.flatten.length := by simp [brFlat, be_length, hh]; omega
  have hx' : x.take blockRecordStride = x := List.take_of_length_le (by rw [hx]; decide)
  unfold appendRawBlockRecord
  rw [hsp]
  simp only [hl, hx']
  have hlt : ¬ (44 + txs.flatten.length < 40 + 4) := by omega
  rw [if_neg hlt]
  have e : brFlat h t txs ++ x = (h ++ be 8 t) ++ (be 4 txs.length ++ (txs.flatten ++ x)) := by simp [brFlat]
  have hA : 40 = (h ++ be 8 t).length := by simp [be_length, hh]
  rw [e, readAt_block _ _ _ 40 4 hA (be_length _ _).symm (by decide), beNat_be_of_lt 4 _ hn,
    writeAt_block _ _ _ _ 40 hA (by simp [be_length])]
  simp [brFlat]

theorem foldl_append_brFlat (h : Bytes) (t : Nat) (hh : h.length = 32) : ∀ (xs pre : List Bytes),
    (pre ++ xs).length ≤ 256 ^ 4 → (∀ x ∈ xs, x.length = 32) →
    xs.foldl (fun acc x => acc.bind (fun v => appendRawBlockRecord v x)) (some (brFlat h t pre))
      = some (brFlat h t (pre ++ xs)) := by
  intro xs
  induction xs with
  | nil => intro pre _ _; simp
  | cons x xs ih =>
    intro pre hn hx
    simp only [List.foldl_cons, Option.bind_some]
    rw [appendRawBlockRecord_brFlat h t pre x hh (by simp at hn; omega) (hx x List.mem_cons_self)]
    have := ih (pre ++ [x]) (by simpa using hn) (fun y hy => hx y (List.mem_cons_of_mem _ hy))
    simpa using this

/-- **updateBlockRecord's loop builds the closed form** -/
theorem blockRecordValue_eq (h : Bytes) (t : Nat) (txs : List Bytes) (hh : h.length = 32) (ht : t < 256 ^ 8)
    (hne : txs ≠ []) (hn : txs.length ≤ 256 ^ 4) (hx : ∀ x ∈ txs, x.length = 32) :
    blockRecordValue h t txs = some (brFlat h t txs) := by
  cases txs with
  | nil => exact absurd rfl hne
  | cons x xs =>
    show xs.foldl (fun acc h => acc.bind (fun v => appendRawBlockRecord v h)) (some (valueBlockRecord h t x)) = _
    rw [valueBlockRecord_eq h t x hh ht (hx x List.mem_cons_self)]
    exact foldl_append_brFlat h t hh xs [x] hn (fun y hy => hx y (List.mem_cons_of_mem _ hy))

/-- **readRawBlockRecord reads the closed form back** -/
theorem readRawBlockRecordValue_brFlat (h : Bytes) (t : Nat) (txs : List Bytes) (hh : h.length = 32) (ht : t < 256 ^ 8)
    (hn : txs.length < 256 ^ 4) (hx : ∀ x ∈ txs, x.length = 32) :
    readRawBlockRecordValue (brFlat h t txs) = some ⟨h, t, txs⟩ := by
  obtain ⟨c1, c2⟩ := chunks_flatten txs hx
  have hl : (brFlat h t txs).length = 44 + txs.flatten.length := by simp [brFlat, be_length, hh]; omega
  have hd : decodeBy rBlockRecordValue (brFlat h t txs) = some [.b h, .n t, .n txs.length, .b txs.flatten] := by
    have g : guardOk rBlockRecordValue (brFlat h t txs) = true := by
      simp [guardOk, rBlockRecordValue, hl]
    have r0 : readAt 0 32 (brFlat h t txs) = h := by
      have := readAt_block [] h (be 8 t ++ (be 4 txs.length ++ txs.flatten)) 0 32 rfl hh.symm (by decide)
      simpa [brFlat] using this
    have r1 : readAt 32 8 (brFlat h t txs) = be 8 t :=
      readAt_block h (be 8 t) _ 32 8 hh.symm (be_length _ _).symm (by decide)
    have r2 : readAt 40 4 (brFlat h t txs) = be 4 txs.length := by
      have e : brFlat h t txs = (h ++ be 8 t) ++ (be 4 txs.length ++ txs.flatten) := by simp [brFlat]
      rw [e]
      exact readAt_block _ _ _ 40 4 (by simp [be_length, hh]) (be_length _ _).symm (by decide)
    have r3 : readAt 44 0 (brFlat h t txs) = txs.flatten := by
      have e : brFlat h t txs = (h ++ be 8 t ++ be 4 txs.length) ++ txs.flatten := by simp [brFlat]
      have hA : (h ++ be 8 t ++ be 4 txs.length).length = 44 := by simp [be_length, hh]
      unfold readAt
      simp only [if_true]
      rw [e, ← hA, List.drop_left]
    unfold decodeBy
    rw [g]
    simp only [if_true, rBlockRecordValue, List.map_cons, List.map_nil, readVal, r0, r1, r2, r3,
      beNat_be_of_lt 8 t ht, beNat_be_of_lt 4 _ hn]
  unfold readRawBlockRecordValue
  rw [hd]
  have hs : blockRecordStride = 32 := rfl
  simp only [hs, c2]
  rw [if_neg (by omega), c1]

theorem cdB_encV (N : Names) (r : BlockRecB) (h : r.WF) : (cdB N).encV r = brFlat r.hash r.time r.txs := by
  show (blockRecordValue r.hash r.time r.txs).getD [] = _
  rw [blockRecordValue_eq r.hash r.time r.txs h.1 h.2.1 h.2.2.1 (Nat.le_of_lt h.2.2.2.1) h.2.2.2.2]; rfl

/-- **the laws of the block-record codec** -/
theorem cdB_laws (N : Names) : (cdB N).Laws where
  decK_encK ht h := by
    dsimp only [cdB] at h ⊢
    exact readBlockRecordKey_keyBlockRecord ht (by simp [Fits, FitsV, wKeyBlockRecord, Kind.isBytes]; exact h)
  decV_encV r h := by
    rw [cdB_encV N r h]
    exact readRawBlockRecordValue_brFlat r.hash r.time r.txs h.1 h.2.1 h.2.2.2.1 h.2.2.2.2
  nmK_inj _ _ _ _ h := h

end MW.LedBytes
