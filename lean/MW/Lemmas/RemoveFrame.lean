/-
  Helper lemmas for C08 (remove_frames): what the removal of one wallet leaves untouched.
-/
import MW.Lemmas.RemoveStep
namespace MW.Lemmas.RemoveFrame
open MW MW.Model.Ledger MW.Model.Remove MW.Lemmas.RemoveScan MW.Lemmas.RemoveStep

/-- an association list is functional: one entry per key (what `AMap.put` maintains) -/
def Functional {K V : Type} (m : AMap.T K V) : Prop := ∀ e e', e ∈ m → e' ∈ m → e.1 = e'.1 → e = e'

/-- the debit named by a credit's spender key points back at that credit -/
def SpenderBack (s : Store) : Prop :=
  ∀ e ∈ s.credits, ∀ dk, e.2.spentBy = some dk → ∀ x ∈ s.debits, x.1 = dk → x.2.2 = e.1

theorem mem_erase_of_ne {K V : Type} [DecidableEq K] (m : AMap.T K V) (k : K) (e : K × V)
    (he : e ∈ m) (hk : e.1 ≠ k) : e ∈ AMap.erase m k := (mem_erase m k e).2 ⟨he, hk⟩

theorem spender_some (c : Credit) (dk : CredKey) (h : spender c = .ok (some dk)) : c.spentBy = some dk := by
  unfold spender at h
  split at h
  · split at h
    · simp at h; subst h; assumption
    · cases h
  · cases h

/-- one scan step keeps every credit whose key is not the visited one, and every debit that is not the visited
    credit's spender -/
theorem scanCredit_keeps_credit (limit : Nat) (addrs : List Addr) (sc : Scan) (e x : CredKey × Credit)
    (hx : x ∈ sc.s.credits) (hne : addrs.contains e.2.sh = true → x.1 ≠ e.1) :
    x ∈ (scanCredit limit addrs sc e).s.credits := by
  rcases scanCredit_cases limit addrs sc e with h | ⟨_, h⟩ | h | ⟨_, _, hm, d, _, h⟩ <;> rw [h]
  · exact hx
  · exact hx
  · exact hx
  · simp only
    rw [dropDebit_credits]
    exact mem_erase_of_ne _ _ _ hx (hne hm)

theorem scanCredit_keeps_debit (limit : Nat) (addrs : List Addr) (sc : Scan) (e : CredKey × Credit)
    (x : CredKey × (Nat × CredKey)) (hx : x ∈ sc.s.debits)
    (hne : addrs.contains e.2.sh = true → ∀ dk, e.2.spentBy = some dk → x.1 ≠ dk) :
    x ∈ (scanCredit limit addrs sc e).s.debits := by
  rcases scanCredit_cases limit addrs sc e with h | ⟨_, h⟩ | h | ⟨_, _, hm, d, hd, h⟩ <;> rw [h]
  · exact hx
  · exact hx
  · exact hx
  · cases d with
    | none => exact hx
    | some dk => exact mem_erase_of_ne _ _ _ hx (hne hm dk (spender_some _ _ hd))

theorem scan_keeps_credit (limit : Nat) (addrs : List Addr) (l : List (CredKey × Credit)) (sc : Scan)
    (x : CredKey × Credit) (hx : x ∈ sc.s.credits)
    (hne : ∀ e ∈ l, addrs.contains e.2.sh = true → x.1 ≠ e.1) :
    x ∈ (l.foldl (scanCredit limit addrs) sc).s.credits := by
  induction l generalizing sc with
  | nil => exact hx
  | cons a l ih =>
    exact ih _ (scanCredit_keeps_credit limit addrs sc a x hx (hne a (List.mem_cons_self ..)))
      (fun e he => hne e (List.mem_cons_of_mem _ he))

theorem scan_keeps_debit (limit : Nat) (addrs : List Addr) (l : List (CredKey × Credit)) (sc : Scan)
    (x : CredKey × (Nat × CredKey)) (hx : x ∈ sc.s.debits)
    (hne : ∀ e ∈ l, addrs.contains e.2.sh = true → ∀ dk, e.2.spentBy = some dk → x.1 ≠ dk) :
    x ∈ (l.foldl (scanCredit limit addrs) sc).s.debits := by
  induction l generalizing sc with
  | nil => exact hx
  | cons a l ih =>
    exact ih _ (scanCredit_keeps_debit limit addrs sc a x hx (hne a (List.mem_cons_self ..)))
      (fun e he => hne e (List.mem_cons_of_mem _ he))

/-- the credit scan keeps every credit of other script hashes (functional credits bucket) -/
theorem removeRelevantCredit_keeps_credit (limit : Nat) (s : Store) (addrs : List Addr) (hfun : Functional s.credits)
    (x : CredKey × Credit) (hx : x ∈ s.credits) (hno : addrs.contains x.2.sh = false) :
    x ∈ (removeRelevantCredit limit s addrs).s.credits := by
  unfold removeRelevantCredit
  refine scan_keeps_credit limit addrs s.credits { s := s } x hx ?_
  intro e he hm heq
  have := hfun x e hx he heq
  subst this
  rw [hno] at hm; cases hm

/-- … and every debit whose credit exists and pays another script hash -/
theorem removeRelevantCredit_keeps_debit (limit : Nat) (s : Store) (addrs : List Addr) (hfun : Functional s.credits)
    (hback : SpenderBack s) (x : CredKey × (Nat × CredKey)) (hx : x ∈ s.debits)
    (c : CredKey × Credit) (hc : c ∈ s.credits) (hck : c.1 = x.2.2) (hno : addrs.contains c.2.sh = false) :
    x ∈ (removeRelevantCredit limit s addrs).s.debits := by
  unfold removeRelevantCredit
  refine scan_keeps_debit limit addrs s.credits { s := s } x hx ?_
  intro e he hm dk hdk heq
  have h1 : x.2.2 = e.1 := hback e he dk hdk x hx heq
  have := hfun c e hc he (hck.trans h1)
  subst this
  rw [hno] at hm; cases hm


-- ------------------------------------------------------------------ transaction / block records

theorem removable_congr (own : Own) (s s' : Store) (addrs : List Addr) (tx : Tx)
    (hc : s'.credits = s.credits) (hp : s'.pendCred = s.pendCred) :
    removable own s' addrs tx = removable own s addrs tx := by
  unfold removable spendsCreditOfOtherWallet
  rw [hc, hp]

/-- one step of removeMinedTxs: either nothing changes, or a tx record found removable is erased and reported -/
theorem minedStep_cases (c : Ctx) (addrs : List Addr) (acc acc' : Store × List (Nat × TxId)) (e : TxId × Nat)
    (h : minedStep c addrs acc e = some acc') :
    acc' = acc ∨ ∃ rec tx, rec ∈ acc.1.txrecs ∧ rec.1.1 = e.1 ∧ rec.1.2.height = e.2 ∧
      c.node.txByFileLoc rec.2 = some tx ∧ removable c.own acc.1 addrs tx = true ∧
      acc' = ({ acc.1 with txrecs := AMap.erase acc.1.txrecs rec.1 }, acc.2 ++ [(rec.1.2.height, e.1)]) := by
  unfold minedStep at h
  split at h
  · cases h; exact Or.inl rfl
  · rename_i rec hrec
    split at h
    · cases h
    · rename_i tx htx
      split at h
      · rename_i hrem
        cases h
        right
        unfold txRecordAt at hrec
        have hm := List.mem_of_find?_eq_some hrec
        have hp := List.find?_some hrec
        simp only [Bool.and_eq_true, decide_eq_true_eq] at hp
        exact ⟨rec, tx, hm, hp.1, hp.2, htx, (Bool.and_eq_true _ _ ▸ hrem).1, rfl⟩
      · cases h; exact Or.inl rfl

/-- invariant of the removeMinedTxs fold: credits / unmined credits untouched, tx records only shrink -/
structure MinedInv (s : Store) (acc : Store × List (Nat × TxId)) : Prop where
  credits : acc.1.credits = s.credits
  pendCred : acc.1.pendCred = s.pendCred
  sub : ∀ y ∈ acc.1.txrecs, y ∈ s.txrecs

theorem minedStep_inv (c : Ctx) (s : Store) (addrs : List Addr) (acc acc' : Store × List (Nat × TxId)) (e : TxId × Nat)
    (hi : MinedInv s acc) (h : minedStep c addrs acc e = some acc') : MinedInv s acc' := by
  rcases minedStep_cases c addrs acc acc' e h with rfl | ⟨rec, tx, _, _, _, _, _, rfl⟩
  · exact hi
  · exact ⟨hi.credits, hi.pendCred, fun y hy => hi.sub y (erase_subset _ _ _ hy)⟩

/-- a tx record that is not removable (judged on the store the fold started from) survives removeMinedTxs -/
theorem minedTxs_kept (c : Ctx) (s : Store) (addrs : List Addr) (hOf : AMap.T TxId Nat)
    (r : Store × List (Nat × TxId)) (h : removeMinedTxs c s addrs hOf = some r)
    (hfun : Functional s.txrecs)
    (x : (TxId × BlockMeta) × (BlkId × Nat)) (hx : x ∈ s.txrecs)
    (hneeded : ∀ tx, c.node.txByFileLoc x.2 = some tx → removable c.own s addrs tx = false) :
    x ∈ r.1.txrecs := by
  unfold removeMinedTxs at h
  have key : ∀ (l : AMap.T TxId Nat) (acc : Store × List (Nat × TxId)), MinedInv s acc → x ∈ acc.1.txrecs →
      l.foldlM (minedStep c addrs) acc = some r → x ∈ r.1.txrecs := by
    intro l
    induction l with
    | nil => intro acc _ hxa hr; simp [List.foldlM] at hr; rw [← hr]; exact hxa
    | cons a l ih =>
      intro acc hi hxa hr
      simp only [List.foldlM_cons, bind, Option.bind] at hr
      cases hstep : minedStep c addrs acc a with
      | none => simp [hstep] at hr
      | some acc' =>
        simp only [hstep] at hr
        refine ih acc' (minedStep_inv c s addrs acc acc' a hi hstep) ?_ hr
        rcases minedStep_cases c addrs acc acc' a hstep with rfl | ⟨rec, tx, hrm, _, _, htx, hrem, rfl⟩
        · exact hxa
        · apply mem_erase_of_ne _ _ _ hxa
          intro heq
          have : x = rec := hfun x rec hx (hi.sub rec hrm) heq
          subst this
          rw [removable_congr c.own s acc.1 addrs tx hi.credits hi.pendCred, hneeded tx htx] at hrem
          cases hrem
  exact key hOf (s, []) ⟨rfl, rfl, fun y hy => hy⟩ hx h

/-- every (height, id) pair removeMinedTxs reports belongs to a tx record of the starting store, at that height,
    whose transaction it found removable -/
theorem minedTxs_reported (c : Ctx) (s : Store) (addrs : List Addr) (hOf : AMap.T TxId Nat)
    (r : Store × List (Nat × TxId)) (h : removeMinedTxs c s addrs hOf = some r) :
    ∀ d ∈ r.2, ∃ rec tx, rec ∈ s.txrecs ∧ rec.1.1 = d.2 ∧ rec.1.2.height = d.1 ∧
      c.node.txByFileLoc rec.2 = some tx ∧ removable c.own s addrs tx = true := by
  unfold removeMinedTxs at h
  have key : ∀ (l : AMap.T TxId Nat) (acc : Store × List (Nat × TxId)), MinedInv s acc →
      (∀ d ∈ acc.2, ∃ rec tx, rec ∈ s.txrecs ∧ rec.1.1 = d.2 ∧ rec.1.2.height = d.1 ∧
        c.node.txByFileLoc rec.2 = some tx ∧ removable c.own s addrs tx = true) →
      l.foldlM (minedStep c addrs) acc = some r →
      ∀ d ∈ r.2, ∃ rec tx, rec ∈ s.txrecs ∧ rec.1.1 = d.2 ∧ rec.1.2.height = d.1 ∧
        c.node.txByFileLoc rec.2 = some tx ∧ removable c.own s addrs tx = true := by
    intro l
    induction l with
    | nil => intro acc _ hacc hr; simp [List.foldlM] at hr; rw [← hr]; exact hacc
    | cons a l ih =>
      intro acc hi hacc hr
      simp only [List.foldlM_cons, bind, Option.bind] at hr
      cases hstep : minedStep c addrs acc a with
      | none => simp [hstep] at hr
      | some acc' =>
        simp only [hstep] at hr
        refine ih acc' (minedStep_inv c s addrs acc acc' a hi hstep) ?_ hr
        rcases minedStep_cases c addrs acc acc' a hstep with rfl | ⟨rec, tx, hrm, hid, hh, htx, hrem, rfl⟩
        · exact hacc
        · intro d hd
          rcases List.mem_append.1 hd with hd | hd
          · exact hacc d hd
          · simp only [List.mem_singleton] at hd
            subst hd
            refine ⟨rec, tx, hi.sub rec hrm, hid, rfl, htx, ?_⟩
            rw [← removable_congr c.own s acc.1 addrs tx hi.credits hi.pendCred]; exact hrem
  exact key hOf (s, []) ⟨rfl, rfl, fun y hy => hy⟩ (by intro d hd; cases hd) h

/-- checkBlockRecords keeps every block-record entry whose (height, id) pair was not reported deleted -/
theorem blockRecords_kept (s : Store) (deleted : List (Nat × TxId)) (h : Nat) (bh : BlkId) (txs : List TxId) (t : TxId)
    (hg : AMap.get s.blocks h = some (bh, txs)) (ht : t ∈ txs) (hnd : (h, t) ∉ deleted) :
    ∃ txs', AMap.get (checkBlockRecords s deleted).blocks h = some (bh, txs') ∧ t ∈ txs' := by
  unfold checkBlockRecords
  have key : ∀ (l : List Nat) (s : Store), (∃ txs', AMap.get s.blocks h = some (bh, txs') ∧ t ∈ txs') →
      ∃ txs', AMap.get (l.foldl (blockStep deleted) s).blocks h = some (bh, txs') ∧ t ∈ txs' := by
    intro l
    induction l with
    | nil => intro s hs; exact hs
    | cons a l ih =>
      intro s hs
      refine ih _ ?_
      obtain ⟨txs', hg', ht'⟩ := hs
      unfold blockStep
      by_cases hah : a = h
      · subst hah
        rw [hg']
        have hk : t ∈ txs'.filter (fun t => !deleted.contains (a, t)) := by
          refine List.mem_filter.2 ⟨ht', ?_⟩
          simp only [Bool.not_eq_true', List.contains_eq_mem, decide_eq_false_iff_not]
          exact hnd
        have hne : (txs'.filter (fun t => !deleted.contains (a, t))).isEmpty = false := by
          cases hfl : txs'.filter (fun t => !deleted.contains (a, t)) with
          | nil => rw [hfl] at hk; cases hk
          | cons _ _ => rfl
        simp only [hne, Bool.false_eq_true, if_false]
        exact ⟨_, by rw [AMap.get_put]; simp, hk⟩
      · cases hga : AMap.get s.blocks a with
        | none => exact ⟨txs', hg', ht'⟩
        | some v =>
          obtain ⟨bh', txs''⟩ := v
          dsimp only
          split
          · exact ⟨txs', by rw [AMap.get_erase]; simp [hah, hg'], ht'⟩
          · exact ⟨txs', by rw [AMap.get_put]; simp [hah, hg'], ht'⟩
  exact key _ s ⟨txs, hg, ht⟩


-- ------------------------------------------------------------------ "needed by another wallet" is stable

theorem get_filter_of_get {K V : Type} [DecidableEq K] (m : AMap.T K V) (p : K × V → Bool) (k : K) (v : V)
    (h : AMap.get m k = some v) (hp : p (k, v) = true) : AMap.get (m.filter p) k = some v := by
  induction m with
  | nil => simp [AMap.get] at h
  | cons a m ih =>
    rw [AMap.get_cons] at h
    by_cases hak : a.1 = k
    · simp only [hak, if_true, Option.some.injEq] at h
      have : a = (k, v) := by cases a; simp_all
      subst this
      simp only [List.filter, hp]
      rw [AMap.get_cons]; simp
    · simp only [hak, if_false] at h
      simp only [List.filter]
      split
      · rw [AMap.get_cons]; simp [hak, ih h]
      · exact ih h

/-- if an input spends another wallet's credit in `s`, it still does in any store that keeps the credits and
    unmined credits of other script hashes -/
theorem spends_mono (s s' : Store) (addrs : List Addr) (tx : Tx)
    (hc : ∀ x ∈ s.credits, addrs.contains x.2.sh = false → x ∈ s'.credits)
    (hp : ∀ k v, AMap.get s.pendCred k = some v → addrs.contains v.sh = false → AMap.get s'.pendCred k = some v)
    (h : spendsCreditOfOtherWallet s addrs tx = true) : spendsCreditOfOtherWallet s' addrs tx = true := by
  unfold spendsCreditOfOtherWallet at h ⊢
  simp only [Bool.and_eq_true, Bool.not_eq_true', List.any_eq_true, Bool.or_eq_true] at h ⊢
  obtain ⟨hcb, i, hi, hor⟩ := h
  refine ⟨hcb, i, hi, ?_⟩
  rcases hor with ⟨x, hx, hcond⟩ | hpc
  · left
    exact ⟨x, hc x hx hcond.2, hcond⟩
  · right
    cases hg : AMap.get s.pendCred (i.tx, i.idx) with
    | none => simp [hg] at hpc
    | some v =>
      simp only [hg, Bool.not_eq_true'] at hpc
      rw [hp _ v hg hpc]
      simpa using hpc

theorem removable_mono (own : Own) (s s' : Store) (addrs : List Addr) (tx : Tx)
    (hc : ∀ x ∈ s.credits, addrs.contains x.2.sh = false → x ∈ s'.credits)
    (hp : ∀ k v, AMap.get s.pendCred k = some v → addrs.contains v.sh = false → AMap.get s'.pendCred k = some v)
    (h : removable own s addrs tx = false) : removable own s' addrs tx = false := by
  unfold removable at h ⊢
  simp only [Bool.and_eq_false_iff, Bool.not_eq_false'] at h ⊢
  rcases h with h | h
  · exact Or.inl h
  · exact Or.inr (spends_mono s s' addrs tx hc hp h)


-- ------------------------------------------------------------------ pending transactions

theorem unminedStep_cases (own : Own) (addrs : List Addr) (acc : Store × List TxId) (h : TxId) :
    unminedStep own addrs acc h = acc ∨ ∃ tx, AMap.get acc.1.pending h = some tx ∧ removable own acc.1 addrs tx = true ∧
      unminedStep own addrs acc h =
        ({ removeUnminedInputsOf acc.1 tx with pending := AMap.erase acc.1.pending h }, acc.2 ++ [h]) := by
  unfold unminedStep
  split
  · exact Or.inl rfl
  · rename_i tx htx
    split
    · rename_i hrem; exact Or.inr ⟨tx, htx, hrem, rfl⟩
    · exact Or.inl rfl

theorem get_of_mem_functional {K V : Type} [DecidableEq K] (m : AMap.T K V) (hf : Functional m) (e : K × V) (he : e ∈ m) :
    AMap.get m e.1 = some e.2 := by
  induction m with
  | nil => cases he
  | cons a m ih =>
    rw [AMap.get_cons]
    by_cases hak : a.1 = e.1
    · have : a = e := hf a e (List.mem_cons_self ..) he hak
      subst this; simp
    · simp only [hak, if_false]
      rcases List.mem_cons.1 he with rfl | he'
      · exact absurd rfl hak
      · exact ih (fun x y hx hy => hf x y (List.mem_cons_of_mem _ hx) (List.mem_cons_of_mem _ hy)) he'

/-- a pending transaction that is not removable survives the unmined half of RemoveRelevantTx -/
theorem unminedTxs_kept (own : Own) (s : Store) (addrs : List Addr) (hs : List TxId) (hfun : Functional s.pending)
    (x : TxId × Tx) (hx : x ∈ s.pending) (hneeded : removable own s addrs x.2 = false) :
    x ∈ (removeUnminedTxs own s addrs hs).1.pending := by
  unfold removeUnminedTxs
  have key : ∀ (l : List TxId) (acc : Store × List TxId), acc.1.credits = s.credits → acc.1.pendCred = s.pendCred →
      (∀ y ∈ acc.1.pending, y ∈ s.pending) → x ∈ acc.1.pending →
      x ∈ (l.foldl (unminedStep own addrs) acc).1.pending := by
    intro l
    induction l with
    | nil => intro acc _ _ _ hxa; exact hxa
    | cons a l ih =>
      intro acc hc hp hsub hxa
      simp only [List.foldl_cons]
      rcases unminedStep_cases own addrs acc a with h | ⟨tx, hg, hrem, h⟩ <;> rw [h]
      · exact ih acc hc hp hsub hxa
      · refine ih _ ((removeUnminedInputsOf_proj Store.credits (fun _ _ => rfl) acc.1 tx).trans hc)
          ((removeUnminedInputsOf_proj Store.pendCred (fun _ _ => rfl) acc.1 tx).trans hp)
          (fun y hy => hsub y (erase_subset _ _ _ hy)) ?_
        apply mem_erase_of_ne _ _ _ hxa
        intro heq
        have hfa : Functional acc.1.pending := fun e e' he he' => hfun e e' (hsub e he) (hsub e' he')
        have := get_of_mem_functional acc.1.pending hfa x hxa
        rw [heq, hg] at this
        cases this
        rw [removable_congr own s acc.1 addrs x.2 hc hp, hneeded] at hrem
        cases hrem
  exact key hs (s, []) rfl rfl (fun y hy => hy) hx

end MW.Lemmas.RemoveFrame
