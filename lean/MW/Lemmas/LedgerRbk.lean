/-
  Rollback, micro level (C01 goal 2): the loop bodies of `TxStore.Rollback` against the books.
    rollbackIn        un-spends one input            = inverse of `spendB`
    rollbackOut       removes one output              = `uncreateB`
    rollbackCbOut     removes one coinbase output     = `uncreateB` (no deposit record: see the note there)
  The loop versions are in LedgerRbk2.lean.
-/
import MW.Lemmas.LedgerUndo
namespace MW.Lemmas.Ledger
open MW MW.Model.Ledger MW.Spec.Chain MW.Spec.Books

-- ------------------------------------------------------------------ small facts

theorem uclassOf_binding_iff (c : Cls) : uclassOf c = .binding ↔ c.isBinding = true := by
  cases c <;> simp [uclassOf, Cls.isStaking, Cls.isBinding]

theorem uclassOf_deposit_iff (c : Cls) :
    (uclassOf c = .staking ∨ uclassOf c = .binding) ↔ isDeposit c = true := by
  cases c <;> simp [uclassOf, isDeposit, Cls.isStaking, Cls.isBinding]

theorem decide_uclassOf_binding (c : Cls) : decide (uclassOf c = .binding) = c.isBinding := by
  cases c <;> rfl

theorem decide_uclassOf_deposit (c : Cls) :
    (decide (uclassOf c = .staking) || decide (uclassOf c = .binding)) = isDeposit c := by
  cases c <;> rfl

theorem decide_uclassOf_deposit' (c : Cls) :
    (decide (uclassOf c = .staking) || c.isBinding) = isDeposit c := by
  cases c <;> rfl

theorem isDeposit_comm (c : Cls) : (c.isStaking || c.isBinding) = isDeposit c := by
  unfold isDeposit; exact Bool.or_comm _ _

theorem ownerOf_some {own : Own} {o : Out} {w : Wid} {ch : Bool} (h : ownerOf own o = some (w, ch)) :
    o.cls ≠ .raw ∧ AMap.get own o.addr = some (w, ch) := by
  unfold ownerOf at h
  by_cases hr : o.cls = .raw
  · simp [hr] at h
  · simp only [hr, if_false] at h; exact ⟨hr, h⟩

theorem AgreeBal.congrL {ready : List Wid} {bals : Bals} {B B' : Book} (h : AgreeBal ready bals B)
    (e : BookEq B B') : AgreeBal ready bals B' := by
  intro w hw; rw [← e.L]; exact h w hw

theorem getBal_of_agree {ready : List Wid} {bals : Bals} {B : Book} (h : AgreeBal ready bals B) {w : Wid}
    (hw : ready.contains w = true) : getBal bals w = totalU B.L w := by
  unfold getBal; rw [h w hw]; rfl

-- ------------------------------------------------------------------ rollbackIn ⊑ inverse of spendB

/-- the result of `rollbackIn` when input `cur` had spent the ledger coin `u` -/
def rollbackInApply (p : Params) (id : TxId) (blk : BlockMeta) (sb : Store × Bals) (cur : Nat) (i : Inp)
    (u : UCoin) : Store × Bals :=
  ({ sb.1 with
      pendIns := putPendIn sb.1.pendIns (i.tx, i.idx) id,
      debits := AMap.erase sb.1.debits ⟨id, blk, cur⟩,
      credits := AMap.put sb.1.credits u.credKey (creditOf p u),
      unspent := AMap.put sb.1.unspent (u.wallet, i.tx, i.idx) u.blk,
      game := if isDeposit u.out.cls then
                AMap.put (AMap.erase sb.1.game ⟨u.wallet, u.out.cls.isBinding, true, i.tx, u.blk.height, i.idx⟩)
                  ⟨u.wallet, u.out.cls.isBinding, false, i.tx, u.blk.height, i.idx⟩ ()
              else sb.1.game },
   AMap.put sb.2 u.wallet (getBal sb.2 u.wallet + u.out.amt))

theorem rollbackIn_hit {c : Ctx} {id : TxId} {blk : BlockMeta} {s : Store} {bals : Bals} {k : Nat} {i : Inp}
    {u : UCoin}
    (hdeb : AMap.get s.debits ⟨id, blk, k⟩ = some (u.out.amt, u.credKey))
    (hcred : AMap.get s.credits u.credKey =
      some { creditOf c.p u with spent := true, spentBy := some ⟨id, blk, k⟩ })
    (hown : AMap.get c.own u.out.addr = some (u.wallet, u.change))
    (hgame : isDeposit u.out.cls = true →
      AMap.get s.game ⟨u.wallet, u.out.cls.isBinding, true, i.tx, u.blk.height, i.idx⟩ = some ()) :
    rollbackIn c id blk (s, bals) k i = .ok (rollbackInApply c.p id blk (s, bals) k i u) := by
  unfold rollbackIn rollbackInApply
  simp only [hdeb, hcred]
  have hsh : (creditOf c.p u).sh = u.out.addr := rfl
  have hcls : (creditOf c.p u).cls = uclassOf u.out.cls := rfl
  have hblk : u.credKey.blk = u.blk := rfl
  by_cases hd : isDeposit u.out.cls = true
  · simp only [hsh, hown, hcls, hblk, decide_uclassOf_binding, decide_uclassOf_deposit', hd, if_true, hgame hd,
      Option.isNone_some]
    rfl
  · simp only [hsh, hown, hcls, hblk, decide_uclassOf_binding, decide_uclassOf_deposit', hd]
    rfl

theorem rollbackIn_miss {c : Ctx} {id : TxId} {blk : BlockMeta} {s : Store} {bals : Bals} {k : Nat} {i : Inp}
    (hdeb : AMap.get s.debits ⟨id, blk, k⟩ = none) :
    rollbackIn c id blk (s, bals) k i =
      .ok ({ s with pendIns := putPendIn s.pendIns (i.tx, i.idx) id }, bals) := by
  unfold rollbackIn
  simp only [hdeb]
  rfl

/-- un-spending input `k` of `t` is the inverse of `spendB` -/
theorem rollbackIn_refines {c : Ctx} {ready : List Wid} (hAR : AllReady c.own ready)
    {s : Store} {bals : Bals} {t : Tx} {bm : BlockMeta} {k : Nat} {i : Inp} {X : Book}
    (hL : Loc c.p c.own X) (hG : LocG X) (hW : LocW X)
    (hfd : X.debits ⟨t.id, bm, k⟩ = none)
    (hR : AgreeR s (spendB c.p t bm X k i)) (hB : AgreeBal ready bals (spendB c.p t bm X k i)) :
    ∃ sb', rollbackIn c t.id bm (s, bals) k i = .ok sb' ∧ AgreeR sb'.1 X ∧ AgreeBal ready sb'.2 X ∧
      SameRest s sb'.1 := by
  cases hu : lookupU X.L i.tx i.idx with
  | none =>
    rw [spendB_miss hu] at hR hB
    refine ⟨_, rollbackIn_miss (by rw [hR.debits]; exact hfd), ?_, hB, ⟨rfl, rfl, rfl, rfl, rfl⟩⟩
    exact ⟨hR.unspent, hR.credits, hR.debits, hR.game, hR.txrecs⟩
  | some u =>
    obtain ⟨hmem, htx, hidx⟩ := lookupU_some hu
    have hB' : spendB c.p t bm X k i =
        { X with
          L := X.L.filter (fun u' => !UCoin.at i.tx i.idx u'),
          credits := upd X.credits u.credKey (some { creditOf c.p u with spent := true, spentBy := some ⟨t.id, bm, k⟩ }),
          debits := upd X.debits ⟨t.id, bm, k⟩ (some (u.out.amt, u.credKey)),
          game := if isDeposit u.out.cls then upd (upd X.game (u.gameKey false) none) (u.gameKey true) (some ())
                  else X.game } := by
      unfold spendB; rw [hu]
    rw [hB'] at hR hB
    have hgk : (⟨u.wallet, u.out.cls.isBinding, false, i.tx, u.blk.height, i.idx⟩ : GameKey) = u.gameKey false := by
      unfold UCoin.gameKey; rw [htx, hidx]
    have hgk' : (⟨u.wallet, u.out.cls.isBinding, true, i.tx, u.blk.height, i.idx⟩ : GameKey) = u.gameKey true := by
      unfold UCoin.gameKey; rw [htx, hidx]
    have hown := (ownerOf_some (hL.own u hmem)).2
    have hready : ready.contains u.wallet = true := ready_of_owner hAR (hL.own u hmem)
    have hdeb : AMap.get s.debits ⟨t.id, bm, k⟩ = some (u.out.amt, u.credKey) := by
      rw [hR.debits]; simp only [upd_apply, if_true]
    have hcred : AMap.get s.credits u.credKey =
        some { creditOf c.p u with spent := true, spentBy := some ⟨t.id, bm, k⟩ } := by
      rw [hR.credits]; simp only [upd_apply, if_true]
    have hgame : isDeposit u.out.cls = true →
        AMap.get s.game ⟨u.wallet, u.out.cls.isBinding, true, i.tx, u.blk.height, i.idx⟩ = some () := by
      intro hd
      rw [hgk', hR.game]; simp only [hd, if_true, upd_apply]
    refine ⟨_, rollbackIn_hit hdeb hcred hown hgame, ?_, ?_, ⟨rfl, rfl, rfl, rfl, rfl⟩⟩
    · constructor
      · intro w tx idx
        simp only [rollbackInApply]
        rw [AMap.get_put, hR.unspent, lookupU_filter]
        by_cases hk : i.tx = tx ∧ i.idx = idx
        · obtain ⟨rfl, rfl⟩ := hk
          rw [hu]
          by_cases hw : u.wallet = w
          · simp [hw, Option.filter]
          · have : ¬ ((u.wallet, i.tx, i.idx) = (w, i.tx, i.idx)) := by
              intro h; injection h with h _; exact hw h
            simp [this, hw, Option.filter]
        · have : ¬ ((u.wallet, i.tx, i.idx) = (w, tx, idx)) := by
            intro h; injection h with _ h; injection h with ha hb; exact hk ⟨ha, hb⟩
          simp [this, hk]
      · intro ck
        simp only [rollbackInApply]
        rw [AMap.get_put, hR.credits]
        by_cases he : u.credKey = ck
        · subst he; simp only [if_true]; exact (hL.cred u hmem).symm
        · simp only [he, if_false, upd_apply]
      · intro dk
        simp only [rollbackInApply]
        rw [AMap.get_erase, hR.debits]
        by_cases he : (⟨t.id, bm, k⟩ : CredKey) = dk
        · subst he; simp only [if_true]; exact hfd.symm
        · simp only [he, if_false, upd_apply]
      · intro gk
        simp only [rollbackInApply]
        by_cases hd : isDeposit u.out.cls = true
        · simp only [hd, if_true]
          rw [AMap.get_put, AMap.get_erase, hgk, hgk', hR.game]
          simp only [hd, if_true, upd_apply]
          by_cases h1 : u.gameKey false = gk
          · subst h1; simp only [if_true]; exact (hG u hmem hd).symm
          · by_cases h2 : u.gameKey true = gk
            · subst h2; simp only [h1, if_false, if_true]; exact (hW u hmem).symm
            · simp only [h1, h2, if_false]
        · simp only [hd, Bool.false_eq_true, if_false]
          rw [hR.game]; simp only [hd, Bool.false_eq_true, if_false]
      · intro x; simp only [rollbackInApply]; exact hR.txrecs x
    · intro w hw
      simp only [rollbackInApply]
      rw [AMap.get_put]
      have hrem := totalU_remove hL.keys hmem
      rw [htx, hidx] at hrem
      have hle : u.out.amt ≤ totalU X.L u.wallet := amt_le_totalU hmem
      by_cases hw' : u.wallet = w
      · simp only [hw', if_true]
        have h3 := getBal_of_agree hB hready
        simp only at h3
        rw [hrem u.wallet] at h3
        simp only [if_true] at h3
        rw [← hw', h3]
        congr 1; omega
      · simp only [hw', if_false]
        rw [hB w hw]
        simp only
        rw [hrem w]; simp [hw']

end MW.Lemmas.Ledger
