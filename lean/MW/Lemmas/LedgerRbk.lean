/-
  Rollback, micro level (C01 goal 2): the loop bodies of `TxStore.Rollback` against the books.
    rollbackIn        un-spends one input            = inverse of `spendB`
    rollbackOut       removes one output              = `uncreateB`
    rollbackCbOut     removes one coinbase output     = `uncreateB`
  The loop versions are in LedgerRbk2.lean.
-/
import MW.Lemmas.LedgerUndo
namespace MW.Lemmas.Ledger
open MW MW.Model.Ledger MW.Spec.Chain MW.Spec.Books

-- ------------------------------------------------------------------ small facts

theorem uclassOf_binding_iff (c : Cls) : uclassOf c = .binding ↔ c.isBinding = true := by
  cases c <;> simp [uclassOf, Cls.isStaking, Cls.isBinding]

theorem uclassOf_deposit_iff (c : Cls) :
    (uclassOf c = .staking ∨ uclassOf c = .binding) ↔ isDeposit c = true := by
  cases c <;> simp [uclassOf, isDeposit, Cls.isStaking, Cls.isBinding]

theorem decide_uclassOf_binding (c : Cls) : decide (uclassOf c = .binding) = c.isBinding := by
  cases c <;> rfl

theorem decide_uclassOf_deposit (c : Cls) :
    (decide (uclassOf c = .staking) || decide (uclassOf c = .binding)) = isDeposit c := by
  cases c <;> rfl

theorem decide_uclassOf_deposit' (c : Cls) :
    (decide (uclassOf c = .staking) || c.isBinding) = isDeposit c := by
  cases c <;> rfl

theorem isDeposit_comm (c : Cls) : (c.isStaking || c.isBinding) = isDeposit c := by
  unfold isDeposit; exact Bool.or_comm _ _

theorem ownerOf_some {own : Own} {o : Out} {w : Wid} {ch : Bool} (h : ownerOf own o = some (w, ch)) :
    o.cls ≠ .raw ∧ AMap.get own o.addr = some (w, ch) := by
  unfold ownerOf at h
  by_cases hr : o.cls = .raw
  · simp [hr] at h
  · simp only [hr, if_false] at h; exact ⟨hr, h⟩

theorem AgreeBal.congrL {ready : List Wid} {bals : Bals} {B B' : Book} (h : AgreeBal ready bals B)
    (e : BookEq B B') : AgreeBal ready bals B' := by
  intro w hw; rw [← e.L]; exact h w hw

theorem getBal_of_agree {ready : List Wid} {bals : Bals} {B : Book} (h : AgreeBal ready bals B) {w : Wid}
    (hw : ready.contains w = true) : getBal bals w = totalU B.L w := by
  unfold getBal; rw [h w hw]; rfl

-- ------------------------------------------------------------------ rollbackIn ⊑ inverse of spendB

/-- the result of `rollbackIn` when input `cur` had spent the ledger coin `u` -/
def rollbackInApply (p : Params) (id : TxId) (blk : BlockMeta) (sb : Store × Bals) (cur : Nat) (i : Inp)
    (u : UCoin) : Store × Bals :=
  ({ sb.1 with
      pendIns := putPendIn sb.1.pendIns (i.tx, i.idx) id,
      debits := AMap.erase sb.1.debits ⟨id, blk, cur⟩,
      credits := AMap.put sb.1.credits u.credKey (creditOf p u),
      unspent := AMap.put sb.1.unspent (u.wallet, i.tx, i.idx) u.blk,
      game := if isDeposit u.out.cls then
                AMap.put (AMap.erase sb.1.game ⟨u.wallet, u.out.cls.isBinding, true, i.tx, u.blk.height, i.idx⟩)
                  ⟨u.wallet, u.out.cls.isBinding, false, i.tx, u.blk.height, i.idx⟩ ()
              else sb.1.game },
   AMap.put sb.2 u.wallet (getBal sb.2 u.wallet + u.out.amt))

theorem rollbackIn_hit {c : Ctx} {id : TxId} {blk : BlockMeta} {s : Store} {bals : Bals} {k : Nat} {i : Inp}
    {u : UCoin}
    (hdeb : AMap.get s.debits ⟨id, blk, k⟩ = some (u.out.amt, u.credKey))
    (hcred : AMap.get s.credits u.credKey =
      some { creditOf c.p u with spent := true, spentBy := some ⟨id, blk, k⟩ })
    (hown : AMap.get c.own u.out.addr = some (u.wallet, u.change))
    (hgame : isDeposit u.out.cls = true →
      AMap.get s.game ⟨u.wallet, u.out.cls.isBinding, true, i.tx, u.blk.height, i.idx⟩ = some ()) :
    rollbackIn c id blk (s, bals) k i = .ok (rollbackInApply c.p id blk (s, bals) k i u) := by
  unfold rollbackIn rollbackInApply
  simp only [hdeb, hcred]
  have hsh : (creditOf c.p u).sh = u.out.addr := rfl
  have hcls : (creditOf c.p u).cls = uclassOf u.out.cls := rfl
  have hblk : u.credKey.blk = u.blk := rfl
  by_cases hd : isDeposit u.out.cls = true
  · simp only [hsh, hown, hcls, hblk, decide_uclassOf_binding, decide_uclassOf_deposit', hd, if_true, hgame hd,
      Option.isNone_some]
    rfl
  · simp only [hsh, hown, hcls, hblk, decide_uclassOf_binding, decide_uclassOf_deposit', hd]
    rfl

theorem rollbackIn_miss {c : Ctx} {id : TxId} {blk : BlockMeta} {s : Store} {bals : Bals} {k : Nat} {i : Inp}
    (hdeb : AMap.get s.debits ⟨id, blk, k⟩ = none) :
    rollbackIn c id blk (s, bals) k i =
      .ok ({ s with pendIns := putPendIn s.pendIns (i.tx, i.idx) id }, bals) := by
  unfold rollbackIn
  simp only [hdeb]
  rfl

/-- un-spending input `k` of `t` is the inverse of `spendB` -/
theorem rollbackIn_refines {c : Ctx} {ready : List Wid} (hAR : AllReady c.own ready)
    {s : Store} {bals : Bals} {t : Tx} {bm : BlockMeta} {k : Nat} {i : Inp} {X : Book}
    (hL : Loc c.p c.own X) (hG : LocG X) (hW : LocW X)
    (hfd : X.debits ⟨t.id, bm, k⟩ = none)
    (hR : AgreeR s (spendB c.p t bm X k i)) (hB : AgreeBal ready bals (spendB c.p t bm X k i)) :
    ∃ sb', rollbackIn c t.id bm (s, bals) k i = .ok sb' ∧ AgreeR sb'.1 X ∧ AgreeBal ready sb'.2 X ∧
      SameRest s sb'.1 := by
  cases hu : lookupU X.L i.tx i.idx with
  | none =>
    rw [spendB_miss hu] at hR hB
    refine ⟨_, rollbackIn_miss (by rw [hR.debits]; exact hfd), ?_, hB, ⟨rfl, rfl, rfl, rfl, rfl⟩⟩
    exact ⟨hR.unspent, hR.credits, hR.debits, hR.game, hR.txrecs⟩
  | some u =>
    obtain ⟨hmem, htx, hidx⟩ := lookupU_some hu
    have hB' : spendB c.p t bm X k i =
        { X with
          L := X.L.filter (fun u' => !UCoin.at i.tx i.idx u'),
          credits := upd X.credits u.credKey (some { creditOf c.p u with spent := true, spentBy := some ⟨t.id, bm, k⟩ }),
          debits := upd X.debits ⟨t.id, bm, k⟩ (some (u.out.amt, u.credKey)),
          game := if isDeposit u.out.cls then upd (upd X.game (u.gameKey false) none) (u.gameKey true) (some ())
                  else X.game } := by
      unfold spendB; rw [hu]
    rw [hB'] at hR hB
    have hgk : (⟨u.wallet, u.out.cls.isBinding, false, i.tx, u.blk.height, i.idx⟩ : GameKey) = u.gameKey false := by
      unfold UCoin.gameKey; rw [htx, hidx]
    have hgk' : (⟨u.wallet, u.out.cls.isBinding, true, i.tx, u.blk.height, i.idx⟩ : GameKey) = u.gameKey true := by
      unfold UCoin.gameKey; rw [htx, hidx]
    have hown := (ownerOf_some (hL.own u hmem)).2
    have hready : ready.contains u.wallet = true := ready_of_owner hAR (hL.own u hmem)
    have hdeb : AMap.get s.debits ⟨t.id, bm, k⟩ = some (u.out.amt, u.credKey) := by
      rw [hR.debits]; simp only [upd_apply, if_true]
    have hcred : AMap.get s.credits u.credKey =
        some { creditOf c.p u with spent := true, spentBy := some ⟨t.id, bm, k⟩ } := by
      rw [hR.credits]; simp only [upd_apply, if_true]
    have hgame : isDeposit u.out.cls = true →
        AMap.get s.game ⟨u.wallet, u.out.cls.isBinding, true, i.tx, u.blk.height, i.idx⟩ = some () := by
      intro hd
      rw [hgk', hR.game]; simp only [hd, if_true, upd_apply]
    refine ⟨_, rollbackIn_hit hdeb hcred hown hgame, ?_, ?_, ⟨rfl, rfl, rfl, rfl, rfl⟩⟩
    · constructor
      · intro w tx idx
        simp only [rollbackInApply]
        rw [AMap.get_put, hR.unspent, lookupU_filter]
        by_cases hk : i.tx = tx ∧ i.idx = idx
        · obtain ⟨rfl, rfl⟩ := hk
          rw [hu]
          by_cases hw : u.wallet = w
          · simp [hw, Option.filter]
          · have : ¬ ((u.wallet, i.tx, i.idx) = (w, i.tx, i.idx)) := by
              intro h; injection h with h _; exact hw h
            simp [this, hw, Option.filter]
        · have : ¬ ((u.wallet, i.tx, i.idx) = (w, tx, idx)) := by
            intro h; injection h with _ h; injection h with ha hb; exact hk ⟨ha, hb⟩
          simp [this, hk]
      · intro ck
        simp only [rollbackInApply]
        rw [AMap.get_put, hR.credits]
        by_cases he : u.credKey = ck
        · subst he; simp only [if_true]; exact (hL.cred u hmem).symm
        · simp only [he, if_false, upd_apply]
      · intro dk
        simp only [rollbackInApply]
        rw [AMap.get_erase, hR.debits]
        by_cases he : (⟨t.id, bm, k⟩ : CredKey) = dk
        · subst he; simp only [if_true]; exact hfd.symm
        · simp only [he, if_false, upd_apply]
      · intro gk
        simp only [rollbackInApply]
        by_cases hd : isDeposit u.out.cls = true
        · simp only [hd, if_true]
          rw [AMap.get_put, AMap.get_erase, hgk, hgk', hR.game]
          simp only [hd, if_true, upd_apply]
          by_cases h1 : u.gameKey false = gk
          · subst h1; simp only [if_true]; exact (hG u hmem hd).symm
          · by_cases h2 : u.gameKey true = gk
            · subst h2; simp only [h1, if_false, if_true]; exact (hW u hmem).symm
            · simp only [h1, h2, if_false]
        · simp only [hd, Bool.false_eq_true, if_false]
          rw [hR.game]; simp only [hd, Bool.false_eq_true, if_false]
      · intro x; simp only [rollbackInApply]; exact hR.txrecs x
    · intro w hw
      simp only [rollbackInApply]
      rw [AMap.get_put]
      have hrem := totalU_remove hL.keys hmem
      rw [htx, hidx] at hrem
      have hle : u.out.amt ≤ totalU X.L u.wallet := amt_le_totalU hmem
      by_cases hw' : u.wallet = w
      · simp only [hw', if_true]
        have h3 := getBal_of_agree hB hready
        simp only at h3
        rw [hrem u.wallet] at h3
        simp only [if_true] at h3
        rw [← hw', h3]
        congr 1; omega
      · simp only [hw', if_false]
        rw [hB w hw]
        simp only
        rw [hrem w]; simp [hw']

-- ------------------------------------------------------------------ rollbackOwnedOut

/-- `rollbackAddr` only touches the address records -/
theorem rollbackAddr_eq (s : Store) (w : Wid) (o : Out) (h : Nat) :
    ∃ a, rollbackAddr s w o h = { s with addrs := a } := by
  unfold rollbackAddr
  simp only
  cases AMap.get s.addrs (w, o.cls.isStaking, o.addr) with
  | none => exact ⟨s.addrs, rfl⟩
  | some h' =>
    simp only
    split
    · exact ⟨_, rfl⟩
    · exact ⟨s.addrs, rfl⟩

/-- dropping the unspent entry of the ledger coin `u` at outpoint (id, j): the coin leaves the ledger list,
    every other table of the books stays -/
theorem rollbackOwnedOut_refines {ready : List Wid} {s : Store} {bals : Bals} {Y : Book} {id : TxId}
    {bm : BlockMeta} {j : Nat} {o : Out} {w : Wid} {u : UCoin}
    (hK : KeysOK Y.L) (hR : AgreeR s Y) (hB : AgreeBal ready bals Y)
    (hu : lookupU Y.L id j = some u) (hw : u.wallet = w) (ho : u.out = o) (hready : ready.contains w = true) :
    ∃ sb', rollbackOwnedOut id bm (s, bals) j o w = .ok sb' ∧
      AgreeR sb'.1 { Y with L := Y.L.filter (fun u' => !UCoin.at id j u') } ∧
      AgreeBal ready sb'.2 { Y with L := Y.L.filter (fun u' => !UCoin.at id j u') } ∧
      SameRest s sb'.1 ∧ sb'.1.pendCred = s.pendCred ∧ sb'.1.pendGame = s.pendGame := by
  subst hw ho
  obtain ⟨hmem, htx, hidx⟩ := lookupU_some hu
  have h1 : AMap.get s.unspent (u.wallet, id, j) = some u.blk := by
    rw [hR.unspent, hu]; simp [Option.filter]
  have h3 : getBal bals u.wallet = totalU Y.L u.wallet := getBal_of_agree hB hready
  have h4 : u.out.amt ≤ totalU Y.L u.wallet := amt_le_totalU hmem
  have h5 : ¬ (getBal bals u.wallet < u.out.amt) := by rw [h3]; omega
  obtain ⟨a, ha⟩ := rollbackAddr_eq { s with unspent := AMap.erase s.unspent (u.wallet, id, j) } u.wallet u.out bm.height
  refine ⟨({ s with unspent := AMap.erase s.unspent (u.wallet, id, j), addrs := a },
      AMap.put bals u.wallet (getBal bals u.wallet - u.out.amt)), ?_, ?_, ?_, ⟨rfl, rfl, rfl, rfl, rfl⟩, rfl, rfl⟩
  · unfold rollbackOwnedOut
    simp only [h1, Option.isSome_some, if_true, h5, if_false, ha]
    rfl
  · constructor
    · intro w tx idx
      simp only
      rw [AMap.get_erase, lookupU_filter, hR.unspent]
      by_cases hk : id = tx ∧ j = idx
      · obtain ⟨rfl, rfl⟩ := hk
        by_cases hw : u.wallet = w
        · simp [hw]
        · have : ¬ ((u.wallet, id, j) = (w, id, j)) := by
            intro h; injection h with h _; exact hw h
          simp [this, hu, hw, Option.filter]
      · have : ¬ ((u.wallet, id, j) = (w, tx, idx)) := by
          intro h; injection h with _ h; injection h with ha hb; exact hk ⟨ha, hb⟩
        simp [this, hk]
    · exact hR.credits
    · exact hR.debits
    · exact hR.game
    · exact hR.txrecs
  · intro w hw
    simp only
    rw [AMap.get_put]
    have hrem := totalU_remove hK hmem w
    rw [htx, hidx] at hrem
    rw [hrem]
    by_cases hw' : u.wallet = w
    · simp only [hw', if_true]
      rw [← hw', h3]
    · simp only [hw', if_false]
      rw [hB w hw]; simp

-- ------------------------------------------------------------------ rollbackOut ⊑ uncreateB

/-- the store after the first two writes of the TxOut loop body (credit deleted, unmined credit written) -/
def rollbackOutPre (s : Store) (id : TxId) (blk : BlockMeta) (i : Nat) (cr : Credit) : Store :=
  { s with credits := AMap.erase s.credits ⟨id, blk, i⟩,
           pendCred := AMap.put s.pendCred (id, i) { cr with spentBy := none } }

theorem rollbackOut_miss {c : Ctx} {id : TxId} {blk : BlockMeta} {sb : Store × Bals} {i : Nat} {o : Out}
    (hc : AMap.get sb.1.credits ⟨id, blk, i⟩ = none) : rollbackOut c id blk sb i o = .ok sb := by
  unfold rollbackOut
  simp only [hc]
  rfl

theorem rollbackOut_owned {c : Ctx} {id : TxId} {blk : BlockMeta} {sb : Store × Bals} {i : Nat} {o : Out}
    {cr : Credit} {w : Wid} {ch : Bool}
    (hc : AMap.get sb.1.credits ⟨id, blk, i⟩ = some cr) (hr : o.cls ≠ .raw)
    (hg : AMap.get c.own o.addr = some (w, ch)) :
    rollbackOut c id blk sb i o =
      (rollbackOwnedOut id blk (rollbackOutPre sb.1 id blk i cr, sb.2) i o w >>= fun sb' =>
        if isDeposit o.cls then
          pure ({ sb'.1 with game := AMap.erase sb'.1.game ⟨w, o.cls.isBinding, false, id, blk.height, i⟩,
                             pendGame := AMap.put sb'.1.pendGame (w, o.cls.isBinding, id, i) () }, sb'.2)
        else pure sb') := by
  unfold rollbackOut rollbackOutPre
  simp only [hc, hr, hg, isDeposit_comm]
  rfl

/-- removing output `j` of a non-coinbase transaction -/
theorem rollbackOut_refines {c : Ctx} {ready : List Wid} (hAR : AllReady c.own ready)
    {s : Store} {bals : Bals} {t : Tx} {bm : BlockMeta} {j : Nat} {o : Out} {Y : Book}
    (hL : Loc c.p c.own Y) (hR : AgreeR s Y) (hB : AgreeBal ready bals Y)
    (hown : ∀ w ch, ownerOf c.own o = some (w, ch) →
      lookupU Y.L t.id j = some ⟨w, t.id, j, bm, t.cb, o, ch⟩ ∧
      (isDeposit o.cls = true → Y.game ⟨w, o.cls.isBinding, false, t.id, bm.height, j⟩ = some ()))
    (hnone : ownerOf c.own o = none → Y.credits ⟨t.id, bm, j⟩ = none) :
    ∃ sb', rollbackOut c t.id bm (s, bals) j o = .ok sb' ∧ AgreeR sb'.1 (uncreateB c.own t bm Y j o) ∧
      AgreeBal ready sb'.2 (uncreateB c.own t bm Y j o) ∧ SameRest s sb'.1 := by
  cases ho : ownerOf c.own o with
  | none =>
    have hY : uncreateB c.own t bm Y j o = Y := by unfold uncreateB; rw [ho]
    rw [hY]
    exact ⟨(s, bals), rollbackOut_miss (by rw [hR.credits]; exact hnone ho), hR, hB, SameRest.refl s⟩
  | some wc =>
    obtain ⟨w, ch⟩ := wc
    have hu := (hown w ch ho).1
    obtain ⟨hmem, -, -⟩ := lookupU_some hu
    obtain ⟨hraw, hget⟩ := ownerOf_some ho
    have hcred : AMap.get s.credits ⟨t.id, bm, j⟩ = some (creditOf c.p ⟨w, t.id, j, bm, t.cb, o, ch⟩) := by
      rw [hR.credits]; exact hL.cred _ hmem
    have hY : uncreateB c.own t bm Y j o =
        { Y with
          L := Y.L.filter (fun u => !UCoin.at t.id j u),
          credits := upd Y.credits ⟨t.id, bm, j⟩ none,
          game := if isDeposit o.cls then upd Y.game ⟨w, o.cls.isBinding, false, t.id, bm.height, j⟩ none
                  else Y.game } := by
      unfold uncreateB; rw [ho]
    have hR0 : AgreeR (rollbackOutPre s t.id bm j (creditOf c.p ⟨w, t.id, j, bm, t.cb, o, ch⟩))
        { Y with credits := upd Y.credits ⟨t.id, bm, j⟩ none } := by
      refine ⟨hR.unspent, ?_, hR.debits, hR.game, hR.txrecs⟩
      intro k
      simp only [rollbackOutPre]
      rw [AMap.get_erase, hR.credits]; rfl
    obtain ⟨sb1, h1, hR1, hB1, hS1, -, -⟩ :=
      rollbackOwnedOut_refines (bm := bm) (o := o) (w := w) (Y := { Y with credits := upd Y.credits ⟨t.id, bm, j⟩ none })
        hL.keys hR0 hB hu rfl rfl (ready_of_owner hAR ho)
    have hS1' : SameRest s sb1.1 := ⟨hS1.sync, hS1.syncedTo, hS1.status, hS1.balance, hS1.blocks⟩
    rw [hY, rollbackOut_owned (sb := (s, bals)) hcred hraw hget, h1, M_ok_bind]
    by_cases hd : isDeposit o.cls = true
    · simp only [hd, if_true]
      refine ⟨_, rfl, ?_, hB1, ⟨hS1'.sync, hS1'.syncedTo, hS1'.status, hS1'.balance, hS1'.blocks⟩⟩
      refine ⟨hR1.unspent, hR1.credits, hR1.debits, ?_, hR1.txrecs⟩
      intro k
      simp only
      rw [AMap.get_erase, hR1.game]; rfl
    · simp only [hd, Bool.false_eq_true, if_false]
      exact ⟨_, rfl, ⟨hR1.unspent, hR1.credits, hR1.debits, hR1.game, hR1.txrecs⟩, hB1, hS1'⟩

-- ------------------------------------------------------------------ rollbackCbOut ⊑ uncreateB

theorem rollbackCbOut_miss {c : Ctx} {id : TxId} {blk : BlockMeta} {acc : (Store × Bals) × List (TxId × Nat)}
    {i : Nat} {o : Out} (hc : AMap.get acc.1.1.credits ⟨id, blk, i⟩ = none) :
    rollbackCbOut c id blk acc i o = .ok acc := by
  unfold rollbackCbOut
  simp only [hc]
  rfl

/-- the coinbase TxOut loop body on an owned output: like the ordinary one (`rollbackOut_owned`), the deposit
    record of a staking / binding output goes with the credit; nothing is written to the pending tables -/
theorem rollbackCbOut_owned {c : Ctx} {id : TxId} {blk : BlockMeta} {acc : (Store × Bals) × List (TxId × Nat)}
    {i : Nat} {o : Out} {cr : Credit} {w : Wid} {ch : Bool}
    (hc : AMap.get acc.1.1.credits ⟨id, blk, i⟩ = some cr) (hr : o.cls ≠ .raw)
    (hg : AMap.get c.own o.addr = some (w, ch)) :
    rollbackCbOut c id blk acc i o =
      (rollbackOwnedOut id blk ({ acc.1.1 with credits := AMap.erase acc.1.1.credits ⟨id, blk, i⟩ }, acc.1.2) i o w
        >>= fun sb' =>
          if isDeposit o.cls then
            pure (({ sb'.1 with game := AMap.erase sb'.1.game ⟨w, o.cls.isBinding, false, id, blk.height, i⟩ }, sb'.2),
                  acc.2 ++ [(id, i)])
          else pure (sb', acc.2 ++ [(id, i)])) := by
  unfold rollbackCbOut
  simp only [hc, hr, hg, isDeposit_comm]
  rfl

/-- removing output `j` of a coinbase transaction: exactly `uncreateB`, as for an ordinary transaction
    (`rollbackOut_refines`) — ledger entry, credit and, for an owned staking / binding output, the deposit record -/
theorem rollbackCbOut_refines {c : Ctx} {ready : List Wid} (hAR : AllReady c.own ready)
    {s : Store} {bals : Bals} {acc : List (TxId × Nat)} {t : Tx} {bm : BlockMeta} {j : Nat} {o : Out} {Y : Book}
    (hL : Loc c.p c.own Y) (hR : AgreeR s Y) (hB : AgreeBal ready bals Y)
    (hown : ∀ w ch, ownerOf c.own o = some (w, ch) →
      lookupU Y.L t.id j = some ⟨w, t.id, j, bm, t.cb, o, ch⟩ ∧
      (isDeposit o.cls = true → Y.game ⟨w, o.cls.isBinding, false, t.id, bm.height, j⟩ = some ()))
    (hnone : ownerOf c.own o = none → Y.credits ⟨t.id, bm, j⟩ = none) :
    ∃ sb' acc', rollbackCbOut c t.id bm ((s, bals), acc) j o = .ok (sb', acc') ∧
      AgreeR sb'.1 (uncreateB c.own t bm Y j o) ∧ AgreeBal ready sb'.2 (uncreateB c.own t bm Y j o) ∧
      SameRest s sb'.1 := by
  cases ho : ownerOf c.own o with
  | none =>
    have hY : uncreateB c.own t bm Y j o = Y := by unfold uncreateB; rw [ho]
    rw [hY]
    exact ⟨(s, bals), acc, rollbackCbOut_miss (by rw [hR.credits]; exact hnone ho), hR, hB, SameRest.refl s⟩
  | some wc =>
    obtain ⟨w, ch⟩ := wc
    have hu := (hown w ch ho).1
    obtain ⟨hmem, -, -⟩ := lookupU_some hu
    obtain ⟨hraw, hget⟩ := ownerOf_some ho
    have hcred : AMap.get s.credits ⟨t.id, bm, j⟩ = some (creditOf c.p ⟨w, t.id, j, bm, t.cb, o, ch⟩) := by
      rw [hR.credits]; exact hL.cred _ hmem
    have hY : uncreateB c.own t bm Y j o =
        { Y with
          L := Y.L.filter (fun u => !UCoin.at t.id j u),
          credits := upd Y.credits ⟨t.id, bm, j⟩ none,
          game := if isDeposit o.cls then upd Y.game ⟨w, o.cls.isBinding, false, t.id, bm.height, j⟩ none
                  else Y.game } := by
      unfold uncreateB; rw [ho]
    have hR0 : AgreeR { s with credits := AMap.erase s.credits ⟨t.id, bm, j⟩ }
        { Y with credits := upd Y.credits ⟨t.id, bm, j⟩ none } := by
      refine ⟨hR.unspent, ?_, hR.debits, hR.game, hR.txrecs⟩
      intro k
      simp only
      rw [AMap.get_erase, hR.credits]; rfl
    obtain ⟨sb1, h1, hR1, hB1, hS1, -, -⟩ :=
      rollbackOwnedOut_refines (bm := bm) (o := o) (w := w) (Y := { Y with credits := upd Y.credits ⟨t.id, bm, j⟩ none })
        hL.keys hR0 hB hu rfl rfl (ready_of_owner hAR ho)
    have hS1' : SameRest s sb1.1 := ⟨hS1.sync, hS1.syncedTo, hS1.status, hS1.balance, hS1.blocks⟩
    rw [hY, rollbackCbOut_owned (acc := ((s, bals), acc)) hcred hraw hget, h1, M_ok_bind]
    by_cases hd : isDeposit o.cls = true
    · simp only [hd, if_true]
      refine ⟨_, _, rfl, ?_, hB1, ⟨hS1'.sync, hS1'.syncedTo, hS1'.status, hS1'.balance, hS1'.blocks⟩⟩
      refine ⟨hR1.unspent, hR1.credits, hR1.debits, ?_, hR1.txrecs⟩
      intro k
      simp only
      rw [AMap.get_erase, hR1.game]; rfl
    · simp only [hd, Bool.false_eq_true, if_false]
      exact ⟨_, _, rfl, ⟨hR1.unspent, hR1.credits, hR1.debits, hR1.game, hR1.txrecs⟩, hB1, hS1'⟩

end MW.Lemmas.Ledger
