/-
  A toy instance of the byte-level primitives: the laws of the refinement (`Laws`) and the independence assumption of the
  byte-level secrecy statement (`Indep`) are satisfiable together, and the create-wallet refinement applies to it.
  (Non-vacuity only: the toy boxes hide by construction – every atom's encoding starts with the byte 255 and no frame
  contains that byte.)
-/
import MW.Lemmas.KsRefineOps2
import MW.Lemmas.KsRefineSecrecy
namespace MW.KsRefine.Toy
open MW MW.Model.Secrets MW.Model.KsCodec MW.Model.KsBytes MW.KsCodecL MW.KsRefine

def encName (w : String) : Bytes := 87 :: w.toList.flatMap (fun c => leBytes 4 c.toNat)

def decChars : Bytes → List Char
  | a :: b :: c :: d :: r => Char.ofNat (ofLE [a, b, c, d]) :: decChars r
  | _ => []

def decName (b : Bytes) : String := String.ofList (decChars b.tail)

def secTag : Sec → UInt8
  | .entropy _ => 1 | .seed _ _ => 2 | .acctPriv _ _ => 3 | .addrPriv _ _ _ _ => 4 | .key _ => 5 | .pass _ => 6

def toy : BCrypto where
  atom s := [255, secTag s]
  salt n := List.replicate 32 (if n % 2 = 0 then 3 else 4)
  kdf _ _ := List.replicate 32 2
  sha _ := List.replicate 32 1
  box k p := 7 :: List.replicate 63 (if (k ++ p).length % 2 = 0 then 8 else 9)
  N := 16
  R := 8
  P := 1
  walletId := encName
  nameOf b := if encName (decName b) = b then some (decName b) else none

theorem char_lt (c : Char) : c.toNat < 256 ^ 4 := by
  have := c.valid
  simp only [UInt32.isValidChar, Nat.isValidChar] at this
  show c.val.toNat < _
  omega

theorem decChars_enc : ∀ cs : List Char, decChars (cs.flatMap (fun c => leBytes 4 c.toNat)) = cs
  | [] => rfl
  | c :: cs => by
    have h4 : leBytes 4 c.toNat = [UInt8.ofNat (c.toNat % 256), UInt8.ofNat (c.toNat / 256 % 256),
        UInt8.ofNat (c.toNat / 256 / 256 % 256), UInt8.ofNat (c.toNat / 256 / 256 / 256 % 256)] := rfl
    have hle : ofLE (leBytes 4 c.toNat) = c.toNat := ofLE_leBytes_of_lt (char_lt c)
    rw [h4] at hle
    simp only [List.flatMap_cons, h4, List.cons_append, List.nil_append, decChars, hle, Char.ofNat_toNat, decChars_enc cs]

theorem decName_enc (w : String) : decName (encName w) = w := by
  simp [decName, encName, decChars_enc, String.ofList_toList]

theorem toy_laws : Laws toy where
  salt_len n := by simp [toy]
  sha_len x := by simp [toy]
  cost := by decide
  box_ne k p := by simp [toy]
  id_ne w := by simp [toy, encName]
  name_id w := by simp [toy, decName_enc]
  id_name b w h := by
    simp only [toy] at h ⊢
    split at h
    · rename_i he; cases h; exact he
    · cases h

theorem toy_box_len (k p : Bytes) : (toy.box k p).length = 64 := by simp [toy]

/-- public values that contain no byte 255 -/
def Clean (ρ : PubVal) : Prop := ∀ K, (255 : UInt8) ∉ ρ K

theorem prim_clean (pv : Bytes) (hpv : (255 : UInt8) ∉ pv) : ∀ {bs : Bytes}, PrimB toy pv bs → (255 : UInt8) ∉ bs := by
  intro bs h
  induction h with
  | box k p =>
    simp only [toy, List.mem_cons, List.mem_replicate]
    split <;> decide
  | salt n =>
    simp only [toy, List.mem_replicate]
    split <;> decide
  | sha x => simp only [toy, List.mem_replicate]; decide
  | kdf _ _ _ _ => simp only [toy, List.mem_replicate]; decide
  | pubv => exact hpv

theorem le4_64 : leBytes 4 64 = [64, 0, 0, 0] := by decide
theorem le4_136 : leBytes 4 136 = [136, 0, 0, 0] := by decide

theorem frame_clean (pv : Bytes) (hpv : (255 : UInt8) ∉ pv) : ∀ {bs : Bytes}, Frame toy pv bs → (255 : UInt8) ∉ bs := by
  intro bs h
  cases h with
  | prim hp => exact prim_clean pv hpv hp
  | params x hp =>
    rename_i a
    have ha := prim_clean pv hpv hp
    by_cases hl : a.length = 32
    · have : (marshal ⟨a, toy.sha x, toy.N, toy.R, toy.P⟩).getD [] =
          a ++ (List.replicate 32 1 ++ ([16, 0, 0, 0, 0, 0, 0, 0] ++ ([8, 0, 0, 0, 0, 0, 0, 0] ++ [1, 0, 0, 0, 0, 0, 0, 0]))) := by
        simp [marshal, Params.vals, MW.Gen.KsCodec.snaclMarshal, encodeItems, encodeItem, hl, toy]
        decide
      rw [this]
      simp only [List.mem_append, List.mem_replicate, not_or]
      exact ⟨ha, by decide, by decide, by decide, by decide⟩
    · have : (marshal ⟨a, toy.sha x, toy.N, toy.R, toy.P⟩).getD [] = [] := by
        simp [marshal, Params.vals, MW.Gen.KsCodec.snaclMarshal, encodeItems, encodeItem, hl]
      rw [this]; simp
  | row k p k' p' =>
    obtain ⟨raw, hs, _, hraw⟩ := deserialize_serializeHDAccountKey (toy.box k p) (toy.box k' p')
      (by rw [toy_box_len, toy_box_len]; decide)
    subst hraw
    have hlen : (leBytes 4 (toy.box k p).length ++ toy.box k p ++ (leBytes 4 (toy.box k' p').length ++ toy.box k' p')).length = 136 := by
      simp [toy_box_len]
    simp only [acctRow, hs, serializeAccountRow_eq]
    rw [hlen]
    simp only [le4_136, toy_box_len, le4_64]
    have b1 := prim_clean pv hpv (PrimB.box (C := toy) (pv := pv) k p)
    have b2 := prim_clean pv hpv (PrimB.box (C := toy) (pv := pv) k' p')
    simp only [List.mem_cons, List.mem_append, not_or]
    refine ⟨by decide, ⟨by decide, by decide, by decide, by decide, by simp⟩, ⟨⟨by decide, by decide, by decide, by decide, by simp⟩, b1⟩,
      ⟨by decide, by decide, by decide, by decide, by simp⟩, b2⟩

/-- the independence assumption holds for the toy primitives over every clean public valuation -/
theorem toy_indep (ρ : PubVal) (hρ : Clean ρ) : Indep toy ρ := by
  intro K bs hf s hin
  have : (255 : UInt8) ∈ bs := hin.subset (by simp [toy])
  exact frame_clean (ρ K) (hρ K) hf this

/-- a public valuation for the demo: the fixed formats, every other public value the byte 1 -/
def ρ1 : PubVal := fun K =>
  match K.2 with
  | .aid => [0] | .kver => [0] | .coinType => u32Bytes 297 | .account => u32Bytes 1 | .exNum => u32Bytes 0 | .inNum => u32Bytes 0
  | _ => [1]

theorem ρ1_clean : Clean ρ1 := by
  intro K
  obtain ⟨w, k⟩ := K
  cases k <;> simp only [ρ1] <;> decide

theorem ρ1_fmt (w : String) : PubFmt ρ1 w 297 0 0 := ⟨rfl, rfl, rfl, rfl, rfl, rfl⟩

/-- the demo: create one wallet on the empty database -/
def demoPass : Pass := "5a7140506173733132"

theorem demo_ok : (create {} "W1" demoPass 128).2 = .ok := by decide

/-- CREATE WALLET END TO END on the toy instance: the byte-level writer succeeds on the empty tree and the tree represents
    the symbolic database after `create` -/
theorem demo_refines :
    ∃ t', initAcctBucketB (fun _ => []) (acctInOf toy ρ1 297 "W1" "W1" demoPass 0 0 (paramsT 1 demoPass) (masterKey 1 demoPass)
            (paramsT 0 ({} : St).pubPass) (masterKey 0 ({} : St).pubPass) 2 3 4) = .ok t' ∧
      Rep toy ρ1 (create {} "W1" demoPass 128).1.db t' :=
  create_refines toy toy_laws ρ1 ρ1 {} (fun _ => []) 297 "W1" demoPass 128 (rep_empty toy ρ1) demo_ok (ρ1_fmt "W1")
    (fun _ _ => rfl) (by simp only [toy_box_len]; decide) rfl

end MW.KsRefine.Toy
