/-
  C06 / C18 deepening (round 3), part 7: THE BACKGROUND TASKS (wallet import = rescan in batches, wallet removal
  in steps) as operations of the persistence model.  MW.Model.Persist knew them only as status / task /
  keystore; here one batch of `asyncImport` and one iteration of `asyncRemove` are `Op`s (one Update each) whose
  ledger effect is the proved step function of MW.Model.Import / MW.Model.Remove, and the worker loops are
  iterations of them.  Proved: a crash between any two steps (at a quiet point) re-queues the task and the
  resumed task reaches the SAME final store as the uninterrupted one (C06); after any number of failed attempts
  (storage fault at any call index) the retry of a step IS the fault-free step (C18).
-/
import MW.Lemmas.PersistCrash
import MW.Lemmas.Deepen3Keys
import MW.Model.Import
import MW.Model.Remove
import MW.Lemmas.RemoveStep
import MW.Lemmas.Deepen3Frame
namespace MW.Lemmas.Deepen3
open MW MW.Model.Ledger MW.Model.Persist MW.Spec.Persist MW.Lemmas.PersistOp MW.Lemmas.PersistFault
  MW.Lemmas.PersistCrash

-- ------------------------------------------------------------------ one batch of asyncImport as an `Op`

/-- asyncImport: ONE Update — status, balance, the followed-chain check, the address-index scan of the batch,
    AddRelevantTxForImporting per transaction, balances and the new cursor (MW.Model.Import.importStep);
    only AFTER the commit the volatile expired-mempool map is updated (`heightAdded` is a local until then) -/
def opImportStep (batch n : Nat) (env : Model.Persist.Env) (w : Wid) : Op :=
  { phases := [⟨n, fun P V =>
      match Model.Import.importStep batch (ctxOf env V) w P.led V.led with
      | .error _ => .error (.ledger (.other "import"))
      | .ok (s', _, _) => .ok ({ P with led := s' }, V)⟩],
    post := fun P0 V0 _ V =>
      match Model.Import.importStep batch (ctxOf env V0) w P0.led V0.led with
      | .ok (_, v', _) => { V with led := v' }
      | .error _ => V }

/-- fault-free batch in closed form -/
theorem importStep_none (batch n : Nat) (env : Model.Persist.Env) (w : Wid) (P : PStore) (V : PVol) :
    (opImportStep batch n env w).run none P V =
      match Model.Import.importStep batch (ctxOf env V) w P.led V.led with
      | .error _ => ⟨false, P, V, 0, 1 + n⟩
      | .ok (s', v', _) => ⟨true, { P with led := s' }, { V with led := v' }, 1, 1 + n + 1⟩ := by
  rw [run_single_none n _ (opImportStep batch n env w) rfl P V]
  cases hb : Model.Import.importStep batch (ctxOf env V) w P.led V.led with
  | error e => simp [opImportStep, hb]
  | ok r => obtain ⟨s', v', fin⟩ := r; simp [opImportStep, hb]

/-- C18, import batch under a fault at ANY call index (or an ordinary error of the batch — continuable,
    revoked, credit not found …): the store and the volatile state are EXACTLY what they were -/
theorem importStep_fail_exact (batch n : Nat) (env : Model.Persist.Env) (w : Wid) (f : Option Nat) (P : PStore)
    (V : PVol) (h : ((opImportStep batch n env w).run f P V).ok = false) :
    ((opImportStep batch n env w).run f P V).P = P ∧ ((opImportStep batch n env w).run f P V).V = V := by
  apply run_single_fail_exact n _ (opImportStep batch n env w) rfl (fun _ _ _ => rfl) _ f P V h
  intro P V P' V' ha
  split at ha
  · cases ha
  · cases ha; rfl

/-- C18 retry_equiv, import batch: after any number of failed attempts the retry IS the fault-free batch —
    no transaction of the range recorded twice, none lost, the cursor moved once -/
theorem importStep_retry (batch n : Nat) (env : Model.Persist.Env) (w : Wid) (P : PStore) (js : List Nat) (V : PVol)
    (hf : allFail (opImportStep batch n env w) js P V = true) :
    (opImportStep batch n env w).run none P (attempts (opImportStep batch n env w) js P V) =
      (opImportStep batch n env w).run none P V := by
  rw [attempts_exact (opImportStep batch n env w) P
    (fun j V' h => (importStep_fail_exact batch n env w (some j) P V' h).2) js V hf]

/-- the batch reads the volatile state only through the follower's tip height and the key cache -/
theorem importStep_model_congr (batch : Nat) (c : Ctx) (w : Wid) (s : Store) (v1 v2 : Vol) (h : v1.best = v2.best) :
    (Model.Import.importStep batch c w s v1).map (fun r => (r.1, r.2.2)) =
      (Model.Import.importStep batch c w s v2).map (fun r => (r.1, r.2.2)) := by
  unfold Model.Import.importStep Model.Import.batchHead
  rw [h]
  split
  · rfl
  · rename_i hd _
    dsimp only
    generalize (Model.Import.plan c.node (Model.Import.managed c.own w) hd.start hd.stop).foldlM
        (Model.Import.applyItem c w) (s, [(w, hd.bal)]) = r
    cases r with
    | error e => rfl
    | ok r => rfl


theorem importStep_best (batch : Nat) (c : Ctx) (w : Wid) (s s' : Store) (v v' : Vol) (fin : Bool)
    (h : Model.Import.importStep batch c w s v = .ok (s', v', fin)) : v'.best = v.best := by
  unfold Model.Import.importStep at h
  split at h
  · cases h
  · dsimp only at h
    split at h
    · cases h
    · cases h; rfl

/-- the batch operation looks at the volatile state only through the tip copy and the key cache -/
theorem importStep_run_congr (batch n : Nat) (env : Model.Persist.Env) (w : Wid) (P : PStore) (V1 V2 : PVol)
    (h : VEq V1 V2) :
    ((opImportStep batch n env w).run none P V1).ok = ((opImportStep batch n env w).run none P V2).ok ∧
    ((opImportStep batch n env w).run none P V1).P = ((opImportStep batch n env w).run none P V2).P ∧
    VEq ((opImportStep batch n env w).run none P V1).V ((opImportStep batch n env w).run none P V2).V := by
  rw [importStep_none, importStep_none]
  have hc : ctxOf env V1 = ctxOf env V2 := by unfold ctxOf; rw [h.2]
  rw [hc]
  have hm := importStep_model_congr batch (ctxOf env V2) w P.led V1.led V2.led h.1
  cases h1 : Model.Import.importStep batch (ctxOf env V2) w P.led V1.led with
  | error e1 =>
    cases h2 : Model.Import.importStep batch (ctxOf env V2) w P.led V2.led with
    | error e2 => exact ⟨rfl, rfl, h⟩
    | ok r2 => rw [h1, h2] at hm; cases hm
  | ok r1 =>
    cases h2 : Model.Import.importStep batch (ctxOf env V2) w P.led V2.led with
    | error e2 => rw [h1, h2] at hm; cases hm
    | ok r2 =>
      obtain ⟨s1, v1, f1⟩ := r1
      obtain ⟨s2, v2, f2⟩ := r2
      rw [h1, h2] at hm
      simp only [Except.map, Except.ok.injEq, Prod.mk.injEq] at hm
      obtain ⟨hs, _⟩ := hm
      subst hs
      refine ⟨rfl, rfl, ?_, h.2⟩
      show v1.best = v2.best
      rw [importStep_best _ _ _ _ _ _ _ _ h1, importStep_best _ _ _ _ _ _ _ _ h2]; exact h.1

/-- the wallet is no longer importing (the batch that reaches the follower's tip writes WalletSyncedDone) -/
def importDone (P : PStore) (w : Wid) : Bool :=
  match AMap.get P.led.status w with
  | some stt => stt.synced.isNone
  | none => true

/-- the worker on an importing wallet while nothing else happens: batch after batch (each ONE Update) until the
    wallet is ready; `none` = a batch failed (the worker would queue it again) or the fuel ran out -/
def importLoop (batch n : Nat) (env : Model.Persist.Env) (w : Wid) : Nat → PStore → PVol → Option (PStore × PVol)
  | 0, _, _ => none
  | f + 1, P, V =>
    let r := (opImportStep batch n env w).run none P V
    if !r.ok then none
    else if importDone r.P w then some (r.P, r.V) else importLoop batch n env w f r.P r.V

theorem importLoop_succ (batch n : Nat) (env : Model.Persist.Env) (w : Wid) (f : Nat) (P : PStore) (V : PVol) :
    importLoop batch n env w (f + 1) P V =
      if !((opImportStep batch n env w).run none P V).ok then none
      else if importDone ((opImportStep batch n env w).run none P V).P w then
        some (((opImportStep batch n env w).run none P V).P, ((opImportStep batch n env w).run none P V).V)
      else importLoop batch n env w f ((opImportStep batch n env w).run none P V).P
        ((opImportStep batch n env w).run none P V).V := rfl

/-- `k` batches that succeed without finishing -/
def importPrefix (batch n : Nat) (env : Model.Persist.Env) (w : Wid) : Nat → PStore → PVol → Option (PStore × PVol)
  | 0, P, V => some (P, V)
  | k + 1, P, V =>
    let r := (opImportStep batch n env w).run none P V
    if !r.ok || importDone r.P w then none else importPrefix batch n env w k r.P r.V

/-- the uninterrupted rescan = its first `k` batches, then the rest from the state they reached -/
theorem importLoop_split (batch n : Nat) (env : Model.Persist.Env) (w : Wid) : ∀ (k m : Nat) (P Pk : PStore)
    (V Vk : PVol), importPrefix batch n env w k P V = some (Pk, Vk) →
    importLoop batch n env w (k + m) P V = importLoop batch n env w m Pk Vk := by
  intro k
  induction k with
  | zero => intro m P Pk V Vk h; simp only [importPrefix, Option.some.injEq, Prod.mk.injEq] at h; rw [h.1, h.2]; simp
  | succ k ih =>
    intro m P Pk V Vk h
    unfold importPrefix at h
    simp only at h
    split at h
    · cases h
    · rename_i hc
      simp only [Bool.or_eq_true, Bool.not_eq_true', not_or, Bool.not_eq_false, Bool.not_eq_true] at hc
      have e : k + 1 + m = (k + m) + 1 := by omega
      rw [e, importLoop_succ]
      simp only [hc.1, hc.2, Bool.not_true, Bool.false_eq_true, if_false]
      exact ih m _ _ _ _ h

/-- the rest of the rescan depends on the volatile state only through tip copy and key cache -/
theorem importLoop_congr (batch n : Nat) (env : Model.Persist.Env) (w : Wid) : ∀ (f : Nat) (P : PStore) (V1 V2 : PVol),
    VEq V1 V2 → (importLoop batch n env w f P V1).map (·.1) = (importLoop batch n env w f P V2).map (·.1) := by
  intro f
  induction f with
  | zero => intro P V1 V2 _; rfl
  | succ f ih =>
    intro P V1 V2 h
    obtain ⟨c1, c2, c3⟩ := importStep_run_congr batch n env w P V1 V2 h
    rw [importLoop_succ, importLoop_succ]
    rw [c1, c2]
    by_cases hok : ((opImportStep batch n env w).run none P V2).ok = true
    · simp only [hok, Bool.not_true, Bool.false_eq_true, if_false]
      by_cases hd : importDone ((opImportStep batch n env w).run none P V2).P w = true
      · simp only [hd, if_true, Option.map]
      · simp only [hd, Bool.false_eq_true, if_false]
        rw [← c2] at hd ⊢
        rw [c2]
        exact ih _ _ _ c3
    · simp [hok]

/-- IMPORT_RESUMES (same final store): a crash between any two batches of a rescan, at a quiet point (tip copy =
    synced-to, key cache exact, follower caught up with the node): Start succeeds without touching the store,
    the import task is in the queue again, and the resumed rescan ends — for every number of remaining batches —
    with exactly the store the uninterrupted rescan ends with. -/
theorem import_resumes_same (batch n : Nat) (env : Model.Persist.Env) (w : Wid) (P : PStore) (V : PVol) (stt : WStatus)
    (hb : BestInv P V) (hk : V.keys = P.ks) (hq : env.node.tipHeight = P.led.syncedTo) (ht : tipOnB env P = true)
    (hst : (w, stt) ∈ P.led.status) (hr : stt.removed = false) (hi : stt.synced.isSome = true) :
    (Model.Persist.crash env n P).ok = true ∧ (Model.Persist.crash env n P).P = P ∧
    Task.imp w ∈ (Model.Persist.crash env n P).V.tasks ∧
    ∀ f, (importLoop batch n env w f P (Model.Persist.crash env n P).V).map (·.1) =
      (importLoop batch n env w f P V).map (·.1) := by
  have hs : Model.Persist.crash env n P = ⟨true, P, { bootVol P with tasks := requeue P }, 0 + 1⟩ := by
    unfold Model.Persist.crash; rw [start_quiet env n P hq ht]
  rw [hs]
  refine ⟨rfl, rfl, requeue_importing P w stt hst hr hi, fun f => ?_⟩
  apply importLoop_congr
  have h1 : VEq V (bootVol P) := boot_vEq P V hb hk
  exact ⟨h1.1.symm, h1.2.symm⟩


-- ------------------------------------------------------------------ one iteration of asyncRemove as an `Op`

/-- the script hashes of the wallet, as asyncRemove reads them from the key cache before its loop -/
def addrsOf (keys : AMap.T Wid KsRec) (w : Wid) : List Addr :=
  match AMap.get keys w with
  | some r => r.addrs.map (·.2)
  | none => []

/-- the volatile part of DeleteKeystore -/
def dropCached (V : PVol) (w : Wid) : PVol :=
  { V with keys := AMap.erase V.keys w, cur := if V.cur = some w then none else V.cur }

/-- asyncRemove, ONE iteration = ONE Update: RemoveRelevantTx and — when it reports `finish` — in the same
    transaction removeWalletIndexes, DeleteWalletStatus (both inside MW.Model.Remove.removeStep) and
    DeleteKeystore (bucket; then, still inside the transaction, cache entry and wallet in use). After the commit
    RemoveMempoolTx. On failure of a finishing iteration UpdateManagedKeystores reloads the cache entry from
    the committed store. -/
def opRemoveStep (limit nR : Nat) (env : Model.Persist.Env) (w : Wid) (addrs : List Addr) : Op :=
  { phases := [
      ⟨nR, fun P V =>
        match Model.Remove.removeStep limit (ctxOf env V) w addrs P.led with
        | none => .error (.ledger (.other "remove"))
        | some o => .ok ({ led := o.s, ks := if o.finish then AMap.erase P.ks w else P.ks }, V)⟩,
      ⟨0, fun P V => .ok (P, if (AMap.get P.ks w).isNone then dropCached V w else V)⟩],
    repair := fun _ P V =>
      match AMap.get P.ks w, AMap.get V.keys w with
      | some r, none => { V with keys := AMap.put V.keys w r }
      | none, some _ => { V with keys := AMap.erase V.keys w }
      | _, _ => V,
    post := fun P0 V0 _ V =>
      match Model.Remove.removeStep limit (ctxOf env V0) w addrs P0.led with
      | some o => { V with led := Model.Remove.removeMempool V.led o.removedTx }
      | none => V }

/-- fault-free iteration in closed form (for a wallet that is stored and cached) -/
theorem removeStep_none (limit nR : Nat) (env : Model.Persist.Env) (w : Wid) (addrs : List Addr) (P : PStore) (V : PVol)
    (r c : KsRec) (hr : AMap.get P.ks w = some r) (hk : AMap.get V.keys w = some c) :
    (opRemoveStep limit nR env w addrs).run none P V =
      match Model.Remove.removeStep limit (ctxOf env V) w addrs P.led with
      | none => ⟨false, P, V, 0, 1 + nR⟩
      | some o =>
        if o.finish then
          ⟨true, { led := o.s, ks := AMap.erase P.ks w },
            { dropCached V w with led := Model.Remove.removeMempool V.led o.removedTx }, 1, 1 + nR + 0 + 1⟩
        else ⟨true, { led := o.s, ks := P.ks }, { V with led := Model.Remove.removeMempool V.led o.removedTx }, 1, 1 + nR + 0 + 1⟩ := by
  unfold Op.run
  simp only [opRemoveStep, runPhases]
  cases hs : Model.Remove.removeStep limit (ctxOf env V) w addrs P.led with
  | none => simp [hr, hk]
  | some o =>
    by_cases hf : o.finish = true
    · simp [hf, AMap.get_erase, dropCached]
    · simp [hf, hr]

/-- the wallet is gone from the status table: the removal has finished -/
def removeDone (P : PStore) (w : Wid) : Bool := (AMap.get P.led.status w).isNone

/-- the worker on a wallet being removed: iteration after iteration until the finishing one -/
def removeLoop (limit nR : Nat) (env : Model.Persist.Env) (w : Wid) (addrs : List Addr) :
    Nat → PStore → PVol → Option (PStore × PVol)
  | 0, _, _ => none
  | f + 1, P, V =>
    let r := (opRemoveStep limit nR env w addrs).run none P V
    if !r.ok then none
    else if removeDone r.P w then some (r.P, r.V) else removeLoop limit nR env w addrs f r.P r.V

theorem removeLoop_succ (limit nR : Nat) (env : Model.Persist.Env) (w : Wid) (addrs : List Addr) (f : Nat) (P : PStore)
    (V : PVol) : removeLoop limit nR env w addrs (f + 1) P V =
      if !((opRemoveStep limit nR env w addrs).run none P V).ok then none
      else if removeDone ((opRemoveStep limit nR env w addrs).run none P V).P w then
        some (((opRemoveStep limit nR env w addrs).run none P V).P, ((opRemoveStep limit nR env w addrs).run none P V).V)
      else removeLoop limit nR env w addrs f ((opRemoveStep limit nR env w addrs).run none P V).P
        ((opRemoveStep limit nR env w addrs).run none P V).V := rfl

/-- `k` iterations that succeed without finishing -/
def removePrefix (limit nR : Nat) (env : Model.Persist.Env) (w : Wid) (addrs : List Addr) :
    Nat → PStore → PVol → Option (PStore × PVol)
  | 0, P, V => some (P, V)
  | k + 1, P, V =>
    let r := (opRemoveStep limit nR env w addrs).run none P V
    if !r.ok || removeDone r.P w then none else removePrefix limit nR env w addrs k r.P r.V

theorem removeLoop_split (limit nR : Nat) (env : Model.Persist.Env) (w : Wid) (addrs : List Addr) :
    ∀ (k m : Nat) (P Pk : PStore) (V Vk : PVol), removePrefix limit nR env w addrs k P V = some (Pk, Vk) →
    removeLoop limit nR env w addrs (k + m) P V = removeLoop limit nR env w addrs m Pk Vk := by
  intro k
  induction k with
  | zero => intro m P Pk V Vk h; simp only [removePrefix, Option.some.injEq, Prod.mk.injEq] at h; rw [h.1, h.2]; simp
  | succ k ih =>
    intro m P Pk V Vk h
    unfold removePrefix at h
    simp only at h
    split at h
    · cases h
    · rename_i hc
      simp only [Bool.or_eq_true, Bool.not_eq_true', not_or, Bool.not_eq_false, Bool.not_eq_true] at hc
      have e : k + 1 + m = (k + m) + 1 := by omega
      rw [e, removeLoop_succ]
      simp only [hc.1, hc.2, Bool.not_true, Bool.false_eq_true, if_false]
      exact ih m _ _ _ _ h

/-- an iteration looks at the volatile state only through the key cache (and passes the rest on) -/
theorem removeStep_run_congr (limit nR : Nat) (env : Model.Persist.Env) (w : Wid) (addrs : List Addr) (P : PStore)
    (V1 V2 : PVol) (h : V1.keys = V2.keys) :
    ((opRemoveStep limit nR env w addrs).run none P V1).ok = ((opRemoveStep limit nR env w addrs).run none P V2).ok ∧
    ((opRemoveStep limit nR env w addrs).run none P V1).P = ((opRemoveStep limit nR env w addrs).run none P V2).P ∧
    ((opRemoveStep limit nR env w addrs).run none P V1).V.keys = ((opRemoveStep limit nR env w addrs).run none P V2).V.keys := by
  have hc : ctxOf env V1 = ctxOf env V2 := by unfold ctxOf; rw [h]
  unfold Op.run
  simp only [opRemoveStep, runPhases, hc]
  cases hs : Model.Remove.removeStep limit (ctxOf env V2) w addrs P.led with
  | none =>
    simp [h]
    cases AMap.get P.ks w <;> cases AMap.get V2.keys w <;> simp [h]
  | some o =>
    by_cases hf : (AMap.get (if o.finish = true then AMap.erase P.ks w else P.ks) w).isNone = true
    · simp [hf, dropCached, h]
    · simp [hf, h]

theorem removeLoop_congr (limit nR : Nat) (env : Model.Persist.Env) (w : Wid) (addrs : List Addr) :
    ∀ (f : Nat) (P : PStore) (V1 V2 : PVol), V1.keys = V2.keys →
    (removeLoop limit nR env w addrs f P V1).map (·.1) = (removeLoop limit nR env w addrs f P V2).map (·.1) := by
  intro f
  induction f with
  | zero => intro P V1 V2 _; rfl
  | succ f ih =>
    intro P V1 V2 h
    obtain ⟨c1, c2, c3⟩ := removeStep_run_congr limit nR env w addrs P V1 V2 h
    rw [removeLoop_succ, removeLoop_succ, c1, c2]
    by_cases hok : ((opRemoveStep limit nR env w addrs).run none P V2).ok = true
    · simp only [hok, Bool.not_true, Bool.false_eq_true, if_false]
      by_cases hd : removeDone ((opRemoveStep limit nR env w addrs).run none P V2).P w = true
      · simp only [hd, if_true, Option.map]
      · simp only [hd, Bool.false_eq_true, if_false]
        exact ih _ _ _ c3
    · simp [hok]

/-- REMOVAL_RESUMES (same final store): a crash between any two iterations of a removal, at a quiet point: Start
    succeeds without touching the store, the removal task is in the queue again, the restarted worker reads the
    same script hashes from the reloaded key cache, and the resumed removal ends — for every number of remaining
    iterations — with exactly the store the uninterrupted removal ends with. -/
theorem removal_resumes_same (limit nR n : Nat) (env : Model.Persist.Env) (w : Wid) (P : PStore) (V : PVol) (stt : WStatus)
    (hk : V.keys = P.ks) (hq : env.node.tipHeight = P.led.syncedTo) (ht : tipOnB env P = true)
    (hst : (w, stt) ∈ P.led.status) (hr : stt.removed = true) :
    (Model.Persist.crash env n P).ok = true ∧ (Model.Persist.crash env n P).P = P ∧
    Task.rem w ∈ (Model.Persist.crash env n P).V.tasks ∧
    addrsOf (Model.Persist.crash env n P).V.keys w = addrsOf V.keys w ∧
    ∀ f, (removeLoop limit nR env w (addrsOf (Model.Persist.crash env n P).V.keys w) f P (Model.Persist.crash env n P).V).map (·.1) =
      (removeLoop limit nR env w (addrsOf V.keys w) f P V).map (·.1) := by
  have hs : Model.Persist.crash env n P = ⟨true, P, { bootVol P with tasks := requeue P }, 0 + 1⟩ := by
    unfold Model.Persist.crash; rw [start_quiet env n P hq ht]
  rw [hs]
  have hkk : ({ bootVol P with tasks := requeue P } : PVol).keys = V.keys := hk.symm
  refine ⟨rfl, rfl, requeue_removed P w stt hst hr, by rw [hkk], fun f => ?_⟩
  rw [hkk]
  exact removeLoop_congr limit nR env w _ f P _ _ hkk


-- ------------------------------------------------------------------ C18: the removal iteration under faults

/-- the removal step reads the keystore view only through lookups: two views with the same lookups (the key
    cache is a Go map: its iteration order is immaterial) and the same node give the same step -/
theorem removable_congr {own own' : Own} (h : ∀ a, AMap.get own' a = AMap.get own a) :
    Model.Remove.removable own' = Model.Remove.removable own := by
  funext s addrs tx
  unfold Model.Remove.removable
  simp only [h]

theorem removeStep_ctx_congr {c c' : Ctx} (ho : ∀ a, AMap.get c'.own a = AMap.get c.own a) (hn : c'.node = c.node)
    (limit : Nat) (w : Wid) (addrs : List Addr) (s : Store) :
    Model.Remove.removeStep limit c' w addrs s = Model.Remove.removeStep limit c w addrs s := by
  have hr := removable_congr ho
  have hu : Model.Remove.unminedStep c'.own = Model.Remove.unminedStep c.own := by
    funext addrs acc h
    unfold Model.Remove.unminedStep
    rw [hr]
  have hm : Model.Remove.minedStep c' = Model.Remove.minedStep c := by
    funext addrs acc e
    unfold Model.Remove.minedStep
    rw [hr, hn]
  unfold Model.Remove.removeStep Model.Remove.removeRelevantTx Model.Remove.removeUnminedTxs Model.Remove.removeMinedTxs
  rw [hu, hm]


theorem amap_get_perm {K V : Type} [DecidableEq K] {m m' : AMap.T K V} (hp : m'.Perm m)
    (hn : (m.map (·.1)).Nodup) (k : K) : AMap.get m' k = AMap.get m k := by
  have hn' : (m'.map (·.1)).Nodup := ((hp.map (·.1)).nodup_iff).2 hn
  cases hg : AMap.get m k with
  | none =>
    rw [amap_get_none_iff] at hg ⊢
    exact fun hm => hg (((hp.map (·.1)).mem_iff).1 hm)
  | some v => exact amap_get_of_mem hn' (hp.mem_iff.2 (amap_mem_of_get hg))

/-- the cache entry of `w` evicted by DeleteKeystore and reloaded by UpdateManagedKeystores: the cache is the
    same map (the entry moved to the front of the association list) and the keystore view reads the same -/
theorem reload_view {keys : AMap.T Wid KsRec} {w : Wid} {r : KsRec} (hg : AMap.get keys w = some r)
    (hnw : (walletsOf keys).Nodup) (hna : ((ownOf keys).map (·.1)).Nodup) (a : Addr) :
    AMap.get (ownOf ((w, r) :: AMap.erase keys w)) a = AMap.get (ownOf keys) a := by
  obtain ⟨l₁, l₂, he, her⟩ := amap_split hnw hg
  apply amap_get_perm _ hna
  rw [her, ownOf_cons]
  conv => rhs; rw [he, ownOf_append, ownOf_cons]
  rw [ownOf_append]
  exact List.perm_append_comm_assoc _ _ _

/-- the volatile state a failed FINISHING iteration leaves behind: cache entry reloaded (moved to the front),
    wallet in use reset -/
def reloaded (V : PVol) (w : Wid) (r : KsRec) : PVol :=
  { V with keys := (w, r) :: AMap.erase V.keys w, cur := if V.cur = some w then none else V.cur }

theorem reloaded_idem (V : PVol) (w : Wid) (r : KsRec) : reloaded (reloaded V w r) w r = reloaded V w r := by
  unfold reloaded
  have : AMap.erase ((w, r) :: AMap.erase V.keys w) w = AMap.erase V.keys w := by
    have : AMap.erase ((w, r) :: AMap.erase V.keys w) w = AMap.erase (AMap.erase V.keys w) w := by
      unfold AMap.erase; simp [List.filter]
    rw [this, erase_erase]
  simp only [this]
  by_cases hc : V.cur = some w <;> simp [hc]

/-- C18, ONE failed attempt of a removal iteration (fault at ANY call index, or an ordinary error): the store is
    unchanged; the volatile state is unchanged too, unless the iteration was the FINISHING one and the fault hit
    the commit — then DeleteKeystore had evicted the cache entry and UpdateManagedKeystores reloaded it -/
theorem removeStep_fault (limit nR : Nat) (env : Model.Persist.Env) (w : Wid) (addrs : List Addr) (j : Nat) (P : PStore)
    (V : PVol) (r : KsRec) (hr : AMap.get P.ks w = some r) (hk : AMap.get V.keys w = some r)
    (h : ((opRemoveStep limit nR env w addrs).run (some j) P V).ok = false) :
    ((opRemoveStep limit nR env w addrs).run (some j) P V).P = P ∧
    (((opRemoveStep limit nR env w addrs).run (some j) P V).V = V ∨
     (∃ o, Model.Remove.removeStep limit (ctxOf env V) w addrs P.led = some o ∧ o.finish = true ∧
        ((opRemoveStep limit nR env w addrs).run (some j) P V).V = reloaded V w r)) := by
  refine ⟨run_fail_store _ _ _ _ h, ?_⟩
  have h3 : ¬ (1 + nR ≤ j ∧ j < 1 + nR + 0) := by omega
  have he : AMap.get (AMap.erase V.keys w) w = none := by rw [AMap.get_erase]; simp
  unfold Op.run at h ⊢
  simp only [opRemoveStep, runPhases, h3, if_false] at h ⊢
  by_cases h0 : j = 0
  · left; subst h0; simp [hr, hk]
  · have h0' : ¬ (some j = some 0) := by simpa using h0
    simp only [h0', if_false] at h ⊢
    by_cases h1 : 1 ≤ j ∧ j < 1 + nR
    · left; simp [h1, hr, hk]
    · simp only [h1, if_false] at h ⊢
      cases hs : Model.Remove.removeStep limit (ctxOf env V) w addrs P.led with
      | none => left; simp [hr, hk]
      | some o =>
        simp only [hs] at h ⊢
        by_cases h2 : j = 1 + nR
        · subst h2
          by_cases hf : o.finish = true
          · right
            refine ⟨o, rfl, hf, ?_⟩
            simp [hf, AMap.get_erase, dropCached, hr, he, reloaded, AMap.put, erase_erase]
          · left
            simp [hf, hr, hk]
        · have h2' : ¬ (some j = some (1 + nR)) := by simpa using h2
          simp [h2, h2'] at h


theorem dropCached_reloaded (V : PVol) (w : Wid) (r : KsRec) : dropCached (reloaded V w r) w = dropCached V w := by
  unfold dropCached reloaded
  have : AMap.erase ((w, r) :: AMap.erase V.keys w) w = AMap.erase V.keys w := by
    have : AMap.erase ((w, r) :: AMap.erase V.keys w) w = AMap.erase (AMap.erase V.keys w) w := by
      unfold AMap.erase; simp [List.filter]
    rw [this, erase_erase]
  simp only [this]
  by_cases hc : V.cur = some w <;> simp [hc]

/-- the fault-free FINISHING iteration does not see whether the cache entry was evicted and reloaded before -/
theorem removeStep_reloaded (limit nR : Nat) (env : Model.Persist.Env) (w : Wid) (addrs : List Addr) (P : PStore)
    (V : PVol) (r : KsRec) (hr : AMap.get P.ks w = some r) (hk : AMap.get V.keys w = some r)
    (hnw : (walletsOf V.keys).Nodup) (hna : ((ownOf V.keys).map (·.1)).Nodup)
    (o : Model.Remove.StepOut) (hs : Model.Remove.removeStep limit (ctxOf env V) w addrs P.led = some o)
    (hf : o.finish = true) :
    (opRemoveStep limit nR env w addrs).run none P (reloaded V w r) = (opRemoveStep limit nR env w addrs).run none P V := by
  have hk' : AMap.get (reloaded V w r).keys w = some r := by simp [reloaded, AMap.get_cons]
  have hctx : Model.Remove.removeStep limit (ctxOf env (reloaded V w r)) w addrs P.led =
      Model.Remove.removeStep limit (ctxOf env V) w addrs P.led :=
    removeStep_ctx_congr (c := ctxOf env V) (c' := ctxOf env (reloaded V w r))
      (fun a => reload_view hk hnw hna a) rfl limit w addrs P.led
  rw [removeStep_none limit nR env w addrs P (reloaded V w r) r r hr hk', removeStep_none limit nR env w addrs P V r r hr hk,
    hctx, hs]
  simp only [hf, if_true, dropCached_reloaded]
  rfl

/-- C18 RETRY_EQUIV, removal iteration: after any number of failed attempts (fault at any call index each) the
    retry IS the fault-free iteration — same result, same committed store (no credit of the wallet deleted twice
    or skipped, the keystore deleted exactly when the step finishes), same volatile state -/
theorem removeStep_retry (limit nR : Nat) (env : Model.Persist.Env) (w : Wid) (addrs : List Addr) (P : PStore)
    (js : List Nat) (V : PVol) (r : KsRec) (hr : AMap.get P.ks w = some r) (hk : AMap.get V.keys w = some r)
    (hnw : (walletsOf V.keys).Nodup) (hna : ((ownOf V.keys).map (·.1)).Nodup)
    (hf : allFail (opRemoveStep limit nR env w addrs) js P V = true) :
    (opRemoveStep limit nR env w addrs).run none P (attempts (opRemoveStep limit nR env w addrs) js P V) =
      (opRemoveStep limit nR env w addrs).run none P V := by
  have hinv := attempts_inv (opRemoveStep limit nR env w addrs) P
    (fun V'' => V'' = V ∨ (∃ o, Model.Remove.removeStep limit (ctxOf env V) w addrs P.led = some o ∧ o.finish = true ∧
      V'' = reloaded V w r))
    (fun j V'' hi hfail => by
      rcases hi with rfl | ⟨o, ho, hfin, rfl⟩
      · rcases (removeStep_fault limit nR env w addrs j P V'' r hr hk hfail).2 with h | ⟨o, ho, hfin, h⟩
        · exact Or.inl h
        · exact Or.inr ⟨o, ho, hfin, h⟩
      · have hk' : AMap.get (reloaded V w r).keys w = some r := by simp [reloaded, AMap.get_cons]
        rcases (removeStep_fault limit nR env w addrs j P (reloaded V w r) r hr hk' hfail).2 with h | ⟨_, _, _, h⟩
        · exact Or.inr ⟨o, ho, hfin, h⟩
        · exact Or.inr ⟨o, ho, hfin, by rw [h, reloaded_idem]⟩) js V (Or.inl rfl) hf
  rcases hinv with h | ⟨o, ho, hfin, h⟩
  · rw [h]
  · rw [h]
    exact removeStep_reloaded limit nR env w addrs P V r hr hk hnw hna o ho hfin


-- ------------------------------------------------------------------ a crash after ANY number of iterations

/-- a removal iteration that succeeds WITHOUT finishing leaves keystore, key cache, wallet status, height table
    and synced-to as they were (C08's `removeRelevantTx_spec`: the id-keyed buckets are untouched) -/
theorem removeStep_nonfinish_frame (limit nR : Nat) (env : Model.Persist.Env) (w : Wid) (addrs : List Addr) (P : PStore)
    (V : PVol) (r c : KsRec) (hr : AMap.get P.ks w = some r) (hk : AMap.get V.keys w = some c)
    (hok : ((opRemoveStep limit nR env w addrs).run none P V).ok = true)
    (hnd : removeDone ((opRemoveStep limit nR env w addrs).run none P V).P w = false) :
    ((opRemoveStep limit nR env w addrs).run none P V).P.ks = P.ks ∧
    ((opRemoveStep limit nR env w addrs).run none P V).V.keys = V.keys ∧
    ((opRemoveStep limit nR env w addrs).run none P V).P.led.status = P.led.status ∧
    ((opRemoveStep limit nR env w addrs).run none P V).P.led.sync = P.led.sync ∧
    ((opRemoveStep limit nR env w addrs).run none P V).P.led.syncedTo = P.led.syncedTo := by
  rw [removeStep_none limit nR env w addrs P V r c hr hk] at hok hnd ⊢
  cases hs : Model.Remove.removeStep limit (ctxOf env V) w addrs P.led with
  | none => rw [hs] at hok; cases hok
  | some o =>
    rw [hs] at hok hnd
    simp only at hok hnd ⊢
    unfold Model.Remove.removeStep at hs
    cases hrr : Model.Remove.removeRelevantTx limit (ctxOf env V) P.led addrs with
    | none => rw [hrr] at hs; cases hs
    | some o1 =>
      rw [hrr] at hs
      simp only at hs
      by_cases hf1 : o1.finish = true
      · -- finishing: the status entry is erased, so the loop would have stopped
        rw [if_pos hf1] at hs
        cases hs
        simp only [hf1, if_true] at hnd
        unfold removeDone at hnd
        simp [AMap.get_erase] at hnd
      · rw [if_neg hf1] at hs
        cases hs
        simp only [hf1, Bool.false_eq_true, if_false]
        have hne : addrs ≠ [] := by
          intro he
          subst he
          unfold Model.Remove.removeRelevantTx at hrr
          simp at hrr
          rw [← hrr] at hf1
          exact hf1 rfl
        have hcore := (MW.Lemmas.RemoveStep.removeRelevantTx_spec limit (ctxOf env V) P.led addrs o hne hrr).ids
        unfold MW.Lemmas.RemoveStep.core at hcore
        simp only [Prod.mk.injEq] at hcore
        exact ⟨trivial, trivial, hcore.2.2.2.2.2.1, hcore.2.2.2.2.2.2.1, hcore.2.2.2.2.2.2.2⟩

theorem removePrefix_frame (limit nR : Nat) (env : Model.Persist.Env) (w : Wid) (addrs : List Addr) :
    ∀ (k : Nat) (P Pk : PStore) (V Vk : PVol) (r c : KsRec), AMap.get P.ks w = some r → AMap.get V.keys w = some c →
    removePrefix limit nR env w addrs k P V = some (Pk, Vk) →
    Pk.ks = P.ks ∧ Vk.keys = V.keys ∧ Pk.led.status = P.led.status ∧ Pk.led.sync = P.led.sync ∧
    Pk.led.syncedTo = P.led.syncedTo := by
  intro k
  induction k with
  | zero =>
    intro P Pk V Vk r c _ _ h
    simp only [removePrefix, Option.some.injEq, Prod.mk.injEq] at h
    rw [← h.1, ← h.2]; exact ⟨rfl, rfl, rfl, rfl, rfl⟩
  | succ k ih =>
    intro P Pk V Vk r c hr hk h
    unfold removePrefix at h
    simp only at h
    split at h
    · cases h
    · rename_i hc
      simp only [Bool.or_eq_true, Bool.not_eq_true', not_or, Bool.not_eq_false, Bool.not_eq_true] at hc
      obtain ⟨f1, f2, f3, f4, f5⟩ := removeStep_nonfinish_frame limit nR env w addrs P V r c hr hk hc.1 hc.2
      obtain ⟨g1, g2, g3, g4, g5⟩ := ih _ Pk _ Vk r c (by rw [f1]; exact hr) (by rw [f2]; exact hk) h
      exact ⟨g1.trans f1, g2.trans f2, g3.trans f3, g4.trans f4, g5.trans f5⟩

/-- REMOVAL_RESUMES, from the start of the task: a removal that started at a quiet point (node not moving
    meanwhile) is interrupted by a crash after ANY number `k` of iterations. The state it had reached is again a
    quiet point; the uninterrupted removal from the start = those `k` iterations, then the rest; the crash
    re-queues the task, and the resumed removal ends — for every number `m` of remaining iterations — with exactly
    the store the uninterrupted removal `removeLoop (k + m)` ends with. -/
theorem removal_resumes_anywhere (limit nR n : Nat) (env : Model.Persist.Env) (w : Wid) (P0 : PStore) (V0 : PVol)
    (stt : WStatus) (r : KsRec) (hk : V0.keys = P0.ks) (hr : AMap.get P0.ks w = some r)
    (hq : env.node.tipHeight = P0.led.syncedTo) (ht : tipOnB env P0 = true)
    (hst : (w, stt) ∈ P0.led.status) (hrm : stt.removed = true)
    (k : Nat) (Pk : PStore) (Vk : PVol)
    (hpre : removePrefix limit nR env w (addrsOf V0.keys w) k P0 V0 = some (Pk, Vk)) :
    (Model.Persist.crash env n Pk).ok = true ∧ (Model.Persist.crash env n Pk).P = Pk ∧
    Task.rem w ∈ (Model.Persist.crash env n Pk).V.tasks ∧
    ∀ m, (removeLoop limit nR env w (addrsOf (Model.Persist.crash env n Pk).V.keys w) m Pk
            (Model.Persist.crash env n Pk).V).map (·.1) =
         (removeLoop limit nR env w (addrsOf V0.keys w) (k + m) P0 V0).map (·.1) := by
  obtain ⟨f1, f2, f3, f4, f5⟩ := removePrefix_frame limit nR env w _ k P0 Pk V0 Vk r r hr (by rw [hk]; exact hr) hpre
  have hkk : Vk.keys = Pk.ks := by rw [f1, f2]; exact hk
  have hqk : env.node.tipHeight = Pk.led.syncedTo := by rw [f5]; exact hq
  have htk : tipOnB env Pk = true := by unfold tipOnB at ht ⊢; rw [f4, f5]; exact ht
  obtain ⟨a, b, c, d, e⟩ := removal_resumes_same limit nR n env w Pk Vk stt hkk hqk htk (by rw [f3]; exact hst) hrm
  refine ⟨a, b, c, fun m => ?_⟩
  rw [e m, removeLoop_split limit nR env w _ k m P0 Pk V0 Vk hpre, f2]


-- ------------------------------------------------------------------ a crash after ANY number of import batches

theorem sp_spendOne (tr : TxRec) (blk : BlockMeta) (sb sb' : Store × Bals) (rel : Rel)
    (h : spendOne tr blk sb rel = .ok sb') : sp sb'.1 = sp sb.1 := by
  unfold spendOne at h
  repeat' (split at h)
  all_goals first
    | (cases h; done)
    | (cases h; rfl)

theorem sp_creditOne (p : Params) (tr : TxRec) (blk : BlockMeta) (sb sb' : Store × Bals) (rel : Rel)
    (h : creditOne p tr blk sb rel = .ok sb') : sp sb'.1 = sp sb.1 := by
  unfold creditOne at h
  split at h
  · cases h
  · cases h; rfl

theorem sp_addCredits (p : Params) (s s' : Store) (bals bals' : Bals) (tr : TxRec) (blk : BlockMeta)
    (h : addCredits p s bals tr blk = .ok (s', bals')) : sp s' = sp s := by
  unfold addCredits at h
  split at h
  · cases h; rfl
  · simp only [bind, Except.bind, pure, Except.pure] at h
    split at h
    · cases h
    · rename_i r hr
      cases h
      have h1 : sp r.1 = sp s :=
        foldlM_frame (creditOne p tr blk) (fun (a : Store × Bals) => sp a.1) (fun b a b' hb => sp_creditOne p tr blk b b' a hb) _ _ _ hr
      exact (sp_foldl (gameOne tr blk) (fun _ _ => rfl) _ _).trans h1

theorem sp_addRelevantTxForImporting (p : Params) (own : Own) (s s' : Store) (bals bals' : Bals) (tr : TxRec)
    (blk : BlockMeta) (h : Model.Import.addRelevantTxForImporting p own s bals tr blk = .ok (s', bals')) :
    sp s' = sp s := by
  unfold Model.Import.addRelevantTxForImporting at h
  simp only [bind, Except.bind] at h
  split at h
  · cases h
  · rename_i r hr
    obtain ⟨s1, b1⟩ := r
    have h1 : sp s1 = sp s := by
      unfold Model.Import.insertMinedTxForImporting at hr
      split at hr
      · cases hr
      · rename_i s0 hs0
        have h0 : sp s0 = sp s := by
          unfold Model.Import.recordForImporting at hs0
          repeat' (split at hs0)
          all_goals first
            | (cases hs0; done)
            | (cases hs0; rfl)
        split at hr
        · cases hr
        · rename_i sX bX hr2
          have h2 : sp sX = sp s0 :=
            foldlM_frame (spendOne tr blk) (fun (a : Store × Bals) => sp a.1) (fun b a b' hb => sp_spendOne tr blk b b' a hb) _
              (s0, bals) (sX, bX) hr2
          cases hr
          exact ((sp_of_mined (MW.Lemmas.Ledger.minedEq_removeDoubleSpends own _ tr)).trans
            (sp_of_mined (MW.Lemmas.Ledger.minedEq_unpendMined _ tr.tx))).trans (h2.trans h0)
    dsimp only at h
    split at h
    · rename_i r3 hr3
      simp only [pure, Except.pure] at h
      cases h
      exact (sp_addCredits p s1 _ b1 _ tr blk hr3).trans h1
    · cases h

theorem foldlM_frameE {ε α β γ : Type} (f : β → α → Except ε β) (g : β → γ)
    (hf : ∀ b a b', f b a = .ok b' → g b' = g b) :
    ∀ (l : List α) (b b' : β), l.foldlM f b = .ok b' → g b' = g b := by
  intro l
  induction l with
  | nil => intro b b' h; cases h; rfl
  | cons a l ih =>
    intro b b' h
    rw [List.foldlM_cons] at h
    simp only [bind, Except.bind] at h
    split at h
    · cases h
    · rename_i b1 hb1
      exact (ih _ _ h).trans (hf _ _ _ hb1)

theorem sp_applyItem (c : Ctx) (w : Wid) (acc acc' : Store × Bals) (it : Model.Import.Item)
    (h : Model.Import.applyItem c w acc it = .ok acc') : sp acc'.1 = sp acc.1 := by
  unfold Model.Import.applyItem at h
  simp only [bind, Except.bind] at h
  split at h
  · cases h
  · split at h
    · -- an indexed transaction the filter finds irrelevant is skipped (fix D41): nothing changes
      simp only [pure, Except.pure] at h
      cases h
      rfl
    · split at h
      · rename_i r hr
        simp only [pure, Except.pure] at h
        cases h
        exact sp_addRelevantTxForImporting _ _ _ _ _ _ _ _ hr
      · cases h
      · cases h

/-- a successful import batch never writes the height table or synced-to, keeps the `removed` flag of the wallet
    and leaves every other part of the status a function of the batch head -/
theorem importStep_frame (batch : Nat) (c : Ctx) (w : Wid) (s s' : Store) (v v' : Vol) (fin : Bool)
    (h : Model.Import.importStep batch c w s v = .ok (s', v', fin)) :
    sp s' = sp s ∧ ∃ ws ws', AMap.get s.status w = some ws ∧ AMap.get s'.status w = some ws' ∧ ws'.removed = ws.removed := by
  unfold Model.Import.importStep at h
  split at h
  · cases h
  · rename_i hd hhd
    dsimp only at h
    split at h
    · cases h
    · rename_i s1 bals1 hr
      have h1 : sp s1 = sp s :=
        foldlM_frameE (Model.Import.applyItem c w) (fun (a : Store × Bals) => sp a.1)
          (fun b a b' hb => sp_applyItem c w b b' a hb) _ (s, [(w, hd.bal)]) (s1, bals1) hr
      cases h
      refine ⟨(show sp (Model.Import.finishBatch w hd s1 bals1) = sp s1 from rfl).trans h1, ?_⟩
      unfold Model.Import.batchHead at hhd
      split at hhd
      · cases hhd
      · split at hhd
        · cases hhd
        · rename_i ws hws
          split at hhd
          · cases hhd
          · split at hhd
            · cases hhd
            · cases hhd
              refine ⟨ws, Model.Import.statusAfter ws (Model.Import.batchStop batch (Model.Import.cursorU64 ws) v.best.height)
                v.best.height, hws, ?_, rfl⟩
              unfold Model.Import.finishBatch
              simp only [AMap.get_put, if_true]


/-- a successful import batch leaves keystore, key cache, tip copy, height table and synced-to as they were and
    keeps the wallet's status entry (with its `removed` flag) -/
theorem importStep_run_frame (batch n : Nat) (env : Model.Persist.Env) (w : Wid) (P : PStore) (V : PVol)
    (hok : ((opImportStep batch n env w).run none P V).ok = true) :
    ((opImportStep batch n env w).run none P V).P.ks = P.ks ∧
    ((opImportStep batch n env w).run none P V).V.keys = V.keys ∧
    ((opImportStep batch n env w).run none P V).V.led.best = V.led.best ∧
    sp ((opImportStep batch n env w).run none P V).P.led = sp P.led ∧
    ∃ ws ws', AMap.get P.led.status w = some ws ∧
      AMap.get ((opImportStep batch n env w).run none P V).P.led.status w = some ws' ∧ ws'.removed = ws.removed := by
  rw [importStep_none] at hok ⊢
  cases hs : Model.Import.importStep batch (ctxOf env V) w P.led V.led with
  | error e => rw [hs] at hok; cases hok
  | ok r =>
    obtain ⟨s', v', fin⟩ := r
    obtain ⟨f1, f2⟩ := importStep_frame batch _ w _ _ _ _ _ hs
    exact ⟨rfl, rfl, importStep_best _ _ _ _ _ _ _ _ hs, f1, f2⟩

theorem importPrefix_frame (batch n : Nat) (env : Model.Persist.Env) (w : Wid) :
    ∀ (k : Nat) (P Pk : PStore) (V Vk : PVol) (ws : WStatus), AMap.get P.led.status w = some ws →
    importPrefix batch n env w k P V = some (Pk, Vk) →
    Pk.ks = P.ks ∧ Vk.keys = V.keys ∧ Vk.led.best = V.led.best ∧ sp Pk.led = sp P.led ∧
    ∃ ws', AMap.get Pk.led.status w = some ws' ∧ ws'.removed = ws.removed := by
  intro k
  induction k with
  | zero =>
    intro P Pk V Vk ws hws h
    simp only [importPrefix, Option.some.injEq, Prod.mk.injEq] at h
    rw [← h.1, ← h.2]; exact ⟨rfl, rfl, rfl, rfl, ws, hws, rfl⟩
  | succ k ih =>
    intro P Pk V Vk ws hws h
    unfold importPrefix at h
    simp only at h
    split at h
    · cases h
    · rename_i hc
      simp only [Bool.or_eq_true, Bool.not_eq_true', not_or, Bool.not_eq_false, Bool.not_eq_true] at hc
      obtain ⟨f1, f2, f3, f4, ws0, ws1, g0, g1, g2⟩ := importStep_run_frame batch n env w P V hc.1
      rw [hws] at g0
      cases g0
      obtain ⟨i1, i2, i3, i4, ws2, j1, j2⟩ := ih _ Pk _ Vk ws1 g1 h
      exact ⟨i1.trans f1, i2.trans f2, i3.trans f3, i4.trans f4, ws2, j1, j2.trans g2⟩

/-- IMPORT_RESUMES, from the start of the task: a rescan that started at a quiet point (node not moving
    meanwhile) is interrupted by a crash after ANY number `k` of batches: the crash re-queues the task and the
    resumed rescan ends — for every number `m` of remaining batches — with exactly the store the uninterrupted
    rescan `importLoop (k + m)` ends with. -/
theorem import_resumes_anywhere (batch n : Nat) (env : Model.Persist.Env) (w : Wid) (P0 : PStore) (V0 : PVol)
    (ws : WStatus) (hb : BestInv P0 V0) (hk : V0.keys = P0.ks) (hq : env.node.tipHeight = P0.led.syncedTo)
    (ht : tipOnB env P0 = true) (hws : AMap.get P0.led.status w = some ws) (hrm : ws.removed = false)
    (k : Nat) (Pk : PStore) (Vk : PVol) (hpre : importPrefix batch n env w k P0 V0 = some (Pk, Vk))
    (hnd : importDone Pk w = false) :
    (Model.Persist.crash env n Pk).ok = true ∧ (Model.Persist.crash env n Pk).P = Pk ∧
    Task.imp w ∈ (Model.Persist.crash env n Pk).V.tasks ∧
    ∀ m, (importLoop batch n env w m Pk (Model.Persist.crash env n Pk).V).map (·.1) =
         (importLoop batch n env w (k + m) P0 V0).map (·.1) := by
  obtain ⟨f1, f2, f3, f4, ws', g1, g2⟩ := importPrefix_frame batch n env w k P0 Pk V0 Vk ws hws hpre
  have hsync : Pk.led.sync = P0.led.sync := congrArg Prod.fst f4
  have hsto : Pk.led.syncedTo = P0.led.syncedTo := congrArg Prod.snd f4
  have hbk : BestInv Pk Vk := by
    unfold BestInv at hb ⊢
    rw [f3, hsync, hsto]; exact hb
  have hkk : Vk.keys = Pk.ks := by rw [f1, f2]; exact hk
  have hqk : env.node.tipHeight = Pk.led.syncedTo := by rw [hsto]; exact hq
  have htk : tipOnB env Pk = true := by unfold tipOnB at ht ⊢; rw [hsync, hsto]; exact ht
  have hi : ws'.synced.isSome = true := by
    unfold importDone at hnd
    rw [g1] at hnd
    simp only at hnd
    cases hsy : ws'.synced with
    | none => rw [hsy] at hnd; simp at hnd
    | some x => rfl
  obtain ⟨a, b, c, d⟩ := import_resumes_same batch n env w Pk Vk ws' hbk hkk hqk htk (amap_mem_of_get g1)
    (g2.trans hrm) hi
  refine ⟨a, b, c, fun m => ?_⟩
  rw [d m, importLoop_split batch n env w k m P0 Pk V0 Vk hpre]

end MW.Lemmas.Deepen3
