/-
  C18 deepening (round 3): THE FOLLOWER'S OWN RETRY OVER ANY GAP.  Notifications that failed (storage fault at any
  call index: store and volatile state unchanged, `fault_restores_coh_block`) are never repeated by the node; the
  next notification that gets through takes the reorganisation path and connects everything that was missed in one
  batch.  `reorg_next` / `retry_equiv_follower` proved this for exactly one missed block (exact equality); here:
  ANY number of missed blocks, for wallets holding the books of a prefix of the node's chain — the notification of
  block `j` alone and the fault-free sequence of notifications `h+1 … j` both succeed and reach the books of the
  chain up to `j` (extensionally equal confirmed buckets, same tip copy and synced-to).
-/
import MW.Lemmas.Deepen3Start
namespace MW.Lemmas.Deepen3
open MW MW.Model.Ledger MW.Model.Persist MW.Spec.Persist MW.Spec.Chain MW.Spec.Books MW.Lemmas.Ledger
  MW.Lemmas.PersistOp MW.Lemmas.PersistFault MW.Lemmas.PersistCrash

/-- the fault-free follower: the notifications of the blocks at heights `hs` of the node's chain, in order -/
def notifySeq (st : Static) (n : Nat) (chain : List Block) : List Nat → PStore × PVol → PStore × PVol
  | [], pv => pv
  | h :: hs, pv =>
    match chain[h]? with
    | some b =>
      let r := (opBlock (envAt st chain) n b).run none pv.1 pv.2
      notifySeq st n chain hs (r.P, r.V)
    | none => notifySeq st n chain hs pv

/-- the fault-free sequence of the next `k` notifications -/
theorem notifySeq_reaches {st : Static} {G : Block} (E : StaticOK st G) {ks : AMap.T Wid KsRec} {chain : List Block}
    (hN : ChainOK (lenv st ks) G chain) {s0 : Store}
    (hAR : AllReady (ownOf ks) (readyWallets s0 (walletsOf ks))) (hne : (readyWallets s0 (walletsOf ks)).isEmpty = false)
    (n : Nat) : ∀ (k h : Nat) (P : PStore) (V : PVol), SInv st ks chain s0 h P V → h + k < chain.length →
      SInv st ks chain s0 (h + k) (notifySeq st n chain (List.range' (h + 1) k) (P, V)).1
        (notifySeq st n chain (List.range' (h + 1) k) (P, V)).2 := by
  intro k
  induction k with
  | zero => intro h P V hS _; exact hS
  | succ k ih =>
    intro h P V hS hlt
    have hl : h + 1 < chain.length := by omega
    rw [List.range'_succ]
    unfold notifySeq
    rw [List.getElem?_eq_getElem hl]
    simp only
    obtain ⟨_, _, o3⟩ := start_block E hN hAR hne n hS.pks hS.vkeys hS.inv hS.best (hN.take h) hS.ready
      (b := chain[h + 1]'hl) (h := h + 1) (List.getElem?_eq_getElem hl)
    have := ih (h + 1) _ _ o3 (by omega)
    have e : h + 1 + k = h + (k + 1) := by omega
    rw [e] at this
    exact this

/-- RETRY OVER ANY GAP: the wallet holds the books of `chain.take (h+1)`; the notifications of blocks
    `h+1 … j−1` were lost to storage faults (nothing changed); the notification of block `j` alone succeeds and
    reaches the books of `chain.take (j+1)` — and so does the fault-free sequence `h+1 … j`; the two results have
    extensionally equal confirmed buckets, the same synced-to and tip copy, and equal balances of ready wallets -/
theorem follower_retry_gap {st : Static} {G : Block} (E : StaticOK st G) {ks : AMap.T Wid KsRec} {chain : List Block}
    (hN : ChainOK (lenv st ks) G chain) {s0 : Store}
    (hAR : AllReady (ownOf ks) (readyWallets s0 (walletsOf ks))) (hne : (readyWallets s0 (walletsOf ks)).isEmpty = false)
    (n : Nat) {h : Nat} {P : PStore} {V : PVol} (hS : SInv st ks chain s0 h P V) (k : Nat) (b : Block)
    (hb : chain[h + (k + 1)]? = some b) :
    ((opBlock (envAt st chain) n b).run none P V).ok = true ∧
    SInv st ks chain s0 (h + (k + 1)) ((opBlock (envAt st chain) n b).run none P V).P
      ((opBlock (envAt st chain) n b).run none P V).V ∧
    SInv st ks chain s0 (h + (k + 1)) (notifySeq st n chain (List.range' (h + 1) (k + 1)) (P, V)).1
      (notifySeq st n chain (List.range' (h + 1) (k + 1)) (P, V)).2 ∧
    AMap.Equiv ((opBlock (envAt st chain) n b).run none P V).P.led.credits
      (notifySeq st n chain (List.range' (h + 1) (k + 1)) (P, V)).1.led.credits ∧
    AMap.Equiv ((opBlock (envAt st chain) n b).run none P V).P.led.unspent
      (notifySeq st n chain (List.range' (h + 1) (k + 1)) (P, V)).1.led.unspent ∧
    AMap.Equiv ((opBlock (envAt st chain) n b).run none P V).P.led.debits
      (notifySeq st n chain (List.range' (h + 1) (k + 1)) (P, V)).1.led.debits ∧
    AMap.Equiv ((opBlock (envAt st chain) n b).run none P V).P.led.game
      (notifySeq st n chain (List.range' (h + 1) (k + 1)) (P, V)).1.led.game ∧
    AMap.Equiv ((opBlock (envAt st chain) n b).run none P V).P.led.txrecs
      (notifySeq st n chain (List.range' (h + 1) (k + 1)) (P, V)).1.led.txrecs ∧
    AMap.Equiv ((opBlock (envAt st chain) n b).run none P V).P.led.blocks
      (notifySeq st n chain (List.range' (h + 1) (k + 1)) (P, V)).1.led.blocks ∧
    AMap.Equiv ((opBlock (envAt st chain) n b).run none P V).P.led.sync
      (notifySeq st n chain (List.range' (h + 1) (k + 1)) (P, V)).1.led.sync ∧
    ((opBlock (envAt st chain) n b).run none P V).P.led.syncedTo =
      (notifySeq st n chain (List.range' (h + 1) (k + 1)) (P, V)).1.led.syncedTo ∧
    ((opBlock (envAt st chain) n b).run none P V).V.led.best =
      (notifySeq st n chain (List.range' (h + 1) (k + 1)) (P, V)).2.led.best := by
  have hlt : h + (k + 1) < chain.length := (List.getElem?_eq_some_iff.1 hb).1
  obtain ⟨o1, _, o3⟩ := start_block E hN hAR hne n hS.pks hS.vkeys hS.inv hS.best (hN.take h) hS.ready hb
  have q := notifySeq_reaches E hN hAR hne n (k + 1) h P V hS hlt
  obtain ⟨a, b', c, d, f, g, i, j⟩ := inv_functional o3.inv q.inv
  exact ⟨o1, o3, q, a, b', c, d, f, g, i, j, o3.best.trans q.best.symm⟩

end MW.Lemmas.Deepen3
