/-
  ADDRESS RECORDS = FIRST-USE HEIGHTS, part 2: ROLLBACK RESTORES THE CLAUSE.

  The rollback theorems of C01 (LedgerRbk … LedgerDisc2) say that `disconnectBlock` on the tip block succeeds
  and returns the mined buckets of the shorter chain; they say nothing about the address records (`rollbackAddr`
  only writes the address bucket, which nothing else reads). This file follows the SAME loops with the same
  hypotheses and tracks what happens to the records: every owned output whose credit is removed resets the
  record of its key to 0 if that record is the rolled-back height (`Reset`). Each lemma is about the (unique)
  successful result the corresponding `…_refines` lemma proves to exist.
    rollbackAddr_reset … rollbackOut_reset / rollbackCbOut_reset   loop bodies (syntactic)
    rollbackOuts_reset / rollbackCbOuts_reset / rollbackTx_reset    loops, one transaction
    rollbackOccs_reset, rollbackBlockAt_tip_reset, rollback_tip_reset  one block
    disconnect_addr       `disconnectBlock` on the tip block turns `AddrInv (chain ++ [b])` into `AddrInv chain`
-/
import MW.Lemmas.LedgerDisc2
import MW.Lemmas.LedgerFU
namespace MW.Lemmas.LedgerFU
open MW MW.Model.Ledger MW.Spec.Chain MW.Spec.Books MW.Lemmas.Ledger

-- ------------------------------------------------------------------ loop bodies

theorem rollbackAddr_reset (s : Store) (w : Wid) (o : Out) {H : Nat} (hH : 0 < H) :
    Reset H (fun k => k = (w, o.cls.isStaking, o.addr)) (gA s) (gA (rollbackAddr s w o H)) := by
  intro k
  unfold rollbackAddr gA
  simp only
  cases hg : AMap.get s.addrs (w, o.cls.isStaking, o.addr) with
  | none =>
    refine ⟨fun e => ?_, fun _ => rfl⟩
    subst e
    rw [hg]
    simp only [Option.getD_none]
    rw [if_neg (by omega)]
  | some h =>
    simp only
    by_cases hh : h = H
    · have hc : (decide (H > 0) && decide (h = H)) = true := by simp [hh, hH]
      rw [if_pos hc]
      simp only
      refine ⟨fun e => ?_, fun e => ?_⟩
      · subst e
        rw [AMap.get_put, hg]
        simp [hh]
      · rw [AMap.get_put]
        simp [Ne.symm e]
    · have hc : ¬ (decide (H > 0) && decide (h = H)) = true := by simp [hh]
      rw [if_neg hc]
      refine ⟨fun e => ?_, fun _ => rfl⟩
      subst e
      rw [hg]
      simp [hh]

theorem rollbackOwnedOut_reset {id : TxId} {bm : BlockMeta} {sb sb' : Store × Bals} {i : Nat} {o : Out} {w : Wid}
    (hH : 0 < bm.height) (h : rollbackOwnedOut id bm sb i o w = .ok sb') :
    Reset bm.height (fun k => k = (w, o.cls.isStaking, o.addr)) (gA sb.1) (gA sb'.1) := by
  unfold rollbackOwnedOut at h
  split at h
  · split at h
    · cases h
    · cases h
      exact rollbackAddr_reset { sb.1 with unspent := AMap.erase sb.1.unspent (w, id, i) } w o hH
  · cases h
    exact rollbackAddr_reset sb.1 w o hH

/-- `POut` for an output known to be owned -/
theorem POut_owned {own : Own} {o : Out} {w : Wid} {ch : Bool} (hr : o.cls ≠ .raw)
    (hg : AMap.get own o.addr = some (w, ch)) (k : AKey) :
    POut own o k ↔ k = (w, o.cls.isStaking, o.addr) := by
  unfold POut ownerOf
  simp only [hr, if_false, hg]
  constructor
  · rintro ⟨w', ch', h, rfl⟩; injection h with h; injection h with h1 h2; rw [h1]
  · intro h; exact ⟨w, ch, rfl, h⟩

theorem POut_none {own : Own} {o : Out} (h : ownerOf own o = none) (k : AKey) : ¬ POut own o k := by
  rintro ⟨w, ch, h', _⟩; rw [h] at h'; cases h'

/-- the TxOut loop body of Rollback (ordinary transaction): if the credit of output `i` is there and the output
    is owned, the record of its key is reset -/
theorem rollbackOut_reset {c : Ctx} {id : TxId} {blk : BlockMeta} {sb sb' : Store × Bals} {i : Nat} {o : Out}
    (hH : 0 < blk.height) (h : rollbackOut c id blk sb i o = .ok sb') :
    Reset blk.height (fun k => (AMap.get sb.1.credits ⟨id, blk, i⟩).isSome = true ∧ POut c.own o k)
      (gA sb.1) (gA sb'.1) := by
  cases hc : AMap.get sb.1.credits ⟨id, blk, i⟩ with
  | none =>
    rw [rollbackOut_miss hc] at h
    cases h
    exact (Reset.refl _ _).congr (fun k => by simp)
  | some cr =>
    by_cases hr : o.cls = .raw
    · unfold rollbackOut at h
      simp only [hc, hr, if_true] at h
      cases h
    · cases hg : AMap.get c.own o.addr with
      | none =>
        unfold rollbackOut at h
        simp only [hc, hr, if_false, hg] at h
        cases h
        have hno : ownerOf c.own o = none := by unfold ownerOf; simp [hr, hg]
        exact (Reset.of_eq (fun k => rfl)).congr (fun k => by simp [POut_none hno])
      | some wc =>
        obtain ⟨w, ch⟩ := wc
        rw [rollbackOut_owned hc hr hg] at h
        cases h1 : rollbackOwnedOut id blk (rollbackOutPre sb.1 id blk i cr, sb.2) i o w with
        | error e => rw [h1] at h; cases h
        | ok sb1 =>
          rw [h1, M_ok_bind] at h
          have hR := rollbackOwnedOut_reset hH h1
          have e : gA sb'.1 = gA sb1.1 := by
            by_cases hd : isDeposit o.cls = true
            · simp only [hd, if_true] at h; cases h; rfl
            · simp only [hd, Bool.false_eq_true, if_false] at h; cases h; rfl
          rw [e]
          exact hR.congr (fun k => by simp [POut_owned hr hg])

/-- the same for the coinbase TxOut loop body -/
theorem rollbackCbOut_reset {c : Ctx} {id : TxId} {blk : BlockMeta}
    {acc acc' : (Store × Bals) × List (TxId × Nat)} {i : Nat} {o : Out}
    (hH : 0 < blk.height) (h : rollbackCbOut c id blk acc i o = .ok acc') :
    Reset blk.height (fun k => (AMap.get acc.1.1.credits ⟨id, blk, i⟩).isSome = true ∧ POut c.own o k)
      (gA acc.1.1) (gA acc'.1.1) := by
  cases hc : AMap.get acc.1.1.credits ⟨id, blk, i⟩ with
  | none =>
    rw [rollbackCbOut_miss hc] at h
    cases h
    exact (Reset.refl _ _).congr (fun k => by simp)
  | some cr =>
    by_cases hr : o.cls = .raw
    · unfold rollbackCbOut at h
      simp only [hc, hr, if_true] at h
      cases h
    · cases hg : AMap.get c.own o.addr with
      | none =>
        unfold rollbackCbOut at h
        simp only [hc, hr, if_false, hg] at h
        cases h
        have hno : ownerOf c.own o = none := by unfold ownerOf; simp [hr, hg]
        exact (Reset.of_eq (fun k => rfl)).congr (fun k => by simp [POut_none hno])
      | some wc =>
        obtain ⟨w, ch⟩ := wc
        rw [rollbackCbOut_owned hc hr hg] at h
        cases h1 : rollbackOwnedOut id blk
            ({ acc.1.1 with credits := AMap.erase acc.1.1.credits ⟨id, blk, i⟩ }, acc.1.2) i o w with
        | error e => rw [h1] at h; cases h
        | ok sb1 =>
          rw [h1, M_ok_bind] at h
          have hR := rollbackOwnedOut_reset hH h1
          have e : gA acc'.1.1 = gA sb1.1 := by
            by_cases hd : isDeposit o.cls = true
            · simp only [hd, if_true] at h; cases h; rfl
            · simp only [hd, Bool.false_eq_true, if_false] at h; cases h; rfl
          rw [e]
          exact hR.congr (fun k => by simp [POut_owned hr hg])

/-- the TxIn loop body never touches the address bucket -/
theorem rollbackIn_addrs {c : Ctx} {id : TxId} {blk : BlockMeta} {sb sb' : Store × Bals} {cur : Nat} {i : Inp}
    (h : rollbackIn c id blk sb cur i = .ok sb') : sb'.1.addrs = sb.1.addrs := by
  unfold rollbackIn at h
  simp only at h
  repeat' split at h
  all_goals (cases h; try rfl)

theorem rollbackIns_addrs {c : Ctx} {id : TxId} {blk : BlockMeta} (is : List Inp) :
    ∀ (k : Nat) (sb sb' : Store × Bals), foldIdxM (rollbackIn c id blk) is k sb = .ok sb' →
      sb'.1.addrs = sb.1.addrs := by
  induction is with
  | nil => intro k sb sb' h; cases h; rfl
  | cons i is ih =>
    intro k sb sb' h
    rw [foldIdxM_cons] at h
    cases h1 : rollbackIn c id blk sb k i with
    | error e => rw [h1] at h; cases h
    | ok sb1 =>
      rw [h1, M_ok_bind] at h
      rw [ih _ _ _ h, rollbackIn_addrs h1]

-- ------------------------------------------------------------------ loops

/-- under the step facts of the TxOut loop the credit of an owned output is there -/
theorem outStep_present {c : Ctx} {t : Tx} {bm : BlockMeta} {Ys : Nat → Book} {j : Nat} {o : Out} {s : Store}
    (hst : OutStep c t bm Ys j o) (hR : AgreeR s (Ys j)) (k : AKey) (hk : POut c.own o k) :
    (AMap.get s.credits ⟨t.id, bm, j⟩).isSome = true := by
  obtain ⟨_, hL, hown, _⟩ := hst
  obtain ⟨w, ch, ho, _⟩ := hk
  obtain ⟨hmem, -, -⟩ := lookupU_some (hown w ch ho).1
  rw [hR.credits]
  have := hL.cred _ hmem
  change (Ys j).credits ⟨t.id, bm, j⟩ = _ at this
  rw [this]
  rfl

theorem rollbackOuts_reset {c : Ctx} {ready : List Wid} (hAR : AllReady c.own ready)
    {t : Tx} {bm : BlockMeta} (hH : 0 < bm.height) (Ys : Nat → Book)
    (hstep : ∀ j o, t.outs[j]? = some o → OutStep c t bm Ys j o) (os : List Out) :
    ∀ (j0 : Nat) (s : Store) (bals : Bals) (sb' : Store × Bals), os = t.outs.drop j0 → j0 ≤ t.outs.length →
      AgreeR s (Ys j0) → AgreeBal ready bals (Ys j0) →
      foldIdxM (rollbackOut c t.id bm) os j0 (s, bals) = .ok sb' →
      Reset bm.height (fun k => ∃ o ∈ os, POut c.own o k) (gA s) (gA sb'.1) := by
  induction os with
  | nil =>
    intro j0 s bals sb' _ _ _ _ h
    cases h
    exact (Reset.refl _ _).congr (fun k => by simp)
  | cons o os ih =>
    intro j0 s bals sb' hos _ hR hB h
    obtain ⟨ho, hos', hj1⟩ := drop_eq_cons_facts hos
    have hst := hstep j0 o ho
    obtain ⟨e, hL, hown, hnone⟩ := hst
    obtain ⟨sb1, h1, hR1, hB1, _⟩ := rollbackOut_refines hAR hL hR hB hown hnone
    rw [foldIdxM_cons, h1, M_ok_bind] at h
    have r1 := (rollbackOut_reset hH h1).congr (Q := POut c.own o)
      (fun k => ⟨fun h => h.2, fun h => ⟨outStep_present (hstep j0 o ho) hR k h, h⟩⟩)
    have r2 := ih (j0 + 1) sb1.1 sb1.2 sb' hos' hj1 (hR1.congr e.symm) (hB1.congrL e.symm) h
    exact (r1.trans r2).congr (fun k => by simp)

theorem rollbackCbOuts_reset {c : Ctx} {ready : List Wid} (hAR : AllReady c.own ready)
    {t : Tx} {bm : BlockMeta} (hH : 0 < bm.height) (Ys : Nat → Book)
    (hstep : ∀ j o, t.outs[j]? = some o → OutStep c t bm Ys j o) (os : List Out) :
    ∀ (j0 : Nat) (s : Store) (bals : Bals) (acc : List (TxId × Nat)) (r : (Store × Bals) × List (TxId × Nat)),
      os = t.outs.drop j0 → j0 ≤ t.outs.length →
      AgreeR s (Ys j0) → AgreeBal ready bals (Ys j0) →
      foldIdxM (rollbackCbOut c t.id bm) os j0 ((s, bals), acc) = .ok r →
      Reset bm.height (fun k => ∃ o ∈ os, POut c.own o k) (gA s) (gA r.1.1) := by
  induction os with
  | nil =>
    intro j0 s bals acc r _ _ _ _ h
    cases h
    exact (Reset.refl _ _).congr (fun k => by simp)
  | cons o os ih =>
    intro j0 s bals acc r hos _ hR hB h
    obtain ⟨ho, hos', hj1⟩ := drop_eq_cons_facts hos
    obtain ⟨e, hL, hown, hnone⟩ := hstep j0 o ho
    obtain ⟨sb1, acc1, h1, hR1, hB1, _⟩ := rollbackCbOut_refines (acc := acc) hAR hL hR hB hown hnone
    rw [foldIdxM_cons, h1, M_ok_bind] at h
    have r1 := (rollbackCbOut_reset hH h1).congr (Q := POut c.own o)
      (fun k => ⟨fun h => h.2, fun h => ⟨outStep_present (hstep j0 o ho) hR k h, h⟩⟩)
    have r2 := ih (j0 + 1) sb1.1 sb1.2 acc1 r hos' hj1 (hR1.congr e.symm) (hB1.congrL e.symm) h
    exact (r1.trans r2).congr (fun k => by simp)

-- ------------------------------------------------------------------ one transaction

theorem rollbackTx_reset {c : Ctx} {ready : List Wid} (hAR : AllReady c.own ready)
    {s : Store} {bals : Bals} {t : Tx} {bm : BlockMeta} {loc : BlkId × Nat} (hH : 0 < bm.height)
    (Xs Ys : Nat → Book)
    (hloc : c.node.txByFileLoc loc = some t) (hcb : t.cb = false)
    (hT : (Xs 0).txrecs (t.id, bm) = none)
    (hR : AgreeR s { Xs 0 with txrecs := upd (Xs 0).txrecs (t.id, bm) (some loc) })
    (hB : AgreeBal ready bals (Xs 0))
    (hins : ∀ k i, t.ins[k]? = some i → InStep c t bm Xs k i)
    (hglue : BookEq (Xs t.ins.length) (Ys 0))
    (houts : ∀ j o, t.outs[j]? = some o → OutStep c t bm Ys j o)
    {r : Store × Bals × List (TxId × Nat)} (h : rollbackTx c s bals bm t.id = .ok r) :
    Reset bm.height (PTx c.own t) (gA s) (gA r.1) := by
  have hrec : AMap.get s.txrecs (t.id, bm) = some loc := by
    rw [hR.txrecs]; simp only [upd_apply, if_true]
  have hR0 := agreeR_erase_txrec hT hR (AMap.put s.pending t.id t)
  obtain ⟨sb1, h1, hR1, hB1, _⟩ :=
    rollbackIns_refines hAR Xs hins t.ins 0 _ bals (by simp) (Nat.zero_le _) hR0 hB
  have ha1 := rollbackIns_addrs _ _ _ _ h1
  obtain ⟨sb2, h2, _, _, _⟩ :=
    rollbackOuts_refines hAR Ys houts t.outs 0 sb1.1 sb1.2 (by simp) (Nat.zero_le _) (hR1.congr hglue)
      (hB1.congrL hglue)
  have r2 := rollbackOuts_reset hAR hH Ys houts t.outs 0 sb1.1 sb1.2 sb2 (by simp) (Nat.zero_le _)
    (hR1.congr hglue) (hB1.congrL hglue) h2
  rw [rollbackTx_eq_tx hrec hloc hcb, h1, M_ok_bind] at h
  have h' : (foldIdxM (rollbackOut c t.id bm) t.outs 0 (sb1.1, sb1.2) >>= fun sb => pure (sb.1, sb.2, [])) = .ok r := h
  rw [h2, M_ok_bind] at h'
  cases h'
  have e : gA sb1.1 = gA s := by
    funext k; unfold gA; rw [ha1]
  rw [e] at r2
  exact r2

theorem rollbackTx_reset_cb {c : Ctx} {ready : List Wid} (hAR : AllReady c.own ready)
    {s : Store} {bals : Bals} {t : Tx} {bm : BlockMeta} {loc : BlkId × Nat} (hH : 0 < bm.height)
    (Ys : Nat → Book)
    (hloc : c.node.txByFileLoc loc = some t) (hcb : t.cb = true)
    (hT : (Ys 0).txrecs (t.id, bm) = none)
    (hR : AgreeR s { Ys 0 with txrecs := upd (Ys 0).txrecs (t.id, bm) (some loc) })
    (hB : AgreeBal ready bals (Ys 0))
    (houts : ∀ j o, t.outs[j]? = some o → OutStep c t bm Ys j o)
    {r : Store × Bals × List (TxId × Nat)} (h : rollbackTx c s bals bm t.id = .ok r) :
    Reset bm.height (PTx c.own t) (gA s) (gA r.1) := by
  have hrec : AMap.get s.txrecs (t.id, bm) = some loc := by
    rw [hR.txrecs]; simp only [upd_apply, if_true]
  have hR0 := agreeR_erase_txrec hT hR s.pending
  obtain ⟨sb2, acc2, h2, _, _, _⟩ :=
    rollbackCbOuts_refines hAR Ys houts t.outs 0 _ bals [] (by simp) (Nat.zero_le _) hR0 hB
  have r2 := rollbackCbOuts_reset hAR hH Ys houts t.outs 0 _ bals [] (sb2, acc2) (by simp) (Nat.zero_le _)
    hR0 hB h2
  rw [rollbackTx_eq_cb hrec hloc hcb] at h
  have h' : (foldIdxM (rollbackCbOut c t.id bm) t.outs 0
      (({ s with txrecs := AMap.erase s.txrecs (t.id, bm), pending := s.pending }, bals), []) >>=
        fun r => pure (r.1.1, r.1.2, r.2)) = .ok r := h
  rw [h2, M_ok_bind] at h'
  cases h'
  exact r2

/-- ONE TRANSACTION: rolling back the record of a touching transaction resets the keys of its owned outputs
    (hypotheses of `rollbackTx_applyOcc`) -/
theorem rollbackTx_applyOcc_reset {c : Ctx} {ready : List Wid} (hAR : AllReady c.own ready)
    {P : List Occ} {B : Book} {oc : Occ} {s : Store} {bals : Bals} (hH : 0 < oc.bm.height)
    (hL : Loc c.p c.own B) (hG : LocG B) (hW : LocW B) (hGl : Glob c.own P B) (h2 : Glob2 P B)
    (hV : OccValid c.own P oc) (ht : touches c.own B oc.t = true)
    (hloc : c.node.txByFileLoc (oc.bm.hash, oc.ti) = some oc.t)
    (hR : AgreeR s (applyOcc c.p c.own B oc)) (hB : AgreeBal ready bals (applyOcc c.p c.own B oc))
    {r : Store × Bals × List (TxId × Nat)} (h : rollbackTx c s bals oc.bm oc.t.id = .ok r) :
    Reset oc.bm.height (PTx c.own oc.t) (gA s) (gA r.1) := by
  have e := applyOcc_bookEq_mid (p := c.p) (own := c.own) (B := B) (oc := oc) ht
  have hR0 := hR.congr e
  have hB0 : AgreeBal ready bals (Mid c.p c.own B oc 0 0) := by
    intro w hw; rw [← e.L]; exact hB w hw
  have hT : (Mid c.p c.own B oc 0 0).txrecs (oc.t.id, oc.bm) = none := by
    rw [mid_txrecs]; exact (glob_fresh hGl hV oc.bm 0).2.2
  by_cases hcb : oc.t.cb = true
  · have houts : ∀ j o, oc.t.outs[j]? = some o → OutStep c oc.t oc.bm (fun j => Mid c.p c.own B oc 0 j) j o := by
      intro j o ho
      obtain ⟨h1, h2', h3, h4, _⟩ := mid_out_step (k := 0) hL hG hW hGl h2 hV (Or.inl hcb) ho
      exact ⟨h1, h2', h3, h4⟩
    exact rollbackTx_reset_cb hAR hH (fun j => Mid c.p c.own B oc 0 j) hloc hcb hT hR0 hB0 houts h
  · have hcb' : oc.t.cb = false := by simpa using hcb
    have hins : ∀ k i, oc.t.ins[k]? = some i → InStep c oc.t oc.bm (fun k => Mid c.p c.own B oc k 0) k i := by
      intro k i hi
      obtain ⟨h1, h2', h3, h4, h5, _⟩ := mid_in_step hL hG hW hGl h2 hV hcb' hi
      exact ⟨h1, h2', h3, h4, h5⟩
    have houts : ∀ j o, oc.t.outs[j]? = some o →
        OutStep c oc.t oc.bm (fun j => Mid c.p c.own B oc oc.t.ins.length j) j o := by
      intro j o ho
      obtain ⟨h1, h2', h3, h4, _⟩ :=
        mid_out_step (k := oc.t.ins.length) hL hG hW hGl h2 hV (Or.inr (Nat.le_refl _)) ho
      exact ⟨h1, h2', h3, h4⟩
    exact rollbackTx_reset hAR hH (fun k => Mid c.p c.own B oc k 0) (fun j => Mid c.p c.own B oc oc.t.ins.length j)
      hloc hcb' hT hR0 hB0 hins (BookEq.refl _) houts h

-- ------------------------------------------------------------------ one block

/-- a transaction that does not touch the books pays no owned address -/
theorem not_PTx_of_untouched {own : Own} {B : Book} {t : Tx} (h : touches own B t = false) (k : AKey) :
    ¬ PTx own t k := by
  rintro ⟨o, ho, w, ch, hw, _⟩
  unfold touches at h
  rw [Bool.or_eq_false_iff] at h
  have := h.2
  rw [List.any_eq_false] at this
  have := this o ho
  rw [hw] at this
  simp at this

theorem rollbackOccs_reset_rev {c : Ctx} {ready : List Wid} (hAR : AllReady c.own ready) (bm : BlockMeta)
    (hH : 0 < bm.height) {P0 : List Occ} {B0 : Book}
    (hL : Loc c.p c.own B0) (hG : LocG B0) (hW : LocW B0) (hGl : Glob c.own P0 B0) (h2 : Glob2 P0 B0)
    (r : List Occ) :
    ∀ (acc acc' : RbAcc), ValidFrom c.own P0 r.reverse → (∀ oc ∈ r, OccFacts c bm oc) →
      AgreeR acc.s (r.reverse.foldl (applyOcc c.p c.own) B0) →
      AgreeBal ready acc.bals (r.reverse.foldl (applyOcc c.p c.own) B0) →
      (touchIds c.p c.own B0 r.reverse).reverse.foldlM (rbStep c bm) acc = .ok acc' →
      Reset bm.height (fun k => ∃ oc ∈ r, PTx c.own oc.t k) (gA acc.s) (gA acc'.s) := by
  induction r with
  | nil =>
    intro acc acc' _ _ _ _ h
    cases h
    exact (Reset.refl _ _).congr (fun k => by simp)
  | cons oc r ih =>
    intro acc acc' hV hF hR hB h
    rw [List.reverse_cons] at hV hR hB h
    rw [List.foldl_append] at hR hB
    simp only [List.foldl_cons, List.foldl_nil] at hR hB
    obtain ⟨hV1, hV2⟩ := validFrom_append.1 hV
    have hVoc : OccValid c.own (P0 ++ r.reverse) oc := hV2.1
    obtain ⟨hbm, hloc⟩ := hF oc (List.mem_cons_self ..)
    have hF' : ∀ oc' ∈ r, OccFacts c bm oc' := fun oc' h => hF oc' (List.mem_cons_of_mem _ h)
    have hGl1 := glob_fold (p := c.p) hGl hV1
    have h21 := glob2_fold (p := c.p) h2 hGl hV1
    obtain ⟨hL1, hG1⟩ := loc_fold (p := c.p) hL hG hGl hV1
    have hW1 := locW_fold (p := c.p) hW hL hG hGl h2 hV1
    rw [touchIds_snoc] at h
    by_cases ht : touches c.own (r.reverse.foldl (applyOcc c.p c.own) B0) oc.t = true
    · rw [if_pos ht, List.reverse_append, List.reverse_singleton, List.singleton_append, List.foldlM_cons] at h
      obtain ⟨s1, bals1, rem, hrun, hR1, hB1, _⟩ :=
        rollbackTx_applyOcc hAR hL1 hG1 hW1 hGl1 h21 hVoc ht hloc hR hB
      have r1 := rollbackTx_applyOcc_reset hAR (by rw [hbm]; exact hH) hL1 hG1 hW1 hGl1 h21 hVoc ht hloc hR hB hrun
      rw [hbm] at hrun r1
      rw [rbStep_ok hrun] at h
      have r2 := ih { acc with s := s1, bals := bals1, cb := acc.cb ++ rem } acc' hV1 hF' hR1 hB1 h
      exact (r1.trans r2).congr (fun k => by simp)
    · have ht' : touches c.own (r.reverse.foldl (applyOcc c.p c.own) B0) oc.t = false := by simpa using ht
      rw [if_neg ht, List.append_nil] at h
      rw [applyOcc_untouched ht'] at hR hB
      have r2 := ih acc acc' hV1 hF' hR hB h
      exact r2.congr (fun k => by simp [not_PTx_of_untouched ht' k])

theorem rollbackOccs_reset {c : Ctx} {ready : List Wid} (hAR : AllReady c.own ready) (bm : BlockMeta)
    (hH : 0 < bm.height) {P0 : List Occ} {B0 : Book} (ocs : List Occ)
    (hL : Loc c.p c.own B0) (hG : LocG B0) (hW : LocW B0) (hGl : Glob c.own P0 B0) (h2 : Glob2 P0 B0)
    (hV : ValidFrom c.own P0 ocs) (hF : ∀ oc ∈ ocs, OccFacts c bm oc) (acc acc' : RbAcc)
    (hR : AgreeR acc.s (ocs.foldl (applyOcc c.p c.own) B0))
    (hB : AgreeBal ready acc.bals (ocs.foldl (applyOcc c.p c.own) B0))
    (h : (touchIds c.p c.own B0 ocs).reverse.foldlM (rbStep c bm) acc = .ok acc') :
    Reset bm.height (fun k => ∃ oc ∈ ocs, PTx c.own oc.t k) (gA acc.s) (gA acc'.s) := by
  have := rollbackOccs_reset_rev hAR bm hH hL hG hW hGl h2 ocs.reverse acc acc'
  rw [List.reverse_reverse] at this
  exact (this hV (fun oc h => hF oc (List.mem_reverse.1 h)) hR hB h).congr (fun k => by simp)

/-- Rollback's outer-loop iteration at the height of the tip block (hypotheses of `rollbackBlockAt_tip`) -/
theorem rollbackBlockAt_tip_reset {c : Ctx} {ready : List Wid} (hAR : AllReady c.own ready)
    {chain : List Block} {b : Block} (hV : ChainValid c.own (chain ++ [b])) (hH : HeightsOK (chain ++ [b]))
    (hk : AMap.get c.node.known b.id = some b) (hpos : 0 < b.height) (acc acc' : RbAcc)
    (hR : AgreeR acc.s (bookOf c.p c.own (chain ++ [b])))
    (hblk : AMap.get acc.s.blocks b.height = (bookOf c.p c.own (chain ++ [b])).blocks b.height)
    (hB : AgreeBal ready acc.bals (bookOf c.p c.own (chain ++ [b])))
    (h : rollbackBlockAt c acc b.height = .ok acc') :
    Reset b.height (PBlk c.own b) (gA acc.s) (gA acc'.s) := by
  rw [bookOf_blocks_snoc c.p c.own chain b hH] at hblk
  rw [rollbackBlockAt_eq] at h
  have hVc : ChainValid c.own chain := chainValid_prefix hV
  obtain ⟨hL, hG⟩ := loc_bookOf (p := c.p) hVc
  have hW := locW_bookOf (p := c.p) hVc
  have hGl := glob_bookOf (p := c.p) hVc
  have h2 := glob2_bookOf (p := c.p) hVc
  rw [bookOf_snoc] at hR hB
  cases htl : touchIds c.p c.own (bookOf c.p c.own chain) (occsOfBlock b) with
  | nil =>
    rw [htl] at hblk
    have hblk' : AMap.get acc.s.blocks b.height = none := hblk
    simp only [hblk'] at h
    cases h
    have := rollbackOccs_reset hAR ⟨b.height, b.id⟩ hpos (occsOfBlock b) hL hG hW hGl h2 (validFrom_tip hV)
      (occFacts_of_known hk) acc acc hR hB (by rw [htl]; rfl)
    exact this.congr (exists_occ_iff c.own b)
  | cons x xs =>
    rw [htl] at hblk
    have hblk' : AMap.get acc.s.blocks b.height = some (b.id, x :: xs) := hblk
    simp only [hblk'] at h
    have := rollbackOccs_reset hAR ⟨b.height, b.id⟩ hpos (occsOfBlock b) hL hG hW hGl h2 (validFrom_tip hV)
      (occFacts_of_known hk) { acc with heights := acc.heights ++ [b.height] } acc' hR hB (by rw [htl]; exact h)
    exact this.congr (exists_occ_iff c.own b)

theorem foldl_eraseBlocks_addrs (hs : List Nat) :
    ∀ (s : Store), (hs.foldl (fun s h => { s with blocks := AMap.erase s.blocks h }) s).addrs = s.addrs := by
  induction hs with
  | nil => intro s; rfl
  | cons h hs ih => intro s; rw [List.foldl_cons, ih]

/-- `TxStore.Rollback(b.height)` on the store of `chain ++ [b]` resets the keys the block pays -/
theorem rollback_tip_reset {c : Ctx} {s s1 : Store} {chain : List Block} {b : Block}
    (hI : Inv c s (chain ++ [b])) (hV : ChainValid c.own (chain ++ [b])) (hH : HeightsOK (chain ++ [b]))
    (hk : AMap.get c.node.known b.id = some b) (hAR : AllReady c.own (readyWallets s c.wallets))
    (hpos : 0 < b.height) (h : rollback c s b.height = .ok s1) :
    Reset b.height (PBlk c.own b) (gA s) (gA s1) := by
  have hbh : b.height = chain.length := heightsOK_mid hH
  have hst : s.syncedTo = b.height := by
    have := hI.syncedTo
    simp only [List.length_append, List.length_singleton] at this
    omega
  have hhs : (List.range (s.syncedTo + 1 - b.height)).map (fun k => s.syncedTo - k) = [b.height] := by
    rw [hst, show b.height + 1 - b.height = 1 by omega]
    simp [List.range_succ]
  obtain ⟨acc', hrun, _, _, _, _⟩ :=
    rollbackBlockAt_tip hAR hV hH hk { s := s, bals := s.balance } hI.agree.toR (hI.agree.blocks b.height)
      (fun w hw => hI.bal w hw)
  have r1 := rollbackBlockAt_tip_reset hAR hV hH hk hpos { s := s, bals := s.balance } acc' hI.agree.toR
    (hI.agree.blocks b.height) (fun w hw => hI.bal w hw) hrun
  unfold rollback at h
  rw [hhs] at h
  simp only [List.foldlM_cons, List.foldlM_nil] at h
  rw [hrun] at h
  simp only [M_ok_bind, M_pure_eq, Except.ok.injEq] at h
  have e : gA s1 = gA acc'.s := by
    funext k
    unfold gA
    rw [← h]
    simp only
    have hME : MinedEq (acc'.heights.foldl (fun s h => { s with blocks := AMap.erase s.blocks h }) acc'.s)
        (acc'.cb.foldl (purgeSpenders c.own)
          (acc'.heights.foldl (fun s h => { s with blocks := AMap.erase s.blocks h }) acc'.s)) :=
      minedEq_foldl _ _ _ (fun s a _ => minedEq_purgeSpenders c.own s a)
    rw [hME.addrs, foldl_eraseBlocks_addrs]
  rw [e]
  exact r1

/-- DISCONNECT RESTORES THE ADDRESS CLAUSE: under the hypotheses of `DisconnectSpec`, the store
    `disconnectBlock` returns for the tip block holds the first-use heights of the shorter chain: the records
    whose first use was the rolled-back block are 0 again, every other record is untouched. -/
theorem disconnect_addr {c : Ctx} {s s' : Store} {chain : List Block} {b : Block}
    (hI : Inv c s (chain ++ [b])) (hA : AddrInv c s (chain ++ [b])) (hne : chain ≠ [])
    (hV : ChainValid c.own (chain ++ [b])) (hH : HeightsOK (chain ++ [b]))
    (hk : AMap.get c.node.known b.id = some b) (hAR : AllReady c.own (readyWallets s c.wallets))
    (h : disconnectBlock c s b.height = .ok s') : AddrInv c s' chain := by
  have hbh : b.height = chain.length := heightsOK_mid hH
  have hlen : chain.length ≠ 0 := fun h => hne (List.eq_nil_of_length_eq_zero h)
  have h0 : b.height ≠ 0 := by omega
  have hst : s.syncedTo = b.height := by
    have := hI.syncedTo
    simp only [List.length_append, List.length_singleton] at this
    omega
  obtain ⟨s1, hrun, _⟩ := rollback_tip hI hV hH hk hAR
  have r1 := rollback_tip_reset hI hV hH hk hAR (by omega) hrun
  have hnot : ¬ b.height > s.syncedTo := by omega
  unfold disconnectBlock at h
  simp only [h0, if_false, hnot] at h
  rw [hrun, M_ok_bind] at h
  simp only [M_pure_eq, Except.ok.injEq] at h
  have e : gA s' = gA s1 := by
    funext k
    unfold gA
    rw [← h]
    rfl
  intro k
  rw [e]
  rw [hbh] at r1
  exact reset_recOf hne (fun k => hA k) r1 k

end MW.Lemmas.LedgerFU
