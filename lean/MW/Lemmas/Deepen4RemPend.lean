/-
  C06 deepening (round 4), part 4b: AN UNCONFIRMED TRANSACTION INSIDE A REMOVAL WINDOW keeps `JR`.
  The unconfirmed path writes pending buckets only (`recvTx_mined`), so every field of C08's `Mid` but the last
  transfers along `MinedEq`; the last one, `pendOff` (no unmined credit belongs to a transaction of the followed
  chain), needs a frame lemma on the bucket `pendCred` (`recvTx_pendCred`: every entry of the new bucket is an old
  entry or an output of the delivered transaction) and the hypothesis that the node never hands the wallet a
  transaction that is already in one of the chains it has had.
-/
import MW.Lemmas.Deepen4Removal
namespace MW.Lemmas.Deepen4
open MW MW.Model.Ledger MW.Model.Persist MW.Spec.Persist MW.Spec.Chain MW.Spec.Books MW.Lemmas.Ledger
  MW.Lemmas.PersistOp MW.Lemmas.PersistFault MW.Lemmas.PersistCrash MW.Lemmas.Deepen3 MW.Lemmas.ImportJoin

-- ------------------------------------------------------------------ the record built by filterTx is about `tx`

theorem rp_foldIdxM_inv {α β : Type} (Q : β → Prop) (f : β → Nat → α → M β)
    (hf : ∀ a i x b', Q a → f a i x = .ok b' → Q b') :
    ∀ (l : List α) (n : Nat) (b b' : β), Q b → foldIdxM f l n b = .ok b' → Q b' := by
  intro l
  induction l with
  | nil => intro n b b' hb h; cases h; exact hb
  | cons x l ih =>
    intro n b b' hb h
    unfold foldIdxM at h
    simp only [bind, Except.bind] at h
    split at h
    · cases h
    · rename_i b1 h1
      exact ih _ _ _ (hf _ _ _ _ hb h1) h

theorem rp_foldIdx_inv {α β : Type} (Q : β → Prop) (f : β → Nat → α → β) (hf : ∀ a i x, Q a → Q (f a i x)) :
    ∀ (l : List α) (n : Nat) (b : β), Q b → Q (foldIdx f l n b) := by
  intro l
  induction l with
  | nil => intro n b hb; exact hb
  | cons x l ih => intro n b hb; rw [foldIdx_cons]; exact ih _ _ (hf _ _ _ hb)

theorem rp_filterIn_tx (c : Ctx) (s : Store) (mined : Bool) (inBlk : List Tx) (ready : List Wid)
    (tr tr' : TxRec) (cur : Nat) (i : Inp) (h : filterIn c s mined inBlk ready tr cur i = .ok tr') :
    tr'.tx = tr.tx := by
  unfold filterIn at h
  simp only [throw, throwThe, MonadExceptOf.throw, pure, Except.pure] at h
  repeat' split at h
  all_goals first | (cases h; done) | (cases h; rfl)

theorem rp_filterOut_tx (c : Ctx) (ready : List Wid) (tr : TxRec) (cur : Nat) (o : Out) :
    (filterOut c ready tr cur o).tx = tr.tx := by
  unfold filterOut
  repeat' split
  all_goals rfl

theorem rp_filterTxRel_tx (c : Ctx) (s : Store) (tx : Tx) (mined : Bool) (inBlk : List Tx) (ready : List Wid)
    (tr : TxRec) (h : filterTxRel c s tx mined inBlk ready = .ok (some tr)) : tr.tx = tx := by
  rw [MW.Lemmas.Ledger.filterTxRel_eq] at h
  simp only [bind, Except.bind] at h
  split at h
  · cases h
  · rename_i tr1 h1
    have e1 : tr1.tx = tx := by
      split at h1
      · cases h1; rfl
      · exact rp_foldIdxM_inv (fun (a : TxRec) => a.tx = tx) _
          (fun a i x b' ha hf => (rp_filterIn_tx c s mined inBlk ready a b' i x hf).trans ha) _ _ _ _ rfl h1
    have e2 : (foldIdx (filterOut c ready) tx.outs 0 tr1).tx = tx :=
      rp_foldIdx_inv (fun (a : TxRec) => a.tx = tx) _ (fun a i x ha => (rp_filterOut_tx c ready a i x).trans ha) _ _ _ e1
    split at h
    · cases h
    · split at h
      · cases h
      · cases h; exact e2

-- ------------------------------------------------------------------ the bucket `pendCred` on the unconfirmed path

theorem rp_mem_put {K V : Type} [DecidableEq K] (m : AMap.T K V) (k : K) (v : V) (e : K × V)
    (h : e ∈ AMap.put m k v) : e ∈ m ∨ e.1 = k := by
  unfold AMap.put at h
  rcases List.mem_cons.1 h with h | h
  · right; rw [h]
  · left
    unfold AMap.erase at h
    exact (List.mem_filter.1 h).1

theorem rp_foldl_pendCred {α : Type} (f : Store → α → Store) (hf : ∀ s a, (f s a).pendCred = s.pendCred) :
    ∀ (l : List α) (s : Store), (l.foldl f s).pendCred = s.pendCred := by
  intro l
  induction l with
  | nil => intro s; rfl
  | cons a l ih => intro s; rw [List.foldl_cons, ih, hf]

theorem insertUnminedInputs_pendCred (s : Store) (tr : TxRec) : (insertUnminedInputs s tr).pendCred = s.pendCred := by
  unfold insertUnminedInputs
  refine rp_foldl_pendCred _ ?_ _ _
  intro _ _; rfl

/-- addUnminedCredits: every entry of the new bucket is an old entry or an output of the transaction -/
theorem addUnminedCredits_pendCred (s s' : Store) (tr : TxRec) (h : addUnminedCredits s tr = .ok s') :
    ∀ e ∈ s'.pendCred, e ∈ s.pendCred ∨ e.1.1 = tr.tx.id := by
  unfold addUnminedCredits at h
  simp only [bind, Except.bind, pure, Except.pure] at h
  split at h
  · cases h
  · rename_i s1 hs1
    cases h
    have h1 : ∀ (l : List Rel) (a b : Store), l.foldlM (addUnminedCredit tr) a = .ok b →
        ∀ e ∈ b.pendCred, e ∈ a.pendCred ∨ e.1.1 = tr.tx.id := by
      intro l
      induction l with
      | nil => intro a b hab; cases hab; intro e he; exact Or.inl he
      | cons r l ih =>
        intro a b hab
        rw [List.foldlM_cons] at hab
        simp only [bind, Except.bind] at hab
        split at hab
        · cases hab
        · rename_i a1 ha1
          have hstep : ∀ e ∈ a1.pendCred, e ∈ a.pendCred ∨ e.1.1 = tr.tx.id := by
            unfold addUnminedCredit at ha1
            split at ha1
            · cases ha1
            · split at ha1
              · cases ha1
              · cases ha1
                intro e he
                rcases rp_mem_put _ _ _ e he with h | h
                · exact Or.inl h
                · right; rw [h]
          intro e he
          rcases ih _ _ hab e he with h | h
          · exact hstep e h
          · exact Or.inr h
    intro e he
    have hg : ∀ (l : List Rel) (a : Store), (l.foldl (fun s rel =>
        { s with pendGame := AMap.put s.pendGame (rel.wallet, rel.out.cls.isBinding, tr.tx.id, rel.index) () }) a).pendCred =
        a.pendCred := by
      intro l a
      refine rp_foldl_pendCred _ ?_ _ _
      intro _ _; rfl
    rw [hg] at he
    exact h1 _ _ _ hs1 e he

/-- insertMemPoolTx + AddCredits(block = nil): the same -/
theorem addRelevantUnmined_pendCred (s s' : Store) (tr : TxRec) (h : addRelevantUnmined s tr = .ok s') :
    ∀ e ∈ s'.pendCred, e ∈ s.pendCred ∨ e.1.1 = tr.tx.id := by
  unfold addRelevantUnmined at h
  split at h
  · cases h
  · split at h
    · split at h
      · cases h; intro e he; exact Or.inl he
      · exact addUnminedCredits_pendCred _ _ _ h
    · dsimp only at h
      have h0 : (insertUnminedInputs { s with pending := AMap.put s.pending tr.tx.id tr.tx } tr).pendCred = s.pendCred :=
        insertUnminedInputs_pendCred _ tr
      split at h
      · cases h; intro e he; rw [h0] at he; exact Or.inl he
      · intro e he
        rcases addUnminedCredits_pendCred _ _ _ h e he with h' | h'
        · rw [h0] at h'; exact Or.inl h'
        · exact Or.inr h'

/-- THE FRAME LEMMA: the unconfirmed path adds to `pendCred` only outputs of the delivered transaction (and deletes
    nothing that is not overwritten by one) -/
theorem recvTx_pendCred (env : Model.Persist.Env) (nR nW : Nat) (tx : Tx) (P : PStore) (V : PVol) :
    ∀ e ∈ (Model.Persist.recvTx env nR nW none tx P V).P.led.pendCred, e ∈ P.led.pendCred ∨ e.1.1 = tx.id := by
  unfold Model.Persist.recvTx
  simp only [Bool.false_eq_true, if_false]
  by_cases hm : V.led.mempool.contains tx.id = true
  · rw [if_pos hm]; intro e he; exact Or.inl he
  · rw [if_neg hm]
    cases hf : filterTxRel (ctxOf env V) P.led tx false [] (readyWallets P.led (ctxOf env V).wallets) with
    | error e => intro e he; exact Or.inl he
    | ok o =>
      cases o with
      | none => intro e he; exact Or.inl he
      | some tr =>
        have htx : tr.tx = tx := rp_filterTxRel_tx _ _ _ _ _ _ _ hf
        simp only [Option.map]
        rw [run_single_none nW _ (opAddUnmined nW tr) rfl P V]
        cases ha : addRelevantUnmined P.led tr with
        | error e =>
          simp
          intro a b v hmem
          exact Or.inl hmem
        | ok s' =>
          simp
          intro a b v hmem
          have := addRelevantUnmined_pendCred _ _ _ ha ((a, b), v) hmem
          rw [htx] at this
          exact this

-- ------------------------------------------------------------------ `Mid` along `MinedEq`

/-- C08's in-progress invariant reads mined buckets only, but for its last field -/
theorem mid_minedEq {c : Ctx} {w : Wid} {addrs : List Addr} {own' : Own} {s s' : Store} {X : List Block}
    (h : MinedEq s s') (hM : MW.Lemmas.RemoveInv.Mid c w addrs own' s X)
    (hp : ∀ e ∈ s'.pendCred, e.1.1 ∉ idsOf (occs X)) : MW.Lemmas.RemoveInv.Mid c w addrs own' s' X := by
  refine ⟨?_, ?_, ?_, ?_, ?_, ?_, ?_, ?_, ?_, ?_, ?_, ?_, hp⟩
  · rw [h.credits]; exact hM.nodup
  · intro k; rw [h.credits]; exact hM.credits k
  · intro dk; rw [h.debits]; exact hM.debits dk
  · intro dk d cr; rw [h.debits, h.credits]; exact hM.debitsW dk d cr
  · intro w' tx idx; rw [h.unspent]; exact hM.unspent w' tx idx
  · intro k; rw [h.game]; exact hM.game k
  · intro k; rw [h.txrecs]; exact hM.txrecs k
  · intro k loc; rw [h.txrecs, h.credits]; exact hM.txrecsW k loc
  · intro hh; rw [h.blocks, h.txrecs]; exact hM.blocks hh
  · intro w' hw'
    rw [h.balance]
    apply hM.bal w'
    rw [← readyWallets_congr h.status]; exact hw'
  · intro hh; rw [h.sync]; exact hM.sync hh
  · rw [h.syncedTo]; exact hM.syncedTo

theorem idsOf_occs_prefix {X c : List Block} (h : X <+: c) {i : TxId} (hi : i ∈ idsOf (occs X)) : i ∈ idsOf (occs c) := by
  obtain ⟨t, rfl⟩ := h
  rw [occs_append]
  unfold idsOf at hi ⊢
  rw [List.map_append]
  exact List.mem_append_left _ hi

-- ------------------------------------------------------------------ the event

/-- AN UNCONFIRMED TRANSACTION inside a removal window — delivered at any time, relevant or not — keeps `JR`, provided
    it is not a transaction of any chain the node has had (the node hands the wallet what its mempool accepted, never
    a transaction that is already in its chain) -/
theorem JR_recvTx {cfg : Cfg} {G : Block} (cr : Bool) {x : SysQ} {k : Skel} {w : Wid} (tx : Tx) (hJ : JR cfg G x k w)
    (hfresh : ∀ c ∈ k.hist, tx.id ∉ idsOf (occs c)) :
    JR cfg G (stepQ cfg.st cfg.n cr x (.recvTx tx)) k w := by
  obtain ⟨m1, m2⟩ := recvTx_mined (envAt cfg.st x.chain) cfg.n cfg.n tx x.P x.V
  obtain ⟨f1, f2⟩ := recvTx_frame (envAt cfg.st x.chain) cfg.n cfg.n tx x.P x.V
  have f3 := recvTx_tasks (envAt cfg.st x.chain) cfg.n cfg.n tx x.P x.V
  have f4 := recvTx_pendCred (envAt cfg.st x.chain) cfg.n cfg.n tx x.P x.V
  have h1 : stepQ cfg.st cfg.n cr x (.recvTx tx) =
      { x with P := (Model.Persist.recvTx (envAt cfg.st x.chain) cfg.n cfg.n none tx x.P x.V).P,
               V := (Model.Persist.recvTx (envAt cfg.st x.chain) cfg.n cfg.n none tx x.P x.V).V } := rfl
  rcases hJ with hM | ⟨hQ, hgone, hnA⟩
  · left
    obtain ⟨hc, hks, hkeys, hnW, hnA, hrec, ⟨stt, hst, hrm⟩, htask, ⟨X, hX, hMid, hv, ⟨c, hcm, hXc⟩, hq0⟩, hqk, hql, hN, hcur,
      hoth, hother⟩ := hM
    rw [h1]
    refine ⟨hc, m1.trans hks, f2.trans hkeys, hnW, hnA, hrec, ⟨stt, by rw [m2.status]; exact hst, hrm⟩,
      by rw [f3]; exact htask, ⟨X, hX, mid_minedEq m2 hMid ?_, f1.trans hv, ⟨c, hcm, hXc⟩, hq0⟩, hqk, hql, hN, hcur, ?_, hother⟩
    · intro e he
      rcases f4 e he with h | h
      · exact hMid.pendOff e h
      · rw [h]
        exact fun hi => hfresh c hcm (idsOf_occs_prefix hXc hi)
    · intro w' hw' hne
      show readyB (Model.Persist.recvTx (envAt cfg.st x.chain) cfg.n cfg.n none tx x.P x.V).P.led w' = true
      rw [readyB_status (s := x.P.led) (by rw [m2.status])]; exact hoth w' hw' hne
  · right
    refine ⟨JQ_recvTx cfg.n cr tx hQ, ?_, hnA⟩
    rw [h1]
    show AMap.get (Model.Persist.recvTx (envAt cfg.st x.chain) cfg.n cfg.n none tx x.P x.V).P.led.status w = none
    rw [m2.status]; exact hgone

end MW.Lemmas.Deepen4
