/-
  C09, history level: what disconnecting the TIP block does to the pending buckets, up to the final purge of
  the spenders of removed coinbase outputs (`rollback_phase`).
    rollbackTx_nc      one non-coinbase record: back into the pending set (lookups, spender index, PendWF)
    rollbackTx_cb      one coinbase record: pending side untouched, the removed credits are collected
    rbLoop             the inner loop of Rollback over the recorded ids of the block
    rollback_phase     disconnectBlock at the tip = loop ; erase block records ; purge ; mined-side rest
-/
import MW.Lemmas.PendHistDefs
import MW.Lemmas.LedgerPendingRollback
import MW.Lemmas.LedgerPendingConfirm
namespace MW.Lemmas.PendHist
open MW MW.Model.Ledger MW.Spec.Pending MW.Lemmas.LedgerPending

-- ------------------------------------------------------------------ frames of the loop bodies

/-- presence of a credit record -/
def hasCred (s : Store) (k : CredKey) : Bool := (AMap.get s.credits k).isSome

theorem rollbackAddr_txrecs (s : Store) (w : Wid) (o : Out) (h : Nat) : (rollbackAddr s w o h).txrecs = s.txrecs := by
  unfold rollbackAddr
  simp only []
  split
  · split <;> rfl
  · rfl

theorem rollbackOwnedOut_txrecs (id : TxId) (blk : BlockMeta) (sb sb' : Store × Bals) (i : Nat) (o : Out) (w : Wid)
    (h : rollbackOwnedOut id blk sb i o w = .ok sb') : sb'.1.txrecs = sb.1.txrecs := by
  unfold rollbackOwnedOut at h
  split at h
  · split at h
    · cases h
    · simp only [pure, Except.pure, Except.ok.injEq] at h
      rw [← h]; exact rollbackAddr_txrecs _ _ _ _
  · simp only [pure, Except.pure, Except.ok.injEq] at h
    rw [← h]; exact rollbackAddr_txrecs _ _ _ _

/-- Rollback, input loop body: tx records untouched; a credit is only rewritten in place -/
theorem rollbackIn_frame (c : Ctx) (id : TxId) (blk : BlockMeta) (sb sb' : Store × Bals) (cur : Nat) (i : Inp)
    (h : rollbackIn c id blk sb cur i = .ok sb') :
    sb'.1.txrecs = sb.1.txrecs ∧
    (sb'.1.credits = sb.1.credits ∨
      ∃ ck cr cr', AMap.get sb.1.credits ck = some cr ∧ sb'.1.credits = AMap.put sb.1.credits ck cr') := by
  unfold rollbackIn at h
  repeat' (first | cases h | split at h | simp only [] at h)
  all_goals first
    | exact ⟨rfl, Or.inl rfl⟩
    | exact ⟨rfl, Or.inr ⟨_, _, _, ‹_›, rfl⟩⟩

theorem rollbackIn_hasCred (c : Ctx) (id : TxId) (blk : BlockMeta) (sb sb' : Store × Bals) (cur : Nat) (i : Inp)
    (h : rollbackIn c id blk sb cur i = .ok sb') (k : CredKey) : hasCred sb'.1 k = hasCred sb.1 k := by
  obtain ⟨_, h2⟩ := rollbackIn_frame c id blk sb sb' cur i h
  unfold hasCred
  rcases h2 with h2 | ⟨ck, cr, cr', hg, h2⟩
  · rw [h2]
  · rw [h2, AMap.get_put]
    split
    · rename_i hk; rw [← hk, hg]; rfl
    · rfl

theorem rollbackIns_frame (c : Ctx) (id : TxId) (blk : BlockMeta) (ins : List Inp) (n : Nat) (sb r : Store × Bals)
    (h : foldIdxM (rollbackIn c id blk) ins n sb = .ok r) :
    r.1.txrecs = sb.1.txrecs ∧ ∀ k, hasCred r.1 k = hasCred sb.1 k :=
  foldIdxM_ok_inv (fun _ (a : Store × Bals) => a.1.txrecs = sb.1.txrecs ∧ ∀ k, hasCred a.1 k = hasCred sb.1 k)
    (rollbackIn c id blk) ins n sb r ⟨rfl, fun _ => rfl⟩ (by
      intro a i x b' ⟨p1, p2⟩ hf
      exact ⟨(rollbackIn_frame c id blk a b' i x hf).1.trans p1,
        fun k => (rollbackIn_hasCred c id blk a b' i x hf k).trans (p2 k)⟩) h

theorem rollbackOut_txrecs (c : Ctx) (id : TxId) (blk : BlockMeta) (sb sb' : Store × Bals) (j : Nat) (o : Out)
    (h : rollbackOut c id blk sb j o = .ok sb') : sb'.1.txrecs = sb.1.txrecs := by
  unfold rollbackOut at h
  simp only [] at h
  split at h
  · simp only [pure, Except.pure, Except.ok.injEq] at h
    rw [← h]
  · split at h
    · cases h
    · split at h
      · simp only [pure, Except.pure, Except.ok.injEq] at h
        rw [← h]
      · simp only [bind, Except.bind] at h
        split at h
        · cases h
        · rename_i sb1 hown
          have hk := rollbackOwnedOut_txrecs _ _ _ _ _ _ _ hown
          split at h
          · simp only [pure, Except.pure, Except.ok.injEq] at h
            rw [← h]; exact hk
          · simp only [pure, Except.pure, Except.ok.injEq] at h
            rw [← h]; exact hk

theorem rollbackOuts_frame (c : Ctx) (id : TxId) (blk : BlockMeta) (outs : List Out) (n : Nat) (sb r : Store × Bals)
    (h : foldIdxM (rollbackOut c id blk) outs n sb = .ok r) :
    r.1.txrecs = sb.1.txrecs ∧ ∀ k : CredKey, k.tx ≠ id → hasCred r.1 k = hasCred sb.1 k :=
  foldIdxM_ok_inv (fun _ (a : Store × Bals) => a.1.txrecs = sb.1.txrecs ∧
      ∀ k : CredKey, k.tx ≠ id → hasCred a.1 k = hasCred sb.1 k)
    (rollbackOut c id blk) outs n sb r ⟨rfl, fun _ _ => rfl⟩ (by
      intro a i x b' ⟨p1, p2⟩ hf
      refine ⟨(rollbackOut_txrecs c id blk a b' i x hf).trans p1, fun k hk => ?_⟩
      obtain ⟨_, _, q3, _, _⟩ := rollbackOut_ok c id blk a b' i x hf
      have hne : k ≠ (⟨id, blk, i⟩ : CredKey) := fun hc => hk (by rw [hc])
      unfold hasCred at *
      rw [q3 k hne]; exact p2 k hk) h

/-- Rollback, coinbase output loop body: pending side and tx records untouched, only the credit of this output
    goes, and it is collected iff it was there -/
theorem rollbackCbOut_ok (c : Ctx) (id : TxId) (blk : BlockMeta) (acc acc' : (Store × Bals) × List (TxId × Nat))
    (j : Nat) (o : Out) (h : rollbackCbOut c id blk acc j o = .ok acc') :
    acc'.1.1.pending = acc.1.1.pending ∧ acc'.1.1.pendIns = acc.1.1.pendIns ∧ acc'.1.1.txrecs = acc.1.1.txrecs ∧
    (∀ k, k ≠ (⟨id, blk, j⟩ : CredKey) → AMap.get acc'.1.1.credits k = AMap.get acc.1.1.credits k) ∧
    acc'.2 = (if hasCred acc.1.1 ⟨id, blk, j⟩ then acc.2 ++ [(id, j)] else acc.2) := by
  unfold rollbackCbOut at h
  simp only [] at h
  unfold hasCred
  cases hc : AMap.get acc.1.1.credits ⟨id, blk, j⟩ with
  | none =>
    rw [hc] at h
    simp only [pure, Except.pure, Except.ok.injEq] at h
    subst h
    exact ⟨rfl, rfl, rfl, fun _ _ => rfl, by simp⟩
  | some cr =>
    rw [hc] at h
    simp only [] at h
    have herase : ∀ k, k ≠ (⟨id, blk, j⟩ : CredKey) →
        AMap.get (AMap.erase acc.1.1.credits ⟨id, blk, j⟩) k = AMap.get acc.1.1.credits k := by
      intro k hk; rw [AMap.get_erase]; simp [Ne.symm hk]
    split at h
    · cases h
    · split at h
      · simp only [pure, Except.pure, Except.ok.injEq] at h
        subst h
        exact ⟨rfl, rfl, rfl, herase, by simp⟩
      · simp only [bind, Except.bind] at h
        split at h
        · cases h
        · rename_i sb1 hown
          have hk := rollbackOwnedOut_keep _ _ _ _ _ _ _ hown
          have ht := rollbackOwnedOut_txrecs _ _ _ _ _ _ _ hown
          simp only [rbKeep, Prod.mk.injEq] at hk
          obtain ⟨k1, k2, k3, k4, k5⟩ := hk
          split at h
          · simp only [pure, Except.pure, Except.ok.injEq] at h
            subst h
            refine ⟨k1, k2, ht, fun k hne => ?_, by simp⟩
            show AMap.get sb1.1.credits k = _; rw [k5]; exact herase k hne
          · simp only [pure, Except.pure, Except.ok.injEq] at h
            subst h
            refine ⟨k1, k2, ht, fun k hne => ?_, by simp⟩
            rw [k5]; exact herase k hne

end MW.Lemmas.PendHist
