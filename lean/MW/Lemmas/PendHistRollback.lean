/-
  C09, history level: what disconnecting the TIP block does to the pending buckets, up to the final purge of
  the spenders of removed coinbase outputs (`rollback_phase`).
    rollbackTx_nc      one non-coinbase record: back into the pending set (lookups, spender index, PendWF)
    rollbackTx_cb      one coinbase record: pending side untouched, the removed credits are collected
    rbLoop             the inner loop of Rollback over the recorded ids of the block
    rollback_phase     disconnectBlock at the tip = loop ; erase block records ; purge ; mined-side rest
-/
import MW.Lemmas.PendHistDefs
import MW.Lemmas.LedgerPendingRollback
import MW.Lemmas.LedgerPendingConfirm
namespace MW.Lemmas.PendHist
open MW MW.Model.Ledger MW.Spec.Pending MW.Lemmas.LedgerPending

-- ------------------------------------------------------------------ frames of the loop bodies

/-- presence of a credit record -/
def hasCred (s : Store) (k : CredKey) : Bool := (AMap.get s.credits k).isSome

theorem rollbackAddr_txrecs (s : Store) (w : Wid) (o : Out) (h : Nat) : (rollbackAddr s w o h).txrecs = s.txrecs := by
  unfold rollbackAddr
  simp only []
  split
  · split <;> rfl
  · rfl

theorem rollbackOwnedOut_txrecs (id : TxId) (blk : BlockMeta) (sb sb' : Store × Bals) (i : Nat) (o : Out) (w : Wid)
    (h : rollbackOwnedOut id blk sb i o w = .ok sb') : sb'.1.txrecs = sb.1.txrecs := by
  unfold rollbackOwnedOut at h
  split at h
  · split at h
    · cases h
    · simp only [pure, Except.pure, Except.ok.injEq] at h
      rw [← h]; exact rollbackAddr_txrecs _ _ _ _
  · simp only [pure, Except.pure, Except.ok.injEq] at h
    rw [← h]; exact rollbackAddr_txrecs _ _ _ _

/-- Rollback, input loop body: tx records untouched; a credit is only rewritten in place -/
theorem rollbackIn_frame (c : Ctx) (id : TxId) (blk : BlockMeta) (sb sb' : Store × Bals) (cur : Nat) (i : Inp)
    (h : rollbackIn c id blk sb cur i = .ok sb') :
    sb'.1.txrecs = sb.1.txrecs ∧
    (sb'.1.credits = sb.1.credits ∨
      ∃ ck cr cr', AMap.get sb.1.credits ck = some cr ∧ sb'.1.credits = AMap.put sb.1.credits ck cr') := by
  unfold rollbackIn at h
  repeat' (first | cases h | split at h | simp only [] at h)
  all_goals first
    | exact ⟨rfl, Or.inl rfl⟩
    | exact ⟨rfl, Or.inr ⟨_, _, _, ‹_›, rfl⟩⟩

theorem rollbackIn_hasCred (c : Ctx) (id : TxId) (blk : BlockMeta) (sb sb' : Store × Bals) (cur : Nat) (i : Inp)
    (h : rollbackIn c id blk sb cur i = .ok sb') (k : CredKey) : hasCred sb'.1 k = hasCred sb.1 k := by
  obtain ⟨_, h2⟩ := rollbackIn_frame c id blk sb sb' cur i h
  unfold hasCred
  rcases h2 with h2 | ⟨ck, cr, cr', hg, h2⟩
  · rw [h2]
  · rw [h2, AMap.get_put]
    split
    · rename_i hk; rw [← hk, hg]; rfl
    · rfl

theorem rollbackIns_frame (c : Ctx) (id : TxId) (blk : BlockMeta) (ins : List Inp) (n : Nat) (sb r : Store × Bals)
    (h : foldIdxM (rollbackIn c id blk) ins n sb = .ok r) :
    r.1.txrecs = sb.1.txrecs ∧ ∀ k, hasCred r.1 k = hasCred sb.1 k :=
  foldIdxM_ok_inv (fun _ (a : Store × Bals) => a.1.txrecs = sb.1.txrecs ∧ ∀ k, hasCred a.1 k = hasCred sb.1 k)
    (rollbackIn c id blk) ins n sb r ⟨rfl, fun _ => rfl⟩ (by
      intro a i x b' ⟨p1, p2⟩ hf
      exact ⟨(rollbackIn_frame c id blk a b' i x hf).1.trans p1,
        fun k => (rollbackIn_hasCred c id blk a b' i x hf k).trans (p2 k)⟩) h

theorem rollbackOut_txrecs (c : Ctx) (id : TxId) (blk : BlockMeta) (sb sb' : Store × Bals) (j : Nat) (o : Out)
    (h : rollbackOut c id blk sb j o = .ok sb') : sb'.1.txrecs = sb.1.txrecs := by
  unfold rollbackOut at h
  simp only [] at h
  split at h
  · simp only [pure, Except.pure, Except.ok.injEq] at h
    rw [← h]
  · split at h
    · cases h
    · split at h
      · simp only [pure, Except.pure, Except.ok.injEq] at h
        rw [← h]
      · simp only [bind, Except.bind] at h
        split at h
        · cases h
        · rename_i sb1 hown
          have hk := rollbackOwnedOut_txrecs _ _ _ _ _ _ _ hown
          split at h
          · simp only [pure, Except.pure, Except.ok.injEq] at h
            rw [← h]; exact hk
          · simp only [pure, Except.pure, Except.ok.injEq] at h
            rw [← h]; exact hk

theorem rollbackOuts_frame (c : Ctx) (id : TxId) (blk : BlockMeta) (outs : List Out) (n : Nat) (sb r : Store × Bals)
    (h : foldIdxM (rollbackOut c id blk) outs n sb = .ok r) :
    r.1.txrecs = sb.1.txrecs ∧ ∀ k : CredKey, k.tx ≠ id → hasCred r.1 k = hasCred sb.1 k :=
  foldIdxM_ok_inv (fun _ (a : Store × Bals) => a.1.txrecs = sb.1.txrecs ∧
      ∀ k : CredKey, k.tx ≠ id → hasCred a.1 k = hasCred sb.1 k)
    (rollbackOut c id blk) outs n sb r ⟨rfl, fun _ _ => rfl⟩ (by
      intro a i x b' ⟨p1, p2⟩ hf
      refine ⟨(rollbackOut_txrecs c id blk a b' i x hf).trans p1, fun k hk => ?_⟩
      obtain ⟨_, _, q3, _, _⟩ := rollbackOut_ok c id blk a b' i x hf
      have hne : k ≠ (⟨id, blk, i⟩ : CredKey) := fun hc => hk (by rw [hc])
      unfold hasCred at *
      rw [q3 k hne]; exact p2 k hk) h

/-- Rollback, coinbase output loop body: pending side and tx records untouched, only the credit of this output
    goes, and it is collected iff it was there -/
theorem rollbackCbOut_ok (c : Ctx) (id : TxId) (blk : BlockMeta) (acc acc' : (Store × Bals) × List (TxId × Nat))
    (j : Nat) (o : Out) (h : rollbackCbOut c id blk acc j o = .ok acc') :
    acc'.1.1.pending = acc.1.1.pending ∧ acc'.1.1.pendIns = acc.1.1.pendIns ∧ acc'.1.1.txrecs = acc.1.1.txrecs ∧
    (∀ k, k ≠ (⟨id, blk, j⟩ : CredKey) → AMap.get acc'.1.1.credits k = AMap.get acc.1.1.credits k) ∧
    acc'.2 = (if hasCred acc.1.1 ⟨id, blk, j⟩ then acc.2 ++ [(id, j)] else acc.2) := by
  unfold rollbackCbOut at h
  simp only [] at h
  unfold hasCred
  cases hc : AMap.get acc.1.1.credits ⟨id, blk, j⟩ with
  | none =>
    rw [hc] at h
    simp only [pure, Except.pure, Except.ok.injEq] at h
    subst h
    exact ⟨rfl, rfl, rfl, fun _ _ => rfl, by simp⟩
  | some cr =>
    rw [hc] at h
    simp only [] at h
    have herase : ∀ k, k ≠ (⟨id, blk, j⟩ : CredKey) →
        AMap.get (AMap.erase acc.1.1.credits ⟨id, blk, j⟩) k = AMap.get acc.1.1.credits k := by
      intro k hk; rw [AMap.get_erase]; simp [Ne.symm hk]
    split at h
    · cases h
    · split at h
      · simp only [pure, Except.pure, Except.ok.injEq] at h
        subst h
        exact ⟨rfl, rfl, rfl, herase, by simp⟩
      · simp only [bind, Except.bind] at h
        split at h
        · cases h
        · rename_i sb1 hown
          have hk := rollbackOwnedOut_keep _ _ _ _ _ _ _ hown
          have ht := rollbackOwnedOut_txrecs _ _ _ _ _ _ _ hown
          simp only [rbKeep, Prod.mk.injEq] at hk
          obtain ⟨k1, k2, k3, k4, k5⟩ := hk
          split at h
          · simp only [pure, Except.pure, Except.ok.injEq] at h
            subst h
            refine ⟨k1, k2, ht, fun k hne => ?_, by simp⟩
            show AMap.get sb1.1.credits k = _; rw [k5]; exact herase k hne
          · simp only [pure, Except.pure, Except.ok.injEq] at h
            subst h
            refine ⟨k1, k2, ht, fun k hne => ?_, by simp⟩
            rw [k5]; exact herase k hne

/-- the coinbase output loop of Rollback as a whole -/
theorem rollbackCbOuts_ok (c : Ctx) (id : TxId) (blk : BlockMeta) (outs : List Out) (sb0 : Store × Bals)
    (r : (Store × Bals) × List (TxId × Nat))
    (h : foldIdxM (rollbackCbOut c id blk) outs 0 (sb0, []) = .ok r) :
    r.1.1.pending = sb0.1.pending ∧ r.1.1.pendIns = sb0.1.pendIns ∧ r.1.1.txrecs = sb0.1.txrecs ∧
    (∀ k : CredKey, k.tx ≠ id → hasCred r.1.1 k = hasCred sb0.1 k) ∧
    (∀ op ∈ r.2, op.1 = id ∧ op.2 < outs.length) ∧
    (∀ j, j < outs.length → hasCred sb0.1 ⟨id, blk, j⟩ = true → (id, j) ∈ r.2) := by
  have key := foldIdxM_ok_inv (fun k (a : (Store × Bals) × List (TxId × Nat)) =>
      a.1.1.pending = sb0.1.pending ∧ a.1.1.pendIns = sb0.1.pendIns ∧ a.1.1.txrecs = sb0.1.txrecs ∧
      (∀ key : CredKey, key.tx ≠ id → hasCred a.1.1 key = hasCred sb0.1 key) ∧
      (∀ j, k ≤ j → hasCred a.1.1 ⟨id, blk, j⟩ = hasCred sb0.1 ⟨id, blk, j⟩) ∧
      (∀ op ∈ a.2, op.1 = id ∧ op.2 < k) ∧
      (∀ j, j < k → hasCred sb0.1 ⟨id, blk, j⟩ = true → (id, j) ∈ a.2))
    (rollbackCbOut c id blk) outs 0 (sb0, []) r
    ⟨rfl, rfl, rfl, fun _ _ => rfl, fun _ _ => rfl, fun _ hop => (by cases hop), fun _ hj => (by omega)⟩ ?_ h
  · simp only [Nat.zero_add] at key
    obtain ⟨p1, p2, p3, p4, _, p6, p7⟩ := key
    exact ⟨p1, p2, p3, p4, p6, p7⟩
  · intro a k o b' ⟨p1, p2, p3, p4, p5, p6, p7⟩ hf
    obtain ⟨q1, q2, q3, q4, q5⟩ := rollbackCbOut_ok c id blk a b' k o hf
    have hck : ∀ j, j ≠ k → (⟨id, blk, j⟩ : CredKey) ≠ ⟨id, blk, k⟩ := by
      intro j hj hc; injection hc with _ _ hc; exact hj hc
    refine ⟨q1.trans p1, q2.trans p2, q3.trans p3, fun key hk => ?_, fun j hj => ?_, fun op hop => ?_,
      fun j hj hcr => ?_⟩
    · have hne : key ≠ (⟨id, blk, k⟩ : CredKey) := fun hc => hk (by rw [hc])
      have := p4 key hk
      unfold hasCred at *
      rw [q4 key hne]; exact this
    · have := p5 j (by omega)
      unfold hasCred at *
      rw [q4 _ (hck j (by omega))]; exact this
    · rw [q5] at hop
      split at hop
      · rcases List.mem_append.1 hop with hop | hop
        · have := p6 op hop; exact ⟨this.1, by omega⟩
        · simp only [List.mem_singleton] at hop
          subst hop; exact ⟨rfl, Nat.lt_succ_self _⟩
      · have := p6 op hop; exact ⟨this.1, by omega⟩
    · rw [q5]
      by_cases hjk : j = k
      · subst hjk
        rw [p5 j (Nat.le_refl _), hcr]
        simp
      · have := p7 j (by omega) hcr
        split
        · exact List.mem_append_left _ this
        · exact this

-- ------------------------------------------------------------------ one transaction record

/-- rollbackTx of a NON-COINBASE transaction: exact pending lookups and spender index, nothing collected,
    its own tx record erased, credits of other transactions keep their presence -/
theorem rollbackTx_nc (c : Ctx) (s s' : Store) (bals bals' : Bals) (blk : BlockMeta) (id : TxId)
    (rem : List (TxId × Nat)) (loc : BlkId × Nat) (tx : Tx)
    (h : rollbackTx c s bals blk id = .ok (s', bals', rem))
    (hloc : AMap.get s.txrecs (id, blk) = some loc) (htx : c.node.txByFileLoc loc = some tx) (hcb : tx.cb = false) :
    rem = [] ∧ s'.txrecs = AMap.erase s.txrecs (id, blk) ∧
    (∀ k, AMap.get s'.pending k = if id = k then some tx else AMap.get s.pending k) ∧
    (∀ op x, Listed s' op x ↔ Listed s op x ∨ (x = id ∧ Spends tx op)) ∧
    (∀ k : CredKey, k.tx ≠ id → hasCred s' k = hasCred s k) := by
  unfold rollbackTx at h
  rw [hloc] at h
  simp only [htx, hcb] at h
  simp only [Bool.false_eq_true, if_false, bind, Except.bind] at h
  cases hin : foldIdxM (rollbackIn c id blk) tx.ins 0
      ({ s with txrecs := AMap.erase s.txrecs (id, blk), pending := AMap.put s.pending id tx }, bals) with
  | error e => rw [hin] at h; cases h
  | ok sb1 =>
    rw [hin] at h
    simp only [] at h
    cases hout : foldIdxM (rollbackOut c id blk) tx.outs 0 sb1 with
    | error e => rw [hout] at h; cases h
    | ok sb2 =>
      rw [hout] at h
      simp only [pure, Except.pure, Except.ok.injEq, Prod.mk.injEq] at h
      obtain ⟨e1, _, e3⟩ := h
      subst e1
      obtain ⟨i1, _, _, _⟩ := rollbackIns_ok c id blk tx.ins 0 _ sb1 hin
      obtain ⟨l1, _⟩ := rollbackIns_listed c id blk tx.ins 0 _ sb1 hin
      obtain ⟨f1, f2⟩ := rollbackIns_frame c id blk tx.ins 0 _ sb1 hin
      obtain ⟨o1, o2, _⟩ := rollbackOuts_ok c id blk tx.outs sb1 sb2 hout
      obtain ⟨g1, g2⟩ := rollbackOuts_frame c id blk tx.outs 0 sb1 sb2 hout
      refine ⟨e3.symm, g1.trans f1, fun k => ?_, fun op x => ?_, fun k hk => (g2 k hk).trans (f2 k)⟩
      · rw [o1, i1]; show AMap.get (AMap.put s.pending id tx) k = _; rw [AMap.get_put]
      · have := l1 op x
        unfold Listed Spends at *; rw [o2]; exact this

/-- rollbackTx of a COINBASE: the pending side is untouched; the collected outpoints are outputs of this
    transaction, and every credit of it that was present is collected -/
theorem rollbackTx_cb (c : Ctx) (s s' : Store) (bals bals' : Bals) (blk : BlockMeta) (id : TxId)
    (rem : List (TxId × Nat)) (loc : BlkId × Nat) (tx : Tx)
    (h : rollbackTx c s bals blk id = .ok (s', bals', rem))
    (hloc : AMap.get s.txrecs (id, blk) = some loc) (htx : c.node.txByFileLoc loc = some tx) (hcb : tx.cb = true) :
    s'.pending = s.pending ∧ s'.pendIns = s.pendIns ∧ s'.txrecs = AMap.erase s.txrecs (id, blk) ∧
    (∀ k : CredKey, k.tx ≠ id → hasCred s' k = hasCred s k) ∧
    (∀ op ∈ rem, op.1 = id ∧ op.2 < tx.outs.length) ∧
    (∀ j, j < tx.outs.length → hasCred s ⟨id, blk, j⟩ = true → (id, j) ∈ rem) := by
  unfold rollbackTx at h
  rw [hloc] at h
  simp only [htx, hcb] at h
  simp only [if_true, bind, Except.bind] at h
  cases hf : foldIdxM (rollbackCbOut c id blk) tx.outs 0
      (({ s with txrecs := AMap.erase s.txrecs (id, blk) }, bals), []) with
  | error e => rw [hf] at h; cases h
  | ok r =>
    rw [hf] at h
    simp only [pure, Except.pure, Except.ok.injEq, Prod.mk.injEq] at h
    obtain ⟨e1, _, e3⟩ := h
    subst e1; subst e3
    exact rollbackCbOuts_ok c id blk tx.outs _ r hf

/-- one record of the block, coinbase or not, in the form the loop wants -/
theorem rollbackTx_step (rank : TxId → Nat) (c : Ctx) (s s' : Store) (bals bals' : Bals) (blk : BlockMeta) (id : TxId)
    (rem : List (TxId × Nat)) (loc : BlkId × Nat) (tx : Tx) (hw : PendWF rank s)
    (h : rollbackTx c s bals blk id = .ok (s', bals', rem))
    (hloc : AMap.get s.txrecs (id, blk) = some loc) (htx : c.node.txByFileLoc loc = some tx)
    (hid : tx.id = id) (hnew : AMap.get s.pending id = none) (hrank : ∀ i ∈ tx.ins, rank i.tx < rank id) :
    s'.txrecs = AMap.erase s.txrecs (id, blk) ∧
    (∀ k, AMap.get s'.pending k = if tx.cb = false ∧ id = k then some tx else AMap.get s.pending k) ∧
    PendWF rank s' ∧
    (∀ k : CredKey, k.tx ≠ id → hasCred s' k = hasCred s k) ∧
    (∀ op ∈ rem, tx.cb = true ∧ op.1 = id ∧ op.2 < tx.outs.length) ∧
    (tx.cb = true → ∀ j, j < tx.outs.length → hasCred s ⟨id, blk, j⟩ = true → (id, j) ∈ rem) := by
  by_cases hcb : tx.cb = true
  · obtain ⟨c1, c2, c3, c4, c5, c6⟩ := rollbackTx_cb c s s' bals bals' blk id rem loc tx h hloc htx hcb
    refine ⟨c3, fun k => ?_, PendWF.congr hw c1 c2, c4, fun op hop => ⟨hcb, c5 op hop⟩, fun _ => c6⟩
    rw [c1]; simp [hcb]
  · have hcb' : tx.cb = false := by simpa using hcb
    obtain ⟨n1, n2, n3, _, n5⟩ := rollbackTx_nc c s s' bals bals' blk id rem loc tx h hloc htx hcb'
    refine ⟨n2, fun k => ?_, rollbackTx_wf rank c s s' bals bals' blk id rem loc tx hw h hloc htx hcb' hid hnew hrank,
      n5, fun op hop => ?_, fun hc => absurd hc hcb⟩
    · rw [n3]; simp [hcb']
    · rw [n1] at hop; cases hop

-- ------------------------------------------------------------------ the inner loop of Rollback

/-- the body of the inner loop of Rollback (`rollbackBlockAt`) -/
def rbStep (c : Ctx) (bm : BlockMeta) (a : RbAcc) (id : TxId) : M RbAcc := do
  let (s', bals', rem) ← rollbackTx c a.s a.bals bm id
  pure { a with s := s', bals := bals', cb := a.cb ++ rem }

theorem rollbackBlockAt_eq (c : Ctx) (acc : RbAcc) (cur : Nat) :
    rollbackBlockAt c acc cur =
      match AMap.get acc.s.blocks cur with
      | none => pure acc
      | some (bh, txs) => txs.reverse.foldlM (rbStep c ⟨cur, bh⟩) { acc with heights := acc.heights ++ [cur] } := rfl

theorem rbStep_inv {c : Ctx} {bm : BlockMeta} {a a' : RbAcc} {id : TxId} (h : rbStep c bm a id = .ok a') :
    ∃ s' bals' rem, rollbackTx c a.s a.bals bm id = .ok (s', bals', rem) ∧
      a' = { a with s := s', bals := bals', cb := a.cb ++ rem } := by
  unfold rbStep at h
  simp only [bind, Except.bind] at h
  cases hr : rollbackTx c a.s a.bals bm id with
  | error e => rw [hr] at h; cases h
  | ok r =>
    rw [hr] at h
    obtain ⟨s', bals', rem⟩ := r
    simp only [pure, Except.pure, Except.ok.injEq] at h
    exact ⟨s', bals', rem, rfl, h.symm⟩

/-- THE LOOP over recorded ids `l` (distinct, each with a readable record of a transaction of block `b`, none
    pending): the non-coinbase ones join the pending set, the credits of the coinbase ones are collected -/
theorem rbLoop (rank : TxId → Nat) (c : Ctx) (b : Block) (blk : BlockMeta)
    (hbnd : (b.txs.map (·.id)).Nodup) (hrk : ∀ t ∈ b.txs, ∀ i ∈ t.ins, rank i.tx < rank t.id) :
    ∀ (l : List TxId) (a a' : RbAcc), l.foldlM (rbStep c blk) a = .ok a' → l.Nodup →
      (∀ id ∈ l, ∃ loc t, AMap.get a.s.txrecs (id, blk) = some loc ∧ c.node.txByFileLoc loc = some t ∧
        t.id = id ∧ t ∈ b.txs) →
      PendWF rank a.s → (∀ id ∈ l, AMap.get a.s.pending id = none) →
      PendWF rank a'.s ∧
      (∀ k t, AMap.get a'.s.pending k = some t ↔
        AMap.get a.s.pending k = some t ∨ (k ∈ l ∧ t ∈ b.txs ∧ t.id = k ∧ t.cb = false)) ∧
      (∀ op ∈ a'.cb, op ∈ a.cb ∨ ∃ u ∈ b.txs, u.cb = true ∧ u.id ∈ l ∧ op.1 = u.id ∧ op.2 < u.outs.length) ∧
      (∀ op ∈ a.cb, op ∈ a'.cb) ∧
      (∀ u ∈ b.txs, u.cb = true → u.id ∈ l → ∀ j, j < u.outs.length →
        hasCred a.s ⟨u.id, blk, j⟩ = true → (u.id, j) ∈ a'.cb) ∧
      a'.heights = a.heights := by
  intro l
  induction l with
  | nil =>
    intro a a' h _ _ hw _
    simp [List.foldlM, pure, Except.pure] at h
    subst h
    exact ⟨hw, fun k t => by simp, fun op hop => Or.inl hop, fun op hop => hop,
      fun u _ _ hu => (by cases hu), rfl⟩
  | cons id l ih =>
    intro a a' h hnd hrec hw hnp
    simp only [List.foldlM, bind, Except.bind] at h
    cases hf : rbStep c blk a id with
    | error e => rw [hf] at h; cases h
    | ok a1 =>
      rw [hf] at h
      obtain ⟨s1, bals1, rem, hrun, ha1⟩ := rbStep_inv hf
      obtain ⟨hnotin, hnd'⟩ := List.nodup_cons.1 hnd
      obtain ⟨loc, t, hloc, htx, hid, htb⟩ := hrec id (List.mem_cons_self ..)
      obtain ⟨S1, S2, S3, S4, S5, S6⟩ := rollbackTx_step rank c a.s s1 a.bals bals1 blk id rem loc t hw hrun hloc htx
        hid (hnp id (List.mem_cons_self ..)) (by rw [← hid]; exact hrk t htb)
      subst ha1
      have hne : ∀ id' ∈ l, id ≠ id' := fun id' h' hc => hnotin (hc ▸ h')
      obtain ⟨I1, I2, I3, I4, I5, I6⟩ := ih _ a' h hnd' (by
          intro id' h'
          obtain ⟨loc', t', q1, q2⟩ := hrec id' (List.mem_cons_of_mem _ h')
          refine ⟨loc', t', ?_, q2⟩
          show AMap.get s1.txrecs _ = _
          rw [S1, AMap.get_erase]
          have : ¬ (id, blk) = (id', blk) := fun hc => hne id' h' (by injection hc)
          simp [this, q1]) S3 (by
          intro id' h'
          show AMap.get s1.pending id' = none
          rw [S2]
          have := hne id' h'
          simp [this, hnp id' (List.mem_cons_of_mem _ h')])
      refine ⟨I1, fun k t' => ?_, fun op hop => ?_, fun op hop => I4 op (List.mem_append_left _ hop),
        fun u hu hucb huid j hj hcr => ?_, I6⟩
      · rw [I2]
        show AMap.get s1.pending k = some t' ∨ _ ↔ _
        rw [S2]
        constructor
        · rintro (hg | ⟨h1, h2⟩)
          · split at hg
            · rename_i hc
              cases hg
              exact Or.inr ⟨by rw [hc.2]; exact List.mem_cons_self .., htb, by rw [hid]; exact hc.2, hc.1⟩
            · exact Or.inl hg
          · exact Or.inr ⟨List.mem_cons_of_mem _ h1, h2⟩
        · rintro (hg | ⟨h1, h2, h3, h4⟩)
          · left
            split
            · rename_i hc
              rw [← hc.2, hnp id (List.mem_cons_self ..)] at hg; cases hg
            · exact hg
          · rcases List.mem_cons.1 h1 with h1 | h1
            · left
              have : t' = t := eq_of_id hbnd h2 htb (by rw [h3, hid, h1])
              subst this
              rw [if_pos ⟨h4, h1.symm⟩]
            · exact Or.inr ⟨h1, h2, h3, h4⟩
      · rcases I3 op hop with hop | ⟨u, hu, q1, q2, q3⟩
        · rcases List.mem_append.1 hop with hop | hop
          · exact Or.inl hop
          · obtain ⟨r1, r2, r3⟩ := S5 op hop
            exact Or.inr ⟨t, htb, r1, by rw [hid]; exact List.mem_cons_self .., by rw [hid]; exact r2, r3⟩
        · exact Or.inr ⟨u, hu, q1, List.mem_cons_of_mem _ q2, q3⟩
      · rcases List.mem_cons.1 huid with h1 | h1
        · have : u = t := eq_of_id hbnd hu htb (by rw [h1, hid])
          subst this
          rw [h1] at hcr ⊢
          exact I4 _ (List.mem_append_right _ (S6 hucb j hj hcr))
        · have hn : u.id ≠ id := fun hc => hnotin (hc ▸ h1)
          refine I5 u hu hucb h1 j hj ?_
          show hasCred s1 _ = true
          rw [S4 _ hn]; exact hcr

-- ------------------------------------------------------------------ disconnectBlock at the tip

/-- disconnectBlock of the tip height, unfolded: the inner loop over the recorded ids, then the block record
    goes, the purge runs, and the rest is mined-side bookkeeping -/
theorem disconnect_tip_unfold (c : Ctx) (s s' : Store) (height : Nat) (bh : BlkId) (ids : List TxId)
    (h : disconnectBlock c s height = .ok s') (hsync : s.syncedTo = height)
    (hblk : AMap.get s.blocks height = some (bh, ids)) :
    ∃ acc, ids.reverse.foldlM (rbStep c ⟨height, bh⟩) { s := s, bals := s.balance, heights := [height] } = .ok acc ∧
      pendSide s' = pendSide (acc.cb.foldl (purgeSpenders c.own)
        (acc.heights.foldl (fun s h => { s with blocks := AMap.erase s.blocks h }) acc.s)) := by
  unfold disconnectBlock at h
  have h0 : height ≠ 0 := by intro hc; rw [if_pos hc] at h; cases h
  rw [if_neg h0, if_neg (by omega : ¬ height > s.syncedTo)] at h
  simp only [bind, Except.bind] at h
  cases hr : rollback c s height with
  | error e => rw [hr] at h; cases h
  | ok s2 =>
    rw [hr] at h
    simp only [pure, Except.pure, Except.ok.injEq] at h
    have hps : pendSide s' = pendSide s2 := by rw [← h]; rfl
    unfold rollback at hr
    have hhs : (List.range (s.syncedTo + 1 - height)).map (fun k => s.syncedTo - k) = [height] := by
      rw [hsync]
      have : height + 1 - height = 1 := by omega
      rw [this]; rfl
    simp only [] at hr
    rw [hhs] at hr
    simp only [List.foldlM, bind, Except.bind] at hr
    cases hb : rollbackBlockAt c { s := s, bals := s.balance } height with
    | error e => rw [hb] at hr; cases hr
    | ok acc =>
      rw [hb] at hr
      simp only [pure, Except.pure, Except.ok.injEq] at hr
      rw [rollbackBlockAt_eq] at hb
      simp only [hblk] at hb
      refine ⟨acc, hb, ?_⟩
      rw [hps, ← hr]
      rfl

theorem eraseBlocks_pend (s : Store) (hs : List Nat) :
    (hs.foldl (fun (s : Store) h => { s with blocks := AMap.erase s.blocks h }) s).pending = s.pending ∧
    (hs.foldl (fun (s : Store) h => { s with blocks := AMap.erase s.blocks h }) s).pendIns = s.pendIns :=
  foldl_inv (fun (a : Store) => a.pending = s.pending ∧ a.pendIns = s.pendIns) _ _ _ ⟨rfl, rfl⟩ (fun _ _ _ ha => ha)

/-- ROLLBACK PHASE of disconnecting the tip block `b` (recorded ids `ids`): right before the purge the pending
    stores represent `P` plus the recorded non-coinbase transactions of `b`; the purge then runs over `rem`,
    outputs of recorded coinbases of `b`, among them every one whose credit was present -/
theorem rollback_phase (rank : TxId → Nat) (c : Ctx) (s s' : Store) (b : Block) (P : List Tx) (ids : List TxId)
    (h : disconnectBlock c s b.height = .ok s')
    (hsync : s.syncedTo = b.height)
    (hblk : AMap.get s.blocks b.height = some (b.id, ids))
    (hrec : ∀ id ∈ ids, ∃ loc t, AMap.get s.txrecs (id, ⟨b.height, b.id⟩) = some loc ∧
        c.node.txByFileLoc loc = some t ∧ t.id = id ∧ t ∈ b.txs)
    (hidnd : ids.Nodup)
    (hbnd : (b.txs.map (·.id)).Nodup)
    (hrel : PendRel rank s P)
    (hnp : ∀ id ∈ ids, AMap.get s.pending id = none)
    (hrk : ∀ t ∈ b.txs, ∀ i ∈ t.ins, rank i.tx < rank t.id) :
    ∃ (s1 : Store) (rem : List (TxId × Nat)),
      PendRel rank s1 (P ++ b.txs.filter (fun t => !t.cb && ids.contains t.id)) ∧
      pendSide s' = pendSide (rem.foldl (purgeSpenders c.own) s1) ∧
      (∀ op ∈ rem, ∃ u ∈ b.txs, u.cb = true ∧ u.id ∈ ids ∧ op.1 = u.id ∧ op.2 < u.outs.length) ∧
      (∀ u ∈ b.txs, u.cb = true → u.id ∈ ids → ∀ j, j < u.outs.length →
        (AMap.get s.credits ⟨u.id, ⟨b.height, b.id⟩, j⟩).isSome = true → (u.id, j) ∈ rem) := by
  obtain ⟨acc, hloop, hps⟩ := disconnect_tip_unfold c s s' b.height b.id ids h hsync hblk
  obtain ⟨L1, L2, L3, _, L5, _⟩ := rbLoop rank c b ⟨b.height, b.id⟩ hbnd hrk ids.reverse _ acc hloop
    ((List.reverse_perm ids).nodup_iff.2 hidnd) (fun id hid => hrec id (List.mem_reverse.1 hid)) hrel.wf
    (fun id hid => hnp id (List.mem_reverse.1 hid))
  obtain ⟨e1, e2⟩ := eraseBlocks_pend acc.s acc.heights
  have hfil : ∀ t, t ∈ b.txs.filter (fun t => !t.cb && ids.contains t.id) ↔ t ∈ b.txs ∧ t.cb = false ∧ t.id ∈ ids := by
    intro t; simp [List.mem_filter]
  refine ⟨_, acc.cb, ⟨PendWF.congr L1 e1 e2, fun id t => ?_, ?_⟩, hps, fun op hop => ?_, fun u hu hcb huid j hj hcr => ?_⟩
  · rw [e1, L2, List.mem_append, hfil]
    show AMap.get s.pending id = some t ∨ _ ↔ _
    rw [hrel.ids]
    constructor
    · rintro (⟨h1, h2⟩ | ⟨h1, h2, h3, h4⟩)
      · exact ⟨Or.inl h1, h2⟩
      · exact ⟨Or.inr ⟨h2, h4, by rw [h3]; exact List.mem_reverse.1 h1⟩, h3⟩
    · rintro ⟨h1 | ⟨h1, h2, h3⟩, h4⟩
      · exact Or.inl ⟨h1, h4⟩
      · exact Or.inr ⟨List.mem_reverse.2 (by rw [← h4]; exact h3), h1, h4, h2⟩
  · rw [List.map_append, List.nodup_append]
    refine ⟨hrel.nodup, List.Nodup.sublist (List.filter_sublist.map _) hbnd, ?_⟩
    intro x hx y hy hxy
    obtain ⟨t, ht, rfl⟩ := List.mem_map.1 hx
    obtain ⟨t', ht', rfl⟩ := List.mem_map.1 hy
    have h1 := hrel.pending_of_mem ht
    have h2 := hnp t'.id ((hfil t').1 ht').2.2
    have hxy' : t.id = t'.id := hxy
    rw [hxy', h2] at h1; cases h1
  · rcases L3 op hop with hop | ⟨u, hu, q1, q2, q3⟩
    · cases hop
    · exact ⟨u, hu, q1, List.mem_reverse.1 q2, q3⟩
  · exact L5 u hu hcb (List.mem_reverse.2 huid) j hj hcr

end MW.Lemmas.PendHist
