/-
  Non-vacuity of the FULL credit-relation theorem (`credit_relation_full`): the history of PendHistEx
    connect B1 ; recv T1 (pays the wallet) ; recv T2 (spends T1:0) ; node moves to G-B1-B2 ; connect B2 (confirms T1)
  extended by a DISCONNECT of B2: T1 is un-confirmed, its pending credit (T1, 0) is re-created by Rollback from the mined
  credit, T2 (its child) stays pending.  Every step is inside the full domain `HOKf`.
-/
import MW.Lemmas.PendHistCredRollback
import MW.Lemmas.PendHistEx
namespace MW.Lemmas.PendHist.CredRb
open MW MW.Model.Ledger MW.Spec.Pending MW.Lemmas.LedgerPending MW.Lemmas.Ledger MW.Lemmas.PendHist
open MW.Lemmas.PendHist.Cred

def exW5 : HW := stepH exE exW4 (.connect exB2)
def exEvs6 : List HEv := exEvs ++ [.disconnect]

theorem exChain5 : exW5.sp.chain = [exG, exB1] ++ [exB2] := by rfl
theorem exPend5 : exW5.sp.pend = [exT2] := by decide

theorem exDisc : DiscDom exRankH exE [exG, exB1] exB2 [exT2] where
  blk := by decide
  bnd := by decide
  back := by decide
  parents := by decide
  rk := by decide
  src := by unfold SrcChain; decide
  sidx := by
    intro t ht i hi p hp
    have ht' : t = exC2 ∨ t = exT1 := by simpa [exB2] using ht
    rcases ht' with rfl | rfl
    · cases hi
    · have : i = ⟨"C1", 0, 0⟩ := by simpa [exT1] using hi
      subst this
      have h : exE.src "C1" = some exC1 := by decide
      rw [h] at hp; cases hp; decide
  cbown := by
    intro t ht i hi u hu hucb hid
    have hu' : u = exC2 ∨ u = exT1 := by simpa [exB2] using hu
    rcases hu' with rfl | rfl
    · -- nobody spends the coinbase C2
      exfalso
      rcases ht with ht | ⟨ht, _, _⟩
      · have : t = exT2 := by simpa using ht
        subst this
        have : i = ⟨"T1", 0, 0⟩ := by simpa [exT2] using hi
        subst this
        exact absurd hid (by decide)
      · have ht' : t = exC2 ∨ t = exT1 := by simpa [exB2] using ht
        rcases ht' with rfl | rfl
        · cases hi
        · have : i = ⟨"C1", 0, 0⟩ := by simpa [exT1] using hi
          subst this
          exact absurd hid (by decide)
    · exact absurd hucb (by decide)

theorem exD6 : HOK exRankH exE exW5 .disconnect := by
  intro c0 b hsplit
  rw [exChain5] at hsplit
  obtain ⟨h1, h2⟩ := List.append_inj' hsplit rfl
  have hb : b = exB2 := by simpa using h2.symm
  subst h1; subst hb
  rw [exPend5]
  refine ⟨by decide, by decide, ?_, by rfl, exDisc⟩
  intro i x hx
  match i, hx with
  | 0, hx => cases hx; rfl
  | 1, hx => cases hx; rfl
  | 2, hx => cases hx; rfl
  | _ + 3, hx => cases hx

theorem exDomainF : ∀ x ∈ worldsH exE exW0 exEvs6, HOKf exRankH exE x.1 x.2 := by
  intro x hx
  have : x = (exW0, .connect exB1) ∨ x = (exW1, .recv exT1) ∨ x = (exW2, .recv exT2) ∨
      x = (exW3, .node exN2) ∨ x = (exW4, .connect exB2) ∨ x = (exW5, .disconnect) := by
    simpa [worldsH, exEvs6, exEvs, exW1, exW2, exW3, exW4, exW5] using hx
  rcases this with rfl | rfl | rfl | rfl | rfl | rfl
  · exact exD1
  · have h' := exD2
    exact ⟨h'.valid, h'.known, h'.srcN, h'.idx, h'.rank, h'.nobb, h'.seen, h'.fresh, h'.noconf⟩
  · have h' := exD3
    exact ⟨h'.valid, h'.known, h'.srcN, h'.idx, h'.rank, h'.nobb, h'.seen, h'.fresh, h'.noconf⟩
  · exact trivial
  · exact exD5
  · exact exD6

/-- after the history both pending sets are {T1, T2}, and the model's pending-credit bucket holds exactly the record of
    T1's owned output, re-created by Rollback with the amount / class / script hash of the output = the specification's -/
theorem exRun6 :
    ((runH exE exW0 exEvs6).s.pending.map (·.1), (runH exE exW0 exEvs6).sp.pend.map (·.id)) = (["T1", "T2"], ["T2", "T1"]) ∧
    (runH exE exW0 exEvs6).s.pendCred.map (fun e => (e.1, e.2.amt, e.2.cls, e.2.sh)) = [(("T1", 0), 10, .standard, "A1")] ∧
    pendingCredits exE.env (runH exE exW0 exEvs6).sp.pend = [("T1", 0, 10)] := by decide

/-- the same domain statement in the `match` form of `C09_full_credit_relation` -/
theorem exDomainF_match : ∀ x ∈ worldsH exE exW0 exEvs6,
    match x.2 with
    | .recv t => RecvDomC exRankH exE x.1 t
    | ev => HOK exRankH exE x.1 ev := by
  intro x hx
  have := exDomainF x hx
  obtain ⟨xw, xe⟩ := x
  cases xe <;> exact this

end MW.Lemmas.PendHist.CredRb
