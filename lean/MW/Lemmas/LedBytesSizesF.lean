/-
  LedBytes, Round 7 — `sizes_of_inv`, connect side: the run hypothesis `FilterOut` of `filterBlock_on_bytes` (room in the
  block record before every AddRelevantTx step, the working balances written back fit 8 bytes / 42-byte keys) follows
  from C01's invariant `Inv` and the chain-level bounds `ChainBounds`.
  Part 1 (model level, namespace MW.Lemmas.Ledger): frame lemmas of `addRelevantMined` for the block record
  (`blkLen`) and for the working balances (`BalsOK`), the relevance records of `filterTxs` name ready wallets only
  (`RecReady`) and are at most one per transaction, and `connect_sizes`: along the loop of onRelevantBlockConnected
  on the next block of the node's chain the block record never has more ids than steps done, and at its end every
  entry of the working balances is the balance of a ready wallet below 2^64.
  Part 2 (byte level): `foldOK_of_model` (the run condition `FoldOK` of a byte loop from a condition on the states of the
  model loop), `filterOut_of_inv`, `filt_sim_of_inv`.
  Hypothesis added to both: `hH : HeightsOK c.node.chain` (block heights are positions in the node's chain).  Neither
  `ChainValid` nor `ChainBounds` implies it, and without it a block of `T` may carry the height of `b`, so that the block
  record at that height is not empty when `b` is connected and its id count is not bounded by `b.txs.length`.
-/
import MW.Lemmas.LedBytesFinal
import MW.Lemmas.LedgerTraceDefs
import MW.Lemmas.LedgerChar3
import MW.Lemmas.LedgerStatus

namespace MW.Lemmas.Ledger
open MW MW.Model.Ledger MW.Spec.Chain MW.Spec.Books

-- ------------------------------------------------------------------ the block record along addRelevantMined

/-- number of transaction ids in the block record at height `h` (0: no record) -/
def blkLen (s : Store) (h : Nat) : Nat :=
  match AMap.get s.blocks h with
  | none => 0
  | some x => x.2.length

theorem blkLen_congr {s s' : Store} (h : s'.blocks = s.blocks) (k : Nat) : blkLen s' k = blkLen s k := by
  unfold blkLen; rw [h]

theorem blkLen_recordMinedTx (s : Store) (tr : TxRec) (blk : BlockMeta) :
    blkLen (recordMinedTx s tr blk) blk.height = blkLen s blk.height + 1 := by
  unfold blkLen recordMinedTx
  cases h : AMap.get s.blocks blk.height with
  | none => simp [AMap.get_put]
  | some x => obtain ⟨a, txs⟩ := x; simp [AMap.get_put]

theorem spendOne_blocks {tr : TxRec} {blk : BlockMeta} {sb sb' : Store × Bals} {rel : Rel}
    (h : spendOne tr blk sb rel = .ok sb') : sb'.1.blocks = sb.1.blocks := by
  unfold spendOne at h
  simp only [throw, throwThe, MonadExceptOf.throw, pure, Except.pure] at h
  repeat' split at h
  all_goals first | (cases h; done) | (cases h; rfl)

theorem updateMinedBalance_blocks {s : Store} {bals : Bals} {tr : TxRec} {blk : BlockMeta} {sb' : Store × Bals}
    (h : updateMinedBalance s bals tr blk = .ok sb') : sb'.1.blocks = s.blocks := by
  unfold updateMinedBalance at h
  exact MW.Lemmas.LedgerStatus.foldlM_inv (fun (sb : Store × Bals) => sb.1.blocks = s.blocks) _
    (fun b a b' hb hs => (spendOne_blocks hs).trans hb) _ _ _ rfl h

theorem creditOne_blocks {p : Params} {tr : TxRec} {blk : BlockMeta} {sb sb' : Store × Bals} {rel : Rel}
    (h : creditOne p tr blk sb rel = .ok sb') : sb'.1.blocks = sb.1.blocks := by
  unfold creditOne at h
  simp only [throw, throwThe, MonadExceptOf.throw, pure, Except.pure] at h
  split at h
  · cases h
  · cases h; rfl

theorem foldl_blocks {α : Type} (f : Store → α → Store) (hf : ∀ s a, (f s a).blocks = s.blocks) (l : List α) (s : Store) :
    (l.foldl f s).blocks = s.blocks := by
  induction l generalizing s with
  | nil => rfl
  | cons a l ih => simp only [List.foldl_cons]; rw [ih, hf]

theorem addCredits_blocks {p : Params} {s : Store} {bals : Bals} {tr : TxRec} {blk : BlockMeta} {sb' : Store × Bals}
    (h : addCredits p s bals tr blk = .ok sb') : sb'.1.blocks = s.blocks := by
  rw [addCredits_eq] at h
  simp only [bind, Except.bind] at h
  split at h
  · cases h
  · rename_i r hr
    cases h
    show ((gameOuts tr).foldl (gameOne tr blk) r.1).blocks = s.blocks
    rw [foldl_blocks (gameOne tr blk) (fun _ _ => rfl)]
    exact MW.Lemmas.LedgerStatus.foldlM_inv (fun (sb : Store × Bals) => sb.1.blocks = s.blocks) _
      (fun b a b' hb hs => (creditOne_blocks hs).trans hb) _ _ _ rfl hr

theorem insertMinedTx_blkLen {own : Own} {s : Store} {bals : Bals} {tr : TxRec} {blk : BlockMeta} {x : Store × Bals × Bool}
    (h : insertMinedTx own s bals tr blk = .ok x) : blkLen x.1 blk.height ≤ blkLen s blk.height + 1 := by
  unfold insertMinedTx at h
  split at h
  · cases h; exact Nat.le_succ _
  · simp only [bind, Except.bind, pure, Except.pure] at h
    split at h
    · cases h
    · rename_i r hr
      obtain ⟨s1, b1⟩ := r
      cases h
      have e : (removeDoubleSpends own (unpendMined s1 tr.tx) tr).blocks = (recordMinedTx s tr blk).blocks := by
        rw [(minedEq_removeDoubleSpends own _ tr).blocks, (minedEq_unpendMined s1 tr.tx).blocks]
        exact updateMinedBalance_blocks hr
      show blkLen (removeDoubleSpends own (unpendMined s1 tr.tx) tr) blk.height ≤ _
      rw [blkLen_congr e, blkLen_recordMinedTx]
      exact Nat.le_refl _

theorem addRelevantMined_blkLen {p : Params} {own : Own} {s : Store} {bals : Bals} {tr : TxRec} {blk : BlockMeta}
    {sb' : Store × Bals} (h : addRelevantMined p own s bals tr blk = .ok sb') :
    blkLen sb'.1 blk.height ≤ blkLen s blk.height + 1 := by
  unfold addRelevantMined at h
  simp only [bind, Except.bind] at h
  split at h
  · cases h
  · rename_i r hr
    obtain ⟨s1, b1, ex⟩ := r
    simp only at h
    rw [blkLen_congr (addCredits_blocks h)]
    exact insertMinedTx_blkLen hr

/-- after `n` steps of the loop of onRelevantBlockConnected the block record has at most `n` more ids -/
theorem applyLoop_blkLen {p : Params} {own : Own} {bm : BlockMeta} :
    ∀ (pre : List TxRec) (sb m : Store × Bals),
      pre.foldlM (fun sb tr => addRelevantMined p own sb.1 sb.2 tr bm) sb = .ok m →
      blkLen m.1 bm.height ≤ blkLen sb.1 bm.height + pre.length := by
  intro pre
  induction pre with
  | nil => intro sb m h; cases h; exact Nat.le_refl _
  | cons a l ih =>
    intro sb m h
    simp only [List.foldlM_cons] at h
    cases hf : addRelevantMined p own sb.1 sb.2 a bm with
    | error e => rw [hf] at h; cases h
    | ok b1 =>
      rw [hf] at h
      have h1 := addRelevantMined_blkLen hf
      have h2 := ih b1 m h
      simp only [List.length_cons]
      omega

-- ------------------------------------------------------------------ the working balances along addRelevantMined

/-- every entry of the working balances belongs to a ready wallet and is either small or the live entry of its key -/
def BalsOK (ready : List Wid) (m : Bals) : Prop :=
  ∀ e ∈ m, ready.contains e.1 = true ∧ (e.2 < 2 ^ 64 ∨ AMap.get m e.1 = some e.2)

theorem balsOK_put {ready : List Wid} {m : Bals} (hm : BalsOK ready m) {k : Wid} (hk : ready.contains k = true) (v : Nat) :
    BalsOK ready (AMap.put m k v) := by
  intro e he
  unfold AMap.put at he
  rcases List.mem_cons.mp he with rfl | he'
  · exact ⟨hk, Or.inr (by rw [AMap.get_put]; simp)⟩
  · unfold AMap.erase at he'
    obtain ⟨hmem, hne⟩ := List.mem_filter.mp he'
    have hne' : ¬ k = e.1 := by
      intro hke
      rw [hke] at hne
      simp at hne
    obtain ⟨h1, h2⟩ := hm e hmem
    refine ⟨h1, h2.imp id (fun g => ?_)⟩
    rw [AMap.get_put, if_neg hne']
    exact g

theorem spendOne_bals {ready : List Wid} {tr : TxRec} {blk : BlockMeta} {sb sb' : Store × Bals} {rel : Rel}
    (hb : BalsOK ready sb.2) (hw : ready.contains rel.wallet = true) (h : spendOne tr blk sb rel = .ok sb') :
    BalsOK ready sb'.2 := by
  unfold spendOne at h
  simp only [throw, throwThe, MonadExceptOf.throw, pure, Except.pure] at h
  repeat' split at h
  all_goals first | (cases h; done) | (cases h; exact balsOK_put hb hw _)

theorem creditOne_bals {ready : List Wid} {p : Params} {tr : TxRec} {blk : BlockMeta} {sb sb' : Store × Bals} {rel : Rel}
    (hb : BalsOK ready sb.2) (hw : ready.contains rel.wallet = true) (h : creditOne p tr blk sb rel = .ok sb') :
    BalsOK ready sb'.2 := by
  unfold creditOne at h
  simp only [throw, throwThe, MonadExceptOf.throw, pure, Except.pure] at h
  split at h
  · cases h
  · cases h; exact balsOK_put hb hw _

/-- the relevance lists of a record name ready wallets only -/
def RecReady (ready : List Wid) (tr : TxRec) : Prop :=
  (∀ r ∈ tr.relIn, ready.contains r.wallet = true) ∧ ∀ r ∈ tr.relOut, ready.contains r.wallet = true

theorem updateMinedBalance_bals {ready : List Wid} {s : Store} {bals : Bals} {tr : TxRec} {blk : BlockMeta}
    {sb' : Store × Bals} (hb : BalsOK ready bals) (hr : RecReady ready tr) (h : updateMinedBalance s bals tr blk = .ok sb') :
    BalsOK ready sb'.2 := by
  unfold updateMinedBalance at h
  exact MW.LedBytes.foldlM_post (spendOne tr blk) (fun (sb : Store × Bals) => BalsOK ready sb.2)
    (fun r => ready.contains r.wallet = true) (fun b a b' hb ha hs => spendOne_bals hb ha hs) tr.relIn (s, bals) sb' hb hr.1 h

theorem addCredits_bals {ready : List Wid} {p : Params} {s : Store} {bals : Bals} {tr : TxRec} {blk : BlockMeta}
    {sb' : Store × Bals} (hb : BalsOK ready bals) (hr : RecReady ready tr) (h : addCredits p s bals tr blk = .ok sb') :
    BalsOK ready sb'.2 := by
  rw [addCredits_eq] at h
  simp only [bind, Except.bind] at h
  split at h
  · cases h
  · rename_i r hrr
    cases h
    show BalsOK ready r.2
    exact MW.LedBytes.foldlM_post (creditOne p tr blk) (fun (sb : Store × Bals) => BalsOK ready sb.2)
      (fun r => ready.contains r.wallet = true) (fun b a b' hb ha hs => creditOne_bals hb ha hs) tr.relOut (s, bals) r hb hr.2 hrr

theorem insertMinedTx_bals {ready : List Wid} {own : Own} {s : Store} {bals : Bals} {tr : TxRec} {blk : BlockMeta}
    {x : Store × Bals × Bool} (hb : BalsOK ready bals) (hr : RecReady ready tr)
    (h : insertMinedTx own s bals tr blk = .ok x) : BalsOK ready x.2.1 := by
  unfold insertMinedTx at h
  split at h
  · cases h; exact hb
  · simp only [bind, Except.bind, pure, Except.pure] at h
    split at h
    · cases h
    · rename_i r hrr
      obtain ⟨s1, b1⟩ := r
      cases h
      exact updateMinedBalance_bals hb hr hrr

theorem addRelevantMined_bals {ready : List Wid} {p : Params} {own : Own} {s : Store} {bals : Bals} {tr : TxRec}
    {blk : BlockMeta} {sb' : Store × Bals} (hb : BalsOK ready bals) (hr : RecReady ready tr)
    (h : addRelevantMined p own s bals tr blk = .ok sb') : BalsOK ready sb'.2 := by
  unfold addRelevantMined at h
  simp only [bind, Except.bind] at h
  split at h
  · cases h
  · rename_i r hrr
    obtain ⟨s1, b1, ex⟩ := r
    simp only at h
    exact addCredits_bals (insertMinedTx_bals hb hr hrr) hr h

theorem applyLoop_bals {ready : List Wid} {p : Params} {own : Own} {bm : BlockMeta} (recs : List TxRec)
    (sb m : Store × Bals) (hb : BalsOK ready sb.2) (hr : ∀ tr ∈ recs, RecReady ready tr)
    (h : recs.foldlM (fun sb tr => addRelevantMined p own sb.1 sb.2 tr bm) sb = .ok m) : BalsOK ready m.2 :=
  MW.LedBytes.foldlM_post (fun (sb : Store × Bals) tr => addRelevantMined p own sb.1 sb.2 tr bm)
    (fun (sb : Store × Bals) => BalsOK ready sb.2) (RecReady ready)
    (fun _ _ _ hb ha hs => addRelevantMined_bals hb ha hs) recs sb m hb hr h

theorem balsOK_filter {ready : List Wid} {m : Bals} (hm : ∀ e ∈ m, e.2 < 2 ^ 64) :
    BalsOK ready (m.filter (fun e => ready.contains e.1)) := by
  intro e he
  obtain ⟨h1, h2⟩ := List.mem_filter.mp he
  exact ⟨h2, Or.inl (hm e h1)⟩

-- ------------------------------------------------------------------ filterTxs: ready wallets only, one record per tx

theorem foldIdxM_inv1 {α β : Type} (P : β → Prop) (f : β → Nat → α → M β) (hf : ∀ b i a b', P b → f b i a = .ok b' → P b') :
    ∀ (l : List α) (n : Nat) (b b' : β), P b → foldIdxM f l n b = .ok b' → P b' := by
  intro l
  induction l with
  | nil => intro n b b' hb h; cases h; exact hb
  | cons a l ih =>
    intro n b b' hb h
    simp only [foldIdxM, bind, Except.bind] at h
    cases hfa : f b n a with
    | error e => rw [hfa] at h; cases h
    | ok b1 => rw [hfa] at h; exact ih (n + 1) b1 b' (hf b n a b1 hb hfa) h

theorem filterIn_ready {c : Ctx} {s : Store} {mined : Bool} {inBlk : List Tx} {ready : List Wid} {tr tr' : TxRec}
    {cur : Nat} {i : Inp} (hp : RecReady ready tr) (h : filterIn c s mined inBlk ready tr cur i = .ok tr') :
    RecReady ready tr' := by
  unfold filterIn at h
  simp only [throw, throwThe, MonadExceptOf.throw, pure, Except.pure] at h
  split at h
  · cases h; exact hp
  · cases h
  · split at h
    · cases h
    · split at h
      · cases h; exact hp
      · split at h
        · split at h
          · rename_i hc
            cases h
            refine ⟨?_, hp.2⟩
            intro r hr
            rcases List.mem_append.mp hr with h1 | h1
            · exact hp.1 r h1
            · simp only [List.mem_singleton] at h1
              subst h1
              exact hc
          · cases h; exact hp
        · cases h; exact hp

theorem filterOut_ready {c : Ctx} {ready : List Wid} {tr : TxRec} (cur : Nat) (o : Out) (hp : RecReady ready tr) :
    RecReady ready (filterOut c ready tr cur o) := by
  unfold filterOut
  split
  · exact hp
  · split
    · split
      · rename_i hc
        refine ⟨hp.1, ?_⟩
        intro r hr
        rcases List.mem_append.mp hr with h1 | h1
        · exact hp.2 r h1
        · simp only [List.mem_singleton] at h1
          subst h1
          exact hc
      · exact hp
    · exact hp

theorem filterTxRel_ready {c : Ctx} {s : Store} {tx : Tx} {mined : Bool} {inBlk : List Tx} {ready : List Wid} {tr : TxRec}
    (h : filterTxRel c s tx mined inBlk ready = .ok (some tr)) : RecReady ready tr := by
  rw [filterTxRel_eq] at h
  simp only [bind, Except.bind] at h
  split at h
  · cases h
  · rename_i tr1 h1
    have e0 : RecReady ready ({ tx := tx } : TxRec) := ⟨(fun r hr => by cases hr), (fun r hr => by cases hr)⟩
    have e1 : RecReady ready tr1 := by
      split at h1
      · cases h1; exact e0
      · exact foldIdxM_inv1 (RecReady ready) _ (fun b i a b' hb hf => filterIn_ready hb hf) _ _ _ _ e0 h1
    have e2 : RecReady ready (foldIdx (filterOut c ready) tx.outs 0 tr1) :=
      MW.LedBytes.foldIdx_post (filterOut c ready) (RecReady ready) (fun b i a hb => filterOut_ready i a hb) tx.outs 0 tr1 e1
    split at h
    · cases h
    · split at h
      · cases h
      · cases h; exact e2

/-- the first loop of filterBlock: at most one record per transaction, each naming ready wallets only -/
theorem filterTxs_ready (c : Ctx) (s : Store) (ready : List Wid) (bid : BlkId) :
    ∀ (post seen : List Tx) (ti : Nat) (acc r : List TxRec),
      filterTxs c s ready bid post seen ti acc = .ok r →
      ∃ recs, r = acc ++ recs ∧ recs.length ≤ post.length ∧ ∀ tr ∈ recs, RecReady ready tr := by
  intro post
  induction post with
  | nil =>
    intro seen ti acc r h
    simp only [filterTxs, pure, Except.pure, Except.ok.injEq] at h
    exact ⟨[], by simp [h], Nat.le_refl _, (fun tr ht => by cases ht)⟩
  | cons tx rest ih =>
    intro seen ti acc r h
    simp only [filterTxs, bind, Except.bind] at h
    cases hx : filterTxRel c s tx true (seen ++ [tx]) ready with
    | error e => rw [hx] at h; cases h
    | ok o =>
      rw [hx] at h
      cases o with
      | none =>
        obtain ⟨recs, h1, h2, h3⟩ := ih _ _ _ _ h
        exact ⟨recs, h1, by simp only [List.length_cons]; omega, h3⟩
      | some tr =>
        obtain ⟨recs, h1, h2, h3⟩ := ih _ _ _ _ h
        refine ⟨{ tr with loc := (bid, ti) } :: recs, by rw [h1]; simp, by simp only [List.length_cons]; omega, ?_⟩
        intro t ht
        rcases List.mem_cons.mp ht with rfl | ht'
        · have := filterTxRel_ready hx
          exact ⟨this.1, this.2⟩
        · exact h3 t ht'

-- ------------------------------------------------------------------ the loop of onRelevantBlockConnected under `Inv`

/-- the sizes along onRelevantBlockConnected, against ANY books `B0` the store agrees with (cf. `connect_core`) -/
theorem connect_sizes_core {c : Ctx} {s : Store} {chain rest : List Block} {b : Block} {B0 : Book}
    (hR0 : Agree s B0)
    (hbal0 : ∀ w, (readyWallets s c.wallets).contains w = true → AMap.get s.balance w = some (totalU B0.L w))
    (hGl0 : Glob c.own (occs chain) B0) (hL0 : Loc c.p c.own B0) (hG0 : LocG B0)
    (hnode : c.node.chain = chain ++ b :: rest) (hvalid : ChainValid c.own c.node.chain)
    (hAR : AllReady c.own (readyWallets s c.wallets))
    (hnone : blkLen s b.height = 0) (hsmall : ∀ e ∈ s.balance, e.2 < 2 ^ 64)
    (hsup : ∀ w, totalU ((occsOfBlock b).foldl (applyOcc c.p c.own) B0).L w < 2 ^ 64) (htx : b.txs.length + 1 < 2 ^ 32) :
    ∃ recs, filterTxs c s (readyWallets s c.wallets) b.id b.txs [] 0 [] = .ok recs ∧
      (∀ pre a post m, recs = pre ++ a :: post →
        pre.foldlM (fun sb tr => addRelevantMined c.p c.own sb.1 sb.2 tr ⟨b.height, b.id⟩)
          (s, s.balance.filter (fun e => (readyWallets s c.wallets).contains e.1)) = .ok m →
        blkLen m.1 b.height + 1 < 2 ^ 32) ∧
      (∀ m, recs.foldlM (fun sb tr => addRelevantMined c.p c.own sb.1 sb.2 tr ⟨b.height, b.id⟩)
          (s, s.balance.filter (fun e => (readyWallets s c.wallets).contains e.1)) = .ok m →
        ∀ e ∈ m.2, (readyWallets s c.wallets).contains e.1 = true ∧ e.2 < 2 ^ 64) := by
  have F : FilterCtx c s (readyWallets s c.wallets) chain rest b B0 :=
    ⟨hnode, hvalid, hAR, hGl0, fun k h => by rw [hR0.credits k]; exact h⟩
  obtain ⟨recs, hf, hM⟩ := filterTxs_block F F.valid_block
  have hbm : ∀ oc ∈ occsOfBlock b, oc.bm = ⟨b.height, b.id⟩ := fun oc h => mem_occsFrom_bm h
  have hB0 : AgreeBal (readyWallets s c.wallets)
      (s.balance.filter (fun e => (readyWallets s c.wallets).contains e.1)) B0 := by
    intro w hw
    rw [get_filter_key s.balance (fun k => (readyWallets s c.wallets).contains k) w]
    simp only [hw, if_true]
    exact hbal0 w hw
  obtain ⟨sb, hs, _, hB, _, _, _⟩ :=
    applyPhase_refines (p := c.p) hAR ⟨b.height, b.id⟩ (occsOfBlock b) (occs chain) _ recs s _ hbm hM hGl0
      F.valid_block hR0 hB0 hL0 hG0
  obtain ⟨recs', hr1, hr2, hr3⟩ := filterTxs_ready c s _ b.id b.txs [] 0 [] recs hf
  have hrr : recs = recs' := by simpa using hr1
  subst hrr
  refine ⟨recs, hf, ?_, ?_⟩
  · intro pre a post m hsplit hm
    have h1 := applyLoop_blkLen pre _ m hm
    have hl : pre.length < recs.length := by rw [hsplit]; simp
    have h1' : blkLen m.1 b.height ≤ blkLen s b.height + pre.length := h1
    rw [hnone] at h1'
    omega
  · intro m hm
    rw [hs] at hm
    cases hm
    have hok := applyLoop_bals recs _ sb (balsOK_filter hsmall) hr3 hs
    intro e he
    obtain ⟨h1, h2⟩ := hok e he
    refine ⟨h1, ?_⟩
    rcases h2 with h2 | h2
    · exact h2
    · have h3 := hB e.1 h1
      rw [h2] at h3
      rw [Option.some.inj h3]
      exact hsup e.1

/-- **the sizes along onRelevantBlockConnected under C01's invariant**: on the next block `b` of the node's chain, before
    every AddRelevantTx step the block record at `b.height` has fewer ids than `b` has transactions, and at the end every
    entry of the working balances belongs to a ready wallet and is below 2^64 -/
theorem connect_sizes {c : Ctx} {s : Store} {chain rest : List Block} {b : Block}
    (hI : Inv c s chain) (hnode : c.node.chain = chain ++ b :: rest) (hvalid : ChainValid c.own c.node.chain)
    (hheight : b.height = chain.length) (hAR : AllReady c.own (readyWallets s c.wallets))
    (hH : HeightsOK chain) (hsmall : ∀ e ∈ s.balance, e.2 < 2 ^ 64)
    (hsup : ∀ w, totalU (bookOf c.p c.own (chain ++ [b])).L w < 2 ^ 64) (htx : b.txs.length + 1 < 2 ^ 32) :
    ∃ recs, filterTxs c s (readyWallets s c.wallets) b.id b.txs [] 0 [] = .ok recs ∧
      (∀ pre a post m, recs = pre ++ a :: post →
        pre.foldlM (fun sb tr => addRelevantMined c.p c.own sb.1 sb.2 tr ⟨b.height, b.id⟩)
          (s, s.balance.filter (fun e => (readyWallets s c.wallets).contains e.1)) = .ok m →
        blkLen m.1 b.height + 1 < 2 ^ 32) ∧
      (∀ m, recs.foldlM (fun sb tr => addRelevantMined c.p c.own sb.1 sb.2 tr ⟨b.height, b.id⟩)
          (s, s.balance.filter (fun e => (readyWallets s c.wallets).contains e.1)) = .ok m →
        ∀ e ∈ m.2, (readyWallets s c.wallets).contains e.1 = true ∧ e.2 < 2 ^ 64) := by
  have hvc : ChainValid c.own chain :=
    chainValid_prefix (a := chain) (b := b :: rest) (by rw [← hnode]; exact hvalid)
  obtain ⟨hL0, hG0⟩ := loc_bookOf (p := c.p) hvc
  have e := eqM_withAddrs (bookOf c.p c.own chain) (fun k => AMap.get s.addrs k)
  have e' : EqM ((occsOfBlock b).foldl (applyOcc c.p c.own)
      { bookOf c.p c.own chain with addrs := fun k => AMap.get s.addrs k }) (bookOf c.p c.own (chain ++ [b])) := by
    rw [bookOf_snoc]; exact foldOcc_eqM _ _ _ e.symm
  have hnone : blkLen s b.height = 0 := by
    unfold blkLen
    rw [hI.agree.blocks, hheight, bookOf_blocks_none c.p c.own chain hH chain.length (Nat.le_refl _)]
  exact connect_sizes_core (B0 := { bookOf c.p c.own chain with addrs := fun k => AMap.get s.addrs k })
    hI.agree.toAgree hI.bal ((glob_bookOf (p := c.p) hvc).congrM e) (hL0.congrM e) (hG0.congrM e) hnode hvalid hAR hnone hsmall
    (by intro w; rw [e'.L]; exact hsup w) htx

end MW.Lemmas.Ledger

namespace MW.LedBytes
open MW MW.Gen.Codec MW.Model.TxmgrCodec MW.TxmgrCodec MW.Model.Ledger MW.Spec.Chain MW.Spec.Books MW.Lemmas.Ledger MW.Lemmas.Ledger.Trace

-- ------------------------------------------------------------------ `FoldOK` from a fact about the model loop

/-- the run condition of the byte loop follows from a condition `Rm` on the states of the MODEL loop: the simulation
    of the prefixes and the condition are obtained together along the list -/
theorem foldOK_of_model {α αB β βB : Type} (absF : βB → β) (P : βB → Prop) (fB : βB → αB → M βB) (f : β → α → M β)
    (g : αB → α) (Q : αB → Prop) (Rr : βB → αB → Prop) (Rm : β → Prop)
    (hstep : ∀ b a, P b → Q a → Rr b a → (fB b a).map absF = f (absF b) (g a) ∧ ∀ b', fB b a = .ok b' → P b')
    (hR : ∀ b a, Rm (absF b) → Rr b a) :
    ∀ (l : List αB) (b : βB), P b → (∀ a ∈ l, Q a) →
      (∀ pre a post m, l.map g = pre ++ a :: post → pre.foldlM f (absF b) = .ok m → Rm m) → FoldOK fB l b Rr := by
  intro l
  induction l with
  | nil => intro b _ _ _ pre a post b2 hl _; simp at hl
  | cons a l ih =>
    intro b hb hq hm pre x post b2 hl hfold
    have hra : Rr b a := hR b a (hm [] (g a) (l.map g) (absF b) rfl rfl)
    cases pre with
    | nil =>
      simp only [List.nil_append, List.cons.injEq] at hl
      obtain ⟨rfl, _⟩ := hl
      cases hfold
      exact hra
    | cons y pre' =>
      simp only [List.cons_append, List.cons.injEq] at hl
      obtain ⟨rfl, hl'⟩ := hl
      simp only [List.foldlM_cons] at hfold
      obtain ⟨h1, h2⟩ := hstep b a hb (hq a List.mem_cons_self) hra
      cases hf : fB b a with
      | error e => rw [hf] at hfold; cases hfold
      | ok b1 =>
        rw [hf] at hfold h1
        refine ih b1 (h2 b1 hf) (fun z hz => hq z (List.mem_cons_of_mem _ hz)) ?_ pre' x post b2 hl' hfold
        intro pre2 a2 post2 m hl2 hm2
        refine hm (g a :: pre2) a2 post2 m (by simp [hl2]) ?_
        simp only [List.foldlM_cons]
        rw [← h1]
        exact hm2

-- ------------------------------------------------------------------ FilterOut from Inv

theorem canon_bal_small {N : Names} {bal : AMap.T Bytes Bytes} (hc : Canon (cdBal N) bal) :
    ∀ e ∈ absBucket (cdBal N) bal, e.2 < 2 ^ 64 := by
  intro e he
  unfold absBucket at he
  obtain ⟨e0, h0, h1⟩ := List.mem_filterMap.mp he
  obtain ⟨k, v, hk, hv, rfl⟩ := hc e0 h0
  rw [absEntry_enc (cdBal_laws N) hk hv] at h1
  cases h1
  have hv' : v < 256 ^ 8 := hv
  have e8 : (256 : Nat) ^ 8 = 2 ^ 64 := by decide
  rw [e8] at hv'
  exact hv'

theorem blockRoom_of_blkLen {s : Store} {h : Nat} (hl : blkLen s h + 1 < 2 ^ 32) : BlockRoom s h := by
  intro bh txs hg
  unfold blkLen at hl
  rw [hg] at hl
  have e4 : (256 : Nat) ^ 4 = 2 ^ 32 := by decide
  rw [e4]
  exact hl

/-- `sizes_of_inv`, connect side: the run hypothesis of `filterBlock_on_bytes` from C01's invariant and the chain-level
    bounds (`hH`: block heights are positions in the node's chain — without it two blocks of `T` could share the height
    of `b` and the ids in the block record at that height would not be bounded by `b.txs.length`) -/
theorem filterOut_of_inv {E : Env} {c : Ctx} (H : HEnv E c) {bs : BStore} (hC : CanonS E bs) {ready : List Bytes} {b : Block}
    (hb : BlkFit H b) {T rest : List Block} (hI : Inv c (absStore E bs) T)
    (hready : ready.map E.N.wal = readyWallets (absStore E bs) c.wallets)
    (hAR : AllReady c.own (ready.map E.N.wal)) (hne : ready.isEmpty = false)
    (hnode : c.node.chain = T ++ b :: rest) (hht : b.height = T.length) (hV : ChainValid c.own c.node.chain)
    (hB : ChainBounds c.p c.own (T ++ [b])) (hH : HeightsOK c.node.chain) :
    FilterOut H.P H.O bs ready b (H.hashOf b) (H.time8 b) := by
  intro rel hrel
  simp only [hne, Bool.false_eq_true, if_false] at hrel
  obtain ⟨hdom, hh, hid, hcol, ht8, _⟩ := hb
  have hHT : HeightsOK T := heightsOK_prefix (a := T) (c := b :: rest) (by rw [← hnode]; exact hH)
  have hsup : ∀ w, totalU (bookOf c.p c.own (T ++ [b])).L w < 2 ^ 64 := by
    intro w
    have := hB.supply (T ++ [b]).length w
    rwa [List.take_length] at this
  have htx : b.txs.length + 1 < 2 ^ 32 := hB.txs b (by simp)
  rw [hready] at hAR
  obtain ⟨recs, hf, hroom, hbals⟩ := connect_sizes hI hnode hV hht hAR hHT (canon_bal_small hC.bal) hsup htx
  rw [← hready] at hf hroom hbals
  have hrs := H.O.rel_sim bs ready b hdom hC
  rw [hrel, hf] at hrs
  have hrecs : recs = rel.map Prod.snd := by injection hrs with h; exact h.symm
  subst hrecs
  have hrok := H.O.rel_ok bs ready b rel hdom hC hrel
  have hbm : nmBlk E.N ⟨b.height, H.hashOf b⟩ = ⟨b.height, b.id⟩ := by rw [← hid]; rfl
  have hbt : b.height < 256 ^ 8 := (keySynced_ne_of_lt (h := b.height) (by omega)).1
  have hinit : absSB E (bs, (fetchAllBalB bs.bal).filter (fun e => ready.contains e.1))
      = (absStore E bs, (absStore E bs).balance.filter (fun e => (ready.map E.N.wal).contains e.1)) := by
    simp only [absSB]
    rw [absBals_filter, fetchAllBal_abs]; rfl
  have hstep : ∀ (sb : SB) (pr : RecPair), CanonS E sb.1 → pr.OK E → BlockRoom (absStore E sb.1) b.height →
      (addRelevantMinedB c.p (removeDoubleSpendsB H.P pr.1.ins) pr.1 ⟨b.height, H.hashOf b⟩ (H.time8 b) sb).map (absSB E)
        = addRelevantMined c.p c.own (absSB E sb).1 (absSB E sb).2 pr.2 (nmBlk E.N ⟨b.height, H.hashOf b⟩) ∧
      ∀ sb', addRelevantMinedB c.p (removeDoubleSpendsB H.P pr.1.ins) pr.1 ⟨b.height, H.hashOf b⟩ (H.time8 b) sb = .ok sb' →
        CanonS E sb'.1 :=
    fun sb pr hcs ha hr =>
      addRelevantMined_full_on_bytes c.p H.P (blk := ⟨b.height, H.hashOf b⟩) hcs ha.1 hh hbt ht8 ha.2 hr
  have hfold : FoldOK (fun (sb : SB) (pr : RecPair) =>
        addRelevantMinedB c.p (removeDoubleSpendsB H.P pr.1.ins) pr.1 ⟨b.height, H.hashOf b⟩ (H.time8 b) sb) rel
      (bs, (fetchAllBalB bs.bal).filter (fun e => ready.contains e.1))
      (fun sb _ => BlockRoom (absStore E sb.1) b.height) := by
    refine foldOK_of_model (absSB E) (fun sb => CanonS E sb.1) _
      (fun sb tr => addRelevantMined c.p c.own sb.1 sb.2 tr (nmBlk E.N ⟨b.height, H.hashOf b⟩)) Prod.snd (RecPair.OK E)
      (fun sb _ => BlockRoom (absStore E sb.1) b.height) (fun m => blkLen m.1 b.height + 1 < 2 ^ 32)
      hstep (fun sb _ hl => blockRoom_of_blkLen hl) rel _ hC hrok ?_
    intro pre a post m hsplit hm
    rw [hinit, hbm] at hm
    exact hroom pre a post m hsplit hm
  refine ⟨hfold, ?_⟩
  intro sb hsb
  obtain ⟨f1, _⟩ := foldlM_sim_run (absSB E) (fun sb => CanonS E sb.1)
    (fun (sb : SB) (pr : RecPair) =>
      addRelevantMinedB c.p (removeDoubleSpendsB H.P pr.1.ins) pr.1 ⟨b.height, H.hashOf b⟩ (H.time8 b) sb)
    (fun sb tr => addRelevantMined c.p c.own sb.1 sb.2 tr (nmBlk E.N ⟨b.height, H.hashOf b⟩)) Prod.snd (RecPair.OK E)
    (fun sb _ => BlockRoom (absStore E sb.1) b.height) hstep rel _ hC hrok hfold
  rw [hsb, hinit, hbm] at f1
  have hm := hbals (absSB E sb) f1.symm
  intro e he
  have hmem : (E.N.wal e.1, e.2) ∈ (absSB E sb).2 :=
    List.mem_map_of_mem (f := fun (e : Bytes × Nat) => (E.N.wal e.1, e.2)) he
  obtain ⟨h1, h2⟩ := hm _ hmem
  have e8 : (256 : Nat) ^ 8 = 2 ^ 64 := by decide
  refine ⟨?_, by rw [e8]; exact h2⟩
  -- the key is a ready wallet, hence one of the 42-byte wallet ids
  have h1' : (ready.map E.N.wal).contains (E.N.wal e.1) = true := h1
  rw [contains_map_wal] at h1'
  have hin : e.1 ∈ ready := by simpa using h1'
  have hw : E.N.wal e.1 ∈ readyWallets (absStore E bs) c.wallets := by
    rw [← hready]; exact List.mem_map_of_mem hin
  unfold readyWallets at hw
  have hw' : E.N.wal e.1 ∈ c.wallets := (List.mem_filter.mp hw).1
  rw [H.wallets_eq] at hw'
  obtain ⟨w0, hw0, hw1⟩ := List.mem_map.mp hw'
  have : w0 = e.1 := E.N.wal_inj _ _ hw1
  rw [← this]
  exact H.wallets_wf w0 hw0

/-- the simulation of the byte-level filterBlock at every call that satisfies `PfInv` (no run hypothesis left) -/
theorem filt_sim_of_inv {E : Env} {c : Ctx} (H : HEnv E c) {bs : BStore} (hC : CanonS E bs) {ready : List Bytes} {b : Block}
    (hb : BlkFit H b) (hP : PfInv c (absStore E bs) (ready.map E.N.wal) b) (hH : HeightsOK c.node.chain) :
    (filtOf H bs ready b).map (fun x => (absStore E x.1, x.2)) = filterBlock c (absStore E bs) (ready.map E.N.wal) b ∧
    ∀ x, filtOf H bs ready b = .ok x → CanonS E x.1 := by
  obtain ⟨T, hI, hr, hAR, hne, _, hlast⟩ := hP
  have hne' : ready.isEmpty = false := by
    cases ready with
    | nil => simp at hne
    | cons a l => rfl
  cases hbl : c.node.blockAt b.height with
  | none =>
    rw [filterBlock_eq]
    unfold filtOf filterBlockB
    simp only [hbl]
    exact ⟨rfl, fun _ h => by cases h⟩
  | some oc =>
    by_cases hid : oc.id = b.id
    · obtain ⟨rest, hnode, hht, hV, hB⟩ := hlast oc hbl hid
      have hout := filterOut_of_inv H hC hb hI hr hAR hne' hnode hht hV hB hH
      exact filterBlock_on_bytes H.P H.O hC hb.1 hb.2.1 hb.2.2.1 hb.2.2.2.1 hb.2.2.2.2.1 hb.2.2.2.2.2 hout
    · rw [filterBlock_eq]
      unfold filtOf filterBlockB
      simp only [hbl, hid, ne_eq, not_false_eq_true, if_true]
      exact ⟨rfl, fun _ h => by cases h⟩

end MW.LedBytes
