/-
  Rollback, loop and transaction level (C01 goal 2): the TxIn / TxOut loops of `TxStore.Rollback` walk
  through a family of books indexed by position (`Xs k` = inputs ≥ k still spent, `Ys j` = outputs < j
  already removed), `rollbackTx` glues the two loops together after deleting the transaction record.
-/
import MW.Lemmas.LedgerRbk
namespace MW.Lemmas.Ledger
open MW MW.Model.Ledger MW.Spec.Chain MW.Spec.Books

theorem drop_eq_cons_facts {α : Type} {l : List α} {k : Nat} {a : α} {as : List α} (h : a :: as = l.drop k) :
    l[k]? = some a ∧ as = l.drop (k + 1) ∧ k + 1 ≤ l.length := by
  have h0 : l[k]? = some a := by
    have := List.getElem?_drop (xs := l) (i := k) (j := 0)
    rw [← h] at this
    simpa using this.symm
  refine ⟨h0, ?_, ?_⟩
  · have := congrArg List.tail h
    simpa using this
  · have := (List.getElem?_eq_some_iff.1 h0).1
    omega

theorem drop_eq_nil_facts {α : Type} {l : List α} {k : Nat} (h : [] = l.drop k) (hk : k ≤ l.length) :
    k = l.length := by
  have := List.drop_eq_nil_iff.1 h.symm
  omega

-- ------------------------------------------------------------------ the TxIn loop

/-- the step facts of the TxIn loop at position `k` -/
def InStep (c : Ctx) (t : Tx) (bm : BlockMeta) (Xs : Nat → Book) (k : Nat) (i : Inp) : Prop :=
  BookEq (Xs k) (spendB c.p t bm (Xs (k + 1)) k i) ∧ Loc c.p c.own (Xs (k + 1)) ∧ LocG (Xs (k + 1)) ∧
    LocW (Xs (k + 1)) ∧ (Xs (k + 1)).debits ⟨t.id, bm, k⟩ = none

theorem rollbackIns_refines {c : Ctx} {ready : List Wid} (hAR : AllReady c.own ready)
    {t : Tx} {bm : BlockMeta} (Xs : Nat → Book)
    (hstep : ∀ k i, t.ins[k]? = some i → InStep c t bm Xs k i) (is : List Inp) :
    ∀ (k0 : Nat) (s : Store) (bals : Bals), is = t.ins.drop k0 → k0 ≤ t.ins.length →
      AgreeR s (Xs k0) → AgreeBal ready bals (Xs k0) →
      ∃ sb', foldIdxM (rollbackIn c t.id bm) is k0 (s, bals) = .ok sb' ∧ AgreeR sb'.1 (Xs t.ins.length) ∧
        AgreeBal ready sb'.2 (Xs t.ins.length) ∧ SameRest s sb'.1 := by
  induction is with
  | nil =>
    intro k0 s bals his hk0 hR hB
    have := drop_eq_nil_facts his hk0
    subst this
    exact ⟨(s, bals), rfl, hR, hB, SameRest.refl s⟩
  | cons i is ih =>
    intro k0 s bals his _ hR hB
    obtain ⟨hi, his', hk1⟩ := drop_eq_cons_facts his
    obtain ⟨e, hL, hG, hW, hfd⟩ := hstep k0 i hi
    obtain ⟨sb1, h1, hR1, hB1, hS1⟩ := rollbackIn_refines hAR hL hG hW hfd (hR.congr e) (hB.congrL e)
    obtain ⟨sb2, h2, hR2, hB2, hS2⟩ := ih (k0 + 1) sb1.1 sb1.2 his' hk1 hR1 hB1
    refine ⟨sb2, ?_, hR2, hB2, hS1.trans hS2⟩
    rw [foldIdxM_cons, h1, M_ok_bind]
    exact h2

-- ------------------------------------------------------------------ the TxOut loop (ordinary transaction)

/-- the step facts of the TxOut loop at position `j` -/
def OutStep (c : Ctx) (t : Tx) (bm : BlockMeta) (Ys : Nat → Book) (j : Nat) (o : Out) : Prop :=
  BookEq (Ys (j + 1)) (uncreateB c.own t bm (Ys j) j o) ∧ Loc c.p c.own (Ys j) ∧
    (∀ w ch, ownerOf c.own o = some (w, ch) →
      lookupU (Ys j).L t.id j = some ⟨w, t.id, j, bm, t.cb, o, ch⟩ ∧
      (isDeposit o.cls = true → (Ys j).game ⟨w, o.cls.isBinding, false, t.id, bm.height, j⟩ = some ())) ∧
    (ownerOf c.own o = none → (Ys j).credits ⟨t.id, bm, j⟩ = none)

theorem rollbackOuts_refines {c : Ctx} {ready : List Wid} (hAR : AllReady c.own ready)
    {t : Tx} {bm : BlockMeta} (Ys : Nat → Book)
    (hstep : ∀ j o, t.outs[j]? = some o → OutStep c t bm Ys j o) (os : List Out) :
    ∀ (j0 : Nat) (s : Store) (bals : Bals), os = t.outs.drop j0 → j0 ≤ t.outs.length →
      AgreeR s (Ys j0) → AgreeBal ready bals (Ys j0) →
      ∃ sb', foldIdxM (rollbackOut c t.id bm) os j0 (s, bals) = .ok sb' ∧ AgreeR sb'.1 (Ys t.outs.length) ∧
        AgreeBal ready sb'.2 (Ys t.outs.length) ∧ SameRest s sb'.1 := by
  induction os with
  | nil =>
    intro j0 s bals hos hj0 hR hB
    have := drop_eq_nil_facts hos hj0
    subst this
    exact ⟨(s, bals), rfl, hR, hB, SameRest.refl s⟩
  | cons o os ih =>
    intro j0 s bals hos _ hR hB
    obtain ⟨ho, hos', hj1⟩ := drop_eq_cons_facts hos
    obtain ⟨e, hL, hown, hnone⟩ := hstep j0 o ho
    obtain ⟨sb1, h1, hR1, hB1, hS1⟩ := rollbackOut_refines hAR hL hR hB hown hnone
    obtain ⟨sb2, h2, hR2, hB2, hS2⟩ := ih (j0 + 1) sb1.1 sb1.2 hos' hj1 (hR1.congr e.symm) (hB1.congrL e.symm)
    refine ⟨sb2, ?_, hR2, hB2, hS1.trans hS2⟩
    rw [foldIdxM_cons, h1, M_ok_bind]
    exact h2

-- ------------------------------------------------------------------ the TxOut loop (coinbase)

/-- the coinbase TxOut loop: the step facts are those of the ordinary loop (`OutStep`) — the loop body removes the
    deposit record of an owned staking / binding output together with its credit -/
theorem rollbackCbOuts_refines {c : Ctx} {ready : List Wid} (hAR : AllReady c.own ready)
    {t : Tx} {bm : BlockMeta} (Ys : Nat → Book)
    (hstep : ∀ j o, t.outs[j]? = some o → OutStep c t bm Ys j o) (os : List Out) :
    ∀ (j0 : Nat) (s : Store) (bals : Bals) (acc : List (TxId × Nat)), os = t.outs.drop j0 → j0 ≤ t.outs.length →
      AgreeR s (Ys j0) → AgreeBal ready bals (Ys j0) →
      ∃ sb' acc', foldIdxM (rollbackCbOut c t.id bm) os j0 ((s, bals), acc) = .ok (sb', acc') ∧
        AgreeR sb'.1 (Ys t.outs.length) ∧ AgreeBal ready sb'.2 (Ys t.outs.length) ∧ SameRest s sb'.1 := by
  induction os with
  | nil =>
    intro j0 s bals acc hos hj0 hR hB
    have := drop_eq_nil_facts hos hj0
    subst this
    exact ⟨(s, bals), acc, rfl, hR, hB, SameRest.refl s⟩
  | cons o os ih =>
    intro j0 s bals acc hos _ hR hB
    obtain ⟨ho, hos', hj1⟩ := drop_eq_cons_facts hos
    obtain ⟨e, hL, hown, hnone⟩ := hstep j0 o ho
    obtain ⟨sb1, acc1, h1, hR1, hB1, hS1⟩ := rollbackCbOut_refines (acc := acc) hAR hL hR hB hown hnone
    obtain ⟨sb2, acc2, h2, hR2, hB2, hS2⟩ :=
      ih (j0 + 1) sb1.1 sb1.2 acc1 hos' hj1 (hR1.congr e.symm) (hB1.congrL e.symm)
    refine ⟨sb2, acc2, ?_, hR2, hB2, hS1.trans hS2⟩
    rw [foldIdxM_cons, h1, M_ok_bind]
    exact h2

-- ------------------------------------------------------------------ rollbackTx

theorem rollbackTx_skip {c : Ctx} {s : Store} {bals : Bals} {bm : BlockMeta} {id : TxId}
    (hrec : AMap.get s.txrecs (id, bm) = none) : rollbackTx c s bals bm id = .ok (s, bals, []) := by
  unfold rollbackTx
  simp only [hrec]
  rfl

theorem rollbackTx_eq_tx {c : Ctx} {s : Store} {bals : Bals} {bm : BlockMeta} {t : Tx} {loc : BlkId × Nat}
    (hrec : AMap.get s.txrecs (t.id, bm) = some loc) (hloc : c.node.txByFileLoc loc = some t)
    (hcb : t.cb = false) :
    rollbackTx c s bals bm t.id =
      (foldIdxM (rollbackIn c t.id bm) t.ins 0
          ({ s with txrecs := AMap.erase s.txrecs (t.id, bm), pending := AMap.put s.pending t.id t }, bals)
        >>= fun sb => foldIdxM (rollbackOut c t.id bm) t.outs 0 sb
        >>= fun sb => pure (sb.1, sb.2, [])) := by
  unfold rollbackTx
  simp only [hrec, hloc, hcb, Bool.false_eq_true, if_false]

theorem rollbackTx_eq_cb {c : Ctx} {s : Store} {bals : Bals} {bm : BlockMeta} {t : Tx} {loc : BlkId × Nat}
    (hrec : AMap.get s.txrecs (t.id, bm) = some loc) (hloc : c.node.txByFileLoc loc = some t)
    (hcb : t.cb = true) :
    rollbackTx c s bals bm t.id =
      (foldIdxM (rollbackCbOut c t.id bm) t.outs 0
          (({ s with txrecs := AMap.erase s.txrecs (t.id, bm) }, bals), [])
        >>= fun r => pure (r.1.1, r.1.2, r.2)) := by
  unfold rollbackTx
  simp only [hrec, hloc, hcb, if_true]

/-- deleting the transaction record (the pending set is not part of `AgreeR`) -/
theorem agreeR_erase_txrec {s : Store} {B : Book} {k : TxId × BlockMeta} {loc : BlkId × Nat}
    (hT : B.txrecs k = none) (hR : AgreeR s { B with txrecs := upd B.txrecs k (some loc) })
    (pend : AMap.T TxId Tx) :
    AgreeR { s with txrecs := AMap.erase s.txrecs k, pending := pend } B := by
  refine ⟨hR.unspent, hR.credits, hR.debits, hR.game, ?_⟩
  intro k'
  simp only
  rw [AMap.get_erase, hR.txrecs]
  simp only [upd_apply]
  by_cases hk : k = k'
  · subst hk; simp only [if_true]; exact hT.symm
  · simp only [hk, if_false]

/-- rolling back the record of an ordinary transaction `t` of block `bm`: the store goes from the books
    `Xs 0` plus the transaction record, through the un-spends `Xs 0 … Xs |ins|` and the output removals
    `Ys 0 … Ys |outs|`, to `Ys |outs|` -/
theorem rollbackTx_refines {c : Ctx} {ready : List Wid} (hAR : AllReady c.own ready)
    {s : Store} {bals : Bals} {t : Tx} {bm : BlockMeta} {loc : BlkId × Nat} (Xs Ys : Nat → Book)
    (hloc : c.node.txByFileLoc loc = some t) (hcb : t.cb = false)
    (hT : (Xs 0).txrecs (t.id, bm) = none)
    (hR : AgreeR s { Xs 0 with txrecs := upd (Xs 0).txrecs (t.id, bm) (some loc) })
    (hB : AgreeBal ready bals (Xs 0))
    (hins : ∀ k i, t.ins[k]? = some i → InStep c t bm Xs k i)
    (hglue : BookEq (Xs t.ins.length) (Ys 0))
    (houts : ∀ j o, t.outs[j]? = some o → OutStep c t bm Ys j o) :
    ∃ s' bals' rem, rollbackTx c s bals bm t.id = .ok (s', bals', rem) ∧ AgreeR s' (Ys t.outs.length) ∧
      AgreeBal ready bals' (Ys t.outs.length) ∧ SameRest s s' := by
  have hrec : AMap.get s.txrecs (t.id, bm) = some loc := by
    rw [hR.txrecs]; simp only [upd_apply, if_true]
  have hR0 := agreeR_erase_txrec hT hR (AMap.put s.pending t.id t)
  obtain ⟨sb1, h1, hR1, hB1, hS1⟩ :=
    rollbackIns_refines hAR Xs hins t.ins 0 _ bals (by simp) (Nat.zero_le _) hR0 hB
  obtain ⟨sb2, h2, hR2, hB2, hS2⟩ :=
    rollbackOuts_refines hAR Ys houts t.outs 0 sb1.1 sb1.2 (by simp) (Nat.zero_le _) (hR1.congr hglue)
      (hB1.congrL hglue)
  refine ⟨sb2.1, sb2.2, [], ?_, hR2, hB2, ?_⟩
  · rw [rollbackTx_eq_tx hrec hloc hcb, h1, M_ok_bind]
    show (foldIdxM (rollbackOut c t.id bm) t.outs 0 (sb1.1, sb1.2) >>= _) = _
    rw [h2, M_ok_bind]
    rfl
  · have h12 := hS1.trans hS2
    exact ⟨h12.sync, h12.syncedTo, h12.status, h12.balance, h12.blocks⟩

/-- rolling back the record of a coinbase transaction `t` of block `bm` (no TxIn loop, nothing
    returns to the pending set) -/
theorem rollbackTx_refines_cb {c : Ctx} {ready : List Wid} (hAR : AllReady c.own ready)
    {s : Store} {bals : Bals} {t : Tx} {bm : BlockMeta} {loc : BlkId × Nat} (Ys : Nat → Book)
    (hloc : c.node.txByFileLoc loc = some t) (hcb : t.cb = true)
    (hT : (Ys 0).txrecs (t.id, bm) = none)
    (hR : AgreeR s { Ys 0 with txrecs := upd (Ys 0).txrecs (t.id, bm) (some loc) })
    (hB : AgreeBal ready bals (Ys 0))
    (houts : ∀ j o, t.outs[j]? = some o → OutStep c t bm Ys j o) :
    ∃ s' bals' rem, rollbackTx c s bals bm t.id = .ok (s', bals', rem) ∧ AgreeR s' (Ys t.outs.length) ∧
      AgreeBal ready bals' (Ys t.outs.length) ∧ SameRest s s' := by
  have hrec : AMap.get s.txrecs (t.id, bm) = some loc := by
    rw [hR.txrecs]; simp only [upd_apply, if_true]
  have hR0 := agreeR_erase_txrec hT hR s.pending
  obtain ⟨sb2, acc2, h2, hR2, hB2, hS2⟩ :=
    rollbackCbOuts_refines hAR Ys houts t.outs 0 _ bals [] (by simp) (Nat.zero_le _) hR0 hB
  refine ⟨sb2.1, sb2.2, acc2, ?_, hR2, hB2, ?_⟩
  · rw [rollbackTx_eq_cb hrec hloc hcb]
    show (foldIdxM (rollbackCbOut c t.id bm) t.outs 0
      (({ s with txrecs := AMap.erase s.txrecs (t.id, bm), pending := s.pending }, bals), []) >>= _) = _
    rw [h2, M_ok_bind]
    rfl
  · exact ⟨hS2.sync, hS2.syncedTo, hS2.status, hS2.balance, hS2.blocks⟩

end MW.Lemmas.Ledger
