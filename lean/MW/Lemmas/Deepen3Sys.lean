/-
  C06 deepening (round 3), part 2: THE PERSISTENCE MODEL AS A WORLD OF C01.

  `SysQ` = node chain + notification queue + persistent store + volatile state of MW.Model.Persist; events =
  node events (extend, reorganise to any branch), handler steps (oldest queued notification, through the REAL
  `opBlock` of the persistence model: direct extension, reorganisation, stale, duplicate), CreateWallet,
  NewAddress (UseWallet + `opNewAddr`) and process crashes (`Model.Persist.crash`: boot + Start with the
  resync step, the notification queue is LOST).  Every step is related to the step of C01's world
  (`MW.Lemmas.Ledger.stepW`) for the keystore view of that moment (`lenv`), so that C01's step invariant `JS`
  can be carried along histories of the persistence model.
-/
import MW.Lemmas.PersistCrash
import MW.Lemmas.PersistWorld
import MW.Lemmas.LedgerLoc
namespace MW.Lemmas.Deepen3
open MW MW.Model.Ledger MW.Model.Persist MW.Spec.Persist MW.Spec.Chain MW.Spec.Books MW.Lemmas.Ledger MW.Lemmas.PersistOp
  MW.Lemmas.PersistFault MW.Lemmas.PersistCrash

-- ------------------------------------------------------------------ worlds, events, steps

/-- what never changes along a history: consensus parameters, key derivation, the block files -/
structure Static where
  p : Params := {}
  derive : Wid → Nat → Addr := fun w n => w ++ "/" ++ toString n
  known : AMap.T BlkId Block := []

/-- the environment of the persistence model when the node's best chain is `chain` -/
def envAt (st : Static) (chain : List Block) : Model.Persist.Env :=
  { p := st.p, node := { chain := chain, known := st.known }, derive := st.derive }

structure SysQ where
  chain : List Block            -- the node's best chain
  queue : List Block := []      -- tip notifications not yet handled (volatile: lost in a crash)
  P : PStore
  V : PVol

inductive EvQ
  | extend (b : Block)
  | reorgTo (k : Nat) (bs : List Block)
  | handle
  | create (w : Wid)
  | newAddr (w : Wid) (stk : Bool)
  | recvTx (tx : Tx)              -- an unconfirmed transaction reaches the follower (below the sync-height gate)
  | crash
  deriving Inhabited

/-- the same system as a `Sys` of MW.Spec.Persist -/
def SysQ.sys (st : Static) (x : SysQ) : Sys := ⟨envAt st x.chain, x.P, x.V⟩

/-- one step; `n` = storage calls per stretch (any number); `crashing = false` is the run that never stops.
    A crash runs the real boot + Start of the persistence model and drops the notification queue. -/
def stepQ (st : Static) (n : Nat) (crashing : Bool) (x : SysQ) : EvQ → SysQ
  | .extend b => { x with chain := x.chain ++ [b], queue := x.queue ++ [b] }
  | .reorgTo k bs => { x with chain := x.chain.take (x.chain.length - k) ++ bs, queue := x.queue ++ bs }
  | .handle =>
    match x.queue with
    | [] => x
    | b :: q =>
      let r := (opBlock (envAt st x.chain) n b).run none x.P x.V
      { x with queue := q, P := r.P, V := r.V }
  | .create w =>
    let r := (opCreate n n n w).run none x.P x.V
    { x with P := r.P, V := r.V }
  | .newAddr w stk =>
    match useWallet x.P x.V w with
    | none => x
    | some v => let r := (opNewAddr (envAt st x.chain) n n n stk).run none x.P v; { x with P := r.P, V := r.V }
  | .recvTx tx =>
    let r := Model.Persist.recvTx (envAt st x.chain) n n none tx x.P x.V
    { x with P := r.P, V := r.V }
  | .crash =>
    if crashing then
      let r := Model.Persist.crash (envAt st x.chain) n x.P
      { x with queue := [], P := r.P, V := r.V }
    else x

def runQ (st : Static) (n : Nat) (crashing : Bool) (x : SysQ) (evs : List EvQ) : SysQ :=
  evs.foldl (stepQ st n crashing) x

theorem runQ_cons (st : Static) (n : Nat) (cr : Bool) (x : SysQ) (ev : EvQ) (evs : List EvQ) :
    runQ st n cr x (ev :: evs) = runQ st n cr (stepQ st n cr x ev) evs := rfl

theorem runQ_append (st : Static) (n : Nat) (cr : Bool) (x : SysQ) (l₁ l₂ : List EvQ) :
    runQ st n cr x (l₁ ++ l₂) = runQ st n cr (runQ st n cr x l₁) l₂ := by
  unfold runQ; rw [List.foldl_append]

/-- the steps of `SysQ` are the steps of MW.Spec.Persist's histories (`stepEv`): a handler step is the event
    `block b` for the oldest queued notification, a node event is `node …`, and so on -/
theorem stepQ_handle_sys (st : Static) (n : Nat) (cr : Bool) (x : SysQ) (b : Block) (q : List Block)
    (h : x.queue = b :: q) : (stepQ st n cr x .handle).sys st = stepEv n cr (x.sys st) (.block b) := by
  simp only [stepQ, h, SysQ.sys, stepEv]

theorem stepQ_create_sys (st : Static) (n : Nat) (cr : Bool) (x : SysQ) (w : Wid) :
    (stepQ st n cr x (.create w)).sys st = stepEv n cr (x.sys st) (.create w) := rfl

theorem stepQ_newAddr_sys (st : Static) (n : Nat) (cr : Bool) (x : SysQ) (w : Wid) (stk : Bool) :
    (stepQ st n cr x (.newAddr w stk)).sys st = stepEv n cr (x.sys st) (.newAddr w stk) := by
  simp only [stepQ, SysQ.sys, stepEv]
  cases useWallet x.P x.V w <;> rfl

theorem stepQ_crash_sys (st : Static) (n : Nat) (cr : Bool) (x : SysQ) :
    (stepQ st n cr x .crash).sys st = stepEv n cr (x.sys st) .crash := by
  simp only [stepQ, SysQ.sys, stepEv]
  cases cr <;> rfl

theorem stepQ_extend_sys (st : Static) (n : Nat) (cr : Bool) (x : SysQ) (b : Block) :
    (stepQ st n cr x (.extend b)).sys st =
      stepEv n cr (x.sys st) (.node { chain := x.chain ++ [b], known := st.known }) := rfl

-- ------------------------------------------------------------------ the world of C01 behind a `SysQ`

/-- C01's static context for the keystore content `ks` -/
def lenv (st : Static) (ks : AMap.T Wid KsRec) : MW.Lemmas.Ledger.Env :=
  { p := st.p, own := ownOf ks, wallets := walletsOf ks, known := st.known }

def SysQ.world (x : SysQ) : World := { chain := x.chain, queue := x.queue, s := x.P.led, v := x.V.led }

theorem ctx_eq (st : Static) (chain : List Block) (V : PVol) :
    ctxOf (envAt st chain) V = (lenv st V.keys).ctx chain := rfl

/-- the block operation of the persistence model IS C01's `processBlock` -/
theorem opBlock_processBlock (env : Model.Persist.Env) (n : Nat) (b : Block) (P : PStore) (V : PVol) :
    ((opBlock env n b).run none P V).P = { P with led := (processBlock (ctxOf env V) P.led V.led b).1 } ∧
    ((opBlock env n b).run none P V).V = { V with led := (processBlock (ctxOf env V) P.led V.led b).2.1 } ∧
    ((opBlock env n b).run none P V).ok = (processBlock (ctxOf env V) P.led V.led b).2.2 := by
  rw [block_none, processBlock_blockTx]
  cases hb : blockTx (ctxOf env V) P.led V.led.best b with
  | error e => exact ⟨rfl, rfl, rfl⟩
  | ok r => obtain ⟨s', ro, ad⟩ := r; exact ⟨rfl, rfl, rfl⟩


-- ------------------------------------------------------------------ the skeleton of a history

/-- what the hypotheses on a history talk about — the node's chain, the keystore content and the chains the
    node has had so far; it evolves the same way whether or not the process crashes -/
structure Skel where
  chain : List Block
  ks : AMap.T Wid KsRec
  hist : List (List Block)

/-- the keystore record after NewAddress -/
def issueRec (st : Static) (w : Wid) (r : KsRec) : KsRec :=
  { next := r.next + 1, addrs := r.addrs ++ [(r.next, st.derive w r.next)] }

def skStep (st : Static) (k : Skel) : EvQ → Skel
  | .extend b => { k with chain := k.chain ++ [b], hist := k.hist ++ [k.chain ++ [b]] }
  | .reorgTo n bs => { k with chain := k.chain.take (k.chain.length - n) ++ bs,
                              hist := k.hist ++ [k.chain.take (k.chain.length - n) ++ bs] }
  | .create w => if (AMap.get k.ks w).isSome then k else { k with ks := AMap.put k.ks w {} }
  | .newAddr w _ =>
    match AMap.get k.ks w with
    | some r => { k with ks := AMap.put k.ks w (issueRec st w r) }
    | none => k
  | .handle => k
  | .recvTx _ => k
  | .crash => k

def skRun (st : Static) (k : Skel) (evs : List EvQ) : Skel := evs.foldl (skStep st) k

/-- the hypotheses on one event: node chains are well-formed valid chains from genesis made of known blocks
    (valid for the keystore view of that moment), a reorganisation announces something, and — C01's
    "payments reach an address only after the wallet issued it" — an address being issued is paid by no chain
    the node has had so far and is new to the keystore (derived addresses are pairwise distinct) -/
def StepOK (st : Static) (G : Block) (k : Skel) : EvQ → Prop
  | .extend b => ChainOK (lenv st k.ks) G (k.chain ++ [b])
  | .reorgTo n bs => bs ≠ [] ∧ ChainOK (lenv st k.ks) G (k.chain.take (k.chain.length - n) ++ bs)
  | .newAddr w _ => ∀ r, AMap.get k.ks w = some r →
      (∀ c ∈ k.hist, addrUsed c (st.derive w r.next) = false) ∧ AMap.get (ownOf k.ks) (st.derive w r.next) = none
  | _ => True

def RunOK (st : Static) (G : Block) : Skel → List EvQ → Prop
  | _, [] => True
  | k, ev :: evs => StepOK st G k ev ∧ RunOK st G (skStep st k ev) evs

/-- the static hypotheses on the block files (C01's `EnvHyp`) -/
structure StaticOK (st : Static) (G : Block) : Prop where
  genesisOnly : ∀ id x, AMap.get st.known id = some x → x.height = 0 → x = G
  genesisPrev : ∀ id x, AMap.get st.known id = some x → x.id ≠ G.prev

theorem StaticOK.envHyp {st : Static} {G : Block} (h : StaticOK st G) (ks : AMap.T Wid KsRec) :
    EnvHyp (lenv st ks) G := ⟨h.genesisOnly, h.genesisPrev⟩

-- ------------------------------------------------------------------ the invariant

/-- CheckReady for one wallet -/
def readyB (s : Store) (w : Wid) : Bool :=
  match AMap.get s.status w with
  | some st => st.synced.isNone && !st.removed
  | none => false

theorem readyWallets_filter (s : Store) (ws : List Wid) : readyWallets s ws = ws.filter (readyB s) := rfl

theorem readyB_of_readyWallets {s s' : Store} (h : ∀ ws, readyWallets s' ws = readyWallets s ws) (w : Wid) :
    readyB s' w = readyB s w := by
  have := h [w]
  rw [readyWallets_filter, readyWallets_filter] at this
  cases h1 : readyB s' w <;> cases h2 : readyB s w <;> simp [List.filter, h1, h2] at this ⊢

/-- the keystore content is a map (distinct wallet ids), its addresses are pairwise distinct, and every
    stored wallet is ready (these histories have no import and no removal) -/
structure KeysOK (ks : AMap.T Wid KsRec) (led : Store) : Prop where
  nodupW : (walletsOf ks).Nodup
  nodupA : ((ownOf ks).map (·.1)).Nodup
  ready : ∀ w ∈ walletsOf ks, readyB led w = true

/-- THE INVARIANT of a `SysQ` along a history with skeleton `k`: chain and keystore are the skeleton's, the
    key cache is exact, and C01's step invariant `JS` holds for the keystore view of the moment with a stored
    chain `S` that is a prefix of a chain the node has had -/
structure JQ (st : Static) (G : Block) (x : SysQ) (k : Skel) : Prop where
  chain : x.chain = k.chain
  ks : x.P.ks = k.ks
  keys : x.V.keys = k.ks
  js : ∃ S, JS (lenv st k.ks) G x.world S ∧ ∃ c ∈ k.hist, S <+: c
  chainOK : ChainOK (lenv st k.ks) G k.chain
  cur : k.chain ∈ k.hist
  keysOK : KeysOK k.ks x.P.led

-- ------------------------------------------------------------------ node events and handler steps

theorem world_handle (st : Static) (n : Nat) (cr : Bool) (x : SysQ) :
    (stepQ st n cr x .handle).world = stepW (lenv st x.V.keys) x.world .handle ∧
    (stepQ st n cr x .handle).chain = x.chain ∧
    (stepQ st n cr x .handle).P.ks = x.P.ks ∧ (stepQ st n cr x .handle).V.keys = x.V.keys := by
  cases hq : x.queue with
  | nil =>
    have h1 : stepQ st n cr x .handle = x := by simp only [stepQ, hq]
    have h2 : stepW (lenv st x.V.keys) x.world .handle = x.world := by
      simp only [stepW, SysQ.world, hq]
    rw [h1, h2]; exact ⟨rfl, rfl, rfl, rfl⟩
  | cons b q =>
    obtain ⟨e1, e2, _⟩ := opBlock_processBlock (envAt st x.chain) n b x.P x.V
    have h1 : stepQ st n cr x .handle =
        { x with queue := q, P := ((opBlock (envAt st x.chain) n b).run none x.P x.V).P,
                 V := ((opBlock (envAt st x.chain) n b).run none x.P x.V).V } := by
      simp only [stepQ, hq]
    rw [h1, e1, e2]
    refine ⟨?_, rfl, rfl, rfl⟩
    simp only [stepW, SysQ.world, hq]
    rfl

theorem JQ_nodeOrHandle {st : Static} {G : Block} (H : StaticOK st G) (n : Nat) (cr : Bool) {x : SysQ} {k : Skel}
    (ev : Ledger.Ev) (evq : EvQ)
    (hev : (ev = .handle ∧ evq = .handle) ∨ (∃ b, ev = .extend b ∧ evq = .extend b) ∨
      (∃ m bs, ev = .reorgTo m bs ∧ evq = .reorgTo m bs))
    (hJ : JQ st G x k) (hok : StepOK st G k evq) : JQ st G (stepQ st n cr x evq) (skStep st k evq) := by
  obtain ⟨hc, hks, hkeys, ⟨S, hJS, c, hcm, hSc⟩, hN, hcur, hK⟩ := hJ
  -- the step in C01's world
  have hw : (stepQ st n cr x evq).world = stepW (lenv st k.ks) x.world ev ∧
      (stepQ st n cr x evq).P.ks = x.P.ks ∧ (stepQ st n cr x evq).V.keys = x.V.keys ∧
      (stepQ st n cr x evq).chain = (stepW (lenv st k.ks) x.world ev).chain := by
    rcases hev with ⟨rfl, rfl⟩ | ⟨b, rfl, rfl⟩ | ⟨m, bs, rfl, rfl⟩
    · obtain ⟨a, b, c', d⟩ := world_handle st n cr x
      rw [hkeys] at a
      refine ⟨a, c', d, ?_⟩
      rw [← a]; rfl
    · exact ⟨rfl, rfl, rfl, rfl⟩
    · exact ⟨rfl, rfl, rfl, rfl⟩
  obtain ⟨hw1, hw2, hw3, hw4⟩ := hw
  have hchain' : (stepW (lenv st k.ks) x.world ev).chain = (skStep st k evq).chain ∧
      (skStep st k evq).ks = k.ks ∧ (∀ c ∈ k.hist, c ∈ (skStep st k evq).hist) ∧
      (skStep st k evq).chain ∈ (skStep st k evq).hist ∧ Ledger.EvOK ev ∧
      ChainOK (lenv st k.ks) G (skStep st k evq).chain := by
    rcases hev with ⟨rfl, rfl⟩ | ⟨b, rfl, rfl⟩ | ⟨m, bs, rfl, rfl⟩
    · refine ⟨?_, rfl, fun c h => h, hcur, trivial, hN⟩
      show (stepW (lenv st k.ks) x.world .handle).chain = k.chain
      rw [← hc]
      cases hq : x.queue with
      | nil => simp only [stepW, SysQ.world, hq]
      | cons b q => simp only [stepW, SysQ.world, hq]
    · refine ⟨by show x.chain ++ [b] = k.chain ++ [b]; rw [hc], rfl,
        fun c h => List.mem_append_left _ h, List.mem_append_right _ (List.mem_singleton.2 rfl), trivial, hok⟩
    · refine ⟨by show x.chain.take (x.chain.length - m) ++ bs = k.chain.take (k.chain.length - m) ++ bs; rw [hc], rfl,
        fun c h => List.mem_append_left _ h, List.mem_append_right _ (List.mem_singleton.2 rfl), hok.1, hok.2⟩
  obtain ⟨hs1, hs2, hs3, hs4, hevok, hN'⟩ := hchain'
  have hNw : ChainOK (lenv st k.ks) G x.world.chain := by show ChainOK _ G x.chain; rw [hc]; exact hN
  have hNw' : ChainOK (lenv st k.ks) G (stepW (lenv st k.ks) x.world ev).chain := by rw [hs1]; exact hN'
  obtain ⟨S', hJS', hpre, hr⟩ := JS_step (H.envHyp k.ks) ev hJS hNw hNw' hevok
  refine ⟨by rw [hw4, hs1], by rw [hw2, hks, hs2], by rw [hw3, hkeys, hs2], ?_, by rw [hs2]; exact hN', hs4, ?_⟩
  · refine ⟨S', by rw [hs2, hw1]; exact hJS', ?_⟩
    rcases hpre with h | h
    · exact ⟨c, hs3 c hcm, h.trans hSc⟩
    · exact ⟨k.chain, hs3 _ hcur, by rw [← hc]; exact h⟩
  · rw [hs2]
    refine ⟨hK.nodupW, hK.nodupA, fun w hwm => ?_⟩
    have : (stepQ st n cr x evq).P.led = (stepW (lenv st k.ks) x.world ev).s := by rw [← hw1]; rfl
    rw [this, readyB_of_readyWallets hr w]
    exact hK.ready w hwm

end MW.Lemmas.Deepen3
