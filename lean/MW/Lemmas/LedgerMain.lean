/-
  The rollback theorem (`disconnect_sound`, no assumption about the block files beyond the ones of
  `DisconnectSpec` itself) in the forms used by the reorg / history theorems, and its consequences.
-/
import MW.Lemmas.LedgerDisc2
import MW.Lemmas.LedgerIssue2
import MW.Lemmas.LedgerWF2
import MW.Lemmas.LedgerAbs
import MW.Lemmas.LedgerInit
namespace MW.Lemmas.Ledger
open MW MW.Model.Ledger MW.Spec.Chain MW.Spec.Books

/-- disconnecting the tip block, for every context -/
theorem disconnectSpec_of {c : Ctx} : DisconnectSpec c := disconnect_sound

theorem disconnectSpec_env (e : Env) (own : Own) (ch : List Block) :
    DisconnectSpec ({ e with own := own }.ctx ch) :=
  disconnectSpec_of (c := { e with own := own }.ctx ch)

/-- rollback_connect: connecting a block and disconnecting it again restores every mined bucket
    extensionally (the pending buckets legitimately differ: rolled-back transactions return to the
    pending set) -/
theorem rollback_connect_inv {c : Ctx} {s s1 s2 : Store} {chain rest : List Block} {b : Block} {conf : List TxId}
    (hI : Inv c s chain) (hne : chain ≠ [])
    (hnode : c.node.chain = chain ++ b :: rest) (hvalid : ChainValid c.own c.node.chain)
    (hH : HeightsOK c.node.chain) (hknown : AMap.get c.node.known b.id = some b)
    (hAR : AllReady c.own (readyWallets s c.wallets)) (hre : (readyWallets s c.wallets).isEmpty = false)
    (h1 : filterBlock c s (readyWallets s c.wallets) b = .ok (s1, conf))
    (h2 : disconnectBlock c s1 b.height = .ok s2) :
    Inv c s1 (chain ++ [b]) ∧ Inv c s2 chain := by
  have hheight : b.height = chain.length := by
    have : ∀ (i : Nat) (x : Block), c.node.chain[i]? = some x → x.height = i := hH
    apply this; rw [hnode]; simp
  obtain ⟨s1', conf', h1', hI1, hst⟩ := connect_sound hI hnode hvalid hheight hAR hre
  rw [h1] at h1'
  have e1 : s1 = s1' := by injection h1' with h; exact congrArg Prod.fst h
  subst e1
  have hv1 : ChainValid c.own (chain ++ [b]) := by
    apply chainValid_prefix (a := chain ++ [b]) (b := rest)
    rw [show chain ++ [b] ++ rest = chain ++ b :: rest by simp, ← hnode]; exact hvalid
  have hH1 : HeightsOK (chain ++ [b]) := by
    apply heightsOK_prefix (a := chain ++ [b]) (c := rest)
    rw [show chain ++ [b] ++ rest = chain ++ b :: rest by simp, ← hnode]; exact hH
  obtain ⟨s2', h2', hI2, _⟩ := disconnectSpec_of s1 chain b hI1 hne hv1 hH1 hknown
    (by rw [readyWallets_congr hst]; exact hAR)
  rw [h2] at h2'
  have e2 : s2 = s2' := by injection h2' with h
  subst e2
  exact ⟨hI1, hI2⟩

/-- two stores that satisfy the invariant for the same chain have extensionally equal mined buckets -/
theorem inv_functional {c : Ctx} {s s' : Store} {chain : List Block} (h : Inv c s chain) (h' : Inv c s' chain) :
    AMap.Equiv s.credits s'.credits ∧ AMap.Equiv s.unspent s'.unspent ∧ AMap.Equiv s.debits s'.debits ∧
    AMap.Equiv s.game s'.game ∧ AMap.Equiv s.txrecs s'.txrecs ∧ AMap.Equiv s.blocks s'.blocks ∧
    AMap.Equiv s.sync s'.sync ∧ s.syncedTo = s'.syncedTo := by
  refine ⟨fun k => ?_, fun k => ?_, fun k => ?_, fun k => ?_, fun k => ?_, fun k => ?_, fun k => ?_, ?_⟩
  · rw [h.agree.credits, h'.agree.credits]
  · obtain ⟨w, tx, idx⟩ := k; rw [h.agree.unspent, h'.agree.unspent]
  · rw [h.agree.debits, h'.agree.debits]
  · rw [h.agree.game, h'.agree.game]
  · rw [h.agree.txrecs, h'.agree.txrecs]
  · rw [h.agree.blocks, h'.agree.blocks]
  · rw [h.sync, h'.sync]
  · have := h.syncedTo; have := h'.syncedTo; omega

end MW.Lemmas.Ledger
