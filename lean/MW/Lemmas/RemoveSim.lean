/-
  C08, removal in several database transactions with the block follower in between — the structural
  SIMULATION step.  A "ghost" store `g` is the store as it would be had no removal step run; the real store
  `s` is `g` minus some records of the wallet being removed (`Sub`).  If `filterBlock` succeeds on the ghost
  it succeeds on the real store with the same confirmed ids, and the result is again "ghost minus the same
  records" (`filterBlock_sim`).  Companions: `sub_refl`, `recvTx_sim_mined`, `filterBlock_frame`.
-/
import MW.Lemmas.LedgerWFCred2
import MW.Lemmas.PendHistRun
namespace MW.Lemmas.RemoveSim
open MW MW.Model.Ledger MW.Lemmas.Ledger MW.Lemmas.LedgerWFCred

-- ------------------------------------------------------------------ the relations

/-- `s` is `g` minus some credits paying `addrs`, some debits, some tx records; the wallet-keyed buckets and
    the sync table are identical.  (The field `addrs` comes last: the field `credits` mentions the
    parameter of the same name.) -/
structure Sub (addrs : List Addr) (g s : Store) : Prop where
  unspent : s.unspent = g.unspent
  game : s.game = g.game
  balance : s.balance = g.balance
  sync : s.sync = g.sync
  syncedTo : s.syncedTo = g.syncedTo
  status : s.status = g.status
  credits : ∀ k, AMap.get s.credits k = AMap.get g.credits k ∨
    (AMap.get s.credits k = none ∧ ∃ cr, AMap.get g.credits k = some cr ∧ addrs.contains cr.sh = true)
  debits : ∀ k, AMap.get s.debits k = AMap.get g.debits k ∨ AMap.get s.debits k = none
  txrecs : ∀ k, AMap.get s.txrecs k = AMap.get g.txrecs k ∨ AMap.get s.txrecs k = none
  addrs : s.addrs = g.addrs

/-- no record of block `bm` yet -/
structure Fresh (bm : BlockMeta) (g : Store) : Prop where
  txrecs : ∀ id, AMap.get g.txrecs (id, bm) = none
  blocks : AMap.get g.blocks bm.height = none
  credits : ∀ id i, AMap.get g.credits ⟨id, bm, i⟩ = none
  debits : ∀ id i, AMap.get g.debits ⟨id, bm, i⟩ = none

/-- the credit behind an unspent entry of a ready wallet does not pay the removed wallet -/
def CoinsOK (addrs : List Addr) (ready : List Wid) (g : Store) : Prop :=
  ∀ w' tx idx blk cr, ready.contains w' = true → AMap.get g.unspent (w', tx, idx) = some blk →
    AMap.get g.credits ⟨tx, blk, idx⟩ = some cr → addrs.contains cr.sh = false

/-- the records of one block on the two stores agree key by key -/
structure NewEq (bm : BlockMeta) (g s : Store) : Prop where
  txrecs : ∀ id, AMap.get s.txrecs (id, bm) = AMap.get g.txrecs (id, bm)
  blocks : AMap.get s.blocks bm.height = AMap.get g.blocks bm.height
  credits : ∀ id i, AMap.get s.credits ⟨id, bm, i⟩ = AMap.get g.credits ⟨id, bm, i⟩
  debits : ∀ id i, AMap.get s.debits ⟨id, bm, i⟩ = AMap.get g.debits ⟨id, bm, i⟩

theorem sub_refl (addrs : List Addr) (g : Store) : Sub addrs g g :=
  ⟨rfl, rfl, rfl, rfl, rfl, rfl, fun _ => Or.inl rfl, fun _ => Or.inl rfl, fun _ => Or.inl rfl, rfl⟩

-- ------------------------------------------------------------------ loops: two runs side by side

theorem foldlM_sim {α β : Type} (R : β → β → Prop) (f f' : β → α → M β) (l : List α)
    (hstep : ∀ b c a b', a ∈ l → R b c → f b a = .ok b' → ∃ c', f' c a = .ok c' ∧ R b' c')
    {b c b' : β} (hR : R b c) (h : l.foldlM f b = .ok b') : ∃ c', l.foldlM f' c = .ok c' ∧ R b' c' := by
  induction l generalizing b c with
  | nil =>
    have : b = b' := by simpa using h
    subst this; exact ⟨c, rfl, hR⟩
  | cons a l ih =>
    rw [List.foldlM_cons] at h
    obtain ⟨b1, h1, h2⟩ := M_bind_ok h
    obtain ⟨c1, hc1, hR1⟩ := hstep b c a b1 (List.mem_cons_self ..) hR h1
    obtain ⟨c', hc', hR'⟩ := ih (fun b c a' b' ha' => hstep b c a' b' (List.mem_cons_of_mem _ ha')) hR1 h2
    refine ⟨c', ?_, hR'⟩
    rw [List.foldlM_cons, hc1]; exact hc'

theorem foldIdxM_congr_ok {α β : Type} (f f' : β → Nat → α → M β) (l : List α)
    (hf : ∀ b i a r, a ∈ l → f b i a = .ok r → f' b i a = .ok r) {i : Nat} {b r : β}
    (h : foldIdxM f l i b = .ok r) : foldIdxM f' l i b = .ok r := by
  induction l generalizing i b with
  | nil => exact h
  | cons a l ih =>
    rw [foldIdxM_cons] at h ⊢
    obtain ⟨b1, h1, h2⟩ := M_bind_ok h
    rw [hf b i a b1 (List.mem_cons_self ..) h1]
    exact ih (fun b i a' r ha' => hf b i a' r (List.mem_cons_of_mem _ ha')) h2

theorem foldIdx_preserves {α β : Type} (Q : β → Prop) (f : β → Nat → α → β) (l : List α)
    (hf : ∀ b i a, a ∈ l → Q b → Q (f b i a)) {i : Nat} {b : β} (hb : Q b) : Q (foldIdx f l i b) := by
  induction l generalizing i b with
  | nil => exact hb
  | cons a l ih =>
    rw [foldIdx_cons]
    exact ih (fun b i a' ha' => hf b i a' (List.mem_cons_of_mem _ ha')) (hf b i a (List.mem_cons_self ..) hb)

-- ------------------------------------------------------------------ one bucket on the two stores

section tab
variable {K V : Type} [DecidableEq K]

/-- `si` is `gi` minus some entries -/
def SubT (gi si : AMap.T K V) : Prop := ∀ k, AMap.get si k = AMap.get gi k ∨ AMap.get si k = none

theorem SubT.put {gi si : AMap.T K V} (h : SubT gi si) (k : K) (v : V) :
    SubT (AMap.put gi k v) (AMap.put si k v) := by
  intro k'
  rw [AMap.get_put, AMap.get_put]
  by_cases hk : k = k'
  · simp [hk]
  · simp only [hk, if_false]; exact h k'

/-- the entries under the new block's keys agree; all other keys are as at the start (`g0`, `s0`) -/
structure TabP (isNew : K → Prop) (g0 s0 gi si : AMap.T K V) : Prop where
  new : ∀ k, isNew k → AMap.get si k = AMap.get gi k
  frame : ∀ k, ¬ isNew k → AMap.get si k = AMap.get s0 k
  gframe : ∀ k, ¬ isNew k → AMap.get gi k = AMap.get g0 k

theorem TabP.put {isNew : K → Prop} {g0 s0 gi si : AMap.T K V} (h : TabP isNew g0 s0 gi si) {k : K}
    (hk : isNew k) (v : V) : TabP isNew g0 s0 (AMap.put gi k v) (AMap.put si k v) := by
  constructor
  · intro k' hk'
    rw [AMap.get_put, AMap.get_put]
    by_cases e : k = k'
    · simp [e]
    · simp only [e, if_false]; exact h.new k' hk'
  · intro k' hk'
    have e : ¬ k = k' := fun e => hk' (e ▸ hk)
    rw [AMap.get_put]; simp only [e, if_false]; exact h.frame k' hk'
  · intro k' hk'
    have e : ¬ k = k' := fun e => hk' (e ▸ hk)
    rw [AMap.get_put]; simp only [e, if_false]; exact h.gframe k' hk'

end tab
-- ------------------------------------------------------------------ the credit bucket on the two stores

/-- `g0`, `s0`: the credit buckets when the block starts; `gi`, `si`: now -/
structure CredP (addrs : List Addr) (bm : BlockMeta) (g0 s0 gi si : AMap.T CredKey Credit) : Prop where
  sub : ∀ k, AMap.get si k = AMap.get gi k ∨
    (AMap.get si k = none ∧ ∃ cr, AMap.get gi k = some cr ∧ addrs.contains cr.sh = true)
  new : ∀ k, k.blk = bm → AMap.get si k = AMap.get gi k
  old : ∀ k, k.blk ≠ bm → (AMap.get gi k = AMap.get g0 k ∧ AMap.get si k = AMap.get s0 k) ∨
    (∃ c0 c1, AMap.get s0 k = some c0 ∧ AMap.get g0 k = some c0 ∧ addrs.contains c0.sh = false ∧
      AMap.get si k = AMap.get gi k ∧ AMap.get gi k = some c1 ∧ c1.sh = c0.sh)
  newc : ∀ k cr, k.blk = bm → AMap.get gi k = some cr → addrs.contains cr.sh = false

/-- the same write on both stores: a credit that does not pay `addrs`, under the new block or over a credit
    (present on both sides) with the same script hash -/
theorem CredP.put {addrs : List Addr} {bm : BlockMeta} {g0 s0 gi si : AMap.T CredKey Credit}
    (h : CredP addrs bm g0 s0 gi si) {k : CredKey} {v : Credit} (hv : addrs.contains v.sh = false)
    (hk : k.blk ≠ bm → ∃ c, AMap.get gi k = some c ∧ AMap.get si k = some c ∧ c.sh = v.sh) :
    CredP addrs bm g0 s0 (AMap.put gi k v) (AMap.put si k v) := by
  constructor
  · intro k'
    rw [AMap.get_put, AMap.get_put]
    by_cases e : k = k'
    · simp [e]
    · simp only [e, if_false]; exact h.sub k'
  · intro k' hk'
    rw [AMap.get_put, AMap.get_put]
    by_cases e : k = k'
    · simp [e]
    · simp only [e, if_false]; exact h.new k' hk'
  · intro k' hk'
    rw [AMap.get_put, AMap.get_put]
    by_cases e : k = k'
    · subst e
      rw [if_pos rfl, if_pos rfl]
      obtain ⟨c, hgc, hsc, hsh⟩ := hk hk'
      right
      rcases h.old k hk' with ⟨e1, e2⟩ | ⟨c0, c1, a1, a2, a3, _, a5, a6⟩
      · refine ⟨c, v, ?_, ?_, ?_, rfl, rfl, hsh.symm⟩
        · rw [← e2]; exact hsc
        · rw [← e1]; exact hgc
        · rw [hsh]; exact hv
      · refine ⟨c0, v, a1, a2, a3, rfl, rfl, ?_⟩
        rw [a5] at hgc
        cases hgc
        rw [← hsh]; exact a6
    · simp only [e, if_false]; exact h.old k' hk'
  · intro k' cr hk' hcr
    rw [AMap.get_put] at hcr
    by_cases e : k = k'
    · simp only [e, if_true, Option.some.injEq] at hcr
      rw [← hcr]; exact hv
    · simp only [e, if_false] at hcr; exact h.newc k' cr hk' hcr

-- ------------------------------------------------------------------ the coins of ready wallets

/-- `CoinsOK` on the two buckets it reads -/
def CoinsP (addrs : List Addr) (ready : List Wid) (u : AMap.T (Wid × TxId × Nat) BlockMeta)
    (cr : AMap.T CredKey Credit) : Prop :=
  ∀ w' tx idx blk c, ready.contains w' = true → AMap.get u (w', tx, idx) = some blk →
    AMap.get cr ⟨tx, blk, idx⟩ = some c → addrs.contains c.sh = false

theorem coinsOK_iff (addrs : List Addr) (ready : List Wid) (g : Store) :
    CoinsOK addrs ready g ↔ CoinsP addrs ready g.unspent g.credits := Iff.rfl

theorem CoinsP.put_credit {addrs : List Addr} {ready : List Wid} {u : AMap.T (Wid × TxId × Nat) BlockMeta}
    {cr : AMap.T CredKey Credit} (h : CoinsP addrs ready u cr) (k : CredKey) {v : Credit}
    (hv : addrs.contains v.sh = false) : CoinsP addrs ready u (AMap.put cr k v) := by
  intro w' tx idx blk c hw hu hc
  rw [AMap.get_put] at hc
  by_cases e : k = ⟨tx, blk, idx⟩
  · simp only [e, if_true, Option.some.injEq] at hc
    rw [← hc]; exact hv
  · simp only [e, if_false] at hc; exact h w' tx idx blk c hw hu hc

theorem CoinsP.erase_unspent {addrs : List Addr} {ready : List Wid} {u : AMap.T (Wid × TxId × Nat) BlockMeta}
    {cr : AMap.T CredKey Credit} (h : CoinsP addrs ready u cr) (k : Wid × TxId × Nat) :
    CoinsP addrs ready (AMap.erase u k) cr := by
  intro w' tx idx blk c hw hu hc
  rw [AMap.get_erase] at hu
  by_cases e : k = (w', tx, idx)
  · simp [e] at hu
  · simp only [e, if_false] at hu; exact h w' tx idx blk c hw hu hc

/-- a new unspent entry pointing at a credit that does not pay `addrs` -/
theorem CoinsP.put_unspent {addrs : List Addr} {ready : List Wid} {u : AMap.T (Wid × TxId × Nat) BlockMeta}
    {cr : AMap.T CredKey Credit} (h : CoinsP addrs ready u cr) (w : Wid) (tx : TxId) (idx : Nat) (blk : BlockMeta)
    (hc : ∀ c, AMap.get cr ⟨tx, blk, idx⟩ = some c → addrs.contains c.sh = false) :
    CoinsP addrs ready (AMap.put u (w, tx, idx) blk) cr := by
  intro w' tx' idx' blk' c hw hu hcr
  rw [AMap.get_put] at hu
  by_cases e : (w, tx, idx) = (w', tx', idx')
  · simp only [e, if_true, Option.some.injEq] at hu
    simp only [Prod.mk.injEq] at e
    obtain ⟨_, e2, e3⟩ := e
    subst e2; subst e3; subst hu
    exact hc c hcr
  · simp only [e, if_false] at hu; exact h w' tx' idx' blk' c hw hu hcr
-- ------------------------------------------------------------------ the loop invariant of the apply phase

/-- `g`, `s`: ghost and real store when the block starts; `gi`, `si`: now.  Bucket by bucket. -/
structure SimInv (addrs : List Addr) (ready : List Wid) (bm : BlockMeta) (g s gi si : Store) : Prop where
  unspent : si.unspent = gi.unspent
  game : si.game = gi.game
  balance : si.balance = gi.balance
  sync : si.sync = gi.sync
  syncedTo : si.syncedTo = gi.syncedTo
  status : si.status = gi.status
  adr : si.addrs = gi.addrs
  cred : CredP addrs bm g.credits s.credits gi.credits si.credits
  coins : CoinsP addrs ready gi.unspent gi.credits
  debS : SubT gi.debits si.debits
  deb : TabP (fun k : CredKey => k.blk = bm) g.debits s.debits gi.debits si.debits
  txS : SubT gi.txrecs si.txrecs
  tx : TabP (fun k : TxId × BlockMeta => k.2 = bm) g.txrecs s.txrecs gi.txrecs si.txrecs
  blk : TabP (fun h : Nat => h = bm.height) g.blocks s.blocks gi.blocks si.blocks

variable {addrs : List Addr} {ready : List Wid} {bm : BlockMeta} {g s gi si : Store}

theorem simInv_init (hSub : Sub addrs g s) (hF : Fresh bm g) (hFs : AMap.get s.blocks bm.height = none)
    (hC : CoinsOK addrs ready g) : SimInv addrs ready bm g s g s := by
  refine ⟨hSub.unspent, hSub.game, hSub.balance, hSub.sync, hSub.syncedTo, hSub.status, hSub.addrs,
    ⟨hSub.credits, ?_, fun _ _ => Or.inl ⟨rfl, rfl⟩, ?_⟩, hC, hSub.debits, ⟨?_, fun _ _ => rfl, fun _ _ => rfl⟩,
    hSub.txrecs, ⟨?_, fun _ _ => rfl, fun _ _ => rfl⟩, ⟨?_, fun _ _ => rfl, fun _ _ => rfl⟩⟩
  · intro k hk
    have hg : AMap.get g.credits k = none := by cases k; cases hk; exact hF.credits _ _
    rcases hSub.credits k with e | ⟨e, _⟩
    · exact e
    · rw [e, hg]
  · intro k cr hk hcr
    have hg : AMap.get g.credits k = none := by cases k; cases hk; exact hF.credits _ _
    rw [hg] at hcr; cases hcr
  · intro k hk
    have hg : AMap.get g.debits k = none := by cases k; cases hk; exact hF.debits _ _
    rcases hSub.debits k with e | e
    · exact e
    · rw [e, hg]
  · intro k hk
    have hg : AMap.get g.txrecs k = none := by cases k; cases hk; exact hF.txrecs _
    rcases hSub.txrecs k with e | e
    · exact e
    · rw [e, hg]
  · intro k hk
    cases hk
    rw [hFs, hF.blocks]

/-- the pending-side functions move neither side -/
theorem simInv_minedEq {gi' si' : Store} (h : SimInv addrs ready bm g s gi si) (hg : MinedEq gi gi')
    (hs : MinedEq si si') : SimInv addrs ready bm g s gi' si' := by
  constructor
  · rw [hs.unspent, hg.unspent]; exact h.unspent
  · rw [hs.game, hg.game]; exact h.game
  · rw [hs.balance, hg.balance]; exact h.balance
  · rw [hs.sync, hg.sync]; exact h.sync
  · rw [hs.syncedTo, hg.syncedTo]; exact h.syncedTo
  · rw [hs.status, hg.status]; exact h.status
  · rw [hs.addrs, hg.addrs]; exact h.adr
  · rw [hs.credits, hg.credits]; exact h.cred
  · rw [hg.unspent, hg.credits]; exact h.coins
  · rw [hs.debits, hg.debits]; exact h.debS
  · rw [hs.debits, hg.debits]; exact h.deb
  · rw [hs.txrecs, hg.txrecs]; exact h.txS
  · rw [hs.txrecs, hg.txrecs]; exact h.tx
  · rw [hs.blocks, hg.blocks]; exact h.blk

theorem simInv_recordMinedTx (h : SimInv addrs ready bm g s gi si) (tr : TxRec) :
    SimInv addrs ready bm g s (recordMinedTx gi tr bm) (recordMinedTx si tr bm) := by
  refine ⟨h.unspent, h.game, h.balance, h.sync, h.syncedTo, h.status, h.adr, h.cred, h.coins, h.debS, h.deb,
    h.txS.put _ _, h.tx.put rfl _, ?_⟩
  have e := h.blk.new bm.height rfl
  unfold recordMinedTx
  dsimp only
  cases hb : AMap.get gi.blocks bm.height with
  | none =>
    rw [hb] at e; rw [e]
    exact h.blk.put rfl _
  | some v =>
    obtain ⟨bh, txs⟩ := v
    rw [hb] at e; rw [e]
    exact h.blk.put rfl _

theorem simInv_spendApply (h : SimInv addrs ready bm g s gi si) (bals : Bals) (tr : TxRec) (rel : Rel)
    {i : Inp} {cblk : BlockMeta} {c : Credit}
    (hgc : AMap.get gi.credits ⟨i.tx, cblk, i.idx⟩ = some c) (hsc : AMap.get si.credits ⟨i.tx, cblk, i.idx⟩ = some c)
    (hsh : addrs.contains c.sh = false) :
    SimInv addrs ready bm g s (spendApply tr bm (gi, bals) rel i cblk c).1 (spendApply tr bm (si, bals) rel i cblk c).1 := by
  refine ⟨?_, ?_, h.balance, h.sync, h.syncedTo, h.status, h.adr, ?_, ?_, ?_, ?_, h.txS, h.tx, h.blk⟩
  · show AMap.erase si.unspent _ = AMap.erase gi.unspent _
    rw [h.unspent]
  · unfold spendApply
    dsimp only
    rw [h.game]
  · exact h.cred.put (v := { c with spent := true, spentBy := some ⟨tr.tx.id, bm, rel.index⟩ }) hsh
      (fun _ => ⟨c, hgc, hsc, rfl⟩)
  · exact (h.coins.put_credit _ (v := { c with spent := true, spentBy := some ⟨tr.tx.id, bm, rel.index⟩ }) hsh).erase_unspent _
  · exact h.debS.put _ _
  · exact h.deb.put (k := ⟨tr.tx.id, bm, rel.index⟩) rfl _

theorem simInv_creditApply (h : SimInv addrs ready bm g s gi si) (p : Params) (bals : Bals) (tr : TxRec) {rel : Rel}
    (ha : addrs.contains rel.out.addr = false) :
    SimInv addrs ready bm g s (creditApply p tr bm (gi, bals) rel).1 (creditApply p tr bm (si, bals) rel).1 := by
  refine ⟨?_, h.game, h.balance, h.sync, h.syncedTo, h.status, ?_, ?_, ?_, h.debS, h.deb, h.txS, h.tx, h.blk⟩
  · show AMap.put si.unspent _ _ = AMap.put gi.unspent _ _
    rw [h.unspent]
  · unfold creditApply
    dsimp only
    rw [h.adr]
  · exact h.cred.put (k := ⟨tr.tx.id, bm, rel.index⟩) (v := minedCreditOf p tr.tx.cb rel) ha (fun hne => absurd rfl hne)
  · refine (h.coins.put_credit ⟨tr.tx.id, bm, rel.index⟩ (v := minedCreditOf p tr.tx.cb rel) ha).put_unspent
      rel.wallet tr.tx.id rel.index bm ?_
    intro c hc
    rw [AMap.get_put, if_pos rfl] at hc
    cases hc; exact ha

theorem simInv_gameOne (h : SimInv addrs ready bm g s gi si) (tr : TxRec) (rel : Rel) :
    SimInv addrs ready bm g s (gameOne tr bm gi rel) (gameOne tr bm si rel) := by
  refine ⟨h.unspent, ?_, h.balance, h.sync, h.syncedTo, h.status, h.adr, h.cred, h.coins, h.debS, h.deb,
    h.txS, h.tx, h.blk⟩
  show AMap.put si.game _ _ = AMap.put gi.game _ _
  rw [h.game]
-- ------------------------------------------------------------------ the apply phase, function by function

/-- the pair of working states: same working balances, stores related -/
def SimR (addrs : List Addr) (ready : List Wid) (bm : BlockMeta) (g s : Store) (gb sb : Store × Bals) : Prop :=
  sb.2 = gb.2 ∧ SimInv addrs ready bm g s gb.1 sb.1

theorem spendOne_sim {tr : TxRec} {rel : Rel} {gb sb gb' : Store × Bals} (h : SimR addrs ready bm g s gb sb)
    (hw : ready.contains rel.wallet = true) (hg : spendOne tr bm gb rel = .ok gb') :
    ∃ sb', spendOne tr bm sb rel = .ok sb' ∧ SimR addrs ready bm g s gb' sb' := by
  obtain ⟨gi, bals⟩ := gb
  obtain ⟨si, bals'⟩ := sb
  obtain ⟨hb, h⟩ := h
  dsimp only at hb h
  subst hb
  unfold spendOne at hg
  split at hg
  · cases hg
  rename_i i hi
  split at hg
  · cases hg
  rename_i cblk hu
  split at hg
  · cases hg
  rename_i c hc
  split at hg
  · cases hg
  rename_i hsp
  split at hg
  · cases hg
  rename_i hgm
  split at hg
  · cases hg
  rename_i hbal
  cases hg
  dsimp only at hu hc hgm hbal
  have hsh := h.coins _ _ _ _ _ hw hu hc
  have hsc : AMap.get si.credits ⟨i.tx, cblk, i.idx⟩ = some c := by
    rcases h.cred.sub ⟨i.tx, cblk, i.idx⟩ with e | ⟨_, cr, e1, e2⟩
    · rw [e]; exact hc
    · rw [hc] at e1; cases e1; rw [hsh] at e2; cases e2
  refine ⟨spendApply tr bm (si, bals') rel i cblk c, ?_, rfl, simInv_spendApply h bals' tr rel hc hsc hsh⟩
  unfold spendOne
  simp only [hi, h.unspent, hu, hsc, h.game, hsp, hgm, hbal, if_false]
  rfl

theorem updateMinedBalance_sim {tr : TxRec} {bals : Bals} {gb' : Store × Bals}
    (h : SimInv addrs ready bm g s gi si) (hw : ∀ rel ∈ tr.relIn, ready.contains rel.wallet = true)
    (hg : updateMinedBalance gi bals tr bm = .ok gb') :
    ∃ sb', updateMinedBalance si bals tr bm = .ok sb' ∧ SimR addrs ready bm g s gb' sb' :=
  foldlM_sim (SimR addrs ready bm g s) _ _ tr.relIn
    (fun _ _ rel _ hrel hR hf => spendOne_sim hR (hw rel hrel) hf) (b := (gi, bals)) (c := (si, bals)) ⟨rfl, h⟩ hg

theorem insertMinedTx_sim {own : Own} {tr : TxRec} {bals : Bals} {r : Store × Bals × Bool}
    (h : SimInv addrs ready bm g s gi si) (hw : ∀ rel ∈ tr.relIn, ready.contains rel.wallet = true)
    (hg : insertMinedTx own gi bals tr bm = .ok r) :
    ∃ r', insertMinedTx own si bals tr bm = .ok r' ∧ r'.2.1 = r.2.1 ∧ SimInv addrs ready bm g s r.1 r'.1 := by
  unfold insertMinedTx at hg ⊢
  rw [h.tx.new (tr.tx.id, bm) rfl]
  split at hg
  · rename_i hx
    cases hg
    rw [if_pos hx]
    exact ⟨_, rfl, rfl, h⟩
  · rename_i hx
    rw [if_neg hx]
    obtain ⟨gb1, h1, h2⟩ := M_bind_ok hg
    obtain ⟨sb1, hs1, hb, hI⟩ := updateMinedBalance_sim (simInv_recordMinedTx h tr) hw h1
    cases h2
    rw [hs1]
    refine ⟨_, rfl, hb, ?_⟩
    exact simInv_minedEq hI
      ((minedEq_unpendMined _ _).trans (minedEq_removeDoubleSpends own _ tr))
      ((minedEq_unpendMined _ _).trans (minedEq_removeDoubleSpends own _ tr))

theorem creditOne_sim {p : Params} {tr : TxRec} {rel : Rel} {gb sb gb' : Store × Bals}
    (h : SimR addrs ready bm g s gb sb) (ha : addrs.contains rel.out.addr = false)
    (hg : creditOne p tr bm gb rel = .ok gb') :
    ∃ sb', creditOne p tr bm sb rel = .ok sb' ∧ SimR addrs ready bm g s gb' sb' := by
  obtain ⟨gi, bals⟩ := gb
  obtain ⟨si, bals'⟩ := sb
  obtain ⟨hb, h⟩ := h
  dsimp only at hb h
  subst hb
  unfold creditOne at hg ⊢
  dsimp only at hg ⊢
  rw [h.cred.new ⟨tr.tx.id, bm, rel.index⟩ rfl]
  split at hg
  · cases hg
  · rename_i hx
    cases hg
    rw [if_neg hx]
    exact ⟨_, rfl, rfl, simInv_creditApply h p bals' tr ha⟩

theorem foldl_simInv {α : Type} (f : Store → α → Store) (l : List α)
    (hf : ∀ gi si a, SimInv addrs ready bm g s gi si → SimInv addrs ready bm g s (f gi a) (f si a))
    (h : SimInv addrs ready bm g s gi si) : SimInv addrs ready bm g s (l.foldl f gi) (l.foldl f si) := by
  induction l generalizing gi si with
  | nil => exact h
  | cons a l ih => exact ih (hf _ _ a h)

theorem addCredits_sim {p : Params} {tr : TxRec} {bals : Bals} {gb' : Store × Bals}
    (h : SimInv addrs ready bm g s gi si) (ha : ∀ rel ∈ tr.relOut, addrs.contains rel.out.addr = false)
    (hg : addCredits p gi bals tr bm = .ok gb') :
    ∃ sb', addCredits p si bals tr bm = .ok sb' ∧ SimR addrs ready bm g s gb' sb' := by
  unfold addCredits at hg ⊢
  split at hg
  · rename_i hx
    cases hg
    rw [if_pos hx]
    exact ⟨_, rfl, rfl, h⟩
  · rename_i hx
    rw [if_neg hx]
    obtain ⟨gb1, h1, h2⟩ := M_bind_ok hg
    obtain ⟨sb1, hs1, hb, hI⟩ := foldlM_sim (SimR addrs ready bm g s) _ _ tr.relOut
      (fun _ _ rel _ hrel hR hf => creditOne_sim hR (ha rel hrel) hf) (b := (gi, bals)) (c := (si, bals)) ⟨rfl, h⟩ h1
    cases h2
    rw [hs1]
    exact ⟨_, rfl, hb, foldl_simInv _ _ (fun _ _ rel hh => simInv_gameOne hh tr rel) hI⟩

theorem addRelevantMined_sim {p : Params} {own : Own} {tr : TxRec} {gb sb gb' : Store × Bals}
    (h : SimR addrs ready bm g s gb sb) (hw : ∀ rel ∈ tr.relIn, ready.contains rel.wallet = true)
    (ha : ∀ rel ∈ tr.relOut, addrs.contains rel.out.addr = false)
    (hg : addRelevantMined p own gb.1 gb.2 tr bm = .ok gb') :
    ∃ sb', addRelevantMined p own sb.1 sb.2 tr bm = .ok sb' ∧ SimR addrs ready bm g s gb' sb' := by
  obtain ⟨hb, h⟩ := h
  unfold addRelevantMined at hg ⊢
  rw [hb]
  obtain ⟨r, h1, h2⟩ := M_bind_ok hg
  obtain ⟨r', hs1, hb1, hI⟩ := insertMinedTx_sim h hw h1
  rw [hs1]
  obtain ⟨gi1, bals1, fl⟩ := r
  obtain ⟨si1, bals1', fl'⟩ := r'
  dsimp only at hb1 hI h2 ⊢
  subst hb1
  exact addCredits_sim hI ha h2
/-- what the filter phase guarantees of a relevance record: inputs booked for ready wallets only, outputs
    paying none of the removed wallet's script hashes -/
def RecOK (addrs : List Addr) (ready : List Wid) (tr : TxRec) : Prop :=
  (∀ rel ∈ tr.relIn, ready.contains rel.wallet = true) ∧ (∀ rel ∈ tr.relOut, addrs.contains rel.out.addr = false)

theorem applyRelevant_sim {c : Ctx} {recs : List TxRec} {g1 : Store} (h : SimInv addrs ready bm g s gi si)
    (hrecs : ∀ tr ∈ recs, RecOK addrs ready tr) (hg : applyRelevant c gi ready bm recs = .ok g1) :
    ∃ s1, applyRelevant c si ready bm recs = .ok s1 ∧ SimInv addrs ready bm g s g1 s1 := by
  unfold applyRelevant at hg ⊢
  split at hg
  · rename_i hx
    cases hg
    rw [if_pos hx]
    exact ⟨_, rfl, h⟩
  · rename_i hx
    rw [if_neg hx]
    obtain ⟨gb1, h1, h2⟩ := M_bind_ok hg
    obtain ⟨sb1, hs1, hb, hI⟩ := foldlM_sim (SimR addrs ready bm g s)
      (fun sb tr => addRelevantMined c.p c.own sb.1 sb.2 tr bm) (fun sb tr => addRelevantMined c.p c.own sb.1 sb.2 tr bm) recs
      (fun _ _ tr _ htr hR hf => addRelevantMined_sim hR (hrecs tr htr).1 (hrecs tr htr).2 hf)
      (b := (gi, gi.balance.filter (fun e => ready.contains e.1)))
      (c := (si, si.balance.filter (fun e => ready.contains e.1))) ⟨by rw [h.balance], h⟩ h1
    cases h2
    dsimp only
    rw [hs1]
    refine ⟨_, rfl, ?_⟩
    refine ⟨hI.unspent, hI.game, ?_, hI.sync, hI.syncedTo, hI.status, hI.adr, hI.cred, hI.coins, hI.debS, hI.deb,
      hI.txS, hI.tx, hI.blk⟩
    show mergeBalances sb1.2 sb1.1.balance = mergeBalances gb1.2 gb1.1.balance
    rw [hb, hI.balance]

theorem putSyncedTo_sim {blk : BlockMeta} {g2 : Store} (h : SimInv addrs ready bm g s gi si)
    (hg : putSyncedTo gi blk = .ok g2) : ∃ s2, putSyncedTo si blk = .ok s2 ∧ SimInv addrs ready bm g s g2 s2 := by
  unfold putSyncedTo at hg ⊢
  rw [h.sync]
  split at hg
  · cases hg
  rename_i h1
  split at hg
  · cases hg
  rename_i h2
  cases hg
  rw [if_neg h1, if_neg h2]
  exact ⟨_, rfl, h.unspent, h.game, h.balance, rfl, rfl, h.status, h.adr, h.cred, h.coins, h.debS, h.deb,
    h.txS, h.tx, h.blk⟩

-- ------------------------------------------------------------------ the filter phase

theorem existCredit_mono (hSub : Sub addrs g s) (hng : KeysNodup g.credits) (hns : KeysNodup s.credits) {id : TxId}
    (h : existCreditFromTx s id = true) : existCreditFromTx g id = true := by
  unfold existCreditFromTx at h ⊢
  rw [List.any_eq_true] at h ⊢
  obtain ⟨e, he, hid⟩ := h
  obtain ⟨k, v⟩ := e
  have hs := (mem_iff_get_of_nodup hns k v).1 he
  refine ⟨(k, v), (mem_iff_get_of_nodup hng k v).2 ?_, hid⟩
  rcases hSub.credits k with e | ⟨e, _⟩
  · rw [← e]; exact hs
  · rw [hs] at e; cases e

/-- the two stores give the same previous transaction, except when all the credits of that transaction have
    been removed: then the real store skips the input and the ghost looks the transaction up on the node -/
theorem prevOf_sim {c : Ctx} (hSub : Sub addrs g s) (hng : KeysNodup g.credits) (hns : KeysNodup s.credits)
    (hfind : ∀ id, existCreditFromTx g id = true → (c.node.fetchTx id).isSome = true) (inBlk : List Tx) (id : TxId) :
    prevOf c s true inBlk id = prevOf c g true inBlk id ∨
    (existCreditFromTx g id = true ∧ existCreditFromTx s id = false ∧ prevOf c s true inBlk id = .skip ∧
      ∃ pt, c.node.fetchTx id = some pt ∧ prevOf c g true inBlk id = .found pt) := by
  unfold prevOf
  simp only [if_true, Bool.true_and]
  cases inBlk.find? (fun t => t.id = id) with
  | some t => left; rfl
  | none =>
    dsimp only
    cases hs : existCreditFromTx s id with
    | true =>
      have hgt := existCredit_mono hSub hng hns hs
      have hf := hfind id hgt
      rw [hgt]
      cases hn : c.node.fetchTx id with
      | none => rw [hn] at hf; cases hf
      | some t => left; rfl
    | false =>
      cases hgt : existCreditFromTx g id with
      | false => left; rfl
      | true =>
        have hf := hfind id hgt
        cases hn : c.node.fetchTx id with
        | none => rw [hn] at hf; cases hf
        | some t => right; exact ⟨rfl, rfl, rfl, t, rfl, rfl⟩
section filter
variable {c : Ctx}
  (hSub : Sub addrs g s) (hng : KeysNodup g.credits) (hns : KeysNodup s.credits)
  (hfind : ∀ id, existCreditFromTx g id = true → (c.node.fetchTx id).isSome = true)
  (hown : ∀ (id : TxId) (pt : Tx) (idx : Nat) (o : Out) (w' : Wid) (ch : Bool), existCreditFromTx g id = true →
    existCreditFromTx s id = false → c.node.fetchTx id = some pt → pt.outs[idx]? = some o → o.cls ≠ .raw →
    AMap.get c.own o.addr = some (w', ch) → ready.contains w' = false)
include hSub hng hns hfind hown

theorem filterIn_sim {inBlk : List Tx} {tr tr' : TxRec} {cur : Nat} {i : Inp}
    (hg : filterIn c g true inBlk ready tr cur i = .ok tr') : filterIn c s true inBlk ready tr cur i = .ok tr' := by
  rcases prevOf_sim hSub hng hns hfind inBlk i.tx with e | ⟨hgt, hsf, hsk, pt, hpt, hfd⟩
  · unfold filterIn at hg ⊢
    rw [e]; exact hg
  · unfold filterIn at hg ⊢
    rw [hsk]
    rw [hfd] at hg
    dsimp only at hg ⊢
    split at hg
    · cases hg
    rename_i o ho
    split at hg
    · exact hg
    rename_i hraw
    split at hg
    · rename_i w ch hw
      rw [hown i.tx pt i.idx o w ch hgt hsf hpt ho hraw hw] at hg
      exact hg
    · exact hg

theorem filterTxRel_sim {tx : Tx} {inBlk : List Tx} {r : Option TxRec}
    (hg : filterTxRel c g tx true inBlk ready = .ok r) : filterTxRel c s tx true inBlk ready = .ok r := by
  rw [filterTxRel_eq] at hg ⊢
  obtain ⟨tr, h1, h2⟩ := M_bind_ok hg
  have e : (if tx.cb = true then (pure { tx := tx } : M TxRec)
      else foldIdxM (filterIn c s true inBlk ready) tx.ins 0 { tx := tx }) = .ok tr := by
    split at h1
    · rename_i hcb; rw [if_pos hcb]; exact h1
    · rename_i hcb; rw [if_neg hcb]
      exact foldIdxM_congr_ok _ _ _ (fun _ _ _ _ _ hf => filterIn_sim hSub hng hns hfind hown hf) h1
  rw [e]
  exact h2

theorem filterTxs_sim {bid : BlkId} (txs : List Tx) : ∀ (seen : List Tx) (ti : Nat) (acc recs : List TxRec),
    filterTxs c g ready bid txs seen ti acc = .ok recs → filterTxs c s ready bid txs seen ti acc = .ok recs := by
  induction txs with
  | nil => intro seen ti acc recs h; exact h
  | cons tx rest ih =>
    intro seen ti acc recs h
    unfold filterTxs at h ⊢
    obtain ⟨r, h1, h2⟩ := M_bind_ok h
    rw [filterTxRel_sim hSub hng hns hfind hown h1]
    cases r with
    | none => exact ih _ _ _ _ h2
    | some tr => exact ih _ _ _ _ h2

end filter

-- what the filter phase guarantees of its records (any store)

theorem filterIn_recOK {c : Ctx} {st : Store} {mined : Bool} {inBlk : List Tx} {tr tr' : TxRec} {cur : Nat} {i : Inp}
    (h : RecOK addrs ready tr) (hf : filterIn c st mined inBlk ready tr cur i = .ok tr') : RecOK addrs ready tr' := by
  unfold filterIn at hf
  split at hf
  · cases hf; exact h
  · cases hf
  · split at hf
    · cases hf
    split at hf
    · cases hf; exact h
    split at hf
    · split at hf
      · rename_i hw
        cases hf
        refine ⟨?_, h.2⟩
        intro rel hrel
        rcases List.mem_append.1 hrel with hm | hm
        · exact h.1 rel hm
        · rw [List.mem_singleton] at hm; subst hm; exact hw
      · cases hf; exact h
    · cases hf; exact h

theorem filterOut_recOK {c : Ctx}
    (hrel : ∀ a w' ch, AMap.get c.own a = some (w', ch) → ready.contains w' = true → addrs.contains a = false)
    {tr : TxRec} (cur : Nat) (o : Out) (h : RecOK addrs ready tr) : RecOK addrs ready (filterOut c ready tr cur o) := by
  unfold filterOut
  split
  · exact h
  split
  · rename_i w ch ho
    split
    · rename_i hw
      refine ⟨h.1, ?_⟩
      intro rel hm
      rcases List.mem_append.1 hm with hm | hm
      · exact h.2 rel hm
      · rw [List.mem_singleton] at hm; subst hm; exact hrel o.addr w ch ho hw
    · exact h
  · exact h

theorem filterTxRel_recOK {c : Ctx} {st : Store}
    (hrel : ∀ a w' ch, AMap.get c.own a = some (w', ch) → ready.contains w' = true → addrs.contains a = false)
    {tx : Tx} {mined : Bool} {inBlk : List Tx} {tr : TxRec}
    (h : filterTxRel c st tx mined inBlk ready = .ok (some tr)) : RecOK addrs ready tr := by
  rw [filterTxRel_eq] at h
  obtain ⟨tr0, h1, h2⟩ := M_bind_ok h
  have h0 : RecOK addrs ready ({ tx := tx } : TxRec) :=
    ⟨fun _ hm => (by cases hm), fun _ hm => (by cases hm)⟩
  have hA : RecOK addrs ready tr0 := by
    split at h1
    · cases h1; exact h0
    · exact foldIdxM_preserves (RecOK addrs ready) _ _ (fun _ _ _ _ _ hq hf => filterIn_recOK hq hf) h0 h1
  have hB : RecOK addrs ready (foldIdx (filterOut c ready) tx.outs 0 tr0) :=
    foldIdx_preserves (RecOK addrs ready) _ _ (fun _ i o _ hq => filterOut_recOK hrel i o hq) hA
  split at h2
  · cases h2
  split at h2
  · cases h2
  · cases h2; exact hB

theorem filterTxs_recOK {c : Ctx} {st : Store}
    (hrel : ∀ a w' ch, AMap.get c.own a = some (w', ch) → ready.contains w' = true → addrs.contains a = false)
    {bid : BlkId} (txs : List Tx) : ∀ (seen : List Tx) (ti : Nat) (acc recs : List TxRec),
    (∀ tr ∈ acc, RecOK addrs ready tr) → filterTxs c st ready bid txs seen ti acc = .ok recs →
    ∀ tr ∈ recs, RecOK addrs ready tr := by
  induction txs with
  | nil => intro seen ti acc recs ha h; cases h; exact ha
  | cons tx rest ih =>
    intro seen ti acc recs ha h
    unfold filterTxs at h
    obtain ⟨r, h1, h2⟩ := M_bind_ok h
    cases r with
    | none => exact ih _ _ _ _ ha h2
    | some tr =>
      refine ih _ _ _ _ ?_ h2
      intro tr' hm
      rcases List.mem_append.1 hm with hm | hm
      · exact ha tr' hm
      · rw [List.mem_singleton] at hm; subst hm
        exact (filterTxRel_recOK hrel h1 : RecOK addrs ready tr)
-- ------------------------------------------------------------------ filterBlock

/-- the simulation, with the whole loop invariant as conclusion -/
theorem filterBlock_simInv {c : Ctx} {g' : Store} {b : Block} {conf : List TxId}
    (hSub : Sub addrs g s) (hng : KeysNodup g.credits) (hns : KeysNodup s.credits)
    (hF : Fresh ⟨b.height, b.id⟩ g) (hFs : AMap.get s.blocks b.height = none) (hC : CoinsOK addrs ready g)
    (hfind : ∀ id, existCreditFromTx g id = true → (c.node.fetchTx id).isSome = true)
    (hown : ∀ (id : TxId) (pt : Tx) (idx : Nat) (o : Out) (w' : Wid) (ch : Bool), existCreditFromTx g id = true →
      existCreditFromTx s id = false → c.node.fetchTx id = some pt → pt.outs[idx]? = some o → o.cls ≠ .raw →
      AMap.get c.own o.addr = some (w', ch) → ready.contains w' = false)
    (hrel : ∀ a w' ch, AMap.get c.own a = some (w', ch) → ready.contains w' = true → addrs.contains a = false)
    (hg : filterBlock c g ready b = .ok (g', conf)) :
    ∃ s', filterBlock c s ready b = .ok (s', conf) ∧ SimInv addrs ready ⟨b.height, b.id⟩ g s g' s' := by
  have tail : ∀ (recs : List TxRec), (∀ tr ∈ recs, RecOK addrs ready tr) → ∀ (g' : Store) (conf : List TxId),
      (applyRelevant c g ready ⟨b.height, b.id⟩ recs >>= fun s1 =>
        putSyncedTo (purgeUnrelated c.own s1 (if ready.isEmpty = true then [] else unrelatedTxs b.txs recs))
          ⟨b.height, b.id⟩ >>= fun s2 => (pure (s2, recs.map (·.tx.id)) : M (Store × List TxId))) = .ok (g', conf) →
      ∃ s', (applyRelevant c s ready ⟨b.height, b.id⟩ recs >>= fun s1 =>
        putSyncedTo (purgeUnrelated c.own s1 (if ready.isEmpty = true then [] else unrelatedTxs b.txs recs))
          ⟨b.height, b.id⟩ >>= fun s2 => (pure (s2, recs.map (·.tx.id)) : M (Store × List TxId))) = .ok (s', conf) ∧
        SimInv addrs ready ⟨b.height, b.id⟩ g s g' s' := by
    intro recs hrecs g' conf hg
    obtain ⟨g1, h1, hg⟩ := M_bind_ok hg
    obtain ⟨g2, h2, hg⟩ := M_bind_ok hg
    cases hg
    obtain ⟨s1, hs1, hI1⟩ := applyRelevant_sim (c := c) (simInv_init hSub hF hFs hC) hrecs h1
    obtain ⟨s2, hs2, hI2⟩ := putSyncedTo_sim
      (simInv_minedEq hI1 (minedEq_purgeUnrelated c.own g1 _) (minedEq_purgeUnrelated c.own s1 _)) h2
    refine ⟨s2, ?_, hI2⟩
    rw [hs1]
    simp only [M_ok_bind]
    rw [hs2]
    rfl
  unfold filterBlock at hg ⊢
  split at hg
  · cases hg
  rename_i onChain hbl
  dsimp only at hg ⊢
  split at hg
  · cases hg
  rename_i hid
  rw [if_neg hid]
  by_cases hre : ready.isEmpty = true
  · rw [if_pos hre] at hg ⊢
    exact tail [] (fun _ hm => by cases hm) _ _ hg
  · rw [if_neg hre] at hg ⊢
    obtain ⟨recs, h0, hg⟩ := M_bind_ok hg
    rw [filterTxs_sim hSub hng hns hfind hown _ _ _ _ _ h0]
    exact tail recs (filterTxs_recOK hrel _ _ _ _ _ (fun _ hm => by cases hm) h0) _ _ hg
/-- SIMULATION: if the follower's `filterBlock` succeeds on the ghost store, it succeeds on the real store
    (= ghost minus some records of the wallet being removed) with the same confirmed ids, and the result is
    again "ghost minus the same records" -/
theorem filterBlock_sim {addrs : List Addr} {ready : List Wid} {c : Ctx} {g s g' : Store} {b : Block} {conf : List TxId}
    (hSub : Sub addrs g s) (hng : KeysNodup g.credits) (hns : KeysNodup s.credits)
    (hF : Fresh ⟨b.height, b.id⟩ g) (hFs : AMap.get s.blocks b.height = none) (hC : CoinsOK addrs ready g)
    (hfind : ∀ id, existCreditFromTx g id = true → (c.node.fetchTx id).isSome = true)
    (hown : ∀ (id : TxId) (pt : Tx) (idx : Nat) (o : Out) (w' : Wid) (ch : Bool), existCreditFromTx g id = true →
      existCreditFromTx s id = false → c.node.fetchTx id = some pt → pt.outs[idx]? = some o → o.cls ≠ .raw →
      AMap.get c.own o.addr = some (w', ch) → ready.contains w' = false)
    (hrel : ∀ a w' ch, AMap.get c.own a = some (w', ch) → ready.contains w' = true → addrs.contains a = false)
    (hg : filterBlock c g ready b = .ok (g', conf)) :
    ∃ s', filterBlock c s ready b = .ok (s', conf) ∧ Sub addrs g' s' ∧ NewEq ⟨b.height, b.id⟩ g' s' ∧
      KeysNodup s'.credits ∧ KeysNodup g'.credits ∧ CoinsOK addrs ready g' ∧
      (∀ k, k.2 ≠ ⟨b.height, b.id⟩ → AMap.get s'.txrecs k = AMap.get s.txrecs k) ∧
      (∀ h, h ≠ b.height → AMap.get s'.blocks h = AMap.get s.blocks h) ∧
      (∀ k, k.blk ≠ ⟨b.height, b.id⟩ → AMap.get s'.debits k = AMap.get s.debits k) ∧
      (∀ k, k.blk ≠ ⟨b.height, b.id⟩ → AMap.get s'.credits k = AMap.get s.credits k ∨
        (∃ c0, AMap.get s.credits k = some c0 ∧ AMap.get g.credits k = some c0 ∧ addrs.contains c0.sh = false ∧
          AMap.get s'.credits k = AMap.get g'.credits k)) ∧
      (∀ k cr, AMap.get g.credits k = some cr → addrs.contains cr.sh = true → AMap.get g'.credits k = some cr) ∧
      (∀ k cr, AMap.get g'.credits k = some cr → addrs.contains cr.sh = true → AMap.get g.credits k = some cr) ∧
      (∀ k, k.2 ≠ ⟨b.height, b.id⟩ → AMap.get g'.txrecs k = AMap.get g.txrecs k) ∧
      (∀ h, h ≠ b.height → AMap.get g'.blocks h = AMap.get g.blocks h) ∧
      (∀ k, k.blk ≠ ⟨b.height, b.id⟩ → AMap.get g'.debits k = AMap.get g.debits k) := by
  obtain ⟨s', hs, hI⟩ := filterBlock_simInv hSub hng hns hF hFs hC hfind hown hrel hg
  refine ⟨s', hs,
    ⟨hI.unspent, hI.game, hI.balance, hI.sync, hI.syncedTo, hI.status, hI.cred.sub, hI.debS, hI.txS, hI.adr⟩,
    ⟨fun id => hI.tx.new (id, _) rfl, hI.blk.new _ rfl, fun id i => hI.cred.new ⟨id, _, i⟩ rfl,
      fun id i => hI.deb.new ⟨id, _, i⟩ rfl⟩,
    cn_filterBlock hns hs, cn_filterBlock hng hg, hI.coins, hI.tx.frame, hI.blk.frame, hI.deb.frame, ?_, ?_, ?_,
    hI.tx.gframe, hI.blk.gframe, hI.deb.gframe⟩
  · intro k hk
    rcases hI.cred.old k hk with ⟨_, e⟩ | ⟨c0, _, a1, a2, a3, a4, _, _⟩
    · exact Or.inl e
    · exact Or.inr ⟨c0, a1, a2, a3, a4⟩
  · intro k cr hk hsh
    by_cases hb : k.blk = ⟨b.height, b.id⟩
    · have : AMap.get g.credits k = none := by cases k; cases hb; exact hF.credits _ _
      rw [this] at hk; cases hk
    · rcases hI.cred.old k hb with ⟨e, _⟩ | ⟨c0, _, _, a2, a3, _, _, _⟩
      · rw [e]; exact hk
      · rw [hk] at a2; cases a2; rw [hsh] at a3; cases a3
  · intro k cr hk hsh
    by_cases hb : k.blk = ⟨b.height, b.id⟩
    · rw [hI.cred.newc k cr hb hk] at hsh; cases hsh
    · rcases hI.cred.old k hb with ⟨e, _⟩ | ⟨c0, c1, _, _, a3, _, a5, a6⟩
      · rw [← e]; exact hk
      · rw [hk] at a5; cases a5; rw [a6, a3] at hsh; cases hsh

-- ------------------------------------------------------------------ the frame of filterBlock, any store

/-- tx records / block records / debits outside block `bm` are those of `s0` -/
structure FrameInv (bm : BlockMeta) (s0 st : Store) : Prop where
  tx : ∀ k : TxId × BlockMeta, k.2 ≠ bm → AMap.get st.txrecs k = AMap.get s0.txrecs k
  blk : ∀ h : Nat, h ≠ bm.height → AMap.get st.blocks h = AMap.get s0.blocks h
  deb : ∀ k : CredKey, k.blk ≠ bm → AMap.get st.debits k = AMap.get s0.debits k

theorem FrameInv.minedEq {bm : BlockMeta} {s0 st st' : Store} (h : FrameInv bm s0 st) (hm : MinedEq st st') :
    FrameInv bm s0 st' := by
  constructor
  · rw [hm.txrecs]; exact h.tx
  · rw [hm.blocks]; exact h.blk
  · rw [hm.debits]; exact h.deb

theorem frame_recordMinedTx {bm : BlockMeta} {s0 st : Store} (h : FrameInv bm s0 st) (tr : TxRec) :
    FrameInv bm s0 (recordMinedTx st tr bm) := by
  refine ⟨?_, ?_, h.deb⟩
  · intro k hk
    show AMap.get (AMap.put st.txrecs (tr.tx.id, bm) tr.loc) k = _
    have e : ¬ (tr.tx.id, bm) = k := fun e => hk (by rw [← e])
    rw [AMap.get_put, if_neg e]; exact h.tx k hk
  · intro k hk
    unfold recordMinedTx
    dsimp only
    have e : ¬ bm.height = k := fun e => hk e.symm
    split
    · rw [AMap.get_put, if_neg e]; exact h.blk k hk
    · rw [AMap.get_put, if_neg e]; exact h.blk k hk

theorem frame_spendOne {bm : BlockMeta} {s0 : Store} {tr : TxRec} {sb sb' : Store × Bals} {rel : Rel}
    (h : FrameInv bm s0 sb.1) (hf : spendOne tr bm sb rel = .ok sb') : FrameInv bm s0 sb'.1 := by
  unfold spendOne at hf
  repeat' split at hf
  all_goals cases hf
  refine ⟨h.tx, h.blk, ?_⟩
  intro k hk
  show AMap.get (AMap.put sb.1.debits ⟨tr.tx.id, bm, rel.index⟩ _) k = _
  have e : ¬ (⟨tr.tx.id, bm, rel.index⟩ : CredKey) = k := fun e => hk (by rw [← e])
  rw [AMap.get_put, if_neg e]; exact h.deb k hk

theorem frame_creditOne {bm : BlockMeta} {s0 : Store} {p : Params} {tr : TxRec} {sb sb' : Store × Bals} {rel : Rel}
    (h : FrameInv bm s0 sb.1) (hf : creditOne p tr bm sb rel = .ok sb') : FrameInv bm s0 sb'.1 := by
  unfold creditOne at hf
  split at hf
  · cases hf
  · cases hf; exact ⟨h.tx, h.blk, h.deb⟩

theorem frame_addRelevantMined {bm : BlockMeta} {s0 : Store} {p : Params} {own : Own} {tr : TxRec}
    {sb sb' : Store × Bals} (h : FrameInv bm s0 sb.1) (hf : addRelevantMined p own sb.1 sb.2 tr bm = .ok sb') :
    FrameInv bm s0 sb'.1 := by
  unfold addRelevantMined at hf
  obtain ⟨r, h1, h2⟩ := M_bind_ok hf
  have hr : FrameInv bm s0 r.1 := by
    unfold insertMinedTx at h1
    split at h1
    · cases h1; exact h
    · obtain ⟨sb1, h3, h4⟩ := M_bind_ok h1
      cases h4
      have := foldlM_preserves_store (·.1) (FrameInv bm s0) _ _
        (fun _ _ _ _ hb hf => frame_spendOne hb hf) (b := (recordMinedTx sb.1 tr bm, sb.2))
        (frame_recordMinedTx h tr) h3
      exact this.minedEq ((minedEq_unpendMined _ _).trans (minedEq_removeDoubleSpends own _ tr))
  obtain ⟨s1, bals1, fl⟩ := r
  dsimp only at h2 hr
  unfold addCredits at h2
  split at h2
  · cases h2; exact hr
  · obtain ⟨sb1, h3, h4⟩ := M_bind_ok h2
    cases h4
    have h5 := foldlM_preserves_store (·.1) (FrameInv bm s0) _ _
      (fun _ _ _ _ hb hf => frame_creditOne hb hf) (b := (s1, bals1)) hr h3
    have : ∀ (l : List Rel) (st : Store), FrameInv bm s0 st → FrameInv bm s0 (l.foldl (gameOne tr bm) st) := by
      intro l
      induction l with
      | nil => intro st hst; exact hst
      | cons a l ih => intro st hst; exact ih _ ⟨hst.tx, hst.blk, hst.deb⟩
    exact this _ _ h5

theorem putSyncedTo_frame {st st' : Store} {blk : BlockMeta} (h : putSyncedTo st blk = .ok st') :
    st'.txrecs = st.txrecs ∧ st'.blocks = st.blocks ∧ st'.debits = st.debits := by
  unfold putSyncedTo at h
  split at h
  · cases h
  split at h
  · cases h
  cases h
  exact ⟨rfl, rfl, rfl⟩

/-- `filterBlock` writes tx records / the block record / debits only under the block's own keys (any store) -/
theorem filterBlock_frame {c : Ctx} {st st' : Store} {ready : List Wid} {b : Block} {conf : List TxId}
    (hg : filterBlock c st ready b = .ok (st', conf)) :
    (∀ k, k.2 ≠ ⟨b.height, b.id⟩ → AMap.get st'.txrecs k = AMap.get st.txrecs k) ∧
    (∀ h, h ≠ b.height → AMap.get st'.blocks h = AMap.get st.blocks h) ∧
    (∀ k, k.blk ≠ ⟨b.height, b.id⟩ → AMap.get st'.debits k = AMap.get st.debits k) := by
  have tail : ∀ (recs : List TxRec) (st' : Store) (conf : List TxId),
      (applyRelevant c st ready ⟨b.height, b.id⟩ recs >>= fun s1 =>
        putSyncedTo (purgeUnrelated c.own s1 (if ready.isEmpty = true then [] else unrelatedTxs b.txs recs))
          ⟨b.height, b.id⟩ >>= fun s2 => (pure (s2, recs.map (·.tx.id)) : M (Store × List TxId))) = .ok (st', conf) →
      FrameInv ⟨b.height, b.id⟩ st st' := by
    intro recs st' conf hg
    obtain ⟨s1, h1, hg⟩ := M_bind_ok hg
    obtain ⟨s2, h2, hg⟩ := M_bind_ok hg
    cases hg
    have hI1 : FrameInv ⟨b.height, b.id⟩ st s1 := by
      unfold applyRelevant at h1
      split at h1
      · cases h1; exact ⟨fun _ _ => rfl, fun _ _ => rfl, fun _ _ => rfl⟩
      · obtain ⟨sb1, h3, h4⟩ := M_bind_ok h1
        cases h4
        have := foldlM_preserves_store (·.1) (FrameInv ⟨b.height, b.id⟩ st) _ _
          (fun _ _ _ _ hb hf => frame_addRelevantMined hb hf)
          (b := (st, st.balance.filter (fun e => ready.contains e.1)))
          ⟨fun _ _ => rfl, fun _ _ => rfl, fun _ _ => rfl⟩ h3
        exact ⟨this.tx, this.blk, this.deb⟩
    have hI2 := hI1.minedEq (minedEq_purgeUnrelated c.own s1
      (if ready.isEmpty = true then [] else unrelatedTxs b.txs recs))
    obtain ⟨e1, e2, e3⟩ := putSyncedTo_frame h2
    exact ⟨by rw [e1]; exact hI2.tx, by rw [e2]; exact hI2.blk, by rw [e3]; exact hI2.deb⟩
  unfold filterBlock at hg
  split at hg
  · cases hg
  dsimp only at hg
  split at hg
  · cases hg
  by_cases hre : ready.isEmpty = true
  · rw [if_pos hre] at hg
    have := tail [] _ _ hg
    exact ⟨this.tx, this.blk, this.deb⟩
  · rw [if_neg hre] at hg
    obtain ⟨recs, _, hg⟩ := M_bind_ok hg
    have := tail recs _ _ hg
    exact ⟨this.tx, this.blk, this.deb⟩

-- ------------------------------------------------------------------ an unconfirmed transaction

/-- `recvTx` changes none of the mined buckets: `Sub`, `Fresh`, `CoinsOK`, `KeysNodup credits` survive it -/
theorem recvTx_sim_mined (c : Ctx) (s : Store) (v : Vol) (t : Tx) : MinedEq s (recvTx c s v t).1 := by
  have h := MW.Lemmas.PendHist.recvTx_mined c s v t
  simp only [MW.Lemmas.LedgerPending.minedOf, Prod.mk.injEq] at h
  obtain ⟨h1, h2, h3, h4, h5, h6, h7, h8, h9, h10, h11⟩ := h
  exact ⟨h1, h2, h3, h4, h5, h6, h7, h8, h9, h10, h11⟩

theorem sub_recvTx {addrs : List Addr} {g s : Store} (h : Sub addrs g s) (c c' : Ctx) (v v' : Vol) (t t' : Tx) :
    Sub addrs (recvTx c g v t).1 (recvTx c' s v' t').1 := by
  have hg := recvTx_sim_mined c g v t
  have hs := recvTx_sim_mined c' s v' t'
  constructor
  · rw [hs.unspent, hg.unspent]; exact h.unspent
  · rw [hs.game, hg.game]; exact h.game
  · rw [hs.balance, hg.balance]; exact h.balance
  · rw [hs.sync, hg.sync]; exact h.sync
  · rw [hs.syncedTo, hg.syncedTo]; exact h.syncedTo
  · rw [hs.status, hg.status]; exact h.status
  · rw [hs.credits, hg.credits]; exact h.credits
  · rw [hs.debits, hg.debits]; exact h.debits
  · rw [hs.txrecs, hg.txrecs]; exact h.txrecs
  · rw [hs.addrs, hg.addrs]; exact h.addrs

end MW.Lemmas.RemoveSim
