/-
  C08: single-store FRAME lemmas for `disconnectBlock` of the tip block (height `h`).  They hold for ANY store, no
  invariant assumed: tx records / debits / credits keyed off height `h` are left alone, except that a credit off height
  `h` may be UNSPENT because a debit at height `h` pointing at it was erased; nothing is ever created; a credit keeps
  its script hash; the block record at `h` goes, the others stay.
-/
import MW.Lemmas.RemoveSimWRb
namespace MW.Lemmas.RemoveSimW
open MW MW.Model.Ledger MW.Model.Remove MW.Lemmas.Ledger MW.Lemmas.LedgerWFCred MW.Lemmas.RemoveSim

/-- what rolling back the block record at height `h` (hash `bh`) leaves alone / may do, relative to the start store `s0` -/
structure RbFrame (h : Nat) (s0 s : Store) : Prop where
  txrecs : ∀ k : TxId × BlockMeta, k.2.height ≠ h → AMap.get s.txrecs k = AMap.get s0.txrecs k
  txMono : ∀ k : TxId × BlockMeta, AMap.get s0.txrecs k = none → AMap.get s.txrecs k = none
  debits : ∀ k : CredKey, k.blk.height ≠ h → AMap.get s.debits k = AMap.get s0.debits k
  debMono : ∀ k : CredKey, AMap.get s0.debits k = none → AMap.get s.debits k = none
  credits : ∀ k : CredKey, k.blk.height ≠ h → AMap.get s.credits k = AMap.get s0.credits k ∨
    ∃ cr, AMap.get s0.credits k = some cr ∧
      AMap.get s.credits k = some { cr with spent := false, spentBy := none } ∧
      ∃ dk d, dk.blk.height = h ∧ AMap.get s0.debits dk = some d ∧ d.2 = k ∧ AMap.get s.debits dk = none
  credMono : ∀ k : CredKey, AMap.get s0.credits k = none → AMap.get s.credits k = none
  credSh : ∀ k cr, AMap.get s.credits k = some cr → ∃ cr0, AMap.get s0.credits k = some cr0 ∧ cr0.sh = cr.sh

-- ------------------------------------------------------------------ the working invariant, on the three buckets

/-- `RbFrame` on the buckets, plus `debSub` (debits are only erased) which the unspend step needs -/
structure RbT (h : Nat) (c0 c : AMap.T CredKey Credit) (d0 d : AMap.T CredKey (Nat × CredKey))
    (t0 t : AMap.T (TxId × BlockMeta) (BlkId × Nat)) : Prop where
  txrecs : ∀ k : TxId × BlockMeta, k.2.height ≠ h → AMap.get t k = AMap.get t0 k
  txMono : ∀ k : TxId × BlockMeta, AMap.get t0 k = none → AMap.get t k = none
  debits : ∀ k : CredKey, k.blk.height ≠ h → AMap.get d k = AMap.get d0 k
  debMono : ∀ k : CredKey, AMap.get d0 k = none → AMap.get d k = none
  debSub : ∀ (k : CredKey) (v : Nat × CredKey), AMap.get d k = some v → AMap.get d0 k = some v
  credits : ∀ k : CredKey, k.blk.height ≠ h → AMap.get c k = AMap.get c0 k ∨
    ∃ cr, AMap.get c0 k = some cr ∧
      AMap.get c k = some { cr with spent := false, spentBy := none } ∧
      ∃ dk d', dk.blk.height = h ∧ AMap.get d0 dk = some d' ∧ d'.2 = k ∧ AMap.get d dk = none
  credMono : ∀ k : CredKey, AMap.get c0 k = none → AMap.get c k = none
  credSh : ∀ k cr, AMap.get c k = some cr → ∃ cr0, AMap.get c0 k = some cr0 ∧ cr0.sh = cr.sh

section rbt
variable {h : Nat} {c0 c : AMap.T CredKey Credit} {d0 d : AMap.T CredKey (Nat × CredKey)}
  {t0 t : AMap.T (TxId × BlockMeta) (BlkId × Nat)}

theorem RbT.refl (h : Nat) (c0 : AMap.T CredKey Credit) (d0 : AMap.T CredKey (Nat × CredKey))
    (t0 : AMap.T (TxId × BlockMeta) (BlkId × Nat)) : RbT h c0 c0 d0 d0 t0 t0 :=
  ⟨fun _ _ => rfl, fun _ hn => hn, fun _ _ => rfl, fun _ hn => hn, fun _ _ hv => hv, fun _ _ => Or.inl rfl,
    fun _ hn => hn, fun _ cr hc => ⟨cr, hc, rfl⟩⟩

theorem RbT.eraseTx (H : RbT h c0 c d0 d t0 t) {k0 : TxId × BlockMeta} (hk : k0.2.height = h) :
    RbT h c0 c d0 d t0 (AMap.erase t k0) := by
  refine ⟨?_, ?_, H.debits, H.debMono, H.debSub, H.credits, H.credMono, H.credSh⟩
  · intro k hk'
    rw [AMap.get_erase, if_neg (fun (e : k0 = k) => hk' (by rw [← e]; exact hk))]
    exact H.txrecs k hk'
  · intro k hn
    exact get_erase_none (H.txMono k hn) k0

theorem RbT.eraseCred (H : RbT h c0 c d0 d t0 t) {k0 : CredKey} (hk : k0.blk.height = h) :
    RbT h c0 (AMap.erase c k0) d0 d t0 t := by
  refine ⟨H.txrecs, H.txMono, H.debits, H.debMono, H.debSub, ?_, ?_, ?_⟩
  · intro k hk'
    rw [AMap.get_erase, if_neg (fun (e : k0 = k) => hk' (by rw [← e]; exact hk))]
    exact H.credits k hk'
  · intro k hn
    exact get_erase_none (H.credMono k hn) k0
  · intro k cr hc
    rw [AMap.get_erase] at hc
    by_cases e : k0 = k
    · rw [if_pos e] at hc; cases hc
    · rw [if_neg e] at hc; exact H.credSh k cr hc

theorem RbT.eraseDeb (H : RbT h c0 c d0 d t0 t) {k0 : CredKey} (hk : k0.blk.height = h) :
    RbT h c0 c d0 (AMap.erase d k0) t0 t := by
  refine ⟨H.txrecs, H.txMono, ?_, ?_, ?_, ?_, H.credMono, H.credSh⟩
  · intro k hk'
    rw [AMap.get_erase, if_neg (fun (e : k0 = k) => hk' (by rw [← e]; exact hk))]
    exact H.debits k hk'
  · intro k hn
    exact get_erase_none (H.debMono k hn) k0
  · intro k v hv
    rw [AMap.get_erase] at hv
    by_cases e : k0 = k
    · rw [if_pos e] at hv; cases hv
    · rw [if_neg e] at hv; exact H.debSub k v hv
  · intro k hk'
    rcases H.credits k hk' with e | ⟨cr, e1, e2, dk, d', e3, e4, e5, e6⟩
    · exact Or.inl e
    · exact Or.inr ⟨cr, e1, e2, dk, d', e3, e4, e5, get_erase_none e6 k0⟩

/-- the unspend: the credit `ck` (present) is overwritten with its unspent copy, a debit at height `h` that pointed
    at it being gone -/
theorem RbT.putCred (H : RbT h c0 c d0 d t0 t) {ck : CredKey} {cr : Credit} (hc : AMap.get c ck = some cr)
    (hw : ∃ dk d', dk.blk.height = h ∧ AMap.get d0 dk = some d' ∧ d'.2 = ck ∧ AMap.get d dk = none) :
    RbT h c0 (AMap.put c ck { cr with spent := false, spentBy := none }) d0 d t0 t := by
  refine ⟨H.txrecs, H.txMono, H.debits, H.debMono, H.debSub, ?_, ?_, ?_⟩
  · intro k hk'
    rw [AMap.get_put]
    by_cases e : ck = k
    · subst e
      rw [if_pos rfl]
      rcases H.credits ck hk' with e1 | ⟨cr0, e1, e2, w⟩
      · refine Or.inr ⟨cr, ?_, rfl, hw⟩
        rw [← e1]; exact hc
      · rw [hc] at e2
        cases e2
        exact Or.inr ⟨cr0, e1, rfl, w⟩
    · rw [if_neg e]; exact H.credits k hk'
  · intro k hn
    exact get_put_none hc (H.credMono k hn) _
  · intro k cr' hc'
    rw [AMap.get_put] at hc'
    by_cases e : ck = k
    · rw [if_pos e] at hc'
      cases hc'
      subst e
      exact H.credSh ck cr hc
    · rw [if_neg e] at hc'; exact H.credSh k cr' hc'

end rbt

-- ------------------------------------------------------------------ the invariant on stores

/-- the working invariant while the block record at height `h` is rolled back: the buckets, and the block bucket is
    not touched by the inner loops -/
def RbInv (h : Nat) (s0 s : Store) : Prop :=
  RbT h s0.credits s.credits s0.debits s.debits s0.txrecs s.txrecs ∧ s.blocks = s0.blocks

section inv
variable {h : Nat} {s0 s : Store} {c : Ctx}

theorem RbInv.refl (h : Nat) (s0 : Store) : RbInv h s0 s0 := ⟨RbT.refl _ _ _ _, rfl⟩

theorem RbInv.of_eq {s' : Store} (H : RbInv h s0 s) (e1 : s'.credits = s.credits) (e2 : s'.debits = s.debits)
    (e3 : s'.txrecs = s.txrecs) (e4 : s'.blocks = s.blocks) : RbInv h s0 s' := by
  unfold RbInv at *
  rw [e1, e2, e3, e4]; exact H

theorem RbInv.minedEq {s' : Store} (H : RbInv h s0 s) (hm : MinedEq s s') : RbInv h s0 s' :=
  H.of_eq hm.credits hm.debits hm.txrecs hm.blocks

theorem RbInv.toFrame (H : RbInv h s0 s) : RbFrame h s0 s :=
  ⟨H.1.txrecs, H.1.txMono, H.1.debits, H.1.debMono, H.1.credits, H.1.credMono, H.1.credSh⟩

theorem rbInv_addr (H : RbInv h s0 s) (w : Wid) (o : Out) (ch : Nat) : RbInv h s0 (rollbackAddr s w o ch) := by
  rcases rollbackAddr_shape s w o ch with e | e
  · rw [e]; exact H
  · rw [e]; exact H

theorem ownedOut_inv (H : RbInv h s0 s) {b : Bals} {id : TxId} {blk : BlockMeta} {i : Nat} {o : Out} {w : Wid}
    {r : Store × Bals} (hg : rollbackOwnedOut id blk (s, b) i o w = .ok r) : RbInv h s0 r.1 := by
  unfold rollbackOwnedOut at hg
  dsimp only at hg
  split at hg
  · split at hg
    · cases hg
    · cases hg
      exact rbInv_addr (s := { s with unspent := AMap.erase s.unspent (w, id, i) }) H w o _
  · cases hg
    exact rbInv_addr H w o _

theorem cbOut_inv {blk : BlockMeta} (hb : blk.height = h) (H : RbInv h s0 s) {b : Bals} {id : TxId} {i : Nat} {o : Out}
    {l : List (TxId × Nat)} {r : (Store × Bals) × List (TxId × Nat)}
    (hg : rollbackCbOut c id blk ((s, b), l) i o = .ok r) : RbInv h s0 r.1.1 := by
  unfold rollbackCbOut at hg
  dsimp only at hg
  cases hc : AMap.get s.credits ⟨id, blk, i⟩ with
  | none => rw [hc] at hg; cases hg; exact H
  | some cr =>
    rw [hc] at hg
    dsimp only at hg
    split at hg
    · cases hg
    have h1 : RbInv h s0 { s with credits := AMap.erase s.credits ⟨id, blk, i⟩ } :=
      ⟨H.1.eraseCred (k0 := ⟨id, blk, i⟩) hb, H.2⟩
    cases ho : AMap.get c.own o.addr with
    | none => rw [ho] at hg; cases hg; exact h1
    | some wc =>
      obtain ⟨w1, ch⟩ := wc
      rw [ho] at hg
      dsimp only at hg
      obtain ⟨r1, g2, g3⟩ := M_bind_ok hg
      have hr := ownedOut_inv h1 g2
      split at g3
      · cases g3; exact hr
      · cases g3; exact hr

theorem out_inv {blk : BlockMeta} (hb : blk.height = h) (H : RbInv h s0 s) {b : Bals} {id : TxId} {i : Nat} {o : Out}
    {r : Store × Bals} (hg : rollbackOut c id blk (s, b) i o = .ok r) : RbInv h s0 r.1 := by
  unfold rollbackOut at hg
  dsimp only at hg
  cases hc : AMap.get s.credits ⟨id, blk, i⟩ with
  | none => rw [hc] at hg; cases hg; exact H
  | some cr =>
    rw [hc] at hg
    dsimp only at hg
    split at hg
    · cases hg
    have h1 : RbInv h s0 { s with credits := AMap.erase s.credits ⟨id, blk, i⟩,
                                  pendCred := AMap.put s.pendCred (id, i) { cr with spentBy := none } } :=
      ⟨H.1.eraseCred (k0 := ⟨id, blk, i⟩) hb, H.2⟩
    cases ho : AMap.get c.own o.addr with
    | none => rw [ho] at hg; cases hg; exact h1
    | some wc =>
      obtain ⟨w1, ch⟩ := wc
      rw [ho] at hg
      dsimp only at hg
      obtain ⟨r1, g2, g3⟩ := M_bind_ok hg
      have hr := ownedOut_inv h1 g2
      split at g3
      · cases g3; exact hr
      · cases g3; exact hr

theorem in_inv {blk : BlockMeta} (hb : blk.height = h) (H : RbInv h s0 s) {b : Bals} {id : TxId} {cur : Nat} {i : Inp}
    {r : Store × Bals} (hg : rollbackIn c id blk (s, b) cur i = .ok r) : RbInv h s0 r.1 := by
  unfold rollbackIn at hg
  dsimp only at hg
  cases hd : AMap.get s.debits ⟨id, blk, cur⟩ with
  | none => rw [hd] at hg; cases hg; exact H
  | some dv =>
    obtain ⟨amt, ck⟩ := dv
    rw [hd] at hg
    dsimp only at hg
    cases hcr : AMap.get s.credits ck with
    | none => rw [hcr] at hg; cases hg
    | some cr =>
      rw [hcr] at hg
      dsimp only at hg
      have hm : RbT h s0.credits (AMap.put s.credits ck { cr with spent := false, spentBy := none }) s0.debits
          (AMap.erase s.debits ⟨id, blk, cur⟩) s0.txrecs s.txrecs :=
        (H.1.eraseDeb (k0 := ⟨id, blk, cur⟩) hb).putCred hcr
          ⟨⟨id, blk, cur⟩, (amt, ck), hb, H.1.debSub _ _ hd, rfl, by rw [AMap.get_erase, if_pos rfl]⟩
      cases ho : AMap.get c.own cr.sh with
      | none => rw [ho] at hg; cases hg; exact ⟨hm, H.2⟩
      | some wc =>
        obtain ⟨w1, ch⟩ := wc
        rw [ho] at hg
        dsimp only at hg
        split at hg
        · split at hg
          · cases hg
          · cases hg; exact ⟨hm, H.2⟩
        · cases hg; exact ⟨hm, H.2⟩

theorem tx_inv {blk : BlockMeta} (hb : blk.height = h) (H : RbInv h s0 s) {b : Bals} {id : TxId}
    {r : Store × Bals × List (TxId × Nat)} (hg : rollbackTx c s b blk id = .ok r) : RbInv h s0 r.1 := by
  unfold rollbackTx at hg
  cases ht : AMap.get s.txrecs (id, blk) with
  | none => rw [ht] at hg; cases hg; exact H
  | some loc =>
    rw [ht] at hg
    dsimp only at hg
    cases hl : c.node.txByFileLoc loc with
    | none => rw [hl] at hg; cases hg
    | some tx =>
      rw [hl] at hg
      dsimp only at hg
      have hm : RbT h s0.credits s.credits s0.debits s.debits s0.txrecs (AMap.erase s.txrecs (id, blk)) :=
        H.1.eraseTx (k0 := (id, blk)) hb
      by_cases hcb : tx.cb = true
      · rw [if_pos hcb] at hg
        obtain ⟨ga, h2, h3⟩ := M_bind_ok hg
        cases h3
        exact foldIdxM_pres (fun (ga : (Store × Bals) × List (TxId × Nat)) => RbInv h s0 ga.1.1)
          (rollbackCbOut c id blk) tx.outs 0
          (({ s with txrecs := AMap.erase s.txrecs (id, blk) }, b), []) _
          (fun b j a b' _ hQ hf => cbOut_inv hb hQ hf) ⟨hm, H.2⟩ h2
      · rw [if_neg hcb] at hg
        obtain ⟨gb1, h2, h3⟩ := M_bind_ok hg
        obtain ⟨gb2, h4, h5⟩ := M_bind_ok h3
        cases h5
        have q1 := foldIdxM_pres (fun (ga : Store × Bals) => RbInv h s0 ga.1)
          (rollbackIn c id blk) tx.ins 0
          ({ s with txrecs := AMap.erase s.txrecs (id, blk), pending := AMap.put s.pending id tx }, b) _
          (fun b j a b' _ hQ hf => in_inv hb hQ hf) ⟨hm, H.2⟩ h2
        exact foldIdxM_pres (fun (ga : Store × Bals) => RbInv h s0 ga.1)
          (rollbackOut c id blk) tx.outs 0 gb1 _
          (fun b j a b' _ hQ hf => out_inv hb hQ hf) q1 h4

theorem blockAt_inv {a a' : RbAcc} (H : RbInv h s0 a.s) (hg : rollbackBlockAt c a h = .ok a') : RbInv h s0 a'.s := by
  unfold rollbackBlockAt at hg
  cases hbk : AMap.get a.s.blocks h with
  | none => rw [hbk] at hg; cases hg; exact H
  | some r =>
    obtain ⟨bh, txs⟩ := r
    rw [hbk] at hg
    dsimp only at hg
    exact foldlM_preserves (fun (x : RbAcc) => RbInv h s0 x.s)
      (fun (a : RbAcc) id => do
        let (s', bals', rem) ← rollbackTx c a.s a.bals ⟨h, bh⟩ id
        pure { a with s := s', bals := bals', cb := a.cb ++ rem }) txs.reverse
      (by
        intro x id x' _ hx hf
        obtain ⟨r, q1, q2⟩ := M_bind_ok hf
        cases q2
        exact tx_inv (blk := ⟨h, bh⟩) rfl hx q1) (b := { a with heights := a.heights ++ [h] }) H hg

end inv

-- ------------------------------------------------------------------ Rollback of the tip, disconnectBlock

theorem rollback_frame {c : Ctx} {s s1 : Store} {h : Nat} (hh : s.syncedTo = h) (hg : rollback c s h = .ok s1) :
    RbT h s.credits s1.credits s.debits s1.debits s.txrecs s1.txrecs ∧
      (∀ h', AMap.get s1.blocks h' = if h' = h then none else AMap.get s.blocks h') := by
  unfold rollback at hg
  rw [hh, tip_heights] at hg
  obtain ⟨ga, h1, h2⟩ := M_bind_ok hg
  rw [List.foldlM_cons] at h1
  obtain ⟨ga', h1a, h1b⟩ := M_bind_ok h1
  cases h1b
  have hI : RbInv h s ga.s := blockAt_inv (a := { s := s, bals := s.balance }) (RbInv.refl h s) h1a
  have hhg := blockAt_heights h1a
  cases h2
  simp only [eraseHs_eq]
  have hmg := minedEq_foldl (purgeSpenders c.own) ga.cb
    { ga.s with blocks := ga.heights.foldl (fun b h => AMap.erase b h) ga.s.blocks }
    (fun s op _ => minedEq_purgeSpenders c.own s op)
  refine ⟨?_, ?_⟩
  · show RbT h s.credits _ s.debits _ s.txrecs _
    rw [hmg.credits, hmg.debits, hmg.txrecs]
    exact hI.1
  · intro h'
    rw [hmg.blocks]
    dsimp only
    rw [hhg, hI.2]
    exact tipBlocks s.blocks h h'

/-- **FRAME of one disconnected tip block**, any store -/
theorem disconnectBlock_frame {c : Ctx} {s s' : Store} {h : Nat} (hh : s.syncedTo = h)
    (hd : disconnectBlock c s h = .ok s') :
    RbFrame h s s' ∧ (∀ h', h' ≠ h → AMap.get s'.blocks h' = AMap.get s.blocks h') ∧ AMap.get s'.blocks h = none := by
  unfold disconnectBlock at hd
  by_cases h0 : h = 0
  · rw [if_pos h0] at hd; cases hd
  rw [if_neg h0] at hd
  have hlt : ¬ h > s.syncedTo := by rw [hh]; exact Nat.lt_irrefl h
  rw [if_neg hlt] at hd
  obtain ⟨s1, h1, h2⟩ := M_bind_ok hd
  cases h2
  obtain ⟨hT, hB⟩ := rollback_frame hh h1
  refine ⟨?_, ?_, ?_⟩
  · exact ⟨hT.txrecs, hT.txMono, hT.debits, hT.debMono, hT.credits, hT.credMono, hT.credSh⟩
  · intro h' hne
    show AMap.get s1.blocks h' = AMap.get s.blocks h'
    rw [hB h', if_neg hne]
  · show AMap.get s1.blocks h = none
    rw [hB h, if_pos rfl]

end MW.Lemmas.RemoveSimW
