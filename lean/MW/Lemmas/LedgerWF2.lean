/-
  WELL-FORMEDNESS OF THE UNSPENT INDEX (part 2): rollback / disconnect / reorg, the two entry points
  (`processBlock`, `recvTx`), whole histories (`wf_runW`), and `ledger_observed_wf` = `ledger_observed`
  with the well-formedness hypothesis moved to the INITIAL store.
-/
import MW.Lemmas.LedgerWF
namespace MW.Lemmas.Ledger
open MW MW.Model.Ledger MW.Spec.Chain MW.Spec.Books

-- ------------------------------------------------------------------ Rollback

theorem rollbackAddr_unspent (s : Store) (w : Wid) (o : Out) (h : Nat) :
    (rollbackAddr s w o h).unspent = s.unspent := by
  unfold rollbackAddr
  dsimp only
  repeat' split
  all_goals rfl

theorem wf_rollbackOwnedOut {id : TxId} {blk : BlockMeta} {sb sb' : Store × Bals} {i : Nat} {o : Out} {w : Wid}
    (hq : KeysNodup sb.1.unspent) (h : rollbackOwnedOut id blk sb i o w = .ok sb') :
    KeysNodup sb'.1.unspent := by
  unfold rollbackOwnedOut at h
  repeat' split at h
  all_goals cases h
  · show KeysNodup (rollbackAddr _ w o blk.height).unspent
    rw [rollbackAddr_unspent]
    exact keysNodup_erase hq _
  · show KeysNodup (rollbackAddr _ w o blk.height).unspent
    rw [rollbackAddr_unspent]
    exact hq

theorem wf_rollbackCbOut {c : Ctx} {id : TxId} {blk : BlockMeta} {acc acc' : (Store × Bals) × List (TxId × Nat)}
    {i : Nat} {o : Out} (hq : KeysNodup acc.1.1.unspent) (h : rollbackCbOut c id blk acc i o = .ok acc') :
    KeysNodup acc'.1.1.unspent := by
  unfold rollbackCbOut at h
  dsimp only at h
  split at h
  · cases h; exact hq
  · split at h
    · cases h
    · split at h
      · cases h; exact hq
      · obtain ⟨sb1, h1, h2⟩ := M_bind_ok h
        have hq1 : KeysNodup sb1.1.unspent := by
          refine wf_rollbackOwnedOut ?_ h1
          exact hq
        split at h2 <;> cases h2 <;> exact hq1

theorem wf_rollbackIn {c : Ctx} {id : TxId} {blk : BlockMeta} {sb sb' : Store × Bals} {cur : Nat} {i : Inp}
    (hq : KeysNodup sb.1.unspent) (h : rollbackIn c id blk sb cur i = .ok sb') : KeysNodup sb'.1.unspent := by
  unfold rollbackIn at h
  dsimp only at h
  repeat' split at h
  all_goals cases h
  all_goals first
    | exact hq
    | exact keysNodup_put hq _ _

theorem wf_rollbackOut {c : Ctx} {id : TxId} {blk : BlockMeta} {sb sb' : Store × Bals} {i : Nat} {o : Out}
    (hq : KeysNodup sb.1.unspent) (h : rollbackOut c id blk sb i o = .ok sb') : KeysNodup sb'.1.unspent := by
  unfold rollbackOut at h
  dsimp only at h
  split at h
  · cases h; exact hq
  · split at h
    · cases h
    · split at h
      · cases h; exact hq
      · obtain ⟨sb1, h1, h2⟩ := M_bind_ok h
        have hq1 : KeysNodup sb1.1.unspent := by
          refine wf_rollbackOwnedOut ?_ h1
          exact hq
        split at h2 <;> cases h2 <;> exact hq1

theorem wf_rollbackTx {c : Ctx} {s : Store} {bals : Bals} {blk : BlockMeta} {id : TxId}
    {r : Store × Bals × List (TxId × Nat)} (hq : KeysNodup s.unspent) (h : rollbackTx c s bals blk id = .ok r) :
    KeysNodup r.1.unspent := by
  unfold rollbackTx at h
  split at h
  · cases h; exact hq
  · split at h
    · cases h
    · dsimp only at h
      split at h
      · obtain ⟨r1, h1, h2⟩ := M_bind_ok h
        cases h2
        exact foldIdxM_preserves_store (·.1.1) (fun s => KeysNodup s.unspent) _ _
          (fun _ _ _ _ _ hb hf => wf_rollbackCbOut hb hf) (b := (({ s with txrecs := _ }, bals), [])) hq h1
      · obtain ⟨sb1, h1, h2⟩ := M_bind_ok h
        obtain ⟨sb2, h3, h4⟩ := M_bind_ok h2
        cases h4
        have hq1 : KeysNodup sb1.1.unspent :=
          foldIdxM_preserves_store (·.1) (fun s => KeysNodup s.unspent) _ _
            (fun _ _ _ _ _ hb hf => wf_rollbackIn hb hf)
            (b := ({ s with txrecs := _, pending := _ }, bals)) hq h1
        exact foldIdxM_preserves_store (·.1) (fun s => KeysNodup s.unspent) _ _
          (fun _ _ _ _ _ hb hf => wf_rollbackOut hb hf) hq1 h3

theorem wf_rollbackBlockAt {c : Ctx} {acc acc' : RbAcc} {cur : Nat}
    (hq : KeysNodup acc.s.unspent) (h : rollbackBlockAt c acc cur = .ok acc') : KeysNodup acc'.s.unspent := by
  unfold rollbackBlockAt at h
  split at h
  · cases h; exact hq
  · refine foldlM_preserves_store (·.s) (fun s => KeysNodup s.unspent) _ _ ?_
      (b := { acc with heights := acc.heights ++ [cur] }) hq h
    intro a id a' _ ha hf
    obtain ⟨r, h1, h2⟩ := M_bind_ok hf
    cases h2
    exact wf_rollbackTx ha h1

theorem wf_rollback {c : Ctx} {s s' : Store} {height : Nat}
    (hq : KeysNodup s.unspent) (h : rollback c s height = .ok s') : KeysNodup s'.unspent := by
  unfold rollback at h
  obtain ⟨acc, h1, h2⟩ := M_bind_ok h
  cases h2
  have hq1 : KeysNodup acc.s.unspent :=
    foldlM_preserves_store (·.s) (fun s => KeysNodup s.unspent) _ _
      (fun _ _ _ _ hb hf => wf_rollbackBlockAt hb hf) (b := { s := s, bals := s.balance }) hq h1
  have e1 : ∀ (l : List Nat) (s : Store),
      (l.foldl (fun s h => { s with blocks := AMap.erase s.blocks h }) s).unspent = s.unspent :=
    fun l s => foldl_unspent_eq _ l s (fun _ _ _ => rfl)
  show KeysNodup (List.foldl (purgeSpenders c.own) _ acc.cb).unspent
  rw [(minedEq_foldl _ _ _ (fun s op _ => minedEq_purgeSpenders c.own s op)).unspent, e1]
  exact hq1

theorem resetSyncedTo_unspent (s : Store) (height : Nat) : (resetSyncedTo s height).unspent = s.unspent := rfl

theorem wf_resetSyncedTo {s : Store} {height : Nat} (hq : KeysNodup s.unspent) :
    KeysNodup (resetSyncedTo s height).unspent := hq

theorem wf_disconnectBlock {c : Ctx} {s s' : Store} {height : Nat}
    (hq : KeysNodup s.unspent) (h : disconnectBlock c s height = .ok s') : KeysNodup s'.unspent := by
  unfold disconnectBlock at h
  split at h
  · cases h
  · split at h
    · cases h; exact hq
    · obtain ⟨s1, h1, h2⟩ := M_bind_ok h
      cases h2
      show KeysNodup s1.unspent
      exact wf_rollback hq h1

-- ------------------------------------------------------------------ reorg

/-- `alignNew` reads the node only: there is no store to preserve -/
theorem wf_alignNew {c : Ctx} {curH fuel : Nat} {nb : Block} {tc : List Block} {r : Block × List Block}
    (_ : alignNew c curH fuel nb tc = .ok r) : True := trivial

theorem wf_disconnectDown {c : Ctx} {nbH : Nat} : ∀ (fuel : Nat) (s : Store) (curH : Nat) (rolled : List Nat)
    (r : Store × Nat × List Nat), KeysNodup s.unspent → disconnectDown c nbH fuel s curH rolled = .ok r →
    KeysNodup r.1.unspent := by
  intro fuel
  induction fuel with
  | zero =>
    intro s curH rolled r hq h
    unfold disconnectDown at h
    cases h; exact hq
  | succ fuel ih =>
    intro s curH rolled r hq h
    unfold disconnectDown at h
    split at h
    · obtain ⟨s1, h1, h2⟩ := M_bind_ok h
      exact ih _ _ _ _ (wf_disconnectBlock hq h1) h2
    · cases h; exact hq

theorem wf_walkBack {c : Ctx} : ∀ (fuel : Nat) (w : Walk) (r : Walk × Bool),
    KeysNodup w.s.unspent → walkBack c fuel w = .ok r → KeysNodup r.1.s.unspent := by
  intro fuel
  induction fuel with
  | zero =>
    intro w r hq h
    unfold walkBack at h
    cases h; exact hq
  | succ fuel ih =>
    intro w r hq h
    unfold walkBack at h
    split at h
    · obtain ⟨s1, h1, h2⟩ := M_bind_ok h
      have hq1 := wf_disconnectBlock hq h1
      split at h2
      · cases h2
      · split at h2
        · cases h2
        · split at h2
          · cases h2
          · exact ih _ _ hq1 h2
    · cases h; exact hq

theorem wf_reorgDisconnect {c : Ctx} {s : Store} {best : BlockMeta} {nb : Block} {tc : List Block}
    {r : Store × List Nat × List Block} (hq : KeysNodup s.unspent)
    (h : reorgDisconnect c s best nb tc = .ok r) : KeysNodup r.1.unspent := by
  unfold reorgDisconnect at h
  split at h
  · cases h; exact hq
  · obtain ⟨r1, h1, h2⟩ := M_bind_ok h
    have hq1 := wf_disconnectDown _ _ _ _ _ hq h1
    obtain ⟨s1, curH, rolled⟩ := r1
    dsimp only at h2 hq1
    split at h2
    · cases h2
    · split at h2
      · cases h2; exact hq1
      · split at h2
        · cases h2
        · split at h2
          · cases h2
          · obtain ⟨wd, h3, h4⟩ := M_bind_ok h2
            have hq2 := wf_walkBack _ _ _ hq1 h3
            split at h4
            · cases h4
            · obtain ⟨s3, h5, h6⟩ := M_bind_ok h4
              cases h6
              exact wf_disconnectBlock hq2 h5

theorem wf_reorg {c : Ctx} {s : Store} {best : BlockMeta} {newBest : Block}
    {r : Store × List Nat × List (Nat × List TxId)} (hq : KeysNodup s.unspent)
    (h : reorg c s best newBest = .ok r) : KeysNodup r.1.unspent := by
  unfold reorg at h
  obtain ⟨r1, _, h2⟩ := M_bind_ok h
  obtain ⟨r2, h3, h4⟩ := M_bind_ok h2
  obtain ⟨r3, h5, h6⟩ := M_bind_ok h4
  cases h6
  exact wf_connectAll _ _ _ _ (wf_reorgDisconnect hq h3) h5

-- ------------------------------------------------------------------ the two entry points

/-- `processBlock` keeps the unspent index well formed (on error the store is returned unchanged) -/
theorem wf_processBlock {c : Ctx} {s : Store} {v : Vol} {b : Block} (h : KeysNodup s.unspent) :
    KeysNodup (processBlock c s v b).1.unspent := by
  unfold processBlock
  dsimp only
  split
  · exact h
  · rename_i s' rolled added hr
    show KeysNodup s'.unspent
    split at hr
    · obtain ⟨r1, h1, h2⟩ := M_bind_ok hr
      cases h2
      exact wf_filterBlock h h1
    · exact wf_reorg h hr

theorem addUnminedCredit_unspent {tr : TxRec} {s s' : Store} {rel : Rel}
    (h : addUnminedCredit tr s rel = .ok s') : s'.unspent = s.unspent := by
  unfold addUnminedCredit at h
  repeat' split at h
  all_goals cases h
  rfl

theorem addUnminedCredits_unspent {s s' : Store} {tr : TxRec}
    (h : addUnminedCredits s tr = .ok s') : s'.unspent = s.unspent := by
  unfold addUnminedCredits at h
  obtain ⟨s1, h1, h2⟩ := M_bind_ok h
  cases h2
  have e1 : ∀ (l : List Rel) (s : Store), (l.foldl (fun s rel =>
      { s with pendGame := AMap.put s.pendGame (rel.wallet, rel.out.cls.isBinding, tr.tx.id, rel.index) () })
      s).unspent = s.unspent :=
    fun l s => foldl_unspent_eq _ l s (fun _ _ _ => rfl)
  rw [e1]
  exact foldlM_preserves (fun x => x.unspent = s.unspent) _ _
    (fun _ _ _ _ hb hf => (addUnminedCredit_unspent hf).trans hb) rfl h1

theorem addRelevantUnmined_unspent {s s' : Store} {tr : TxRec}
    (h : addRelevantUnmined s tr = .ok s') : s'.unspent = s.unspent := by
  unfold addRelevantUnmined at h
  split at h
  · cases h
  · split at h
    · split at h
      · cases h; rfl
      · exact addUnminedCredits_unspent h
    · dsimp only at h
      split at h
      · cases h
        exact (minedEq_insertUnminedInputs _ tr).unspent
      · rw [addUnminedCredits_unspent h]
        exact (minedEq_insertUnminedInputs _ tr).unspent

/-- the unconfirmed path never writes the unspent index -/
theorem wf_recvTx {c : Ctx} {s : Store} {v : Vol} {tx : Tx} : (recvTx c s v tx).1.unspent = s.unspent := by
  unfold recvTx
  split
  · rfl
  · dsimp only
    split
    · rfl
    · rfl
    · split
      · rfl
      · rename_i h
        exact addRelevantUnmined_unspent h

-- ------------------------------------------------------------------ histories

theorem wf_stepW (e : Env) (w : World) (ev : Ev) (h : KeysNodup w.s.unspent) :
    KeysNodup (stepW e w ev).s.unspent := by
  cases ev with
  | extend b => exact h
  | reorgTo k bs => exact h
  | handle =>
    cases hq : w.queue with
    | nil => simp only [stepW, hq]; exact h
    | cons b q => simp only [stepW, hq]; exact wf_processBlock h

/-- the unspent index stays well formed along EVERY history of node events and handler steps -/
theorem wf_runW (e : Env) (w0 : World) (evs : List Ev) (h : KeysNodup w0.s.unspent) :
    KeysNodup (runW e w0 evs).s.unspent := by
  induction evs generalizing w0 with
  | nil => exact h
  | cons ev evs ih =>
    rw [runW_cons]
    exact ih _ (wf_stepW e w0 ev h)

/-- `ledger_observed` with the well-formedness of the unspent index assumed of the INITIAL store only -/
theorem ledger_observed_wf (e : Env) (G : Block) (w0 : World) (evs : List Ev) (H : RunHyp e G w0 evs)
    (h0 : Inv (e.ctx w0.chain) w0.s w0.chain) (hv0 : w0.v.best = tipMeta w0.chain) (hq0 : w0.queue = [])
    (hq : (runW e w0 evs).queue = [])
    (hwf0 : KeysNodup w0.s.unspent)
    (hlen : (runW e w0 evs).chain.length < 2^32) (hcb : e.p.cbMaturity < 2^32)
    (hstk : ∀ x ∈ ledgerOf e.own (runW e w0 evs).chain, ∀ f, x.cls = .stk f → f + 1 < 2^32)
    (w : Wid) (hw : (readyWallets w0.s e.wallets).contains w = true) (mc : Nat) :
    ((coinsOf (runW e w0 evs).s w).map (obsM (runW e w0 evs).s.syncedTo)).Perm
        ((utxosOf e.own (runW e w0 evs).chain w).map (obsS e.p ((runW e w0 evs).chain.length - 1))) ∧
      walletBalance (runW e w0 evs).s w mc =
        some (Spec.Chain.balance e.p e.own (runW e w0 evs).chain w mc) :=
  ledger_observed e G w0 evs H h0 hv0 hq0 hq (wf_runW e w0 evs hwf0) hlen hcb hstk w hw mc

end MW.Lemmas.Ledger
