/-
  C07 stage 2 with other wallets in the instance, part 1 — ONE TRANSACTION against a joined book, for an ARBITRARY
  active view.  `addTx_join` generalises `addImp_join`: the store is the join of a PASSIVE book `Bp` (first
  component of `EqJ`) and an ACTIVE book `A` of the keystore sub-view `oa` (`OwnSub own oa keepA`); the transaction
  is applied with the relevance record of the active view; nothing in `Bp` belongs to an active wallet (`SepP`).
  Unlike the rescan on a standing chain, an input of the transaction MAY find a coin of the passive half (the live
  follower meets a transaction that spends a coin of the wallet being restored): the spend fold is "hit in the
  active ledger, or skip" (`spendFoldJ`).
  Instances: the rescan (active = the restored wallet, passive = the ready wallets' books of the whole chain) and
  the live follower while a wallet is being restored (active = the ready wallets, passive = the restored wallet's
  books up to its cursor) — `addLive_join`, through `import_tx_eq_live` (`ImportLive.add_eq_live`).
-/
import MW.Lemmas.ImportJoinRec
import MW.Lemmas.ImportLive
namespace MW.Lemmas.ImportJoin
open MW MW.Model.Ledger MW.Model.Import MW.Spec.Chain MW.Spec.Books MW.Lemmas.Ledger

-- ------------------------------------------------------------------ separation, for any active predicate

/-- everything in the passive book `Bp` belongs to wallets the active predicate rejects -/
structure SepP (own : Own) (keepA : Wid → Bool) (C : List Occ) (Bp : Book) : Prop where
  nodup : (idsOf C).Nodup
  L : ∀ u ∈ Bp.L, CreatedIn own C u ∧ keepA u.wallet = false
  cred : ∀ ck cr, Bp.credits ck = some cr → ∃ u, CreatedIn own C u ∧ keepA u.wallet = false ∧ ck = u.credKey
  debit : ∀ dk d, Bp.debits dk = some d → ∃ u, CreatedIn own C u ∧ keepA u.wallet = false ∧ SpentBy C (u.tx, u.idx) dk
  game : ∀ gk, Bp.game gk = some () → keepA gk.wallet = false

/-- an owned output of an active wallet on the chain -/
def ACoin (own : Own) (keepA : Wid → Bool) (C : List Occ) (u : UCoin) : Prop := CreatedIn own C u ∧ keepA u.wallet = true

section
variable {own : Own} {keepA : Wid → Bool} {C : List Occ} {Bp : Book}

theorem sepP_L (hS : SepP own keepA C Bp) {u : UCoin} (hu : ACoin own keepA C u) : lookupU Bp.L u.tx u.idx = none := by
  cases h : lookupU Bp.L u.tx u.idx with
  | none => rfl
  | some u0 =>
    exfalso
    obtain ⟨hm, ht, hi⟩ := lookupU_some h
    obtain ⟨hc0, hw0⟩ := hS.L u0 hm
    have := char_created_unique hS.nodup hc0 hu.1 ht hi
    rw [this, hu.2] at hw0; cases hw0

theorem sepP_cred (hS : SepP own keepA C Bp) {u : UCoin} (hu : ACoin own keepA C u) : Bp.credits u.credKey = none := by
  cases h : Bp.credits u.credKey with
  | none => rfl
  | some cr =>
    exfalso
    obtain ⟨u0, hc0, hw0, hck⟩ := hS.cred _ _ h
    obtain ⟨ht, hi⟩ := char_credKey_inj hck
    have := char_created_unique hS.nodup hu.1 hc0 ht hi
    rw [← this, hu.2] at hw0; cases hw0

theorem sepP_game (hS : SepP own keepA C Bp) (gk : GameKey) (hw : keepA gk.wallet = true) : Bp.game gk = none := by
  cases h : Bp.game gk with
  | none => rfl
  | some x => cases x; have := hS.game gk h; rw [hw] at this; cases this

theorem sepP_debit (hS : SepP own keepA C Bp) {u : UCoin} (hu : ACoin own keepA C u) {dk : CredKey}
    (hsp : SpentBy C (u.tx, u.idx) dk) : Bp.debits dk = none := by
  cases h : Bp.debits dk with
  | none => rfl
  | some d =>
    exfalso
    obtain ⟨u0, hc0, hw0, hsp0⟩ := hS.debit _ _ h
    obtain ⟨oc, hoc, _, k, i, hk, hop, hdk⟩ := hsp
    obtain ⟨oc', hoc', _, k', i', hk', hop', hdk'⟩ := hsp0
    rw [hdk] at hdk'
    injection hdk' with h1 h2 h3
    have he : oc = oc' := occ_eq_of_id hS.nodup hoc hoc' h1
    subst he
    subst h3
    rw [hk] at hk'
    injection hk' with hk'
    subst hk'
    rw [hop] at hop'
    injection hop' with ht hi
    have := char_created_unique hS.nodup hu.1 hc0 ht hi
    rw [← this, hu.2] at hw0; cases hw0

end

/-- the books of a valid chain prefix for a sub-view are separated from every wallet the sub-view rejects -/
theorem sepP_bookOf {p : Params} {own op : Own} {keepP keepA : Wid → Bool} (hO : OwnSub own op keepP)
    (hk : ∀ w', keepP w' = true → keepA w' = false)
    {pre post : List Block} (hV : ChainValid own (pre ++ post)) :
    SepP own keepA (occs (pre ++ post)) (bookOf p op pre) := by
  have hVp : ChainValid op pre := chainValid_sub hO (chainValid_prefix hV)
  have hG := glob_bookOf (p := p) hVp
  have hC := credInv_bookOf (p := p) hVp
  have hD := debitInv_bookOf (p := p) hVp
  have hGm := gameInv_bookOf (p := p) hVp
  have hn : (idsOf (occs (pre ++ post))).Nodup := (glob_bookOf (p := p) hV).idsNodup
  have hcr : ∀ {u : UCoin}, CreatedIn op (occs pre) u → CreatedIn own (occs (pre ++ post)) u ∧ keepA u.wallet = false := by
    intro u hu
    obtain ⟨h1, h2⟩ := (createdIn_sub hO).1 hu
    rw [occs_append]
    exact ⟨createdIn_mono h1, hk _ h2⟩
  refine ⟨hn, ?_, ?_, ?_, ?_⟩
  · intro u hu
    exact hcr ((hG.mem u).1 hu).1
  · intro ck cr h
    obtain ⟨u, hu, hck⟩ := hC.only ck cr h
    exact ⟨u, (hcr hu).1, (hcr hu).2, hck⟩
  · intro dk d h
    obtain ⟨amt, ck⟩ := d
    obtain ⟨u, hu, hsp, _, _⟩ := (hD dk amt ck).1 h
    refine ⟨u, (hcr hu).1, (hcr hu).2, ?_⟩
    rw [occs_append]; exact spentBy_mono hsp
  · intro gk h
    obtain ⟨u, hu, _, hgk⟩ := (hGm gk).1 h
    rw [hgk]; exact (hcr hu).2

-- ------------------------------------------------------------------ the spend fold: hit in the active ledger, or skip

theorem spendB_blocks (p : Params) (t : Tx) (bm : BlockMeta) (B : Book) (k : Nat) (i : Inp) :
    (spendB p t bm B k i).blocks = B.blocks := by
  unfold spendB
  cases lookupU B.L i.tx i.idx <;> rfl

theorem spendFoldJ {p : Params} {own : Own} {ready : List Wid} {tr : TxRec} {blk : BlockMeta} {Bp : Book}
    (is : List Inp) :
    ∀ (k : Nat) (s : Store) (bals : Bals) (J A : Book),
      Agree s J → EqJ J Bp A → AgreeBal ready bals J → Loc p own J → LocG J →
      (∀ m i, is[m]? = some i → tr.tx.ins[k + m]? = some i) →
      (is.map opOf).Nodup →
      (∀ i ∈ is, ∀ u, lookupU A.L i.tx i.idx = some u → ready.contains u.wallet = true ∧
        lookupU Bp.L i.tx i.idx = none ∧ Bp.credits u.credKey = none ∧ ∀ b, Bp.game (u.gameKey b) = none) →
      (∀ m i u, is[m]? = some i → lookupU A.L i.tx i.idx = some u → Bp.debits ⟨tr.tx.id, blk, k + m⟩ = none) →
      ∃ sb' J', (hitsFrom A.L is k).foldlM (spendOne tr blk) (s, bals) = .ok sb' ∧
        Agree sb'.1 J' ∧ EqJ J' Bp (foldIdx (spendB p tr.tx blk) is k A) ∧
        AgreeBal ready sb'.2 J' ∧ Loc p own J' ∧ LocG J' ∧ SameSync s sb'.1 ∧
        J'.txrecs = J.txrecs ∧ J'.blocks = J.blocks := by
  induction is with
  | nil =>
    intro k s bals J A hR hE hB hL hG _ _ _ _
    exact ⟨(s, bals), J, rfl, hR, hE, hB, hL, hG, SameSync.refl s, rfl, rfl⟩
  | cons i is ih =>
    intro k s bals J A hR hE hB hL hG hidx hnd hact hD
    have hi : tr.tx.ins[k]? = some i := by simpa using hidx 0 i rfl
    have hidx' : ∀ m i', is[m]? = some i' → tr.tx.ins[k + 1 + m]? = some i' := by
      intro m i' hm
      have := hidx (m + 1) i' (by simpa using hm)
      rw [show k + 1 + m = k + (m + 1) by omega]; exact this
    simp only [List.map_cons, List.nodup_cons] at hnd
    have hne : ∀ i' ∈ is, ¬ (i.tx = i'.tx ∧ i.idx = i'.idx) := by
      intro i' hi' hk
      apply hnd.1
      have : opOf i = opOf i' := by unfold opOf; rw [hk.1, hk.2]
      rw [this]; exact List.mem_map.2 ⟨i', hi', rfl⟩
    rw [foldIdx_cons]
    cases hu : lookupU A.L i.tx i.idx with
    | none =>
      rw [spendB_miss hu]
      have : hitsFrom A.L (i :: is) k = hitsFrom A.L is (k + 1) := by
        conv => lhs; unfold hitsFrom
        rw [hu]; rfl
      rw [this]
      apply ih (k + 1) s bals J A hR hE hB hL hG hidx' hnd.2 (fun i' hi' => hact i' (List.mem_cons_of_mem _ hi'))
      intro m i' u' hm hu'
      have := hD (m + 1) i' u' (by simpa using hm) hu'
      rw [show k + 1 + m = k + (m + 1) by omega]; exact this
    | some u =>
      obtain ⟨hready, hpm, hpc, hpg⟩ := hact i (List.mem_cons_self ..) u hu
      have hJ : lookupU J.L i.tx i.idx = some u := by rw [hE.L, lookupU_append, hpm, hu]; rfl
      obtain ⟨sb1, h1, hR1, hB1, hL1, hG1, hS1⟩ :=
        spendOne_refines (tr := tr) (blk := blk) (k := k) hR hB hL hG hi hJ hready
      have hE1 : EqJ (spendB p tr.tx blk J k i) Bp (spendB p tr.tx blk A k i) :=
        eqJ_spendB_hit hE hpm hu hpc (by simpa using hD 0 i u rfl hu) hpg
      have hh : hitsFrom A.L (i :: is) k =
          { index := k, out := u.out, wallet := u.wallet, change := u.change } :: hitsFrom A.L is (k + 1) := by
        conv => lhs; unfold hitsFrom
        rw [hu]; rfl
      have hf : hitsFrom A.L is (k + 1) = hitsFrom (spendB p tr.tx blk A k i).L is (k + 1) := by
        rw [spendB_L_hit hu, hitsFrom_filter _ _ _ _ _ hne]
      rw [hh, List.foldlM_cons, h1, hf]
      have hback : ∀ i' : Inp, ∀ u', lookupU (spendB p tr.tx blk A k i).L i'.tx i'.idx = some u' →
          lookupU A.L i'.tx i'.idx = some u' := by
        intro i' u' hu'
        rw [spendB_L_hit hu, lookupU_filter] at hu'
        split at hu'
        · cases hu'
        · exact hu'
      obtain ⟨sb2, J2, h2, hR2, hE2, hB2, hL2, hG2, hS2, hT2, hK2⟩ :=
        ih (k + 1) sb1.1 sb1.2 (spendB p tr.tx blk J k i) (spendB p tr.tx blk A k i) hR1 hE1 hB1 hL1 hG1 hidx' hnd.2
          (fun i' hi' u' hu' => hact i' (List.mem_cons_of_mem _ hi') u' (hback i' u' hu'))
          (by
            intro m i' u' hm hu'
            have := hD (m + 1) i' u' (by simpa using hm) (hback i' u' hu')
            rw [show k + 1 + m = k + (m + 1) by omega]; exact this)
      exact ⟨sb2, J2, h2, hR2, hE2, hB2, hL2, hG2, hS1.trans hS2, hT2.trans (spendB_txrecs ..),
        hK2.trans (spendB_blocks ..)⟩

-- ------------------------------------------------------------------ one transaction, any active view

section
variable {p : Params} {own oa op : Own} {keepA keepP : Wid → Bool} {ready : List Wid}

/-- **one transaction against a joined book, any active view** (see the file header) -/
theorem addTx_join (hOa : OwnSub own oa keepA) (hOp : OwnSub own op keepP)
    (hARa : AllReady oa ready) (hrk : ∀ w', ready.contains w' = true → keepA w' = true)
    {C P rest : List Occ} {oc : Occ} (hC : C = P ++ oc :: rest) {Bp : Book} (hS : SepP own keepA C Bp)
    (hLp : Loc p op Bp) (hGp : LocG Bp)
    {s s1 : Store} {bals : Bals} {A : Book} {tr : TxRec}
    (hGl : Glob oa P A) (hV : OccValid oa P oc) (hLa : Loc p oa A) (hGa : LocG A)
    (hA : AgreeJ s Bp A) (hB : AgreeBal ready bals A)
    (htx : tr.tx = oc.t)
    (hin : tr.relIn = if oc.t.cb then [] else hitsFrom A.L oc.t.ins 0)
    (hout : tr.relOut = ownedFrom oa oc.t.outs 0)
    (htouch : Spec.Books.touches oa A oc.t = true)
    (hrec : recordForImporting s tr oc.bm = .ok s1) (hRO : RecOnly s s1)
    (hrtx : ∀ key, AMap.get s1.txrecs key =
      if (oc.t.id, oc.bm) = key then orE (AMap.get s.txrecs key) (some (oc.bm.hash, oc.ti)) else AMap.get s.txrecs key) :
    ∃ sb', addRelevantTxForImporting p own s bals tr oc.bm = .ok sb' ∧
      AgreeJ sb'.1 Bp (applyOcc p oa A oc) ∧ AgreeBal ready sb'.2 (applyOcc p oa A oc) ∧ SameSync s sb'.1 ∧
      (∀ k, AMap.get sb'.1.txrecs k = AMap.get s1.txrecs k) ∧
      (∀ h, AMap.get sb'.1.blocks h = AMap.get s1.blocks h) := by
  have hocC : oc ∈ C := by rw [hC]; simp
  have hfresh := glob_fresh hGl hV
  -- coins of the active wallets
  have hAC : ∀ {u : UCoin}, CreatedIn oa (P ++ [oc]) u → ACoin own keepA C u := by
    intro u hu
    obtain ⟨h1, h2⟩ := (createdIn_sub hOa).1 hu
    refine ⟨?_, h2⟩
    have := createdIn_mono (Q := rest) h1
    rw [hC]; simpa using this
  have hAL : ∀ u ∈ A.L, ACoin own keepA C u := fun u hu => hAC (createdIn_mono ((hGl.mem u).1 hu).1)
  have hBpTot : ∀ w', ready.contains w' = true → totalU Bp.L w' = 0 := by
    intro w' hw'
    apply totalU_zero
    intro u hu he
    have := (hS.L u hu).2
    rw [he, hrk w' hw'] at this; cases this
  -- the record step
  have hR1 : Agree s1 (joinS s1 Bp (recordB A oc)) := by
    constructor
    · intro a b c; rw [hRO.unspent]; exact hA.unspent a b c
    · intro k; rw [hRO.credits]; exact hA.credits k
    · intro k; rw [hRO.debits]; exact hA.debits k
    · intro k; rw [hRO.game]; exact hA.game k
    · intro key
      show _ = orE (Bp.txrecs key) (upd A.txrecs (oc.t.id, oc.bm) (some (oc.bm.hash, oc.ti)) key)
      rw [hrtx key, upd_apply]
      by_cases hk : (oc.t.id, oc.bm) = key
      · subst hk
        simp only [if_true]
        rw [hA.txrecs, (hfresh oc.bm 0).2.2]
        cases Bp.txrecs (oc.t.id, oc.bm) <;> rfl
      · simp only [hk, if_false]; exact hA.txrecs key
    · intro _; rfl
    · intro _; rfl
  have hE1 : EqJ (joinS s1 Bp (recordB A oc)) Bp (recordB A oc) := eqJ_joinS ..
  have hLa1 : Loc p oa (recordB A oc) := hLa.congr rfl rfl
  have hL1 : Loc p own (joinS s1 Bp (recordB A oc)) :=
    loc_join hOp hOa hE1 hLp hLa1 (fun u hu => ⟨sepP_L hS (hAL u hu), sepP_cred hS (hAL u hu)⟩)
  have hG1 : LocG (joinS s1 Bp (recordB A oc)) :=
    locG_join hE1 hGp (show LocG (recordB A oc) from hGa) (fun u hu => sepP_game hS _ (hAL u hu).2)
  have hB1 : AgreeBal ready bals (joinS s1 Bp (recordB A oc)) := by
    intro w' hw'
    rw [hB w' hw']
    show _ = some (totalU (Bp.L ++ A.L) w')
    rw [totalU_append, hBpTot w' hw', Nat.zero_add]
  -- spends
  have hspend : ∃ sb1 J2, updateMinedBalance s1 bals tr oc.bm = .ok sb1 ∧
      Agree sb1.1 J2 ∧ EqJ J2 Bp (spendStep p (recordB A oc) oc) ∧ AgreeBal ready sb1.2 J2 ∧
      Loc p own J2 ∧ LocG J2 ∧ SameSync s1 sb1.1 ∧
      J2.txrecs = (joinS s1 Bp (recordB A oc)).txrecs ∧ J2.blocks = (joinS s1 Bp (recordB A oc)).blocks := by
    unfold updateMinedBalance spendStep
    by_cases hcb : oc.t.cb = true
    · rw [hin]; simp only [hcb, if_true]
      exact ⟨(s1, bals), _, rfl, hR1, hE1, hB1, hL1, hG1, SameSync.refl _, rfl, rfl⟩
    · have hcb' : oc.t.cb = false := by simpa using hcb
      rw [hin]; simp only [hcb', Bool.false_eq_true, if_false]
      have := spendFoldJ (p := p) (own := own) (ready := ready) (tr := tr) (blk := oc.bm) (Bp := Bp) oc.t.ins 0 s1 bals
        (joinS s1 Bp (recordB A oc)) (recordB A oc) hR1 hE1 hB1 hL1 hG1
        (by intro m i hm; rw [htx]; simpa using hm) (hV.2.2.1 hcb')
        (by
          intro i _ u hu
          have hu' : lookupU A.L i.tx i.idx = some u := hu
          obtain ⟨hm, ht, hix⟩ := lookupU_some hu'
          have hac := hAL u hm
          refine ⟨ready_of_owner hARa (hLa.own u hm), ?_, sepP_cred hS hac, fun b => sepP_game hS _ hac.2⟩
          have := sepP_L hS hac
          rw [ht, hix] at this; exact this)
        (by
          intro m i u hm hu
          have hu' : lookupU A.L i.tx i.idx = some u := hu
          obtain ⟨hmem, ht, hix⟩ := lookupU_some hu'
          rw [htx]
          apply sepP_debit hS (hAL u hmem)
          exact ⟨oc, hocC, hcb', m, i, by simpa using hm, by unfold opOf; rw [ht, hix], by simp⟩)
      rw [htx] at this
      obtain ⟨sb1, J2, h1, h2, h3, h4, h5, h6, h7, h8, h9⟩ := this
      exact ⟨sb1, J2, h1, h2, h3, h4, h5, h6, h7, h8, h9⟩
  obtain ⟨sb1, J2, hs1, hR2, hE2, hB2, hL2, hG2, hS2, hT2, hK2⟩ := hspend
  have hF2 : ∀ bm j, (spendStep p (recordB A oc) oc).credits ⟨oc.t.id, bm, j⟩ = none ∧
      lookupU (spendStep p (recordB A oc) oc).L oc.t.id j = none := by
    have hF1 : ∀ bm j, (recordB A oc).credits ⟨oc.t.id, bm, j⟩ = none ∧ lookupU (recordB A oc).L oc.t.id j = none :=
      fun bm j => ⟨(hfresh bm j).1, (hfresh bm j).2.1⟩
    unfold spendStep
    by_cases hcb : oc.t.cb = true
    · simp only [hcb, if_true]; exact hF1
    · simp only [hcb]; exact spendFold_freshCL oc.t.ins 0 _ hF1
  -- an output of this transaction that the active view owns is a coin of an active wallet
  have hnew : ∀ m o, oc.t.outs[m]? = some o → ∀ w' ch, ownerOf oa o = some (w', ch) →
      ACoin own keepA C ⟨w', oc.t.id, m, oc.bm, oc.t.cb, o, ch⟩ := by
    intro m o hm w' ch hx
    obtain ⟨h1, h2⟩ := (ownerOf_sub_some hOa).1 hx
    exact ⟨⟨oc, hocC, rfl, hm, h1, rfl, rfl⟩, h2⟩
  have hM : MinedEq sb1.1 (removeDoubleSpends own (unpendMined sb1.1 tr.tx) tr) :=
    (minedEq_unpendMined sb1.1 tr.tx).trans (minedEq_removeDoubleSpends own _ tr)
  have hR3 := hM.agree hR2
  have hcreate := createFold_refines' (p := p) (own := own) (ow := oa) (ready := ready) (tr := tr) (blk := oc.bm)
    (by
      intro o x hx
      obtain ⟨h1, h2⟩ := (ownerOf_sub_some hOa).1 hx
      exact ⟨h1, ready_of_owner hARa (show ownerOf oa o = some (x.1, x.2) from hx)⟩)
    oc.t.outs 0 (removeDoubleSpends own (unpendMined sb1.1 tr.tx) tr) sb1.2 J2 hR3 hB2 hL2
    (by rw [htx]; exact hG2.toLocGx _)
    (by
      intro m o hm ho
      rw [htx, Nat.zero_add]
      obtain ⟨x, hx⟩ := Option.isSome_iff_exists.1 ho
      obtain ⟨w', ch⟩ := x
      have hwc := hnew m o hm w' ch hx
      constructor
      · rw [hE2.credits, (hF2 oc.bm m).1]
        have := sepP_cred hS hwc
        unfold UCoin.credKey at this
        simp only at this
        rw [this]; rfl
      · rw [hE2.L, lookupU_append, (hF2 oc.bm m).2]
        have := sepP_L hS hwc
        simp only at this
        rw [this]; rfl)
  rw [htx] at hcreate
  obtain ⟨sb2, hs2, hR4, hB4, hL4, hG4, hS4⟩ := hcreate
  have hE4 : EqJ (foldIdx (createB p oa oc.t oc.bm) oc.t.outs 0 J2) Bp
      (foldIdx (createB p oa oc.t oc.bm) oc.t.outs 0 (spendStep p (recordB A oc) oc)) := by
    apply eqJ_createFold oc.t.outs 0 _ _ hE2
    intro m o hm ho
    obtain ⟨x, hx⟩ := Option.isSome_iff_exists.1 ho
    obtain ⟨w', ch⟩ := x
    have := sepP_cred hS (hnew m o hm w' ch hx)
    unfold UCoin.credKey at this
    simp only at this
    rw [Nat.zero_add]; exact this
  obtain ⟨hR5, hS5⟩ := depositFold_refines (own := oa) (tr := tr) (blk := oc.bm) oc.t.outs 0 sb2.1 _ hR4
  rw [htx] at hR5
  have hE5 : EqJ (foldIdx (depositB oa oc.t oc.bm) oc.t.outs 0 (foldIdx (createB p oa oc.t oc.bm) oc.t.outs 0 J2)) Bp
      (foldIdx (depositB oa oc.t oc.bm) oc.t.outs 0
        (foldIdx (createB p oa oc.t oc.bm) oc.t.outs 0 (spendStep p (recordB A oc) oc))) := by
    apply eqJ_depositFold oc.t.outs 0 _ _ hE4
    intro gk ⟨o, _, ch, ho⟩
    obtain ⟨_, h2⟩ := (ownerOf_sub_some hOa).1 ho
    exact sepP_game hS gk h2
  have hBfin : applyOcc p oa A oc =
      foldIdx (depositB oa oc.t oc.bm) oc.t.outs 0
        (foldIdx (createB p oa oc.t oc.bm) oc.t.outs 0 (spendStep p (recordB A oc) oc)) := by
    rw [applyOcc_eq]; unfold recStep; rw [htouch]; rfl
  have hdl := depositFold_L oa oc.t oc.bm oc.t.outs 0 (foldIdx (createB p oa oc.t oc.bm) oc.t.outs 0 J2)
  have hdlw := depositFold_L oa oc.t oc.bm oc.t.outs 0
    (foldIdx (createB p oa oc.t oc.bm) oc.t.outs 0 (spendStep p (recordB A oc) oc))
  refine ⟨((gameOuts tr).foldl (gameOne tr oc.bm) sb2.1, sb2.2), ?_, ?_, ?_, ?_, ?_, ?_⟩
  · unfold addRelevantTxForImporting insertMinedTxForImporting
    rw [hrec]
    simp only [hs1, bind, Except.bind]
    rw [addCredits_eq, hout, htx]
    simp only [bind, Except.bind]
    rw [hs2]
    rfl
  · rw [hBfin]
    unfold gameOuts; rw [hout]
    exact AgreeJ.of hR5 hE5
  · rw [hBfin]
    intro w' hw'
    rw [hB4 w' hw', hE4.L, totalU_append, hBpTot w' hw', Nat.zero_add, hdlw.1]
  · have hM' : MinedEq sb1.1 (removeDoubleSpends own (unpendMined sb1.1 oc.t) tr) := by rw [← htx]; exact hM
    refine hRO.sync.trans (hS2.trans (SameSync.trans hM'.sameSync (hS4.trans ?_)))
    unfold gameOuts; rw [hout]; exact hS5
  · intro k
    unfold gameOuts; rw [hout]
    rw [hR5.txrecs, hdl.2.2.2.1, createFold_txrecs, hT2]
    exact (hR1.txrecs k).symm
  · intro h
    unfold gameOuts; rw [hout]
    rw [hR5.blocks, hdl.2.2.2.2.1, createFold_blocks, hK2]
    rfl

end
end MW.Lemmas.ImportJoin
