/-
  One data operation of the model (inside a read or a write transaction) simulates the same
  operation of the specification on the related database.
-/
import MW.Lemmas.KvIter
import MW.Lemmas.KvWrite
namespace MW.Model.KV
open MW MW.KV
open MW.Spec.KV (DB)

/-- model result `o` agrees with specification result `o'` (order-free results of a write
    transaction are compared sorted; `unspecified` = the specification makes no claim) -/
def Agree (ro : Bool) (o o' : Obs) : Prop := o' = .unspecified ∨ (if ro then o else o.canon) = o'

/-- a transaction of the model and the database the specification holds for it -/
structure TxRel (tx : Tx) (d : DB) : Prop where
  inv : tx.Inv
  rel : Rel tx.commit d

theorem TxRel.commit_ro {tx : Tx} (hr : tx.readOnly = true) : tx.commit = tx.db := by
  simp [Tx.commit, hr]

theorem Tx.roView_eq_ro (tx : Tx) : tx.roView = ro tx.commit := rfl

/-- sorting a permutation of a strictly ascending list gives that list -/
theorem sortBy_of_perm_sorted {α : Type} (lt : α → α → Bool)
    (irr : ∀ a, lt a a = false) (trans : ∀ a b c, lt a b = true → lt b c = true → lt a c = true)
    (tri : ∀ a b, a ≠ b → lt a b = true ∨ lt b a = true)
    {l l' : List α} (hp : l.Perm l') (hs : l'.Pairwise (fun a b => lt a b = true)) : sortBy lt l = l' := by
  have hnd' : l'.Nodup := List.Pairwise.imp (fun {a b} hab e => by subst e; rw [irr] at hab; cases hab) hs
  have hnd : l.Nodup := hp.nodup_iff.mpr hnd'
  apply pairwise_ext (R := fun a b => lt a b = true) (fun a => by simp [irr]) trans
  · apply sortBy_pairwise lt trans
    exact List.Pairwise.imp (fun {a b} hab => tri a b hab) hnd
  · exact hs
  · intro x; rw [mem_sortBy]; exact hp.mem_iff

theorem sorted_keys_distinct : ∀ (l' : List (Bytes × Bytes)), l'.Pairwise (fun a b => blt a.1 b.1 = true) →
    ∀ a ∈ l', ∀ b ∈ l', a ≠ b → a.1 ≠ b.1 := by
  intro l'
  induction l' with
  | nil => intro _ a ha; cases ha
  | cons x r ih =>
    intro hs a ha b hb hne hk
    have hs' := List.pairwise_cons.mp hs
    rcases List.mem_cons.mp ha with ha1 | ha1
    · rcases List.mem_cons.mp hb with hb1 | hb1
      · exact hne (ha1.trans hb1.symm)
      · have := hs'.1 b hb1; rw [← ha1, hk, blt_irrefl] at this; cases this
    · rcases List.mem_cons.mp hb with hb1 | hb1
      · have := hs'.1 a ha1; rw [← hb1, ← hk, blt_irrefl] at this; cases this
      · exact ih hs'.2 a ha1 b hb1 hne hk

theorem canon_entries_of_perm {l l' : List (Bytes × Bytes)} (hp : l.Perm l')
    (hs : l'.Pairwise (fun a b => blt a.1 b.1 = true)) : (Obs.entries l).canon = Obs.entries l' := by
  -- keys of l' are distinct, so entries with equal keys are equal entries
  show Obs.entries (sortBy (fun a b => blt a.1 b.1) l) = Obs.entries l'
  congr 1
  have hnd' : l'.Nodup := List.Pairwise.imp (fun {a b} hab e => by subst e; simp [blt_irrefl] at hab) hs
  have hnd : l.Nodup := hp.nodup_iff.mpr hnd'
  apply pairwise_ext (R := fun a b : Bytes × Bytes => blt a.1 b.1 = true)
    (fun a => by simp [blt_irrefl]) (fun a b c => blt_trans)
  · apply sortBy_pairwise (fun a b : Bytes × Bytes => blt a.1 b.1) (fun a b c => blt_trans)
    -- any two different members of l have different keys (they are members of l')
    have hkeys := sorted_keys_distinct l' hs
    refine List.Pairwise.imp_of_mem ?_ hnd
    intro a b ha hb hne
    have hk := hkeys a (hp.mem_iff.mp ha) b (hp.mem_iff.mp hb) hne
    cases h1 : blt a.1 b.1 with
    | true => exact Or.inl rfl
    | false =>
      cases h2 : blt b.1 a.1 with
      | true => exact Or.inr rfl
      | false => exact absurd (eq_of_not_blt h1 h2) hk
  · exact hs
  · intro x; rw [mem_sortBy]; exact hp.mem_iff

theorem canon_names_of_perm {l l' : List Bytes} (hp : l.Perm l')
    (hs : l'.Pairwise (fun a b => blt a b = true)) : (Obs.names l).canon = Obs.names l' := by
  show Obs.names (sortBy blt l) = Obs.names l'
  congr 1
  exact sortBy_of_perm_sorted blt blt_irrefl (fun a b c => blt_trans)
    (fun a b hne => by
      cases h1 : blt a b with
      | true => exact Or.inl rfl
      | false =>
        cases h2 : blt b a with
        | true => exact Or.inr rfl
        | false => exact absurd (eq_of_not_blt h1 h2) hne) hp hs

variable {tx : Tx} {d : DB}

/-- a read-only transaction never looks at its (empty) batch -/
theorem Bucket.getByPrefix_ro (hr : tx.readOnly = true) (b : Bucket) (k : Bytes) :
    b.getByPrefix tx k = b.getByPrefix (ro tx.db) k := by
  unfold Bucket.getByPrefix
  have hr' : (ro tx.db).readOnly = true := rfl
  simp only [hr, hr', if_true, Tx.overlayEntries_ro hr, Tx.overlayEntries_ro hr']
  rfl

theorem TxRel.nav (h : TxRel tx d) (p : Path) :
    (∃ b, nav tx p = some b ∧ b.IsAt p ∧ p ∈ d.buckets) ∨ (nav tx p = none ∧ p ∉ d.buckets) := by
  rw [nav_ryw h.inv, Tx.roView_eq_ro]; exact h.rel.nav p

/-- the simulation statement for one data operation -/
def SimOK (tx : Tx) (d : DB) (op : Op) : Prop :=
  TxRel (dataOp tx op).2 (Spec.KV.dataOp d tx.readOnly op).2 ∧
  Agree tx.readOnly (dataOp tx op).1 (Spec.KV.dataOp d tx.readOnly op).1

theorem Agree.same (ro : Bool) {o : Obs} (h : o.canon = o) : Agree ro o o := by
  unfold Agree; right; cases ro <;> simp [h]

theorem has_false_of_not_mem {p : Path} (h : p ∉ d.buckets) : d.has p = false := by
  rw [Bool.eq_false_iff]; intro hh; exact h ((DB.has_iff d p).mp hh)

theorem has_true_of_mem {p : Path} (h : p ∈ d.buckets) : d.has p = true := (DB.has_iff d p).mpr h

theorem sim_has (h : TxRel tx d) (sl : Slot) (p : Path) : SimOK tx d (.has sl p) := by
  unfold SimOK
  simp only [dataOp, Spec.KV.dataOp]
  by_cases hp0 : (p.length == 0) = true
  · simp only [hp0, if_true]; exact ⟨h, Agree.same _ rfl⟩
  · simp only [hp0, Bool.false_eq_true, if_false]
    refine ⟨h, ?_⟩
    rcases h.nav p with ⟨b, hb, _, hm⟩ | ⟨hb, hm⟩
    · rw [hb, has_true_of_mem hm]; exact Agree.same _ rfl
    · rw [hb, has_false_of_not_mem hm]; exact Agree.same _ rfl

theorem sim_get (h : TxRel tx d) (sl : Slot) (p : Path) (k : Bytes) : SimOK tx d (.get sl p k) := by
  unfold SimOK
  simp only [dataOp, Spec.KV.dataOp]
  by_cases hp0 : (p.length == 0) = true
  · simp only [hp0, if_true]; exact ⟨h, Agree.same _ rfl⟩
  · simp only [hp0, Bool.false_eq_true, if_false]
    rcases h.nav p with ⟨b, hb, hba, hm⟩ | ⟨hb, hm⟩
    · rw [hb]
      simp only [DB.read, has_true_of_mem hm, if_true]
      refine ⟨h, ?_⟩
      rw [Bucket.get_ryw h.inv, Tx.roView_eq_ro, h.rel.bucket_get hba hm]
      exact Agree.same _ rfl
    · rw [hb]
      simp only [DB.read, has_false_of_not_mem hm, Bool.false_eq_true, if_false]
      exact ⟨h, Agree.same _ rfl⟩

theorem sim_pfx (h : TxRel tx d) (sl : Slot) (p : Path) (k : Bytes) : SimOK tx d (.pfx sl p k) := by
  unfold SimOK
  simp only [dataOp, Spec.KV.dataOp]
  by_cases hp0 : (p.length == 0) = true
  · simp only [hp0, if_true]; exact ⟨h, Agree.same _ rfl⟩
  · simp only [hp0, Bool.false_eq_true, if_false]
    rcases h.nav p with ⟨b, hb, hba, hm⟩ | ⟨hb, hm⟩
    · rw [hb]
      simp only [DB.read, has_true_of_mem hm, if_true]
      refine ⟨h, ?_⟩
      have hperm := Bucket.getByPrefix_ryw h.inv b k
      rw [Tx.roView_eq_ro, h.rel.getByPrefix hba hm] at hperm
      have hsorted : ((d.bucketEntries p).filter fun e => k.isPrefixOf e.1).Pairwise (fun a b => blt a.1 b.1 = true) :=
        List.Pairwise.filter _ (DB.bucketEntries_sorted d h.rel.dNodup p)
      unfold Agree; right
      by_cases hr : tx.readOnly = true
      · simp only [hr, if_true]
        -- a read transaction: the implementation order itself is the ascending order
        have hrel := h.rel
        rw [TxRel.commit_ro hr] at hrel
        rw [Bucket.getByPrefix_ro hr, hrel.getByPrefix hba hm k]
      · simp only [hr, Bool.false_eq_true, if_false]
        exact canon_entries_of_perm hperm hsorted
    · rw [hb]
      simp only [DB.read, has_false_of_not_mem hm, Bool.false_eq_true, if_false]
      exact ⟨h, Agree.same _ rfl⟩

theorem Tx.bucketNamesAt_ro_eq (hr : tx.readOnly = true) (pfx : Bytes) (depth : Nat) :
    tx.bucketNamesAt pfx depth = (ro tx.db).bucketNamesAt pfx depth := by
  rw [Tx.bucketNamesAt_ro hr, Tx.bucketNamesAt_ro (tx := ro tx.db) rfl]
  rfl

/-- a listing inside transaction `tx` against the sorted listing of the related database -/
theorem names_agree (h : TxRel tx d) (p : Path) (hp : NoSep p) :
    Agree tx.readOnly (obsOfExcept (tx.bucketNamesAt (childScanPrefix p) p.length) .names) (.names (d.childNames p)) := by
  unfold Agree; right
  by_cases hr : tx.readOnly = true
  · simp only [hr, if_true]
    have hrel := h.rel
    rw [TxRel.commit_ro hr] at hrel
    rw [Tx.bucketNamesAt_ro_eq hr, hrel.bucketNamesAt p hp]
    rfl
  · simp only [hr, Bool.false_eq_true, if_false]
    have hsl := Tx.bucketNamesAt_ryw h.inv (childScanPrefix p) p.length (keyDetermined_child hp)
    rw [Tx.roView_eq_ro, h.rel.bucketNamesAt p hp] at hsl
    cases hx : tx.bucketNamesAt (childScanPrefix p) p.length with
    | error e => rw [hx] at hsl; simp [SameListing] at hsl
    | ok x =>
      rw [hx] at hsl
      simp only [SameListing] at hsl
      simp only [obsOfExcept]
      exact canon_names_of_perm hsl (DB.childNames_sorted d h.rel.bNodup p)

theorem sim_names (h : TxRel tx d) (sl : Slot) (p : Path) : SimOK tx d (.names sl p) := by
  unfold SimOK
  simp only [dataOp, Spec.KV.dataOp]
  by_cases hp0 : (p.length == 0) = true
  · have : p = [] := List.length_eq_zero_iff.mp (by simpa using hp0)
    subst this
    simp only [List.length_nil, BEq.rfl, if_true]
    refine ⟨h, ?_⟩
    rw [Tx.bucketNames_eq]
    exact names_agree h [] (by intro x hx; cases hx)
  · simp only [hp0, Bool.false_eq_true, if_false]
    rcases h.nav p with ⟨b, hb, hba, hm⟩ | ⟨hb, hm⟩
    · rw [hb]
      simp only [DB.read, has_true_of_mem hm, if_true]
      refine ⟨h, ?_⟩
      rw [Bucket.bucketNames_eq hba]
      exact names_agree h p hba.noSep
    · rw [hb]
      simp only [DB.read, has_false_of_not_mem hm, Bool.false_eq_true, if_false]
      exact ⟨h, Agree.same _ rfl⟩

theorem Bucket.newIterator_ro (hr : tx.readOnly = true) (b : Bucket) (st l : Bytes) :
    b.newIterator tx st l = b.newIterator (ro tx.db) st l := by
  unfold Bucket.newIterator
  have hr' : (ro tx.db).readOnly = true := rfl
  simp only [hr, hr', if_true]
  rfl

theorem sim_iter (h : TxRel tx d) (sl : Slot) (p : Path) (st l : Bytes) (sc : List IterStep) :
    SimOK tx d (.iter sl p st l sc) := by
  unfold SimOK
  simp only [dataOp, Spec.KV.dataOp]
  by_cases hp0 : (p.length == 0) = true
  · simp only [hp0, if_true]; exact ⟨h, Agree.same _ rfl⟩
  · simp only [hp0, Bool.false_eq_true, if_false]
    rcases h.nav p with ⟨b, hb, hba, hm⟩ | ⟨hb, hm⟩
    · rw [hb]
      simp only [DB.read, has_true_of_mem hm, if_true]
      refine ⟨h, ?_⟩
      by_cases hr : tx.readOnly = true
      · simp only [hr, if_true]
        have hrel := h.rel
        rw [TxRel.commit_ro hr] at hrel
        rw [Bucket.newIterator_ro hr, hrel.iter hba hm]
        unfold Agree; right; simp [hr]
      · simp only [hr, Bool.false_eq_true, if_false]
        exact Or.inl rfl
    · rw [hb]
      simp only [DB.read, has_false_of_not_mem hm, Bool.false_eq_true, if_false]
      exact ⟨h, Agree.same _ rfl⟩

/-! ### writes -/

theorem commit_w {tx : Tx} (hw : tx.readOnly = false) : tx.commit = eff tx.db tx.b := by
  simp [Tx.commit, hw, eff]

theorem sim_put (h : TxRel tx d) (sl : Slot) (p : Path) (k v : Bytes) : SimOK tx d (.put sl p k v) := by
  unfold SimOK
  simp only [dataOp, Spec.KV.dataOp]
  by_cases hp0 : (p.length == 0) = true
  · simp only [hp0, if_true]; exact ⟨h, Agree.same _ rfl⟩
  · simp only [hp0, Bool.false_eq_true, if_false]
    rcases h.nav p with ⟨b, hb, hba, hm⟩ | ⟨hb, hm⟩
    · rw [hb]
      simp only [DB.put, has_true_of_mem hm, Bool.not_true, Bool.false_eq_true, if_false, Bucket.put]
      by_cases hr : tx.readOnly = true
      · simp only [hr, if_true]; exact ⟨h, Agree.same _ rfl⟩
      · have hw : tx.readOnly = false := by simpa using hr
        simp only [hw, Bool.false_eq_true, if_false]
        by_cases hv : (v.length == 0) = true
        · simp only [hv, if_true]; exact ⟨h, Agree.same _ rfl⟩
        · simp only [hv, Bool.false_eq_true, if_false]
          cases k with
          | nil => simp only [Bucket.innerKey_nil, List.length_nil, BEq.rfl, if_true]; exact ⟨h, Agree.same _ rfl⟩
          | cons c cs =>
            simp only [Bucket.innerKey_cons, List.length_cons, Nat.add_one_ne_zero, beq_iff_eq, if_false]
            refine ⟨⟨⟨h.inv.dbSorted, h.inv.batch.put _ _⟩, ?_⟩, Agree.same _ rfl⟩
            have hrel := h.rel
            rw [commit_w hw] at hrel
            show Rel (eff tx.db (tx.b.put (b.path ++ sep :: c :: cs) v)) _
            apply hrel.put hm (by simp) (eff_sorted h.inv.dbSorted _)
            intro k0
            rw [eff_put, hba.path]; rfl
    · rw [hb]
      simp only [DB.put, has_false_of_not_mem hm, Bool.not_false, if_true]
      exact ⟨h, Agree.same _ rfl⟩

theorem sim_del (h : TxRel tx d) (sl : Slot) (p : Path) (k : Bytes) : SimOK tx d (.del sl p k) := by
  unfold SimOK
  simp only [dataOp, Spec.KV.dataOp]
  by_cases hp0 : (p.length == 0) = true
  · simp only [hp0, if_true]; exact ⟨h, Agree.same _ rfl⟩
  · simp only [hp0, Bool.false_eq_true, if_false]
    rcases h.nav p with ⟨b, hb, hba, hm⟩ | ⟨hb, hm⟩
    · rw [hb]
      simp only [DB.del, has_true_of_mem hm, Bool.not_true, Bool.false_eq_true, if_false, Bucket.delete]
      by_cases hr : tx.readOnly = true
      · simp only [hr, if_true]; exact ⟨h, Agree.same _ rfl⟩
      · have hw : tx.readOnly = false := by simpa using hr
        simp only [hw, Bool.false_eq_true, if_false]
        have hrel := h.rel
        rw [commit_w hw] at hrel
        cases k with
        | nil =>
          simp only [Bucket.innerKey_nil]
          refine ⟨⟨h.inv, ?_⟩, Agree.same _ rfl⟩
          rw [commit_w hw]
          -- deleting the empty key changes nothing on either side
          apply hrel.del hm (k := []) (eff_sorted h.inv.dbSorted _)
          intro k0
          by_cases hk0 : k0 = dataKey p []
          · simp only [hk0, if_true]
            cases hg : (eff tx.db tx.b).get (dataKey p []) with
            | none => rfl
            | some v0 =>
              rcases (hrel.mem _ _).mp hg with ⟨q, _, hq, _⟩ | ⟨e, he, hke, _⟩
              · exact absurd hq (dataKey_ne_indexKey _ _ _)
              · have := (dataKey_injective (hrel.noSep hm) (hrel.noSep (hrel.dIn e he).1) hke).2
                exact absurd this.symm (hrel.dIn e he).2
          · simp [hk0]
        | cons c cs =>
          simp only [Bucket.innerKey_cons]
          refine ⟨⟨⟨h.inv.dbSorted, h.inv.batch.delete _⟩, ?_⟩, Agree.same _ rfl⟩
          show Rel (eff tx.db (tx.b.delete (b.path ++ sep :: c :: cs))) _
          apply hrel.del hm (eff_sorted h.inv.dbSorted _)
          intro k0
          rw [eff_delete, hba.path]; rfl
    · rw [hb]
      simp only [DB.del, has_false_of_not_mem hm, Bool.not_false, if_true]
      exact ⟨h, Agree.same _ rfl⟩

theorem sim_clear (h : TxRel tx d) (sl : Slot) (p : Path) : SimOK tx d (.clear sl p) := by
  unfold SimOK
  simp only [dataOp, Spec.KV.dataOp]
  by_cases hp0 : (p.length == 0) = true
  · simp only [hp0, if_true]; exact ⟨h, Agree.same _ rfl⟩
  · simp only [hp0, Bool.false_eq_true, if_false]
    rcases h.nav p with ⟨b, hb, hba, hm⟩ | ⟨hb, hm⟩
    · rw [hb]
      simp only [DB.clear, has_true_of_mem hm, Bool.not_true, Bool.false_eq_true, if_false, Bucket.clear]
      by_cases hr : tx.readOnly = true
      · simp only [hr, if_true]; exact ⟨h, Agree.same _ rfl⟩
      · have hw : tx.readOnly = false := by simpa using hr
        simp only [hw, Bool.false_eq_true, if_false]
        have hrel := h.rel
        rw [commit_w hw] at hrel
        refine ⟨⟨⟨h.inv.dbSorted, clearRange_inv _ h.inv.batch _⟩, ?_⟩, Agree.same _ rfl⟩
        show Rel (eff tx.db (clearRange tx.db tx.b (join [b.path, []]))) _
        apply hrel.clear hm (eff_sorted h.inv.dbSorted _)
        intro k0
        have hj : join [b.path, []] = dataKey p [] := by rw [hba.path]; rfl
        rw [hj]
        exact clearRange_get h.inv.dbSorted h.inv.batch _ k0
    · rw [hb]
      simp only [DB.clear, has_false_of_not_mem hm, Bool.not_false, if_true]
      exact ⟨h, Agree.same _ rfl⟩

theorem path_split_last {p : Path} {name : Bytes} (h : p.getLast? = some name) : p = p.dropLast ++ [name] := by
  rcases List.eq_nil_or_concat p with hp | ⟨l, b, hp⟩
  · subst hp; simp at h
  · subst hp
    simp only [List.concat_eq_append, List.getLast?_concat, Option.some.injEq] at h
    subst h; simp

theorem TxRel.exists_iff (h : TxRel tx d) (p : Path) (hp : NoSep p ∨ p.length = 1) :
    tx.bucketExists (idxKey p) = true ↔ p ∈ d.buckets := by
  rw [Tx.bucketExists_ryw h.inv]; exact h.rel.idx_some_iff p hp

theorem sim_create (h : TxRel tx d) (sl : Slot) (p : Path) : SimOK tx d (.create sl p) := by
  unfold SimOK
  simp only [dataOp, Spec.KV.dataOp, DB.create]
  cases hl : p.getLast? with
  | none => exact ⟨h, Agree.same _ rfl⟩
  | some name =>
    simp only
    have hpsplit := path_split_last hl
    by_cases h1 : (p.length == 1) = true
    · -- top level
      have hlen : p.length = 1 := by simpa using h1
      have hp1 : p = [name] := by
        match p, hlen with
        | [x], _ => simp at hl; subst hl; rfl
      subst hp1
      simp only [List.length_singleton, BEq.rfl, if_true, Nat.lt_irrefl, decide_false, Bool.false_and,
        Bool.false_eq_true, if_false, Tx.createTopLevelBucket]
      by_cases hr : tx.readOnly = true
      · simp only [hr, if_true]; exact ⟨h, Agree.same _ rfl⟩
      · have hw : tx.readOnly = false := by simpa using hr
        simp only [hw, Bool.false_eq_true, if_false, specValid_eq]
        by_cases hv : isValidBucketName name = true
        · simp only [hv, Bool.not_true, Bool.false_eq_true, if_false]
          have hex := h.exists_iff [name] (Or.inr rfl)
          rw [idxKey_singleton] at hex
          by_cases he : tx.bucketExists (indexKey (join [topDepth, name])) = true
          · simp only [he, if_true, has_true_of_mem (hex.mp he)]
            exact ⟨h, Agree.same _ rfl⟩
          · have hnm : [name] ∉ d.buckets := fun hm => he (hex.mpr hm)
            simp only [he, Bool.false_eq_true, if_false, has_false_of_not_mem hnm]
            refine ⟨⟨⟨h.inv.dbSorted, h.inv.batch.put _ _⟩, ?_⟩, Agree.same _ rfl⟩
            have hrel := h.rel
            rw [commit_w hw] at hrel
            show Rel (eff tx.db (tx.b.put (indexKey (join [topDepth, name])) name)) _
            have := hrel.create (q := []) (n := name) (Or.inl rfl) hv (by simpa using hnm)
              (eff_sorted h.inv.dbSorted _) (s' := eff tx.db (tx.b.put (indexKey (join [topDepth, name])) name))
              (by intro k0; rw [eff_put, ← idxKey_singleton]; rfl)
            simpa using this
        · simp only [hv, Bool.not_false, if_true]
          exact ⟨h, Agree.same _ rfl⟩
    · -- below an existing bucket
      have hlen : p.length > 1 := by
        have : p.length ≠ 0 := by
          intro h0; have := List.length_eq_zero_iff.mp h0; subst this; simp at hl
        have : p.length ≠ 1 := by simpa using h1
        omega
      simp only [h1, Bool.false_eq_true, if_false, hlen, decide_true, Bool.true_and]
      rcases h.nav p.dropLast with ⟨b, hb, hba, hm⟩ | ⟨hb, hm⟩
      · rw [hb]
        simp only [has_true_of_mem hm, Bool.not_true, Bool.false_eq_true, if_false, Bucket.newBucket]
        by_cases hr : tx.readOnly = true
        · simp only [hr, if_true]; exact ⟨h, Agree.same _ rfl⟩
        · have hw : tx.readOnly = false := by simpa using hr
          simp only [hw, Bool.false_eq_true, if_false, specValid_eq]
          by_cases hv : isValidBucketName name = true
          · rw [Bucket.subBucket_eq hba hv]
            simp only [hv, Bool.not_true, Bool.false_eq_true, if_false]
            have hns : NoSep (p.dropLast ++ [name]) := hba.noSep.append (ValidName.noSep hv)
            have hex := h.exists_iff (p.dropLast ++ [name]) (Or.inl hns)
            unfold idxKey at hex
            by_cases he : tx.bucketExists (indexKey (pathBytes (p.dropLast ++ [name]))) = true
            · have hm' : p ∈ d.buckets := by rw [hpsplit]; exact hex.mp he
              simp only [he, if_true, has_true_of_mem hm']
              exact ⟨h, Agree.same _ rfl⟩
            · have hnm : p ∉ d.buckets := by rw [hpsplit]; exact fun hm' => he (hex.mpr hm')
              simp only [he, Bool.false_eq_true, if_false, has_false_of_not_mem hnm]
              refine ⟨⟨⟨h.inv.dbSorted, h.inv.batch.put _ _⟩, ?_⟩, Agree.same _ rfl⟩
              have hrel := h.rel
              rw [commit_w hw] at hrel
              show Rel (eff tx.db (tx.b.put (indexKey (pathBytes (p.dropLast ++ [name]))) name)) _
              have := hrel.create (q := p.dropLast) (n := name) (Or.inr hm) hv (by rw [← hpsplit]; exact hnm)
                (eff_sorted h.inv.dbSorted _)
                (s' := eff tx.db (tx.b.put (indexKey (pathBytes (p.dropLast ++ [name]))) name))
                (by intro k0; rw [eff_put]; rfl)
              have e1 : (p.dropLast ++ [name]) :: d.buckets = p :: d.buckets := by rw [← hpsplit]
              rw [e1] at this
              exact this
          · rw [Bucket.subBucket_invalid b (by simpa [ValidName] using hv)]
            simp only [hv, Bool.not_false, if_true]
            exact ⟨h, Agree.same _ rfl⟩
      · rw [hb]
        simp only [has_false_of_not_mem hm, Bool.not_false, if_true]
        exact ⟨h, Agree.same _ rfl⟩

/-- postcondition of the recursive bucket deletion `deleteBucket` (proved in MW.Lemmas.KvDelete) -/
def DeleteSpec : Prop :=
  ∀ (tx : Tx) (d : DB) (sub : Bucket) (p : Path), tx.Inv → tx.readOnly = false → Rel tx.commit d →
    sub.IsAt p → p ∈ d.buckets → p.length ≥ 2 →
    ∃ bt, deleteBucketAux tx.db (deleteFuel tx.db tx.b) sub tx.b = .ok bt ∧ bt.Inv ∧
      (∀ k0, UnderKey p k0 → (eff tx.db bt).get k0 = none) ∧
      (∀ k0, ¬ UnderKey p k0 → (eff tx.db bt).get k0 = tx.commit.get k0)

theorem sim_delb (hds : DeleteSpec) (h : TxRel tx d) (sl : Slot) (p : Path) : SimOK tx d (.delb sl p) := by
  unfold SimOK
  simp only [dataOp, Spec.KV.dataOp, DB.delb]
  cases hl : p.getLast? with
  | none =>
    have : p = [] := by
      cases p with
      | nil => rfl
      | cons a r => simp [List.getLast?_cons] at hl
    subst this
    simp only [List.length_nil, BEq.rfl, if_true]
    exact ⟨h, Agree.same _ rfl⟩
  | some name =>
    simp only
    have hpsplit := path_split_last hl
    have hne0 : (p.length == 0) = false := by
      rw [hpsplit]; simp
    simp only [hne0, Bool.false_eq_true, if_false]
    by_cases h1 : (p.length == 1) = true
    · simp only [h1, if_true, Tx.deleteTopLevelBucket]
      exact ⟨h, Agree.same _ rfl⟩
    · simp only [h1, Bool.false_eq_true, if_false]
      rcases h.nav p.dropLast with ⟨b, hb, hba, hm⟩ | ⟨hb, hm⟩
      · rw [hb]
        simp only [has_true_of_mem hm, Bool.not_true, Bool.false_eq_true, if_false, Bucket.deleteBucket]
        by_cases hr : tx.readOnly = true
        · simp only [hr, if_true]; exact ⟨h, Agree.same _ rfl⟩
        · have hw : tx.readOnly = false := by simpa using hr
          simp only [hw, Bool.false_eq_true, if_false]
          rw [Bucket.bucket_ryw h.inv, Tx.roView_eq_ro]
          rcases h.rel.bucket hba name with ⟨sub, hs, hsa, hsm⟩ | ⟨hs, hsm⟩
          · rw [hs]
            simp only
            have hpm : p ∈ d.buckets := by rw [hpsplit]; exact hsm
            have hsa' : sub.IsAt p := by rw [hpsplit]; exact hsa
            have hlen : p.length ≥ 2 := by
              have h1' : p.length ≠ 1 := by simpa using h1
              have h0' : p.length ≠ 0 := by simpa using hne0
              omega
            obtain ⟨bt, hbt, hinv, hgone, hkeep⟩ := hds tx d sub p h.inv hw h.rel hsa' hpm hlen
            rw [hbt]
            simp only [has_true_of_mem hpm, Bool.not_true, Bool.false_eq_true, if_false]
            refine ⟨⟨⟨h.inv.dbSorted, hinv⟩, ?_⟩, Agree.same _ rfl⟩
            show Rel (eff tx.db bt) _
            exact h.rel.delb hpm hlen (eff_sorted h.inv.dbSorted _) hgone hkeep
          · rw [hs]
            have hpm : p ∉ d.buckets := by rw [hpsplit]; exact hsm
            simp only [has_false_of_not_mem hpm, Bool.not_false, if_true]
            exact ⟨h, Agree.same _ rfl⟩
      · rw [hb]
        simp only [has_false_of_not_mem hm, Bool.not_false, if_true]
        exact ⟨h, Agree.same _ rfl⟩

/-- every data operation simulates its specification -/
theorem dataOp_sim (hds : DeleteSpec) (h : TxRel tx d) (op : Op) (hop : slotOf op ≠ none) : SimOK tx d op := by
  cases op with
  | create sl p => exact sim_create h sl p
  | delb sl p => exact sim_delb hds h sl p
  | has sl p => exact sim_has h sl p
  | put sl p k v => exact sim_put h sl p k v
  | get sl p k => exact sim_get h sl p k
  | del sl p k => exact sim_del h sl p k
  | clear sl p => exact sim_clear h sl p
  | pfx sl p k => exact sim_pfx h sl p k
  | names sl p => exact sim_names h sl p
  | iter sl p a b sc => exact sim_iter h sl p a b sc
  | beginW | beginR | commit | rollback | endR | reopen | probe | raw => exact absurd rfl hop

end MW.Model.KV
