/-
  C07 stage 3 — GENERAL HISTORIES of the event semantics of `import_exact_full`: a rescan batch, a notification for ANY
  block of the node's current best chain (`processBlock`: direct extension or reorganisation), and a NODE MOVEMENT to
  any other valid chain of known blocks that is NOT announced to the wallet.  Between a node movement and the
  notification the follower's stored chain `X` differs from the node's chain: a batch then either fails the
  followed-chain check (fix D27; nothing changes) or — the node's block at the top of the range being the follower's —
  reads a part of the node's chain that IS the follower's (`prefix_of_id`, `importStep_node_congr`).
  Invariant `GInv`: the store follows some chain `X` of known blocks (`IJ`), the follower's tip is `X`'s tip.
-/
import MW.Lemmas.ImportJoinReorg2
import MW.Lemmas.ImportNode
import MW.Lemmas.LedgerHistory
namespace MW.Lemmas.ImportJoin
open MW MW.Model.Ledger MW.Model.Import MW.Spec.Chain MW.Spec.Books MW.Lemmas.Ledger MW.Lemmas.RemoveBooks
open MW.Lemmas.ImportExact MW.Lemmas.ImportReorg MW.Lemmas.ImportNode

inductive GEv
  | batch
  | block (b : Block)
  | node (ch : List Block)

def stepG (batch : Nat) (p : Params) (own : Own) (wallets : List Wid) (w : Wid) (sys : XSys) : GEv → XSys
  | .batch => stepX batch p own wallets w sys .batch
  | .block b =>
    let r := processBlock { p := p, own := own, wallets := wallets, node := sys.node } sys.s sys.v b
    { sys with s := r.1, v := r.2.1 }
  | .node ch => { sys with node := { sys.node with chain := ch } }

/-- a chain of the block universe `known`: hash-linked, valid, starting at the genesis block `G0`, not too long -/
structure ChainFacts (batch : Nat) (own : Own) (G0 : Block) (known : AMap.T BlkId Block) (X : List Block) : Prop where
  good : GoodChain X
  valid : ChainValid own X
  gen : X[0]? = some G0
  known : ∀ x ∈ X, AMap.get known x.id = some x
  len : X.length + batch < 2 ^ 64

/-- what is assumed of an event: a notified block is on the node's chain; a new node chain is a chain of the universe -/
def GoodG (batch : Nat) (own : Own) (G0 : Block) (sys : XSys) : GEv → Prop
  | .batch => True
  | .block b => sys.node.chain[b.height]? = some b
  | .node ch => ChainFacts batch own G0 sys.node.known ch

def AllGoodG (batch : Nat) (p : Params) (own : Own) (wallets : List Wid) (w : Wid) (G0 : Block) : XSys → List GEv → Prop
  | _, [] => True
  | sys, e :: es => GoodG batch own G0 sys e ∧ AllGoodG batch p own wallets w G0 (stepG batch p own wallets w sys e) es

/-- the state invariant of general histories -/
def GInv (batch : Nat) (p : Params) (own : Own) (wallets : List Wid) (w : Wid) (G0 : Block) (sys : XSys) : Prop :=
  ChainFacts batch own G0 sys.node.known sys.node.chain ∧ KeysNodup sys.s.unspent ∧
  ∃ X, ChainFacts batch own G0 sys.node.known X ∧
    IJ { p := p, own := own, wallets := wallets, node := sys.node } w sys.s X ∧ sys.v.best = tipMeta X

theorem ij_node {c : Ctx} (n' : Node) {w : Wid} {s : Store} {X : List Block} (h : IJ c w s X) :
    IJ { c with node := n' } w s X := by
  rcases h with ⟨ws, k, hst, hk, hrm, hle, hS, hAR, hne⟩ | ⟨hst, hI, hAR⟩
  · exact Or.inl ⟨ws, k, hst, hk, hrm, hle, ⟨hS.agree, hS.blocks, hS.txpos, hS.bal, hS.balR, hS.sync, hS.syncedTo⟩, hAR, hne⟩
  · exact Or.inr ⟨hst, ⟨hI.agree, hI.bal, hI.sync, hI.syncedTo⟩, hAR⟩

theorem chainFacts_take {batch : Nat} {own : Own} {G0 : Block} {known : AMap.T BlkId Block} {N : List Block}
    (h : ChainFacts batch own G0 known N) (n : Nat) : ChainFacts batch own G0 known (N.take (n + 1)) := by
  refine ⟨goodChain_take h.good n, chainValid_take h.valid _, ?_, fun x hx => h.known x (List.mem_of_mem_take hx), ?_⟩
  · rw [List.getElem?_take]; simp [h.gen]
  · have : (N.take (n + 1)).length ≤ N.length := by rw [List.length_take]; exact Nat.min_le_right _ _
    have := h.len
    omega

/-- one batch from the joined scan invariant, as a step of `IJ` -/
theorem ij_batch {batch : Nat} (hb : batch > 0) {c : Ctx} {w : Wid} (hKN : KeysNodup c.own) (hC : ChainOK c)
    (hw : w ∈ c.wallets) {s : Store} {v : Vol} {ws : WStatus} {k : Nat} (hS : ScanJ c w s k)
    (hst : AMap.get s.status w = some ws) (hk : ws.synced = some k) (hrm : ws.removed = false)
    (hbest : v.best.height + 1 = c.node.chain.length) (hle : k ≤ v.best.height) (hnw : k + batch < 2 ^ 64)
    (hAR : AllReady (ownR c.own w) (readyWallets s c.wallets)) (hne : (readyWallets s c.wallets).isEmpty = false) :
    ∃ s1 v1 fin, importStep batch c w s v = .ok (s1, v1, fin) ∧ IJ c w s1 c.node.chain ∧ v1.best = v.best ∧
      (KeysNodup s.unspent → KeysNodup s1.unspent) := by
  obtain ⟨s1, v1, h1, hS1, hst1, hv1, hO1⟩ := importStep_scanJ hb hKN hC hS (List.contains_iff_mem.2 hw) hst hk hbest hle hnw
  refine ⟨s1, v1, _, h1, ?_, hv1, hO1.2.2⟩
  have hAR1 : AllReady (ownR c.own w) (readyWallets s1 c.wallets) := allReady_others hKN hAR hO1.2.1
  by_cases hfin : nextStop batch k v.best.height = v.best.height
  · right
    rw [hfin] at hS1 hst1
    have hdone : AMap.get s1.status w = some ⟨none, false⟩ := by
      rw [hst1]
      obtain ⟨sy, rm⟩ := ws
      simp only at hrm
      subst hrm
      simp [statusAfter]
    refine ⟨hdone, scanJ_tip_inv hKN hC hS1 hbest, ?_⟩
    intro a w' ch ha
    by_cases hww : w' = w
    · rw [hww]
      apply (ready_contains_iff s1 c.wallets w).2
      refine ⟨hw, ?_⟩
      rw [hdone]; rfl
    · apply hAR1 a w' ch
      rw [ownR_sub hKN w a, ha]
      simp [Option.filter, hww]
  · left
    have hle1 : nextStop batch k v.best.height ≤ v.best.height := by unfold nextStop; split <;> omega
    refine ⟨_, nextStop batch k v.best.height, hst1, by simp [statusAfter, hfin], by simp [statusAfter, hrm],
      by omega, scanJS_of_scanJ hS1, hAR1, ?_⟩
    cases hrl : readyWallets s c.wallets with
    | nil => rw [hrl] at hne; cases hne
    | cons w0 rest =>
      have hw0 : (readyWallets s c.wallets).contains w0 = true := by rw [hrl]; simp
      have hw0ne : w0 ≠ w := by
        intro he
        have := ((ready_contains_iff s c.wallets w0).1 hw0).2
        rw [he, hst] at this
        simp [hk] at this
      have : (readyWallets s1 c.wallets).contains w0 = true := by
        rw [ready_contains_congr (hO1.2.1 w0 hw0ne)]; exact hw0
      cases hr1 : readyWallets s1 c.wallets with
      | nil => rw [hr1] at this; cases this
      | cons _ _ => rfl

section
variable {batch : Nat} {p : Params} {own : Own} {wallets : List Wid} {w : Wid} {G0 : Block}

theorem stepG_inv (hb : batch > 0) (hKN : KeysNodup own) (hw : w ∈ wallets)
    (sys : XSys) (hp0 : ∀ x, AMap.get sys.node.known x.id = some x → G0.prev ≠ x.id)
    (e : GEv) (hgood : GoodG batch own G0 sys e) (hI : GInv batch p own wallets w G0 sys) :
    GInv batch p own wallets w G0 (stepG batch p own wallets w sys e) := by
  obtain ⟨hN, hU, X, hX, hIJ, hv⟩ := hI
  have hinj : IdInj (X ++ sys.node.chain) := idInj_of_known (known := sys.node.known) (fun x hx => by
    rcases List.mem_append.1 hx with h | h
    · exact hX.known x h
    · exact hN.known x h)
  cases e with
  | node ch =>
    exact ⟨hgood, hU, X, hX, ij_node _ hIJ, hv⟩
  | block b =>
    have hb' : sys.node.chain[b.height]? = some b := hgood
    have hbl : b.height < sys.node.chain.length := (List.getElem?_eq_some_iff.1 hb').1
    obtain ⟨s', v', hpb, hI', hv'⟩ := ij_processBlock
      (c := { p := p, own := own, wallets := wallets, node := sys.node }) (w := w) (S := X)
      hKN hw hN.good hX.good (by rw [hX.gen, hN.gen]) hinj hN.valid hX.valid hX.known hIJ hb' hv
      (by
        intro h0 hpe
        rw [h0, hN.gen] at hb'
        have hbG : b = G0 := (Option.some.inj hb').symm
        obtain ⟨x, hx, ht⟩ := tipMeta_good hX.good
        rw [ht, hbG] at hpe
        exact hp0 x (hX.known x (mem_of_get hx)) hpe)
    have hstep : stepG batch p own wallets w sys (.block b) = { sys with s := s', v := v' } := by
      simp only [stepG]
      rw [hpb]
    have hU' : KeysNodup s'.unspent := by
      have := wf_processBlock (c := { p := p, own := own, wallets := wallets, node := sys.node }) (v := sys.v) (b := b) hU
      rw [hpb] at this; exact this
    rw [hstep]
    exact ⟨hN, hU', sys.node.chain.take (b.height + 1), chainFacts_take hN _, hI', hv'⟩
  | batch =>
    have hnode : (stepX batch p own wallets w sys .batch).node = sys.node := by
      simp only [stepX]
      split
      · split <;> rfl
      · rfl
    show GInv batch p own wallets w G0 (stepX batch p own wallets w sys .batch)
    rcases hIJ with ⟨ws, k, hst, hk, hrm, hle, hS, hAR, hne⟩ | ⟨hst, hI, hAR⟩
    · have hbestX := best_of_tip hX.good hv
      have hlenX := hX.len
      -- the batch run against the follower's own chain
      obtain ⟨s1, v1, fin, h1, hIJ1, hv1, hU1⟩ := ij_batch hb
        (c := { p := p, own := own, wallets := wallets, node := { sys.node with chain := X } }) (w := w) hKN
        ⟨hX.valid, hX.good.heights⟩ hw (s := sys.s) (v := sys.v)
        (⟨hS.agree, hS.blocks, hS.txpos, hS.bal, hS.balR, hS.sync, hS.syncedTo⟩ : ScanJ _ w sys.s k)
        hst hk hrm hbestX (by omega) (by omega) hAR hne
      -- either the batch against the node's chain is that batch, or it fails
      have hcases : importStep batch { p := p, own := own, wallets := wallets, node := sys.node } w sys.s sys.v =
            .ok (s1, v1, fin) ∨
          ∃ e, importStep batch { p := p, own := own, wallets := wallets, node := sys.node } w sys.s sys.v = .error e := by
        by_cases hkb : sys.v.best.height ≤ k
        · left
          rw [importStep_node_empty batch { p := p, own := own, wallets := wallets, node := sys.node }
            { sys.node with chain := X } w sys.s sys.v ws k hst hk hkb (by omega)]
          exact h1
        · have hcur : cursorU64 ws = k := by simp [cursorU64, hk]
          have hstopeq := batchStop_eq batch k sys.v.best.height (by omega)
          have hstop_le : nextStop batch k sys.v.best.height ≤ sys.v.best.height := by unfold nextStop; split <;> omega
          have hstop_gt : k < nextStop batch k sys.v.best.height := by unfold nextStop; split <;> omega
          by_cases hag : agrees { p := p, own := own, wallets := wallets, node := sys.node } sys.s
              (nextStop batch k sys.v.best.height) = true
          · left
            -- the node's block at the top of the range is the follower's: the chains agree up to there
            have hxl : nextStop batch k sys.v.best.height < X.length := by omega
            have hx : X[nextStop batch k sys.v.best.height]? = some X[nextStop batch k sys.v.best.height] :=
              List.getElem?_eq_getElem hxl
            unfold agrees Node.blockAt at hag
            rw [hS.sync, syncOf, hx] at hag
            cases hy : sys.node.chain[nextStop batch k sys.v.best.height]? with
            | none => rw [hy] at hag; simp at hag
            | some y =>
              rw [hy] at hag
              simp only [Option.map_some, beq_iff_eq] at hag
              have hpre := prefix_of_id hX.good hN.good hinj _ _ _ hx hy hag.symm
              rw [importStep_node_congr batch { p := p, own := own, wallets := wallets, node := sys.node }
                { sys.node with chain := X } w sys.s sys.v ws hst (by rw [hcur, hstopeq]; exact hpre.symm)]
              exact h1
          · right
            refine ⟨.continuable, ?_⟩
            unfold importStep batchHead
            have hwc : wallets.contains w = true := List.contains_iff_mem.2 hw
            simp only [hwc, Bool.not_true, Bool.false_eq_true, if_false, hst, hS.bal, hcur, hstopeq]
            have hgt : nextStop batch k sys.v.best.height > k := hstop_gt
            simp [hgt, hag]
      rcases hcases with hok | ⟨e, herr⟩
      · have hstep : stepX batch p own wallets w sys .batch = { sys with s := s1, v := v1 } := by
          obtain ⟨sy, rm⟩ := ws
          simp only at hk
          subst hk
          simp only [stepX, hst, hok]
        rw [hstep]
        exact ⟨hN, hU1 hU, X, hX, ij_node sys.node hIJ1, by show v1.best = _; rw [hv1]; exact hv⟩
      · have hstep : stepX batch p own wallets w sys .batch = sys := by
          obtain ⟨sy, rm⟩ := ws
          simp only at hk
          subst hk
          simp only [stepX, hst, herr]
        rw [hstep]
        exact ⟨hN, hU, X, hX, Or.inl ⟨ws, k, hst, hk, hrm, hle, hS, hAR, hne⟩, hv⟩
    · have hstep : stepX batch p own wallets w sys .batch = sys := by
        simp only [stepX, hst]
      rw [hstep]
      exact ⟨hN, hU, X, hX, Or.inr ⟨hst, hI, hAR⟩, hv⟩

theorem stepG_known (sys : XSys) (e : GEv) :
    (stepG batch p own wallets w sys e).node.known = sys.node.known := by
  cases e with
  | node ch => rfl
  | block b => rfl
  | batch =>
    show (stepX batch p own wallets w sys .batch).node.known = _
    simp only [stepX]
    split
    · split <;> rfl
    · rfl

/-- **stage 3: the invariant survives every good history** -/
theorem foldG_inv (hb : batch > 0) (hKN : KeysNodup own) (hw : w ∈ wallets) (evs : List GEv) :
    ∀ (sys : XSys), (∀ x, AMap.get sys.node.known x.id = some x → G0.prev ≠ x.id) →
      AllGoodG batch p own wallets w G0 sys evs → GInv batch p own wallets w G0 sys →
      GInv batch p own wallets w G0 (evs.foldl (stepG batch p own wallets w) sys) := by
  induction evs with
  | nil => intro sys _ _ h; exact h
  | cons e evs ih =>
    intro sys hp0 hgood hI
    rw [List.foldl_cons]
    exact ih _ (by rw [stepG_known]; exact hp0) hgood.2 (stepG_inv hb hKN hw sys hp0 e hgood.1 hI)

/-- when the wallet is done and the follower has caught up with the node, the chain the store follows IS the node's -/
theorem ginv_caught_up {sys : XSys} (hI : GInv batch p own wallets w G0 sys)
    (hdone : AMap.get sys.s.status w = some ⟨none, false⟩)
    (hbest : sys.v.best.height + 1 = sys.node.chain.length)
    (hsync : ∀ h b, sys.node.chain[h]? = some b → AMap.get sys.s.sync h = some b.id) :
    Inv { p := p, own := own, wallets := wallets, node := sys.node } sys.s sys.node.chain ∧ KeysNodup sys.s.unspent := by
  obtain ⟨hN, hU, X, hX, hIJ, hv⟩ := hI
  refine ⟨?_, hU⟩
  have hinj : IdInj (X ++ sys.node.chain) := idInj_of_known (known := sys.node.known) (fun x hx => by
    rcases List.mem_append.1 hx with h | h
    · exact hX.known x h
    · exact hN.known x h)
  have hlenX := best_of_tip hX.good hv
  have hXN : X = sys.node.chain := by
    have hpos := hX.good.length_pos
    have hx : X[X.length - 1]? = some X[X.length - 1] := List.getElem?_eq_getElem (by omega)
    have hy : sys.node.chain[X.length - 1]? = some sys.node.chain[X.length - 1] := List.getElem?_eq_getElem (by omega)
    have h1 := hsync _ _ hy
    rw [ij_sync hIJ, syncOf, hx] at h1
    simp only [Option.map_some, Option.some.injEq] at h1
    have := prefix_of_id hX.good hN.good hinj _ _ _ hx hy h1
    rw [show X.length - 1 + 1 = X.length by omega, List.take_length] at this
    rw [this]
    apply List.take_of_length_le
    omega
  rcases hIJ with ⟨ws, k, hst, hk, _⟩ | ⟨_, hI, _⟩
  · rw [hdone] at hst; cases hst; cases hk
  · rw [← hXN]; exact hI

end
end MW.Lemmas.ImportJoin
