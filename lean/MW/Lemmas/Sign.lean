/-
  Lemmas about MW.Model.Sign (signTx / signLoop / attempts) over arbitrary Crypto and Engine.
-/
import MW.Model.Sign
namespace MW.Lemmas.Sign
open MW.Model.Sign

variable {C : Crypto} {A : Type}

-- ------------------------------------------------------------------ one step of the loop, inverted

/-- what a successful iteration of the loop looks like -/
theorem signLoop_cons_ok {E : Engine C A} {env : Env C A} {p : C.Pass} {fl : Flag} {stx : STx} {nOut : Nat}
    {inp : TxIn (Witness C)} {rest : List (TxIn (Witness C))} {i : Nat} {L : Lock C} {out : List (TxIn (Witness C))}
    (h : signLoop E env p fl stx nOut (inp :: rest) i L = .ok out) :
    ∃ po L' w rest', env.resolve inp.prev = .ok po ∧ E.ok po stx i w = true ∧
      signLoop E env p fl stx nOut rest (i + 1) L' = .ok rest' ∧ out = { inp with wit := w } :: rest' ∧
      ((fl.base = .single ∧ ¬ i < nOut ∧ L' = L ∧ w = inp.wit) ∨
       (¬ (fl.base = .single ∧ ¬ i < nOut) ∧ ∃ w', signOne E env L p stx i fl po = .ok (L', w') ∧ w = some w')) := by
  unfold signLoop at h
  split at h
  · simp at h
  · rename_i po hres
    dsimp only at h
    split at h
    · simp at h
    · rename_i L' w hr
      split at h
      · rename_i hok
        split at h
        · rename_i rest' hrec
          simp at h
          refine ⟨po, L', w, rest', hres, hok, hrec, h.symm, ?_⟩
          split at hr
          · rename_i hs
            simp at hr
            exact Or.inl ⟨hs.1, hs.2, hr.1.symm, hr.2.symm⟩
          · rename_i hs
            split at hr
            · rename_i L'' w' hso
              simp at hr
              refine Or.inr ⟨hs, w', ?_, hr.2.symm⟩
              rw [hso, hr.1]
            · simp at hr
        · simp at h
      · simp at h

-- ------------------------------------------------------------------ sign_only_witness

theorem signLoop_strip {E : Engine C A} {env : Env C A} {p : C.Pass} {fl : Flag} {stx : STx} {nOut : Nat} :
    ∀ (ins : List (TxIn (Witness C))) (i : Nat) (L : Lock C) (out : List (TxIn (Witness C))),
    signLoop E env p fl stx nOut ins i L = .ok out → out.map TxIn.strip = ins.map TxIn.strip := by
  intro ins
  induction ins with
  | nil => intro i L out h; simp [signLoop] at h; subst h; rfl
  | cons inp rest ih =>
    intro i L out h
    obtain ⟨po, L', w, rest', _, _, hrec, hout, _⟩ := signLoop_cons_ok h
    subst hout
    simp only [List.map_cons, ih _ _ _ hrec]
    rfl

theorem signTx_strip {E : Engine C A} {env : Env C A} {L : Lock C} {p : C.Pass} {fl : Flag}
    {tx tx' : Tx (Witness C)} (h : (signTx E env L p fl tx).2 = .ok tx') : tx'.strip = tx.strip := by
  unfold signTx at h
  dsimp only at h
  split at h
  · rename_i ins hl
    simp at h
    subst h
    simp only [Tx.strip]
    rw [signLoop_strip _ _ _ _ hl]
  · simp at h

-- ------------------------------------------------------------------ sign_checked

theorem signLoop_checked {E : Engine C A} {env : Env C A} {p : C.Pass} {fl : Flag} {stx : STx} {nOut : Nat} :
    ∀ (ins : List (TxIn (Witness C))) (i : Nat) (L : Lock C) (out : List (TxIn (Witness C))),
    signLoop E env p fl stx nOut ins i L = .ok out →
    ∀ (j : Nat) (inp : TxIn (Witness C)), ins[j]? = some inp →
      ∃ po inp', env.resolve inp.prev = .ok po ∧ out[j]? = some inp' ∧ E.ok po stx (i + j) inp'.wit = true := by
  intro ins
  induction ins with
  | nil => intro i L out _ j inp hj; simp at hj
  | cons x rest ih =>
    intro i L out h j inp hj
    obtain ⟨po, L', w, rest', hres, hok, hrec, hout, _⟩ := signLoop_cons_ok h
    subst hout
    cases j with
    | zero =>
      simp at hj
      subst hj
      exact ⟨po, _, hres, rfl, by simpa using hok⟩
    | succ j =>
      simp at hj
      obtain ⟨po', inp', h1, h2, h3⟩ := ih _ _ _ hrec j inp hj
      refine ⟨po', inp', h1, by simpa using h2, ?_⟩
      have : i + (j + 1) = i + 1 + j := by omega
      rw [this]
      exact h3

-- ------------------------------------------------------------------ the passphrase gate

/-- the lock is consistent with the keystore's passphrase: what is cached is the hash of `pass` -/
def LockCons (pass : C.Pass) (L : Lock C) : Prop := L.unlocked = true → L.hashed = some pass

theorem lockCons_locked (pass : C.Pass) : LockCons pass (Lock.locked C) := by
  intro h; simp [Lock.locked] at h

theorem checkPassword_iff {env : Env C A} {pass : C.Pass} (hp : env.params = C.params pass) {L : Lock C}
    (hL : LockCons pass L) (p : C.Pass) : checkPassword env L p = true ↔ p = pass := by
  unfold checkPassword
  by_cases hu : L.unlocked = true
  · simp only [hu, if_true, decide_eq_true_eq]
    rw [hL hu]
    constructor
    · intro h; exact (Option.some.inj h).symm
    · intro h; rw [h]
  · simp only [hu, if_false]
    rw [hp]
    exact C.kdf_correct pass p

theorem signOne_lockCons {E : Engine C A} {env : Env C A} {pass : C.Pass} (hp : env.params = C.params pass)
    {L L' : Lock C} (hL : LockCons pass L) {p : C.Pass} {stx : STx} {i : Nat} {fl : Flag} {po : PrevOut A}
    {w : Witness C} (h : signOne E env L p stx i fl po = .ok (L', w)) : LockCons pass L' ∧ p = pass := by
  unfold signOne at h
  split at h
  · simp at h
  · split at h
    · simp at h
    · split at h
      · simp at h
      · rename_i hchk
        have hpp : p = pass := by
          have : checkPassword env L p = true := by
            cases hc : checkPassword env L p
            · simp [hc] at hchk
            · rfl
          exact (checkPassword_iff hp hL p).mp this
        cases hsk : env.skOf po.addr with
        | none => simp [hsk] at h
        | some sk =>
          simp only [hsk, Except.ok.injEq, Prod.mk.injEq] at h
          refine ⟨?_, hpp⟩
          rw [← h.1]
          by_cases hu : L.unlocked = true
          · simp [hu]; exact hL
          · simp [hu]
            intro _
            simp [hpp]

/-- a wrong passphrase never gets past an input that has to be signed -/
theorem signOne_wrong {E : Engine C A} {env : Env C A} {pass : C.Pass} (hp : env.params = C.params pass)
    {L : Lock C} (hL : LockCons pass L) {p : C.Pass} (hne : p ≠ pass) (stx : STx) (i : Nat) (fl : Flag) (po : PrevOut A) :
    ∃ e, signOne E env L p stx i fl po = .error e := by
  cases h : signOne E env L p stx i fl po with
  | error e => exact ⟨e, rfl⟩
  | ok r =>
    obtain ⟨L', w⟩ := r
    exact absurd (signOne_lockCons hp hL h).2 hne

/-- input 0 is signed: there is an input, and SigHashSingle has an output for it -/
def FirstSigned (fl : Flag) (tx : Tx (Witness C)) : Prop :=
  tx.ins ≠ [] ∧ (fl.base = .single → 0 < tx.outs.length)

theorem signTx_wrong {E : Engine C A} {env : Env C A} {pass : C.Pass} (hp : env.params = C.params pass)
    {L : Lock C} (hL : LockCons pass L) {p : C.Pass} (hne : p ≠ pass) {fl : Flag} {tx : Tx (Witness C)}
    (hf : FirstSigned fl tx) : ∃ e, (signTx E env L p fl tx).2 = .error e := by
  unfold signTx
  dsimp only
  obtain ⟨hins, hsingle⟩ := hf
  cases hi : tx.ins with
  | nil => exact absurd hi hins
  | cons inp rest =>
    cases hl : signLoop E env p fl tx.strip tx.outs.length (inp :: rest) 0 L with
    | error e => exact ⟨e, by simp⟩
    | ok out =>
      exfalso
      obtain ⟨po, L', w, rest', _, _, _, _, hcase⟩ := signLoop_cons_ok hl
      rcases hcase with ⟨hs, hno, _, _⟩ | ⟨_, w', hso, _⟩
      · exact hno (hsingle hs)
      · obtain ⟨e, he⟩ := signOne_wrong (E := E) hp hL hne tx.strip 0 fl po
        rw [he] at hso
        simp at hso

-- ------------------------------------------------------------------ completeness

/-- an input the selected keystore can sign: its previous output resolves, is a 1-of-1 template output
    of an address of the keystore whose private key matches the public key the address commits to
    (C04), and the input's sequence meets the rule of the output class -/
def InputOk (E : Engine C A) (env : Env C A) (inp : TxIn (Witness C)) : Prop :=
  ∃ po pk sk, env.resolve inp.prev = .ok po ∧ po.cls ≠ .other ∧ seqOk po.cls inp.seq = true ∧
    env.pubOf po.addr = some pk ∧ env.skOf po.addr = some sk ∧ C.pkOf sk = pk ∧ E.hashOf pk = po.addr

def Signable (E : Engine C A) (env : Env C A) (fl : Flag) (tx : Tx (Witness C)) : Prop :=
  (∀ inp ∈ tx.ins, InputOk E env inp) ∧ (fl.base = .single → tx.ins.length ≤ tx.outs.length)

theorem signOne_right {E : Engine C A} {env : Env C A} {pass : C.Pass} (hp : env.params = C.params pass)
    {L : Lock C} (hL : LockCons pass L) (stx : STx) (i : Nat) (fl : Flag) {po : PrevOut A} {pk : C.PK} {sk : C.SK}
    (hc : po.cls ≠ .other) (hpk : env.pubOf po.addr = some pk) (hsk : env.skOf po.addr = some sk) :
    ∃ L', signOne E env L pass stx i fl po = .ok (L', ⟨C.sign sk (E.sighash stx i fl pk po.amt), fl, pk⟩) ∧
      LockCons pass L' := by
  have hchk : checkPassword env L pass = true := (checkPassword_iff hp hL pass).mpr rfl
  refine ⟨if L.unlocked then L else ⟨true, some pass⟩, ?_, ?_⟩
  · unfold signOne
    simp [hc, hpk, hchk, hsk]
  · by_cases hu : L.unlocked = true
    · simp [hu]; exact hL
    · simp [hu]; intro _; rfl

theorem signLoop_complete {E : Engine C A} {env : Env C A} {pass : C.Pass} (hp : env.params = C.params pass)
    {fl : Flag} {stx : STx} {nOut : Nat} :
    ∀ (ins : List (TxIn (Witness C))) (i : Nat) (L : Lock C), LockCons pass L →
    (∀ inp ∈ ins, InputOk E env inp) →
    (∀ j inp, ins[j]? = some inp → (stx.ins[i + j]?).map (·.seq) = some inp.seq) →
    (fl.base = .single → i + ins.length ≤ nOut) →
    ∃ out, signLoop E env pass fl stx nOut ins i L = .ok out := by
  intro ins
  induction ins with
  | nil => intro i L _ _ _ _; exact ⟨[], by simp [signLoop]⟩
  | cons inp rest ih =>
    intro i L hL hin hseq hs
    obtain ⟨po, pk, sk, hres, hc, hsq, hpk, hsk, hpkeq, hh⟩ := hin inp (List.mem_cons_self)
    obtain ⟨L', hso, hL'⟩ := signOne_right (E := E) hp hL stx i fl hc hpk hsk
    have hnot : ¬ (fl.base = .single ∧ ¬ i < nOut) := by
      intro ⟨h1, h2⟩
      have := hs h1
      simp at this
      omega
    have hseq0 : (stx.ins[i]?).map (·.seq) = some inp.seq := by
      have := hseq 0 inp (by simp)
      simpa using this
    have hok : E.ok po stx i (some ⟨C.sign sk (E.sighash stx i fl pk po.amt), fl, pk⟩) = true := by
      apply E.p2wsh po stx i _ inp.seq hc hh hseq0 hsq
      rw [← hpkeq]
      exact C.verify_sign sk _
    obtain ⟨rest', hrec⟩ := ih (i + 1) L' hL' (fun x hx => hin x (List.mem_cons_of_mem _ hx))
      (fun j x hj => by
        have := hseq (j + 1) x (by simpa using hj)
        have e : i + (j + 1) = i + 1 + j := by omega
        rw [e] at this
        exact this)
      (fun h1 => by have := hs h1; simp at this; omega)
    refine ⟨{ inp with wit := some ⟨C.sign sk (E.sighash stx i fl pk po.amt), fl, pk⟩ } :: rest', ?_⟩
    unfold signLoop
    simp only [hres, hnot, if_false, hso, hok, if_true, hrec]

theorem strip_seq (tx : Tx (Witness C)) (j : Nat) (inp : TxIn (Witness C)) (h : tx.ins[j]? = some inp) :
    (tx.strip.ins[j]?).map (·.seq) = some inp.seq := by
  simp [Tx.strip, TxIn.strip, List.getElem?_map, h]

theorem signTx_complete {E : Engine C A} {env : Env C A} {pass : C.Pass} (hp : env.params = C.params pass)
    {L : Lock C} (hL : LockCons pass L) {fl : Flag} {tx : Tx (Witness C)} (hs : Signable E env fl tx) :
    ∃ tx', (signTx E env L pass fl tx).2 = .ok tx' := by
  obtain ⟨out, hout⟩ := signLoop_complete (E := E) hp (fl := fl) (stx := tx.strip) (nOut := tx.outs.length)
    tx.ins 0 L hL hs.1 (fun j inp hj => by simpa using strip_seq tx j inp hj) (fun h => by simpa using hs.2 h)
  refine ⟨{ tx with ins := out }, ?_⟩
  unfold signTx
  simp [hout]

/-- with a wrong passphrase a signable transaction is refused with the PASSPHRASE error -/
theorem signTx_wrong_signable {E : Engine C A} {env : Env C A} {pass : C.Pass} (hp : env.params = C.params pass)
    {L : Lock C} (hL : LockCons pass L) {p : C.Pass} (hne : p ≠ pass) {fl : Flag} {tx : Tx (Witness C)}
    (hs : Signable E env fl tx) (hne0 : tx.ins ≠ []) : (signTx E env L p fl tx).2 = .error .pass := by
  unfold signTx
  dsimp only
  cases hi : tx.ins with
  | nil => exact absurd hi hne0
  | cons inp rest =>
    obtain ⟨po, pk, sk, hres, hc, _, hpk, _, _, _⟩ := hs.1 inp (by rw [hi]; exact List.mem_cons_self)
    have hnot : ¬ (fl.base = .single ∧ ¬ 0 < tx.outs.length) := by
      intro ⟨h1, h2⟩
      have := hs.2 h1
      rw [hi] at this
      simp at this
      omega
    have hchk : checkPassword env L p = false := by
      cases hc' : checkPassword env L p
      · rfl
      · exact absurd ((checkPassword_iff hp hL p).mp hc') hne
    have hso : signOne E env L p tx.strip 0 fl po = .error .pass := by
      unfold signOne
      simp [hc, hpk, hchk]
    unfold signLoop
    simp only [hres, hnot, if_false, hso]

-- ------------------------------------------------------------------ interleavings

theorem attempts_length {E : Engine C A} {env : Env C A} :
    ∀ (as : List (C.Pass × Flag × Tx (Witness C))) (L : Lock C), (attempts E env L as).length = as.length := by
  intro as
  induction as with
  | nil => intro L; rfl
  | cons a rest ih =>
    intro L
    obtain ⟨p, fl, tx⟩ := a
    simp [attempts, ih]

/-- every attempt of an interleaving runs from a consistent lock state: the j-th result is the result of
    signTx from SOME consistent lock -/
theorem attempts_get {E : Engine C A} {env : Env C A} {pass : C.Pass} :
    ∀ (as : List (C.Pass × Flag × Tx (Witness C))) (L : Lock C), LockCons pass L →
    ∀ (j : Nat) (p : C.Pass) (fl : Flag) (tx : Tx (Witness C)), as[j]? = some (p, fl, tx) →
    ∃ Lj, LockCons pass Lj ∧ (attempts E env L as)[j]? = some (signTx E env Lj p fl tx).2 := by
  intro as
  induction as with
  | nil => intro L _ j p fl tx h; simp at h
  | cons a rest ih =>
    intro L hL j p fl tx h
    obtain ⟨p0, fl0, tx0⟩ := a
    cases j with
    | zero =>
      simp at h
      obtain ⟨rfl, rfl, rfl⟩ := h
      exact ⟨L, hL, by simp [attempts]⟩
    | succ j =>
      simp at h
      obtain ⟨Lj, hLj, hget⟩ := ih (Lock.locked C) (lockCons_locked pass) j p fl tx h
      refine ⟨Lj, hLj, ?_⟩
      simp only [attempts, signTx]
      simpa [signTx] using hget

end MW.Lemmas.Sign
