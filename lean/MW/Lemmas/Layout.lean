/- Helper lemma for C08 (layout_prefix_exact): a prefix scan with a key of the same width as the key field is an
   equality test on that field. -/
namespace MW.Lemmas.Layout

theorem isPrefixOf_append_iff {α : Type} [DecidableEq α] (a b rest : List α) (h : a.length = b.length) :
    a.isPrefixOf (b ++ rest) = true ↔ a = b := by
  induction a generalizing b with
  | nil =>
    cases b with
    | nil => simp
    | cons _ _ => simp at h
  | cons x a ih =>
    cases b with
    | nil => simp at h
    | cons y b =>
      simp only [List.length_cons, Nat.add_right_cancel_iff] at h
      simp only [List.cons_append, List.isPrefixOf, Bool.and_eq_true, beq_iff_eq, List.cons.injEq]
      rw [ih b h]

end MW.Lemmas.Layout
