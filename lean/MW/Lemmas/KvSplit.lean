/-
  strings.Split / strings.Join for a one-byte separator, and strconv.Itoa (Dec.render):
  the facts the key-encoding proofs of C11 rest on.
-/
import MW.Base.KvBytes
import MW.Base.Dec
namespace MW.KV

theorem splitSep_ne_nil (s : UInt8) (k : Bytes) : splitSep s k ≠ [] := by
  induction k with
  | nil => simp [splitSep]
  | cons c cs ih =>
    simp only [splitSep]
    cases h : splitSep s cs with
    | nil => exact absurd h ih
    | cons p ps => by_cases hc : c = s <;> simp [hc]

theorem splitSep_cons_sep (s : UInt8) (k : Bytes) : splitSep s (s :: k) = [] :: splitSep s k := by
  simp only [splitSep]
  cases h : splitSep s k with
  | nil => exact absurd h (splitSep_ne_nil s k)
  | cons p ps => simp

theorem splitSep_cons_ne (s c : UInt8) (hc : c ≠ s) (k : Bytes) :
    splitSep s (c :: k) = (c :: (splitSep s k).headD []) :: (splitSep s k).tail := by
  simp only [splitSep]
  cases h : splitSep s k with
  | nil => exact absurd h (splitSep_ne_nil s k)
  | cons p ps => simp [hc]

/-- a separator-free token in front of a separator is split off -/
theorem splitSep_append (s : UInt8) (a : Bytes) (ha : s ∉ a) (k : Bytes) :
    splitSep s (a ++ s :: k) = a :: splitSep s k := by
  induction a with
  | nil => exact splitSep_cons_sep s k
  | cons c cs ih =>
    have hc : c ≠ s := fun e => ha (by rw [e]; exact List.mem_cons_self)
    have hcs : s ∉ cs := fun h => ha (List.mem_cons_of_mem _ h)
    rw [List.cons_append, splitSep_cons_ne s c hc, ih hcs]
    simp

theorem splitSep_noSep (s : UInt8) (a : Bytes) (ha : s ∉ a) : splitSep s a = [a] := by
  induction a with
  | nil => rfl
  | cons c cs ih =>
    have hc : c ≠ s := fun e => ha (by rw [e]; exact List.mem_cons_self)
    have hcs : s ∉ cs := fun h => ha (List.mem_cons_of_mem _ h)
    rw [splitSep_cons_ne s c hc, ih hcs]
    simp

theorem joinSep_cons_cons (s : UInt8) (a b : Bytes) (rest : List Bytes) :
    joinSep s (a :: b :: rest) = a ++ s :: joinSep s (b :: rest) := rfl

theorem joinSep_append_singleton (s : UInt8) (arr : List Bytes) (h : arr ≠ []) (x : Bytes) :
    joinSep s (arr ++ [x]) = joinSep s arr ++ s :: x := by
  induction arr with
  | nil => exact absurd rfl h
  | cons a rest ih =>
    cases rest with
    | nil => simp [joinSep]
    | cons b rest' =>
      rw [List.cons_append, List.cons_append, joinSep_cons_cons, joinSep_cons_cons]
      have := ih (by simp)
      rw [List.cons_append] at this
      rw [this]; simp

/-- Split undoes Join when no element contains the separator; whatever follows a further
    separator is split on its own -/
theorem splitSep_joinSep_append (s : UInt8) (arr : List Bytes) (h : arr ≠ [])
    (hs : ∀ a ∈ arr, s ∉ a) (k : Bytes) :
    splitSep s (joinSep s arr ++ s :: k) = arr ++ splitSep s k := by
  induction arr with
  | nil => exact absurd rfl h
  | cons a rest ih =>
    cases rest with
    | nil =>
      simp only [joinSep, List.singleton_append]
      exact splitSep_append s a (hs a List.mem_cons_self) k
    | cons b rest' =>
      rw [joinSep_cons_cons, List.append_assoc, List.cons_append,
        splitSep_append s a (hs a List.mem_cons_self)]
      rw [ih (by simp) (fun x hx => hs x (List.mem_cons_of_mem _ hx))]
      simp

theorem splitSep_joinSep (s : UInt8) (arr : List Bytes) (h : arr ≠ []) (hs : ∀ a ∈ arr, s ∉ a) :
    splitSep s (joinSep s arr) = arr := by
  induction arr with
  | nil => exact absurd rfl h
  | cons a rest ih =>
    cases rest with
    | nil => exact splitSep_noSep s a (hs a List.mem_cons_self)
    | cons b rest' =>
      rw [joinSep_cons_cons, splitSep_append s a (hs a List.mem_cons_self),
        ih (by simp) (fun x hx => hs x (List.mem_cons_of_mem _ hx))]

theorem joinSep_splitSep (s : UInt8) (k : Bytes) : joinSep s (splitSep s k) = k := by
  induction k with
  | nil => rfl
  | cons c cs ih =>
    by_cases hc : c = s
    · subst hc
      rw [splitSep_cons_sep]
      cases h : splitSep c cs with
      | nil => exact absurd h (splitSep_ne_nil c cs)
      | cons p ps =>
        rw [joinSep_cons_cons, ← h, ih]; rfl
    · rw [splitSep_cons_ne s c hc]
      cases h : splitSep s cs with
      | nil => exact absurd h (splitSep_ne_nil s cs)
      | cons p ps =>
        rw [h] at ih
        simp only [List.headD_cons, List.tail_cons]
        cases ps with
        | nil => simp only [joinSep] at ih ⊢; rw [ih]
        | cons q qs =>
          rw [joinSep_cons_cons] at ih ⊢
          rw [List.cons_append, ih]

theorem splitSep_injective (s : UInt8) {a b : Bytes} (h : splitSep s a = splitSep s b) : a = b := by
  rw [← joinSep_splitSep s a, ← joinSep_splitSep s b, h]

/-- the tokens of a split contain no separator -/
theorem splitSep_noSep_mem (s : UInt8) (k : Bytes) : ∀ t ∈ splitSep s k, s ∉ t := by
  induction k with
  | nil => simp [splitSep]
  | cons c cs ih =>
    by_cases hc : c = s
    · subst hc
      rw [splitSep_cons_sep]
      intro t ht
      rcases List.mem_cons.mp ht with ht | ht
      · subst ht; simp
      · exact ih t ht
    · rw [splitSep_cons_ne s c hc]
      cases h : splitSep s cs with
      | nil => exact absurd h (splitSep_ne_nil s cs)
      | cons p ps =>
        rw [h] at ih
        intro t ht
        simp only [List.headD_cons, List.tail_cons] at ht
        rcases List.mem_cons.mp ht with ht | ht
        · subst ht
          intro hm
          rcases List.mem_cons.mp hm with hm | hm
          · exact hc hm.symm
          · exact ih p List.mem_cons_self hm
        · exact ih t (List.mem_cons_of_mem _ ht)

end MW.KV

namespace MW.KV.DecL
open MW.Dec

theorem ofDigitsAux_append (acc : Nat) (xs : Bytes) (d : UInt8) :
    ofDigitsAux acc (xs ++ [d]) = ofDigitsAux acc xs * 10 + dval d := by
  induction xs generalizing acc with
  | nil => rfl
  | cons x xs ih => exact ih (acc * 10 + dval x)

theorem toNat_dchr {n : Nat} (h : n < 10) : (dchr n).toNat = 48 + n := by
  unfold dchr; rw [UInt8.toNat_ofNat']; omega

theorem dval_dchr {n : Nat} (h : n < 10) : dval (dchr n) = n := by
  unfold dval; rw [toNat_dchr h]; omega

theorem isDigit_dchr {n : Nat} (h : n < 10) : isDigit (dchr n) = true := by
  unfold isDigit; rw [toNat_dchr h]; simp; omega

/-- strconv.Atoi ∘ strconv.Itoa = id -/
theorem ofDigits_render (n : Nat) : ofDigits (render n) = n := by
  induction n using Nat.strongRecOn with
  | _ n ih =>
    rw [render]
    by_cases h : n < 10
    · simp only [h, dite_true]
      show 0 * 10 + dval (dchr n) = n
      rw [dval_dchr h]; omega
    · simp only [h, dite_false]
      have := ih (n / 10) (by omega)
      simp only [ofDigits] at this ⊢
      rw [ofDigitsAux_append, this, dval_dchr (by omega)]
      omega

theorem render_injective {a b : Nat} (h : render a = render b) : a = b := by
  rw [← ofDigits_render a, ← ofDigits_render b, h]

theorem render_all_digits (n : Nat) : ∀ c ∈ render n, isDigit c = true := by
  induction n using Nat.strongRecOn with
  | _ n ih =>
    rw [render]
    by_cases h : n < 10
    · simp [h, isDigit_dchr h]
    · simp only [h, dite_false]
      intro c hc
      rcases List.mem_append.mp hc with hc | hc
      · exact ih (n / 10) (by omega) c hc
      · simp at hc; subst hc; exact isDigit_dchr (by omega)

theorem render_ne_nil (n : Nat) : render n ≠ [] := by
  rw [render]
  by_cases h : n < 10 <;> simp [h]

end MW.KV.DecL
