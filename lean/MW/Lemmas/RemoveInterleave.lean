/-
  C08, removal INTERLEAVED with follower events — definitions.
    `IEv`     what can happen while the worker removes a wallet transaction by transaction: a removal step, a tip
              notification (the node's chain database may have changed: extension or reorganisation), an unconfirmed
              transaction, a restart of the follower
    `istep`   the model functions the driver executes for these events (`removeStep`, `processBlock`, `recvTx`)
    `irun`    a history; it ends with the finishing removal step (`fin`)
    `NodeOK`  what is assumed of a node state that is announced
    `FollowerQuiet`  histories whose follower events leave the mined buckets alone (unconfirmed transactions, restarts)
-/
import MW.Lemmas.RemoveMain
import MW.Lemmas.LedgerChainDefs
namespace MW.Lemmas.RemoveInterleave
open MW MW.Model.Ledger MW.Model.Remove MW.Spec.Chain MW.Spec.Books MW.Lemmas.Ledger

inductive IEv
  | rem
  | notify (node : Node) (b : Block)
  | recv (t : Tx)
  | restart (v : Vol)

structure ISt where
  s : Store
  v : Vol
  node : Node
  fin : Bool := false

/-- one event; `none` = the event is not possible (a step after the last one) or its database transaction failed -/
def istep (limit : Nat) (c : Ctx) (w : Wid) (addrs : List Addr) (x : ISt) : IEv → Option ISt
  | .rem =>
    if x.fin then none
    else match removeStep limit { c with node := x.node } w addrs x.s with
      | none => none
      | some o => some { x with s := o.s, v := removeMempool x.v o.removedTx, fin := o.finish }
  | .notify n b =>
    if x.fin then none
    else
      let r := processBlock { c with node := n } x.s x.v b
      if r.2.2 then some { x with s := r.1, v := r.2.1, node := n } else none
  | .recv t =>
    if x.fin then none
    else
      let r := recvTx { c with node := x.node } x.s x.v t
      if r.2.2 then some { x with s := r.1, v := r.2.1 } else none
  | .restart v => if x.fin then none else some { x with v := v }

def irun (limit : Nat) (c : Ctx) (w : Wid) (addrs : List Addr) : ISt → List IEv → Option ISt
  | x, [] => some x
  | x, ev :: evs =>
    match istep limit c w addrs x ev with
    | none => none
    | some x' => irun limit c w addrs x' evs

/-- an announced node state: a well-formed valid chain from the genesis block whose blocks are in the (append-only)
    block files, announced by its tip -/
structure NodeOK (own : Own) (G : Block) (known0 : AMap.T BlkId Block) (n : Node) (b : Block) : Prop where
  good : GoodChain n.chain
  valid : ChainValid own n.chain
  genesis : n.chain[0]? = some G
  known : ∀ x ∈ n.chain, AMap.get n.known x.id = some x
  grows : ∀ id x, AMap.get known0 id = some x → AMap.get n.known id = some x
  tip : n.chain.getLast? = some b

def EvOK (own : Own) (G : Block) (known0 : AMap.T BlkId Block) : IEv → Prop
  | .notify n b => NodeOK own G known0 n b
  | _ => True

/-- the node state the follower was last told about -/
def lastNode : Node → List IEv → Node
  | n, [] => n
  | _, .notify n' _ :: evs => lastNode n' evs
  | n, _ :: evs => lastNode n evs

theorem istep_node {limit : Nat} {c : Ctx} {w : Wid} {addrs : List Addr} {x x' : ISt} {ev : IEv}
    (h : istep limit c w addrs x ev = some x') : x'.node = lastNode x.node [ev] := by
  cases ev with
  | rem =>
    simp only [istep] at h
    split at h
    · cases h
    · split at h
      · cases h
      · injection h with h; rw [← h]; rfl
  | notify n b =>
    simp only [istep] at h
    split at h
    · cases h
    · split at h
      · injection h with h; rw [← h]; rfl
      · cases h
  | recv t =>
    simp only [istep] at h
    split at h
    · cases h
    · split at h
      · injection h with h; rw [← h]; rfl
      · cases h
  | restart v =>
    simp only [istep] at h
    split at h
    · cases h
    · injection h with h; rw [← h]; rfl

theorem irun_node {limit : Nat} {c : Ctx} {w : Wid} {addrs : List Addr} :
    ∀ (evs : List IEv) (x x' : ISt), irun limit c w addrs x evs = some x' → x'.node = lastNode x.node evs := by
  intro evs
  induction evs with
  | nil => intro x x' h; simp only [irun] at h; injection h with h; rw [← h]; rfl
  | cons ev evs ih =>
    intro x x' h
    simp only [irun] at h
    cases hs : istep limit c w addrs x ev with
    | none => rw [hs] at h; cases h
    | some x1 =>
      rw [hs] at h
      have h1 := istep_node hs
      have h2 := ih x1 x' h
      rw [h2, h1]
      cases ev <;> rfl

/-- THE FULL STATEMENT (open.  It was FALSE of the model of the unrepaired code: `MW.Lemmas.RemoveMidCex.Unrepaired`;
    since the D45 repair the refuting history ends in the invariant: `MW.Lemmas.RemoveMidCex.interleaved_inv`): from C01's invariant for the
    full keystore table, with `w` flagged and every other keystore's wallet ready, ANY history of removal steps,
    announced node states (extensions and reorganisations), unconfirmed transactions and restarts that ends with the
    finishing step leaves C01's invariant for the table without `w`, on the chain the follower was last told about. -/
def InterleavedProjects : Prop :=
  ∀ (limit : Nat) (c : Ctx) (w : Wid) (addrs : List Addr) (own' : Own) (G : Block) (x0 x : ISt) (evs : List IEv)
    (ws' : List Wid),
    limit > 0 → KeysNodup c.own →
    MW.Lemmas.RemoveInv.RemHyp c w addrs own' c.node.chain → GoodChain c.node.chain → c.node.chain[0]? = some G →
    x0.node = c.node → x0.fin = false → x0.v.best = tipMeta c.node.chain →
    Inv c x0.s c.node.chain → KeysNodup x0.s.credits → KeysNodup x0.s.unspent →
    (∀ e ∈ x0.s.pendCred, e.1.1 ∉ idsOf (occs c.node.chain)) →
    AMap.get x0.s.status w = some ⟨none, true⟩ →
    (∀ a w' ch, AMap.get c.own a = some (w', ch) → w' ≠ w → (readyWallets x0.s c.wallets).contains w' = true) →
    (∀ ev ∈ evs, EvOK c.own G c.node.known ev) →
    (∀ y ∈ ws', y ∈ c.wallets) →
    irun limit c w addrs x0 evs = some x → x.fin = true →
    Inv { c with own := own', wallets := ws', node := x.node } x.s x.node.chain

end MW.Lemmas.RemoveInterleave
