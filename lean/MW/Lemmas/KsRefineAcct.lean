/-
  The symbolic keystore model as an abstraction of the byte level, part 2: the byte-level writer of
  createManagerKeyScope + initAcctBucket / allocAddrMgrNamespace (`initAcctBucketB`, composed from the put* functions of
  db.go) is a list of insertions (`acctWrites`), and on the byte inputs that the symbolic entries `acctEntries …` stand for
  its last writes are the concretisations of the symbolic last writes: SYM_WRITE_REFINES_BYTES for create / import.
-/
import MW.Lemmas.KsRefineBase
namespace MW.KsRefine
open MW MW.Model.Secrets MW.Model.KsCodec MW.Model.KsBytes MW.KsCodecL
open MW.Gen.KsCodec (keystoreVersionName masterPrivKeyName masterPubKeyName cryptoPrivKeyName cryptoPubKeyName
  cryptoEntropyKeyName entropyEncKeyName accountUsageName coinTypeName remarkName externalBranchPubKeyName
  internalBranchPubKeyName externalChildNumName internalChildNumName accountMASS)

-- ------------------------------------------------------------------ bucket functions as insertion lists

def insAll (b : Bucket) (ws : List (Bytes × Bytes)) : Bucket := ws.foldl (fun b x => KV.SMap.insert b x.1 x.2) b

theorem set_set (t : Tree) (p : BPath) (b b' : Bucket) : (t.set p b).set p b' = t.set p b' := by
  funext q; by_cases h : q = p <;> simp [Tree.set, h]

theorem set_self (t : Tree) (p : BPath) : t.set p (t p) = t := by
  funext q; by_cases h : q = p <;> simp [Tree.set, h]

theorem seqE_ok (t : Tree) (f : Tree → Except Err Tree) : seqE (.ok t) f = f t := rfl

theorem tinsAll_path (p : BPath) (ws : List (Bytes × Bytes)) : ∀ t : Tree,
    tinsAll t (ws.map (fun x => ((p, x.1), x.2))) = t.set p (insAll (t p) ws) := by
  induction ws with
  | nil => intro t; simp [tinsAll, insAll, set_self]
  | cons x xs ih =>
    intro t
    have := ih (tins t (p, x.1) x.2)
    simp only [tinsAll, List.map_cons, List.foldl_cons, insAll] at this ⊢
    rw [this]
    simp [tins, set_same, set_set]

/-- a db.go function that amounts to the insertions `ws`, run on bucket `p` of the tree -/
theorem onB_isPuts (t : Tree) (p : BPath) (f : Bucket → Except Err Bucket) (ws : List (Bytes × Bytes))
    (hf : ∀ b, f b = .ok (insAll b ws)) : onB t p f = .ok (tinsAll t (ws.map (fun x => ((p, x.1), x.2)))) := by
  simp [onB, hf, tinsAll_path, Except.map]

theorem putPubKeys_isPuts (br : Nat) (enc : Nat → Bytes) (henc : ∀ j, enc j ≠ []) (is : List Nat) : ∀ b : Bucket,
    putPubKeys br enc is b = .ok (insAll b (is.map (fun j => (pubKeyKey br j, enc j)))) := by
  induction is with
  | nil => intro b; rfl
  | cons j is ih =>
    intro b
    have hk : pubKeyKey br j ≠ [] := by
      intro e; have := pubKeyKey_length br j; rw [e] at this; simp at this
    simp only [putPubKeys, putEncryptedPubKey, bput_ok b hk (henc j), ih, List.map_cons, insAll, List.foldl_cons]

-- ------------------------------------------------------------------ the write list of initAcctBucketB

def pkWrites (id : Bytes) (br : Nat) (enc : Nat → Bytes) (n : Nat) : List ((BPath × Bytes) × Bytes) :=
  (List.range n).map (fun j => ((BPath.pub id, pubKeyKey br j), enc j))

def branchWrites (id : Bytes) (internal : Bool) (n : Nat) (enc : Nat → Bytes) : List ((BPath × Bytes) × Bytes) :=
  if n = 0 then []
  else ((BPath.acct id, key (childNumName internal)), u32Bytes n) ::
    pkWrites id (if internal then MW.Gen.Keystore.internalBranch else MW.Gen.Keystore.externalBranch) enc n

def scopeWrites (i : AcctIn) : List ((BPath × Bytes) × Bytes) :=
  [ ((.aid, i.id), [0]),
    ((.acct i.id, key coinTypeName), u32Bytes i.coin),
    ((.acct i.id, key accountUsageName), u32Bytes i.account),
    ((.acct i.id, u32Bytes i.account), acctRow i.acctPubEnc i.acctPrivEnc),
    ((.acct i.id, key externalBranchPubKeyName), i.exbEnc),
    ((.acct i.id, key internalBranchPubKeyName), i.inbEnc),
    ((.acct i.id, key externalChildNumName), u32Bytes 0),
    ((.acct i.id, key internalChildNumName), u32Bytes 0) ]
  ++ branchWrites i.id true i.nInt i.pkInt ++ branchWrites i.id false i.nExt i.pkExt

def tailWrites (i : AcctIn) : List ((BPath × Bytes) × Bytes) :=
  [ ((.acct i.id, key keystoreVersionName), [UInt8.ofNat (i.version % 256)]) ]
  ++ (if i.remark.isEmpty then [] else [((BPath.acct i.id, key remarkName), i.remark)])
  ++ [ ((.acct i.id, key masterPrivKeyName), i.privParams),
       ((.acct i.id, key masterPubKeyName), i.pubParams),
       ((.acct i.id, key entropyEncKeyName), i.entropyEnc),
       ((.acct i.id, key cryptoPubKeyName), i.cPubEnc),
       ((.acct i.id, key cryptoPrivKeyName), i.cPrivEnc),
       ((.acct i.id, key cryptoEntropyKeyName), i.cEntEnc) ]

def acctWrites (i : AcctIn) : List ((BPath × Bytes) × Bytes) := scopeWrites i ++ tailWrites i

/-- the inputs a bucket accepts: nothing empty, the account record within uint32 -/
structure InOk (i : AcctIn) : Prop where
  id : i.id ≠ []
  row : 8 + i.acctPubEnc.length + i.acctPrivEnc.length < 4294967296
  inb : i.inbEnc ≠ []
  exb : i.exbEnc ≠ []
  pkInt : ∀ j, i.pkInt j ≠ []
  pkExt : ∀ j, i.pkExt j ≠ []
  pubParams : i.pubParams ≠ []
  privParams : i.privParams ≠ []
  ent : i.entropyEnc ≠ []
  cPub : i.cPubEnc ≠ []
  cPriv : i.cPrivEnc ≠ []
  cEnt : i.cEntEnc ≠ []

theorem scopeBranchB_eq (t : Tree) (id : Bytes) (internal : Bool) (n : Nat) (enc : Nat → Bytes) (henc : ∀ j, enc j ≠ []) :
    scopeBranchB t id internal n enc = .ok (tinsAll t (branchWrites id internal n enc)) := by
  unfold scopeBranchB branchWrites
  by_cases hn : n = 0
  · simp [hn, tinsAll]
  · simp only [hn, if_false]
    have e1 : ∀ t : Tree, onB t (.acct id) (fun b => updateChildNum b internal n) =
        .ok (tinsAll t [((.acct id, key (childNumName internal)), u32Bytes n)]) := fun t =>
      onB_isPuts t _ _ [(key (childNumName internal), u32Bytes n)] (fun b => by
        simp only [updateChildNum, putU32, bput_ok b (childNumName_ne_nil internal) (u32Bytes_ne_nil n), insAll, List.foldl_cons,
          List.foldl_nil])
    have e2 : ∀ (t : Tree) (br : Nat), onB t (.pub id) (putPubKeys br enc (List.range n)) = .ok (tinsAll t (pkWrites id br enc n)) :=
      fun t br => by
        rw [onB_isPuts t _ _ _ (putPubKeys_isPuts br enc henc (List.range n))]
        simp [pkWrites, List.map_map, Function.comp_def]
    rw [e1, seqE_ok, e2]
    simp [tinsAll]

/-- the byte-level writer IS its write list (when the bucket accepts every value and the seed is new) -/
theorem initAcctBucketB_eq (t : Tree) (i : AcctIn) (h : InOk i) (hnew : bget (t .aid) i.id = none) :
    initAcctBucketB t i = .ok (tinsAll t (acctWrites i)) := by
  obtain ⟨raw, hs, _, hraw⟩ := deserialize_serializeHDAccountKey i.acctPubEnc i.acctPrivEnc h.row
  have hrow : serializeAccountRow accountMASS raw ≠ [] := by rw [serializeAccountRow_eq]; simp
  have e1 : ∀ t : Tree, onB t .aid (fun b => putAccountID b i.id) = .ok (tinsAll t [((.aid, i.id), [0])]) := fun t =>
    onB_isPuts t _ _ [(i.id, [0])] (fun b => by simp [putAccountID, bput_ok b h.id (show ([0] : Bytes) ≠ [] by decide), insAll])
  have e2 : ∀ t : Tree, onB t (.acct i.id) (fun b => putCoinType b i.coin) =
      .ok (tinsAll t [((.acct i.id, key coinTypeName), u32Bytes i.coin)]) := fun t =>
    onB_isPuts t _ _ [(key coinTypeName, u32Bytes i.coin)] (fun b => by
      simp [putCoinType, putU32, bput_ok b (show key coinTypeName ≠ [] by decide) (u32Bytes_ne_nil _), insAll])
  have e3 : ∀ t : Tree, onB t (.acct i.id) (fun b => putAccountInfo b i.account i.acctPubEnc i.acctPrivEnc) =
      .ok (tinsAll t [((.acct i.id, key accountUsageName), u32Bytes i.account),
                      ((.acct i.id, u32Bytes i.account), acctRow i.acctPubEnc i.acctPrivEnc)]) := fun t =>
    onB_isPuts t _ _ [(key accountUsageName, u32Bytes i.account), (u32Bytes i.account, acctRow i.acctPubEnc i.acctPrivEnc)]
      (fun b => by
        have h1 := putU32_ok b accountUsageName (by decide) i.account
        have h2 := bput_ok (KV.SMap.insert b (key accountUsageName) (u32Bytes i.account)) (u32Bytes_ne_nil i.account) hrow
        simp only [putAccountInfo, hs, putAccountUsage, h1, putAccountRow, h2, bind, Except.bind, acctRow, insAll, List.foldl_cons,
          List.foldl_nil])
  have e4 : ∀ t : Tree, onB t (.acct i.id) (fun b => putBranchPubKeys b i.inbEnc i.exbEnc) =
      .ok (tinsAll t [((.acct i.id, key externalBranchPubKeyName), i.exbEnc),
                      ((.acct i.id, key internalBranchPubKeyName), i.inbEnc)]) := fun t =>
    onB_isPuts t _ _ [(key externalBranchPubKeyName, i.exbEnc), (key internalBranchPubKeyName, i.inbEnc)] (fun b => by
      have h1 := bput_ok b (show key externalBranchPubKeyName ≠ [] by decide) h.exb
      have h2 := bput_ok (KV.SMap.insert b (key externalBranchPubKeyName) i.exbEnc)
        (show key internalBranchPubKeyName ≠ [] by decide) h.inb
      simp only [putBranchPubKeys, h1, h2, bind, Except.bind, insAll, List.foldl_cons, List.foldl_nil])
  have e5 : ∀ t : Tree, onB t (.acct i.id) initBranchChildNum =
      .ok (tinsAll t [((.acct i.id, key externalChildNumName), u32Bytes 0),
                      ((.acct i.id, key internalChildNumName), u32Bytes 0)]) := fun t =>
    onB_isPuts t _ _ [(key externalChildNumName, u32Bytes 0), (key internalChildNumName, u32Bytes 0)] (fun b => by
      have h1 := putU32_ok b externalChildNumName (by decide) 0
      have h2 := putU32_ok (KV.SMap.insert b (key externalChildNumName) (u32Bytes 0)) internalChildNumName (by decide) 0
      simp only [initBranchChildNum, h1, h2, bind, Except.bind, insAll, List.foldl_cons, List.foldl_nil])
  have e6 : ∀ t : Tree, onB t (.acct i.id) (fun b => putVersion b i.version) =
      .ok (tinsAll t [((.acct i.id, key keystoreVersionName), [UInt8.ofNat (i.version % 256)])]) := fun t =>
    onB_isPuts t _ _ [(key keystoreVersionName, [UInt8.ofNat (i.version % 256)])] (fun b => by
      have hv : (encodeItems MW.Gen.KsCodec.putVersion.items [.n i.version]).getD [] = [UInt8.ofNat (i.version % 256)] := by
        simp [MW.Gen.KsCodec.putVersion, encodeItems, encodeItem]
      simp only [putVersion, hv, bput_ok b (show key keystoreVersionName ≠ [] by decide)
        (show [UInt8.ofNat (i.version % 256)] ≠ [] by simp), insAll, List.foldl_cons, List.foldl_nil])
  have e7 : ∀ t : Tree, (if i.remark.isEmpty then Except.ok t else onB t (.acct i.id) (fun b => putRemark b i.remark)) =
      .ok (tinsAll t (if i.remark.isEmpty then [] else [((BPath.acct i.id, key remarkName), i.remark)])) := fun t => by
    by_cases hr : i.remark.isEmpty
    · simp [hr, tinsAll]
    · have hne : i.remark ≠ [] := by intro e; simp [e] at hr
      have := onB_isPuts t (.acct i.id) (fun b => putRemark b i.remark) [(key remarkName, i.remark)] (fun b => by
        simp [putRemark, bput_ok b (show key remarkName ≠ [] by decide) hne, insAll])
      simpa [hr] using this
  have e8 : ∀ t : Tree, onB t (.acct i.id) (fun b => putMasterKeyParams b (some i.pubParams) (some i.privParams)) =
      .ok (tinsAll t [((.acct i.id, key masterPrivKeyName), i.privParams), ((.acct i.id, key masterPubKeyName), i.pubParams)]) :=
    fun t => onB_isPuts t _ _ [(key masterPrivKeyName, i.privParams), (key masterPubKeyName, i.pubParams)] (fun b => by
      have h1 := bput_ok b (k := key masterPrivKeyName) (by decide) h.privParams
      have h2 := bput_ok (KV.SMap.insert b (key masterPrivKeyName) i.privParams) (k := key masterPubKeyName) (by decide) h.pubParams
      simp only [putMasterKeyParams, putOpt_some, h1, bind, Except.bind, h2, insAll, List.foldl_cons, List.foldl_nil])
  have e9 : ∀ t : Tree, onB t (.acct i.id) (fun b => putEntropy b i.entropyEnc) =
      .ok (tinsAll t [((.acct i.id, key entropyEncKeyName), i.entropyEnc)]) := fun t =>
    onB_isPuts t _ _ [(key entropyEncKeyName, i.entropyEnc)] (fun b => by
      simp [putEntropy, bput_ok b (show key entropyEncKeyName ≠ [] by decide) h.ent, insAll])
  have e10 : ∀ t : Tree, onB t (.acct i.id) (fun b => putCryptoKeys b (some i.cPubEnc) (some i.cPrivEnc) (some i.cEntEnc)) =
      .ok (tinsAll t [((.acct i.id, key cryptoPubKeyName), i.cPubEnc), ((.acct i.id, key cryptoPrivKeyName), i.cPrivEnc),
                      ((.acct i.id, key cryptoEntropyKeyName), i.cEntEnc)]) := fun t =>
    onB_isPuts t _ _ [(key cryptoPubKeyName, i.cPubEnc), (key cryptoPrivKeyName, i.cPrivEnc), (key cryptoEntropyKeyName, i.cEntEnc)]
      (fun b => by
        have h1 := bput_ok b (k := key cryptoPubKeyName) (by decide) h.cPub
        have h2 := bput_ok (KV.SMap.insert b (key cryptoPubKeyName) i.cPubEnc) (k := key cryptoPrivKeyName) (by decide) h.cPriv
        have h3 := bput_ok (KV.SMap.insert (KV.SMap.insert b (key cryptoPubKeyName) i.cPubEnc) (key cryptoPrivKeyName) i.cPrivEnc)
          (k := key cryptoEntropyKeyName) (by decide) h.cEnt
        simp only [putCryptoKeys, putOpt_some, h1, h2, bind, Except.bind, h3, insAll, List.foldl_cons, List.foldl_nil])
  have eb1 := fun t : Tree => scopeBranchB_eq t i.id true i.nInt i.pkInt h.pkInt
  have eb2 := fun t : Tree => scopeBranchB_eq t i.id false i.nExt i.pkExt h.pkExt
  simp only [initAcctBucketB, createScopeB, hnew, Option.isSome_none, Bool.false_eq_true, if_false, e1, e2, e3, e4, e5, e6, e7, e8,
    e9, e10, eb1, eb2, seqE_ok, ← tinsAll_append]
  simp [acctWrites, scopeWrites, tailWrites]

end MW.KsRefine
