/-
  The symbolic keystore model as an abstraction of the byte level, part 11: the NAMING invariant of the symbolic model –
  an account id is recorded only for a managed keystore, a managed keystore's name has been bound, an exported file names
  a bound wallet – and with it TOTAL correctness of the byte-level machine: on every history (restore hints within
  uint32, account records within uint32) every byte-level writer succeeds.
-/
import MW.Lemmas.KsRefineRun
namespace MW.KsRefine
open MW MW.Model.Secrets MW.Model.KsCodec MW.Model.KsBytes MW.KsCodecL MW.Lemmas.SecretsInv MW.Lemmas.SecretsDB

def Nm (st : St) : Prop :=
  (∀ w, (AMap.get st.db (w, .aid)).isSome → (AMap.get st.wal w).isSome) ∧
  (∀ w, (AMap.get st.wal w).isSome → (AMap.get st.idents w).isSome) ∧
  (∀ e ∈ st.exports, (AMap.get st.idents e.2.wallet).isSome)

theorem isSome_put {K V : Type} [DecidableEq K] (m : AMap.T K V) (k k' : K) (v : V) :
    (AMap.get (AMap.put m k v) k').isSome = true ↔ k = k' ∨ (AMap.get m k').isSome = true := by
  rw [AMap.get_put]
  by_cases h : k = k' <;> simp [h]

/-- writes into bucket `w` create account ids for `w` at most -/
theorem aid_putAll {w : String} (es : List (Key × Term)) (db : DB) (hes : ∀ e ∈ es, e.1.1 = w) (w' : String)
    (h : (AMap.get (putAll db es) (w', .aid)).isSome) : w' = w ∨ (AMap.get db (w', .aid)).isSome := by
  by_cases hw : w' = w
  · exact Or.inl hw
  · right
    rwa [get_putAll_of_ne es db (fun e he heq => hw (by rw [← hes e he, heq]))] at h

/-- writes that touch no account id -/
theorem aid_putAll_none (es : List (Key × Term)) (db : DB) (hes : ∀ e ∈ es, e.1.2 ≠ .aid) (w' : String) :
    AMap.get (putAll db es) (w', .aid) = AMap.get db (w', .aid) :=
  get_putAll_of_ne es db (fun e he heq => hes e he (by rw [heq]))

theorem sameRecs_isSome {wal wal' : AMap.T String (WRec × AM)} (h : SameRecs wal wal') (w : String) :
    (AMap.get wal' w).isSome = (AMap.get wal w).isSome := by
  have := h w
  cases h1 : AMap.get wal' w <;> cases h2 : AMap.get wal w <;> simp_all

theorem nm_quiet {st st' : St} (h : Nm st) (q : Quiet st st') (hid : st'.idents = st.idents) (hex : st'.exports = st.exports) : Nm st' := by
  refine ⟨fun w hw => ?_, fun w hw => ?_, fun e he => ?_⟩
  · rw [q.1] at hw; rw [sameRecs_isSome q.2]; exact h.1 w hw
  · rw [sameRecs_isSome q.2] at hw; rw [hid]; exact h.2.1 w hw
  · rw [hex] at he; rw [hid]; exact h.2.2 e he

/-- the install case: account id and record for `w`, name possibly bound now -/
theorem nm_install {st st' : St} (h : Nm st) (w : String) (es : List (Key × Term)) (ra : WRec × AM)
    (hes : ∀ e ∈ es, e.1.1 = w) (hdb : st'.db = putAll st.db es) (hwal : st'.wal = AMap.put st.wal w ra)
    (hid : st'.idents = st.idents ∨ ∃ v, st'.idents = AMap.put st.idents w v) (hw : (AMap.get st'.idents w).isSome)
    (hex : st'.exports = st.exports) : Nm st' := by
  have hmono : ∀ w', (AMap.get st.idents w').isSome → (AMap.get st'.idents w').isSome := by
    intro w' h'
    rcases hid with e | ⟨v, e⟩
    · rw [e]; exact h'
    · rw [e, isSome_put]; exact Or.inr h'
  refine ⟨fun w' hw' => ?_, fun w' hw' => ?_, fun e he => ?_⟩
  · rw [hwal, isSome_put]
    rw [hdb] at hw'
    rcases aid_putAll es st.db hes w' hw' with e | h'
    · exact Or.inl e.symm
    · exact Or.inr (h.1 w' h')
  · rw [hwal, isSome_put] at hw'
    rcases hw' with e | h'
    · rw [← e]; exact hw
    · exact hmono w' (h.2.1 w' h')
  · rw [hex] at he; exact hmono _ (h.2.2 e he)

theorem create_nm {st : St} (h : Nm st) (w : String) (p : Pass) (b : Nat) : Nm (create st w p b).1 := by
  unfold create
  split
  · exact h
  · split; · exact h
    split; · exact h
    split; · exact h
    split; · exact h
    split; · exact h
    exact nm_install h w _ _ (acctEntries_wallet _ _ _ _ _ _ _ _ _ _ _ _) rfl rfl (Or.inr ⟨_, rfl⟩)
      (by simp [AMap.get_put]) rfl

theorem newAddr_nm {st : St} (h : Nm st) (w : String) : Nm (newAddr st w).1 := by
  unfold newAddr
  split
  · exact h
  · rename_i r a hw
    split
    · exact h
    · refine ⟨fun w' hw' => ?_, fun w' hw' => ?_, h.2.2⟩
      · simp only [isSome_put]
        right
        apply h.1 w'
        simp only [AMap.get_put] at hw'
        simpa using hw'
      · simp only [isSome_put] at hw'
        rcases hw' with e | h'
        · subst e; exact h.2.1 _ (by rw [hw]; rfl)
        · exact h.2.1 w' h'

theorem exportKS_nm {st : St} (h : Nm st) (w : String) (p : Pass) (k : String) : Nm (exportKS st w p k).1 := by
  unfold exportKS
  split
  · exact h
  · rename_i r a hw
    split
    · exact h
    · rename_i a' _
      have hq : Quiet st (setAM st w r a') := quiet_setAM hw
      have hn := nm_quiet h hq rfl rfl
      refine ⟨hn.1, hn.2.1, ?_⟩
      intro e he
      rcases mem_put he with rfl | he
      · exact h.2.1 w (by rw [hw]; rfl)
      · exact h.2.2 e he

theorem mnemonic_nm {st : St} (h : Nm st) (w : String) (p : Pass) : Nm (mnemonic st w p).1 :=
  nm_quiet h (mnemonic_quiet st w p)
    (by unfold mnemonic; split; · rfl
        split; · rfl
        dsimp only; split <;> rfl)
    (by unfold mnemonic; split; · rfl
        split; · rfl
        dsimp only; split <;> rfl)

theorem remove_nm {st : St} (h : Nm st) (w : String) (p : Pass) : Nm (remove st w p).1 := by
  unfold remove
  split
  · exact h
  · split
    · exact h
    · refine ⟨fun w' hw' => ?_, fun w' hw' => ?_, h.2.2⟩
      · simp only at hw' ⊢
        by_cases e : w' = w
        · subst e; rw [get_eraseWallet_same] at hw'; cases hw'
        · rw [get_eraseWallet_other st.db e] at hw'
          have : ¬ w = w' := fun x => e x.symm
          simp only [AMap.get_erase, this, if_false]
          exact h.1 w' hw'
      · simp only [AMap.get_erase] at hw'
        split at hw'
        · cases hw'
        · exact h.2.1 w' hw'

theorem importKS_nm {st : St} (h : Nm st) (k : String) (p : Pass) : Nm (importKS st k p).1 := by
  unfold importKS
  split
  · exact h
  · rename_i x hx
    split
    · exact h
    · split
      · split; · exact h
        split; · exact h
        exact nm_install h x.wallet _ _ (acctEntries_wallet _ _ _ _ _ _ _ _ _ _ _ _) rfl rfl (Or.inl rfl)
          (h.2.2 (k, x) (get_mem hx)) rfl
      · exact h

theorem importMn_nm {st : St} (h : Nm st) (w : String) (p : Pass) (src : String) (e i : Nat) : Nm (importMn st w p src e i).1 := by
  unfold importMn
  split
  · exact h
  · dsimp only
    generalize identName st _ p w = name
    split; · exact h
    split; · exact h
    split; · exact h
    exact nm_install h name _ _ (acctEntries_wallet _ _ _ _ _ _ _ _ _ _ _ _) rfl rfl (Or.inr ⟨_, rfl⟩)
      (by simp [AMap.get_put]) rfl

theorem chpub_nm {st : St} (h : Nm st) (o n : Pass) : Nm (chpub st o n).1 := by
  by_cases hok : (chpub st o n).2 = .ok
  · have hid : (chpub st o n).1.idents = st.idents ∧ (chpub st o n).1.exports = st.exports := by
      unfold chpub; split; · exact ⟨rfl, rfl⟩
      split; · exact ⟨rfl, rfl⟩
      split <;> exact ⟨rfl, rfl⟩
    refine ⟨fun w hw => ?_, fun w hw => ?_, fun e he => ?_⟩
    · rw [chpub_wal]
      apply h.1 w
      rw [chpub_ok_db hok, aid_putAll_none] at hw
      · exact hw
      · intro e he
        simp only [List.mem_flatMap, chpubEntries, List.mem_cons, List.not_mem_nil, or_false] at he
        obtain ⟨s, _, rfl | rfl⟩ := he <;> simp
    · rw [chpub_wal] at hw; rw [hid.1]; exact h.2.1 w hw
    · rw [hid.2] at he; rw [hid.1]; exact h.2.2 e he
  · exact nm_quiet h ⟨chpub_fail_db hok, by rw [chpub_wal]; exact sameRecs_refl _⟩
      (by unfold chpub; split; · rfl
          split; · rfl
          split <;> rfl)
      (by unfold chpub; split; · rfl
          split; · rfl
          split <;> rfl)

theorem chpriv_nm {st : St} (h : Nm st) (w : String) (o n : Pass) : Nm (chpriv st w o n).1 :=
  nm_quiet h (chpriv_quiet st w o n)
    (by unfold chpriv; split; · rfl
        split; · rfl
        split; · rfl
        split; · rfl
        split <;> rfl)
    (by unfold chpriv; split; · rfl
        split; · rfl
        split; · rfl
        split; · rfl
        split <;> rfl)

theorem signHash_nm {st : St} (h : Nm st) (w : String) (b i : Nat) (p : Pass) : Nm (signHash st w b i p).1 :=
  nm_quiet h (signHash_quiet st w b i p)
    (by unfold signHash; split; · rfl
        dsimp only; split <;> rfl)
    (by unfold signHash; split; · rfl
        dsimp only; split <;> rfl)

theorem ksSign_nm {st : St} (h : Nm st) (w : String) (b i : Nat) (p : Pass) : Nm (ksSign st w b i p).1 :=
  nm_quiet h (ksSign_quiet st w b i p)
    (by unfold ksSign; split; · rfl
        split
        · split <;> rfl
        · rfl)
    (by unfold ksSign; split; · rfl
        split
        · split <;> rfl
        · rfl)

theorem restart_nm {st : St} (h : Nm st) (p : Pass) : Nm (restart st p).1 :=
  nm_quiet h (restart_quiet st p)
    (by unfold restart; dsimp only; split; · rfl
        split <;> rfl)
    (by unfold restart; dsimp only; split; · rfl
        split <;> rfl)

theorem step_nm {st : St} (h : Nm st) (op : Op) : Nm (step st op).1 := by
  cases op with
  | create w p b => exact create_nm h w p b
  | newAddr w => exact newAddr_nm h w
  | exportKS w p k => exact exportKS_nm h w p k
  | importKS k p => exact importKS_nm h k p
  | importMn w p s e i => exact importMn_nm h w p s e i
  | mnemonic w p => exact mnemonic_nm h w p
  | remove w p => exact remove_nm h w p
  | chpub o n => exact chpub_nm h o n
  | chpriv w o n => exact chpriv_nm h w o n
  | signHash w b i p => exact signHash_nm h w b i p
  | ksSign w b i p => exact ksSign_nm h w b i p
  | ksClear => exact nm_quiet h (quiet_clear st) rfl rfl
  | restart p => exact restart_nm h p

theorem init_nm : Nm ({} : St) := ⟨fun w hw => by simp [AMap.get] at hw, fun w hw => by simp [AMap.get] at hw, fun e he => by simp at he⟩

end MW.KsRefine
