/-
  C19: GHOST STATE for contracts that relate two calls of one run.

  A contract such as ExistsUtxo's `oerr == nil → vout < len(prevTx.TxOut)` is not a fact about ONE answer of the
  oracle: the length was read by an earlier call. What connects the two calls is a RUN INVARIANT `G` on skeleton
  states. `run_carries` (every table, oracle, budget): if
    * `G` reads only the ghost variables `gv` (`Ghost.frame`),
    * every statement reachable from the start keeps `gv` intact except through the call nodes listed in `L`
      (`frameOK`, a syntactic check evaluated by the kernel), and
    * the oracle's answer at each node of `L` re-establishes `G` (`Ghost.calls`),
  then a run that starts in a `G`-state ends in a `G`-state, and if it ends in `Fault.contract g` it passed a call node
  of `g` in a state that SATISFIES `G` and whose answer broke the contract. So a contract that holds in all
  `G`-states is never broken (`no_contract_fault_G`).
  Core Lean only.
-/
import MW.Lemmas.ApiContracts
namespace MW.Lemmas.ApiGhost
open MW.Model.Api MW.Lemmas.ApiContracts

/-- does the statement keep the variables `gv` intact except through the call nodes of `L`, invoking only positions of `R`? -/
def frameOK (gv : List Var) (L : List CallNode) (R : List Nat) : Stmt → Bool
  | .skip => true
  | .seq a b => frameOK gv L R a && frameOK gv L R b
  | .site _ _ _ => true
  | .call f o e => o.all (fun x => !gv.contains x) || L.contains (f, o, e)
  | .set x _ => !gv.contains x
  | .ite _ t e => frameOK gv L R t && frameOK gv L R e
  | .loop i _ _ b => !gv.contains i && frameOK gv L R b
  | .iter i _ _ b => !gv.contains i && frameOK gv L R b
  | .invoke f => R.contains f
  | .scope b => frameOK gv L R b
  | .ret => true

/-- `G` is a ghost invariant of the oracle: it reads `gv` only, and the calls of `L` re-establish it -/
structure Ghost (O : Oracle) (G : State → Prop) (gv : List Var) (L : List CallNode) : Prop where
  frame : ∀ σ τ : State, (∀ x ∈ gv, σ x = τ x) → G σ → G τ
  calls : ∀ c ∈ L, ∀ σ, G σ → G (setMany σ c.2.1 (O c.1 σ))

def flowState : Flow → State
  | .norm σ => σ
  | .retd σ => σ

/-- what a run from a `G`-state ends in -/
def Good (P : Prog) (O : Oracle) (G : State → Prop) (s : Stmt) : Except Fault Flow → Prop
  | .ok fl => G (flowState fl)
  | .error (.contract g) => ∃ c, Occurs P s c ∧ c.1 = g ∧ ∃ τ, G τ ∧ ¬ HoldsAt O c τ
  | .error _ => True

theorem Good.mono {P : Prog} {O : Oracle} {G : State → Prop} {s t : Stmt}
    (hc : ∀ c, c ∈ callsOf s → c ∈ callsOf t) {r : Except Fault Flow} (h : Good P O G s r) : Good P O G t r := by
  cases r with
  | ok fl => exact h
  | error e =>
    cases e with
    | contract g =>
      obtain ⟨c, hoc, hg, hτ⟩ := h
      exact ⟨c, hoc.elim (fun h => Or.inl (hc c h)) Or.inr, hg, hτ⟩
    | panic k t => trivial
    | fuel => trivial
    | unknownFn f => trivial

theorem Good.ofBody {P : Prog} {O : Oracle} {G : State → Prop} {s body : Stmt} {f : Nat} (hf : P f = some body)
    {r : Except Fault Flow} (h : Good P O G body r) : Good P O G s r := by
  cases r with
  | ok fl => exact h
  | error e =>
    cases e with
    | contract g =>
      obtain ⟨c, hoc, hg, hτ⟩ := h
      exact ⟨c, Or.inr (hoc.elim (fun h => ⟨f, body, hf, h⟩) id), hg, hτ⟩
    | panic k t => trivial
    | fuel => trivial
    | unknownFn f => trivial

/-- leaving a function / a scope: a return becomes a normal end, the state is the same -/
def unret : Except Fault Flow → Except Fault Flow
  | .ok (.retd σ) => .ok (.norm σ)
  | r => r

theorem Good.unret {P : Prog} {O : Oracle} {G : State → Prop} {s : Stmt} {r : Except Fault Flow}
    (h : Good P O G s r) : Good P O G s (unret r) := by
  cases r with
  | ok fl => cases fl <;> exact h
  | error e => exact h

theorem set_frame {G : State → Prop} {gv : List Var} (hf : ∀ σ τ : State, (∀ x ∈ gv, σ x = τ x) → G σ → G τ)
    {x : Var} (hx : gv.contains x = false) (σ : State) (v : Nat) (h : G σ) : G (σ.set x v) := by
  refine hf σ _ (fun y hy => ?_) h
  have : y ≠ x := by
    rintro rfl
    have := List.contains_iff_mem.2 hy
    rw [hx] at this; cases this
  simp [State.set, this]

theorem setMany_frame {G : State → Prop} {gv : List Var} (hf : ∀ σ τ : State, (∀ x ∈ gv, σ x = τ x) → G σ → G τ)
    {outs : List Var} (ho : outs.all (fun x => !gv.contains x) = true) (σ : State) (ans : List Nat) (h : G σ) :
    G (setMany σ outs ans) := by
  refine hf σ _ (fun y hy => ?_) h
  rw [setMany_other y outs σ ans]
  intro hm
  have := List.all_eq_true.1 ho y hm
  simp at this
  exact this hy

/-- THE GHOST THEOREM: the invariant is carried by `run`, and a broken contract is broken in a `G`-state -/
theorem run_carries {P : Prog} {O : Oracle} {G : State → Prop} {gv : List Var} {L : List CallNode} {R : List Nat}
    (hG : Ghost O G gv L) (hP : ∀ f, R.contains f = true → ∀ body, P f = some body → frameOK gv L R body = true) :
    ∀ (n : Nat) (s : Stmt) (σ : State), frameOK gv L R s = true → G σ → Good P O G s (run P O n s σ) := by
  intro n
  induction n with
  | zero => intro s σ _ _; simp only [run]; trivial
  | succ n ih =>
    intro s σ hs h0
    cases s with
    | skip => simpa [run, Good, flowState] using h0
    | ret => simpa [run, Good, flowState] using h0
    | set x a =>
      simp only [frameOK, Bool.not_eq_true'] at hs
      simp only [run, Good, flowState]
      exact set_frame hG.frame hs σ _ h0
    | site k t req =>
      cases req with
      | none => simpa [run, Good, flowState] using h0
      | some a =>
        simp only [run]
        split
        · exact h0
        · trivial
    | call f outs ens =>
      simp only [run]
      split
      · simp only [Good, flowState]
        simp only [frameOK, Bool.or_eq_true] at hs
        rcases hs with ho | hl
        · exact setMany_frame hG.frame ho σ _ h0
        · exact hG.calls (f, outs, ens) (List.contains_iff_mem.1 hl) σ h0
      · rename_i hc
        exact ⟨(f, outs, ens), Or.inl (by simp [callsOf]), rfl, σ, h0, hc⟩
    | seq a b =>
      simp only [frameOK, Bool.and_eq_true] at hs
      have ha := ih a σ hs.1 h0
      simp only [run]
      split
      · rename_i σ' hr
        rw [hr] at ha
        exact (ih b σ' hs.2 ha).mono (fun c hc => by simp [callsOf, hc])
      · rename_i r hne
        exact ha.mono (fun c hc => by simp [callsOf, hc])
    | ite c t el =>
      simp only [frameOK, Bool.and_eq_true] at hs
      simp only [run]
      split
      · exact (ih t σ hs.1 h0).mono (fun c hc => by simp [callsOf, hc])
      · exact (ih el σ hs.2 h0).mono (fun c hc => by simp [callsOf, hc])
    | loop i cnt inv body =>
      simp only [run]
      exact (ih (.iter i cnt 0 body) σ (by simpa [frameOK] using hs) h0).mono (fun c hc => by simpa [callsOf] using hc)
    | iter i cnt k body =>
      have hs' := hs
      simp only [frameOK, Bool.and_eq_true, Bool.not_eq_true'] at hs
      simp only [run]
      split
      · have hb := ih body (σ.set i k) hs.2 (set_frame hG.frame hs.1 σ k h0)
        split
        · rename_i σ' hr
          rw [hr] at hb
          exact (ih (.iter i cnt (k + 1) body) σ' hs' hb).mono (fun c hc => by simpa [callsOf] using hc)
        · exact hb.mono (fun c hc => by simpa [callsOf] using hc)
      · exact h0
    | invoke f =>
      simp only [frameOK] at hs
      simp only [run]
      split
      · trivial
      · rename_i body hb
        have := (ih body σ (hP f hs body hb) h0).unret
        have h2 : Good P O G (.invoke f) (unret (run P O n body σ)) := Good.ofBody hb this
        unfold unret at h2
        split at h2 <;> simp_all
    | scope body =>
      simp only [frameOK] at hs
      simp only [run]
      have := ((ih body σ hs h0).unret).mono (t := .scope body) (fun c hc => by simpa [callsOf] using hc)
      unfold unret at this
      split at this <;> simp_all

/-- a contract of callee `g` that holds in every `G`-state is never broken by a run that starts in a `G`-state -/
theorem no_contract_fault_G {P : Prog} {O : Oracle} {G : State → Prop} {gv : List Var} {L : List CallNode} {R : List Nat}
    (hG : Ghost O G gv L) (hP : ∀ f, R.contains f = true → ∀ body, P f = some body → frameOK gv L R body = true)
    (s : Stmt) (hs : frameOK gv L R s = true) (g : String)
    (h : ∀ c, Occurs P s c → c.1 = g → ∀ τ, G τ → HoldsAt O c τ) (n : Nat) (σ : State) (h0 : G σ) :
    run P O n s σ ≠ .error (.contract g) := by
  intro hr
  have := run_carries hG hP n s σ hs h0
  rw [hr] at this
  obtain ⟨c, hoc, hg, τ, hGτ, hτ⟩ := this
  exact hτ (h c hoc hg τ hGτ)

/-- the invariant at the end of a run -/
theorem run_keeps {P : Prog} {O : Oracle} {G : State → Prop} {gv : List Var} {L : List CallNode} {R : List Nat}
    (hG : Ghost O G gv L) (hP : ∀ f, R.contains f = true → ∀ body, P f = some body → frameOK gv L R body = true)
    (s : Stmt) (hs : frameOK gv L R s = true) (n : Nat) (σ : State) (h0 : G σ) (fl : Flow)
    (hr : run P O n s σ = .ok fl) : G (flowState fl) := by
  have := run_carries hG hP n s σ hs h0
  rw [hr] at this
  exact this

end MW.Lemmas.ApiGhost
