/-
  WHAT THE TABLES OF THE BOOKS CONTAIN, in terms of the chain — part 3: block records and tx records.

  `touchIds p own B ocs` = the ids of the transactions of `ocs` that touch the books at the moment they are
  processed (spend an owned unspent output or pay an owned address), in order.
    fold_blocks_at        the block record at the height of a block after its transactions: the old record
                          with `touchIds` appended (created with the block hash if there was none)
    bookOf_blocks_snoc    the books of `chain ++ [b]`: record (b.id, touchIds …) at height b.height iff a
                          transaction of `b` touches; other heights as for `chain`
    bookOf_blocks_at      the same for any block of the chain
    touchIds_nil_fold     no touching transaction: the books do not change
    fold_txrecs_snoc, fold_txrecs_back, fold_txrecs_iff, bookOf_txrecs_iff
                          a tx record (t.id, block) ↦ (block hash, position) exactly for the touching transactions
-/
import MW.Lemmas.LedgerChar2
namespace MW.Lemmas.Ledger
open MW MW.Model.Ledger MW.Spec.Chain MW.Spec.Books

-- ------------------------------------------------------------------ touchIds

/-- ids of the transactions that touch the books when they are processed, in order -/
def touchIds (p : Params) (own : Own) : Book → List Occ → List TxId
  | _, [] => []
  | B, oc :: rest => (if touches own B oc.t then [oc.t.id] else []) ++ touchIds p own (applyOcc p own B oc) rest

theorem touchIds_append (p : Params) (own : Own) (ocs₁ ocs₂ : List Occ) :
    ∀ (B : Book), touchIds p own B (ocs₁ ++ ocs₂) =
      touchIds p own B ocs₁ ++ touchIds p own (ocs₁.foldl (applyOcc p own) B) ocs₂ := by
  induction ocs₁ with
  | nil => intro B; simp [touchIds]
  | cons oc ocs₁ ih =>
    intro B
    simp only [List.cons_append, touchIds, List.foldl_cons, ih, List.append_assoc]

theorem touchIds_snoc (p : Params) (own : Own) (B : Book) (ocs : List Occ) (oc : Occ) :
    touchIds p own B (ocs ++ [oc]) =
      touchIds p own B ocs ++ (if touches own (ocs.foldl (applyOcc p own) B) oc.t then [oc.t.id] else []) := by
  rw [touchIds_append]
  simp [touchIds]

/-- no touching transaction: the books do not change -/
theorem touchIds_nil_fold {p : Params} {own : Own} {ocs : List Occ} :
    ∀ {B : Book}, touchIds p own B ocs = [] → ocs.foldl (applyOcc p own) B = B := by
  induction ocs with
  | nil => intro B _; rfl
  | cons oc rest ih =>
    intro B h
    simp only [touchIds, List.append_eq_nil_iff] at h
    obtain ⟨h1, h2⟩ := h
    have ht : touches own B oc.t = false := by
      cases hb : touches own B oc.t with
      | false => rfl
      | true => rw [hb] at h1; simp at h1
    rw [List.foldl_cons]
    rw [applyOcc_untouched ht] at h2 ⊢
    exact ih h2

-- ------------------------------------------------------------------ block records

theorem char_applyOcc_blocks (p : Params) (own : Own) (B : Book) (oc : Occ) :
    (applyOcc p own B oc).blocks = (recStep own B oc).blocks := by
  rw [applyOcc_eq, (depositFold_L ..).2.2.2.2.1, createFold_blocks]
  unfold spendStep
  by_cases hcb : oc.t.cb = true
  · simp [hcb]
  · simp only [hcb]; exact spendFold_blocks ..

/-- a block record after some more relevant transaction ids: created with the block hash if absent -/
def addIds (bm : BlockMeta) (r : Option (BlkId × List TxId)) (ids : List TxId) : Option (BlkId × List TxId) :=
  match ids with
  | [] => r
  | ids => some (match r with
    | none => (bm.hash, ids)
    | some (h0, t0) => (h0, t0 ++ ids))

theorem addIds_append (bm : BlockMeta) (r : Option (BlkId × List TxId)) (a b : List TxId) :
    addIds bm (addIds bm r a) b = addIds bm r (a ++ b) := by
  cases a with
  | nil => rfl
  | cons x a =>
    cases b with
    | nil => simp [addIds]
    | cons y b =>
      cases r with
      | none => simp [addIds]
      | some v => obtain ⟨h0, t0⟩ := v; simp [addIds]

/-- the block record at the height of a transaction, after that transaction -/
theorem char_applyOcc_blocks_at (p : Params) (own : Own) (B : Book) (oc : Occ) :
    (applyOcc p own B oc).blocks oc.bm.height =
      addIds oc.bm (B.blocks oc.bm.height) (if touches own B oc.t then [oc.t.id] else []) := by
  rw [char_applyOcc_blocks]
  unfold recStep
  by_cases ht : touches own B oc.t = true
  · simp only [ht, if_true, recordB]
    cases hb : B.blocks oc.bm.height with
    | none => simp [upd_apply, addIds]
    | some v => obtain ⟨h0, t0⟩ := v; simp [upd_apply, addIds]
  · simp [ht, addIds]

/-- the block record at the height of a block, after (some of) its transactions; `addIds` form -/
theorem fold_blocks_at' (p : Params) (own : Own) (bm : BlockMeta) (ocs : List Occ) :
    ∀ (B : Book), (∀ oc ∈ ocs, oc.bm = bm) →
      (ocs.foldl (applyOcc p own) B).blocks bm.height =
        addIds bm (B.blocks bm.height) (touchIds p own B ocs) := by
  induction ocs with
  | nil => intro B _; rfl
  | cons oc rest ih =>
    intro B h
    have hoc : oc.bm = bm := h oc (List.mem_cons_self ..)
    rw [List.foldl_cons, ih _ (fun oc' h' => h oc' (List.mem_cons_of_mem _ h'))]
    have := char_applyOcc_blocks_at p own B oc
    rw [hoc] at this
    rw [this, addIds_append]
    rfl

/-- BLOCK RECORD at the height of a block after (some of) its transactions `ocs`: unchanged if none of them
    touches the books, else the touching ids appended (record created with the block hash if absent) -/
theorem fold_blocks_at (p : Params) (own : Own) (bm : BlockMeta) (ocs : List Occ) (B : Book)
    (h : ∀ oc ∈ ocs, oc.bm = bm) :
    (ocs.foldl (applyOcc p own) B).blocks bm.height =
      match touchIds p own B ocs with
      | [] => B.blocks bm.height
      | ids => some (match B.blocks bm.height with
        | none => (bm.hash, ids)
        | some (h0, t0) => (h0, t0 ++ ids)) :=
  fold_blocks_at' p own bm ocs B h

/-- the block records at other heights are not written -/
theorem fold_blocks_other (p : Params) (own : Own) (bm : BlockMeta) (ocs : List Occ) (B : Book)
    (h : ∀ oc ∈ ocs, oc.bm = bm) (k : Nat) (hk : k ≠ bm.height) :
    (ocs.foldl (applyOcc p own) B).blocks k = B.blocks k := by
  apply foldOcc_blocks_ne
  intro oc hoc he
  rw [h oc hoc] at he
  exact hk he.symm

-- ------------------------------------------------------------------ block records of `bookOf`

theorem heightsOK_prefix {a c : List Block} (h : HeightsOK (a ++ c)) : HeightsOK a := by
  intro i b hb
  apply h i b
  have hlt : i < a.length := (List.getElem?_eq_some_iff.1 hb).1
  rw [List.getElem?_append_left hlt]; exact hb

theorem heightsOK_lt {a c : List Block} (h : HeightsOK (a ++ c)) : ∀ b ∈ a, b.height < a.length := by
  intro b hb
  obtain ⟨i, hi⟩ := List.getElem?_of_mem hb
  have hlt : i < a.length := (List.getElem?_eq_some_iff.1 hi).1
  rw [heightsOK_prefix h i b hi]; exact hlt

theorem heightsOK_mid {a c : List Block} {b : Block} (h : HeightsOK (a ++ b :: c)) : b.height = a.length := by
  apply h a.length b
  simp

theorem heightsOK_gt {a c : List Block} {b : Block} (h : HeightsOK (a ++ b :: c)) :
    ∀ b' ∈ c, b'.height ≠ b.height := by
  intro b' hb'
  obtain ⟨i, hi⟩ := List.getElem?_of_mem hb'
  have h1 : b'.height = a.length + (i + 1) := by
    apply h
    rw [List.getElem?_append_right (by omega)]
    simpa using hi
  rw [heightsOK_mid h, h1]; omega

/-- BLOCK RECORDS of `chain ++ [b]`: at the height of `b` there is a record iff a transaction of `b`
    touches the books, and it lists the touching transactions in block order -/
theorem bookOf_blocks_snoc (p : Params) (own : Own) (chain : List Block) (b : Block)
    (hH : HeightsOK (chain ++ [b])) :
    (bookOf p own (chain ++ [b])).blocks b.height =
      match touchIds p own (bookOf p own chain) (occsOfBlock b) with
      | [] => none
      | ids => some (b.id, ids) := by
  have hbh : b.height = chain.length := heightsOK_mid hH
  have hnone : (bookOf p own chain).blocks b.height = none :=
    bookOf_blocks_height (heightsOK_lt hH) b.height (by omega)
  rw [bookOf_snoc]
  have := fold_blocks_at' p own ⟨b.height, b.id⟩ (occsOfBlock b) (bookOf p own chain) (fun oc h => mem_occsFrom_bm h)
  simp only at this
  rw [this, hnone]
  unfold addIds
  cases touchIds p own (bookOf p own chain) (occsOfBlock b) <;> rfl

theorem bookOf_blocks_snoc_ne (p : Params) (own : Own) (chain : List Block) (b : Block) (k : Nat)
    (hk : k ≠ b.height) : (bookOf p own (chain ++ [b])).blocks k = (bookOf p own chain).blocks k := by
  rw [bookOf_snoc]
  exact fold_blocks_other p own ⟨b.height, b.id⟩ (occsOfBlock b) _ (fun oc h => mem_occsFrom_bm h) k hk

/-- BLOCK RECORD of any block of the chain: present iff one of its transactions touches the books of the
    chain before it; lists the touching transactions in block order -/
theorem bookOf_blocks_at (p : Params) (own : Own) (pre post : List Block) (b : Block)
    (hH : HeightsOK (pre ++ b :: post)) :
    (bookOf p own (pre ++ b :: post)).blocks b.height =
      match touchIds p own (bookOf p own pre) (occsOfBlock b) with
      | [] => none
      | ids => some (b.id, ids) := by
  have hsplit : pre ++ b :: post = (pre ++ [b]) ++ post := by simp
  have hH' : HeightsOK (pre ++ [b]) := by rw [hsplit] at hH; exact heightsOK_prefix hH
  rw [← bookOf_blocks_snoc p own pre b hH']
  have : bookOf p own (pre ++ b :: post) = (occs post).foldl (applyOcc p own) (bookOf p own (pre ++ [b])) := by
    rw [hsplit]; unfold bookOf; rw [occs_append, List.foldl_append]
  rw [this]
  apply foldOcc_blocks_ne
  intro oc hoc he
  obtain ⟨b', hb', hbm⟩ := mem_occs_height hoc
  apply heightsOK_gt hH b' hb'
  rw [← he, hbm]

/-- heights without a block of the chain have no record -/
theorem bookOf_blocks_none (p : Params) (own : Own) (chain : List Block) (hH : HeightsOK chain) (k : Nat)
    (hk : chain.length ≤ k) : (bookOf p own chain).blocks k = none := by
  apply bookOf_blocks_height (n := chain.length) _ k hk
  have : HeightsOK (chain ++ []) := by simpa using hH
  exact heightsOK_lt this

-- ------------------------------------------------------------------ tx records

theorem char_applyOcc_txrecs (p : Params) (own : Own) (B : Book) (oc : Occ) :
    (applyOcc p own B oc).txrecs = (recStep own B oc).txrecs := by
  rw [applyOcc_eq, (depositFold_same ..).2.2, createFold_txrecs, spendStep_txrecs]

/-- the tx-record table after one transaction, pointwise -/
theorem char_applyOcc_txrecs_apply (p : Params) (own : Own) (B : Book) (oc : Occ) (key : TxId × BlockMeta) :
    (applyOcc p own B oc).txrecs key =
      if touches own B oc.t = true ∧ (oc.t.id, oc.bm) = key then some (oc.bm.hash, oc.ti) else B.txrecs key := by
  rw [char_applyOcc_txrecs]
  unfold recStep
  by_cases ht : touches own B oc.t = true
  · simp only [ht, if_true, recordB, upd_apply, true_and]
  · simp [ht]

/-- a touching transaction gets its tx record: (id, block) ↦ (block hash, position in the block) -/
theorem applyOcc_txrecs_touch (p : Params) (own : Own) (B : Book) (oc : Occ) (ht : touches own B oc.t = true) :
    (applyOcc p own B oc).txrecs (oc.t.id, oc.bm) = some (oc.bm.hash, oc.ti) := by
  rw [char_applyOcc_txrecs_apply]; simp [ht]

/-- TX RECORD of the last transaction processed -/
theorem fold_txrecs_snoc (p : Params) (own : Own) (B : Book) (ocs₁ : List Occ) (oc : Occ)
    (ht : touches own (ocs₁.foldl (applyOcc p own) B) oc.t = true) :
    ((ocs₁ ++ [oc]).foldl (applyOcc p own) B).txrecs (oc.t.id, oc.bm) = some (oc.bm.hash, oc.ti) := by
  rw [List.foldl_append]
  exact applyOcc_txrecs_touch p own _ oc ht

/-- a tx record is only written under the key of a transaction that is processed -/
theorem fold_txrecs_keep (p : Params) (own : Own) (ocs : List Occ) (key : TxId × BlockMeta) :
    ∀ (B : Book), (∀ oc ∈ ocs, (oc.t.id, oc.bm) ≠ key) →
      (ocs.foldl (applyOcc p own) B).txrecs key = B.txrecs key := by
  induction ocs with
  | nil => intro B _; rfl
  | cons oc rest ih =>
    intro B h
    rw [List.foldl_cons, ih _ (fun oc' h' => h oc' (List.mem_cons_of_mem _ h')), char_applyOcc_txrecs_apply]
    have := h oc (List.mem_cons_self ..)
    simp [this]

/-- every tx record was there before or belongs to a transaction that touched the books when processed -/
theorem fold_txrecs_back (p : Params) (own : Own) (ocs : List Occ) :
    ∀ (B : Book) (key : TxId × BlockMeta) (loc : BlkId × Nat),
      (ocs.foldl (applyOcc p own) B).txrecs key = some loc →
      B.txrecs key = some loc ∨
      ∃ ocs₁ oc ocs₂, ocs = ocs₁ ++ oc :: ocs₂ ∧ touches own (ocs₁.foldl (applyOcc p own) B) oc.t = true ∧
        key = (oc.t.id, oc.bm) ∧ loc = (oc.bm.hash, oc.ti) := by
  induction ocs with
  | nil => intro B key loc h; exact Or.inl h
  | cons oc rest ih =>
    intro B key loc h
    rw [List.foldl_cons] at h
    rcases ih _ key loc h with h1 | ⟨ocs₁, oc', ocs₂, hsplit, ht, hk, hl⟩
    · rw [char_applyOcc_txrecs_apply] at h1
      by_cases hc : touches own B oc.t = true ∧ (oc.t.id, oc.bm) = key
      · rw [if_pos hc] at h1
        injection h1 with h1
        exact Or.inr ⟨[], oc, rest, rfl, hc.1, hc.2.symm, h1.symm⟩
      · rw [if_neg hc] at h1; exact Or.inl h1
    · exact Or.inr ⟨oc :: ocs₁, oc', ocs₂, by rw [hsplit]; rfl, ht, hk, hl⟩

/-- TX RECORDS of the books after the transactions `P` (pairwise distinct ids): exactly one record per
    transaction that touches the books when it is processed, with its block hash and position -/
theorem fold_txrecs_iff (p : Params) (own : Own) (P : List Occ) (hn : (idsOf P).Nodup)
    (key : TxId × BlockMeta) (loc : BlkId × Nat) :
    (P.foldl (applyOcc p own) {}).txrecs key = some loc ↔
      ∃ P₁ oc P₂, P = P₁ ++ oc :: P₂ ∧ touches own (P₁.foldl (applyOcc p own) {}) oc.t = true ∧
        key = (oc.t.id, oc.bm) ∧ loc = (oc.bm.hash, oc.ti) := by
  constructor
  · intro h
    rcases fold_txrecs_back p own P {} key loc h with h1 | h1
    · cases h1
    · exact h1
  · rintro ⟨P₁, oc, P₂, hsplit, ht, rfl, rfl⟩
    have hsplit' : P = (P₁ ++ [oc]) ++ P₂ := by rw [hsplit]; simp
    rw [hsplit', List.foldl_append, fold_txrecs_keep, fold_txrecs_snoc p own {} P₁ oc ht]
    intro oc' hoc' he
    have hid : oc'.t.id = oc.t.id := congrArg Prod.fst he
    rw [hsplit] at hn
    unfold idsOf at hn
    rw [List.map_append, List.map_cons, List.nodup_append] at hn
    have := (List.nodup_cons.1 hn.2.1).1
    apply this
    rw [← hid]
    exact List.mem_map.2 ⟨oc', hoc', rfl⟩

/-- the tx-record table of the books of a valid chain -/
theorem bookOf_txrecs_iff {p : Params} {own : Own} {chain : List Block} (hV : ChainValid own chain)
    (key : TxId × BlockMeta) (loc : BlkId × Nat) :
    (bookOf p own chain).txrecs key = some loc ↔
      ∃ P₁ oc P₂, occs chain = P₁ ++ oc :: P₂ ∧ touches own (P₁.foldl (applyOcc p own) {}) oc.t = true ∧
        key = (oc.t.id, oc.bm) ∧ loc = (oc.bm.hash, oc.ti) :=
  fold_txrecs_iff p own (occs chain) (glob_bookOf (p := p) hV).idsNodup key loc

end MW.Lemmas.Ledger
