/-
  C08, `remove ⊨ project`, part 1 — a statement about MW.Spec.Books ALONE:
  the books of a chain for the keystore view WITHOUT wallet `w` (`own'`, `OwnMinus own own' w`) are the
  restriction of the books for the full view `own` to the other wallets (`BookMinus`):
    L        the ledger list, filtered to the coins of other wallets (same order)
    credits  the credits paying another wallet's script hash (same value: spent flag, spender)
    debits   the debits of those credits
    game     the deposit records keyed by another wallet
    txrecs   the records of exactly the transactions `NeededBy` another wallet: an output pays `own'`, or an
             input spends an output that has a credit of another wallet
  and `ChainValid own chain → ChainValid own' chain`.
-/
import MW.Lemmas.LedgerOwn
import MW.Lemmas.RemoveScan
namespace MW.Lemmas.RemoveProj
open MW MW.Model.Ledger MW.Spec.Chain MW.Spec.Books MW.Lemmas.Ledger

-- ------------------------------------------------------------------ the keystore view without one wallet

/-- `own'` is the keystore view `own` without the addresses of wallet `w` -/
def OwnMinus (own own' : Own) (w : Wid) : Prop :=
  ∀ a, AMap.get own' a = (AMap.get own a).filter (fun x => decide (x.1 ≠ w))

/-- is script hash `a` one of wallet `w`'s (in the keystore view `own`)? -/
def isW (own : Own) (w : Wid) (a : Addr) : Bool :=
  match AMap.get own a with
  | some x => decide (x.1 = w)
  | none => false

/-- the coin belongs to another wallet -/
def keepU (w : Wid) (u : UCoin) : Bool := decide (u.wallet ≠ w)

/-- dropping the entries of `w` from a keystore table with pairwise distinct addresses (what the driver's
    `dropKeystore` does) gives such a view -/
theorem ownMinus_filter {own : Own} (hn : KeysNodup own) (w : Wid) :
    OwnMinus own (own.filter (fun e => e.2.1 != w)) w := by
  intro a
  induction own with
  | nil => rfl
  | cons e m ih =>
    unfold KeysNodup at hn
    simp only [List.map_cons, List.nodup_cons] at hn
    have ih' := ih hn.2
    by_cases hw : e.2.1 = w
    · have : (e.2.1 != w) = false := by simp [hw]
      simp only [List.filter, this]
      rw [ih', AMap.get_cons]
      by_cases hk : e.1 = a
      · simp only [hk, if_true]
        have hnone : AMap.get m a = none := by
          apply MW.Lemmas.RemoveScan.get_eq_none_of_forall
          intro x hx hxa
          exact hn.1 (List.mem_map.2 ⟨x, hx, by rw [hxa, hk]⟩)
        rw [hnone]
        simp [Option.filter, hw]
      · simp [hk]
    · have : (e.2.1 != w) = true := by simp [hw]
      simp only [List.filter, this]
      rw [AMap.get_cons, AMap.get_cons]
      by_cases hk : e.1 = a
      · simp [hk, Option.filter, hw]
      · simp only [hk, if_false]; exact ih'

section
variable {own own' : Own} {w : Wid}

theorem ownerOf_minus (hO : OwnMinus own own' w) (o : Out) :
    ownerOf own' o = (ownerOf own o).filter (fun x => decide (x.1 ≠ w)) := by
  unfold ownerOf
  by_cases hr : o.cls = .raw
  · simp [hr]
  · simp only [hr, if_false]; exact hO o.addr

theorem ownerOf_minus_some (hO : OwnMinus own own' w) {o : Out} {x : Wid × Bool} :
    ownerOf own' o = some x ↔ ownerOf own o = some x ∧ x.1 ≠ w := by
  rw [ownerOf_minus hO]
  cases h : ownerOf own o with
  | none => simp
  | some y =>
    by_cases hy : y.1 = w
    · simp only [Option.filter, hy, ne_eq, not_true_eq_false, decide_false, Bool.false_eq_true, if_false]
      constructor
      · intro h'; cases h'
      · rintro ⟨h1, h2⟩; cases h1; exact absurd hy h2
    · simp only [Option.filter, hy, ne_eq, not_false_eq_true, decide_true, if_true, Option.some.injEq]
      constructor
      · intro h'; subst h'; exact ⟨rfl, hy⟩
      · exact fun h' => h'.1

theorem ownerOf_minus_isSome (hO : OwnMinus own own' w) {o : Out} (h : (ownerOf own' o).isSome = true) :
    (ownerOf own o).isSome = true := by
  cases h' : ownerOf own' o with
  | none => rw [h'] at h; cases h
  | some x => rw [((ownerOf_minus_some hO).1 h').1]; rfl

/-- the owner of an owned output decides `isW` of its script hash -/
theorem isW_of_owner {o : Out} {x : Wid × Bool} (h : ownerOf own o = some x) : isW own w o.addr = decide (x.1 = w) := by
  unfold ownerOf at h
  by_cases hr : o.cls = .raw
  · simp [hr] at h
  · simp only [hr, if_false] at h
    unfold isW; rw [h]

theorem createdIn_minus (hO : OwnMinus own own' w) {P : List Occ} {u : UCoin} :
    CreatedIn own' P u ↔ CreatedIn own P u ∧ u.wallet ≠ w := by
  unfold CreatedIn
  constructor
  · rintro ⟨oc, hoc, h1, h2, h3, h4, h5⟩
    obtain ⟨h3a, h3b⟩ := (ownerOf_minus_some hO).1 h3
    exact ⟨⟨oc, hoc, h1, h2, h3a, h4, h5⟩, h3b⟩
  · rintro ⟨⟨oc, hoc, h1, h2, h3, h4, h5⟩, hw⟩
    exact ⟨oc, hoc, h1, h2, (ownerOf_minus_some hO).2 ⟨h3, hw⟩, h4, h5⟩

theorem isW_created {P : List Occ} {u : UCoin} (h : CreatedIn own P u) : isW own w u.out.addr = decide (u.wallet = w) := by
  obtain ⟨_, _, _, _, h3, _⟩ := h
  exact isW_of_owner h3

-- ------------------------------------------------------------------ validity

theorem bindingSrc_minus (hO : OwnMinus own own' w) (P : List Occ) (i : Inp) (h : bindingSrc own' P i = true) :
    bindingSrc own P i = true := by
  unfold bindingSrc at h ⊢
  cases hs : srcOut P i.tx i.idx with
  | none => rw [hs] at h; cases h
  | some o =>
    rw [hs] at h
    simp only [Bool.and_eq_true] at h ⊢
    exact ⟨ownerOf_minus_isSome hO h.1, h.2⟩

theorem occValid_minus (hO : OwnMinus own own' w) {P : List Occ} {oc : Occ} (h : OccValid own P oc) :
    OccValid own' P oc := by
  obtain ⟨h1, h2, h3, h4, h5⟩ := h
  refine ⟨h1, h2, h3, h4, ?_⟩
  cases hb : (!oc.t.cb && oc.t.ins.any (bindingSrc own' P) &&
      oc.t.outs.any (fun o => (ownerOf own' o).isSome && o.cls.isBinding)) with
  | false => rfl
  | true =>
    exfalso
    simp only [Bool.and_eq_true, List.any_eq_true, Bool.not_eq_true'] at hb
    obtain ⟨⟨hcb, i, hi, hbi⟩, o, ho, hoo, hob⟩ := hb
    have : (!oc.t.cb && oc.t.ins.any (bindingSrc own P) &&
      oc.t.outs.any (fun o => (ownerOf own o).isSome && o.cls.isBinding)) = true := by
      simp only [Bool.and_eq_true, List.any_eq_true, Bool.not_eq_true']
      exact ⟨⟨hcb, i, hi, bindingSrc_minus hO P i hbi⟩, o, ho, ownerOf_minus_isSome hO hoo, hob⟩
    rw [this] at h5; cases h5

theorem validFrom_minus (hO : OwnMinus own own' w) {P rest : List Occ} (h : ValidFrom own P rest) :
    ValidFrom own' P rest := by
  induction rest generalizing P with
  | nil => trivial
  | cons oc rest ih => exact ⟨occValid_minus hO h.1, ih h.2⟩

/-- a chain that is valid for the full keystore view is valid for the view without `w` -/
theorem chainValid_minus (hO : OwnMinus own own' w) {chain : List Block} (h : ChainValid own chain) :
    ChainValid own' chain := validFrom_minus hO h

-- ------------------------------------------------------------------ the ledger list

theorem mkU_minus (hO : OwnMinus own own' w) (t : Tx) (bm : BlockMeta) (oj : Out × Nat) :
    mkU own' t bm oj = (mkU own t bm oj).filter (keepU w) := by
  unfold mkU
  rw [ownerOf_minus hO]
  cases h : ownerOf own oj.1 with
  | none => rfl
  | some x =>
    by_cases hx : x.1 = w <;> simp [Option.filter, keepU, hx]

theorem filterMap_filter_opt {α β : Type} (f : α → Option β) (q : β → Bool) (l : List α) :
    l.filterMap (fun x => (f x).filter q) = (l.filterMap f).filter q := by
  induction l with
  | nil => rfl
  | cons a l ih =>
    rw [List.filterMap_cons, List.filterMap_cons]
    cases h : f a with
    | none => exact ih
    | some b =>
      by_cases hq : q b = true
      · have : Option.filter q (some b) = some b := by simp [Option.filter, hq]
        rw [this]
        simp only [List.filter_cons, hq, if_true]
        rw [ih]
      · have : Option.filter q (some b) = none := by simp [Option.filter, hq]
        rw [this]
        simp only [List.filter_cons, hq, Bool.false_eq_true, if_false]
        exact ih

theorem applyOcc_L_minus (hO : OwnMinus own own' w) (p : Params) (B B' : Book) (oc : Occ)
    (h : B'.L = B.L.filter (keepU w)) :
    (applyOcc p own' B' oc).L = (applyOcc p own B oc).L.filter (keepU w) := by
  rw [applyOcc_L, applyOcc_L, List.filter_append, h]
  have h2 : (oc.t.outs.zipIdx 0).filterMap (mkU own' oc.t oc.bm) =
      ((oc.t.outs.zipIdx 0).filterMap (mkU own oc.t oc.bm)).filter (keepU w) := by
    rw [← filterMap_filter_opt]
    congr 1
    funext oj
    exact mkU_minus hO oc.t oc.bm oj
  rw [h2]
  congr 1
  by_cases hcb : oc.t.cb = true
  · simp [hcb]
  · have hcb' : oc.t.cb = false := by simpa using hcb
    rw [hcb']
    simp only [Bool.false_eq_true, if_false]
    rw [List.filter_filter, List.filter_filter]
    apply List.filter_congr
    intro u _
    exact Bool.and_comm _ _

theorem fold_L_minus (hO : OwnMinus own own' w) (p : Params) (ocs : List Occ) (B B' : Book)
    (h : B'.L = B.L.filter (keepU w)) :
    (ocs.foldl (applyOcc p own') B').L = (ocs.foldl (applyOcc p own) B).L.filter (keepU w) := by
  induction ocs generalizing B B' with
  | nil => exact h
  | cons oc ocs ih => exact ih _ _ (applyOcc_L_minus hO p B B' oc h)

/-- the totals of the other wallets are those of the full ledger -/
theorem totalU_minus (L : List UCoin) {w w' : Wid} (h : w' ≠ w) : totalU (L.filter (keepU w)) w' = totalU L w' := by
  unfold totalU
  rw [List.filter_filter]
  congr 2
  apply List.filter_congr
  intro u _
  unfold keepU
  by_cases hu : u.wallet = w'
  · simp [hu, h]
  · simp [hu]

/-- looking up an outpoint in the filtered ledger list (one entry per outpoint) -/
theorem lookupU_minus {L : List UCoin} (hk : ∀ u ∈ L, ∀ u' ∈ L, u.tx = u'.tx → u.idx = u'.idx → u = u')
    (w : Wid) (tx : TxId) (idx : Nat) :
    lookupU (L.filter (keepU w)) tx idx = (lookupU L tx idx).filter (keepU w) := by
  cases h : lookupU L tx idx with
  | none =>
    cases h' : lookupU (L.filter (keepU w)) tx idx with
    | none => rfl
    | some u =>
      obtain ⟨hm, ht, hi⟩ := lookupU_some h'
      exact absurd ⟨ht, hi⟩ (lookupU_none h u (List.mem_filter.1 hm).1)
  | some u =>
    obtain ⟨hm, ht, hi⟩ := lookupU_some h
    by_cases hu : keepU w u = true
    · simp only [Option.filter, hu, if_true]
      cases h' : lookupU (L.filter (keepU w)) tx idx with
      | none =>
        exact absurd ⟨ht, hi⟩ (lookupU_none h' u (List.mem_filter.2 ⟨hm, hu⟩))
      | some u' =>
        obtain ⟨hm', ht', hi'⟩ := lookupU_some h'
        rw [hk u' (List.mem_filter.1 hm').1 u hm (ht'.trans ht.symm) (hi'.trans hi.symm)]
    · simp only [Option.filter, hu, Bool.false_eq_true, if_false]
      cases h' : lookupU (L.filter (keepU w)) tx idx with
      | none => rfl
      | some u' =>
        obtain ⟨hm', ht', hi'⟩ := lookupU_some h'
        have := hk u' (List.mem_filter.1 hm').1 u hm (ht'.trans ht.symm) (hi'.trans hi.symm)
        rw [this] at hm'
        exact absurd (List.mem_filter.1 hm').2 hu

-- ------------------------------------------------------------------ credits, debits, deposit records

theorem credits_minus (hO : OwnMinus own own' w) {p : Params} {P : List Occ} {B B' : Book}
    (hC : CredInv p own P B) (hC' : CredInv p own' P B') (ck : CredKey) (cr : Credit) :
    B'.credits ck = some cr ↔ B.credits ck = some cr ∧ isW own w cr.sh = false := by
  constructor
  · intro h
    obtain ⟨u, hu', hck⟩ := hC'.only ck cr h
    obtain ⟨hu, hw⟩ := (createdIn_minus hO).1 hu'
    have hsh : isW own w u.out.addr = false := by rw [isW_created hu]; simpa using hw
    subst hck
    by_cases hs : (u.tx, u.idx) ∈ spentOps P
    · obtain ⟨dk, hdk⟩ := mem_spentOps_spentBy hs
      have h1 := hC'.spent u dk hu' hdk
      rw [h] at h1
      injection h1 with h1
      exact ⟨by rw [hC.spent u dk hu hdk, h1], by rw [h1]; exact hsh⟩
    · have h1 := hC'.unspent u hu' hs
      rw [h] at h1
      injection h1 with h1
      exact ⟨by rw [hC.unspent u hu hs, h1], by rw [h1]; exact hsh⟩
  · rintro ⟨h, hsh⟩
    obtain ⟨u, hu, hck⟩ := hC.only ck cr h
    subst hck
    by_cases hs : (u.tx, u.idx) ∈ spentOps P
    · obtain ⟨dk, hdk⟩ := mem_spentOps_spentBy hs
      have h1 := hC.spent u dk hu hdk
      rw [h] at h1
      injection h1 with h1
      have hw : u.wallet ≠ w := by
        rw [h1] at hsh
        have := isW_created (w := w) hu
        simp only [creditOf] at hsh
        rw [this] at hsh; simpa using hsh
      rw [hC'.spent u dk ((createdIn_minus hO).2 ⟨hu, hw⟩) hdk, h1]
    · have h1 := hC.unspent u hu hs
      rw [h] at h1
      injection h1 with h1
      have hw : u.wallet ≠ w := by
        rw [h1] at hsh
        have := isW_created (w := w) hu
        simp only [creditOf] at hsh
        rw [this] at hsh; simpa using hsh
      rw [hC'.unspent u ((createdIn_minus hO).2 ⟨hu, hw⟩) hs, h1]

theorem debits_minus (hO : OwnMinus own own' w) {p : Params} {P : List Occ} {B B' : Book}
    (hC : CredInv p own P B) (hD : DebitInv own P B) (hD' : DebitInv own' P B') (dk : CredKey) (d : Nat × CredKey) :
    B'.debits dk = some d ↔ B.debits dk = some d ∧ ∃ cr, B.credits d.2 = some cr ∧ isW own w cr.sh = false := by
  obtain ⟨amt, ck⟩ := d
  constructor
  · intro h
    obtain ⟨u, hu', hsp, ha, hck⟩ := (hD' dk amt ck).1 h
    obtain ⟨hu, hw⟩ := (createdIn_minus hO).1 hu'
    refine ⟨(hD dk amt ck).2 ⟨u, hu, hsp, ha, hck⟩, _, by rw [hck]; exact hC.spent u dk hu hsp, ?_⟩
    show isW own w u.out.addr = false
    rw [isW_created hu]; simpa using hw
  · rintro ⟨h, cr, hcr, hsh⟩
    obtain ⟨u, hu, hsp, ha, hck⟩ := (hD dk amt ck).1 h
    have h1 := hC.spent u dk hu hsp
    simp only at hcr
    rw [hck, h1] at hcr
    injection hcr with hcr
    have hw : u.wallet ≠ w := by
      rw [← hcr] at hsh
      have := isW_created (w := w) hu
      simp only [creditOf] at hsh
      rw [this] at hsh; simpa using hsh
    exact (hD' dk amt ck).2 ⟨u, (createdIn_minus hO).2 ⟨hu, hw⟩, hsp, ha, hck⟩

theorem game_minus (hO : OwnMinus own own' w) {P : List Occ} {B B' : Book}
    (hG : GameInv own P B) (hG' : GameInv own' P B') (gk : GameKey) :
    B'.game gk = some () ↔ B.game gk = some () ∧ gk.wallet ≠ w := by
  constructor
  · intro h
    obtain ⟨u, hu', hd, hgk⟩ := (hG' gk).1 h
    obtain ⟨hu, hw⟩ := (createdIn_minus hO).1 hu'
    exact ⟨(hG gk).2 ⟨u, hu, hd, hgk⟩, by rw [hgk]; exact hw⟩
  · rintro ⟨h, hw⟩
    obtain ⟨u, hu, hd, hgk⟩ := (hG gk).1 h
    have hw' : u.wallet ≠ w := by rw [hgk] at hw; exact hw
    exact (hG' gk).2 ⟨u, (createdIn_minus hO).2 ⟨hu, hw'⟩, hd, hgk⟩

end
end MW.Lemmas.RemoveProj
